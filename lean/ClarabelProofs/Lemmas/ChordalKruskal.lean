/-
  The clique tree of the clique-graph merge strategy (`ClarabelModel/Chordal/MergeCG.lean`,
  Rust `src/solver/chordal/merge/clique_graph.rs`): `kruskal`, `find_neighbors`,
  `assign_children`, `determine_parent_cliques`.

  1. closed form of `kruskal`: the `for … break` loop is the recursion `kTrace` over the edge
     list sorted by decreasing weight (`kruskal_eq_forIn`, `kruskal_eq_kTrace`);
  2. `kruskal_ok`, `kruskal_forest`, `kruskal_complete_or_break`, `kruskal_spanning`: no panic,
     only the marked values change (to `-1`), the marked edges are acyclic, the final union-find
     partition is their connectivity, and on a connected live set they are a spanning tree
     (`forest_connected_iff` is the counting step);
  3. `forest_oriented`: a forest can be rooted at any choice of representatives;
  4. closed forms of `column` / `get_entry` / `find_neighbors`, and the depth-first search of
     `assign_children` (`assignChildren_spec`), giving `determineParentCliques_tree` and
     `kruskal_determineParentCliques`: the parent array orients the spanning tree towards the
     root clique and the children sets are its inverse.
  All theorems here are class [S].
-/
import ClarabelModel.Chordal.MergeCG
import ClarabelProofs.Lemmas.ChordalDsu
import ClarabelProofs.Lemmas.ChordalPostOrder
import Mathlib.Logic.Relation
import Mathlib.Data.List.Nodup

namespace Clarabel.Chordal
open Clarabel

/-! ## reads and writes in `MErr` -/

namespace Kr

/-- [S] an in-range read succeeds -/
theorem getE_ok {β : Type} (xs : Array β) (i : Nat) (s : String) (d : β) (h : i < xs.size) :
    getE xs i s = .ok (xs.getD i d) := by
  unfold getE
  simp [h, Array.getD, pure, Except.pure]

/-- [S] an in-range write succeeds -/
theorem setE_ok {β : Type} (xs : Array β) (i : Nat) (v : β) (s : String) (h : i < xs.size) :
    setE xs i v s = .ok (xs.setIfInBounds i v) := by
  unfold setE
  simp [h, Array.setIfInBounds, pure, Except.pure]

/-- [S] writing back the value read changes nothing -/
theorem setIfInBounds_getD_self {β : Type} (xs : Array β) (i : Nat) (d : β) (h : i < xs.size) :
    xs.setIfInBounds i (xs.getD i d) = xs := by
  apply Array.ext
  · simp
  · intro j h1 h2
    by_cases e : i = j
    · subst e; simp [Array.getD_eq_getD_getElem?, h]
    · rw [Array.getElem_setIfInBounds_ne]
      exact e

end Kr

/-! ## closed form of the loop of `kruskal` -/

/-- the body of the `for k in 0..` loop of `kruskal` -/
def kruskalStep (I J p : Array Nat) (numCliques : Nat) (k : Nat) (st : Dsu × Nat × Array Int) :
    MErr (ForInStep (Dsu × Nat × Array Int)) := do
  let row ← getE I k "kruskal"
  let col ← getE J k "kruskal"
  let (d, same) ← st.1.inSameSet row col
  if !same then
    let d ← d.union row col
    let pk ← getE p k "kruskal"
    let nzval ← setE st.2.2 pk (-1) "kruskal"
    if numCliques == 0 then throw (.panic "kruskal: underflow")
    if st.2.1 + 1 ≥ numCliques - 1 then pure (.done (d, st.2.1 + 1, nzval))
    else pure (.yield (d, st.2.1 + 1, nzval))
  else pure (.yield (d, st.2.1, st.2.2))

/-- [S] `kruskal` with its `for` loop over the range turned into `forIn` over the list
`0, 1, …, min I.size J.size - 1` (no hypotheses) -/
theorem kruskal_eq_forIn (E : IMat) (numCliques : Nat) :
    kruskal E numCliques = (do
      let (I0, J0, V0) ← E.findnz
      let p := sortpermRev V0
      let I ← permuteVec I0 p "kruskal: permute"
      let J ← permuteVec J0 p "kruskal: permute"
      let s ← forIn (List.range' 0 (min I.size J.size)) (Dsu.new E.n, 0, E.nzval)
        (kruskalStep I J p numCliques)
      pure { E with nzval := s.2.2 }) := by
  unfold kruskal
  simp only [Std.Legacy.Range.forIn_eq_forIn_range', Std.Legacy.Range.size, Nat.sub_zero,
    Nat.add_sub_cancel, Nat.div_one]
  rfl

/-! ## the loop as a plain recursion over the sorted edge list -/

/-- a (sorted) edge of `kruskal`: `(position in nzval, row, column)` -/
abbrev KEdge := Nat × Nat × Nat

/-- the two end points of an edge -/
def KEdge.pair (e : KEdge) : Nat × Nat := (e.2.1, e.2.2)

/-- final state of the loop of `kruskal`, with two ghost fields: the edges that were marked (in
the order they were marked) and whether the loop was left through `break` -/
structure KRes where
  d : Dsu
  found : Nat
  nzval : Array Int
  marked : List KEdge
  broke : Bool

/-- the loop of `kruskal` as a recursion over the list of edges (sorted by decreasing weight) -/
def kTrace (numCliques : Nat) : List KEdge → Dsu → Nat → Array Int → MErr KRes
  | [], d, f, nz => pure ⟨d, f, nz, [], false⟩
  | e :: es, d, f, nz => do
    let (d, same) ← d.inSameSet e.2.1 e.2.2
    if !same then
      let d ← d.union e.2.1 e.2.2
      let nz ← setE nz e.1 (-1) "kruskal"
      if numCliques == 0 then throw (.panic "kruskal: underflow")
      if f + 1 ≥ numCliques - 1 then pure ⟨d, f + 1, nz, [e], true⟩
      else do
        let r ← kTrace numCliques es d (f + 1) nz
        pure { r with marked := e :: r.marked }
    else kTrace numCliques es d f nz

/-- the edges visited by iterations `i, i+1, …, i+len-1` -/
def kEdgesOf (I J p : Array Nat) (i len : Nat) : List KEdge :=
  (List.range' i len).map (fun k => (p.getD k 0, I.getD k 0, J.getD k 0))

/-- [S] the `forIn` loop of `kruskal` is `kTrace` on the visited edges -/
theorem forIn_kruskalStep_eq (I J p : Array Nat) (nc : Nat) (len : Nat) :
    ∀ (i : Nat) (d : Dsu) (f : Nat) (nz : Array Int),
      i + len ≤ I.size → i + len ≤ J.size → i + len ≤ p.size →
      forIn (List.range' i len) (d, f, nz) (kruskalStep I J p nc) =
        (kTrace nc (kEdgesOf I J p i len) d f nz).map (fun r => (r.d, r.found, r.nzval)) := by
  induction len with
  | zero => intro i d f nz _ _ _; rfl
  | succ len ih =>
    intro i d f nz hI hJ hp
    have e1 : kEdgesOf I J p i (len + 1) =
        (p.getD i 0, I.getD i 0, J.getD i 0) :: kEdgesOf I J p (i + 1) len := by
      simp [kEdgesOf, List.range'_succ]
    rw [e1, List.range'_succ, List.forIn_cons]
    simp only [kruskalStep, kTrace, Kr.getE_ok I i _ 0 (by omega), Kr.getE_ok J i _ 0 (by omega),
      Kr.getE_ok p i _ 0 (by omega), bind, Except.bind, pure, Except.pure]
    cases h1 : d.inSameSet (I.getD i 0) (J.getD i 0) with
    | error e => rfl
    | ok ds =>
      obtain ⟨d1, same⟩ := ds
      cases same with
      | true =>
        simp only [Bool.not_true, Bool.false_eq_true, if_false]
        exact ih (i + 1) d1 f nz (by omega) (by omega) (by omega)
      | false =>
        simp only [Bool.not_false, if_true]
        cases h2 : d1.union (I.getD i 0) (J.getD i 0) with
        | error e => rfl
        | ok d2 =>
          simp only []
          cases h3 : setE nz (p.getD i 0) (-1) "kruskal" with
          | error e => rfl
          | ok nz2 =>
            simp only []
            by_cases h4 : (nc == 0) = true
            · simp only [h4, if_true]; rfl
            · simp only [h4]
              by_cases h5 : f + 1 ≥ nc - 1
              · simp only [h5, if_true]; rfl
              · simp only [h5, if_false, Bool.false_eq_true]
                have := ih (i + 1) d2 (f + 1) nz2 (by omega) (by omega) (by omega)
                rw [this]
                cases kTrace nc (kEdgesOf I J p (i + 1) len) d2 (f + 1) nz2 <;> rfl

/-! ## well-formed edge matrices, `findnz`, `permuteVec` -/

/-- a well-formed compressed-column edge matrix -/
structure IMat.WFE (E : IMat) : Prop where
  cpsize : E.colptr.size = E.n + 1
  cp0 : E.colptr.getD 0 0 = 0
  mono : ∀ c, c < E.n → E.colptr.getD c 0 ≤ E.colptr.getD (c + 1) 0
  nnz_row : E.colptr.getD E.n 0 = E.rowval.size
  nnz_val : E.nzval.size = E.rowval.size
  rows : ∀ k, k < E.rowval.size → E.rowval.getD k 0 < E.n

/-- the column index of every stored entry (`J` of `findnz`) -/
def IMat.colIdx (E : IMat) : List Nat :=
  (List.range E.n).flatMap
    (fun c => List.replicate (E.colptr.getD (c + 1) 0 - E.colptr.getD c 0) c)

/-- the body of the loop of `findnz` -/
def findnzStep (A : IMat) (c : Nat) (J : Array Nat) : MErr (ForInStep (Array Nat)) := do
  let hi ← getE A.colptr (c + 1) "findnz"
  let lo ← getE A.colptr c "findnz"
  if hi < lo then throw (.panic "findnz: underflow")
  pure (.yield (J ++ Array.replicate (hi - lo) c))

/-- [S] `findnz` with its loop as `forIn` over `0 … n-1` (no hypotheses) -/
theorem findnz_eq_forIn (A : IMat) :
    A.findnz = (do
      let J ← forIn (List.range' 0 A.n) (#[] : Array Nat) (findnzStep A)
      pure (A.rowval, J, A.nzval)) := by
  unfold IMat.findnz
  simp only [Std.Legacy.Range.forIn_eq_forIn_range', Std.Legacy.Range.size, Nat.sub_zero,
    Nat.add_sub_cancel, Nat.div_one]
  rfl

/-- [S] the loop of `findnz` appends the column index of every entry -/
theorem forIn_findnzStep {E : IMat} (h : E.WFE) (len : Nat) :
    ∀ (i : Nat) (J : Array Nat), i + len ≤ E.n →
      forIn (List.range' i len) J (findnzStep E) =
        .ok (J ++ ((List.range' i len).flatMap
          (fun c => List.replicate (E.colptr.getD (c + 1) 0 - E.colptr.getD c 0) c)).toArray) := by
  induction len with
  | zero => intro i J _; simp [pure, Except.pure]
  | succ len ih =>
    intro i J hi
    rw [List.range'_succ, List.forIn_cons]
    have hm := h.mono i (by omega)
    simp only [findnzStep, Kr.getE_ok E.colptr (i + 1) _ 0 (by have := h.cpsize; omega),
      Kr.getE_ok E.colptr i _ 0 (by have := h.cpsize; omega), bind, Except.bind, pure, Except.pure,
      Nat.not_lt.mpr hm, if_false]
    rw [ih (i + 1) _ (by omega)]
    apply congrArg
    apply Array.ext'
    simp [List.flatMap_cons]

/-- [S] on a well-formed matrix `findnz` returns the rows, the column of every entry, and the
values -/
theorem findnz_ok {E : IMat} (h : E.WFE) :
    E.findnz = .ok (E.rowval, E.colIdx.toArray, E.nzval) := by
  rw [findnz_eq_forIn, forIn_findnzStep h E.n 0 #[] (by omega)]
  simp [bind, Except.bind, pure, Except.pure, IMat.colIdx, List.range_eq_range']

/-- [S] the first `k` columns hold `colptr[k]` entries -/
theorem colIdx_prefix_length {E : IMat} (h : E.WFE) : ∀ k, k ≤ E.n →
    ((List.range k).flatMap
      (fun c => List.replicate (E.colptr.getD (c + 1) 0 - E.colptr.getD c 0) c)).length
      = E.colptr.getD k 0 := by
  intro k
  induction k with
  | zero => intro _; simp [h.cp0]
  | succ k ih =>
    intro hk
    have := h.mono k (by omega)
    rw [List.range_succ, List.flatMap_append, List.length_append, ih (by omega)]
    simp only [List.flatMap_cons, List.flatMap_nil, List.append_nil, List.length_replicate]
    omega

/-- [S] there is one column index per stored entry -/
theorem colIdx_length {E : IMat} (h : E.WFE) : E.colIdx.length = E.rowval.size := by
  rw [IMat.colIdx, colIdx_prefix_length h E.n (Nat.le_refl _), h.nnz_row]

/-- [S] every column index is a column -/
theorem colIdx_lt {E : IMat} : ∀ c ∈ E.colIdx, c < E.n := by
  intro c hc
  simp only [IMat.colIdx, List.mem_flatMap, List.mem_range, List.mem_replicate] at hc
  obtain ⟨a, ha, _, rfl⟩ := hc
  exact ha

/-- [S] `colIdx_spec` for the first `j` columns -/
theorem colIdx_prefix_spec {E : IMat} (h : E.WFE) : ∀ j, j ≤ E.n → ∀ k, k < E.colptr.getD j 0 →
    (((List.range j).flatMap
      (fun c => List.replicate (E.colptr.getD (c + 1) 0 - E.colptr.getD c 0) c)).getD k 0 < j ∧
     E.colptr.getD (((List.range j).flatMap
      (fun c => List.replicate (E.colptr.getD (c + 1) 0 - E.colptr.getD c 0) c)).getD k 0) 0 ≤ k ∧
     k < E.colptr.getD (((List.range j).flatMap
      (fun c => List.replicate (E.colptr.getD (c + 1) 0 - E.colptr.getD c 0) c)).getD k 0 + 1) 0) := by
  intro j
  induction j with
  | zero => intro _ k hk; rw [h.cp0] at hk; omega
  | succ j ih =>
    intro hj k hk
    have hlen := colIdx_prefix_length h j (by omega)
    have hm := h.mono j (by omega)
    rw [List.range_succ, List.flatMap_append]
    simp only [List.flatMap_cons, List.flatMap_nil, List.append_nil]
    by_cases hkj : k < E.colptr.getD j 0
    · have e : ∀ t : List Nat, (((List.range j).flatMap
          (fun c => List.replicate (E.colptr.getD (c + 1) 0 - E.colptr.getD c 0) c)) ++ t).getD k 0
          = ((List.range j).flatMap
          (fun c => List.replicate (E.colptr.getD (c + 1) 0 - E.colptr.getD c 0) c)).getD k 0 := by
        intro t
        simp only [List.getD_eq_getElem?_getD]
        rw [List.getElem?_append_left (by omega)]
      rw [e]
      obtain ⟨a, b, c⟩ := ih (by omega) k hkj
      exact ⟨by omega, b, c⟩
    · have e : (((List.range j).flatMap
          (fun c => List.replicate (E.colptr.getD (c + 1) 0 - E.colptr.getD c 0) c)) ++
          List.replicate (E.colptr.getD (j + 1) 0 - E.colptr.getD j 0) j).getD k 0 = j := by
        simp only [List.getD_eq_getElem?_getD]
        rw [List.getElem?_append_right (by omega), hlen, List.getElem?_replicate]
        simp only [show k - E.colptr.getD j 0 < E.colptr.getD (j + 1) 0 - E.colptr.getD j 0 by omega,
          if_true, Option.getD_some]
      rw [e]
      exact ⟨by omega, by omega, hk⟩

/-- [S] `colIdx[k]` is the column of the stored entry `k`:
`colptr[c] ≤ k < colptr[c+1]` for `c = colIdx[k]` -/
theorem colIdx_spec {E : IMat} (h : E.WFE) {k : Nat} (hk : k < E.rowval.size) :
    E.colIdx.getD k 0 < E.n ∧ E.colptr.getD (E.colIdx.getD k 0) 0 ≤ k ∧
      k < E.colptr.getD (E.colIdx.getD k 0 + 1) 0 :=
  colIdx_prefix_spec h E.n (Nat.le_refl _) k (by rw [h.nnz_row]; exact hk)

/-- [S] reading a list of in-range indices succeeds -/
theorem Kr.list_mapM_getE {β : Type} (b : Array β) (site : String) (d : β) :
    ∀ l : List Nat, (∀ k ∈ l, k < b.size) →
      l.mapM (fun k => getE b k site) = .ok (l.map (fun k => b.getD k d)) := by
  intro l
  induction l with
  | nil => intro _; rfl
  | cons a l ih =>
    intro hl
    rw [List.mapM_cons, Kr.getE_ok b a site d (hl a (by simp)), ih (fun k hk => hl k (by simp [hk]))]
    rfl

/-- [S] `permute` succeeds when all indices are in range -/
theorem permuteVec_ok {β : Type} (b : Array β) (p : Array Nat) (site : String) (d : β)
    (h : ∀ k ∈ p.toList, k < b.size) :
    permuteVec b p site = .ok (p.map (fun k => b.getD k d)) := by
  unfold permuteVec
  rw [Array.mapM_eq_mapM_toList, Kr.list_mapM_getE b site d p.toList h]
  simp only [Functor.map, Except.map]
  apply congrArg
  apply Array.ext'
  simp

/-- [S] `sortperm_rev` returns a permutation of `0..v.size` -/
theorem sortpermRev_perm (v : Array Int) : (sortpermRev v).toList.Perm (List.range v.size) := by
  unfold sortpermRev sortpermBy
  exact List.mergeSort_perm _ _

/-- [S] `sortperm_rev` returns as many indices as there are values -/
theorem sortpermRev_size (v : Array Int) : (sortpermRev v).size = v.size := by
  have := (sortpermRev_perm v).length_eq
  simpa using this

/-- [S] `sortperm_rev` returns in-range indices -/
theorem sortpermRev_lt (v : Array Int) : ∀ k ∈ (sortpermRev v).toList, k < v.size := by
  intro k hk
  have := (sortpermRev_perm v).mem_iff.mp hk
  simpa using this

/-- the edges of `E` in the order `kruskal` visits them (stably sorted by decreasing weight):
`(k, rowval[k], column of entry k)` -/
def IMat.sortedEdges (E : IMat) : List KEdge :=
  (sortpermRev E.nzval).toList.map (fun k => (k, E.rowval.getD k 0, E.colIdx.getD k 0))

/-- [S] the edges visited by the loop after `permute` -/
theorem kEdgesOf_map (r c : Array Nat) (p : Array Nat) :
    kEdgesOf (p.map (fun k => r.getD k 0)) (p.map (fun k => c.getD k 0)) p 0 p.size =
      p.toList.map (fun k => (k, r.getD k 0, c.getD k 0)) := by
  apply List.ext_getElem
  · simp [kEdgesOf]
  · intro i h1 h2
    have hi : i < p.size := by simpa [kEdgesOf] using h1
    simp [kEdgesOf, hi]

/-- [S] closed form of `kruskal` on a well-formed edge matrix: the recursion `kTrace` over the
sorted edge list, started from the discrete partition -/
theorem kruskal_eq_kTrace {E : IMat} (h : E.WFE) (numCliques : Nat) :
    kruskal E numCliques =
      (kTrace numCliques E.sortedEdges (Dsu.new E.n) 0 E.nzval).map
        (fun r => { E with nzval := r.nzval }) := by
  have hp1 : ∀ k ∈ (sortpermRev E.nzval).toList, k < E.rowval.size := by
    intro k hk; have := sortpermRev_lt _ k hk; have := h.nnz_val; omega
  have hp2 : ∀ k ∈ (sortpermRev E.nzval).toList, k < E.colIdx.toArray.size := by
    intro k hk; have := hp1 k hk; have := colIdx_length h; simpa using (by omega : k < E.colIdx.length)
  rw [kruskal_eq_forIn, findnz_ok h]
  simp only [bind, Except.bind, pure, Except.pure, permuteVec_ok E.rowval _ _ 0 hp1,
    permuteVec_ok E.colIdx.toArray _ _ 0 hp2, Array.size_map, Nat.min_self]
  rw [forIn_kruskalStep_eq _ _ _ _ _ 0 _ _ _ (by simp) (by simp) (by simp), kEdgesOf_map]
  have hg : ∀ k, E.colIdx.toArray.getD k 0 = E.colIdx.getD k 0 := by
    intro k; simp [Array.getD_eq_getD_getElem?, List.getD_eq_getElem?_getD]
  simp only [IMat.sortedEdges, hg]
  generalize kTrace numCliques _ (Dsu.new E.n) 0 E.nzval = r
  cases r <;> rfl

/-! ## connectivity of edge lists -/

/-- `Conn l a b`: `a` and `b` are connected by the (undirected) edges in `l` -/
def Conn (l : List (Nat × Nat)) : Nat → Nat → Prop := Relation.EqvGen (fun a b => (a, b) ∈ l)

/-- [S] connectivity is reflexive -/
theorem Conn.refl (l : List (Nat × Nat)) (a : Nat) : Conn l a a := Relation.EqvGen.refl _

/-- [S] connectivity is symmetric -/
theorem Conn.symm {l : List (Nat × Nat)} {a b : Nat} (h : Conn l a b) : Conn l b a :=
  Relation.EqvGen.symm _ _ h

/-- [S] connectivity is transitive -/
theorem Conn.trans {l : List (Nat × Nat)} {a b c : Nat} (h1 : Conn l a b) (h2 : Conn l b c) :
    Conn l a c := Relation.EqvGen.trans _ _ _ h1 h2

/-- [S] the end points of an edge are connected -/
theorem Conn.edge {l : List (Nat × Nat)} {a b : Nat} (h : (a, b) ∈ l) : Conn l a b :=
  Relation.EqvGen.rel _ _ h

/-- [S] connectivity only grows with the edge set -/
theorem Conn.mono {l l' : List (Nat × Nat)} (h : ∀ e ∈ l, e ∈ l') {a b : Nat} (hc : Conn l a b) :
    Conn l' a b :=
  Relation.EqvGen.mono (fun a b hab => h (a, b) hab) _ _ hc

/-- [S] edges whose end points are already connected do not change connectivity -/
theorem Conn.of_redundant {l l' : List (Nat × Nat)} (h : ∀ e ∈ l', e ∈ l ∨ Conn l e.1 e.2)
    {a b : Nat} (hc : Conn l' a b) : Conn l a b := by
  induction hc with
  | rel a b hab =>
    rcases h (a, b) hab with h1 | h1
    · exact Conn.edge h1
    · exact h1
  | refl a => exact Conn.refl _ _
  | symm a b _ ih => exact ih.symm
  | trans a b c _ _ ih1 ih2 => exact ih1.trans ih2

/-- [S] connectivity after adding one edge -/
theorem conn_snoc (l : List (Nat × Nat)) (x y a b : Nat) :
    Conn (l ++ [(x, y)]) a b ↔
      (Conn l a b ∨ (Conn l a x ∧ Conn l y b) ∨ (Conn l a y ∧ Conn l x b)) := by
  have e : (fun a b => (a, b) ∈ l ++ [(x, y)]) = (fun a b => (a, b) ∈ l ∨ (a = x ∧ b = y)) := by
    funext a b; simp
  unfold Conn
  rw [e]
  exact Dsu.eqvGen_insert_iff _ x y a b

/-- [S] with no edges only equal vertices are connected -/
theorem conn_nil_iff (a b : Nat) : Conn [] a b ↔ a = b := by
  constructor
  · intro h
    induction h with
    | rel _ _ h => simp at h
    | refl _ => rfl
    | symm _ _ _ ih => exact ih.symm
    | trans _ _ _ _ _ ih1 ih2 => exact ih1.trans ih2
  · rintro rfl; exact Conn.refl _ _

/-- `ForestFrom pre ms`: every edge of `ms` joins two different connectivity classes of `pre`
plus the edges of `ms` before it -/
def ForestFrom : List (Nat × Nat) → List (Nat × Nat) → Prop
  | _, [] => True
  | pre, e :: ms => ¬ Conn pre e.1 e.2 ∧ ForestFrom (pre ++ [e]) ms

/-- [S] `ForestFrom` in index form -/
theorem forestFrom_iff (ms : List (Nat × Nat)) : ∀ pre : List (Nat × Nat),
    ForestFrom pre ms ↔
      ∀ (i : Nat) (h : i < ms.length), ¬ Conn (pre ++ ms.take i) ms[i].1 ms[i].2 := by
  induction ms with
  | nil => intro pre; simp [ForestFrom]
  | cons e ms ih =>
    intro pre
    simp only [ForestFrom, ih]
    constructor
    · rintro ⟨h0, hr⟩ i hi
      cases i with
      | zero => simpa using h0
      | succ i =>
        have := hr i (by simpa using hi)
        simpa [List.append_assoc] using this
    · intro hall
      refine ⟨by have := hall 0 (by simp); simpa using this, fun i hi => ?_⟩
      have := hall (i + 1) (by simpa using hi)
      simpa [List.append_assoc] using this

/-! ## what the loop computes -/

/-- specification of a run of `kTrace` started with the partition `Conn pre`, `f` edges found
and values `nz` -/
structure KSpec (n nc : Nat) (pre : List (Nat × Nat)) (es : List KEdge) (f : Nat)
    (nz : Array Int) (r : KRes) : Prop where
  wf : Dsu.WF r.d n
  same : ∀ a b, a < n → b < n →
    (Dsu.Same r.d a b ↔ Conn (pre ++ r.marked.map KEdge.pair) a b)
  found : r.found = f + r.marked.length
  found_le : r.found ≤ max 1 (nc - 1)
  broke : r.broke = true → r.found = max 1 (nc - 1)
  forest : ForestFrom pre (r.marked.map KEdge.pair)
  sub : r.marked.Sublist es
  nzsize : r.nzval.size = nz.size
  nzval : ∀ k, r.nzval.getD k 0 = if k ∈ r.marked.map (·.1) then -1 else nz.getD k 0
  complete : r.broke = false → ∀ e ∈ es, Conn (pre ++ r.marked.map KEdge.pair) e.2.1 e.2.2

/-- [S] the loop of `kruskal` never panics (in particular the fuel of the union-find is never
exhausted) and satisfies `KSpec` -/
theorem kTrace_spec (n nc : Nat) (hnc : 0 < nc) :
    ∀ (es : List KEdge) (d : Dsu) (f : Nat) (nz : Array Int) (pre : List (Nat × Nat)),
      Dsu.WF d n → (∀ a b, a < n → b < n → (Dsu.Same d a b ↔ Conn pre a b)) →
      (∀ e ∈ es, e.1 < nz.size ∧ e.2.1 < n ∧ e.2.2 < n) →
      f < max 1 (nc - 1) →
      ∃ r, kTrace nc es d f nz = .ok r ∧ KSpec n nc pre es f nz r := by
  intro es
  induction es with
  | nil =>
    intro d f nz pre hwf hR _ hf
    refine ⟨⟨d, f, nz, [], false⟩, rfl, ⟨hwf, ?_, rfl, by simp only; omega, by simp, trivial,
      List.Sublist.refl _, rfl, by simp, by simp⟩⟩
    simpa using hR
  | cons e es ih =>
    intro d f nz pre hwf hR hes hf
    obtain ⟨hpk, hu, hv⟩ := hes e (by simp)
    have hes' : ∀ e ∈ es, e.1 < nz.size ∧ e.2.1 < n ∧ e.2.2 < n :=
      fun e' he' => hes e' (by simp [he'])
    obtain ⟨d1, same, hrun1, hwf1, hb1, hsame1⟩ := Dsu.inSameSet_spec hwf hu hv
    have hR1 : ∀ a b, a < n → b < n → (Dsu.Same d1 a b ↔ Conn pre a b) :=
      fun a b ha hb => (hsame1 a b ha hb).trans (hR a b ha hb)
    cases same with
    | true =>
      obtain ⟨r, hrun, hs⟩ := ih d1 f nz pre hwf1 hR1 hes' hf
      refine ⟨r, ?_, ⟨hs.wf, hs.same, hs.found, hs.found_le, hs.broke, hs.forest,
        hs.sub.cons _, hs.nzsize, hs.nzval, ?_⟩⟩
      · simp only [kTrace, hrun1, bind, Except.bind, Bool.not_true, Bool.false_eq_true, if_false]
        exact hrun
      · intro hb e' he'
        rcases List.mem_cons.mp he' with rfl | he'
        · have : Conn pre e'.2.1 e'.2.2 := (hR _ _ hu hv).mp (hb1.mp rfl)
          exact this.mono (fun x hx => by simp [hx])
        · exact hs.complete hb e' he'
    | false =>
      have hnot : ¬ Conn pre e.2.1 e.2.2 := by
        intro hc
        have := hb1.mpr ((hR _ _ hu hv).mpr hc)
        exact Bool.noConfusion this
      obtain ⟨d2, hrun2, hwf2, hsame2⟩ := Dsu.union_spec hwf1 hu hv
      have hR2 : ∀ a b, a < n → b < n →
          (Dsu.Same d2 a b ↔ Conn (pre ++ [e.pair]) a b) := by
        intro a b ha hb
        rw [hsame2 a b ha hb, KEdge.pair, conn_snoc, hR1 a b ha hb, hR1 a _ ha hu,
          hR1 _ b hv hb, hR1 a _ ha hv, hR1 _ b hu hb]
      have hset := Kr.setE_ok nz e.1 (-1 : Int) "kruskal" hpk
      have hnz2 : ∀ k, (nz.setIfInBounds e.1 (-1)).getD k 0 =
          if k = e.1 then -1 else nz.getD k 0 := by
        intro k
        by_cases hk : k = e.1
        · subst hk; simp [Array.getD_eq_getD_getElem?, hpk]
        · have : e.1 ≠ k := fun h => hk h.symm
          simp [Array.getD_eq_getD_getElem?, hk, this]
      have hnc0 : (nc == 0) = false := by
        rw [beq_eq_false_iff_ne]; omega
      by_cases hbr : f + 1 ≥ nc - 1
      · -- break
        refine ⟨⟨d2, f + 1, nz.setIfInBounds e.1 (-1), [e], true⟩, ?_, ⟨hwf2, ?_, rfl, ?_, ?_,
          ⟨hnot, trivial⟩, ?_, by simp, ?_, by simp⟩⟩
        · simp only [kTrace, hrun1, hrun2, hset, hnc0, bind, Except.bind, Bool.not_false, if_true,
            Bool.false_eq_true, if_false, hbr, pure, Except.pure]
        · simpa using hR2
        · simp only; omega
        · intro _; simp only; omega
        · simp
        · intro k; simp only [hnz2 k]; simp
      · -- continue
        obtain ⟨r, hrun, hs⟩ := ih d2 (f + 1) (nz.setIfInBounds e.1 (-1)) (pre ++ [e.pair])
          hwf2 hR2 (fun e' he' => by simpa using hes' e' he') (by omega)
        refine ⟨{ r with marked := e :: r.marked }, ?_, ⟨hs.wf, ?_, ?_, hs.found_le, hs.broke,
          ⟨hnot, hs.forest⟩, hs.sub.cons_cons _, by simpa using hs.nzsize, ?_, ?_⟩⟩
        · simp only [kTrace, hrun1, hrun2, hset, hnc0, bind, Except.bind, Bool.not_false, if_true,
            Bool.false_eq_true, if_false, hbr, hrun, pure, Except.pure]
        · intro a b ha hb
          have := hs.same a b ha hb
          simpa [List.append_assoc] using this
        · have := hs.found
          simp only [List.length_cons]; omega
        · intro k
          have := hs.nzval k
          rw [this, hnz2 k]
          by_cases h1 : k = e.1
          · simp [h1]
          · simp only [List.map_cons, List.mem_cons, h1, false_or, if_false]
        · intro hb e' he'
          have hc := hs.complete hb
          rcases List.mem_cons.mp he' with rfl | he'
          · exact Conn.edge (by simp [KEdge.pair])
          · have := hc e' he'
            simpa [List.append_assoc] using this

/-! ## `kruskal` on a well-formed edge matrix -/

/-- the edges `(rowval[k], column of entry k)` of `E`, in storage order -/
def IMat.edges (E : IMat) : List (Nat × Nat) :=
  (List.range E.rowval.size).map (fun k => (E.rowval.getD k 0, E.colIdx.getD k 0))

/-- ghost result of `kruskal E numCliques` (final union-find, number of edges found, values,
marked edges in marking order, `break` flag) -/
def kruskalRes (E : IMat) (numCliques : Nat) : KRes :=
  match kTrace numCliques E.sortedEdges (Dsu.new E.n) 0 E.nzval with
  | .ok r => r
  | .error _ => ⟨Dsu.new E.n, 0, E.nzval, [], false⟩

/-- the entries `(k, rowval[k], column of k)` that `kruskal` sets to `-1`, in marking order -/
def kruskalMarked (E : IMat) (numCliques : Nat) : List KEdge := (kruskalRes E numCliques).marked

/-- the marked edges as pairs of cliques -/
def kruskalTree (E : IMat) (numCliques : Nat) : List (Nat × Nat) :=
  (kruskalMarked E numCliques).map KEdge.pair

/-- [S] the sorted edge list consists of the stored entries -/
theorem mem_sortedEdges {E : IMat} (e : KEdge) :
    e ∈ E.sortedEdges ↔ ∃ k, k < E.nzval.size ∧ e = (k, E.rowval.getD k 0, E.colIdx.getD k 0) := by
  simp only [IMat.sortedEdges, List.mem_map]
  constructor
  · rintro ⟨k, hk, rfl⟩; exact ⟨k, sortpermRev_lt _ k hk, rfl⟩
  · rintro ⟨k, hk, rfl⟩
    exact ⟨k, (sortpermRev_perm _).mem_iff.mpr (by simpa using hk), rfl⟩

/-- [S] the sorted edge list has the same edges as `E` -/
theorem mem_sortedEdges_pair {E : IMat} (h : E.WFE) (x : Nat × Nat) :
    x ∈ E.sortedEdges.map KEdge.pair ↔ x ∈ E.edges := by
  simp only [List.mem_map, mem_sortedEdges, IMat.edges, List.mem_range, h.nnz_val]
  constructor
  · rintro ⟨e, ⟨k, hk, rfl⟩, rfl⟩; exact ⟨k, hk, rfl⟩
  · rintro ⟨k, hk, rfl⟩; exact ⟨_, ⟨k, hk, rfl⟩, rfl⟩

/-- [S] the sorted edge list visits every stored position exactly once -/
theorem sortedEdges_pos_nodup (E : IMat) : (E.sortedEdges.map (·.1)).Nodup := by
  have : E.sortedEdges.map (·.1) = (sortpermRev E.nzval).toList := by
    simp [IMat.sortedEdges, Function.comp_def]
  rw [this]
  exact (sortpermRev_perm _).nodup_iff.mpr List.nodup_range

/-- [S] the loop of `kruskal` visits the edges by decreasing weight -/
theorem sortedEdges_sorted (E : IMat) :
    (E.sortedEdges.map (·.1)).Pairwise (fun k k' => E.nzval.getD k 0 ≥ E.nzval.getD k' 0) := by
  have : E.sortedEdges.map (·.1) = (sortpermRev E.nzval).toList := by
    simp [IMat.sortedEdges, Function.comp_def]
  rw [this]
  unfold sortpermRev sortpermBy
  have := List.pairwise_mergeSort
    (le := fun i j => decide (E.nzval.getD i 0 ≥ E.nzval.getD j 0))
    (fun a b c hab hbc => by simp only [decide_eq_true_eq] at *; omega)
    (fun a b => by simp only [Bool.or_eq_true, decide_eq_true_eq]; omega)
    (List.range E.nzval.size)
  simpa using this

/-- [S] master statement: on a well-formed edge matrix with `0 < numCliques` the loop of
`kruskal` runs without panic, `kruskal` returns `E` with the new values, and the run satisfies
`KSpec` from the discrete partition -/
theorem kruskal_spec {E : IMat} (h : E.WFE) {numCliques : Nat} (hnc : 0 < numCliques) :
    kTrace numCliques E.sortedEdges (Dsu.new E.n) 0 E.nzval = .ok (kruskalRes E numCliques) ∧
    kruskal E numCliques = .ok { E with nzval := (kruskalRes E numCliques).nzval } ∧
    KSpec E.n numCliques [] E.sortedEdges 0 E.nzval (kruskalRes E numCliques) := by
  have hR : ∀ a b, a < E.n → b < E.n → (Dsu.Same (Dsu.new E.n) a b ↔ Conn [] a b) := by
    have e : (fun a b : Nat => (a, b) ∈ ([] : List (Nat × Nat))) = (fun _ _ => False) := by
      funext a b; simp
    intro a b ha hb
    unfold Conn
    rw [e]
    exact Dsu.same_new_iff ha hb
  have hes : ∀ e ∈ E.sortedEdges, e.1 < E.nzval.size ∧ e.2.1 < E.n ∧ e.2.2 < E.n := by
    intro e he
    obtain ⟨k, hk, rfl⟩ := (mem_sortedEdges e).mp he
    have hk' : k < E.rowval.size := by have := h.nnz_val; omega
    refine ⟨hk, h.rows k hk', colIdx_lt _ ?_⟩
    have hl : k < E.colIdx.length := by rw [colIdx_length h]; exact hk'
    simp [List.getD_eq_getElem?_getD, hl]
  obtain ⟨r, hrun, hs⟩ := kTrace_spec E.n numCliques hnc E.sortedEdges (Dsu.new E.n) 0 E.nzval []
    (Dsu.wf_new _) hR hes (by omega)
  have hres : kruskalRes E numCliques = r := by simp only [kruskalRes, hrun]
  rw [hres]
  refine ⟨hrun, ?_, hs⟩
  rw [kruskal_eq_kTrace h, hrun]
  rfl

/-- [S] **kruskal_ok**: on a well-formed edge matrix and `0 < numCliques`, `kruskal` does not
panic (the fuel of the union-find is never exhausted), keeps the pattern, and changes the values
only at the marked positions, where the value becomes `-1` -/
theorem kruskal_ok {E : IMat} (h : E.WFE) {numCliques : Nat} (hnc : 0 < numCliques) :
    ∃ E', kruskal E numCliques = .ok E' ∧ E'.m = E.m ∧ E'.n = E.n ∧ E'.colptr = E.colptr ∧
      E'.rowval = E.rowval ∧ E'.nzval.size = E.nzval.size ∧
      ∀ k, E'.nzval.getD k 0 =
        if k ∈ (kruskalMarked E numCliques).map (·.1) then -1 else E.nzval.getD k 0 := by
  obtain ⟨_, hk, hs⟩ := kruskal_spec h hnc
  exact ⟨_, hk, rfl, rfl, rfl, rfl, hs.nzsize, hs.nzval⟩

/-- [S] every marked entry is a stored entry `(k, rowval[k], column of k)` of `E`; the marked
entries are visited in the order of `E.sortedEdges` and no position is marked twice -/
theorem kruskalMarked_sub {E : IMat} (h : E.WFE) {numCliques : Nat} (hnc : 0 < numCliques) :
    (kruskalMarked E numCliques).Sublist E.sortedEdges ∧
    ((kruskalMarked E numCliques).map (·.1)).Nodup ∧
    ∀ e ∈ kruskalMarked E numCliques, e.1 < E.rowval.size ∧
      e = (e.1, E.rowval.getD e.1 0, E.colIdx.getD e.1 0) ∧ e.pair ∈ E.edges := by
  obtain ⟨_, _, hs⟩ := kruskal_spec h hnc
  refine ⟨hs.sub, (hs.sub.map _).nodup (sortedEdges_pos_nodup E), fun e he => ?_⟩
  have he' := hs.sub.subset he
  obtain ⟨k, hk, rfl⟩ := (mem_sortedEdges e).mp he'
  refine ⟨by have := h.nnz_val; simpa using (by omega : k < E.rowval.size), rfl, ?_⟩
  exact (mem_sortedEdges_pair h _).mp (List.mem_map_of_mem he')

/-- [S] **kruskal_forest**: (i) every marked edge joins two different connectivity classes of
the edges marked before it, i.e. the marked edges are acyclic; (ii) the final union-find
partition is the connectivity of the marked edges; (iii) the number of marked edges is
`numEdgesFound`, it is at most `max 1 (numCliques - 1)`, hence at most `numCliques - 1` when
`2 ≤ numCliques` (for `numCliques = 1` the loop stops *after* the first marked edge, see the
example below) -/
theorem kruskal_forest {E : IMat} (h : E.WFE) {numCliques : Nat} (hnc : 0 < numCliques) :
    (∀ (i : Nat) (hi : i < (kruskalTree E numCliques).length),
      ¬ Conn ((kruskalTree E numCliques).take i)
        (kruskalTree E numCliques)[i].1 (kruskalTree E numCliques)[i].2) ∧
    (∀ a b, a < E.n → b < E.n →
      (Dsu.Same (kruskalRes E numCliques).d a b ↔ Conn (kruskalTree E numCliques) a b)) ∧
    (kruskalTree E numCliques).length = (kruskalRes E numCliques).found ∧
    (kruskalTree E numCliques).length ≤ max 1 (numCliques - 1) ∧
    (2 ≤ numCliques → (kruskalTree E numCliques).length ≤ numCliques - 1) := by
  obtain ⟨_, _, hs⟩ := kruskal_spec h hnc
  have hf := (forestFrom_iff (kruskalTree E numCliques) []).mp hs.forest
  have hlen : (kruskalTree E numCliques).length = (kruskalRes E numCliques).found := by
    have := hs.found
    simp only [kruskalTree, kruskalMarked, List.length_map]; omega
  have hle := hs.found_le
  refine ⟨fun i hi => by simpa using hf i hi,
    fun a b ha hb => by simpa [kruskalTree, kruskalMarked] using hs.same a b ha hb,
    hlen, by omega, fun h2 => by omega⟩

/-- [S] **kruskal_spanning**, the two ways the loop ends: if it ran to completion, the marked
edges have the same connectivity as all edges of `E`; if it was left by `break`, exactly
`max 1 (numCliques - 1)` edges are marked (`numCliques - 1` when `2 ≤ numCliques`) -/
theorem kruskal_complete_or_break {E : IMat} (h : E.WFE) {numCliques : Nat}
    (hnc : 0 < numCliques) :
    ((kruskalRes E numCliques).broke = false →
      ∀ a b, Conn (kruskalTree E numCliques) a b ↔ Conn E.edges a b) ∧
    ((kruskalRes E numCliques).broke = true →
      (kruskalTree E numCliques).length = max 1 (numCliques - 1)) := by
  obtain ⟨_, _, hs⟩ := kruskal_spec h hnc
  have hsubE : ∀ e ∈ kruskalTree E numCliques, e ∈ E.edges := by
    intro e he
    obtain ⟨e', he', rfl⟩ := List.mem_map.mp he
    exact ((kruskalMarked_sub h hnc).2.2 e' he').2.2
  refine ⟨fun hb a b => ⟨fun hc => hc.mono hsubE, fun hc => ?_⟩, fun hb => ?_⟩
  · refine Conn.of_redundant (fun e he => .inr ?_) hc
    obtain ⟨e', he', rfl⟩ := List.mem_map.mp ((mem_sortedEdges_pair h e).mpr he)
    simpa [kruskalTree, kruskalMarked, KEdge.pair] using hs.complete hb e' he'
  · have h1 := hs.broke hb
    have h2 := hs.found
    simp only [kruskalTree, kruskalMarked, List.length_map]; omega

/-! ## counting: a forest with `k - 1` edges on `k` vertices is connected -/

/-- `reps` is a system of representatives of the `Conn l`-classes of the vertices in `L` -/
structure Reps (l : List (Nat × Nat)) (L reps : List Nat) : Prop where
  nodup : reps.Nodup
  sub : ∀ r ∈ reps, r ∈ L
  cover : ∀ v ∈ L, ∃ r ∈ reps, Conn l v r
  sep : ∀ r ∈ reps, ∀ r' ∈ reps, Conn l r r' → r = r'

/-- [S] without edges every vertex is its own class -/
theorem reps_nil {L : List Nat} (h : L.Nodup) : Reps [] L L :=
  ⟨h, fun _ hr => hr, fun v hv => ⟨v, hv, Conn.refl _ _⟩,
    fun _ _ _ _ hc => (conn_nil_iff _ _).mp hc⟩

/-- [S] an edge between two different classes lowers the number of classes by one -/
theorem reps_snoc {l : List (Nat × Nat)} {L reps : List Nat} (h : Reps l L reps) {u v : Nat}
    (hu : u ∈ L) (hv : v ∈ L) (hn : ¬ Conn l u v) :
    ∃ reps', Reps (l ++ [(u, v)]) L reps' ∧ reps'.length + 1 = reps.length := by
  obtain ⟨ru, hru, hcu⟩ := h.cover u hu
  obtain ⟨rv, hrv, hcv⟩ := h.cover v hv
  have hne : ru ≠ rv := by
    rintro rfl; exact hn (hcu.trans hcv.symm)
  have hmono : ∀ {a b}, Conn l a b → Conn (l ++ [(u, v)]) a b :=
    fun hc => hc.mono (fun e he => by simp [he])
  refine ⟨reps.erase rv, ⟨h.nodup.erase _, fun r hr => h.sub r (List.mem_of_mem_erase hr), ?_, ?_⟩,
    ?_⟩
  · intro w hw
    obtain ⟨r, hr, hc⟩ := h.cover w hw
    by_cases e : r = rv
    · subst e
      refine ⟨ru, (h.nodup.mem_erase_iff).mpr ⟨hne, hru⟩, ?_⟩
      exact (conn_snoc l u v w ru).mpr (.inr (.inr ⟨hc.trans hcv.symm, hcu⟩))
    · exact ⟨r, (h.nodup.mem_erase_iff).mpr ⟨e, hr⟩, hmono hc⟩
  · intro r1 h1 r2 h2 hc
    obtain ⟨n1, m1⟩ := (h.nodup.mem_erase_iff).mp h1
    obtain ⟨n2, m2⟩ := (h.nodup.mem_erase_iff).mp h2
    rcases (conn_snoc l u v r1 r2).mp hc with hc | ⟨_, hc2⟩ | ⟨hc1, _⟩
    · exact h.sep r1 m1 r2 m2 hc
    · exact absurd (h.sep r2 m2 rv hrv (hc2.symm.trans hcv)) n2
    · exact absurd (h.sep r1 m1 rv hrv (hc1.trans hcv)) n1
  · have := List.length_erase_of_mem hrv
    have : 0 < reps.length := List.length_pos_of_mem hrv
    omega

/-- [S] a forest with `j` edges on the vertices `L` has `|L| - j` connectivity classes -/
theorem forest_count {L : List Nat} : ∀ (ms pre : List (Nat × Nat)) (reps : List Nat),
    ForestFrom pre ms → (∀ e ∈ ms, e.1 ∈ L ∧ e.2 ∈ L) → Reps pre L reps →
    ∃ reps', Reps (pre ++ ms) L reps' ∧ reps'.length + ms.length = reps.length := by
  intro ms
  induction ms with
  | nil => intro pre reps _ _ hr; exact ⟨reps, by simpa using hr, by simp⟩
  | cons e ms ih =>
    intro pre reps hf hL hr
    obtain ⟨h0, hf'⟩ := hf
    obtain ⟨r1, hr1, hl1⟩ := reps_snoc hr (hL e (by simp)).1 (hL e (by simp)).2 h0
    obtain ⟨r2, hr2, hl2⟩ := ih (pre ++ [e]) r1 hf' (fun e' he' => hL e' (by simp [he'])) hr1
    refine ⟨r2, by simpa [List.append_assoc] using hr2, ?_⟩
    simp only [List.length_cons]; omega

/-- [S] the counting step: an acyclic edge list `ms` on the `k` vertices `L` has at most `k - 1`
edges, and it connects `L` iff it has exactly `k - 1` edges -/
theorem forest_connected_iff {L : List Nat} (hL : L.Nodup) (hne : L ≠ []) {ms : List (Nat × Nat)}
    (hf : ForestFrom [] ms) (hin : ∀ e ∈ ms, e.1 ∈ L ∧ e.2 ∈ L) :
    ms.length ≤ L.length - 1 ∧
    ((∀ u ∈ L, ∀ v ∈ L, Conn ms u v) ↔ ms.length = L.length - 1) := by
  obtain ⟨reps, hr, hlen⟩ := forest_count ms [] L hf hin (reps_nil hL)
  rw [List.nil_append] at hr
  obtain ⟨v0, hv0⟩ := List.exists_mem_of_ne_nil L hne
  obtain ⟨r0, hr0, _⟩ := hr.cover v0 hv0
  have hpos : 0 < reps.length := List.length_pos_of_mem hr0
  refine ⟨by omega, ⟨fun hc => ?_, fun hl => ?_⟩⟩
  · -- connected → one class
    have : reps.length ≤ 1 := by
      match reps, hr with
      | [], _ => simp
      | [_], _ => simp
      | a :: b :: t, hr =>
        have hab := hr.sep a (by simp) b (by simp)
          (hc a (hr.sub a (by simp)) b (hr.sub b (by simp)))
        have := hr.nodup
        simp [hab] at this
    omega
  · -- one class → connected
    have h1 : reps.length = 1 := by omega
    obtain ⟨r, rfl⟩ := List.length_eq_one_iff.mp h1
    intro u hu v hv
    obtain ⟨ru, hru, hcu⟩ := hr.cover u hu
    obtain ⟨rv, hrv, hcv⟩ := hr.cover v hv
    simp only [List.mem_singleton] at hru hrv
    subst hru hrv
    exact hcu.trans hcv.symm

/-- [S] **kruskal_spanning**: if the `numCliques` live cliques `Lv` carry all edges of `E` and
are connected by them, `kruskal` marks exactly `numCliques - 1` edges and they form a spanning
tree of `Lv` (acyclic and connecting all of `Lv`) -/
theorem kruskal_spanning {E : IMat} (h : E.WFE) {numCliques : Nat} (hnc : 0 < numCliques)
    {Lv : List Nat} (hLv : Lv.Nodup) (hlen : Lv.length = numCliques)
    (hedges : ∀ e ∈ E.edges, e.1 ∈ Lv ∧ e.2 ∈ Lv)
    (hconn : ∀ u ∈ Lv, ∀ v ∈ Lv, Conn E.edges u v) :
    (kruskalTree E numCliques).length = numCliques - 1 ∧
    ForestFrom [] (kruskalTree E numCliques) ∧
    (∀ e ∈ kruskalTree E numCliques, e ∈ E.edges) ∧
    (∀ u ∈ Lv, ∀ v ∈ Lv, Conn (kruskalTree E numCliques) u v) := by
  obtain ⟨_, _, hs⟩ := kruskal_spec h hnc
  have hf : ForestFrom [] (kruskalTree E numCliques) := hs.forest
  have hsubE : ∀ e ∈ kruskalTree E numCliques, e ∈ E.edges := by
    intro e he
    obtain ⟨e', he', rfl⟩ := List.mem_map.mp he
    exact ((kruskalMarked_sub h hnc).2.2 e' he').2.2
  have hne : Lv ≠ [] := by
    intro e; rw [e] at hlen; simp at hlen; omega
  obtain ⟨hle, hiff⟩ := forest_connected_iff hLv hne hf (fun e he => hedges e (hsubE e he))
  obtain ⟨hcomp, hbrk⟩ := kruskal_complete_or_break h hnc
  have hcount : (kruskalTree E numCliques).length = numCliques - 1 := by
    cases hb : (kruskalRes E numCliques).broke with
    | false =>
      have := hiff.mp (fun u hu v hv => (hcomp hb u v).mpr (hconn u hu v hv))
      omega
    | true =>
      have := hbrk hb
      omega
  exact ⟨hcount, hf, hsubE, hiff.mpr (by rw [hcount, hlen])⟩

/-! ## rooting a forest: every forest can be oriented towards any choice of roots -/

/-- `TreeClimb tp R w r`: following the parent function `tp` from `w`, the first vertex of `R` met
is `r` -/
inductive TreeClimb (tp : Nat → Nat) (R : List Nat) : Nat → Nat → Prop
  | base {w} : w ∈ R → TreeClimb tp R w w
  | step {w r} : w ∉ R → TreeClimb tp R (tp w) r → TreeClimb tp R w r

/-- `tp` orients the forest `F` on the vertices `L` towards the roots `R`: every non-root has
its parent as a neighbour, every edge is a parent link, and every vertex climbs to a root -/
structure Oriented (F : List (Nat × Nat)) (L R : List Nat) (tp : Nat → Nat) : Prop where
  parent_edge : ∀ w ∈ L, w ∉ R → tp w ∈ L ∧ ((w, tp w) ∈ F ∨ (tp w, w) ∈ F)
  edge_parent : ∀ e ∈ F, (e.1 ∉ R ∧ tp e.1 = e.2) ∨ (e.2 ∉ R ∧ tp e.2 = e.1)
  reach : ∀ w ∈ L, ∃ r ∈ R, TreeClimb tp R w r

/-- [S] a climb ends in a root -/
theorem TreeClimb.root_mem {tp : Nat → Nat} {R : List Nat} {w r : Nat} (h : TreeClimb tp R w r) :
    r ∈ R := by
  induction h with
  | base h => exact h
  | step _ _ ih => exact ih

/-- [S] a climb runs along edges -/
theorem TreeClimb.conn {F : List (Nat × Nat)} {L R : List Nat} {tp : Nat → Nat}
    (ho : ∀ w ∈ L, w ∉ R → tp w ∈ L ∧ ((w, tp w) ∈ F ∨ (tp w, w) ∈ F))
    {w r : Nat} (h : TreeClimb tp R w r) (hw : w ∈ L) : Conn F w r := by
  induction h with
  | base _ => exact Conn.refl _ _
  | @step w r hn _ ih =>
    obtain ⟨h1, h2⟩ := ho _ hw hn
    have hc : Conn F w (tp w) := by
      rcases h2 with h2 | h2
      · exact Conn.edge h2
      · exact (Conn.edge h2).symm
    exact hc.trans (ih h1)

/-- [S] attaching the tree rooted at `a` below `b` -/
theorem orient_attach {F : List (Nat × Nat)} {L R' : List Nat} {a b : Nat} {e : Nat × Nat}
    (he : e = (a, b) ∨ e = (b, a)) (ha : a ∈ L) (hb : b ∈ L) (hn : ¬ Conn F a b)
    (hF' : ∀ x y, Conn (F ++ [e]) x y ↔
      (Conn F x y ∨ (Conn F x a ∧ Conn F b y) ∨ (Conn F x b ∧ Conn F a y)))
    (hR' : Reps (F ++ [e]) L R') {ρ : Nat} (hρ : ρ ∈ R') (hbρ : Conn F b ρ)
    (ih : ∀ R, Reps F L R → ∃ tp, Oriented F L R tp) :
    ∃ tp, Oriented (F ++ [e]) L R' tp := by
  have hmono : ∀ {x y}, Conn F x y → Conn (F ++ [e]) x y :=
    fun hc => hc.mono (fun e he => by simp [he])
  have hab' : Conn (F ++ [e]) a b := by
    rcases he with rfl | rfl
    · exact Conn.edge (by simp)
    · exact (Conn.edge (by simp)).symm
  have haρ' : Conn (F ++ [e]) a ρ := hab'.trans (hmono hbρ)
  -- `a` is not a root of the merged forest
  have haR' : a ∉ R' := by
    intro h
    have := hR'.sep a h ρ hρ haρ'
    subst this
    exact hn hbρ.symm
  -- `a :: R'` is a system of representatives for `F`
  have hsepa : ∀ r ∈ R', ¬ Conn F a r := by
    intro r hr hc
    have : r = ρ := hR'.sep r hr ρ hρ ((hmono hc).symm.trans haρ')
    subst this
    exact hn (hc.trans hbρ.symm)
  have hR : Reps F L (a :: R') := by
    refine ⟨List.nodup_cons.mpr ⟨haR', hR'.nodup⟩, ?_, ?_, ?_⟩
    · intro r hr
      rcases List.mem_cons.mp hr with rfl | hr
      · exact ha
      · exact hR'.sub r hr
    · intro w hw
      obtain ⟨r, hr, hc⟩ := hR'.cover w hw
      rcases (hF' w r).mp hc with h1 | ⟨h1, _⟩ | ⟨_, h2⟩
      · exact ⟨r, by simp [hr], h1⟩
      · exact ⟨a, by simp, h1⟩
      · exact absurd h2 (hsepa r hr)
    · intro r1 h1 r2 h2 hc
      rcases List.mem_cons.mp h1 with e1 | h1 <;> rcases List.mem_cons.mp h2 with e2 | h2
      · rw [e1, e2]
      · rw [e1] at hc; exact absurd hc (hsepa _ h2)
      · rw [e2] at hc; exact absurd hc.symm (hsepa _ h1)
      · exact hR'.sep r1 h1 r2 h2 (hmono hc)
  obtain ⟨tp, ho⟩ := ih _ hR
  -- where `b` climbs to
  obtain ⟨rb, hrb, hcb⟩ := ho.reach b hb
  have hrb_ne : rb ≠ a := by
    rintro rfl
    exact hn (hcb.conn ho.parent_edge hb).symm
  let tp' : Nat → Nat := fun w => if w = a then b else tp w
  have keep : ∀ {w r}, TreeClimb tp (a :: R') w r → r ≠ a → TreeClimb tp' R' w r := by
    intro w r h
    induction h with
    | base h =>
      intro hne
      rcases List.mem_cons.mp h with rfl | h
      · exact absurd rfl hne
      · exact .base h
    | @step w r hnot _ ih =>
      intro hne
      have h1 : w ≠ a := fun h => hnot (by simp [h])
      have h2 : w ∉ R' := fun h => hnot (by simp [h])
      have : tp' w = tp w := by simp [tp', h1]
      exact .step h2 (by rw [this]; exact ih hne)
  have hb' : TreeClimb tp' R' b rb := keep hcb hrb_ne
  have redirect : ∀ {w r}, TreeClimb tp (a :: R') w r → r = a → TreeClimb tp' R' w rb := by
    intro w r h
    induction h with
    | base h =>
      intro e
      subst e
      exact .step haR' (by simpa [tp'] using hb')
    | @step w r hnot _ ih =>
      intro e
      have h1 : w ≠ a := fun h => hnot (by simp [h])
      have h2 : w ∉ R' := fun h => hnot (by simp [h])
      have : tp' w = tp w := by simp [tp', h1]
      exact .step h2 (by rw [this]; exact ih e)
  refine ⟨tp', ?_, ?_, ?_⟩
  · intro w hw hwR
    by_cases hwa : w = a
    · subst hwa
      have : tp' w = b := by simp [tp']
      rw [this]
      refine ⟨hb, ?_⟩
      rcases he with rfl | rfl
      · exact .inl (by simp)
      · exact .inr (by simp)
    · have : tp' w = tp w := by simp [tp', hwa]
      rw [this]
      obtain ⟨h1, h2⟩ := ho.parent_edge w hw (by simp [hwa, hwR])
      exact ⟨h1, h2.imp (fun h => by simp [h]) (fun h => by simp [h])⟩
  · intro x hx
    rcases List.mem_append.mp hx with hx | hx
    · rcases ho.edge_parent x hx with ⟨h1, h2⟩ | ⟨h1, h2⟩
      · have hne : x.1 ≠ a := fun h => h1 (by simp [h])
        exact .inl ⟨fun h => h1 (by simp [h]), by simp [tp', hne, h2]⟩
      · have hne : x.2 ≠ a := fun h => h1 (by simp [h])
        exact .inr ⟨fun h => h1 (by simp [h]), by simp [tp', hne, h2]⟩
    · simp only [List.mem_singleton] at hx
      subst hx
      rcases he with rfl | rfl
      · exact .inl ⟨haR', by simp [tp']⟩
      · exact .inr ⟨haR', by simp [tp']⟩
  · intro w hw
    obtain ⟨r, hr, hc⟩ := ho.reach w hw
    by_cases hra : r = a
    · exact ⟨rb, hb'.root_mem, redirect hc hra⟩
    · exact ⟨r, (keep hc hra).root_mem, keep hc hra⟩

/-- [S] `ForestFrom` when the last edge is split off -/
theorem forestFrom_snoc (ms : List (Nat × Nat)) (e : Nat × Nat) : ∀ pre : List (Nat × Nat),
    ForestFrom pre (ms ++ [e]) ↔ (ForestFrom pre ms ∧ ¬ Conn (pre ++ ms) e.1 e.2) := by
  induction ms with
  | nil => intro pre; simp [ForestFrom]
  | cons x ms ih =>
    intro pre
    simp only [List.cons_append, ForestFrom, ih, List.append_assoc, and_assoc, List.nil_append]

/-- [S] a forest on `L` can be oriented towards any system of representatives `R` of its
connectivity classes: there is a parent function `tp` such that the edges of the forest are
exactly the links `w – tp w` (`w ∈ L`, `w ∉ R`) and every vertex climbs to a root -/
theorem forest_oriented {L : List Nat} : ∀ (n : Nat) (ms : List (Nat × Nat)), ms.length = n →
    ForestFrom [] ms → (∀ e ∈ ms, e.1 ∈ L ∧ e.2 ∈ L) →
    ∀ R, Reps ms L R → ∃ tp, Oriented ms L R tp := by
  intro n
  induction n with
  | zero =>
    intro ms hlen _ _ R hR
    have : ms = [] := List.length_eq_zero_iff.mp hlen
    subst this
    refine ⟨id, ⟨fun w hw hwR => ?_, fun e he => by simp at he, fun w hw => ?_⟩⟩
    · obtain ⟨r, hr, hc⟩ := hR.cover w hw
      have := (conn_nil_iff _ _).mp hc
      subst this
      exact absurd hr hwR
    · obtain ⟨r, hr, hc⟩ := hR.cover w hw
      have := (conn_nil_iff _ _).mp hc
      subst this
      exact ⟨w, hr, .base hr⟩
  | succ n ih =>
    intro ms hlen hf hin R' hR'
    rcases List.eq_nil_or_concat ms with rfl | ⟨F, e, rfl⟩
    · simp at hlen
    · rw [List.concat_eq_append] at hlen hf hin hR' ⊢
      obtain ⟨hfF, hne⟩ := (forestFrom_snoc F e []).mp hf
      rw [List.nil_append] at hne
      have hinF : ∀ x ∈ F, x.1 ∈ L ∧ x.2 ∈ L := fun x hx => hin x (by simp [hx])
      obtain ⟨hu, hv⟩ := hin e (by simp)
      have hlenF : F.length = n := by simpa using hlen
      have ihF := ih F hlenF hfF hinF
      obtain ⟨u, v⟩ := e
      obtain ⟨ρ, hρ, hcρ⟩ := hR'.cover u hu
      rcases (conn_snoc F u v u ρ).mp hcρ with h1 | ⟨_, h2⟩ | ⟨h1, _⟩
      · -- `u` stays with its root: hang the tree of `v` below `u`
        refine orient_attach (a := v) (b := u) (.inr rfl) hv hu (fun h => hne h.symm) ?_ hR' hρ h1 ihF
        intro x y
        rw [conn_snoc]
        constructor
        · rintro (h | h | h)
          · exact .inl h
          · exact .inr (.inr h)
          · exact .inr (.inl h)
        · rintro (h | h | h)
          · exact .inl h
          · exact .inr (.inr h)
          · exact .inr (.inl h)
      · -- `v` stays with its root: hang the tree of `u` below `v`
        exact orient_attach (a := u) (b := v) (.inl rfl) hu hv hne (fun x y => conn_snoc F u v x y)
          hR' hρ h2 ihF
      · exact absurd h1 hne

/-! ## `assign_children`: the depth-first search along the tree edges -/

/-- the body of the `for n in neighbors` loop of `assign_children` -/
def acStep (edges : IMat) (c n : Nat) (st : List Nat × Array Nat × Array VSet) :
    MErr (ForInStep (List Nat × Array Nat × Array VSet)) := do
  let e := (← edges.getEntry (max c n) (min c n)).getD 0
  let pc ← getE st.2.1 c "assign_children"
  if e == -1 && pc != n then
    let sp ← setE st.2.1 n c "assign_children"
    let cc ← getE st.2.2 c "assign_children"
    let sc ← setE st.2.2 c (cc.insert n) "assign_children"
    pure (.yield (n :: st.1, sp, sc))
  else pure (.yield st)

/-- [S] one pass of the `while let Some(c) = stack.pop()` loop (no hypotheses) -/
theorem assignChildrenLoop_cons (edges : IMat) (fuel c : Nat) (stack : List Nat)
    (par : Array Nat) (ch : Array VSet) :
    assignChildrenLoop edges (fuel + 1) (c :: stack) par ch = (do
      let nbrs ← findNeighbors edges c
      let s ← forIn nbrs.toList (stack, par, ch) (acStep edges c)
      assignChildrenLoop edges fuel s.1 s.2.1 s.2.2) := by
  rw [assignChildrenLoop]
  simp only [Array.forIn_toList]
  rfl

/-- the neighbours `n` of `c` that the inner loop turns into children of `c` -/
def acKids (g : Nat → Option Int) (pc : Nat) (l : List Nat) : List Nat :=
  l.filter (fun n => (g n).getD 0 == -1 && pc != n)

/-- [S] closed form of the inner loop of `assign_children` -/
theorem forIn_acStep {edges : IMat} {c N : Nat} (g : Nat → Option Int) :
    ∀ (l : List Nat) (stack : List Nat) (par : Array Nat) (ch : Array VSet),
      par.size = N → ch.size = N → c < N →
      (∀ n ∈ l, n < N ∧ n ≠ c ∧ edges.getEntry (max c n) (min c n) = .ok (g n)) →
      forIn l (stack, par, ch) (acStep edges c) = .ok
        ((acKids g (par.getD c 0) l).reverse ++ stack,
         (acKids g (par.getD c 0) l).foldl (fun p n => p.setIfInBounds n c) par,
         ch.setIfInBounds c ((acKids g (par.getD c 0) l).foldl VSet.insert (ch.getD c #[]))) := by
  intro l
  induction l with
  | nil =>
    intro stack par ch _ hc hcN _
    simp only [acKids, List.filter_nil, List.reverse_nil, List.nil_append, List.foldl_nil,
      Kr.setIfInBounds_getD_self ch c #[] (by omega)]
    rfl
  | cons n l ih =>
    intro stack par ch hp hc hcN hl
    obtain ⟨hn, hnc, hg⟩ := hl n (by simp)
    have hl' : ∀ n ∈ l, n < N ∧ n ≠ c ∧ edges.getEntry (max c n) (min c n) = .ok (g n) :=
      fun n' h' => hl n' (by simp [h'])
    rw [List.forIn_cons]
    simp only [acStep, hg, Kr.getE_ok par c _ 0 (by omega), bind, Except.bind, pure, Except.pure]
    by_cases hk : ((g n).getD 0 == -1 && par.getD c 0 != n) = true
    · have hkids : acKids g (par.getD c 0) (n :: l) = n :: acKids g (par.getD c 0) l := by
        simp only [acKids, List.filter_cons, hk, if_true]
      simp only [hk, if_true, Kr.setE_ok par n c _ (by omega), Kr.getE_ok ch c _ #[] (by omega),
        Kr.setE_ok ch c _ _ (by omega)]
      have hpc : (par.setIfInBounds n c).getD c 0 = par.getD c 0 := by
        simp [Array.getD_eq_getD_getElem?, hnc]
      have hcc : (ch.setIfInBounds c ((ch.getD c #[]).insert n)).getD c #[] =
          (ch.getD c #[]).insert n := by
        simp [Array.getD_eq_getD_getElem?, show c < ch.size by omega]
      rw [ih (n :: stack) _ _ (by simpa using hp) (by simpa using hc) hcN hl', hpc, hcc, hkids]
      simp [Array.setIfInBounds_setIfInBounds]
    · have hkids : acKids g (par.getD c 0) (n :: l) = acKids g (par.getD c 0) l := by
        simp only [acKids, List.filter_cons, hk]
        simp
      simp only [hk]
      rw [hkids]
      exact ih stack par ch hp hc hcN hl'

/-- [S] assigning parents keeps the size -/
theorem foldl_setParent_size (c : Nat) : ∀ (kids : List Nat) (par : Array Nat),
    (kids.foldl (fun p n => p.setIfInBounds n c) par).size = par.size := by
  intro kids
  induction kids with
  | nil => intro par; rfl
  | cons n kids ih => intro par; rw [List.foldl_cons, ih]; simp

/-- [S] the parent array after `snode_parent[n] = c` for all `n ∈ kids` -/
theorem foldl_setParent_getD (c : Nat) : ∀ (kids : List Nat) (par : Array Nat) (v : Nat),
    (∀ n ∈ kids, n < par.size) →
    (kids.foldl (fun p n => p.setIfInBounds n c) par).getD v 0 =
      if v ∈ kids then c else par.getD v 0 := by
  intro kids
  induction kids with
  | nil => intro par v _; simp
  | cons n kids ih =>
    intro par v hk
    rw [List.foldl_cons, ih _ v (fun n' h' => by simpa using hk n' (by simp [h']))]
    have hn : n < par.size := hk n (by simp)
    by_cases h1 : v ∈ kids
    · simp [h1]
    · by_cases h2 : v = n
      · subst h2; simp [h1, Array.getD_eq_getD_getElem?, hn]
      · have : n ≠ v := fun h => h2 h.symm
        simp [h1, h2, Array.getD_eq_getD_getElem?, this]

/-- [S] members after inserting a list -/
theorem VSet.mem_foldl_insert : ∀ (kids : List Nat) (s : VSet) (w : Nat),
    w ∈ (kids.foldl VSet.insert s).toList ↔ w ∈ s.toList ∨ w ∈ kids := by
  intro kids
  induction kids with
  | nil => intro s w; simp
  | cons n kids ih =>
    intro s w
    rw [List.foldl_cons, ih, VSet.mem_insert]
    simp only [List.mem_cons]
    constructor
    · rintro ((h | h) | h)
      · exact .inl h
      · exact .inr (.inl h)
      · exact .inr (.inr h)
    · rintro (h | h | h)
      · exact .inl (.inl h)
      · exact .inl (.inr h)
      · exact .inr h

/-- [S] inserting a list keeps the set free of repetitions -/
theorem VSet.nodup_foldl_insert : ∀ (kids : List Nat) (s : VSet), s.toList.Nodup →
    (kids.foldl VSet.insert s).toList.Nodup := by
  intro kids
  induction kids with
  | nil => intro s h; exact h
  | cons n kids ih => intro s h; exact ih _ (VSet.nodup_insert s n h)

/-- [S] induction along a climb -/
theorem TreeClimb.rec_on {tp : Nat → Nat} {R : List Nat} {P : Nat → Prop} {w r : Nat}
    (h : TreeClimb tp R w r) (hb : ∀ x ∈ R, P x) (hs : ∀ x, x ∉ R → P (tp x) → P x) : P w := by
  induction h with
  | base h => exact hb _ h
  | step hn _ ih => exact hs _ hn ih

/-- [S] a vertex that climbs to a root is not the parent of its parent -/
theorem TreeClimb.no_two_cycle {tp : Nat → Nat} {R : List Nat} {w r : Nat} (h : TreeClimb tp R w r) :
    w ∉ R → tp w ∉ R → tp (tp w) ≠ w := by
  induction h with
  | base h => intro hn; exact absurd h hn
  | @step w r _ _ ih =>
    intro h1 h2 e
    have := ih h2 (by rw [e]; exact h1)
    rw [e] at this
    exact this rfl

/-- what `assign_children` needs from the edge matrix and the tree it encodes: `nb c` are the
neighbours reported by `find_neighbors`, `g c n` the entry read for the neighbour `n`, and the
entries equal to `-1` are exactly the links `n – tp n` of a tree on `L` rooted at `r` -/
structure AcCtx (edges : IMat) (N : Nat) (L : List Nat) (r : Nat) (tp : Nat → Nat)
    (nb : Nat → List Nat) (g : Nat → Nat → Option Int) : Prop where
  lt : ∀ v ∈ L, v < N
  root : r ∈ L
  nbrs : ∀ c ∈ L, findNeighbors edges c = .ok (nb c).toArray
  entry : ∀ c ∈ L, ∀ n ∈ nb c,
    n < N ∧ n ≠ c ∧ edges.getEntry (max c n) (min c n) = .ok (g c n)
  nodup : ∀ c ∈ L, (nb c).Nodup
  adj : ∀ c ∈ L, ∀ n ∈ nb c, (g c n).getD 0 = -1 →
    n ∈ L ∧ ((c ≠ r ∧ tp c = n) ∨ (n ≠ r ∧ tp n = c))
  child : ∀ n ∈ L, n ≠ r → tp n ∈ L ∧ n ∈ nb (tp n) ∧ (g (tp n) n).getD 0 = -1
  climb : ∀ w ∈ L, TreeClimb tp [r] w r

/-- invariant of the `while` loop of `assign_children`: `V` are the cliques already popped,
`S` is the stack -/
structure AcInv (N : Nat) (L : List Nat) (r : Nat) (tp : Nat → Nat) (par0 : Array Nat)
    (ch0 : Array VSet) (V S : List Nat) (par : Array Nat) (ch : Array VSet) : Prop where
  psize : par.size = N
  csize : ch.size = N
  nodup : (V ++ S).Nodup
  inL : ∀ v ∈ V ++ S, v ∈ L
  hasroot : r ∈ V ++ S
  parent : ∀ v ∈ V ++ S, v ≠ r → par.getD v 0 = tp v ∧ tp v ∈ V
  other : ∀ v, (v ∉ V ++ S ∨ v = r) → par.getD v 0 = par0.getD v 0
  closed : ∀ v ∈ V, ∀ w ∈ L, w ≠ r → tp w = v → w ∈ V ++ S
  kids : ∀ c, c < N → ∀ w, w ∈ (ch.getD c #[]).toList ↔
    (w ∈ (ch0.getD c #[]).toList ∨ (w ∈ V ++ S ∧ w ≠ r ∧ tp w = c))
  kids_nodup : ∀ c, c < N → (ch.getD c #[]).toList.Nodup

/-- [S] one pass of the `while` loop keeps the invariant: the popped clique `c` moves to `V`
and exactly its children in the tree are pushed -/
theorem assignChildren_step {edges : IMat} {N : Nat} {L : List Nat} {r : Nat} {tp : Nat → Nat}
    {nb : Nat → List Nat} {g : Nat → Nat → Option Int} (ctx : AcCtx edges N L r tp nb g)
    {par0 : Array Nat} {ch0 : Array VSet} (hpr : ∀ v ∈ L, par0.getD r 0 ≠ v)
    {V S : List Nat} {c : Nat} {par : Array Nat} {ch : Array VSet}
    (inv : AcInv N L r tp par0 ch0 V (c :: S) par ch) :
    AcInv N L r tp par0 ch0 (V ++ [c]) ((acKids (g c) (par.getD c 0) (nb c)).reverse ++ S)
      ((acKids (g c) (par.getD c 0) (nb c)).foldl (fun p n => p.setIfInBounds n c) par)
      (ch.setIfInBounds c
        ((acKids (g c) (par.getD c 0) (nb c)).foldl VSet.insert (ch.getD c #[]))) := by
  have hcL : c ∈ L := inv.inL c (by simp)
  have hcN : c < N := ctx.lt c hcL
  have hnd := inv.nodup
  rw [List.nodup_append] at hnd
  obtain ⟨hV, hcS, hVS⟩ := hnd
  obtain ⟨hcnS, hS⟩ := List.nodup_cons.mp hcS
  have hcV : c ∉ V := fun h => hVS c h c (by simp) rfl
  generalize hkd : acKids (g c) (par.getD c 0) (nb c) = kids
  -- the new children are exactly the tree children of `c`
  have hk : ∀ n, n ∈ kids ↔ (n ∈ L ∧ n ≠ r ∧ tp n = c) := by
    intro n
    rw [← hkd]
    simp only [acKids, List.mem_filter, Bool.and_eq_true, beq_iff_eq, bne_iff_ne, ne_eq]
    constructor
    · rintro ⟨hnb, hg, hpc⟩
      obtain ⟨hnL, h | h⟩ := ctx.adj c hcL n hnb hg
      · exact absurd ((inv.parent c (by simp) h.1).1.trans h.2) hpc
      · exact ⟨hnL, h⟩
    · rintro ⟨hnL, hnr, htp⟩
      obtain ⟨_, hnb, hg⟩ := ctx.child n hnL hnr
      rw [htp] at hnb hg
      refine ⟨hnb, hg, ?_⟩
      by_cases hcr : c = r
      · rw [hcr, inv.other r (.inr rfl)]
        exact hpr n hnL
      · rw [(inv.parent c (by simp) hcr).1]
        intro e
        have h2 := (ctx.climb n hnL).no_two_cycle (by simpa using hnr)
          (by rw [htp]; simpa using hcr)
        rw [htp, e] at h2
        exact h2 rfl
  have hknew : ∀ n ∈ kids, n ∉ V ++ c :: S := by
    intro n hn hmem
    obtain ⟨_, hnr, htp⟩ := (hk n).mp hn
    have := (inv.parent n hmem hnr).2
    rw [htp] at this
    exact hcV this
  have hkN : ∀ n ∈ kids, n < N := fun n hn => ctx.lt n ((hk n).mp hn).1
  have hknd : kids.Nodup := by
    rw [← hkd]
    exact (ctx.nodup c hcL).sublist List.filter_sublist
  have hmem : ∀ v, v ∈ (V ++ [c]) ++ (kids.reverse ++ S) ↔ (v ∈ V ++ c :: S ∨ v ∈ kids) := by
    intro v
    simp only [List.mem_append, List.mem_cons, List.mem_reverse, List.not_mem_nil, or_false]
    constructor
    · rintro ((h | h) | (h | h))
      · exact .inl (.inl h)
      · exact .inl (.inr (.inl h))
      · exact .inr h
      · exact .inl (.inr (.inr h))
    · rintro ((h | h | h) | h)
      · exact .inl (.inl h)
      · exact .inl (.inr h)
      · exact .inr (.inr h)
      · exact .inr (.inl h)
  have hpar : ∀ v, (kids.foldl (fun p n => p.setIfInBounds n c) par).getD v 0 =
      if v ∈ kids then c else par.getD v 0 :=
    fun v => foldl_setParent_getD c kids par v (fun n hn => by rw [inv.psize]; exact hkN n hn)
  refine ⟨by rw [foldl_setParent_size, inv.psize], by simpa using inv.csize, ?_, ?_, ?_, ?_, ?_,
    ?_, ?_, ?_⟩
  · -- nodup
    rw [List.nodup_append]
    refine ⟨?_, ?_, ?_⟩
    · exact List.nodup_append.mpr ⟨hV, by simp, fun a ha b hb => by
        simp only [List.mem_singleton] at hb; subst hb; rintro rfl; exact hcV ha⟩
    · refine List.nodup_append.mpr ⟨List.nodup_reverse.mpr hknd, hS, fun a ha b hb => ?_⟩
      rintro rfl
      exact hknew a (List.mem_reverse.mp ha) (by simp [hb])
    · intro a ha b hb
      rintro rfl
      rcases List.mem_append.mp ha with ha | ha <;> rcases List.mem_append.mp hb with hb | hb
      · exact hknew a (List.mem_reverse.mp hb) (by simp [ha])
      · exact hVS a ha a (by simp [hb]) rfl
      · simp only [List.mem_singleton] at ha
        subst ha
        exact hknew a (List.mem_reverse.mp hb) (by simp)
      · simp only [List.mem_singleton] at ha
        subst ha
        exact hcnS hb
  · intro v hv
    rcases (hmem v).mp hv with h | h
    · exact inv.inL v h
    · exact ((hk v).mp h).1
  · exact (hmem r).mpr (.inl inv.hasroot)
  · intro v hv hvr
    rw [hpar v]
    rcases (hmem v).mp hv with h | h
    · have hvk : v ∉ kids := fun hk' => hknew v hk' h
      obtain ⟨h1, h2⟩ := inv.parent v h hvr
      simp only [hvk, if_false]
      exact ⟨h1, by simp [h2]⟩
    · simp only [h, if_true]
      exact ⟨((hk v).mp h).2.2.symm, by simp [((hk v).mp h).2.2]⟩
  · intro v hv
    rw [hpar v]
    have hvk : v ∉ kids := by
      intro hk'
      rcases hv with hv | hv
      · exact hv ((hmem v).mpr (.inr hk'))
      · exact ((hk v).mp hk').2.1 hv
    simp only [hvk, if_false]
    refine inv.other v (hv.imp_left (fun h h' => h ((hmem v).mpr (.inl h'))))
  · intro v hv w hw hwr htp
    rw [hmem]
    rcases List.mem_append.mp hv with hv | hv
    · exact .inl (inv.closed v hv w hw hwr htp)
    · simp only [List.mem_singleton] at hv
      subst hv
      exact .inr ((hk w).mpr ⟨hw, hwr, htp⟩)
  · intro c' hc' w
    by_cases hcc : c' = c
    · subst hcc
      have : (ch.setIfInBounds c' (kids.foldl VSet.insert (ch.getD c' #[]))).getD c' #[] =
          kids.foldl VSet.insert (ch.getD c' #[]) := by
        simp [Array.getD_eq_getD_getElem?, show c' < ch.size by rw [inv.csize]; exact hc']
      rw [this, VSet.mem_foldl_insert, inv.kids c' hc' w, hmem]
      constructor
      · rintro ((h | h) | h)
        · exact .inl h
        · exact .inr ⟨.inl h.1, h.2⟩
        · exact .inr ⟨.inr h, ((hk w).mp h).2⟩
      · rintro (h | ⟨h1 | h1, h2⟩)
        · exact .inl (.inl h)
        · exact .inl (.inr ⟨h1, h2⟩)
        · exact .inr h1
    · have hne : c ≠ c' := fun h => hcc h.symm
      have : (ch.setIfInBounds c (kids.foldl VSet.insert (ch.getD c #[]))).getD c' #[] =
          ch.getD c' #[] := by
        simp [Array.getD_eq_getD_getElem?, hne]
      rw [this, inv.kids c' hc' w, hmem]
      constructor
      · rintro (h | h)
        · exact .inl h
        · exact .inr ⟨.inl h.1, h.2⟩
      · rintro (h | ⟨h1 | h1, h2⟩)
        · exact .inl h
        · exact .inr ⟨h1, h2⟩
        · exact absurd (((hk w).mp h1).2.2.symm.trans h2.2) hne
  · intro c' hc'
    by_cases hcc : c' = c
    · subst hcc
      have : (ch.setIfInBounds c' (kids.foldl VSet.insert (ch.getD c' #[]))).getD c' #[] =
          kids.foldl VSet.insert (ch.getD c' #[]) := by
        simp [Array.getD_eq_getD_getElem?, show c' < ch.size by rw [inv.csize]; exact hc']
      rw [this]
      exact VSet.nodup_foldl_insert _ _ (inv.kids_nodup c' hc')
    · have hne : c ≠ c' := fun h => hcc h.symm
      have : (ch.setIfInBounds c (kids.foldl VSet.insert (ch.getD c #[]))).getD c' #[] =
          ch.getD c' #[] := by
        simp [Array.getD_eq_getD_getElem?, hne]
      rw [this]
      exact inv.kids_nodup c' hc'

/-- [S] the `while` loop of `assign_children` terminates within the fuel and ends with an empty
stack and the invariant -/
theorem assignChildrenLoop_inv {edges : IMat} {N : Nat} {L : List Nat} {r : Nat} {tp : Nat → Nat}
    {nb : Nat → List Nat} {g : Nat → Nat → Option Int} (ctx : AcCtx edges N L r tp nb g)
    {par0 : Array Nat} {ch0 : Array VSet} (hpr : ∀ v ∈ L, par0.getD r 0 ≠ v) :
    ∀ (fuel : Nat) (V S : List Nat) (par : Array Nat) (ch : Array VSet),
      AcInv N L r tp par0 ch0 V S par ch → L.length + 1 ≤ fuel + V.length →
      ∃ par' ch' V', assignChildrenLoop edges fuel S par ch = .ok (par', ch') ∧
        AcInv N L r tp par0 ch0 V' [] par' ch' := by
  intro fuel
  induction fuel with
  | zero =>
    intro V S par ch inv hf
    have hV : V.Nodup := (List.nodup_append.mp inv.nodup).1
    have := hV.length_le_of_subset (fun v hv => inv.inL v (by simp [hv]))
    omega
  | succ fuel ih =>
    intro V S par ch inv hf
    cases S with
    | nil => exact ⟨par, ch, V, rfl, inv⟩
    | cons c S =>
      have hcL : c ∈ L := inv.inL c (by simp)
      have hcN : c < N := ctx.lt c hcL
      have hstep := assignChildren_step ctx hpr inv
      have hf' : L.length + 1 ≤ fuel + (V ++ [c]).length := by
        simp only [List.length_append, List.length_cons, List.length_nil]
        omega
      obtain ⟨par', ch', V', hrun, hinv⟩ := ih _ _ _ _ hstep hf'
      refine ⟨par', ch', V', ?_, hinv⟩
      rw [assignChildrenLoop_cons, ctx.nbrs c hcL]
      simp only [bind, Except.bind]
      rw [forIn_acStep (g c) (nb c) S par ch inv.psize inv.csize hcN (ctx.entry c hcL)]
      exact hrun

/-- [S] **assign_children** on a tree: started at the root `r`, the search does not run out of
fuel, gives every clique `v ≠ r` of the tree its tree parent `tp v`, leaves all other parents
alone, and adds to the children of `c` exactly the `w` with `tp w = c` -/
theorem assignChildren_spec {edges : IMat} {N : Nat} {L : List Nat} {r : Nat} {tp : Nat → Nat}
    {nb : Nat → List Nat} {g : Nat → Nat → Option Int} (ctx : AcCtx edges N L r tp nb g)
    (hL : L.Nodup) {par0 : Array Nat} {ch0 : Array VSet} (hp : par0.size = N)
    (hc : ch0.size = N) (hpr : ∀ v ∈ L, par0.getD r 0 ≠ v)
    (hch0 : ∀ c, c < N → (ch0.getD c #[]).toList.Nodup) :
    ∃ par' ch', assignChildren par0 ch0 r edges = .ok (par', ch') ∧
      par'.size = N ∧ ch'.size = N ∧
      (∀ v ∈ L, v ≠ r → par'.getD v 0 = tp v) ∧
      (∀ v, (v ∉ L ∨ v = r) → par'.getD v 0 = par0.getD v 0) ∧
      (∀ c, c < N → ∀ w, w ∈ (ch'.getD c #[]).toList ↔
        (w ∈ (ch0.getD c #[]).toList ∨ (w ∈ L ∧ w ≠ r ∧ tp w = c))) ∧
      (∀ c, c < N → (ch'.getD c #[]).toList.Nodup) := by
  have inv0 : AcInv N L r tp par0 ch0 [] [r] par0 ch0 := by
    refine ⟨hp, hc, by simp, ?_, by simp, ?_, fun _ _ => rfl, by simp, ?_, hch0⟩
    · intro v hv
      simp only [List.nil_append, List.mem_singleton] at hv
      subst hv
      exact ctx.root
    · intro v hv hvr
      simp only [List.nil_append, List.mem_singleton] at hv
      exact absurd hv hvr
    · intro c _ w
      simp only [List.nil_append, List.mem_singleton]
      constructor
      · exact .inl
      · rintro (h | ⟨h1, h2, _⟩)
        · exact h
        · exact absurd h1 h2
  have hlen : L.length ≤ N := by
    have := hL.length_le_of_subset (l₂ := List.range N)
      (fun v hv => List.mem_range.mpr (ctx.lt v hv))
    simpa using this
  obtain ⟨par', ch', V', hrun, inv⟩ := assignChildrenLoop_inv ctx hpr (2 * par0.size + 2) [] [r]
    par0 ch0 inv0 (by simp only [List.length_nil]; omega)
  have hVL : ∀ v ∈ V', v ∈ L := fun v hv => inv.inL v (by simp [hv])
  have hLV : ∀ w ∈ L, w ∈ V' := by
    intro w hw
    refine (ctx.climb w hw).rec_on (P := fun x => x ∈ L → x ∈ V') ?_ ?_ hw
    · intro x hx _
      simp only [List.mem_singleton] at hx
      subst hx
      simpa using inv.hasroot
    · intro x hn ih hx
      have hxr : x ≠ r := by simpa using hn
      have h1 := (ctx.child x hx hxr).1
      have := inv.closed (tp x) (ih h1) x hx hxr rfl
      simpa using this
  refine ⟨par', ch', hrun, inv.psize, inv.csize, ?_, ?_, ?_, inv.kids_nodup⟩
  · intro v hv hvr
    exact (inv.parent v (by simpa using hLV v hv) hvr).1
  · intro v hv
    refine inv.other v (hv.imp_left (fun h h' => h (hVL v (by simpa using h'))))
  · intro c hc w
    rw [inv.kids c hc w]
    simp only [List.append_nil]
    constructor
    · rintro (h | ⟨h1, h2⟩)
      · exact .inl h
      · exact .inr ⟨hVL w h1, h2⟩
    · rintro (h | ⟨h1, h2⟩)
      · exact .inl h
      · exact .inr ⟨hLV w h1, h2⟩

/-! ## `column`, `get_entry`, `find_neighbors` on a well-formed matrix -/

/-- [S] `colptr` is monotone -/
theorem colptr_mono {E : IMat} (h : E.WFE) : ∀ j, j ≤ E.n → ∀ i, i ≤ j →
    E.colptr.getD i 0 ≤ E.colptr.getD j 0 := by
  intro j
  induction j with
  | zero => intro _ i hi; have : i = 0 := by omega
            subst this; exact Nat.le_refl _
  | succ j ih =>
    intro hj i hi
    by_cases e : i = j + 1
    · subst e; exact Nat.le_refl _
    · exact Nat.le_trans (ih (by omega) i (by omega)) (h.mono j (by omega))

/-- the row indices stored in column `c` -/
def IMat.colRows (A : IMat) (c : Nat) : Array Nat :=
  A.rowval.extract (A.colptr.getD c 0) (A.colptr.getD (c + 1) 0)

/-- the stored value at `(row, col)` (first match in the column), if any -/
def IMat.entry (A : IMat) (row col : Nat) : Option Int :=
  match (A.colRows col).findIdx? (· == row) with
  | some idx => some (A.nzval.getD (A.colptr.getD col 0 + idx) 0)
  | none => none

/-- [S] the column slice of an in-range column is read without panic -/
theorem column_ok {E : IMat} (h : E.WFE) {c : Nat} (hc : c < E.n) (site : String) :
    E.column c site = .ok (E.colptr.getD c 0, E.colRows c) := by
  have h1 := h.mono c hc
  have h2 := colptr_mono h E.n (Nat.le_refl _) (c + 1) (by omega)
  rw [h.nnz_row] at h2
  have hs := h.cpsize
  simp only [IMat.column, Kr.getE_ok E.colptr c site 0 (by omega),
    Kr.getE_ok E.colptr (c + 1) site 0 (by omega), bind, Except.bind, pure, Except.pure]
  rw [if_neg (by omega)]
  rfl

/-- [S] number of entries of a column -/
theorem colRows_size {E : IMat} (h : E.WFE) {c : Nat} (hc : c < E.n) :
    (E.colRows c).size = E.colptr.getD (c + 1) 0 - E.colptr.getD c 0 := by
  have h2 := colptr_mono h E.n (Nat.le_refl _) (c + 1) (by omega)
  rw [h.nnz_row] at h2
  simp only [IMat.colRows, Array.size_extract]
  omega

/-- [S] the `i`-th row index of column `c` is `rowval[colptr[c] + i]` -/
theorem colRows_getD {E : IMat} (h : E.WFE) {c : Nat} (hc : c < E.n) {i : Nat}
    (hi : i < (E.colRows c).size) :
    (E.colRows c).getD i 0 = E.rowval.getD (E.colptr.getD c 0 + i) 0 := by
  have hs := colRows_size h hc
  have h2 := colptr_mono h E.n (Nat.le_refl _) (c + 1) (by omega)
  rw [h.nnz_row] at h2
  unfold IMat.colRows at hi hs ⊢
  generalize E.colptr.getD c 0 = lo at *
  generalize E.colptr.getD (c + 1) 0 = hi' at *
  simp only [Array.getD_eq_getD_getElem?, Array.getElem?_extract]
  rw [if_pos (by omega)]

/-- [S] `get_entry` does not panic on in-range coordinates of a well-formed square matrix -/
theorem getEntry_ok {E : IMat} (h : E.WFE) (hm : E.m = E.n) {row col : Nat} (hr : row < E.n)
    (hc : col < E.n) : E.getEntry row col = .ok (E.entry row col) := by
  have hcond : (!(decide (row < E.m) && decide (col < E.n))) = false := by
    simp [hm, hr, hc]
  simp only [IMat.getEntry, hcond, Bool.false_eq_true, if_false, column_ok h hc, bind, Except.bind,
    IMat.entry]
  cases hf : (E.colRows col).findIdx? (fun x => x == row) with
  | none => rfl
  | some idx =>
    have hidx : idx < (E.colRows col).size := by
      obtain ⟨hlt, _⟩ := Array.findIdx?_eq_some_iff_getElem.mp hf
      exact hlt
    rw [colRows_size h hc] at hidx
    have h2 := colptr_mono h E.n (Nat.le_refl _) (col + 1) (by omega)
    rw [h.nnz_row, ← h.nnz_val] at h2
    simp only [Kr.getE_ok E.nzval (E.colptr.getD col 0 + idx) _ 0 (by omega), pure, Except.pure]

/-- the body of the first loop of `find_neighbors` -/
def fnStep (edges : IMat) (c col : Nat) (nbrs : Array Nat) : MErr (ForInStep (Array Nat)) := do
  let val := (← edges.getEntry c col).getD 0
  if val != 0 then pure (.yield (nbrs.push col)) else pure (.yield nbrs)

/-- the neighbours reported by `find_neighbors`: the columns `< c` with a nonzero entry in row
`c`, then the rows stored in column `c` -/
def IMat.nbrs (A : IMat) (c : Nat) : List Nat :=
  (List.range' 0 c).filter (fun col => (A.entry c col).getD 0 != 0) ++
    (if c < A.n - 1 then (A.colRows c).toList else [])

/-- [S] the first loop of `find_neighbors` collects the nonzero columns of row `c` -/
theorem forIn_fnStep {E : IMat} (h : E.WFE) (hm : E.m = E.n) {c : Nat} (hc : c < E.n)
    (len : Nat) : ∀ (i : Nat) (acc : Array Nat), i + len ≤ c →
      forIn (List.range' i len) acc (fnStep E c) = .ok
        (acc ++ ((List.range' i len).filter (fun col => (E.entry c col).getD 0 != 0)).toArray) := by
  induction len with
  | zero => intro i acc _; simp [pure, Except.pure]
  | succ len ih =>
    intro i acc hi
    rw [List.range'_succ, List.forIn_cons]
    simp only [fnStep, getEntry_ok h hm hc (show i < E.n by omega), bind, Except.bind, pure,
      Except.pure]
    by_cases hv : ((E.entry c i).getD 0 != 0) = true
    · simp only [hv, if_true, List.filter_cons]
      rw [ih (i + 1) _ (by omega)]
      apply congrArg
      apply Array.ext'
      simp
    · simp only [hv, List.filter_cons, Bool.false_eq_true, if_false]
      rw [ih (i + 1) _ (by omega)]

/-- [S] closed form of `find_neighbors` on a well-formed square matrix -/
theorem findNeighbors_ok {E : IMat} (h : E.WFE) (hm : E.m = E.n) {c : Nat} (hc : c < E.n) :
    findNeighbors E c = .ok (E.nbrs c).toArray := by
  have hn0 : (E.n == 0) = false := by rw [beq_eq_false_iff_ne]; omega
  have hloop := forIn_fnStep h hm hc c 0 #[] (by omega)
  unfold findNeighbors
  simp only [Std.Legacy.Range.forIn_eq_forIn_range', Std.Legacy.Range.size, Nat.sub_zero,
    Nat.add_sub_cancel, Nat.div_one, hn0, Bool.false_eq_true, if_false]
  by_cases hc0 : c > 0
  · simp only [hc0, if_true]
    have : (forIn (List.range' 0 c) (#[] : Array Nat) fun col __s => do
        let __do_lift ← E.getEntry c col
        if (__do_lift.getD 0 != 0) = true then pure (ForInStep.yield (__s.push col))
        else pure (ForInStep.yield __s)) = forIn (List.range' 0 c) #[] (fnStep E c) := rfl
    rw [this, hloop]
    simp only [bind, Except.bind, column_ok h hc, IMat.nbrs]
    by_cases h1 : c < E.n - 1
    · simp only [h1, if_true, pure, Except.pure]
      apply congrArg
      apply Array.ext'
      simp
    · simp only [h1, if_false, pure, Except.pure]
      apply congrArg
      apply Array.ext'
      simp
  · have hc0' : c = 0 := by omega
    subst hc0'
    simp only [Nat.lt_irrefl, if_false, IMat.nbrs, List.range'_zero, List.filter_nil,
      List.nil_append, bind, Except.bind, column_ok h hc]
    by_cases h1 : 0 < E.n - 1
    · simp only [h1, if_true, pure, Except.pure]
      apply congrArg
      apply Array.ext'
      simp
    · simp only [h1, if_false, pure, Except.pure]

/-! ## entries of a strictly lower triangular matrix without repeated entries -/

/-- square, strictly lower triangular, no entry stored twice (as built by
`compute_reduced_clique_graph` + `new_from_triplets`: `rows = max`, `cols = min` of distinct
cliques, duplicates consolidated) -/
structure IMat.Lower (E : IMat) : Prop where
  sq : E.m = E.n
  lower : ∀ k, k < E.rowval.size → E.colIdx.getD k 0 < E.rowval.getD k 0
  nodup : ∀ k k', k < E.rowval.size → k' < E.rowval.size →
    E.colIdx.getD k 0 = E.colIdx.getD k' 0 → E.rowval.getD k 0 = E.rowval.getD k' 0 → k = k'

/-- [S] entry `k` lies in column `c` iff `colptr[c] ≤ k < colptr[c+1]` -/
theorem colIdx_eq_iff {E : IMat} (h : E.WFE) {k c : Nat} (hk : k < E.rowval.size) (hc : c < E.n) :
    E.colIdx.getD k 0 = c ↔ (E.colptr.getD c 0 ≤ k ∧ k < E.colptr.getD (c + 1) 0) := by
  obtain ⟨h1, h2, h3⟩ := colIdx_spec h hk
  constructor
  · rintro rfl; exact ⟨h2, h3⟩
  · rintro ⟨h4, h5⟩
    generalize E.colIdx.getD k 0 = c' at h1 h2 h3
    by_contra hne
    rcases Nat.lt_or_gt_of_ne hne with hlt | hgt
    · have := colptr_mono h c (by omega) (c' + 1) (by omega)
      omega
    · have := colptr_mono h c' (by omega) (c + 1) (by omega)
      omega

/-- [S] membership in an array by index -/
theorem Kr.mem_toList_iff_getD (xs : Array Nat) (r : Nat) :
    r ∈ xs.toList ↔ ∃ i, i < xs.size ∧ xs.getD i 0 = r := by
  rw [Array.mem_toList_iff, Array.mem_iff_getElem]
  constructor
  · rintro ⟨i, hi, rfl⟩; exact ⟨i, hi, by simp [Array.getD_eq_getD_getElem?, hi]⟩
  · rintro ⟨i, hi, rfl⟩; exact ⟨i, hi, by simp [Array.getD_eq_getD_getElem?, hi]⟩

/-- [S] the rows stored in column `c` -/
theorem mem_colRows_iff {E : IMat} (h : E.WFE) {c : Nat} (hc : c < E.n) (r : Nat) :
    r ∈ (E.colRows c).toList ↔
      ∃ k, k < E.rowval.size ∧ E.colIdx.getD k 0 = c ∧ E.rowval.getD k 0 = r := by
  have hs := colRows_size h hc
  have h2 := colptr_mono h E.n (Nat.le_refl _) (c + 1) (by omega)
  rw [h.nnz_row] at h2
  have h1 := h.mono c hc
  rw [Kr.mem_toList_iff_getD]
  constructor
  · rintro ⟨i, hi, rfl⟩
    refine ⟨E.colptr.getD c 0 + i, by omega, ?_, (colRows_getD h hc hi).symm⟩
    exact (colIdx_eq_iff h (by omega) hc).mpr ⟨by omega, by omega⟩
  · rintro ⟨k, hk, hck, rfl⟩
    obtain ⟨h3, h4⟩ := (colIdx_eq_iff h hk hc).mp hck
    refine ⟨k - E.colptr.getD c 0, by omega, ?_⟩
    rw [colRows_getD h hc (by omega)]
    congr 1
    omega

/-- [S] `entry row col = some v` iff `v` is the value of the stored entry at `(row, col)` -/
theorem entry_eq_some_iff {E : IMat} (h : E.WFE) (hl : E.Lower) {row col : Nat} (hc : col < E.n)
    (v : Int) :
    E.entry row col = some v ↔ ∃ k, k < E.rowval.size ∧ E.colIdx.getD k 0 = col ∧
      E.rowval.getD k 0 = row ∧ E.nzval.getD k 0 = v := by
  have hs := colRows_size h hc
  have h2 := colptr_mono h E.n (Nat.le_refl _) (col + 1) (by omega)
  rw [h.nnz_row] at h2
  have h1 := h.mono col hc
  unfold IMat.entry
  cases hf : (E.colRows col).findIdx? (fun x => x == row) with
  | none =>
    simp only [reduceCtorEq, false_iff]
    rintro ⟨k, hk, hck, hrk, _⟩
    have hmem : row ∈ (E.colRows col).toList := (mem_colRows_iff h hc row).mpr ⟨k, hk, hck, hrk⟩
    have := Array.findIdx?_eq_none_iff.mp hf row (Array.mem_toList_iff.mp hmem)
    simp at this
  | some idx =>
    obtain ⟨hlt, hp, _⟩ := Array.findIdx?_eq_some_iff_getElem.mp hf
    have hrow : (E.colRows col).getD idx 0 = row := by
      have : (E.colRows col)[idx] = row := by simpa using hp
      simp [Array.getD_eq_getD_getElem?, hlt, this]
    rw [colRows_getD h hc hlt] at hrow
    have hk1 : E.colptr.getD col 0 + idx < E.rowval.size := by omega
    have hc1 : E.colIdx.getD (E.colptr.getD col 0 + idx) 0 = col :=
      (colIdx_eq_iff h hk1 hc).mpr ⟨by omega, by omega⟩
    simp only [Option.some.injEq]
    constructor
    · intro hv
      exact ⟨_, hk1, hc1, hrow, hv⟩
    · rintro ⟨k, hk, hck, hrk, hvk⟩
      have := hl.nodup k _ hk hk1 (hck.trans hc1.symm) (hrk.trans hrow.symm)
      rw [← this]
      exact hvk

/-- [S] no row index is stored twice in a column -/
theorem colRows_nodup {E : IMat} (h : E.WFE) (hl : E.Lower) {c : Nat} (hc : c < E.n) :
    (E.colRows c).toList.Nodup := by
  have hs := colRows_size h hc
  have h2 := colptr_mono h E.n (Nat.le_refl _) (c + 1) (by omega)
  rw [h.nnz_row] at h2
  have h1 := h.mono c hc
  rw [List.nodup_iff_getElem?_ne_getElem?]
  intro i j hij hj heq
  have hj' : j < (E.colRows c).size := by simpa using hj
  have e : (E.colRows c).getD i 0 = (E.colRows c).getD j 0 := by
    simp only [Array.getD_eq_getD_getElem?]
    simp only [Array.getElem?_toList] at heq
    rw [heq]
  rw [colRows_getD h hc (by omega), colRows_getD h hc hj'] at e
  have hci := (colIdx_eq_iff h (k := E.colptr.getD c 0 + i) (by omega) hc).mpr ⟨by omega, by omega⟩
  have hcj := (colIdx_eq_iff h (k := E.colptr.getD c 0 + j) (by omega) hc).mpr ⟨by omega, by omega⟩
  have := hl.nodup _ _ (by omega) (by omega) (hci.trans hcj.symm) e
  omega

/-- [S] members of the neighbour list of `find_neighbors` -/
theorem mem_nbrs_iff {E : IMat} (c n : Nat) :
    n ∈ E.nbrs c ↔ ((n < c ∧ (E.entry c n).getD 0 ≠ 0) ∨
      (c < E.n - 1 ∧ n ∈ (E.colRows c).toList)) := by
  unfold IMat.nbrs
  simp only [List.mem_append, List.mem_filter, List.mem_range'_1, bne_iff_ne, ne_eq, Nat.zero_le,
    true_and, Nat.zero_add]
  by_cases h : c < E.n - 1 <;> simp [h]

/-- [S] on a well-formed strictly lower triangular matrix whose `-1` entries are the edges `T`
of a tree on `L` oriented towards `r` by `tp`, `find_neighbors` and `get_entry` provide what the
search of `assign_children` needs -/
theorem acCtx_of_tree {E : IMat} (h : E.WFE) (hl : E.Lower) {L : List Nat} {r : Nat}
    (hr : r ∈ L) (hLlt : ∀ v ∈ L, v < E.n) {T : List (Nat × Nat)}
    (hT : ∀ a b, (a, b) ∈ T ↔ ∃ k, k < E.rowval.size ∧ E.rowval.getD k 0 = a ∧
      E.colIdx.getD k 0 = b ∧ E.nzval.getD k 0 = -1)
    (hTL : ∀ e ∈ T, e.1 ∈ L ∧ e.2 ∈ L) {tp : Nat → Nat} (ho : Oriented T L [r] tp) :
    AcCtx E E.n L r tp E.nbrs (fun c n => E.entry (max c n) (min c n)) := by
  -- a `-1` entry is a tree edge
  have hedge : ∀ {row col : Nat}, col < E.n → (E.entry row col).getD 0 = -1 → (row, col) ∈ T := by
    intro row col hc hv
    cases he : E.entry row col with
    | none => rw [he] at hv; simp at hv
    | some v =>
      rw [he] at hv
      simp only [Option.getD_some] at hv
      subst hv
      obtain ⟨k, hk, hck, hrk, hvk⟩ := (entry_eq_some_iff h hl hc _).mp he
      exact (hT row col).mpr ⟨k, hk, hrk, hck, hvk⟩
  have hentry : ∀ {row col : Nat}, (row, col) ∈ T → col < row ∧ row < E.n ∧
      col ∈ (List.range' 0 row) ∧ row ∈ (E.colRows col).toList ∧ E.entry row col = some (-1) := by
    intro row col hm
    obtain ⟨k, hk, hrk, hck, hvk⟩ := (hT row col).mp hm
    have hlt := hl.lower k hk
    rw [hrk, hck] at hlt
    have hrn : row < E.n := hrk ▸ h.rows k hk
    refine ⟨hlt, hrn, by simp [List.mem_range'_1, hlt], ?_, ?_⟩
    · exact (mem_colRows_iff h (by omega) row).mpr ⟨k, hk, hck, hrk⟩
    · exact (entry_eq_some_iff h hl (by omega) _).mpr ⟨k, hk, hck, hrk, hvk⟩
  have hnbr : ∀ c ∈ L, ∀ n ∈ E.nbrs c, n < E.n ∧ n ≠ c := by
    intro c hc n hn
    rcases (mem_nbrs_iff c n).mp hn with ⟨h1, _⟩ | ⟨_, h2⟩
    · have := hLlt c hc; exact ⟨by omega, by omega⟩
    · obtain ⟨k, hk, hck, hrk⟩ := (mem_colRows_iff h (hLlt c hc) n).mp h2
      have := hl.lower k hk
      have := h.rows k hk
      exact ⟨by omega, by omega⟩
  refine ⟨hLlt, hr, fun c hc => findNeighbors_ok h hl.sq (hLlt c hc), ?_, ?_, ?_, ?_, ?_⟩
  · intro c hc n hn
    obtain ⟨h1, h2⟩ := hnbr c hc n hn
    have := hLlt c hc
    exact ⟨h1, h2, getEntry_ok h hl.sq (by omega) (by omega)⟩
  · intro c hc
    have hcn := hLlt c hc
    unfold IMat.nbrs
    refine List.nodup_append.mpr ⟨(List.nodup_range' 1).sublist List.filter_sublist, ?_, ?_⟩
    · by_cases h1 : c < E.n - 1
      · simp only [h1, if_true]; exact colRows_nodup h hl hcn
      · simp [h1]
    · intro a ha b hb
      have ha' : a < c := by
        have := (List.mem_filter.mp ha).1
        simp only [List.mem_range'_1] at this
        omega
      by_cases h1 : c < E.n - 1
      · simp only [h1, if_true] at hb
        obtain ⟨k, hk, hck, hrk⟩ := (mem_colRows_iff h hcn b).mp hb
        have := hl.lower k hk
        omega
      · simp [h1] at hb
  · intro c hc n hn hg
    obtain ⟨h1, h2⟩ := hnbr c hc n hn
    have hcn := hLlt c hc
    have hm := hedge (row := max c n) (col := min c n) (by omega) hg
    obtain ⟨hL1, hL2⟩ := hTL _ hm
    have hep := ho.edge_parent _ hm
    simp only [List.mem_singleton] at hep
    rcases Nat.lt_or_gt_of_ne h2 with hlt | hgt
    · rw [Nat.max_eq_left (by omega), Nat.min_eq_right (by omega)] at hL1 hL2 hep
      exact ⟨hL2, hep⟩
    · rw [Nat.max_eq_right (by omega), Nat.min_eq_left (by omega)] at hL1 hL2 hep
      exact ⟨hL1, hep.symm⟩
  · intro n hn hnr
    obtain ⟨h1, h2⟩ := ho.parent_edge n hn (by simpa using hnr)
    refine ⟨h1, ?_⟩
    rcases h2 with h2 | h2
    · obtain ⟨hlt, hrn, _, hrows, he⟩ := hentry h2
      refine ⟨(mem_nbrs_iff _ _).mpr (.inr ⟨by omega, hrows⟩), ?_⟩
      simp only [Nat.max_eq_right (Nat.le_of_lt hlt), Nat.min_eq_left (Nat.le_of_lt hlt), he,
        Option.getD_some]
    · obtain ⟨hlt, hrn, _, _, he⟩ := hentry h2
      refine ⟨(mem_nbrs_iff _ _).mpr (.inl ⟨hlt, by rw [he]; simp⟩), ?_⟩
      simp only [Nat.max_eq_left (Nat.le_of_lt hlt), Nat.min_eq_right (Nat.le_of_lt hlt), he,
        Option.getD_some]
  · intro w hw
    obtain ⟨r', hr', hc⟩ := ho.reach w hw
    simp only [List.mem_singleton] at hr'
    subst hr'
    exact hc

/-! ## `determine_parent_cliques` on a matrix whose `-1` entries form a spanning tree -/

/-- the `-1` entries of `E` are exactly the edges `T` -/
def IMat.TreeIs (E : IMat) (T : List (Nat × Nat)) : Prop :=
  ∀ a b, (a, b) ∈ T ↔ ∃ k, k < E.rowval.size ∧ E.rowval.getD k 0 = a ∧
    E.colIdx.getD k 0 = b ∧ E.nzval.getD k 0 = -1

/-- the root clique picked by `determine_parent_cliques`: the first clique containing the
vertex `v0 = post.last()`, clique `0` if there is none -/
def dpcRoot (cliques : Array VSet) (v0 : Nat) : Nat :=
  (cliques.findIdx? (fun clique => clique.contains v0)).getD 0

/-- [S] an orientation only depends on the parents of the non-root vertices -/
theorem Oriented.congr {T : List (Nat × Nat)} {L : List Nat} {r : Nat} {tp tp' : Nat → Nat}
    (ho : Oriented T L [r] tp) (hTL : ∀ e ∈ T, e.1 ∈ L ∧ e.2 ∈ L)
    (heq : ∀ v ∈ L, v ≠ r → tp' v = tp v) : Oriented T L [r] tp' := by
  refine ⟨fun w hw hwr => ?_, fun e he => ?_, fun w hw => ?_⟩
  · rw [heq w hw (by simpa using hwr)]; exact ho.parent_edge w hw hwr
  · obtain ⟨h1, h2⟩ := hTL e he
    rcases ho.edge_parent e he with ⟨h3, h4⟩ | ⟨h3, h4⟩
    · exact .inl ⟨h3, by rw [heq _ h1 (by simpa using h3)]; exact h4⟩
    · exact .inr ⟨h3, by rw [heq _ h2 (by simpa using h3)]; exact h4⟩
  · obtain ⟨r', hr', hc⟩ := ho.reach w hw
    refine ⟨r', hr', ?_⟩
    refine hc.rec_on (P := fun x => x ∈ L → TreeClimb tp' [r] x r') ?_ ?_ hw
    · intro x hx _
      have : x = r' := by
        simp only [List.mem_singleton] at hx hr'
        rw [hx, hr']
      subst this
      exact .base hx
    · intro x hn ih hx
      have h1 := (ho.parent_edge x hx hn).1
      refine .step hn ?_
      rw [heq x hx (by simpa using hn)]
      exact ih h1

/-- [S] **determine_parent_cliques** on a spanning tree.  Let `E` be well formed, strictly lower
triangular, with `-1` entries exactly at the edges `T`, where `T` is acyclic, lies inside the
live cliques `L` and connects them.  Then `determine_parent_cliques` does not exhaust its fuel
and returns `(par', ch')` such that `par'` orients the tree towards the chosen root: every live
non-root clique `v` has exactly one parent `par'[v]`, a tree neighbour of `v`; every tree edge
is such a parent link; following `par'` from any live clique reaches the root (so `par'[v]` is
the neighbour of `v` on the tree path to the root); the root gets `NO_PARENT` if a clique
contains `post.last()` (otherwise clique `0` is the root and keeps its entry); cliques outside `L` keep their entry; and `ch'` gains exactly the
inverse of `par'` on `L`. -/
theorem determineParentCliques_tree {E : IMat} (h : E.WFE) (hl : E.Lower) {L : List Nat}
    (hL : L.Nodup) (hLlt : ∀ v ∈ L, v < E.n) {T : List (Nat × Nat)} (hT : E.TreeIs T)
    (hf : ForestFrom [] T) (hTL : ∀ e ∈ T, e.1 ∈ L ∧ e.2 ∈ L)
    (hconn : ∀ u ∈ L, ∀ v ∈ L, Conn T u v)
    {par0 : Array Nat} {ch0 cliques : Array VSet} {post : Array Nat} {v0 : Nat}
    (hp : par0.size = E.n) (hc : ch0.size = E.n) (hpost : post.back? = some v0)
    (hroot : dpcRoot cliques v0 ∈ L)
    (hdead : ∀ v ∈ L, ∀ w ∈ L, par0.getD w 0 ≠ v) (hnp : ∀ v ∈ L, v ≠ noParent)
    (hch0 : ∀ c, c < E.n → (ch0.getD c #[]).toList.Nodup) :
    ∃ par' ch', determineParentCliques par0 ch0 cliques post E = .ok (par', ch') ∧
      par'.size = E.n ∧ ch'.size = E.n ∧
      Oriented T L [dpcRoot cliques v0] (fun v => par'.getD v 0) ∧
      par'.getD (dpcRoot cliques v0) 0 =
        (if (cliques.findIdx? (fun clique => clique.contains v0)).isSome then noParent
         else par0.getD (dpcRoot cliques v0) 0) ∧
      (∀ v, v ∉ L → par'.getD v 0 = par0.getD v 0) ∧
      (∀ c, c < E.n → ∀ w, w ∈ (ch'.getD c #[]).toList ↔
        (w ∈ (ch0.getD c #[]).toList ∨
          (w ∈ L ∧ w ≠ dpcRoot cliques v0 ∧ par'.getD w 0 = c))) ∧
      (∀ c, c < E.n → (ch'.getD c #[]).toList.Nodup) := by
  generalize hrdef : dpcRoot cliques v0 = r at *
  have hreps : Reps T L [r] :=
    ⟨by simp, fun x hx => by simp only [List.mem_singleton] at hx; rw [hx]; exact hroot,
      fun v hv => ⟨r, by simp, hconn v hv r hroot⟩,
      fun a ha b hb _ => by simp only [List.mem_singleton] at ha hb; rw [ha, hb]⟩
  obtain ⟨tp, ho⟩ := forest_oriented T.length T rfl hf hTL [r] hreps
  have ctx := acCtx_of_tree h hl hroot hLlt hT hTL ho
  have hrN : r < par0.size := by rw [hp]; exact hLlt r hroot
  -- the parent array handed to `assign_children`
  obtain ⟨par1, hpar1, hrun1, hpr1, hfound, hother1⟩ :
      ∃ par1 : Array Nat, par1.size = E.n ∧
        determineParentCliques par0 ch0 cliques post E = assignChildren par1 ch0 r E ∧
        (∀ v ∈ L, par1.getD r 0 ≠ v) ∧
        par1.getD r 0 =
          (if (cliques.findIdx? (fun clique => clique.contains v0)).isSome then noParent
           else par0.getD r 0) ∧
        (∀ v, v ≠ r → par1.getD v 0 = par0.getD v 0) := by
    unfold determineParentCliques
    simp only [hpost, bind, Except.bind, pure, Except.pure]
    cases hfi : cliques.findIdx? (fun clique => clique.contains v0) with
    | none =>
      have hr0 : r = 0 := by rw [← hrdef, dpcRoot, hfi]; rfl
      refine ⟨par0, hp, by rw [hr0], fun v hv => hdead v hv r hroot, by simp, fun _ _ => rfl⟩
    | some k =>
      have hrk : r = k := by rw [← hrdef, dpcRoot, hfi]; rfl
      subst hrk
      refine ⟨par0.setIfInBounds r noParent, by simpa using hp, ?_, ?_, ?_, ?_⟩
      · simp only [Kr.setE_ok par0 r noParent _ hrN]
      · intro v hv
        simp only [Array.getD_eq_getD_getElem?, Array.getElem?_setIfInBounds_self_of_lt hrN,
          Option.getD_some]
        exact fun e => hnp v hv e.symm
      · simp only [Array.getD_eq_getD_getElem?, Array.getElem?_setIfInBounds_self_of_lt hrN,
          Option.getD_some, Option.isSome_some, if_true]
      · intro v hv
        have : r ≠ v := fun e => hv e.symm
        simp [Array.getD_eq_getD_getElem?, this]
  obtain ⟨par', ch', hrun, hps, hcs, hpar, hoth, hkids, hnd⟩ :=
    assignChildren_spec ctx hL hpar1 hc hpr1 hch0
  have horient : Oriented T L [r] (fun v => par'.getD v 0) := ho.congr hTL hpar
  refine ⟨par', ch', by rw [hrun1, hrun], hps, hcs, horient, ?_, ?_, ?_, hnd⟩
  · rw [hoth r (.inr rfl)]
    exact hfound
  · intro v hv
    rw [hoth v (.inl hv)]
    exact hother1 v (fun e => hv (e ▸ hroot))
  · intro c hc w
    rw [hkids c hc w]
    constructor
    · rintro (h1 | ⟨h1, h2, h3⟩)
      · exact .inl h1
      · exact .inr ⟨h1, h2, by rw [hpar w h1 h2]; exact h3⟩
    · rintro (h1 | ⟨h1, h2, h3⟩)
      · exact .inl h1
      · exact .inr ⟨h1, h2, by rw [← hpar w h1 h2]; exact h3⟩

/-- [S] the result of `determine_parent_cliques` in the vocabulary of `post_order`
(`ChordalPostOrder.lean`): if before the call all children sets are empty and no clique has a
parent (all entries are `≥ N`, e.g. `INACTIVE_NODE`), then afterwards `snode_children` is exactly
the inverse of `snode_parent` -/
theorem childrenOf_of_tree {N : Nat} {L : List Nat} {r : Nat} {par0 par' : Array Nat}
    {ch0 ch' : Array VSet} (hps : par'.size = N) (hcs : ch'.size = N) (hLlt : ∀ v ∈ L, v < N)
    (hr : N ≤ par'.getD r 0) (hdead : ∀ v, v ∉ L → par'.getD v 0 = par0.getD v 0)
    (hpar0 : ∀ v, v < N → N ≤ par0.getD v 0)
    (hch0 : ∀ c, c < N → (ch0.getD c #[]).toList = [])
    (hkids : ∀ c, c < N → ∀ w, w ∈ (ch'.getD c #[]).toList ↔
      (w ∈ (ch0.getD c #[]).toList ∨ (w ∈ L ∧ w ≠ r ∧ par'.getD w 0 = c)))
    (hnd : ∀ c, c < N → (ch'.getD c #[]).toList.Nodup) : ChildrenOf par' ch' := by
  refine ⟨hcs.trans hps.symm, fun v hv => hnd v (hps ▸ hv), fun v c hv => ?_⟩
  have hvN : v < N := hps ▸ hv
  rw [hkids v hvN c, hch0 v hvN, hps]
  constructor
  · rintro (h | ⟨h1, _, h3⟩)
    · simp at h
    · exact ⟨hLlt c h1, h3⟩
  · rintro ⟨h1, h2⟩
    refine .inr ⟨?_, ?_, h2⟩
    · by_contra hcL
      have := hdead c hcL
      have := hpar0 c h1
      omega
    · rintro rfl
      omega

/-! ## `kruskal` followed by `determine_parent_cliques` -/

/-- [S] when no weight of `E` is `-1` (the weights written by `clique_intersections` are
cardinalities), the `-1` entries of the matrix returned by `kruskal` are exactly the marked
edges; the pattern (hence `WFE`, `Lower`) is inherited -/
theorem kruskal_treeIs {E : IMat} (h : E.WFE) {numCliques : Nat} (hnc : 0 < numCliques)
    (hw : ∀ k, k < E.nzval.size → E.nzval.getD k 0 ≠ -1) :
    ∃ E', kruskal E numCliques = .ok E' ∧ E'.n = E.n ∧ E'.WFE ∧ (E.Lower → E'.Lower) ∧
      E'.TreeIs (kruskalTree E numCliques) := by
  obtain ⟨_, hk, hs⟩ := kruskal_spec h hnc
  obtain ⟨_, _, hm⟩ := kruskalMarked_sub h hnc
  refine ⟨_, hk, rfl, ⟨h.cpsize, h.cp0, h.mono, h.nnz_row, ?_, h.rows⟩,
    fun hl => ⟨hl.sq, hl.lower, hl.nodup⟩, ?_⟩
  · exact hs.nzsize.trans h.nnz_val
  · intro a b
    show (a, b) ∈ kruskalTree E numCliques ↔ ∃ k, k < E.rowval.size ∧ E.rowval.getD k 0 = a ∧
      E.colIdx.getD k 0 = b ∧ (kruskalRes E numCliques).nzval.getD k 0 = -1
    constructor
    · intro hab
      obtain ⟨e, he, hp⟩ := List.mem_map.mp hab
      obtain ⟨h1, h2, _⟩ := hm e he
      have hpos : e.1 ∈ (kruskalRes E numCliques).marked.map (·.1) := List.mem_map_of_mem he
      refine ⟨e.1, h1, ?_, ?_, ?_⟩
      · rw [h2] at hp; simp only [KEdge.pair, Prod.mk.injEq] at hp; exact hp.1
      · rw [h2] at hp; simp only [KEdge.pair, Prod.mk.injEq] at hp; exact hp.2
      · rw [hs.nzval e.1, if_pos hpos]
    · rintro ⟨k, hk1, rfl, rfl, hv⟩
      rw [hs.nzval k] at hv
      by_cases hpos : k ∈ (kruskalRes E numCliques).marked.map (·.1)
      · obtain ⟨e, he, rfl⟩ := List.mem_map.mp hpos
        obtain ⟨_, h2, _⟩ := hm e he
        refine List.mem_map.mpr ⟨e, he, ?_⟩
        rw [h2]
        rfl
      · rw [if_neg hpos] at hv
        exact absurd hv (hw k (by rw [h.nnz_val]; exact hk1))

/-- [S] **clique tree from the clique graph**: `kruskal` followed by
`determine_parent_cliques`.  If the `numCliques` live cliques `Lv` carry all edges of the well
formed, strictly lower triangular edge matrix `E` (no weight `-1`) and are connected by them,
then both functions succeed, and the parent array orients the spanning tree
`kruskalTree E numCliques` of `Lv` towards the root clique (see
`determineParentCliques_tree`) -/
theorem kruskal_determineParentCliques {E : IMat} (h : E.WFE) (hl : E.Lower) {numCliques : Nat}
    (hnc : 0 < numCliques) (hw : ∀ k, k < E.nzval.size → E.nzval.getD k 0 ≠ -1)
    {Lv : List Nat} (hLv : Lv.Nodup) (hlen : Lv.length = numCliques)
    (hLlt : ∀ v ∈ Lv, v < E.n)
    (hedges : ∀ e ∈ E.edges, e.1 ∈ Lv ∧ e.2 ∈ Lv)
    (hconn : ∀ u ∈ Lv, ∀ v ∈ Lv, Conn E.edges u v)
    {par0 : Array Nat} {ch0 cliques : Array VSet} {post : Array Nat} {v0 : Nat}
    (hp : par0.size = E.n) (hc : ch0.size = E.n) (hpost : post.back? = some v0)
    (hroot : dpcRoot cliques v0 ∈ Lv)
    (hdead : ∀ v ∈ Lv, ∀ w ∈ Lv, par0.getD w 0 ≠ v) (hnp : ∀ v ∈ Lv, v ≠ noParent)
    (hch0 : ∀ c, c < E.n → (ch0.getD c #[]).toList.Nodup) :
    ∃ E' par' ch', kruskal E numCliques = .ok E' ∧
      determineParentCliques par0 ch0 cliques post E' = .ok (par', ch') ∧
      par'.size = E.n ∧ ch'.size = E.n ∧
      (kruskalTree E numCliques).length = numCliques - 1 ∧
      Oriented (kruskalTree E numCliques) Lv [dpcRoot cliques v0] (fun v => par'.getD v 0) ∧
      par'.getD (dpcRoot cliques v0) 0 =
        (if (cliques.findIdx? (fun clique => clique.contains v0)).isSome then noParent
         else par0.getD (dpcRoot cliques v0) 0) ∧
      (∀ v, v ∉ Lv → par'.getD v 0 = par0.getD v 0) ∧
      (∀ c, c < E.n → ∀ w, w ∈ (ch'.getD c #[]).toList ↔
        (w ∈ (ch0.getD c #[]).toList ∨
          (w ∈ Lv ∧ w ≠ dpcRoot cliques v0 ∧ par'.getD w 0 = c))) ∧
      (∀ c, c < E.n → (ch'.getD c #[]).toList.Nodup) := by
  obtain ⟨E', hk, hn, hwf', hl', hT⟩ := kruskal_treeIs h hnc hw
  obtain ⟨hcount, hf, hsub, hcn⟩ := kruskal_spanning h hnc hLv hlen hedges hconn
  obtain ⟨par', ch', hrun, h1, h2, h3, h4, h5, h6, h7⟩ :=
    determineParentCliques_tree hwf' (hl' hl) hLv (by rw [hn]; exact hLlt) hT hf
      (fun e he => hedges e (hsub e he)) hcn (by rw [hn]; exact hp) (by rw [hn]; exact hc) hpost
      hroot hdead hnp (by rw [hn]; exact hch0)
  rw [hn] at h1 h2 h6 h7
  exact ⟨E', par', ch', hk, hrun, h1, h2, hcount, h3, h4, h5, h6, h7⟩

/-! ## non-vacuity: a weighted triangle on the cliques `0, 1, 2` (clique `3` is dead) -/

namespace KrEx

/-- edges `1–0` (weight 3), `2–0` (weight 2), `2–1` (weight 1); clique `3` has no edges -/
def tri : IMat :=
  { m := 4, n := 4, colptr := #[0, 2, 3, 3, 3], rowval := #[1, 2, 2], nzval := #[3, 2, 1] }

/-- [S] the triangle is well formed -/
theorem tri_wfe : tri.WFE := ⟨rfl, rfl, by decide, rfl, rfl, by decide⟩

/-- [S] the triangle's edges by decreasing weight -/
theorem tri_sortedEdges : tri.sortedEdges = [(0, 1, 0), (1, 2, 0), (2, 2, 1)] := by
  have h1 : sortpermRev tri.nzval = #[0, 1, 2] := by
    simp [sortpermRev, sortpermBy, tri, List.mergeSort, List.range, List.range.loop]
  rw [IMat.sortedEdges, h1]
  rfl

/-- [S] the triangle's edges -/
theorem tri_edges : tri.edges = [(1, 0), (2, 0), (2, 1)] := by decide

/-- `kruskal` marks the two heaviest edges of the triangle and leaves by `break` -/
example : kruskal tri 3 = .ok { tri with nzval := #[-1, -1, 1] } := by
  rw [kruskal_eq_kTrace tri_wfe, tri_sortedEdges]
  rfl

/-- [S] `kruskal` marks the two heaviest edges of the triangle -/
theorem tri_tree : kruskalTree tri 3 = [(1, 0), (2, 0)] := by
  rw [kruskalTree, kruskalMarked, kruskalRes, tri_sortedEdges]
  rfl

example : (kruskalRes tri 3).broke = true := by
  rw [kruskalRes, tri_sortedEdges]
  rfl

/-- with `numCliques = 4` (one clique too many) the loop runs to completion -/
example : (kruskalRes tri 4).broke = false ∧ kruskalTree tri 4 = [(1, 0), (2, 0)] := by
  rw [kruskalTree, kruskalMarked, kruskalRes, tri_sortedEdges]
  exact ⟨rfl, rfl⟩

/-- hypotheses of `kruskal_ok`, `kruskal_forest`, `kruskal_complete_or_break` -/
example : tri.WFE ∧ 0 < 3 := ⟨tri_wfe, by omega⟩

/-- hypotheses of `kruskal_spanning` with the live cliques `Lv = [0, 1, 2]` -/
example : tri.WFE ∧ 0 < 3 ∧ [0, 1, 2].Nodup ∧ [0, 1, 2].length = 3 ∧
    (∀ e ∈ tri.edges, e.1 ∈ [0, 1, 2] ∧ e.2 ∈ [0, 1, 2]) ∧
    (∀ u ∈ [0, 1, 2], ∀ v ∈ [0, 1, 2], Conn tri.edges u v) := by
  refine ⟨tri_wfe, by omega, by decide, rfl, by rw [tri_edges]; decide, ?_⟩
  have h0 : ∀ u ∈ [0, 1, 2], Conn tri.edges u 0 := by
    intro u hu
    rw [tri_edges]
    simp only [List.mem_cons, List.not_mem_nil, or_false] at hu
    rcases hu with rfl | rfl | rfl
    · exact Conn.refl _ _
    · exact Conn.edge (by decide)
    · exact Conn.edge (by decide)
  exact fun u hu v hv => (h0 u hu).trans (h0 v hv).symm

/-- the conclusion of `kruskal_spanning` on the triangle, read off the computed tree -/
example : (kruskalTree tri 3).length = 3 - 1 ∧ ForestFrom [] (kruskalTree tri 3) := by
  rw [tri_tree]
  refine ⟨rfl, ?_, ?_, trivial⟩
  · rw [conn_nil_iff]; decide
  · intro hc
    have := (conn_snoc [] 1 0 2 0).mp hc
    simp only [conn_nil_iff] at this
    omega

/-- `numCliques = 1` with an edge present (never the case in `clique_tree_from_graph`, where
edges join live cliques): the loop stops only *after* the first marked edge, so one edge is
marked although `numCliques - 1 = 0`; this is why `kruskal_forest` (iii) has `max 1 _` -/
def one : IMat := { m := 2, n := 2, colptr := #[0, 1, 1], rowval := #[1], nzval := #[5] }

example : one.WFE ∧ kruskalTree one 1 = [(1, 0)] := by
  refine ⟨⟨rfl, rfl, by decide, rfl, rfl, by decide⟩, ?_⟩
  have h1 : sortpermRev one.nzval = #[0] := by
    simp [sortpermRev, sortpermBy, one, List.range, List.range.loop]
  rw [kruskalTree, kruskalMarked, kruskalRes, IMat.sortedEdges, h1]
  rfl

/-- hypotheses of `forest_connected_iff` -/
example : [0, 1, 2].Nodup ∧ [0, 1, 2] ≠ [] ∧ ForestFrom [] [(1, 0), (2, 0)] ∧
    (∀ e ∈ [(1, 0), (2, 0)], e.1 ∈ [0, 1, 2] ∧ e.2 ∈ [0, 1, 2]) := by
  refine ⟨by decide, by decide, ⟨?_, ?_, trivial⟩, by decide⟩
  · rw [conn_nil_iff]; decide
  · intro hc
    have := (conn_snoc [] 1 0 2 0).mp hc
    simp only [conn_nil_iff] at this
    omega

/-! ### non-vacuity of the `determine_parent_cliques` theorems -/

/-- [S] the triangle is strictly lower triangular without repeated entries -/
theorem tri_lower : tri.Lower := ⟨rfl, by decide, fun k k' hk hk' =>
  (by decide : ∀ k, k < 3 → ∀ k', k' < 3 → tri.colIdx.getD k 0 = tri.colIdx.getD k' 0 →
    tri.rowval.getD k 0 = tri.rowval.getD k' 0 → k = k') k hk k' hk'⟩

/-- the triangle after `kruskal` -/
def tri' : IMat := { tri with nzval := #[-1, -1, 1] }

/-- [S] the marked triangle is well formed -/
theorem tri'_wfe : tri'.WFE := ⟨rfl, rfl, by decide, rfl, rfl, by decide⟩

/-- [S] the marked triangle is strictly lower triangular -/
theorem tri'_lower : tri'.Lower := ⟨rfl, tri_lower.lower, tri_lower.nodup⟩

/-- [S] the `-1` entries of the marked triangle -/
theorem tri'_treeIs : tri'.TreeIs [(1, 0), (2, 0)] := by
  intro a b
  simp only [List.mem_cons, Prod.mk.injEq, List.not_mem_nil, or_false]
  constructor
  · rintro (⟨rfl, rfl⟩ | ⟨rfl, rfl⟩)
    · exact ⟨0, by decide⟩
    · exact ⟨1, by decide⟩
  · rintro ⟨k, hk, rfl, rfl, hv⟩
    have hk3 : k < 3 := hk
    match k, hk3 with
    | 0, _ => exact .inl (by decide)
    | 1, _ => exact .inr (by decide)
    | 2, _ => exact absurd hv (by decide)

def par0 : Array Nat := Array.replicate 4 inactiveNode
def ch0 : Array VSet := Array.replicate 4 #[]
def cliques : Array VSet := #[#[0, 5], #[1, 5], #[2, 5], #[]]
def post : Array Nat := #[3, 4, 5]

/-- [S] the root clique of the example -/
theorem cliques_root : dpcRoot cliques 5 = 0 := by
  simp [dpcRoot, cliques, List.findIdx?_cons]

/-- [S] the two marked edges are acyclic -/
theorem tree_forest : ForestFrom [] [(1, 0), (2, 0)] := by
  refine ⟨?_, ?_, trivial⟩
  · rw [conn_nil_iff]; decide
  · intro hc
    have := (conn_snoc [] 1 0 2 0).mp hc
    simp only [conn_nil_iff] at this
    omega

/-- [S] the two marked edges connect the three live cliques -/
theorem tree_conn : ∀ u ∈ [0, 1, 2], ∀ v ∈ [0, 1, 2], Conn [(1, 0), (2, 0)] u v := by
  have h0 : ∀ u ∈ [0, 1, 2], Conn [(1, 0), (2, 0)] u 0 := by
    intro u hu
    simp only [List.mem_cons, List.not_mem_nil, or_false] at hu
    rcases hu with rfl | rfl | rfl
    · exact Conn.refl _ _
    · exact Conn.edge (by decide)
    · exact Conn.edge (by decide)
  exact fun u hu v hv => (h0 u hu).trans (h0 v hv).symm

/-- all hypotheses of `determineParentCliques_tree` hold for the marked triangle, so its
conclusion does: cliques `1` and `2` get the parent `0`, the root `0` gets `NO_PARENT` -/
example : ∃ par' ch', determineParentCliques par0 ch0 cliques post tri' = .ok (par', ch') ∧
    par'.getD 1 0 = 0 ∧ par'.getD 2 0 = 0 ∧ par'.getD 0 0 = noParent ∧
    par'.getD 3 0 = inactiveNode ∧ (∀ w, w ∈ (ch'.getD 0 #[]).toList ↔ (w = 1 ∨ w = 2)) := by
  obtain ⟨par', ch', hrun, _, _, ho, hr, hdead, hch, _⟩ :=
    determineParentCliques_tree tri'_wfe tri'_lower (L := [0, 1, 2]) (by decide) (by decide)
      tri'_treeIs tree_forest (by decide) tree_conn (par0 := par0) (ch0 := ch0)
      (cliques := cliques) (post := post) (v0 := 5) rfl rfl (by decide)
      (by rw [cliques_root]; decide) (by decide) (by decide) (by decide)
  rw [cliques_root] at ho hr hch
  have e1 := ho.edge_parent (1, 0) (by decide)
  have e2 := ho.edge_parent (2, 0) (by decide)
  simp only [List.mem_singleton, not_true_eq_false, false_and, or_false] at e1 e2
  have hsome : (cliques.findIdx? (fun clique => clique.contains 5)).isSome = true := by
    simp [cliques, List.findIdx?_cons]
  rw [hsome, if_pos rfl] at hr
  refine ⟨par', ch', hrun, e1.2, e2.2, hr, hdead 3 (by decide), fun w => ?_⟩
  rw [hch 0 (by decide) w]
  constructor
  · rintro (h | ⟨h1, h2, h3⟩)
    · simp [ch0] at h
    · simp only [List.mem_cons, List.not_mem_nil, or_false] at h1
      rcases h1 with rfl | rfl | rfl
      · exact absurd rfl h2
      · exact .inl rfl
      · exact .inr rfl
  · rintro (rfl | rfl)
    · exact .inr ⟨by decide, by decide, e1.2⟩
    · exact .inr ⟨by decide, by decide, e2.2⟩

/-- hypotheses of `childrenOf_of_tree`: they hold for the result of
`determine_parent_cliques` on the marked triangle, whose children sets therefore invert the
parents -/
example : ∃ par' ch', determineParentCliques par0 ch0 cliques post tri' = .ok (par', ch') ∧
    ChildrenOf par' ch' := by
  obtain ⟨par', ch', hrun, hps, hcs, _, hr, hdead, hch, hnd⟩ :=
    determineParentCliques_tree tri'_wfe tri'_lower (L := [0, 1, 2]) (by decide) (by decide)
      tri'_treeIs tree_forest (by decide) tree_conn (par0 := par0) (ch0 := ch0)
      (cliques := cliques) (post := post) (v0 := 5) rfl rfl (by decide)
      (by rw [cliques_root]; decide) (by decide) (by decide) (by decide)
  have hsome : (cliques.findIdx? (fun clique => clique.contains 5)).isSome = true := by
    simp [cliques, List.findIdx?_cons]
  rw [hsome, if_pos rfl] at hr
  refine ⟨par', ch', hrun, childrenOf_of_tree (N := 4) (L := [0, 1, 2]) (r := dpcRoot cliques 5)
    (par0 := par0) (ch0 := ch0) hps hcs (by decide) (by rw [hr]; decide) hdead (by decide)
    (by decide) hch hnd⟩

/-- hypotheses of `kruskal_treeIs` and `kruskal_determineParentCliques` (the remaining ones are
those of `kruskal_spanning` and `determineParentCliques_tree`, shown above) -/
example : tri.WFE ∧ tri.Lower ∧ (∀ k, k < tri.nzval.size → tri.nzval.getD k 0 ≠ -1) ∧
    (∀ v ∈ [0, 1, 2], v < tri.n) :=
  ⟨tri_wfe, tri_lower, by decide, by decide⟩

/-- `Reps`, `Oriented`, `AcCtx` are inhabited: the tree `1–0, 2–0` rooted at `0` -/
example : ∃ tp, Oriented [(1, 0), (2, 0)] [0, 1, 2] [0] tp ∧
    AcCtx tri' tri'.n [0, 1, 2] 0 tp tri'.nbrs (fun c n => tri'.entry (max c n) (min c n)) := by
  have hreps : Reps [(1, 0), (2, 0)] [0, 1, 2] [0] :=
    ⟨by decide, by decide, fun v hv => ⟨0, by decide, tree_conn v hv 0 (by decide)⟩,
      fun a ha b hb _ => by
        simp only [List.mem_singleton] at ha hb; rw [ha, hb]⟩
  obtain ⟨tp, ho⟩ := forest_oriented (L := [0, 1, 2]) 2 _ rfl tree_forest (by decide) [0] hreps
  exact ⟨tp, ho, acCtx_of_tree tri'_wfe tri'_lower (by decide) (by decide) tri'_treeIs
    (by decide) ho⟩

end KrEx

end Clarabel.Chordal
