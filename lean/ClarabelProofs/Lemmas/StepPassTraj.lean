/-
  C06, round 9 — the one-pass theorems of `Props/C06.lean` (`pass_is_newton_step`,
  `pass_residual_contraction`, `pass_mu_update`) along a WHOLE `solve()` of the whole-solver model
  (zero / nonnegative / second-order cones, scalar ℝ).

  * `SolvePass S st L L'`      : `L → L'` is an accepted pass of `S.solve st` (reached from
                                 `default_start()` of the reset solver object through accepted passes).
  * `solvePass_invariants`     : at every such pass the state is well shaped (`PassShape`, from C04's
                                 `Shapes` along `reach_pinv`), on the solver's data, with `P` an upper
                                 triangle, and the iterate is in C07's interior with `s = 0` on the
                                 zero-cone rows (`ConesInterior`) — the induction that threads
                                 `pass_keeps_conesInterior` from `defaultStart_conesInterior`; the
                                 new iterate is interior again (so `τ, τ⁺ > 0`).
  * `pass_record`              : what one pass writes into the trajectory.
  * `reach_record`             : record `k` of the trajectory of a `solve()` is written by the
                                 `k`-th loop state; if it is not the last one the pass was accepted
                                 and the record carries its `α`, `σ`, `μ`.
  * `solve_traj_states`        : `r.traj` of `S.solve st = .ok r` is the trajectory of such a loop.
  * `reach_product`            : a quantity that every accepted pass multiplies by
                                 `1 − α(1−σ)` is, after `k` passes, `Π (1 − αᵢ(1−σᵢ))` times its
                                 initial value, the factors read from the records.
-/
import ClarabelProofs.Lemmas.StepPassMuStart
import ClarabelProofs.Lemmas.SolverModelNoPanicQdldl
import ClarabelProofs.Lemmas.SolverFullTraj
import Mathlib.Algebra.BigOperators.Group.List.Basic

namespace Clarabel.Solver
open Clarabel Clarabel.Lemmas Residuals

set_option linter.unusedVariables false
set_option linter.unusedSectionVars false

/-- `L → L'` is an accepted pass of `S.solve st`: `L` is reached from `default_start()` of the reset
solver object through accepted passes, and the pass at `L` fell through to `add_step` -/
def SolvePass (S : Solver ℝ) (st : Settings ℝ) (L L' : LoopSt ℝ) : Prop :=
  ∃ S0, (resetInfo S.st).defaultStart st = .ok S0 ∧ Reach st (initLoopSt S0) L
    ∧ pass st L = .ok (true, L')

theorem Reach.snoc {st : Settings ℝ} {L L' L'' : LoopSt ℝ} (h : Reach st L L')
    (hp : pass st L' = .ok (true, L'')) : Reach st L L'' := by
  induction h with
  | refl => exact .step hp (.refl _)
  | step hp0 _ ih => exact .step hp0 (ih hp)

theorem Reach.trans' {st : Settings ℝ} {L L' L'' : LoopSt ℝ} (h : Reach st L L')
    (h' : Reach st L' L'') : Reach st L L'' := by
  induction h with
  | refl => exact h'
  | step hp0 _ ih => exact .step hp0 (ih h')

/-- C04's `Shapes` is the `PassShape` of the one-pass theorems -/
theorem Shapes.passShape {KI : KktSolver ℝ → Prop} {S : SolverSt ℝ} (h : Shapes KI S) :
    PassShape S S.data.n S.data.m :=
  { canP := h.data.P_canon.canon, canA := h.data.A_canon.canon, Pn := h.data.P_n, Pm := h.data.P_m,
    An := h.data.A_n, Am := h.data.A_m, q := h.data.q, b := h.data.b, vx := h.vars.x, vs := h.vars.s,
    vz := h.vars.z, rPx := h.resid.Px, rrx := h.resid.rx, rrz := h.resid.rz, rrxi := h.resid.rx_inf,
    rrzi := h.resid.rz_inf, lx := h.stepLhs.x, lz := h.stepLhs.z, cones := h.cones, numel := h.numel }

/-- the invariant threaded along the accepted passes of a `solve()` -/
structure TrajInv (d : ProblemData ℝ) (L : LoopSt ℝ) : Prop where
  shape : PassShape L.S d.n d.m
  data : L.S.data = d
  interior : Interior (L.S.cones.map ConeSt.compSpec) L.S.variables
  zero : ZeroConeRows L.S.cones L.S.variables.s.toList

theorem TrajInv.conesInterior {d : ProblemData ℝ} {L : LoopSt ℝ} (h : TrajInv d L) :
    ConesInterior L.S.cones L.S.variables.s.toList L.S.variables.z.toList :=
  conesInterior_of_interior h.interior h.zero

/-- **the threading induction**: the state at the start of every pass reached through accepted
passes from `default_start()` is well shaped, on the solver's data, and its iterate is interior
with `s = 0` on the zero-cone rows -/
theorem reach_trajInv {S : Solver ℝ} {st : Settings ℝ} (hI : SolverInvQ S) (h0 : 0 < st.maxStepFraction)
    (h1 : st.maxStepFraction < 1) (hm : 0 < st.maxValue) {S0 : SolverSt ℝ}
    (hds : (resetInfo S.st).defaultStart st = .ok S0) {L : LoopSt ℝ}
    (hR : Reach st (initLoopSt S0) L) : TrajInv S.st.data L := by
  have hf : FmaxOK ℝ := fun r h => by
    change max (0 : ℝ) r < 0 at h
    exact absurd (le_max_left (0 : ℝ) r) (not_le.mpr h)
  have G := stagesQdldl hf S.st.data (S.st.cones.map ConeSt.kktSpec) st
  have hP : PInv (KktInvW (S.st.cones.map ConeSt.kktSpec) S.st.data.n S.st.data.m) S.st.data
      (S.st.cones.map ConeSt.kktSpec) S.st := hI.st
  have hP0 : PInv (KktInvW (S.st.cones.map ConeSt.kktSpec) S.st.data.n S.st.data.m) S.st.data
      (S.st.cones.map ConeSt.kktSpec) (resetInfo S.st) :=
    ⟨hP.shapes.of_fields rfl hP.shapes.vars hP.shapes.resid hP.shapes.stepLhs hP.shapes.stepRhs
      hP.shapes.prevVars hP.shapes.cones hP.shapes.numel hP.shapes.ksized hP.shapes.kkt, hP.data, hP.specs⟩
  obtain ⟨S0', hS0', hP1⟩ := defaultStart_ok G hP0
  rw [hds] at hS0'
  cases hS0'
  have hsz : SizedSt (resetInfo S.st) :=
    ⟨hP0.shapes.vars, hP0.shapes.resid, hP0.shapes.stepLhs, hP0.shapes.stepRhs, hP0.shapes.prevVars,
      hP0.shapes.numel, hP0.shapes.cones.ok⟩
  obtain ⟨i1, i2, -⟩ := defaultStart_conesInterior hsz hds
  -- generalise the start of the chain
  have key : ∀ {La Lb : LoopSt ℝ}, Reach st La Lb →
      PInv (KktInvW (S.st.cones.map ConeSt.kktSpec) S.st.data.n S.st.data.m) S.st.data
        (S.st.cones.map ConeSt.kktSpec) La.S →
      Interior (La.S.cones.map ConeSt.compSpec) La.S.variables →
      ZeroConeRows La.S.cones La.S.variables.s.toList → TrajInv S.st.data Lb := by
    intro La Lb hR
    induction hR with
    | refl L =>
      intro hp hi hz
      have hs := hp.shapes.passShape
      rw [hp.data] at hs
      exact ⟨hs, hp.data, hi, hz⟩
    | @step La' Lb' Lc' hp _ ih =>
      intro hpi hi hz
      have hs := hpi.shapes.passShape
      obtain ⟨r, hr, hI'⟩ := pass_ok G (L := La') hpi
      rw [hp] at hr
      cases hr
      obtain ⟨j1, j2, -⟩ := pass_keeps_conesInterior hs hp h0 h1 hm hi hz
      exact ih hI' j1 j2
  exact key hR hP1 i1 i2

/-- **at every accepted pass of a `solve()`** the hypotheses of the one-pass theorems other than
the exactness of the linear solves hold: shape, data, `P` upper triangular, interior-ness
(`ConesInterior`), `τ ≠ 0` before and after -/
theorem solvePass_invariants {S : Solver ℝ} {st : Settings ℝ} (hI : SolverInvQ S)
    (h0 : 0 < st.maxStepFraction) (h1 : st.maxStepFraction < 1) (hm : 0 < st.maxValue)
    {L L' : LoopSt ℝ} (hp : SolvePass S st L L') :
    PassShape L.S S.st.data.n S.st.data.m ∧ L.S.data = S.st.data ∧ L.S.data.P.isTriu = true
      ∧ pass st L = .ok (true, L')
      ∧ ConesInterior L.S.cones L.S.variables.s.toList L.S.variables.z.toList
      ∧ 0 < L.S.variables.τ ∧ 0 < L.S.variables.κ ∧ 0 < L'.S.variables.τ ∧ 0 < L'.S.variables.κ := by
  obtain ⟨S0, hds, hR, hpass⟩ := hp
  have hT := reach_trajInv hI h0 h1 hm hds hR
  have hT' := reach_trajInv hI h0 h1 hm hds (hR.snoc hpass)
  have hP : PInv (KktInvW (S.st.cones.map ConeSt.kktSpec) S.st.data.n S.st.data.m) S.st.data
      (S.st.cones.map ConeSt.kktSpec) S.st := hI.st
  refine ⟨hT.shape, hT.data, ?_, hpass, hT.conesInterior, hT.interior.pos.1, hT.interior.pos.2,
    hT'.interior.pos.1, hT'.interior.pos.2⟩
  rw [hT.data]
  exact hP.shapes.data.P_triu

/-! ### the records -/

/-- what one pass writes into the trajectory: ONE record, with the iterate the pass started from
and the loop-carried `σ`, `α`; an accepted pass records its own `α`, `σ`, `μ` -/
theorem pass_record {st : Settings ℝ} {L L' : LoopSt ℝ} {c : Bool} (hp : pass st L = .ok (c, L')) :
    ∃ p : PassRec ℝ, L'.traj = L.traj ++ [p] ∧ p.vars = L.S.variables ∧ p.sigma = L.sigma
      ∧ p.stepLength = L.alpha
      ∧ (c = true → p.alpha = some L'.alpha ∧ p.sigmaNew = some L'.sigma ∧ p.mu = L'.mu) := by
  cases pass_inv hp with
  | done residuals mu info1 htop hdone hip => exact ⟨_, rfl, rfl, rfl, rfl, fun h => by cases h⟩
  | rollback residuals mu info1 vrs htop hdone hip hcopy =>
    exact ⟨_, rfl, rfl, rfl, rfl, fun h => by cases h⟩
  | scaleFail residuals mu info1 scl htop hdone hsc hok =>
    exact ⟨_, rfl, rfl, rfl, rfl, fun h => by cases h⟩
  | kktFail residuals mu info1 scl k htop hdone hsc hok hk hkok =>
    exact ⟨_, rfl, rfl, rfl, rfl, fun h => by cases h⟩
  | smallStep residuals mu info1 scl k a htop hdone hsc hok hk hkok ha hsmall =>
    exact ⟨_, rfl, rfl, rfl, rfl, fun h => by cases h⟩
  | step residuals mu info1 scl k a pv htop hdone hsc hok hk hkok ha hsmall hpv =>
    obtain ⟨_, _, _, _, aAff, _, _, _, _, -, -, -, -, -, -, -, hkaff⟩ := kktNumerics_inv hk hkok
    refine ⟨_, rfl, rfl, rfl, rfl, fun _ => ⟨rfl, ?_, rfl⟩⟩
    show k.aff.map (·.2) = some (sigmaOf k L)
    unfold sigmaOf
    rw [hkaff]
    rfl

/-- the trajectory only grows along accepted passes -/
theorem Reach.traj_prefix {st : Settings ℝ} {L L' : LoopSt ℝ} (h : Reach st L L') :
    ∃ t, L'.traj = L.traj ++ t := by
  induction h with
  | refl => exact ⟨[], (List.append_nil _).symm⟩
  | step hp _ ih =>
    obtain ⟨p, hp1, -⟩ := pass_record hp
    obtain ⟨t, ht⟩ := ih
    exact ⟨p :: t, by rw [ht, hp1, List.append_assoc]; rfl⟩

/-- **record `k` of a loop's trajectory is written by its `k`-th state**: for a loop
`L0 →* Lm → (break) Lf`, every record `p = Lf.traj[k]` with `k ≥ |L0.traj|` is the record of a loop
state `L` reached from `L0` with `L.traj = Lf.traj.take k`: `p.vars` is its iterate, `p.sigma`,
`p.stepLength` its loop-carried `σ`, `α`; and unless `p` is the last record, the pass at `L` was
accepted, `L → L'`, with `p.alpha = α`, `p.sigmaNew = σ`, `p.mu = μ` of that pass -/
theorem reach_record {st : Settings ℝ} {L0 Lm Lf : LoopSt ℝ} (hR : Reach st L0 Lm)
    (hb : pass st Lm = .ok (false, Lf)) :
    ∀ (k : ℕ) (p : PassRec ℝ), L0.traj.length ≤ k → Lf.traj[k]? = some p →
      ∃ L, Reach st L0 L ∧ Reach st L Lm ∧ L.traj = Lf.traj.take k ∧ p.vars = L.S.variables
        ∧ p.sigma = L.sigma ∧ p.stepLength = L.alpha
        ∧ (k + 1 < Lf.traj.length → ∃ L', pass st L = .ok (true, L') ∧ Reach st L' Lm
            ∧ p.alpha = some L'.alpha ∧ p.sigmaNew = some L'.sigma ∧ p.mu = L'.mu) := by
  induction hR with
  | refl L =>
    intro k p hk hkp
    obtain ⟨p0, e0, a1, a2, a3, -⟩ := pass_record hb
    rw [e0] at hkp ⊢
    have hlt : k < (L.traj ++ [p0]).length := (List.getElem?_eq_some_iff.mp hkp).1
    rw [List.length_append, List.length_singleton] at hlt
    have hk' : k = L.traj.length := by omega
    subst hk'
    rw [List.getElem?_append_right (le_refl _), Nat.sub_self] at hkp
    have : p = p0 := by simpa using hkp.symm
    subst this
    refine ⟨L, .refl _, .refl _, ?_, a1, a2, a3, ?_⟩
    · rw [List.take_left']
      rfl
    · intro h
      rw [List.length_append, List.length_singleton] at h
      omega
  | @step La Lb Lc hp hR' ih =>
    intro k p hk hkp
    obtain ⟨p1, e1, a1, a2, a3, a4⟩ := pass_record hp
    obtain ⟨b1, b2, b3⟩ := a4 rfl
    obtain ⟨t, ht⟩ := hR'.traj_prefix
    obtain ⟨pf, ef, -⟩ := pass_record hb
    have hLf : Lf.traj = La.traj ++ (p1 :: (t ++ [pf])) := by
      rw [ef, ht, e1]; simp
    by_cases hk' : k = La.traj.length
    · subst hk'
      rw [hLf, List.getElem?_append_right (le_refl _), Nat.sub_self] at hkp
      have : p = p1 := by simpa using hkp.symm
      subst this
      refine ⟨La, .refl _, .step hp hR', ?_, a1, a2, a3, fun _ => ⟨Lb, hp, hR', b1, b2, b3⟩⟩
      rw [hLf, List.take_left']
      rfl
    · have hk2 : Lb.traj.length ≤ k := by
        rw [e1, List.length_append, List.length_singleton]; omega
      obtain ⟨L, r1, r2, r3, r4, r5, r6, r7⟩ := ih hb k p hk2 hkp
      exact ⟨L, .step hp r1, r2, r3, r4, r5, r6, r7⟩

/-- `r.traj` of a `solve()` is the trajectory of the loop `default_start() →* Lm → (break) Lf` -/
theorem solve_traj_states {S : Solver ℝ} {st : Settings ℝ} {r : SolveResult ℝ}
    (hr : S.solve st = .ok r) :
    ∃ S0 Lm Lf, (resetInfo S.st).defaultStart st = .ok S0 ∧ Reach st (initLoopSt S0) Lm
      ∧ pass st Lm = .ok (false, Lf) ∧ r.traj = Lf.traj := by
  unfold Solver.solve at hr
  obtain ⟨L, hL, hr⟩ := bind_ok_inv hr
  obtain ⟨q, hq, hr⟩ := bind_ok_inv hr
  obtain ⟨dN, hdN, hr⟩ := bind_ok_inv hr
  cases hr
  obtain ⟨S0, Lm, hds, hreach, hpm⟩ := runSolve_reach hL
  exact ⟨S0, Lm, L, hds, hreach, hpm, rfl⟩

/-- **every record of a `solve()` but the last is the record of an accepted pass**: record `k` of
`r.traj` holds the iterate of a loop state `L` with `L.traj = r.traj.take k`; if `k + 1 < |r.traj|`
the pass at `L` is an accepted pass `L → L'` of the solve (`SolvePass`), the record carries its
`α`, `σ`, `μ`, and record `k + 1` holds the iterate of `L'` -/
theorem solve_record {S : Solver ℝ} {st : Settings ℝ} {r : SolveResult ℝ} (hr : S.solve st = .ok r)
    (k : ℕ) (p : PassRec ℝ) (hk : r.traj[k]? = some p) :
    ∃ S0 L, (resetInfo S.st).defaultStart st = .ok S0 ∧ Reach st (initLoopSt S0) L
      ∧ L.traj = r.traj.take k ∧ p.vars = L.S.variables ∧ p.sigma = L.sigma ∧ p.stepLength = L.alpha
      ∧ (k + 1 < r.traj.length → ∃ L' p', SolvePass S st L L' ∧ p.alpha = some L'.alpha
            ∧ p.sigmaNew = some L'.sigma ∧ p.mu = L'.mu ∧ r.traj[k + 1]? = some p'
            ∧ p'.vars = L'.S.variables ∧ p'.sigma = L'.sigma ∧ p'.stepLength = L'.alpha) := by
  obtain ⟨S0, Lm, Lf, hds, hR, hb, ht⟩ := solve_traj_states hr
  rw [ht] at hk ⊢
  obtain ⟨L, r1, r2, r3, r4, r5, r6, r7⟩ := reach_record hR hb k p (Nat.zero_le _) hk
  refine ⟨S0, L, hds, r1, r3, r4, r5, r6, fun h => ?_⟩
  obtain ⟨L', hp, hR', c1, c2, c3⟩ := r7 h
  have hk1 : k + 1 < Lf.traj.length := h
  obtain ⟨p', hp'⟩ : ∃ p', Lf.traj[k + 1]? = some p' := ⟨_, List.getElem?_eq_getElem hk1⟩
  -- the state that wrote record `k + 1` is reached from `L'` and has the trajectory of `L'`: it is `L'`
  obtain ⟨L3, u1, u2, u3, u4, u5, u6, -⟩ := reach_record hR' hb (k + 1) p' (by
    obtain ⟨q, e, -⟩ := pass_record hp
    rw [e, List.length_append, List.length_singleton, r3, List.length_take]
    omega) hp'
  -- `L3` is reached from `L'` and has the trajectory of `L'` extended by nothing
  have hL3 : L3 = L' := by
    obtain ⟨q, e, -⟩ := pass_record hp
    have hlen : L3.traj.length = L'.traj.length := by
      rw [u3, e, List.length_append, List.length_singleton, r3, List.length_take, List.length_take]
      omega
    cases u1 with
    | refl => rfl
    | step hp2 hR2 =>
      obtain ⟨q2, e2, -⟩ := pass_record hp2
      obtain ⟨t2, et2⟩ := hR2.traj_prefix
      rw [et2, e2, List.length_append, List.length_append, List.length_singleton] at hlen
      omega
  subst hL3
  exact ⟨L3, p', ⟨S0, hds, r1, hp⟩, c1, c2, c3, hp', u4, u5, u6⟩

/-! ### the product formula -/

/-- the factor `1 − α(1−σ)` of the pass a record was written by (`α = 0` when the pass took no
step) -/
noncomputable def passFactor (p : PassRec ℝ) : ℝ := 1 - p.alpha.getD 0 * (1 - p.sigmaNew.getD 0)

/-- **product formula along accepted passes**: a quantity `f` of the iterate that every accepted
pass `L → L'` reached from `L0` multiplies by `1 − α(1−σ)` (`α = L'.alpha`, `σ = L'.sigma`) is, at
every state `L` reached from `L0`, the product of the factors of the records written since `L0`
times its value at `L0` -/
theorem reach_product {V : Type} [MulAction ℝ V] {st : Settings ℝ} (f : Vars ℝ → V) {L0 : LoopSt ℝ}
    (hstep : ∀ L L', Reach st L0 L → pass st L = .ok (true, L') →
      f L'.S.variables = (1 - L'.alpha * (1 - L'.sigma)) • f L.S.variables)
    {L : LoopSt ℝ} (hR : Reach st L0 L) :
    f L.S.variables = ((L.traj.drop L0.traj.length).map passFactor).prod • f L0.S.variables := by
  have key : ∀ {La Lb : LoopSt ℝ}, Reach st La Lb → Reach st L0 La →
      f Lb.S.variables = ((Lb.traj.drop La.traj.length).map passFactor).prod • f La.S.variables := by
    intro La Lb h
    induction h with
    | refl L =>
      intro _
      rw [List.drop_length, List.map_nil, List.prod_nil, one_smul]
    | @step La' Lb' Lc' hp hR' ih =>
      intro h0
      obtain ⟨p, e, -, -, -, a4⟩ := pass_record hp
      obtain ⟨b1, b2, -⟩ := a4 rfl
      obtain ⟨t, ht⟩ := hR'.traj_prefix
      rw [ih (h0.snoc hp), hstep La' Lb' h0 hp, ← mul_smul]
      congr 1
      have hd1 : Lc'.traj.drop Lb'.traj.length = t := by rw [ht, List.drop_left']; rfl
      have hd2 : Lc'.traj.drop La'.traj.length = p :: t := by
        rw [ht, e, List.append_assoc, List.drop_left']; rfl; rfl
      rw [hd1, hd2, List.map_cons, List.prod_cons, mul_comm]
      congr 1
      unfold passFactor
      rw [b1, b2]
      rfl
  exact key hR (.refl _)

end Clarabel.Solver
