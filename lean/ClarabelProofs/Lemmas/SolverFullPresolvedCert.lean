/-
  Round 5 (remaining links) — the END-TO-END verdict theorems of the whole-solver model
  (`C01.full_solved_certifies`, `C01.full_almost_solved_certifies`, `C02.full_*_certifies`) when
  PRESOLVE DROPS ROWS (lemma form).

  Pieces composed (as in `Lemmas/SolverFullPresolved.lean`, which did this for C03's report):
  * `Presolve.presolve_transparent_model_full` (C09): the presolve-on solver `S` and the solver `S'`
    built with presolve OFF from the hand-reduced problem `(A', b', cones') = handReduce keep A b cones`
    run the same trajectory; the two solutions are related by `SolveRel` (`SolveRel.explicit`);
  * `full_solved_chain`, `full_almost_solved_chain`, `full_*_infeasible_chain`
    (`Lemmas/SolverFullCompose.lean`) applied to the hand-reduced solver with C07's interior
    invariant (`Lemmas/StepKBridge.lean`) and the zero rows (`Lemmas/SolverFullZero.lean`);
  * the arithmetic of `InfoPresolve.full_eq_reduced_numbers` (behind
    `C01.solved_certifies_user_problem_presolved`, `C02.{primal,dual}_cert_presolved`): every number
    of the tests is the same for the user's full problem and for the reduced problem, the
    primal-side norms being taken over the kept rows;
  * cone membership of the FULL vectors in the FULL (collapsed) cone list: the reduced vectors lie in
    `reduce_cones(keep, K)`; dropped rows belong to nonnegative cones and carry `s = infbound ≥ 0`,
    `z = 0` (`compositeMem_lift`).
-/
import ClarabelProofs.Lemmas.SolverFullPresolved
import ClarabelProofs.Lemmas.SolverFullZero

namespace Clarabel.Solver
open Clarabel Info Residuals Clarabel.InfoUser Clarabel.InfoReport Clarabel.Dense Clarabel.InfoPresolve

set_option linter.unusedSectionVars false
set_option linter.unusedVariables false

/-- what `presolve_transparent_model_full` + `SolveRel.explicit` give for a presolve-on run that
dropped rows: the hand-reduced solver `S'` (presolve off, data `R = A.select_rows(keep)`,
`b.select(keep)`, hand-reduced cones), its result `r'`, and the reversal facts -/
structure PresolvedRun (P : Csc ℝ) (q : Array ℝ) (A : Csc ℝ) (b : Array ℝ) (cones : List (ConeT ℝ))
    (st : Settings ℝ) (perm : Array Nat) (r : SolveResult ℝ) (keep : List Bool)
    (R : Csc ℝ) (S' : Solver ℝ) (r' : SolveResult ℝ) : Prop where
  sel : A.selectRows keep.toArray = .ok R
  len : keep.length = A.m
  Rm : R.m = keep.count true
  Rn : R.n = A.n
  input : InputOK P q R (Vec.select b keep.toArray) (Presolve.handReduceCones keep cones)
  new' : Solver.new P q R (Vec.select b keep.toArray) (Presolve.handReduceCones keep cones)
    { st with presolveEnable := false } perm = .ok S'
  solve' : S'.solve { st with presolveEnable := false } = .ok r'
  status : r'.S.solution.status = r.S.solution.status
  x : r'.S.solution.x = r.S.solution.x
  facts : ∀ k, (hk : k < keep.length) →
      (keep[k] = true →
          r.S.solution.s[k]? = r'.S.solution.s[Unscale.rank keep k]?
          ∧ r.S.solution.z[k]? = r'.S.solution.z[Unscale.rank keep k]?
          ∧ (r'.S.solution.s[Unscale.rank keep k]?).isSome
          ∧ (r'.S.solution.z[Unscale.rank keep k]?).isSome)
      ∧ (keep[k] = false → r.S.solution.s[k]? = some st.infbound ∧ r.S.solution.z[k]? = some 0)

/-- the setup shared by all verdict theorems with dropped rows -/
theorem presolved_run {P : Csc ℝ} {q : Array ℝ} {A : Csc ℝ} {b : Array ℝ}
    {cones : List (ConeT ℝ)} {st : Settings ℝ} {perm : Array Nat} {S : Solver ℝ} {r : SolveResult ℝ}
    {keep : List Bool}
    (hin : InputOK P q A b cones) (hpe : st.presolveEnable = true)
    (hk : Presolve.keepFlags (Presolve.threshold st.infbound) (Cones.newCollapsed cones) b.toList = .ok keep)
    (hc : keep.count true < b.size)
    (hnew : Solver.new P q A b cones st perm = .ok S) (hr : S.solve st = .ok r) :
    ∃ R S' r', PresolvedRun P q A b cones st perm r keep R S' r' := by
  have hAcan : C16.Canonical A := hin.A_canon.canon
  obtain ⟨A', b', cones', S', h1, h2, h3, h4, h5, h6, h7, h8, hall⟩ :=
    Presolve.presolve_transparent_model_full hAcan hpe hnew hk hc
  obtain ⟨-, r', hr', hrel⟩ := hall r hr
  obtain ⟨-, -, est, -, -, -, -, -, ex, -, -, hfacts⟩ := hrel.explicit
  unfold Presolve.handReduce at h1
  obtain ⟨A'', hsel, h1⟩ := bind_ok_inv h1
  have h1' := Except.ok.inj h1
  obtain ⟨rfl, rfl, rfl⟩ : A'' = A' ∧ Vec.select b keep.toArray = b'
      ∧ Presolve.handReduceCones keep cones = cones' := by
    simpa using h1'
  have hnum : Cones.numel (Cones.newCollapsed cones) = b.toList.length := by
    rw [Cones.newCollapsed, Cones.numel_collapseGo, hin.cones, ← hin.b]; simp
  obtain ⟨keep', hk', hl, -⟩ := Presolve.keepFlags_spec (Presolve.threshold st.infbound)
    (Cones.newCollapsed cones) b.toList hnum
  rw [hk] at hk'
  cases hk'
  have hlen : keep.length = A.m := by rw [hl, ← hin.b]; simp
  obtain ⟨e1, e2, e3, e4, e5⟩ := Presolve.solver_new_dims h4
  obtain ⟨R, hR, hRc, -, -⟩ := selectRows_canonical0 A keep.toArray hin.A_canon (by simpa using hlen)
  have hRA : R = A'' := by rw [hR] at hsel; exact Except.ok.inj hsel
  subst hRA
  have hin' : InputOK P q R (Vec.select b keep.toArray) (Presolve.handReduceCones keep cones) :=
    ⟨hin.P_canon, hin.P_sq, hRc, by rw [h3]; exact hin.A_n, hin.q, e1, by rw [e2, e1]⟩
  refine ⟨R, S', r', hsel, hlen, h2, h3, hin', h4, hr', est, ex, ?_⟩
  intro k hk
  have := hfacts k (by simpa using hk)
  simpa using this

/-- the dense reading of a presolved run: every number of the tests on the user's full data equals
the number on the reduced data (`full_eq_reduced_numbers` fed with the reversal facts) -/
theorem presolved_numbers {n m mr : ℕ} (keepL : List Bool)
    (hm : keepL.length = m) (hmr : keepL.count true = mr)
    (A A' : Csc ℝ) (b : Array ℝ) (hAc : C16.Canonical A) (hAm : A.m = m) (hAn : A.n = n)
    (hb : b.size = m) (hsel : A.selectRows keepL.toArray = .ok A')
    (infbound : ℝ) (rs rz vs vz : Array ℝ)
    (hfacts' : ∀ k, (hk : k < keepL.length) →
      (keepL[k] = true →
          rs[k]? = vs[Unscale.rank keepL k]? ∧ rz[k]? = vz[Unscale.rank keepL k]?
          ∧ (vs[Unscale.rank keepL k]?).isSome ∧ (vz[Unscale.rank keepL k]?).isSome)
      ∧ (keepL[k] = false → rs[k]? = some infbound ∧ rz[k]? = some 0))
    (x : Fin n → ℝ) :
    let s := vecFn rs m
    let z := vecFn rz m
    let keep := keepFn keepL m
    (∀ j, mulVT (matFn A m n) z j = mulVT (matFn A' mr n) (vecFn vz mr) j)
    ∧ dot (vecFn b m) z = dot (vecFn (Vec.select b keepL.toArray) mr) (vecFn vz mr)
    ∧ nrm z = nrm (vecFn vz mr)
    ∧ nrmKept keep s = nrm (vecFn vs mr)
    ∧ nrmKept keep (fun i => mulV (matFn A m n) x i + s i - vecFn b m i)
        = nrm (fun k => mulV (matFn A' mr n) x k + vecFn vs mr k
            - vecFn (Vec.select b keepL.toArray) mr k)
    ∧ nrmKept keep (fun i => mulV (matFn A m n) x i + s i)
        = nrm (fun k => mulV (matFn A' mr n) x k + vecFn vs mr k)
    ∧ ∀ i, keep i = false → s i = infbound ∧ z i = 0 := by
  obtain ⟨hdrop, hkept⟩ := reversal_fn_facts_of_transparent keepL hm hmr infbound rs rz vs vz hfacts'
  obtain ⟨A'', hsel', -, -, -, hdense, -⟩ := C09.reduced_problem_dense A keepL hAc (by rw [hm, hAm])
  have hA'' : A'' = A' := by rw [hsel'] at hsel; exact Except.ok.inj hsel
  subst hA''
  have hA' := matFn_reduced (n := n) keepL hm hmr A A'' hAm hAn hdense
  have hb' := vecFn_select keepL hm hmr b hb
  obtain ⟨e1, e2, e3, e4, e5, e6⟩ := full_eq_reduced_numbers (embFin keepL hm hmr) (keepFn keepL m)
    (embFin_injective keepL hm hmr) (embFin_keep_iff keepL hm hmr) (matFn A m n) (vecFn b m)
    (vecFn rs m) (vecFn rz m) (matFn A'' mr n) (vecFn (Vec.select b keepL.toArray) mr)
    (vecFn vs mr) (vecFn vz mr) hA' hb' (fun k => (hkept k).1) (fun k => (hkept k).2)
    (fun i hi => (hdrop i hi).2) x
  exact ⟨e1, e2, e3, e4, e5, e6, hdrop⟩

/-! ### cone membership: from the reduced vectors in `reduce_cones(keep, K)` to the full vectors in `K` -/

section lift
open Clarabel.Equil Clarabel.Presolve Clarabel.Cones

theorem selectL_append {β : Type} (xs ys : List β) (ks ls : List Bool) (h : xs.length = ks.length) :
    selectL (xs ++ ys) (ks ++ ls) = selectL xs ks ++ selectL ys ls := by
  induction ks generalizing xs with
  | nil =>
    have : xs = [] := List.length_eq_zero_iff.mp (by simpa using h)
    subst this; simp [selectL]
  | cons k t ih =>
    cases xs with
    | nil => simp at h
    | cons x r =>
      have h' : r.length = t.length := by simpa using h
      cases k <;> simp [selectL, ih r h']

theorem selectL_all_true {β : Type} (xs : List β) (ks : List Bool) (h : xs.length = ks.length)
    (ht : ∀ k ∈ ks, k = true) : selectL xs ks = xs := by
  induction ks generalizing xs with
  | nil =>
    have : xs = [] := List.length_eq_zero_iff.mp (by simpa using h)
    subst this; simp [selectL]
  | cons k t ih =>
    cases xs with
    | nil => simp at h
    | cons x r =>
      have h' : r.length = t.length := by simpa using h
      have hk : k = true := ht k (by simp)
      subst hk
      simp [selectL, ih r h' (fun k hk => ht k (by simp [hk]))]

theorem selectL_length {β : Type} (xs : List β) (ks : List Bool) (h : xs.length = ks.length) :
    (selectL xs ks).length = ks.count true := by
  induction ks generalizing xs with
  | nil => cases xs <;> simp [selectL]
  | cons k t ih =>
    cases xs with
    | nil => simp at h
    | cons x r =>
      have h' : r.length = t.length := by simpa using h
      cases k <;> simp [selectL, ih r h']

theorem take_len_app {β : Type} (a b : List β) (k : ℕ) (h : k = a.length) : (a ++ b).take k = a := by
  subst h; simp

theorem drop_len_app {β : Type} (a b : List β) (k : ℕ) (h : k = a.length) : (a ++ b).drop k = b := by
  subst h; simp

/-- entries of `xs` are selected or sit at a `false` flag -/
theorem mem_of_selectL {β : Type} (xs : List β) (ks : List Bool) (h : xs.length = ks.length)
    (p : β → Prop) (hsel : ∀ x ∈ selectL xs ks, p x)
    (hdrop : ∀ i : ℕ, ks[i]? = some false → ∀ x, xs[i]? = some x → p x) : ∀ x ∈ xs, p x := by
  induction ks generalizing xs with
  | nil =>
    have : xs = [] := List.length_eq_zero_iff.mp (by simpa using h)
    subst this; intro x hx; cases hx
  | cons k t ih =>
    cases xs with
    | nil => simp at h
    | cons x r =>
      have h' : r.length = t.length := by simpa using h
      have hrest : ∀ y ∈ r, p y := by
        apply ih r h'
        · intro y hy
          apply hsel
          cases k <;> simp [selectL, hy]
        · intro i hi y hy
          exact hdrop (i + 1) (by simpa using hi) y (by simpa using hy)
      intro y hy
      rcases List.mem_cons.mp hy with rfl | hy
      · cases k with
        | true => exact hsel _ (by simp [selectL])
        | false => exact hdrop 0 (by simp) _ (by simp)
      · exact hrest y hy

/-- **lifting cone membership through `reduce_cones`**: `keep` the flags of `make_reduction_map`
for the cone list `cs` (only rows of nonnegative cones can be dropped), `v` a full-length vector
whose dropped entries are nonnegative; if the kept entries lie in the reduced product cone then `v`
lies in the product cone of `cs`.  `mem` is `ConeMem` or `ConeMemDual` (any membership relation that
reads `0 ≤ ·` entrywise on nonnegative cones). -/
theorem compositeMem_lift (mem : ConeT ℝ → List ℝ → Prop)
    (hnn : ∀ n seg, mem (.nonneg n) seg ↔ ∀ x ∈ seg, 0 ≤ x) (thr : ℝ) :
    ∀ (cs : List (ConeT ℝ)) (bs : List ℝ) (keep : List Bool) (v : List ℝ),
      keepFlags thr cs bs = .ok keep → numel cs = bs.length → v.length = bs.length →
      (∀ i : ℕ, keep[i]? = some false → ∀ x, v[i]? = some x → 0 ≤ x) →
      CompositeMem mem (reduceConesWith keep cs) (selectL v keep) → CompositeMem mem cs v := by
  intro cs
  induction cs with
  | nil => intro bs keep v _ _ _ _ _; trivial
  | cons c cs ih =>
    intro bs keep v hk hnum hv hdrop hmem
    simp only [numel] at hnum
    have hcl : c.nvars ≤ bs.length := by omega
    have hvsplit : v = v.take c.nvars ++ v.drop c.nvars := (List.take_append_drop _ _).symm
    have htl : (v.take c.nvars).length = c.nvars := by rw [List.length_take]; omega
    have hrestnum : numel cs = (bs.drop c.nvars).length := by simp; omega
    have hvrest : (v.drop c.nvars).length = (bs.drop c.nvars).length := by simp; omega
    -- the flags split as `seg ++ rest`
    obtain ⟨seg, rest, hkeep, hseg, hrest, hsegc⟩ : ∃ seg rest, keep = seg ++ rest ∧ seg.length = c.nvars
        ∧ keepFlags thr cs (bs.drop c.nvars) = .ok rest
        ∧ ((∀ n, c ≠ .nonneg n) → ∀ k ∈ seg, k = true) := by
      cases c with
      | nonneg n =>
        simp only [keepFlags] at hk
        have hn : ¬ bs.length < n := by simpa [ConeT.nvars] using Nat.not_lt.mpr hcl
        rw [if_neg hn] at hk
        obtain ⟨rest, hr, hk⟩ := bind_ok_inv hk
        cases hk
        refine ⟨_, rest, rfl, ?_, hr, fun h => absurd rfl (h n)⟩
        simp [ConeT.nvars]; omega
      | zero n =>
        simp only [keepFlags] at hk
        obtain ⟨rest, hr, hk⟩ := bind_ok_inv hk
        cases hk
        refine ⟨_, rest, rfl, ?_, hr, fun _ k hk => ?_⟩
        · simp; exact hcl
        · simp only [List.mem_map] at hk; obtain ⟨_, _, rfl⟩ := hk; rfl
      | soc n =>
        simp only [keepFlags] at hk
        obtain ⟨rest, hr, hk⟩ := bind_ok_inv hk
        cases hk
        refine ⟨_, rest, rfl, ?_, hr, fun _ k hk => ?_⟩
        · simp; exact hcl
        · simp only [List.mem_map] at hk; obtain ⟨_, _, rfl⟩ := hk; rfl
      | exp =>
        simp only [keepFlags] at hk
        obtain ⟨rest, hr, hk⟩ := bind_ok_inv hk
        cases hk
        refine ⟨_, rest, rfl, ?_, hr, fun _ k hk => ?_⟩
        · simp; exact hcl
        · simp only [List.mem_map] at hk; obtain ⟨_, _, rfl⟩ := hk; rfl
      | pow a =>
        simp only [keepFlags] at hk
        obtain ⟨rest, hr, hk⟩ := bind_ok_inv hk
        cases hk
        refine ⟨_, rest, rfl, ?_, hr, fun _ k hk => ?_⟩
        · simp; exact hcl
        · simp only [List.mem_map] at hk; obtain ⟨_, _, rfl⟩ := hk; rfl
      | genpow al d =>
        simp only [keepFlags] at hk
        obtain ⟨rest, hr, hk⟩ := bind_ok_inv hk
        cases hk
        refine ⟨_, rest, rfl, ?_, hr, fun _ k hk => ?_⟩
        · simp; exact hcl
        · simp only [List.mem_map] at hk; obtain ⟨_, _, rfl⟩ := hk; rfl
      | psd n =>
        simp only [keepFlags] at hk
        obtain ⟨rest, hr, hk⟩ := bind_ok_inv hk
        cases hk
        refine ⟨_, rest, rfl, ?_, hr, fun _ k hk => ?_⟩
        · simp; exact hcl
        · simp only [List.mem_map] at hk; obtain ⟨_, _, rfl⟩ := hk; rfl
    subst hkeep
    have hsl : (v.take c.nvars).length = seg.length := by rw [htl, hseg]
    have hselsplit : selectL v (seg ++ rest)
        = selectL (v.take c.nvars) seg ++ selectL (v.drop c.nvars) rest := by
      conv_lhs => rw [hvsplit]
      exact selectL_append _ _ _ _ hsl
    have htake : (seg ++ rest).take c.nvars = seg := by rw [← hseg]; simp
    have hdropk : (seg ++ rest).drop c.nvars = rest := by rw [← hseg]; simp
    have hdrop_rest : ∀ i : ℕ, rest[i]? = some false → ∀ x, (v.drop c.nvars)[i]? = some x → 0 ≤ x := by
      intro i hi x hx
      apply hdrop (c.nvars + i)
      · rw [List.getElem?_append_right (by omega), hseg]; simpa using hi
      · rw [List.getElem?_drop] at hx; exact hx
    have hdrop_seg : ∀ i : ℕ, seg[i]? = some false → ∀ x, (v.take c.nvars)[i]? = some x → 0 ≤ x := by
      intro i hi x hx
      have hil : i < seg.length := by
        by_contra hcon
        rw [List.getElem?_eq_none (by omega)] at hi; cases hi
      apply hdrop i
      · rw [List.getElem?_append_left hil]; exact hi
      · rw [List.getElem?_take] at hx
        split at hx
        · exact hx
        · cases hx
    show mem c (v.take c.nvars) ∧ CompositeMem mem cs (v.drop c.nvars)
    by_cases hcn : ∃ n, c = .nonneg n
    · obtain ⟨n, rfl⟩ := hcn
      have hn : (ConeT.nonneg n : ConeT ℝ).nvars = n := rfl
      rw [hn] at htake hdropk hselsplit hdrop_seg hdrop_rest hsl ⊢
      simp only [reduceConesWith, htake, hdropk] at hmem
      have hcount := selectL_length (v.take n) seg hsl
      split at hmem
      · obtain ⟨m1, m2⟩ := hmem
        have hn' : (ConeT.nonneg (seg.count true) : ConeT ℝ).nvars = seg.count true := rfl
        rw [hn', hselsplit, take_len_app _ _ _ hcount.symm] at m1
        rw [hn', hselsplit, drop_len_app _ _ _ hcount.symm] at m2
        refine ⟨(hnn _ _).mpr ?_, ih _ rest _ hrest hrestnum hvrest hdrop_rest m2⟩
        exact mem_of_selectL _ seg hsl (fun x => 0 ≤ x) ((hnn _ _).mp m1) hdrop_seg
      · rename_i hz
        have hz' : seg.count true = 0 := by omega
        have hnil : selectL (v.take n) seg = [] := List.length_eq_zero_iff.mp (by rw [hcount, hz'])
        rw [hselsplit, hnil, List.nil_append] at hmem
        refine ⟨(hnn _ _).mpr ?_, ih _ rest _ hrest hrestnum hvrest hdrop_rest hmem⟩
        exact mem_of_selectL _ seg hsl (fun x => 0 ≤ x) (by rw [hnil]; intro x hx; cases hx) hdrop_seg
    · have hcn' : ∀ n, c ≠ .nonneg n := fun n h => hcn ⟨n, h⟩
      have hall := hsegc hcn'
      have hsame : selectL (v.take c.nvars) seg = v.take c.nvars := selectL_all_true _ _ hsl hall
      have hred : reduceConesWith (seg ++ rest) (c :: cs) = c :: reduceConesWith rest cs := by
        cases c with
        | nonneg n => exact absurd rfl (hcn' n)
        | _ => simp only [reduceConesWith, hdropk]
      rw [hred, hselsplit, hsame] at hmem
      obtain ⟨m1, m2⟩ := hmem
      rw [take_len_app _ _ _ htl.symm] at m1
      rw [drop_len_app _ _ _ htl.symm] at m2
      exact ⟨m1, ih _ rest _ hrest hrestnum hvrest hdrop_rest m2⟩

/-- extra entries beyond the rows of the cone list do not matter -/
theorem compositeMem_append (mem : ConeT ℝ → List ℝ → Prop) :
    ∀ (cs : List (ConeT ℝ)) (v e : List ℝ), numel cs ≤ v.length →
      (CompositeMem mem cs (v ++ e) ↔ CompositeMem mem cs v) := by
  intro cs
  induction cs with
  | nil => intro v e _; exact Iff.rfl
  | cons c cs ih =>
    intro v e h
    simp only [numel] at h
    have hc : c.nvars ≤ v.length := by omega
    show (mem c ((v ++ e).take c.nvars) ∧ CompositeMem mem cs ((v ++ e).drop c.nvars))
      ↔ (mem c (v.take c.nvars) ∧ CompositeMem mem cs (v.drop c.nvars))
    rw [List.take_append_of_le_length hc, List.drop_append_of_le_length hc,
      ih (v.drop c.nvars) e (by simp; omega)]

/-- the reversal facts in list form: the kept entries of the (first `|keep|` entries of the) full
vector are the reduced vector -/
theorem selectL_of_facts {β : Type} : ∀ (keep : List Bool) (l l' : List β),
    l.length = keep.length → l'.length = keep.count true →
    (∀ k, (hk : k < keep.length) → keep[k] = true → l[k]? = l'[Unscale.rank keep k]?) →
    selectL l keep = l' := by
  intro keep
  induction keep with
  | nil =>
    intro l l' h1 h2 _
    have e1 : l = [] := List.length_eq_zero_iff.mp (by simpa using h1)
    have e2 : l' = [] := List.length_eq_zero_iff.mp (by simpa using h2)
    subst e1 e2; rfl
  | cons b t ih =>
    intro l l' h1 h2 hf
    cases l with
    | nil => simp at h1
    | cons x xs =>
      have h1' : xs.length = t.length := by simpa using h1
      cases b with
      | true =>
        cases l' with
        | nil => simp at h2
        | cons y ys =>
          have h2' : ys.length = t.count true := by simpa using h2
          have h0 := hf 0 (by simp) rfl
          simp only [rank_zero, List.getElem?_cons_zero, Option.some.injEq] at h0
          subst h0
          have : selectL xs t = ys := by
            apply ih xs ys h1' h2'
            intro k hk hkt
            have := hf (k + 1) (by simpa using hk) (by simpa using hkt)
            rw [rank_true_succ] at this
            simpa using this
          simp [selectL, this]
      | false =>
        have h2' : l'.length = t.count true := by simpa using h2
        have : selectL xs t = l' := by
          apply ih xs l' h1' h2'
          intro k hk hkt
          have := hf (k + 1) (by simpa using hk) (by simpa using hkt)
          rw [rank_false_succ] at this
          simpa using this
        simp [selectL, this]

/-- **the full vector lies in the full cone**: `vs` (reduced) in the reduced product cone,
`rs` (full) related to it by the reversal facts with a nonnegative fill value `c` -/
theorem compositeMem_of_facts (mem : ConeT ℝ → List ℝ → Prop)
    (hnn : ∀ n seg, mem (.nonneg n) seg ↔ ∀ x ∈ seg, 0 ≤ x) (thr c : ℝ) (hc : 0 ≤ c)
    (cs : List (ConeT ℝ)) (bs : List ℝ) (keep : List Bool) (rs vs : Array ℝ)
    (hk : keepFlags thr cs bs = .ok keep) (hnum : numel cs = bs.length)
    (hkl : keep.length = bs.length) (hvs : vs.size = keep.count true)
    (hfacts : ∀ k, (hk : k < keep.length) →
      (keep[k] = true → rs[k]? = vs[Unscale.rank keep k]? ∧ (vs[Unscale.rank keep k]?).isSome)
      ∧ (keep[k] = false → rs[k]? = some c))
    (hmem : CompositeMem mem (reduceConesWith keep cs) vs.toList) :
    CompositeMem mem cs rs.toList := by
  have hrl : keep.length ≤ rs.toList.length := by
    by_contra hcon
    have hlt : rs.size < keep.length := by simpa using hcon
    have hnone : rs[rs.size]? = none := by simp
    rcases hb : keep[rs.size]'hlt with _ | _
    · rw [((hfacts _ hlt).2 hb)] at hnone; cases hnone
    · obtain ⟨e, hs⟩ := (hfacts _ hlt).1 hb
      rw [← e, hnone] at hs; cases hs
  have hsplit : rs.toList = rs.toList.take keep.length ++ rs.toList.drop keep.length :=
    (List.take_append_drop _ _).symm
  rw [hsplit]
  have htl : (rs.toList.take keep.length).length = keep.length := by
    rw [List.length_take]; omega
  rw [compositeMem_append mem cs _ _ (by rw [htl, hkl, hnum])]
  apply compositeMem_lift mem hnn thr cs bs keep _ hk hnum (by rw [htl, hkl])
  · intro i hi x hx
    have hil : i < keep.length := by
      by_contra hcon
      rw [List.getElem?_eq_none (by omega)] at hi; cases hi
    have hb : keep[i] = false := by
      rw [List.getElem?_eq_getElem hil] at hi; exact Option.some.inj hi
    have := (hfacts i hil).2 hb
    rw [List.getElem?_take, if_pos hil] at hx
    have e : rs.toList[i]? = rs[i]? := Array.getElem?_toList
    rw [e, this] at hx
    cases hx; exact hc
  · have : selectL (rs.toList.take keep.length) keep = vs.toList := by
      apply selectL_of_facts keep _ _ htl (by simpa using hvs)
      intro k hk hkt
      rw [List.getElem?_take, if_pos hk]
      have := ((hfacts k hk).1 hkt).1
      simpa using this
    rw [this]; exact hmem

end lift

/-! ### the verdict theorems with dropped rows -/

/-- the invariant the verdict theorems use: C07's interior and `s = 0` on zero-cone rows -/
theorem presolved_hyps (st : Settings ℝ) (hf0 : 0 < st.maxStepFraction) (hf1 : st.maxStepFraction < 1)
    (hmv : 0 < st.maxValue) :
    StepHyp st (fun l v => Interior l v ∧ ZeroS l v) ∧ InitHyp st (fun l v => Interior l v ∧ ZeroS l v) :=
  ⟨(interior_stepHyp st hf0 hf1 hmv).and (zeroS_stepHyp st), (interior_initHyp st).and (zeroS_initHyp st)⟩

/-- cone membership of the FULL returned vectors from that of the reduced ones -/
theorem presolved_cone_lift {P : Csc ℝ} {q : Array ℝ} {A : Csc ℝ} {b : Array ℝ}
    {cones : List (ConeT ℝ)} {st : Settings ℝ} {perm : Array Nat} {r : SolveResult ℝ}
    {keep : List Bool} {R : Csc ℝ} {S' : Solver ℝ} {r' : SolveResult ℝ}
    (hin : InputOK P q A b cones)
    (hk : Presolve.keepFlags (Presolve.threshold st.infbound) (Cones.newCollapsed cones) b.toList = .ok keep)
    (H : PresolvedRun P q A b cones st perm r keep R S' r') :
    (0 ≤ st.infbound → r'.S.solution.s.size = R.m →
      Equil.CompositeMem Equil.ConeMem (Cones.newCollapsed (Presolve.handReduceCones keep cones))
        r'.S.solution.s.toList →
      Equil.CompositeMem Equil.ConeMem (Cones.newCollapsed cones) r.S.solution.s.toList)
    ∧ (r'.S.solution.z.size = R.m →
      Equil.CompositeMem Equil.ConeMemDual (Cones.newCollapsed (Presolve.handReduceCones keep cones))
        r'.S.solution.z.toList →
      Equil.CompositeMem Equil.ConeMemDual (Cones.newCollapsed cones) r.S.solution.z.toList) := by
  have hnum : Cones.numel (Cones.newCollapsed cones) = b.toList.length := by
    rw [Cones.newCollapsed, Cones.numel_collapseGo, hin.cones, ← hin.b]; simp
  have hkl : keep.length = b.toList.length := by rw [H.len, ← hin.b]; simp
  have hcol := Presolve.collapse_handReduceCones cones keep (by rw [H.len, hin.cones])
  rw [hcol]
  constructor
  · intro hib hsz hmem
    exact compositeMem_of_facts Equil.ConeMem (fun _ _ => Iff.rfl) (Presolve.threshold st.infbound)
      st.infbound hib _ b.toList keep _ _ hk hnum hkl (by rw [hsz, H.Rm])
      (fun k hk' => ⟨fun h => ⟨((H.facts k hk').1 h).1, ((H.facts k hk').1 h).2.2.1⟩,
        fun h => ((H.facts k hk').2 h).1⟩) hmem
  · intro hsz hmem
    exact compositeMem_of_facts Equil.ConeMemDual (fun _ _ => Iff.rfl) (Presolve.threshold st.infbound)
      0 le_rfl _ b.toList keep _ _ hk hnum hkl (by rw [hsz, H.Rm])
      (fun k hk' => ⟨fun h => ⟨((H.facts k hk').1 h).2.1, ((H.facts k hk').1 h).2.2.2⟩,
        fun h => ((H.facts k hk').2 h).2⟩) hmem

/-- the termination test on the reduced data is the test on the user's full data, kept-row norms on
the primal side (arithmetic core shared by `Solved` / `AlmostSolved`) -/
theorem presolved_test {P : Csc ℝ} {q : Array ℝ} {A : Csc ℝ} {b : Array ℝ}
    {cones : List (ConeT ℝ)} {st : Settings ℝ} {perm : Array Nat} {r : SolveResult ℝ}
    {keep : List Bool} {R : Csc ℝ} {S' : Solver ℝ} {r' : SolveResult ℝ}
    (hin : InputOK P q A b cones)
    (H : PresolvedRun P q A b cones st perm r keep R S' r') (Pn : Csc ℝ) (feas gabs grel : ℝ)
    (T : let bc := ProblemData.capB (Vec.select b keep.toArray) st.infbound
      let p := problemOf Pn q R bc R.n R.m
      let x := vecFn r'.S.solution.x R.n
      let sv := vecFn r'.S.solution.s R.m
      let z := vecFn r'.S.solution.z R.m
      let pobj := dot x (mulV p.P x) / 2 + dot p.q x
      let dobj := -dot p.b z - dot x (mulV p.P x) / 2
      nrm (fun k => mulV p.A x k + sv k - p.b k) / max 1 (Vec.normInf bc + nrm x + nrm sv) < feas
      ∧ nrm (fun j => mulV p.P x j + mulVT p.A z j + p.q j) / max 1 (Vec.normInf q + nrm x + nrm z)
          < feas
      ∧ (|pobj - dobj| < gabs ∨ |pobj - dobj| / max 1 (min |pobj| |dobj|) < grel)) :
    let n := A.n
    let m := A.m
    let bc := ProblemData.capB b st.infbound
    let Pd := symFn Pn n
    let qd := vecFn q n
    let x := vecFn r.S.solution.x n
    let s := vecFn r.S.solution.s m
    let z := vecFn r.S.solution.z m
    let kp := keepFn keep m
    let normb := Vec.normInf (ProblemData.capB (Vec.select b keep.toArray) st.infbound)
    let pobj := dot x (mulV Pd x) / 2 + dot qd x
    let dobj := -dot (vecFn bc m) z - dot x (mulV Pd x) / 2
    nrmKept kp (fun i => mulV (matFn A m n) x i + s i - vecFn bc m i)
        / max 1 (normb + nrm x + nrmKept kp s) < feas
    ∧ nrm (fun j => mulV Pd x j + mulVT (matFn A m n) z j + qd j)
        / max 1 (Vec.normInf q + nrm x + nrm z) < feas
    ∧ (|pobj - dobj| < gabs ∨ |pobj - dobj| / max 1 (min |pobj| |dobj|) < grel)
    ∧ (∀ i, kp i = false → s i = st.infbound ∧ z i = 0) := by
  dsimp only [problemOf] at T
  obtain ⟨t1, t2, t3⟩ := T
  rw [H.x, H.Rn] at t1 t2 t3
  obtain ⟨e1, e2, e3, e4, e5, -, e7⟩ := presolved_numbers (n := A.n) (m := A.m) (mr := R.m) keep H.len
    H.Rm.symm A R (ProblemData.capB b st.infbound) hin.A_canon.canon rfl rfl
    (by unfold ProblemData.capB; rw [Array.size_map]; exact hin.b) H.sel st.infbound
    r.S.solution.s r.S.solution.z r'.S.solution.s r'.S.solution.z H.facts (vecFn r.S.solution.x A.n)
  rw [select_capB] at e2 e5
  dsimp only at e1 e2 e3 e4 e5 e7 ⊢
  have e1' : (fun j => mulV (symFn Pn A.n) (vecFn r.S.solution.x A.n) j
        + mulVT (matFn A A.m A.n) (vecFn r.S.solution.z A.m) j + vecFn q A.n j)
      = fun j => mulV (symFn Pn A.n) (vecFn r.S.solution.x A.n) j
        + mulVT (matFn R R.m A.n) (vecFn r'.S.solution.z R.m) j + vecFn q A.n j :=
    funext (fun j => by rw [e1 j])
  refine ⟨?_, ?_, ?_, e7⟩
  · rw [e5, e4]; exact t1
  · rw [e1', e3]; exact t2
  · rw [e2]; exact t3

/-- **`C01.full_solved_certifies_presolved`** (lemma form): status `Solved` when presolve dropped rows -/
theorem full_solved_presolved_chain {P : Csc ℝ} {q : Array ℝ} {A : Csc ℝ} {b : Array ℝ}
    {cones : List (ConeT ℝ)} {st : Settings ℝ} {perm : Array Nat} {S : Solver ℝ} {r : SolveResult ℝ}
    {keep : List Bool}
    (hin : InputOK P q A b cones) (hpe : st.presolveEnable = true)
    (hk : Presolve.keepFlags (Presolve.threshold st.infbound) (Cones.newCollapsed cones) b.toList = .ok keep)
    (hc : keep.count true < b.size) (hib : 0 ≤ st.infbound)
    (hlo : 0 < st.equil.minScaling) (hhi : 0 < st.equil.maxScaling)
    (hf0 : 0 < st.maxStepFraction) (hf1 : st.maxStepFraction < 1) (hmv : 0 < st.maxValue)
    (hnew : Solver.new P q A b cones st perm = .ok S) (hr : S.solve st = .ok r)
    (hst : r.S.solution.status = .solved) :
    ∃ Pn, ProblemData.triuStep P = .ok Pn ∧
      let n := A.n
      let m := A.m
      let bc := ProblemData.capB b st.infbound
      let Pd := symFn Pn n
      let qd := vecFn q n
      let x := vecFn r.S.solution.x n
      let s := vecFn r.S.solution.s m
      let z := vecFn r.S.solution.z m
      let kp := keepFn keep m
      let normb := Vec.normInf (ProblemData.capB (Vec.select b keep.toArray) st.infbound)
      let pobj := dot x (mulV Pd x) / 2 + dot qd x
      let dobj := -dot (vecFn bc m) z - dot x (mulV Pd x) / 2
      nrmKept kp (fun i => mulV (matFn A m n) x i + s i - vecFn bc m i)
          / max 1 (normb + nrm x + nrmKept kp s) < st.info.full.feas
      ∧ nrm (fun j => mulV Pd x j + mulVT (matFn A m n) z j + qd j)
          / max 1 (Vec.normInf q + nrm x + nrm z) < st.info.full.feas
      ∧ (|pobj - dobj| < st.info.full.gap_abs
          ∨ |pobj - dobj| / max 1 (min |pobj| |dobj|) < st.info.full.gap_rel)
      ∧ (∀ i, kp i = false → s i = st.infbound ∧ z i = 0)
      ∧ Equil.CompositeMem Equil.ConeMem (Cones.newCollapsed cones) r.S.solution.s.toList
      ∧ Equil.CompositeMem Equil.ConeMemDual (Cones.newCollapsed cones) r.S.solution.z.toList
      ∧ r.S.solution.x.size = A.n := by
  obtain ⟨R, S', r', H⟩ := presolved_run hin hpe hk hc hnew hr
  obtain ⟨hG, hI⟩ := presolved_hyps { st with presolveEnable := false } hf0 hf1 hmv
  obtain ⟨Pn, hPn, T⟩ := full_solved_chain hG hI (fun _ _ h => h.1.pos.1)
    (fun _ _ _ hK h => ⟨Interior.mem_primal hK h.1 h.2, Interior.mem_dual hK h.1⟩)
    ⟨H.input, Or.inl rfl, hlo, hhi⟩ H.new' H.solve' (by rw [H.status]; exact hst)
  obtain ⟨t1, t2, t3, c1, c2, s1, s2, s3⟩ := T
  obtain ⟨l1, l2⟩ := presolved_cone_lift hin hk H
  obtain ⟨u1, u2, u3, u4⟩ := presolved_test hin H Pn st.info.full.feas st.info.full.gap_abs
    st.info.full.gap_rel ⟨t1, t2, t3⟩
  exact ⟨Pn, hPn, u1, u2, u3, u4, l1 hib s2 c1, l2 s3 c2, by rw [← H.x, s1, H.Rn]⟩

/-- **`C01.full_almost_solved_certifies_presolved`** (lemma form) -/
theorem full_almost_solved_presolved_chain {P : Csc ℝ} {q : Array ℝ} {A : Csc ℝ} {b : Array ℝ}
    {cones : List (ConeT ℝ)} {st : Settings ℝ} {perm : Array Nat} {S : Solver ℝ} {r : SolveResult ℝ}
    {keep : List Bool}
    (hin : InputOK P q A b cones) (hpe : st.presolveEnable = true)
    (hk : Presolve.keepFlags (Presolve.threshold st.infbound) (Cones.newCollapsed cones) b.toList = .ok keep)
    (hc : keep.count true < b.size)
    (hlo : 0 < st.equil.minScaling) (hhi : 0 < st.equil.maxScaling)
    (hf0 : 0 < st.maxStepFraction) (hf1 : st.maxStepFraction < 1) (hmv : 0 < st.maxValue)
    (hnew : Solver.new P q A b cones st perm = .ok S) (hr : S.solve st = .ok r)
    (hst : r.S.solution.status = .almostSolved) :
    ∃ Pn, ProblemData.triuStep P = .ok Pn ∧
      let n := A.n
      let m := A.m
      let bc := ProblemData.capB b st.infbound
      let Pd := symFn Pn n
      let qd := vecFn q n
      let x := vecFn r.S.solution.x n
      let s := vecFn r.S.solution.s m
      let z := vecFn r.S.solution.z m
      let kp := keepFn keep m
      let normb := Vec.normInf (ProblemData.capB (Vec.select b keep.toArray) st.infbound)
      let pobj := dot x (mulV Pd x) / 2 + dot qd x
      let dobj := -dot (vecFn bc m) z - dot x (mulV Pd x) / 2
      nrmKept kp (fun i => mulV (matFn A m n) x i + s i - vecFn bc m i)
          / max 1 (normb + nrm x + nrmKept kp s) < st.info.reduced.feas
      ∧ nrm (fun j => mulV Pd x j + mulVT (matFn A m n) z j + qd j)
          / max 1 (Vec.normInf q + nrm x + nrm z) < st.info.reduced.feas
      ∧ (|pobj - dobj| < st.info.reduced.gap_abs
          ∨ |pobj - dobj| / max 1 (min |pobj| |dobj|) < st.info.reduced.gap_rel)
      ∧ (∀ i, kp i = false → s i = st.infbound ∧ z i = 0) := by
  obtain ⟨R, S', r', H⟩ := presolved_run hin hpe hk hc hnew hr
  obtain ⟨hG, hI⟩ := presolved_hyps { st with presolveEnable := false } hf0 hf1 hmv
  obtain ⟨Pn, hPn, T⟩ := full_almost_solved_chain hG hI (fun _ _ h => h.1.pos.1)
    (fun _ _ _ hK h => ⟨Interior.mem_primal hK h.1 h.2, Interior.mem_dual hK h.1⟩)
    ⟨H.input, Or.inl rfl, hlo, hhi⟩ H.new' H.solve' (by rw [H.status]; exact hst)
  obtain ⟨t1, t2, t3, -, -⟩ := T
  exact ⟨Pn, hPn, presolved_test hin H Pn st.info.reduced.feas st.info.reduced.gap_abs
    st.info.reduced.gap_rel ⟨t1, t2, t3⟩⟩

/-- the Farkas numbers: reduced ↦ full (arithmetic core shared by `PrimalInfeasible` /
`AlmostPrimalInfeasible`) -/
theorem presolved_primal_cert {P : Csc ℝ} {q : Array ℝ} {A : Csc ℝ} {b : Array ℝ}
    {cones : List (ConeT ℝ)} {st : Settings ℝ} {perm : Array Nat} {r : SolveResult ℝ}
    {keep : List Bool} {R : Csc ℝ} {S' : Solver ℝ} {r' : SolveResult ℝ}
    (hin : InputOK P q A b cones)
    (H : PresolvedRun P q A b cones st perm r keep R S' r') (c κ tabs trel : ℝ)
    (T : let bc := ProblemData.capB (Vec.select b keep.toArray) st.infbound
      let z := vecFn r'.S.solution.z R.m
      c * κ * dot (vecFn bc R.m) z < -tabs
      ∧ dot (vecFn bc R.m) z < 0
      ∧ nrm (mulVT (matFn R R.m R.n) z) < trel * c * (-(dot (vecFn bc R.m) z)) * max 1 (κ * nrm z)) :
    let bc := ProblemData.capB b st.infbound
    let z := vecFn r.S.solution.z A.m
    c * κ * dot (vecFn bc A.m) z < -tabs
    ∧ dot (vecFn bc A.m) z < 0
    ∧ nrm (mulVT (matFn A A.m A.n) z) < trel * c * (-(dot (vecFn bc A.m) z)) * max 1 (κ * nrm z)
    ∧ (∀ i, keepFn keep A.m i = false → z i = 0) := by
  obtain ⟨t1, t2, t3⟩ := T
  rw [H.Rn] at t3
  obtain ⟨e1, e2, e3, -, -, -, e7⟩ := presolved_numbers (n := A.n) (m := A.m) (mr := R.m) keep H.len
    H.Rm.symm A R (ProblemData.capB b st.infbound) hin.A_canon.canon rfl rfl
    (by unfold ProblemData.capB; rw [Array.size_map]; exact hin.b) H.sel st.infbound
    r.S.solution.s r.S.solution.z r'.S.solution.s r'.S.solution.z H.facts (fun _ => 0)
  rw [select_capB] at e2
  dsimp only at e1 e2 e3 e7 ⊢
  have e1' : mulVT (matFn A A.m A.n) (vecFn r.S.solution.z A.m)
      = mulVT (matFn R R.m A.n) (vecFn r'.S.solution.z R.m) := funext e1
  refine ⟨?_, ?_, ?_, fun i hi => (e7 i hi).2⟩
  · rw [e2]; exact t1
  · rw [e2]; exact t2
  · rw [e1', e2, e3]; exact t3

/-- **`C02.full_primal_infeasible_certifies_presolved`** (lemma form) -/
theorem full_primal_infeasible_presolved_chain {P : Csc ℝ} {q : Array ℝ} {A : Csc ℝ} {b : Array ℝ}
    {cones : List (ConeT ℝ)} {st : Settings ℝ} {perm : Array Nat} {S : Solver ℝ} {r : SolveResult ℝ}
    {keep : List Bool}
    (hin : InputOK P q A b cones) (hpe : st.presolveEnable = true)
    (hk : Presolve.keepFlags (Presolve.threshold st.infbound) (Cones.newCollapsed cones) b.toList = .ok keep)
    (hc : keep.count true < b.size)
    (hlo : 0 < st.equil.minScaling) (hhi : 0 < st.equil.maxScaling)
    (hf0 : 0 < st.maxStepFraction) (hf1 : st.maxStepFraction < 1) (hmv : 0 < st.maxValue)
    (htabs : 0 ≤ st.info.full.infeas_abs)
    (hnew : Solver.new P q A b cones st perm = .ok S) (hr : S.solve st = .ok r)
    (hst : r.S.solution.status = .primalInfeasible) :
    ∃ (c κ : ℝ), 0 < c ∧ 0 < κ ∧
      let bc := ProblemData.capB b st.infbound
      let z := vecFn r.S.solution.z A.m
      c * κ * dot (vecFn bc A.m) z < -st.info.full.infeas_abs
      ∧ dot (vecFn bc A.m) z < 0
      ∧ nrm (mulVT (matFn A A.m A.n) z)
          < st.info.full.infeas_rel * c * (-(dot (vecFn bc A.m) z)) * max 1 (κ * nrm z)
      ∧ (∀ i, keepFn keep A.m i = false → z i = 0)
      ∧ Equil.CompositeMem Equil.ConeMemDual (Cones.newCollapsed cones) r.S.solution.z.toList := by
  obtain ⟨R, S', r', H⟩ := presolved_run hin hpe hk hc hnew hr
  obtain ⟨hG, hI⟩ := presolved_hyps { st with presolveEnable := false } hf0 hf1 hmv
  obtain ⟨c, κ, hc0, hκ, t1, t2, t3, c2, s3⟩ := full_primal_infeasible_chain hG hI
    (fun _ _ h => h.1.pos.2)
    (fun _ _ _ hK h => ⟨Interior.mem_primal hK h.1 h.2, Interior.mem_dual hK h.1⟩)
    ⟨H.input, Or.inl rfl, hlo, hhi⟩ htabs H.new' H.solve' (by rw [H.status]; exact hst)
  obtain ⟨u1, u2, u3, u4⟩ := presolved_primal_cert hin H c κ st.info.full.infeas_abs
    st.info.full.infeas_rel ⟨t1, t2, t3⟩
  exact ⟨c, κ, hc0, hκ, u1, u2, u3, u4, (presolved_cone_lift hin hk H).2 s3 c2⟩

/-- **`C02.full_almost_primal_infeasible_certifies_presolved`** (lemma form) -/
theorem full_almost_primal_infeasible_presolved_chain {P : Csc ℝ} {q : Array ℝ} {A : Csc ℝ}
    {b : Array ℝ} {cones : List (ConeT ℝ)} {st : Settings ℝ} {perm : Array Nat} {S : Solver ℝ}
    {r : SolveResult ℝ} {keep : List Bool}
    (hin : InputOK P q A b cones) (hpe : st.presolveEnable = true)
    (hk : Presolve.keepFlags (Presolve.threshold st.infbound) (Cones.newCollapsed cones) b.toList = .ok keep)
    (hc : keep.count true < b.size)
    (hlo : 0 < st.equil.minScaling) (hhi : 0 < st.equil.maxScaling)
    (hf0 : 0 < st.maxStepFraction) (hf1 : st.maxStepFraction < 1) (hmv : 0 < st.maxValue)
    (htabs : 0 ≤ st.info.reduced.infeas_abs)
    (hgate : 1 ≤ (1 / st.info.reduced.ktratio) * 1000)
    (hnew : Solver.new P q A b cones st perm = .ok S) (hr : S.solve st = .ok r)
    (hst : r.S.solution.status = .almostPrimalInfeasible) :
    ∃ (c κ : ℝ), 0 < c ∧ 0 < κ ∧
      let bc := ProblemData.capB b st.infbound
      let z := vecFn r.S.solution.z A.m
      c * κ * dot (vecFn bc A.m) z < -st.info.reduced.infeas_abs
      ∧ dot (vecFn bc A.m) z < 0
      ∧ nrm (mulVT (matFn A A.m A.n) z)
          < st.info.reduced.infeas_rel * c * (-(dot (vecFn bc A.m) z)) * max 1 (κ * nrm z)
      ∧ (∀ i, keepFn keep A.m i = false → z i = 0)
      ∧ Equil.CompositeMem Equil.ConeMemDual (Cones.newCollapsed cones) r.S.solution.z.toList := by
  obtain ⟨R, S', r', H⟩ := presolved_run hin hpe hk hc hnew hr
  obtain ⟨hG, hI⟩ := presolved_hyps { st with presolveEnable := false } hf0 hf1 hmv
  obtain ⟨c, κ, hc0, hκ, t1, t2, t3, c2, s3⟩ := full_almost_primal_infeasible_chain hG hI
    (fun _ _ h => h.1.pos.2)
    (fun _ _ _ hK h => ⟨Interior.mem_primal hK h.1 h.2, Interior.mem_dual hK h.1⟩)
    ⟨H.input, Or.inl rfl, hlo, hhi⟩ htabs hgate H.new' H.solve' (by rw [H.status]; exact hst)
  obtain ⟨u1, u2, u3, u4⟩ := presolved_primal_cert hin H c κ st.info.reduced.infeas_abs
    st.info.reduced.infeas_rel ⟨t1, t2, t3⟩
  exact ⟨c, κ, hc0, hκ, u1, u2, u3, u4, (presolved_cone_lift hin hk H).2 s3 c2⟩

/-- the dual-infeasibility numbers: reduced ↦ full, kept rows (arithmetic core shared by
`DualInfeasible` / `AlmostDualInfeasible`) -/
theorem presolved_dual_cert {P : Csc ℝ} {q : Array ℝ} {A : Csc ℝ} {b : Array ℝ}
    {cones : List (ConeT ℝ)} {st : Settings ℝ} {perm : Array Nat} {r : SolveResult ℝ}
    {keep : List Bool} {R : Csc ℝ} {S' : Solver ℝ} {r' : SolveResult ℝ}
    (hin : InputOK P q A b cones)
    (H : PresolvedRun P q A b cones st perm r keep R S' r') (Pn : Csc ℝ) (c κ tabs trel : ℝ)
    (T : let x := vecFn r'.S.solution.x R.n
      let sv := vecFn r'.S.solution.s R.m
      c * κ * dot (vecFn q R.n) x < -tabs
      ∧ dot (vecFn q R.n) x < 0
      ∧ nrm (mulV (symFn Pn R.n) x) < trel * (-(dot (vecFn q R.n) x)) * max 1 (κ * nrm x)
      ∧ nrm (fun k => mulV (matFn R R.m R.n) x k + sv k)
          < trel * c * (-(dot (vecFn q R.n) x)) * max 1 (κ * (nrm x + nrm sv))) :
    let x := vecFn r.S.solution.x A.n
    let sv := vecFn r.S.solution.s A.m
    let kp := keepFn keep A.m
    c * κ * dot (vecFn q A.n) x < -tabs
    ∧ dot (vecFn q A.n) x < 0
    ∧ nrm (mulV (symFn Pn A.n) x) < trel * (-(dot (vecFn q A.n) x)) * max 1 (κ * nrm x)
    ∧ nrmKept kp (fun k => mulV (matFn A A.m A.n) x k + sv k)
        < trel * c * (-(dot (vecFn q A.n) x)) * max 1 (κ * (nrm x + nrmKept kp sv))
    ∧ (∀ i, kp i = false → sv i = st.infbound) := by
  obtain ⟨t1, t2, t3, t4⟩ := T
  rw [H.x, H.Rn] at t1 t2 t3 t4
  obtain ⟨-, -, -, e4, -, e6, e7⟩ := presolved_numbers (n := A.n) (m := A.m) (mr := R.m) keep H.len
    H.Rm.symm A R (ProblemData.capB b st.infbound) hin.A_canon.canon rfl rfl
    (by unfold ProblemData.capB; rw [Array.size_map]; exact hin.b) H.sel st.infbound
    r.S.solution.s r.S.solution.z r'.S.solution.s r'.S.solution.z H.facts (vecFn r.S.solution.x A.n)
  dsimp only at e4 e6 e7 ⊢
  refine ⟨t1, t2, t3, ?_, fun i hi => (e7 i hi).1⟩
  rw [e6, e4]; exact t4

/-- **`C02.full_dual_infeasible_certifies_presolved`** (lemma form) -/
theorem full_dual_infeasible_presolved_chain {P : Csc ℝ} {q : Array ℝ} {A : Csc ℝ} {b : Array ℝ}
    {cones : List (ConeT ℝ)} {st : Settings ℝ} {perm : Array Nat} {S : Solver ℝ} {r : SolveResult ℝ}
    {keep : List Bool}
    (hin : InputOK P q A b cones) (hpe : st.presolveEnable = true)
    (hk : Presolve.keepFlags (Presolve.threshold st.infbound) (Cones.newCollapsed cones) b.toList = .ok keep)
    (hc : keep.count true < b.size) (hib : 0 ≤ st.infbound)
    (hlo : 0 < st.equil.minScaling) (hhi : 0 < st.equil.maxScaling)
    (hf0 : 0 < st.maxStepFraction) (hf1 : st.maxStepFraction < 1) (hmv : 0 < st.maxValue)
    (htabs : 0 ≤ st.info.full.infeas_abs)
    (hnew : Solver.new P q A b cones st perm = .ok S) (hr : S.solve st = .ok r)
    (hst : r.S.solution.status = .dualInfeasible) :
    ∃ (Pn : Csc ℝ) (c κ : ℝ), ProblemData.triuStep P = .ok Pn ∧ 0 < c ∧ 0 < κ ∧
      let x := vecFn r.S.solution.x A.n
      let sv := vecFn r.S.solution.s A.m
      let kp := keepFn keep A.m
      c * κ * dot (vecFn q A.n) x < -st.info.full.infeas_abs
      ∧ dot (vecFn q A.n) x < 0
      ∧ nrm (mulV (symFn Pn A.n) x)
          < st.info.full.infeas_rel * (-(dot (vecFn q A.n) x)) * max 1 (κ * nrm x)
      ∧ nrmKept kp (fun k => mulV (matFn A A.m A.n) x k + sv k)
          < st.info.full.infeas_rel * c * (-(dot (vecFn q A.n) x)) * max 1 (κ * (nrm x + nrmKept kp sv))
      ∧ (∀ i, kp i = false → sv i = st.infbound)
      ∧ Equil.CompositeMem Equil.ConeMem (Cones.newCollapsed cones) r.S.solution.s.toList
      ∧ r.S.solution.x.size = A.n := by
  obtain ⟨R, S', r', H⟩ := presolved_run hin hpe hk hc hnew hr
  obtain ⟨hG, hI⟩ := presolved_hyps { st with presolveEnable := false } hf0 hf1 hmv
  obtain ⟨Pn, c, κ, hPn, hc0, hκ, t1, t2, t3, t4, c1, s1, s2⟩ := full_dual_infeasible_chain hG hI
    (fun _ _ h => h.1.pos.2)
    (fun _ _ _ hK h => ⟨Interior.mem_primal hK h.1 h.2, Interior.mem_dual hK h.1⟩)
    ⟨H.input, Or.inl rfl, hlo, hhi⟩ htabs H.new' H.solve' (by rw [H.status]; exact hst)
  obtain ⟨u1, u2, u3, u4, u5⟩ := presolved_dual_cert hin H Pn c κ st.info.full.infeas_abs
    st.info.full.infeas_rel ⟨t1, t2, t3, t4⟩
  exact ⟨Pn, c, κ, hPn, hc0, hκ, u1, u2, u3, u4, u5, (presolved_cone_lift hin hk H).1 hib s2 c1,
    by rw [← H.x, s1, H.Rn]⟩

/-- **`C02.full_almost_dual_infeasible_certifies_presolved`** (lemma form) -/
theorem full_almost_dual_infeasible_presolved_chain {P : Csc ℝ} {q : Array ℝ} {A : Csc ℝ}
    {b : Array ℝ} {cones : List (ConeT ℝ)} {st : Settings ℝ} {perm : Array Nat} {S : Solver ℝ}
    {r : SolveResult ℝ} {keep : List Bool}
    (hin : InputOK P q A b cones) (hpe : st.presolveEnable = true)
    (hk : Presolve.keepFlags (Presolve.threshold st.infbound) (Cones.newCollapsed cones) b.toList = .ok keep)
    (hc : keep.count true < b.size) (hib : 0 ≤ st.infbound)
    (hlo : 0 < st.equil.minScaling) (hhi : 0 < st.equil.maxScaling)
    (hf0 : 0 < st.maxStepFraction) (hf1 : st.maxStepFraction < 1) (hmv : 0 < st.maxValue)
    (htabs : 0 ≤ st.info.reduced.infeas_abs)
    (hgate : 1 ≤ (1 / st.info.reduced.ktratio) * 1000)
    (hnew : Solver.new P q A b cones st perm = .ok S) (hr : S.solve st = .ok r)
    (hst : r.S.solution.status = .almostDualInfeasible) :
    ∃ (Pn : Csc ℝ) (c κ : ℝ), ProblemData.triuStep P = .ok Pn ∧ 0 < c ∧ 0 < κ ∧
      let x := vecFn r.S.solution.x A.n
      let sv := vecFn r.S.solution.s A.m
      let kp := keepFn keep A.m
      c * κ * dot (vecFn q A.n) x < -st.info.reduced.infeas_abs
      ∧ dot (vecFn q A.n) x < 0
      ∧ nrm (mulV (symFn Pn A.n) x)
          < st.info.reduced.infeas_rel * (-(dot (vecFn q A.n) x)) * max 1 (κ * nrm x)
      ∧ nrmKept kp (fun k => mulV (matFn A A.m A.n) x k + sv k)
          < st.info.reduced.infeas_rel * c * (-(dot (vecFn q A.n) x)) * max 1 (κ * (nrm x + nrmKept kp sv))
      ∧ (∀ i, kp i = false → sv i = st.infbound)
      ∧ Equil.CompositeMem Equil.ConeMem (Cones.newCollapsed cones) r.S.solution.s.toList
      ∧ r.S.solution.x.size = A.n := by
  obtain ⟨R, S', r', H⟩ := presolved_run hin hpe hk hc hnew hr
  obtain ⟨hG, hI⟩ := presolved_hyps { st with presolveEnable := false } hf0 hf1 hmv
  obtain ⟨Pn, c, κ, hPn, hc0, hκ, t1, t2, t3, t4, c1, s1, s2⟩ := full_almost_dual_infeasible_chain hG hI
    (fun _ _ h => h.1.pos.2)
    (fun _ _ _ hK h => ⟨Interior.mem_primal hK h.1 h.2, Interior.mem_dual hK h.1⟩)
    ⟨H.input, Or.inl rfl, hlo, hhi⟩ htabs hgate H.new' H.solve' (by rw [H.status]; exact hst)
  obtain ⟨u1, u2, u3, u4, u5⟩ := presolved_dual_cert hin H Pn c κ st.info.reduced.infeas_abs
    st.info.reduced.infeas_rel ⟨t1, t2, t3, t4⟩
  exact ⟨Pn, c, κ, hPn, hc0, hκ, u1, u2, u3, u4, u5, (presolved_cone_lift hin hk H).1 hib s2 c1,
    by rw [← H.x, s1, H.Rn]⟩

/-- non-vacuity of the presolve hypotheses over `ℝ`: cones `[nonneg 2]`, `b = (1, 2·10²⁰)`, bound
`10²⁰` — `make_reduction_map` drops row 1 -/
theorem keepFlags_example : Presolve.keepFlags (Presolve.threshold (1e20 : ℝ))
    (Cones.newCollapsed [ConeT.nonneg 2]) (#[1, 2e20] : Array ℝ).toList = .ok [true, false] := by
  have hthr : Presolve.threshold (1e20 : ℝ) = (1 - 2⁻¹ ^ 52 * 10) * 1e20 := by
    unfold Presolve.threshold
    rw [Info.cx_eps]
    norm_num [FloatLike.ofNat]
  have hc : Cones.newCollapsed [ConeT.nonneg (α := ℝ) 2] = [ConeT.nonneg 2] := by
    rfl
  rw [hc, hthr]
  simp [Presolve.keepFlags, bind, Except.bind, pure, Except.pure]
  constructor <;> norm_num

end Clarabel.Solver
