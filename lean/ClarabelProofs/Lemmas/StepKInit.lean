/-
  C07, round 3: the iterate before the first pass is interior.

  * symmetric problems (`symmetric_initialization` = `_shift_to_cone_interior` on `s` and `z`,
    `τ = κ = 1`): from C15's `shift_to_cone_interior_margin` (every block margin ≥ 1);
  * problems with a nonsymmetric cone (`unit_initialization`): every cone's unit point, from
    C14's `exp_unit_initialization_central` / `pow_central_point`.
-/
import ClarabelProofs.Lemmas.StepKInterior
import ClarabelProofs.Lemmas.VecKernels

namespace Clarabel.StepK
open Clarabel Composite

/-! ## symmetric initialisation -/

/-- the block of cone `sp` with slices `z`, `s` (no direction yet) -/
def blkOf : Spec → Array ℝ → Array ℝ → Blk ℝ
  | .zero _, z, s => .zero z s #[] #[]
  | .nonneg _, z, s => .nn z s #[] #[]
  | .soc _, z, s => .soc z s #[] #[]
  | .psd n, z, s => .psd ⟨n, #[], #[], #[], #[], #[]⟩ none none z s #[] #[]

/-- the blocks of the flat `(z, s)` cut into the cones' ranges -/
def blksOf : List (Spec × Array ℝ) → List (Spec × Array ℝ) → List (Blk ℝ)
  | (sp, z) :: tz, (_, s) :: ts => blkOf sp z s :: blksOf tz ts
  | _, _ => []

theorem toList_cons_of_size_pos (x : Array ℝ) (h : 1 ≤ x.size) : ∃ x0 x1, x.toList = x0 :: x1 := by
  cases hx : x.toList with
  | nil =>
    have : x.toList.length = 0 := by rw [hx]; rfl
    rw [Array.length_toList] at this; omega
  | cons x0 x1 => exact ⟨x0, x1, rfl⟩

theorem nn_pos_of_blkGe (n : Nat) (z : Array ℝ) (h : BlkGe 1 (.nonneg n, z)) :
    ∀ v ∈ z.toList, 0 < v := by
  by_cases hz : z.size = 0
  · intro v hv
    have : z.toList = [] := by
      apply List.eq_nil_of_length_eq_zero; rw [Array.length_toList]; exact hz
    rw [this] at hv; cases hv
  · obtain ⟨r, hr, _, hle⟩ := Vec.minimum?_spec z hz
    have h1 : (1 : ℝ) ≤ r := h r _ (by simp only [margins1, Nonneg.margins, pure, Except.pure, hr]; rfl)
    intro v hv
    linarith [hle v hv]

theorem soc_interior_of_blkGe (n : Nat) (z : Array ℝ) (z0 : ℝ) (z1 : List ℝ) (hz : z.toList = z0 :: z1)
    (h : BlkGe 1 (.soc n, z)) : Soc.Interior z0 z1 := by
  have h1 : (1 : ℝ) ≤ z0 - Soc.normL z1 := h (z0 - Soc.normL z1) _ (by
    simp only [margins1, Soc.margins, Soc.split, hz, bind, Except.bind, pure, Except.pure]; rfl)
  have hn := Soc.normL_nonneg z1
  have hsq := Soc.normL_sq z1
  refine ⟨by linarith, ?_⟩
  rw [← hsq]
  nlinarith

theorem blkOf_interior (sp : Spec) (z s : Array ℝ) (hs : SymSpec sp) (hz : z.size = sp.numel)
    (hss : s.size = sp.numel) (gz : BlkGe 1 (sp, z)) (gs : BlkGe 1 (sp, s)) :
    (blkOf sp z s).Interior := by
  cases sp with
  | zero n => trivial
  | nonneg n => exact ⟨by rw [hz, hss], nn_pos_of_blkGe n z gz, nn_pos_of_blkGe n s gs⟩
  | soc n =>
    have hn : 1 ≤ n := hs
    obtain ⟨z0, z1, ez⟩ := toList_cons_of_size_pos z (by rw [hz]; exact hn)
    obtain ⟨s0, s1, es⟩ := toList_cons_of_size_pos s (by rw [hss]; exact hn)
    exact ⟨z0, z1, s0, s1, ez, es, soc_interior_of_blkGe n z z0 z1 ez gz,
      soc_interior_of_blkGe n s s0 s1 es gs⟩
  | psd n => exact absurd hs (by simp [SymSpec])

theorem blksOf_interior (specs : List Spec) :
    ∀ (lz ls : List ℝ) (pz ps : List (Spec × Array ℝ)), cutL specs lz = .ok pz →
      cutL specs ls = .ok ps → (∀ sp ∈ specs, SymSpec sp) → (∀ p ∈ pz, BlkGe 1 p) →
      (∀ p ∈ ps, BlkGe 1 p) → ∀ b ∈ blksOf pz ps, b.Interior := by
  induction specs with
  | nil =>
    intro lz ls pz ps h1 h2 _ _ _ b hb
    rw [cutL] at h1; cases h1
    simp [blksOf] at hb
  | cons sp rest ih =>
    intro lz ls pz ps h1 h2 hs gz gs b hb
    obtain ⟨l1, tz, htz, rfl⟩ := cutL_cons_ok sp rest lz pz h1
    obtain ⟨l2, ts, hts, rfl⟩ := cutL_cons_ok sp rest ls ps h2
    simp only [blksOf, List.mem_cons] at hb
    rcases hb with rfl | hb
    · exact blkOf_interior sp _ _ (hs sp List.mem_cons_self) (by simp [l1]) (by simp [l2])
        (gz _ List.mem_cons_self) (gs _ List.mem_cons_self)
    · exact ih _ _ tz ts htz hts (fun q hq => hs q (List.mem_cons_of_mem _ hq))
        (fun q hq => gz q (List.mem_cons_of_mem _ hq)) (fun q hq => gs q (List.mem_cons_of_mem _ hq)) b hb

/-- [R] `symmetric_initialization` on a composite of arbitrarily many zero / nonnegative /
second-order cones, for **any** `(x, s, z)` the initial KKT solve produced: both shifts succeed,
the shifted vectors cut into the cones' ranges, and the iterate made of those blocks with
`τ = κ = 1` is interior. -/
theorem symmetric_init_interior (specs : List Spec) (x z s : Array ℝ)
    (hs : ∀ sp ∈ specs, SymSpec sp) (hz : totalNumel specs ≤ z.size) (hss : totalNumel specs ≤ s.size) :
    ∃ z' s' pz ps, shiftToConeInterior specs s true = .ok s' ∧
      shiftToConeInterior specs z false = .ok z' ∧ cut specs z' = .ok pz ∧ cut specs s' = .ok ps ∧
      (⟨x, #[], blksOf pz ps, 1, 1, 0, 0⟩ : Pt ℝ).Interior := by
  obtain ⟨s', e1, ps, c1, g1⟩ := C15.shift_to_cone_interior_margin specs s true hs hss
  obtain ⟨z', e2, pz, c2, g2⟩ := C15.shift_to_cone_interior_margin specs z false hs hz
  exact ⟨z', s', pz, ps, e1, e2, c2, c1, one_pos, one_pos,
    blksOf_interior specs _ _ pz ps c2 c1 hs g2 g1⟩

/-! ## unit initialisation -/

/-- `cone.unit_initialization(z, s)` of one block -/
noncomputable def Blk.unitInit : Blk ℝ → MErr (Blk ℝ)
  | .zero z s dz ds =>
    pure (.zero (Zero.unitInitialization z s).1 (Zero.unitInitialization z s).2 dz ds)
  | .nn z s dz ds =>
    pure (.nn (Nonneg.unitInitialization z s).1 (Nonneg.unitInitialization z s).2 dz ds)
  | .soc z s dz ds => do
    let r ← Soc.unitInitialization z s
    pure (.soc r.1 r.2 dz ds)
  | .exp _ _ dz ds => pure (.exp Exp.unitInitialization Exp.unitInitialization dz ds)
  | .pow a _ _ dz ds => pure (.pow a (Pow.unitInitialization a) (Pow.unitInitialization a) dz ds)
  | .genpow al z s dz ds =>
    pure (.genpow al (GenPow.unitInitialization al (z.size - al.size))
      (GenPow.unitInitialization al (s.size - al.size)) dz ds)
  | .psd K γz γs z s dz ds => do
    let r ← PsdIndex.unitInitialization K.n z s
    pure (.psd K γz γs r.1 r.2 dz ds)

/-- shapes for which `unit_initialization` is covered: NN slices of equal length, non-empty SOC
slices, power cone with `0 < a < 1`; zero and exponential cones always -/
def Blk.UnitShape : Blk ℝ → Prop
  | .zero .. => True
  | .nn z s _ _ => z.size = s.size
  | .soc z s _ _ => 1 ≤ z.size ∧ 1 ≤ s.size
  | .exp .. => True
  | .pow a .. => 0 < a ∧ a < 1
  | .genpow .. => False
  | .psd .. => False

theorem dotL_zeros (t : List ℝ) :
    Soc.dotL (t.map (fun _ => (0 : ℝ))) (t.map (fun _ => (0 : ℝ))) = 0 := by
  induction t with
  | nil => simp
  | cons b u ih =>
    rw [List.map_cons, Soc.dotL_cons, ih]; ring

theorem soc_unit_interior (z : Array ℝ) (h : 1 ≤ z.size) :
    ∃ z', Soc.scaledUnitShift (z.map (fun _ => (0 : ℝ))) 1 = .ok z' ∧
      ∃ z0 z1, z'.toList = z0 :: z1 ∧ Soc.Interior z0 z1 := by
  obtain ⟨a, t, ht⟩ := toList_cons_of_size_pos z h
  have hm : (z.map (fun _ => (0 : ℝ))).toList = 0 :: t.map (fun _ => (0 : ℝ)) := by
    rw [Array.toList_map, ht]; rfl
  refine ⟨Soc.join (0 + 1) (t.map (fun _ => (0 : ℝ))), ?_, 0 + 1, _, rfl, ?_⟩
  · simp only [Soc.scaledUnitShift, Soc.split, hm, bind, Except.bind, pure, Except.pure]
  · refine ⟨by norm_num, ?_⟩
    rw [dotL_zeros]; norm_num

/-- [R] `unit_initialization` gives an interior block for every covered cone kind -/
theorem Blk.unitInit_interior (b : Blk ℝ) (h : b.UnitShape) :
    ∃ b', b.unitInit = .ok b' ∧ b'.Interior := by
  cases b with
  | zero z s dz ds => exact ⟨_, rfl, trivial⟩
  | nn z s dz ds =>
    refine ⟨_, rfl, ?_, ?_, ?_⟩
    · have hh : z.size = s.size := h
      simp [Nonneg.unitInitialization, hh]
    · intro v hv
      simp only [Nonneg.unitInitialization, Array.toList_map, List.mem_map] at hv
      obtain ⟨_, _, rfl⟩ := hv; exact one_pos
    · intro v hv
      simp only [Nonneg.unitInitialization, Array.toList_map, List.mem_map] at hv
      obtain ⟨_, _, rfl⟩ := hv; exact one_pos
  | soc z s dz ds =>
    obtain ⟨h1, h2⟩ := h
    obtain ⟨z', ez, z0, z1, tz, iz⟩ := soc_unit_interior z h1
    obtain ⟨s', es, s0, s1, ts, is⟩ := soc_unit_interior s h2
    refine ⟨.soc z' s' dz ds, ?_, z0, z1, s0, s1, tz, ts, iz, is⟩
    simp only [Blk.unitInit, Soc.unitInitialization, ez, es, bind, Except.bind, pure, Except.pure]
  | exp z s dz ds =>
    exact ⟨_, rfl, C14.exp_unit_initialization_central.1, C14.exp_unit_initialization_central.2.1⟩
  | pow a z s dz ds =>
    obtain ⟨h0, h1⟩ := h
    obtain ⟨_, _, k3, k4⟩ := C14.pow_central_point h0 h1
    exact ⟨_, rfl, h0, h1, k3, k4⟩
  | genpow al z s dz ds => exact absurd h id
  | psd K γz γs z s dz ds => exact absurd h id

/-- `DefaultVariables::unit_initialization`: every cone's unit point, `x = 0`, `τ = κ = 1` -/
noncomputable def unitInitialization (p : Pt ℝ) : MErr (Pt ℝ) := do
  let blks ← p.blks.mapM Blk.unitInit
  pure { p with x := p.x.map (fun _ => 0), blks := blks, τ := 1, κ := 1 }

theorem mapM_unitInit (blks : List (Blk ℝ)) (h : ∀ b ∈ blks, b.UnitShape) :
    ∃ blks', blks.mapM Blk.unitInit = .ok blks' ∧ ∀ b ∈ blks', b.Interior := by
  induction blks with
  | nil => exact ⟨[], rfl, fun b hb => by cases hb⟩
  | cons b t ih =>
    obtain ⟨b', e1, i1⟩ := Blk.unitInit_interior b (h b List.mem_cons_self)
    obtain ⟨t', e2, i2⟩ := ih (fun c hc => h c (List.mem_cons_of_mem _ hc))
    refine ⟨b' :: t', ?_, ?_⟩
    · simp only [List.mapM_cons, e1, e2, bind, Except.bind, pure, Except.pure]
    · intro c hc
      rcases List.mem_cons.mp hc with rfl | hc
      · exact i1
      · exact i2 c hc

/-- [R] after `unit_initialization` the iterate is interior with `τ = κ = 1` (zero, nonnegative,
second-order, exponential and power cones in any combination) -/
theorem unit_init_interior (p : Pt ℝ) (h : ∀ b ∈ p.blks, b.UnitShape) :
    ∃ p', unitInitialization p = .ok p' ∧ p'.Interior ∧ p'.τ = 1 ∧ p'.κ = 1 := by
  obtain ⟨blks', e, i⟩ := mapM_unitInit p.blks h
  refine ⟨{ p with x := p.x.map (fun _ => 0), blks := blks', τ := 1, κ := 1 }, ?_, ⟨one_pos, one_pos, i⟩,
    rfl, rfl⟩
  simp only [unitInitialization, e, bind, Except.bind, pure, Except.pure]

end Clarabel.StepK
