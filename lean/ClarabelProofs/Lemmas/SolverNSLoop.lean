/-
  The loop of the whole-solver model WITH NONSYMMETRIC CONES (`ClarabelModel/SolverNS/Solve.lean`),
  directly: what one pass does to the loop counters and to the scaling strategy, the measure
  `(max_iter − iter) + [scaling = PrimalDual]` that every continuing pass decreases, the pass
  budget `max_iter + 3` is never exhausted (`runLoopO`), the trajectory of a run extends the
  trajectory it started from.  All structural ([S]): no arithmetic law of the scalar type is used.
-/
import ClarabelModel.SolverNS.Solve
import ClarabelProofs.Lemmas.SolverModelRun
import ClarabelProofs.Lemmas.SolverModelRefine

namespace Clarabel.SolverNS
open Clarabel Info
open Clarabel.Solver (bind_ok_inv update_frame checkTermination_unsolved_maxiter checkTermination_frame
  status_bne)

set_option linter.unusedSectionVars false
set_option linter.unusedVariables false
set_option linter.unusedSimpArgs false

variable {α : Type}

section
variable [Add α] [Sub α] [Mul α] [Div α] [Neg α] [LT α] [LE α] [DecidableLT α] [DecidableLE α]
  [BEq α] [OfNat α 0] [OfNat α 1] [OfNat α 2] [OfNat α 3] [OfNat α 4] [OfNat α 100] [OfNat α 1000]
  [OfScientific α] [FloatLike α]

/-- the top of a pass leaves `prev_*`, `status` alone and sets `iterations := iter` -/
theorem topNumerics_frame {S : SolverSt α} {iter : Nat} {r : Residuals.Resid α} {mu : α} {i' : InfoS α}
    (h : topNumerics S iter = .ok (r, mu, i')) :
    i'.iterations = iter ∧ i'.status = S.info.status := by
  unfold topNumerics at h
  dsimp only at h
  obtain ⟨_, _, h⟩ := bind_ok_inv h
  obtain ⟨_, _, h⟩ := bind_ok_inv h
  obtain ⟨_, _, h⟩ := bind_ok_inv h
  obtain ⟨_, hu, h⟩ := bind_ok_inv h
  cases h
  obtain ⟨_, _, _, _, _, _, h7, h8⟩ := update_frame hu
  exact ⟨h7, h8⟩

/-- a checkpoint can only answer `Update(Dual)` under the `PrimalDual` strategy -/
theorem canSwitch_pd {cones : List (ConeSt α)} {sc : Loop.Scaling} (h : canSwitch cones sc = true) :
    sc = .PrimalDual := by
  cases sc
  · rfl
  · simp [canSwitch, isDual] at h

/-- `1` if the strategy is still `PrimalDual` (one switch to `Dual` is still possible) -/
def pdBit : Loop.Scaling → Nat
  | .PrimalDual => 1
  | .Dual => 0

/-- the KKT stage does not touch `info` -/
theorem kktNumerics_info {st : Settings α} {S : SolverSt α} {cones : List (ConeSt α)} {mu : α}
    {iter : Nat} {sc : Loop.Scaling} {k : KktOut α} (h : kktNumerics st S cones mu iter sc = .ok k) :
    k.S.info = S.info := by
  unfold kktNumerics at h
  dsimp only at h
  repeat (first | (obtain ⟨_, _, h⟩ := bind_ok_inv h) | (split at h) | (dsimp only at h))
  all_goals (cases h; rfl)

/-- what one pass does: one more trajectory record; either the iteration counter stays — then a
pass that continues has switched the strategy `PrimalDual → Dual` at the insufficient-progress
checkpoint — or it goes up by one, and then `check_termination` has let the pass through, so the
counter was not at the budget; the strategy stays or becomes `Dual`; `info.iterations` is the
counter at the top of the pass; a pass that leaves the loop leaves a terminal status. -/
structure PassSpec (st : Settings α) (L : LoopSt α) (c : Bool) (L' : LoopSt α) : Prop where
  traj : ∃ r, L'.traj = L.traj ++ [r]
  counters : (L'.iter = L.iter ∧ (c = true → L.scaling = .PrimalDual ∧ L'.scaling = .Dual))
       ∨ (L'.iter = L.iter + 1 ∧ st.info.max_iter ≠ L.iter)
  scaling : L'.scaling = L.scaling ∨ L'.scaling = .Dual
  iterations : L'.S.info.iterations = L.iter
  terminal : c = false → L'.S.info.status ≠ .unsolved

theorem pass_spec {st : Settings α} {L L' : LoopSt α} {c : Bool} (hp : pass st L = .ok (c, L')) :
    PassSpec st L c L' := by
  unfold pass at hp
  obtain ⟨⟨residuals, mu, info1⟩, htop, hp⟩ := bind_ok_inv hp
  try dsimp only at hp
  obtain ⟨hit, _⟩ := topNumerics_frame htop
  have hfr := checkTermination_frame info1 residuals.dot_bz residuals.dot_qx st.info L.iter false
  have hiter : (Info.checkTermination info1 residuals.dot_bz residuals.dot_qx st.info L.iter false).1.iterations
      = L.iter := by
    rw [hfr.1]; exact hit
  -- `isdone` is `status ≠ Unsolved`
  have hdn : (Info.checkTermination info1 residuals.dot_bz residuals.dot_qx st.info L.iter false).2 = true →
      (Info.checkTermination info1 residuals.dot_bz residuals.dot_qx st.info L.iter false).1.status ≠ .unsolved := by
    intro hd
    rw [hfr.2] at hd
    exact (status_bne _ _).mp hd
  -- a pass that is not done was not at the iteration budget
  have hmx : (Info.checkTermination info1 residuals.dot_bz residuals.dot_qx st.info L.iter false).2 = false →
      st.info.max_iter ≠ L.iter := by
    intro hd
    have hun : (Info.checkTermination info1 residuals.dot_bz residuals.dot_qx st.info L.iter false).1.status
        = .unsolved := by
      rw [hfr.2] at hd
      exact Decidable.byContradiction fun h => by rw [(status_bne _ _).mpr h] at hd; cases hd
    have := checkTermination_unsolved_maxiter hun
    rwa [hit] at this
  split at hp
  · -- isdone
    rename_i hdone
    have hst := hdn hdone
    split at hp
    · cases hp
      exact ⟨⟨_, rfl⟩, Or.inl ⟨rfl, fun h => by cases h⟩, Or.inl rfl, hiter, fun _ => hst⟩
    · rename_i hip
      have hip' : (Info.checkTermination info1 residuals.dot_bz residuals.dot_qx st.info L.iter false).1.status
          = .insufficientProgress :=
        Decidable.byContradiction fun h => hip ((status_bne _ _).mpr h)
      obtain ⟨variables, _, hp⟩ := bind_ok_inv hp
      try dsimp only at hp
      split at hp
      · rename_i hsw
        cases hp
        exact ⟨⟨_, rfl⟩, Or.inl ⟨rfl, fun _ => ⟨canSwitch_pd hsw, rfl⟩⟩, Or.inr rfl, hiter,
          fun h => by cases h⟩
      · cases hp
        refine ⟨⟨_, rfl⟩, Or.inl ⟨rfl, fun h => by cases h⟩, Or.inl rfl, hiter, fun _ => ?_⟩
        show (Info.checkTermination info1 residuals.dot_bz residuals.dot_qx st.info L.iter false).1.status ≠ .unsolved
        rw [hip']; decide
  · rename_i hdone
    have hdone' : (Info.checkTermination info1 residuals.dot_bz residuals.dot_qx st.info L.iter false).2 = false := by
      simpa using hdone
    have hne := hmx hdone'
    obtain ⟨sc, _, hp⟩ := bind_ok_inv hp
    try dsimp only at hp
    split at hp
    · cases hp
      exact ⟨⟨_, rfl⟩, Or.inl ⟨rfl, fun h => by cases h⟩, Or.inl rfl, hiter, fun _ => by
        show SolverStatus.numericalError ≠ .unsolved
        decide⟩
    · obtain ⟨k, hk, hp⟩ := bind_ok_inv hp
      have hki := kktNumerics_info hk
      have hkit : k.S.info.iterations = L.iter := by rw [hki]; exact hiter
      try dsimp only at hp
      split at hp
      · split at hp
        · cases hp
          exact ⟨⟨_, rfl⟩, Or.inr ⟨rfl, hne⟩, Or.inr rfl, hkit, fun h => by cases h⟩
        · cases hp
          exact ⟨⟨_, rfl⟩, Or.inr ⟨rfl, hne⟩, Or.inl rfl, hkit, fun _ => by
            show SolverStatus.numericalError ≠ .unsolved
            decide⟩
      · obtain ⟨⟨a, nbt⟩, _, hp⟩ := bind_ok_inv hp
        try dsimp only at hp
        split at hp
        · cases hp
          exact ⟨⟨_, rfl⟩, Or.inr ⟨rfl, hne⟩, Or.inr rfl, hkit, fun h => by cases h⟩
        · split at hp
          · cases hp
            exact ⟨⟨_, rfl⟩, Or.inr ⟨rfl, hne⟩, Or.inl rfl, hkit, fun _ => by
              show SolverStatus.insufficientProgress ≠ .unsolved
              decide⟩
          · obtain ⟨pv, _, hp⟩ := bind_ok_inv hp
            cases hp
            exact ⟨⟨_, rfl⟩, Or.inr ⟨rfl, hne⟩, Or.inl rfl, hkit, fun h => by cases h⟩

/-- the measure every continuing pass decreases -/
def measure (st : Settings α) (L : LoopSt α) : Nat := (st.info.max_iter - L.iter) + pdBit L.scaling

theorem pdBit_le (s : Loop.Scaling) : pdBit s ≤ 1 := by cases s <;> decide

/-- a pass keeps `iter ≤ max_iter`; a pass that continues decreases the measure -/
theorem pass_measure {st : Settings α} {L L' : LoopSt α} {c : Bool} (hI : L.iter ≤ st.info.max_iter)
    (hp : pass st L = .ok (c, L')) :
    L'.iter ≤ st.info.max_iter ∧ L'.traj.length = L.traj.length + 1
      ∧ (c = true → measure st L' < measure st L) := by
  obtain ⟨⟨r, hr⟩, hcase, hsc, _, _⟩ := pass_spec hp
  have hlen : L'.traj.length = L.traj.length + 1 := by rw [hr, List.length_append]; rfl
  rcases hcase with ⟨hi, hsw⟩ | ⟨hi, hne⟩
  · refine ⟨by omega, hlen, fun hc => ?_⟩
    obtain ⟨h1, h2⟩ := hsw hc
    unfold measure
    rw [hi, h1, h2]
    show st.info.max_iter - L.iter + 0 < st.info.max_iter - L.iter + 1
    omega
  · have hlt : L.iter < st.info.max_iter := by omega
    refine ⟨by omega, hlen, fun _ => ?_⟩
    unfold measure
    rw [hi]
    have hb : pdBit L'.scaling ≤ pdBit L.scaling := by
      rcases hsc with h | h
      · rw [h]; exact Nat.le_refl _
      · rw [h]; exact Nat.zero_le _
    omega

/-- `runLoop` with "pass budget exhausted" observable as `none` -/
def runLoopO (st : Settings α) : Nat → LoopSt α → MErr (Option (LoopSt α))
  | 0, _ => pure none
  | fuel + 1, L => do
    let r ← pass st L
    if r.1 then runLoopO st fuel r.2 else pure (some r.2)

def liftO : Option (LoopSt α) → MErr (LoopSt α)
  | some L => pure L
  | none => throw (.panic "model: pass budget exhausted")

theorem runLoop_eq_runLoopO (st : Settings α) : ∀ (fuel : Nat) (L : LoopSt α),
    runLoop st fuel L = runLoopO st fuel L >>= liftO
  | 0, _ => rfl
  | fuel + 1, L => by
    unfold runLoop runLoopO
    cases hp : pass st L with
    | error e => rfl
    | ok r =>
      show (if r.1 = true then runLoop st fuel r.2 else pure r.2)
        = (if r.1 = true then runLoopO st fuel r.2 else pure (some r.2)) >>= liftO
      by_cases h : r.1 = true
      · rw [if_pos h, if_pos h]; exact runLoop_eq_runLoopO st fuel r.2
      · rw [if_neg h, if_neg h]; rfl

/-- with more fuel than the measure the budget is never exhausted; the final state has
`iter ≤ max_iter`, extends the trajectory by at least one and at most `measure + 1` records,
carries a terminal status and an `info.iterations` that is at most the iteration counter -/
theorem runLoopO_spec (st : Settings α) : ∀ (fuel : Nat) (L : LoopSt α), L.iter ≤ st.info.max_iter →
    measure st L < fuel → ∀ o, runLoopO st fuel L = .ok o →
    ∃ Lf, o = some Lf ∧ Lf.iter ≤ st.info.max_iter
      ∧ L.traj.length + 1 ≤ Lf.traj.length ∧ Lf.traj.length ≤ L.traj.length + measure st L + 1
      ∧ L.traj <+: Lf.traj
      ∧ Lf.S.info.iterations ≤ Lf.iter ∧ Lf.S.info.status ≠ .unsolved
  | 0, _, _, hm, _, _ => by omega
  | fuel + 1, L, hI, hm, o, h => by
    unfold runLoopO at h
    obtain ⟨r, hp, h⟩ := bind_ok_inv h
    obtain ⟨hI', hlen, hdec⟩ := pass_measure (c := r.1) (L' := r.2) hI (by rw [hp])
    obtain ⟨⟨rec, hrec⟩, hcnt, _, hits, hterm⟩ := pass_spec (c := r.1) (L' := r.2) (by rw [hp])
    have hpre : L.traj <+: r.2.traj := ⟨[rec], hrec.symm⟩
    by_cases hc : r.1 = true
    · rw [if_pos hc] at h
      have hd := hdec hc
      obtain ⟨Lf, ho, h1, h2, h3, h4, h5⟩ := runLoopO_spec st fuel r.2 hI' (by omega) o h
      exact ⟨Lf, ho, h1, by omega, by omega, hpre.trans h4, h5⟩
    · rw [if_neg hc] at h
      cases h
      have hge : L.iter ≤ r.2.iter := by rcases hcnt with ⟨h, _⟩ | ⟨h, _⟩ <;> omega
      exact ⟨r.2, rfl, hI', by omega, by omega, hpre, by rw [hits]; exact hge,
        hterm (by simpa using hc)⟩

/-- the loop state with which `runSolve` enters the loop -/
def initLoopSt (S : SolverSt α) : LoopSt α :=
  { S, iter := 0, sigma := 1, alpha := 0, mu := 0, scaling := initScaling S.cones, traj := [] }

/-- `info.reset` -/
def resetInfo (S : SolverSt α) : SolverSt α :=
  { S with info := { S.info with status := .unsolved, iterations := 0 } }

/-- `runSolve` with the pass budget observable -/
def SolverSt.runSolveO (S : SolverSt α) (st : Settings α) : MErr (Option (LoopSt α)) := do
  let S ← (resetInfo S).defaultStart st
  runLoopO st (st.info.max_iter + 3) (initLoopSt S)

theorem runSolve_eq_runSolveO (S : SolverSt α) (st : Settings α) :
    S.runSolve st = S.runSolveO st >>= liftO := by
  unfold SolverSt.runSolve SolverSt.runSolveO
  cases hd : (resetInfo S).defaultStart st with
  | error e =>
    show ((resetInfo S).defaultStart st >>= _) = _
    rw [hd]; rfl
  | ok S' =>
    show ((resetInfo S).defaultStart st >>= _) = _
    rw [hd]
    exact runLoop_eq_runLoopO st _ _

theorem measure_init (st : Settings α) (S : SolverSt α) : measure st (initLoopSt S) ≤ st.info.max_iter + 1 := by
  unfold measure initLoopSt
  have := pdBit_le (initScaling S.cones)
  show st.info.max_iter - 0 + pdBit (initScaling S.cones) ≤ st.info.max_iter + 1
  omega

/-- the pass budget `max_iter + 3` of `runSolve` is never exhausted -/
theorem runSolveO_spec (S : SolverSt α) (st : Settings α) : S.runSolveO st ≠ .ok none := by
  intro h
  unfold SolverSt.runSolveO at h
  obtain ⟨S', _, h⟩ := bind_ok_inv h
  have hm := measure_init st S'
  obtain ⟨Lf, ho, _⟩ := runLoopO_spec st _ (initLoopSt S') (Nat.zero_le _) (by omega) none h
  cases ho

/-- what holds of the loop state `runSolve` returns -/
theorem runSolve_exit {S : SolverSt α} {st : Settings α} {L : LoopSt α} (h : S.runSolve st = .ok L) :
    L.iter ≤ st.info.max_iter ∧ 1 ≤ L.traj.length ∧ L.traj.length ≤ st.info.max_iter + 2
      ∧ L.S.info.iterations ≤ L.iter ∧ L.S.info.status ≠ .unsolved := by
  rw [runSolve_eq_runSolveO] at h
  obtain ⟨o, ho, h⟩ := bind_ok_inv h
  unfold SolverSt.runSolveO at ho
  obtain ⟨S', _, ho⟩ := bind_ok_inv ho
  have hm := measure_init st S'
  obtain ⟨Lf, hof, h1, h2, h3, _, h5, h6⟩ :=
    runLoopO_spec st _ (initLoopSt S') (Nat.zero_le _) (by omega) o ho
  subst hof
  cases h
  have e0 : (initLoopSt S').traj.length = 0 := rfl
  rw [e0] at h2 h3
  exact ⟨h1, by omega, by omega, h5, h6⟩

/-- what `finishInfo` reports: a terminal status and an iteration count within the budget -/
theorem finishInfo_spec {st : Settings α} {L : LoopSt α} (hi : L.iter ≤ st.info.max_iter)
    (hit : L.S.info.iterations ≤ L.iter) (hs : L.S.info.status ≠ .unsolved) :
    (finishInfo st L).info.status ≠ .unsolved ∧ (finishInfo st L).info.iterations ≤ st.info.max_iter := by
  unfold finishInfo
  dsimp only
  by_cases ha : (L.alpha == 0) = true
  · rw [if_pos ha]
    dsimp only
    refine ⟨(Solver.postProcess_frame _ _ _ _).2 hs, ?_⟩
    rw [(Solver.postProcess_frame _ _ _ _).1]; exact hi
  · rw [if_neg ha]
    refine ⟨(Solver.postProcess_frame _ _ _ _).2 hs, ?_⟩
    rw [(Solver.postProcess_frame _ _ _ _).1]
    show L.S.info.iterations ≤ _
    omega

/-- what a whole `solve()` returns, in terms of the loop state its loop ended in -/
theorem solve_inv {S : Solver α} {st : Settings α} {r : SolveResult α} (h : S.solve st = .ok r) :
    ∃ L, S.st.runSolve st = .ok L ∧ r.traj = L.traj
      ∧ r.S.st.info = (finishInfo st L).info
      ∧ r.S.solution.status = (finishInfo st L).info.status
      ∧ r.S.solution.iterations = (finishInfo st L).info.iterations
      ∧ r.S.solution.x.size = S.solution.x.size ∧ r.S.solution.s.size = S.solution.s.size
      ∧ r.S.solution.z.size = S.solution.z.size := by
  unfold Solver.solve at h
  obtain ⟨L, hL, h⟩ := bind_ok_inv h
  obtain ⟨p, hp, h⟩ := bind_ok_inv h
  obtain ⟨dN, hdN, h⟩ := bind_ok_inv h
  cases h
  unfold finish at hp
  obtain ⟨u, hu, hp⟩ := bind_ok_inv hp
  cases hp
  obtain ⟨h1, h2, h3, h4, h5⟩ := Solver.unscale_postProcess_fields hu
  exact ⟨L, hL, rfl, rfl, h4, h5, h1, h2, h3⟩

/-- the anatomy of a `solve()` that returned: the loop, `finish`, and the norm caches `Info.update`
filled (`Solver.fillNorms` on the data, which nothing else in `solve()` writes) -/
theorem solve_ok_inv {S : Solver α} {st : Settings α} {r : SolveResult α} (h : S.solve st = .ok r) :
    ∃ L p d, S.st.runSolve st = .ok L ∧ finish st L S.solution = .ok p
      ∧ Solver.fillNorms p.1.data = .ok d
      ∧ r = { S := { st := { p.1 with data := d }, solution := p.2 }, traj := L.traj } := by
  unfold Solver.solve at h
  obtain ⟨L, hL, h⟩ := bind_ok_inv h
  obtain ⟨p, hp, h⟩ := bind_ok_inv h
  obtain ⟨dN, hdN, h⟩ := bind_ok_inv h
  cases h
  exact ⟨L, p, dN, hL, hp, hdN, rfl⟩

/-- `DefaultSolver::new` allocates the solution with the user's dimensions -/
theorem new_solution_sizes {P : Csc α} {q : Array α} {A : Csc α} {b : Array α} {cones : List (ConeT α)}
    {st : Settings α} {perm : Array Nat} {S : Solver α} (h : Solver.new P q A b cones st perm = .ok S) :
    S.solution = Unscale.Solution.new A.n A.m := by
  unfold Solver.new at h
  obtain ⟨_, _, h⟩ := bind_ok_inv h
  obtain ⟨_, _, h⟩ := bind_ok_inv h
  cases h
  rfl

end

end Clarabel.SolverNS
