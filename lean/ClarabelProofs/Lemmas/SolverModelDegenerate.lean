/-
  Degenerate shapes on the whole-solver model (scalar type `Int`, evaluated by the kernel):
  no constraints (`m = 0`, empty cone list), cones of dimension zero, `SecondOrderConeT(1)`
  singletons, duplicate rows, a zero column, no variables (`n = 0`).  On each of them
  `DefaultSolver::new` + `solve()` of the model returns (no `.panic`, no `.err`) with a terminal
  status; these are the non-vacuity witnesses of the full-model theorems of C04 on boundary shapes.
-/
import ClarabelProofs.Lemmas.SolverModelExample

namespace Clarabel.Solver.Example
open Clarabel Clarabel.Solver

attribute [local instance] intFloatLike

/-- `(passes, status, iterations)` of a run, `none` if the model did not return -/
def summary (r : MErr (SolveResult Int)) : Option (Nat × Clarabel.Info.SolverStatus × Nat) :=
  r.toOption.map fun r => (r.passes, r.S.solution.status, r.S.solution.iterations)

def P1 : Csc Int := { m := 1, n := 1, colptr := #[0, 1], rowval := #[0], nzval := #[1] }
def A0 : Csc Int := { m := 0, n := 1, colptr := #[0, 0], rowval := #[], nzval := #[] }
def A2 : Csc Int := { m := 2, n := 1, colptr := #[0, 2], rowval := #[0, 1], nzval := #[1, 1] }
def P2z : Csc Int := { m := 2, n := 2, colptr := #[0, 1, 1], rowval := #[0], nzval := #[1] }
def A12z : Csc Int := { m := 1, n := 2, colptr := #[0, 1, 1], rowval := #[0], nzval := #[1] }
def P0 : Csc Int := { m := 0, n := 0, colptr := #[0], rowval := #[], nzval := #[] }
def A10 : Csc Int := { m := 1, n := 0, colptr := #[0], rowval := #[], nzval := #[] }

def runOn (P : Csc Int) (q : Array Int) (A : Csc Int) (b : Array Int) (cones : List (ConeT Int))
    (k : Nat) (perm : Array Nat) : MErr (SolveResult Int) := do
  (← Solver.new P q A b cones (st k) perm).solve (st k)

/-- no constraints, empty cone list -/
theorem deg_m0 : summary (runOn P1 #[1] A0 #[] [] 3 #[0]) = some (4, .maxIterations, 3) := by decide +kernel
/-- no constraints, only cones of dimension zero -/
theorem deg_m0_empty_cones :
    summary (runOn P1 #[1] A0 #[] [.zero 0, .nonneg 0, .soc 0] 3 #[0]) = some (4, .maxIterations, 3) := by
  decide +kernel
/-- empty cones between real ones, a `SecondOrderConeT(1)` singleton -/
theorem deg_dim0_soc1 :
    summary (runOn P1 #[1] A2 #[1, 1] [.zero 0, .nonneg 1, .soc 0, .soc 1, .nonneg 0] 3 #[0, 1, 2])
      = some (2, .solved, 1) := by decide +kernel
/-- duplicate rows (inequalities, equalities) -/
theorem deg_duplicate_rows_nn : summary (runOn P1 #[1] A2 #[1, 1] [.nonneg 2] 3 #[0, 1, 2]) = some (2, .solved, 1) := by
  decide +kernel
theorem deg_duplicate_rows_eq :
    summary (runOn P1 #[1] A2 #[1, 1] [.zero 2] 3 #[0, 1, 2]) = some (4, .maxIterations, 3) := by decide +kernel
/-- a variable that appears nowhere (zero column of `A` and of `P`, zero cost) -/
theorem deg_zero_column : summary (runOn P2z #[1, 0] A12z #[1] [.nonneg 1] 3 #[0, 1, 2]) = some (1, .solved, 0) := by
  decide +kernel
/-- no variables at all -/
theorem deg_n0 : summary (runOn P0 #[] A10 #[1] [.nonneg 1] 3 #[0]) = some (2, .solved, 1) := by decide +kernel
theorem deg_n0_maxiter0 : summary (runOn P0 #[] A10 #[1] [.nonneg 1] 0 #[0]) = some (1, .maxIterations, 0) := by
  decide +kernel

end Clarabel.Solver.Example
