/-
  C07, round 5: `unit_initialization` for generalised power blocks in the trajectory base case.

  `StepKInit.lean` covers zero / nonnegative / second-order / exponential / power blocks
  (`Blk.UnitShape`, generalised power blocks excluded).  Here the generalised power cone's unit
  point `z = s = (√(1+αᵢ))ᵢ ⊕ 0` is shown to lie in `int K* × int K` (`GenPowInterior`) for
  positive exponents summing to one, so that the iterate after `unit_initialization` is interior in
  the sense of `Pt.InteriorG` — the start point of `Traj.interiorG`.
-/
import ClarabelProofs.Lemmas.StepKInit
import ClarabelProofs.Lemmas.StepKAllCones

namespace Clarabel.StepK
open Clarabel

/-- shapes for which `unit_initialization` is covered, generalised power blocks included:
`Blk.UnitShape` on zero / nonnegative / second-order / exponential / power blocks; a generalised
power block needs positive exponents summing to one and slices at least as long as `α` (the model
`Blk.unitInit` writes `|α|` entries `√(1+αᵢ)` followed by `|z| - |α|` zeros; with `|α| ≤ |z|` this
is the in-place write of the Rust code).  PSD blocks stay excluded. -/
def Blk.UnitShapeG : Blk ℝ → Prop
  | .genpow al z s _ _ =>
    (∀ a ∈ al.toList, 0 < a) ∧ al.toList.sum = 1 ∧ al.size ≤ z.size ∧ al.size ≤ s.size
  | b => b.UnitShape

theorem Blk.UnitShape.unitShapeG {b : Blk ℝ} (h : b.UnitShape) : b.UnitShapeG := by
  cases b with
  | genpow al z s dz ds => exact absurd h id
  | psd K γz γs z s dz ds => exact h
  | zero z s dz ds => exact h
  | nn z s dz ds => exact h
  | soc z s dz ds => exact h
  | exp z s dz ds => exact h
  | pow a z s dz ds => exact h

/-! ## the unit point of the generalised power cone -/

theorem genpow_unit_toList (al : Array ℝ) (d : Nat) :
    (GenPow.unitInitialization al d).toList
      = al.toList.map (fun ai => Real.sqrt (1 + ai)) ++ List.replicate d (0 : ℝ) := by
  simp [GenPow.unitInitialization]

theorem genpow_unit_size (al : Array ℝ) (d : Nat) :
    (GenPow.unitInitialization al d).size = al.size + d := by
  simp [GenPow.unitInitialization]

theorem sumSq_replicate_zero (d : Nat) :
    ((List.replicate d (0 : ℝ)).map (fun x => x * x)).sum = 0 := by
  induction d with
  | zero => rfl
  | succ d ih => simp [List.replicate_succ]

theorem genpow_unit_u_pos (al : List ℝ) (hal : ∀ a ∈ al, 0 < a) :
    ∀ x ∈ al.map (fun ai => Real.sqrt (1 + ai)), 0 < x := by
  intro x hx
  obtain ⟨a, ha, rfl⟩ := List.mem_map.mp hx
  exact Real.sqrt_pos.mpr (by linarith [hal a ha])

theorem prod_map_zip_pos (al u : List ℝ) (g : ℝ × ℝ → ℝ)
    (hg : ∀ a ∈ al, ∀ x ∈ u, 0 < g (a, x)) : 0 < ((al.zip u).map g).prod := by
  induction al generalizing u with
  | nil => simp
  | cons a t ih =>
    cases u with
    | nil => simp
    | cons x v =>
      simp only [List.zip_cons_cons, List.map_cons, List.prod_cons]
      exact mul_pos (hg a List.mem_cons_self x List.mem_cons_self)
        (ih v (fun b hb y hy => hg b (List.mem_cons_of_mem _ hb) y (List.mem_cons_of_mem _ hy)))

/-- [R] the unit point `(√(1+αᵢ))ᵢ ⊕ 0` lies in the open generalised power cone
(`‖0‖² = 0 < Π uᵢ^{2αᵢ}`, `u > 0`) -/
theorem genpow_unit_primal (al : List ℝ) (hal : ∀ a ∈ al, 0 < a) (d : Nat) :
    C14.GenPowPrimalInterior al (al.map (fun ai => Real.sqrt (1 + ai))) (List.replicate d 0) := by
  have hu := genpow_unit_u_pos al hal
  refine ⟨hu, ?_⟩
  rw [sumSq_replicate_zero]
  exact prod_map_zip_pos al _ (fun p => p.2 ^ (2 * p.1))
    (fun a _ x hx => Real.rpow_pos_of_pos (hu x hx) _)

/-- [R] …and in the open dual cone (`0 < Π (uᵢ/αᵢ)^{2αᵢ}`) -/
theorem genpow_unit_dual (al : List ℝ) (hal : ∀ a ∈ al, 0 < a) (d : Nat) :
    C14.GenPowDualInterior al (al.map (fun ai => Real.sqrt (1 + ai))) (List.replicate d 0) := by
  have hu := genpow_unit_u_pos al hal
  refine ⟨hu, ?_⟩
  rw [sumSq_replicate_zero]
  exact prod_map_zip_pos al _ (fun p => (p.2 / p.1) ^ (2 * p.1))
    (fun a ha x hx => Real.rpow_pos_of_pos (div_pos (hu x hx) (hal a ha)) _)

/-- [R] `GenPowCone::unit_initialization`: `z = s = (√(1+αᵢ))ᵢ ⊕ 0` (any numbers `dz`, `ds` of
trailing zeros) is a point of `int K* × int K` for positive exponents summing to one -/
theorem genpow_unit_interior (al : Array ℝ) (hal : ∀ a ∈ al.toList, 0 < a) (hsum : al.toList.sum = 1)
    (dz ds : Nat) :
    GenPowInterior al (GenPow.unitInitialization al dz) (GenPow.unitInitialization al ds) :=
  ⟨hal, hsum, _, _, _, _, genpow_unit_toList al dz, by simp, genpow_unit_toList al ds, by simp,
    genpow_unit_dual al.toList hal dz, genpow_unit_primal al.toList hal ds⟩

/-! ## blocks and iterates -/

/-- [R] `unit_initialization` gives an interior block (`Blk.InteriorG`) for every covered cone
kind, generalised power blocks included -/
theorem Blk.unitInit_interiorG (b : Blk ℝ) (h : b.UnitShapeG) :
    ∃ b', b.unitInit = .ok b' ∧ b'.InteriorG := by
  cases b with
  | genpow al z s dz ds =>
    obtain ⟨hal, hsum, _, _⟩ := h
    exact ⟨_, rfl, genpow_unit_interior al hal hsum _ _⟩
  | psd K γz γs z s dz ds => exact absurd h id
  | zero z s dz ds =>
    obtain ⟨b', e, i⟩ := Blk.unitInit_interior (.zero z s dz ds) h
    exact ⟨b', e, i.interiorG⟩
  | nn z s dz ds =>
    obtain ⟨b', e, i⟩ := Blk.unitInit_interior (.nn z s dz ds) h
    exact ⟨b', e, i.interiorG⟩
  | soc z s dz ds =>
    obtain ⟨b', e, i⟩ := Blk.unitInit_interior (.soc z s dz ds) h
    exact ⟨b', e, i.interiorG⟩
  | exp z s dz ds =>
    obtain ⟨b', e, i⟩ := Blk.unitInit_interior (.exp z s dz ds) h
    exact ⟨b', e, i.interiorG⟩
  | pow a z s dz ds =>
    obtain ⟨b', e, i⟩ := Blk.unitInit_interior (.pow a z s dz ds) h
    exact ⟨b', e, i.interiorG⟩

/-- [S] on a generalised power block of covered shape `unit_initialization` keeps the slice
lengths (the model's `|α| + (|z| - |α|)` entries are the Rust code's in-place write) -/
theorem Blk.unitInit_genpow_size (al z s dz ds : Array ℝ) (h : (Blk.genpow al z s dz ds).UnitShapeG) :
    ∃ z' s', (Blk.genpow al z s dz ds).unitInit = .ok (.genpow al z' s' dz ds) ∧
      z'.size = z.size ∧ s'.size = s.size := by
  obtain ⟨_, _, hz, hs⟩ := h
  refine ⟨_, _, rfl, ?_, ?_⟩
  · rw [genpow_unit_size]; omega
  · rw [genpow_unit_size]; omega

theorem mapM_unitInitG (blks : List (Blk ℝ)) (h : ∀ b ∈ blks, b.UnitShapeG) :
    ∃ blks', blks.mapM Blk.unitInit = .ok blks' ∧ ∀ b ∈ blks', b.InteriorG := by
  induction blks with
  | nil => exact ⟨[], rfl, fun b hb => by cases hb⟩
  | cons b t ih =>
    obtain ⟨b', e1, i1⟩ := Blk.unitInit_interiorG b (h b List.mem_cons_self)
    obtain ⟨t', e2, i2⟩ := ih (fun c hc => h c (List.mem_cons_of_mem _ hc))
    refine ⟨b' :: t', ?_, ?_⟩
    · simp only [List.mapM_cons, e1, e2, bind, Except.bind, pure, Except.pure]
    · intro c hc
      rcases List.mem_cons.mp hc with rfl | hc
      · exact i1
      · exact i2 c hc

/-- [R] after `unit_initialization` the iterate is interior (`Pt.InteriorG`) with `τ = κ = 1`:
zero, nonnegative, second-order, exponential, power and generalised power cones in any combination -/
theorem unit_init_interiorG (p : Pt ℝ) (h : ∀ b ∈ p.blks, b.UnitShapeG) :
    ∃ p', unitInitialization p = .ok p' ∧ p'.InteriorG ∧ p'.τ = 1 ∧ p'.κ = 1 := by
  obtain ⟨blks', e, i⟩ := mapM_unitInitG p.blks h
  refine ⟨{ p with x := p.x.map (fun _ => 0), blks := blks', τ := 1, κ := 1 }, ?_,
    ⟨one_pos, one_pos, i⟩, rfl, rfl⟩
  simp only [unitInitialization, e, bind, Except.bind, pure, Except.pure]

/-- [R] **every iterate of every solve that starts from `unit_initialization` is interior**, for
composites of zero / nonnegative / second-order / exponential / power / generalised power cones -/
theorem Traj.interiorG_unit {c : StepCfg} (hc : c.Ok) {cfg : Loop.Config ℝ} (p p0 : Pt ℝ)
    (hsh : ∀ b ∈ p.blks, b.UnitShapeG) (h0 : unitInitialization p = .ok p0) {l : List (Pt ℝ)}
    (h : Traj c cfg p0 l) : ∀ q ∈ l, q.InteriorG := by
  obtain ⟨p', e, hI, _, _⟩ := unit_init_interiorG p hsh
  rw [h0] at e
  cases e
  exact h.interiorG hc hI

end Clarabel.StepK
