/-
  Clique-graph merge strategy, JUNCTION-TREE LINK: ONE MERGE OF THE LOOP.

  `merge_two_cliques (c1, cr)` + `update_strategy` along a stored entry `(c1, cr)` that lies on a
  junction tree `J` inside the edge matrix leave the junction tree `JT.contract c1 cr J` inside the
  new edge matrix, and keep the live cliques an antichain.

  * `JT.RIP.congr`, `JT.Antichain.congr` : both notions only look at the clique family pointwise
                                           and at the index list through membership;
  * `cg_merge_facts`                     : what `CGInv` + a stored entry + `merge_two_cliques = ok`
                                           give: `c1 ≠ cr`, both live, the result is `cgMerged`;
  * `cgCl_merged`                        : the clique family after the merge is `JT.mergeCl`;
  * `mem_cgLiveList_merged`              : the live list after the merge is the old one without `cr`;
  * `cg_contract_sub`                    : the contracted junction-tree edges are stored entries of
                                           the contracted edge matrix;
  * `cg_merge_hasJT`, `cg_merge_antichain` : the two statements above.
-/
import ClarabelProofs.Lemmas.ChordalJTContract
import ClarabelProofs.Lemmas.ChordalCGFinal

namespace Clarabel.Chordal
open Clarabel

namespace JT

/-- [S] the running-intersection property only looks at the clique family pointwise and at the
index list through membership -/
theorem RIP.congr {cl cl' : Nat → Nat → Bool} {L L' : List Nat} {T : List (Nat × Nat)}
    (hcl : ∀ c v, cl c v = cl' c v) (hL : ∀ c, c ∈ L ↔ c ∈ L') (hr : RIP cl L T) :
    RIP cl' L' T := by
  have : cl = cl' := funext fun c => funext fun v => hcl c v
  subst this
  exact fun v a ha b hb => hr v a ((hL a).2 ha) b ((hL b).2 hb)

/-- [S] the antichain property only looks at the clique family pointwise and at the index list
through membership -/
theorem Antichain.congr {cl cl' : Nat → Nat → Bool} {L L' : List Nat}
    (hcl : ∀ c v, cl c v = cl' c v) (hL : ∀ c, c ∈ L ↔ c ∈ L') (hA : Antichain cl L) :
    Antichain cl' L' := by
  have : cl = cl' := funext fun c => funext fun v => hcl c v
  subst this
  exact fun a ha b hb => hA a ((hL a).2 ha) b ((hL b).2 hb)

/-- [S] `norm` of a pair, spelled out -/
theorem norm_mk (p q : Nat) : norm (p, q) = (max p q, min p q) := rfl

end JT

/-! ## the merge, read off the model -/

/-- [S] what the invariant, a stored entry `(c1, cr)` and a successful `merge_two_cliques` give:
the two cliques are distinct and live, and the new tree is `cgMerged t c1 cr` -/
theorem cg_merge_facts {N nv : Nat} {s : CGStrategy} {t : SuperNodeTree} (hinv : CGInv N nv s t)
    {c1 cr : Nat} (he : (s.edges.entry c1 cr).isSome = true)
    {t' : SuperNodeTree} (hm : s.mergeTwoCliques t (c1, cr) = .ok t') :
    c1 ≠ cr ∧ CGLive t c1 ∧ CGLive t cr ∧ t' = cgMerged t c1 cr := by
  obtain ⟨hcr, _⟩ := cgv_entry_lt hinv.good he
  obtain ⟨hl1, hlr⟩ := hinv.edge_live c1 cr he
  have hne : c1 ≠ cr := by omega
  have h2 := cgLiveList_length_ge_two hne hl1 hlr
  have hn : t.nCliques ≠ 0 := by rw [hinv.ncl]; omega
  have hm' := mergeTwoCliques_ok s t hne hl1.1 hlr.1 hn
  exact ⟨hne, hl1, hlr, (Except.ok.inj (hm'.symm.trans hm)).symm⟩

/-- [S] THE CLIQUE FAMILY AFTER THE MERGE is `JT.mergeCl`: the union at `r`, nothing at `c` -/
theorem cgCl_merged {t : SuperNodeTree} {r c : Nat} (hne : r ≠ c) (hr : r < t.snode.size)
    (a v : Nat) : cgCl (cgMerged t r c) a v = JT.mergeCl (cgCl t) r c a v := by
  rw [Bool.eq_iff_iff, cgCl_iff, cgMerged_mem hne hr]
  unfold JT.mergeCl
  by_cases har : a = r
  · subst har
    simp [cgCl_iff]
  · by_cases hac : a = c
    · subst hac
      simp [har]
    · simp [har, hac, cgCl_iff]

/-- [S] THE LIVE LIST AFTER THE MERGE has the members of the old one with `c` erased -/
theorem mem_cgLiveList_merged {t : SuperNodeTree} {r c : Nat} (hne : r ≠ c) (hr : CGLive t r)
    (a : Nat) : a ∈ cgLiveList (cgMerged t r c) ↔ a ∈ (cgLiveList t).erase c :=
  (cgLiveList_merged_perm hne hr).mem_iff

/-- [S] the ends of the edges of a junction tree inside the edge matrix are live cliques -/
theorem CGHasJT.ends_live {N nv : Nat} {s : CGStrategy} {t : SuperNodeTree}
    (hinv : CGInv N nv s t) {J : List (Nat × Nat)} (hJ : CGHasJT s t J) :
    ∀ e ∈ J, e.1 ∈ cgLiveList t ∧ e.2 ∈ cgLiveList t := by
  intro e heJ
  have := hinv.edge_live e.1 e.2 ((cgv_mem_edges hinv.good e.1 e.2).1 (hJ.sub e heJ))
  exact ⟨(mem_cgLiveList t _).2 this.1, (mem_cgLiveList t _).2 this.2⟩

/-- [S] THE CONTRACTED JUNCTION-TREE EDGES ARE STORED ENTRIES OF THE CONTRACTED EDGE MATRIX: if
every edge of `J` is an entry of the `Good` matrix `E`, and the graph of the `Good` matrix `E'` is
the graph of `E` with `cr` contracted into `c1`, then every edge of `JT.contract c1 cr J` is an
entry of `E'` -/
theorem cg_contract_sub {E E' : IMat} (hE : E.Good) (hE' : E'.Good) {c1 cr : Nat} (hne : c1 ≠ cr)
    (hadj : CGContracted E E' c1 cr) {J : List (Nat × Nat)} (hsub : ∀ e ∈ J, e ∈ E.edges) :
    ∀ e ∈ JT.contract c1 cr J, e ∈ E'.edges := by
  intro e' he'
  obtain ⟨e, heJ, hnE, rfl⟩ := JT.mem_contract.1 he'
  obtain ⟨x, y⟩ := e
  have hxy : E.Adj x y := ((cgv_mem_edges_iff_adj hE x y).1 (hsub _ heJ)).1
  have hxyne : x ≠ y := cgv_adj_ne hE hxy
  have hnE' : ¬ ((x, y) = (c1, cr) ∨ (x, y) = (cr, c1)) := by
    rw [← JT.isEdge_iff, hnE]; simp
  have hA : E'.Adj (JT.ren c1 cr x) (JT.ren c1 cr y) := by
    rw [hadj]
    refine ⟨JT.ren_ne hne x, JT.ren_ne hne y, ?_⟩
    by_cases hx : x = cr
    · have hy : y ≠ cr := fun h => hxyne (hx.trans h.symm)
      have hy1 : y ≠ c1 := fun h => hnE' (Or.inr (by rw [hx, h]))
      rw [hx, JT.ren_b, JT.ren_of_ne hy]
      rw [hx] at hxy
      exact Or.inr (Or.inl ⟨rfl, hxy, hy1⟩)
    · by_cases hy : y = cr
      · have hx1 : x ≠ c1 := fun h => hnE' (Or.inl (by rw [hy, h]))
        rw [hy, JT.ren_b, JT.ren_of_ne hx]
        rw [hy] at hxy
        exact Or.inr (Or.inr ⟨rfl, hxy.symm, hx1⟩)
      · rw [JT.ren_of_ne hx, JT.ren_of_ne hy]
        exact Or.inl hxy
  show JT.norm (JT.ren c1 cr x, JT.ren c1 cr y) ∈ E'.edges
  rw [JT.norm_mk]
  exact cgv_maxmin_mem_edges hE' hA

/-! ## the two theorems -/

/-- [S] **ONE MERGE ALONG A JUNCTION-TREE EDGE KEEPS A JUNCTION TREE INSIDE THE GRAPH**: under the
loop invariant, if `J` is a junction tree of the live cliques inside the edge matrix and the
candidate `(c1, cr)` is one of its edges, then after `merge_two_cliques` + `update_strategy` the
contraction `JT.contract c1 cr J` is a junction tree of the live cliques inside the new edge
matrix -/
theorem cg_merge_hasJT {N nv : Nat} {s : CGStrategy} {t : SuperNodeTree} (hinv : CGInv N nv s t)
    {c1 cr : Nat} (he : (s.edges.entry c1 cr).isSome = true)
    {J : List (Nat × Nat)} (hJ : CGHasJT s t J) (hedge : (c1, cr) ∈ J)
    {t' : SuperNodeTree} {s' : CGStrategy} (hm : s.mergeTwoCliques t (c1, cr) = .ok t')
    (hu : s.updateStrategy t' (c1, cr) true = .ok s') :
    CGHasJT s' t' (JT.contract c1 cr J) := by
  obtain ⟨hne, hl1, hlr, rfl⟩ := cg_merge_facts hinv he hm
  obtain ⟨hF, _, hrip⟩ := JT.contract_spec (cgCl t) (cgLiveList t) J c1 cr (cgLiveList_nodup t) hne
    ((mem_cgLiveList t c1).2 hl1) ((mem_cgLiveList t cr).2 hlr) hJ.forest (hJ.ends_live hinv)
    hJ.rip (.inl hedge)
  obtain ⟨s'', hs'', _, _, hG', _, _, _, hadj, _⟩ := update_state_ok N nv s t hinv c1 cr he _ hm
  have hs : s'' = s' := Except.ok.inj (hs''.symm.trans hu)
  subst hs
  exact
    { forest := hF
      sub := cg_contract_sub hinv.good hG' hne hadj hJ.sub
      rip := JT.RIP.congr (fun c v => (cgCl_merged hne hl1.1 c v).symm)
        (fun c => (mem_cgLiveList_merged hne hl1 c).symm) hrip }

/-- [S] the antichain property of the tree in the vocabulary of `JT` -/
theorem cgAntichain_iff (t : SuperNodeTree) :
    CGAntichain t ↔ JT.Antichain (cgCl t) (cgLiveList t) := by
  constructor
  · intro h a ha b hb hab
    obtain ⟨v, hv, hnv⟩ := h a b ((mem_cgLiveList t a).1 ha) ((mem_cgLiveList t b).1 hb) hab
    refine ⟨v, (cgCl_iff t a v).2 hv, ?_⟩
    rw [← Bool.not_eq_true, cgCl_iff]
    exact hnv
  · intro h a b ha hb hab
    obtain ⟨v, hv, hnv⟩ := h a ((mem_cgLiveList t a).2 ha) b ((mem_cgLiveList t b).2 hb) hab
    refine ⟨v, (cgCl_iff t a v).1 hv, fun hb' => ?_⟩
    rw [(cgCl_iff t b v).2 hb'] at hnv
    cases hnv

/-- [S] **… AND KEEPS THE LIVE CLIQUES AN ANTICHAIN**: under the loop invariant, if `J` is a
junction tree of the live cliques inside the edge matrix, the candidate `(c1, cr)` is one of its
edges and no live clique is contained in another one, then the same holds after
`merge_two_cliques` -/
theorem cg_merge_antichain {N nv : Nat} {s : CGStrategy} {t : SuperNodeTree} (hinv : CGInv N nv s t)
    {c1 cr : Nat} (he : (s.edges.entry c1 cr).isSome = true)
    {J : List (Nat × Nat)} (hJ : CGHasJT s t J) (hedge : (c1, cr) ∈ J) (hanti : CGAntichain t)
    {t' : SuperNodeTree} (hm : s.mergeTwoCliques t (c1, cr) = .ok t') : CGAntichain t' := by
  obtain ⟨hne, hl1, hlr, rfl⟩ := cg_merge_facts hinv he hm
  have hA := JT.antichain_contract (cgCl t) (cgLiveList t) J c1 cr (cgLiveList_nodup t) hne
    ((mem_cgLiveList t c1).2 hl1) ((mem_cgLiveList t cr).2 hlr) hJ.forest (hJ.ends_live hinv)
    hJ.rip (.inl hedge) ((cgAntichain_iff t).1 hanti)
  exact (cgAntichain_iff _).2 (JT.Antichain.congr (fun c v => (cgCl_merged hne hl1.1 c v).symm)
    (fun c => (mem_cgLiveList_merged hne hl1 c).symm) hA)

/-! ## non-vacuity: the three-clique path `C₀ = {0,1}`, `C₁ = {1,2}`, `C₂ = {2,3}` as a tree -/

namespace JT.Ex

/-- the three cliques of `cl3` as the clique sets of a tree in the state of the loop -/
def t3 : SuperNodeTree :=
  { (default : SuperNodeTree) with snode := #[#[0, 1], #[1, 2], #[2, 3]], nCliques := 3 }

/-- clique `1` of `t3` is live -/
theorem t3_live1 : CGLive t3 1 := ⟨show 1 < 3 by omega, by simp [t3]⟩

/-- non-vacuity of `cgCl_merged` / `mem_cgLiveList_merged`: pouring clique `0` into clique `1`
leaves `{1, 2, 0}` at `1`, nothing at `0`, and retires clique `0` -/
example : (cgMerged t3 1 0).snode = #[#[], #[1, 2, 0], #[2, 3]] ∧
    (∀ a v, cgCl (cgMerged t3 1 0) a v = JT.mergeCl (cgCl t3) 1 0 a v) ∧
    (∀ a, a ∈ cgLiveList (cgMerged t3 1 0) ↔ a ∈ (cgLiveList t3).erase 0) :=
  ⟨by simp [cgMerged, t3, VSet.extend, VSet.insert], cgCl_merged (by decide) t3_live1.1, mem_cgLiveList_merged (by decide) t3_live1⟩

/-- non-vacuity of `JT.RIP.congr` / `JT.Antichain.congr`: the contracted junction tree of
`ChordalJTContract.lean`, transported to the index list in the other order -/
example : RIP (mergeCl cl3 1 0) [2, 1] (contract 1 0 J3) ∧ Antichain (mergeCl cl3 1 0) [2, 1] := by
  have hL : ∀ c, c ∈ [1, 2] ↔ c ∈ [2, 1] := by intro c; simp [or_comm]
  have h := contract_spec cl3 [0, 1, 2] J3 1 0 (by decide) (by decide) (by decide) (by decide)
    J3_forest (by decide) J3_rip (.inl (by decide))
  have hA := antichain_contract cl3 [0, 1, 2] J3 1 0 (by decide) (by decide) (by decide)
    (by decide) J3_forest (by decide) J3_rip (.inl (by decide)) cl3_antichain
  exact ⟨RIP.congr (fun _ _ => rfl) hL h.2.2, Antichain.congr (fun _ _ => rfl) hL hA⟩

/-- non-vacuity of `cg_contract_sub`: the triangle `tri` of `ChordalCGUpdInv.lean` with clique `0`
contracted into clique `1`; the junction tree `1 — 0`, `2 — 0` becomes `2 — 1` -/
example : ∀ e ∈ contract 1 0 [(1, 0), (2, 0)], e ∈ UpdInvExample.tri1.edges := by
  refine cg_contract_sub (E := KrEx.tri) UpdInvExample.tri_good UpdInvExample.tri1_good
    (by decide) UpdInvExample.tri_contracted ?_
  rw [KrEx.tri_edges]
  decide

end JT.Ex

end Clarabel.Chordal
