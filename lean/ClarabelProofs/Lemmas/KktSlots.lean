/-
  Forward ("run") lemmas for the individual `fill_*` calls of the KKT assembly: each call
  succeeds, runs its schedule on the matrix (`KSpec`), and every slot of its index vector
  holds the destination of the scheduled write it belongs to (`SlotAt`).

  * `SlotAt ptr l o col row v`: the optional index `o` is the destination of an entry of the
    schedule `l` (run from the counters `ptr`) whose coordinates and value are `(row, col, v)`;
    `SlotAt.left/right` transport it along concatenation of schedules;
  * `Ready K l`: the hypotheses under which a schedule runs from the state `K` (free ranges
    disjoint, all destinations inside the arrays); `Ready.left/right`;
  * `sched_run`: existence + matrix effect + slots for one `placeAll` over an index-numbered
    schedule; instances for vectors, diagonals, dense triangles and blocks.

  No arithmetic law of the scalar type is used.
-/
import ClarabelModel.Kkt
import ClarabelProofs.Lemmas.KktPlace
import ClarabelProofs.Lemmas.KktSchedule
import ClarabelProofs.Lemmas.KktFillLink
import ClarabelProofs.Lemmas.KktFillBlock
import ClarabelProofs.Lemmas.KktRun
import ClarabelProofs.Lemmas.KktLength

set_option linter.unusedSectionVars false
set_option linter.unusedVariables false

namespace Clarabel.Lemmas.KktSlots
open Clarabel Clarabel.Csc Clarabel.Kkt Clarabel.Lemmas.KktPlace Clarabel.Lemmas.KktFillLink
open Clarabel.Lemmas.KktRun

variable {α : Type}

-- ------------------------------------------------------------------ coordinates

/-- storage coordinates `(row, col)` of the entry whose upper-triangle coordinates are
`(r, c)` (`r ≤ c`): itself in the `triu` layout, transposed in the `tril` layout -/
def tri (shape : MatrixTriangle) (r c : Nat) : Nat × Nat :=
  match shape with
  | .triu => (r, c)
  | .tril => (c, r)

theorem tri_diag (shape : MatrixTriangle) (x : Nat) : tri shape x x = (x, x) := by
  cases shape <;> rfl

-- ------------------------------------------------------------------ slots

/-- the optional index `o` is the destination of a write of `(row, col, v)` scheduled in `l`
(run from the counters `ptr`) -/
def SlotAt (ptr : Array Nat) (l : List (Entry α)) (o : Option Nat) (col row : Nat) (v : α) : Prop :=
  ∃ g e, l[g]? = some e ∧ e.readCol = col ∧ e.row = row ∧ e.val = v ∧ o = destOf ptr l g

theorem SlotAt.left {ptr : Array Nat} {l1 : List (Entry α)} (l2 : List (Entry α)) {o : Option Nat}
    {col row : Nat} {v : α} (h : SlotAt ptr l1 o col row v) : SlotAt ptr (l1 ++ l2) o col row v := by
  obtain ⟨g, e, hg, h1, h2, h3, h4⟩ := h
  have hlt : g < l1.length := (List.getElem?_eq_some_iff.mp hg).1
  exact ⟨g, e, by rw [List.getElem?_append_left hlt]; exact hg, h1, h2, h3,
    by rw [destOf_append_left _ _ _ _ hlt]; exact h4⟩

theorem SlotAt.right {ptr ptr1 : Array Nat} (l1 : List (Entry α)) {l2 : List (Entry α)}
    {o : Option Nat} {col row : Nat} {v : α}
    (hptr : ∀ c, ptr1[c]? = (ptr[c]?).map (· + cnt c l1))
    (h : SlotAt ptr1 l2 o col row v) : SlotAt ptr (l1 ++ l2) o col row v := by
  obtain ⟨g, e, hg, h1, h2, h3, h4⟩ := h
  refine ⟨l1.length + g, e, ?_, h1, h2, h3, ?_⟩
  · rw [List.getElem?_append_right (Nat.le_add_right _ _), Nat.add_sub_cancel_left]; exact hg
  · rw [destOf_append_right l1 l2 g hptr]; exact h4

theorem SlotAt.congr {ptr : Array Nat} {l : List (Entry α)} {o o' : Option Nat}
    {col row : Nat} {v : α} (h : SlotAt ptr l o col row v) (ho : o' = o) :
    SlotAt ptr l o' col row v := ho ▸ h

-- ------------------------------------------------------------------ readiness

/-- all closed-form destinations of `l` exist and are below `R` -/
def DestOK (ptr : Array Nat) (l : List (Entry α)) (R : Nat) : Prop :=
  ∀ i e, l[i]? = some e → ∃ d, destOf ptr l i = some d ∧ d < R

/-- `l` can be run from the state `K` -/
structure Ready (K : Csc α) (l : List (Entry α)) : Prop where
  dis : RangesDisjoint K.colptr l
  dest : DestOK K.colptr l (min K.rowval.size K.nzval.size)

theorem Ready.left {K : Csc α} {l1 l2 : List (Entry α)} (h : Ready K (l1 ++ l2)) : Ready K l1 := by
  refine ⟨rangesDisjoint_left h.dis, ?_⟩
  intro i e he
  have hlt : i < l1.length := (List.getElem?_eq_some_iff.mp he).1
  obtain ⟨d, hd, hb⟩ := h.dest i e (by rw [List.getElem?_append_left hlt]; exact he)
  exact ⟨d, by rw [← destOf_append_left _ _ l2 _ hlt]; exact hd, hb⟩

theorem Ready.right {K K1 : Csc α} {l1 l2 : List (Entry α)} (h : Ready K (l1 ++ l2))
    (S : KSpec K K1 l1) : Ready K1 l2 := by
  refine ⟨rangesDisjoint_right S.colptr_get h.dis, ?_⟩
  intro i e he
  obtain ⟨d, hd, hb⟩ := h.dest (l1.length + i) e (by
    rw [List.getElem?_append_right (Nat.le_add_right _ _), Nat.add_sub_cancel_left]; exact he)
  refine ⟨d, ?_, by rw [S.rowval_size, S.nzval_size]; exact hb⟩
  rw [← destOf_append_right l1 l2 i S.colptr_get]; exact hd

theorem Ready.nil (K : Csc α) : Ready K [] :=
  ⟨rangesDisjoint_nil _, by intro i e he; simp at he⟩

-- ------------------------------------------------------------------ index-numbered schedules

/-- the `i`-th write is recorded in slot `i` of the index vector -/
def IdxSched (l : List (Entry α)) : Prop := ∀ (i : Nat) (e : Entry α), l[i]? = some e → e.k = some i

/-- one `placeAll` over an index-numbered schedule -/
theorem sched_run (K : Csc α) (mp : Array Nat) (l : List (Entry α)) (hreg : Regular l)
    (hidx : IdxSched l) (hlen : l.length ≤ mp.size) (hr : Ready K l) :
    ∃ K' mp', placeAll K mp l = .ok (K', mp') ∧ KSpec K K' l ∧ mp'.size = mp.size ∧
      (∀ i, i < l.length → mp'[i]? = destOf K.colptr l i) ∧
      (∀ k, l.length ≤ k → mp'[k]? = mp[k]?) := by
  obtain ⟨K', mp', h, S⟩ := placeAll_run K mp l hreg hr.dis
    (by
      intro i e he
      obtain ⟨d, hd, hb⟩ := hr.dest i e he
      exact ⟨d, hd, by omega, by omega⟩)
    (by
      intro e he k hk
      obtain ⟨i, hi⟩ := List.getElem?_of_mem he
      have hil : i < l.length := (List.getElem?_eq_some_iff.mp hi).1
      have := hidx i e hi
      rw [hk] at this
      cases this
      omega)
  refine ⟨K', mp', h, KSpec.of_placeSpec S, S.map_size, ?_, ?_⟩
  · intro i hi
    have hget : l[i]? = some l[i] := List.getElem?_eq_getElem hi
    exact S.map_written i _ i hget (hidx i _ hget) (by
      intro j e' hij hj hh
      rw [hidx j e' hj] at hh
      cases hh
      omega)
  · intro k hk
    apply S.map_untouched k
    intro e he hh
    obtain ⟨i, hi⟩ := List.getElem?_of_mem he
    have hil : i < l.length := (List.getElem?_eq_some_iff.mp hi).1
    rw [hidx i e hi] at hh
    cases hh
    omega

theorem slot_of_get {ptr : Array Nat} {l : List (Entry α)} {o : Option Nat} {i : Nat} {e : Entry α}
    (he : l[i]? = some e) (ho : o = destOf ptr l i) : SlotAt ptr l o e.readCol e.row e.val :=
  ⟨i, e, he, rfl, rfl, rfl, ho⟩

variable [OfNat α 0]

-- ------------------------------------------------------------------ vectors (column / row by layout)

/-- the schedule of one auxiliary vector of a sparse expansion: a partial column in the `triu`
layout, a partial row in the `tril` layout; upper coordinates `(r + k, c)` -/
def vecSchedule (shape : MatrixTriangle) (len r c : Nat) : List (Entry α) :=
  match shape with
  | .triu => colvecSchedule len r c
  | .tril => rowvecSchedule len c r

def fillVec (shape : MatrixTriangle) (K : Csc α) (v : Array Nat) (r c : Nat) : MErr (Csc α × Array Nat) :=
  match shape with
  | .triu => fillColvec K v r c
  | .tril => fillRowvec K v c r

theorem vecSchedule_get (shape : MatrixTriangle) (len r c k : Nat) (hk : k < len) :
    (vecSchedule (α := α) shape len r c)[k]?
      = some (Entry.mk' (tri shape (r + k) c).2 (tri shape (r + k) c).1 0 k) := by
  cases shape <;> simp [vecSchedule, colvecSchedule, rowvecSchedule, tri, hk]

theorem vecSchedule_length (shape : MatrixTriangle) (len r c : Nat) :
    (vecSchedule (α := α) shape len r c).length = len := by
  cases shape <;> simp [vecSchedule, colvecSchedule, rowvecSchedule]

theorem vecSchedule_regular (shape : MatrixTriangle) (len r c : Nat) :
    Regular (vecSchedule (α := α) shape len r c) := by
  cases shape
  · exact colvecSchedule_regular _ _ _
  · exact rowvecSchedule_regular _ _ _

theorem idx_of_get {l : List (Entry α)} {F : Nat → Entry α} (hF : ∀ i, (F i).k = some i)
    (h : ∀ i, i < l.length → l[i]? = some (F i)) : IdxSched l := by
  intro i e he
  have hi : i < l.length := (List.getElem?_eq_some_iff.mp he).1
  rw [h i hi] at he
  cases he
  exact hF i

theorem vecSchedule_idx (shape : MatrixTriangle) (len r c : Nat) :
    IdxSched (vecSchedule (α := α) shape len r c) :=
  idx_of_get (F := fun k => Entry.mk' (tri shape (r + k) c).2 (tri shape (r + k) c).1 0 k)
    (fun _ => rfl)
    (fun i hi => vecSchedule_get shape len r c i (by rwa [vecSchedule_length] at hi))

theorem fillVec_run (shape : MatrixTriangle) (K : Csc α) (v : Array Nat) (len r c : Nat)
    (hv : v.size = len) (hr : Ready K (vecSchedule shape len r c)) :
    ∃ K' v', fillVec shape K v r c = .ok (K', v') ∧ KSpec K K' (vecSchedule shape len r c) ∧
      v'.size = len ∧
      ∀ k, k < len → SlotAt K.colptr (vecSchedule (α := α) shape len r c) v'[k]?
        (tri shape (r + k) c).2 (tri shape (r + k) c).1 0 := by
  obtain ⟨K', v', h, S, hs, hslot, _⟩ := sched_run K v (vecSchedule shape len r c)
    (vecSchedule_regular _ _ _ _) (vecSchedule_idx _ _ _ _)
    (by rw [vecSchedule_length]; omega) hr
  refine ⟨K', v', ?_, S, by omega, ?_⟩
  · subst hv
    cases shape <;> exact h
  · intro k hk
    exact slot_of_get (vecSchedule_get shape len r c k hk)
      (hslot k (by rw [vecSchedule_length]; exact hk))

-- ------------------------------------------------------------------ diagonals

theorem diagSchedule_length (off d : Nat) : (diagSchedule (α := α) off d).length = d := by
  simp [diagSchedule]

theorem diagSchedule_idx (off d : Nat) : IdxSched (diagSchedule (α := α) off d) :=
  idx_of_get (F := fun k => Entry.mk' (off + k) (off + k) 0 k) (fun _ => rfl)
    (fun i hi => diagSchedule_get off d i (by rwa [diagSchedule_length] at hi))

theorem fillDiag_run (K : Csc α) (v : Array Nat) (off d : Nat) (hv : d ≤ v.size)
    (hr : Ready K (diagSchedule off d)) :
    ∃ K' v', fillDiag K v off d = .ok (K', v') ∧ KSpec K K' (diagSchedule off d) ∧
      v'.size = v.size ∧
      (∀ k, k < d → SlotAt K.colptr (diagSchedule (α := α) off d) v'[k]? (off + k) (off + k) 0) ∧
      (∀ k, d ≤ k → v'[k]? = v[k]?) := by
  obtain ⟨K', v', h, S, hs, hslot, hun⟩ := sched_run K v (diagSchedule off d)
    (diagSchedule_regular _ _) (diagSchedule_idx _ _) (by rw [diagSchedule_length]; exact hv) hr
  refine ⟨K', v', h, S, hs, ?_, ?_⟩
  · intro k hk
    exact slot_of_get (diagSchedule_get off d k hk) (hslot k (by rw [diagSchedule_length]; exact hk))
  · intro k hk
    exact hun k (by rw [diagSchedule_length]; exact hk)


-- ------------------------------------------------------------------ dense triangles

theorem triNum_succ (k : Nat) : (k + 1) * (k + 1 + 1) / 2 = k * (k + 1) / 2 + (k + 1) := by
  have : (k + 1) * (k + 1 + 1) = k * (k + 1) + (k + 1) * 2 := by
    rw [Nat.mul_add (k + 1) (k + 1) 1, Nat.add_mul k 1 (k + 1)]
    omega
  rw [this, Nat.add_mul_div_right _ _ (by decide : 0 < 2)]

theorem triNum_mono {a d : Nat} (h : a ≤ d) : a * (a + 1) / 2 ≤ d * (d + 1) / 2 :=
  Nat.div_le_div_right (Nat.mul_le_mul h (by omega))

theorem tri_lt {a b d : Nat} (ha : a < d) (hb : b ≤ a) : a * (a + 1) / 2 + b < d * (d + 1) / 2 := by
  have h1 := triNum_succ a
  have h2 := triNum_mono (a := a + 1) (d := d) (by omega)
  omega

/-- indexing into a packed triangle `[(0,0), (1,0), (1,1), (2,0), …]` -/
theorem cells_get {β : Type} (F : Nat → Nat → β) (d a b : Nat) (ha : a < d) (hb : b ≤ a) :
    ((List.range d).flatMap (fun a => (List.range (a + 1)).map (fun b => F a b)))[a * (a + 1) / 2 + b]?
      = some (F a b) := by
  induction d with
  | zero => omega
  | succ d ih =>
    have hlen : ((List.range d).flatMap (fun a => (List.range (a + 1)).map (fun b => F a b))).length
        = d * (d + 1) / 2 :=
      Clarabel.Lemmas.KktLength.flatMap_triangle _ (by intro c; simp) d
    rw [List.range_succ, List.flatMap_append]
    by_cases had : a < d
    · rw [List.getElem?_append_left (by rw [hlen]; exact tri_lt had hb)]
      exact ih had
    · have : a = d := by omega
      subst this
      rw [List.getElem?_append_right (by rw [hlen]; omega), hlen, Nat.add_sub_cancel_left]
      simp only [List.flatMap_cons, List.flatMap_nil, List.append_nil, List.getElem?_map]
      rw [List.getElem?_range (by omega)]
      rfl

theorem zipIdx_sched_get (cells : List (Nat × Nat)) (i : Nat) :
    (cells.zipIdx.map (fun p => Entry.mk' (α := α) p.1.1 p.1.2 0 p.2))[i]?
      = (cells[i]?).map (fun x => Entry.mk' x.1 x.2 0 i) := by
  rw [List.getElem?_map, List.getElem?_zipIdx]
  cases cells[i]? <;> simp

theorem zipIdx_sched_idx (cells : List (Nat × Nat)) :
    IdxSched (cells.zipIdx.map (fun p => Entry.mk' (α := α) p.1.1 p.1.2 0 p.2)) := by
  intro i e he
  rw [zipIdx_sched_get] at he
  cases hc : cells[i]? with
  | none => simp [hc] at he
  | some x =>
    simp only [hc, Option.map_some, Option.some.injEq] at he
    subst he
    rfl

theorem denseSchedule_get (shape : MatrixTriangle) (off d a b : Nat) (ha : a < d) (hb : b ≤ a) :
    (denseSchedule (α := α) off d shape)[a * (a + 1) / 2 + b]?
      = some (Entry.mk' (tri shape (off + b) (off + a)).2 (tri shape (off + b) (off + a)).1 0
          (a * (a + 1) / 2 + b)) := by
  cases shape with
  | triu =>
    show (denseTriuSchedule (α := α) off d)[_]? = _
    unfold denseTriuSchedule
    simp only []
    rw [zipIdx_sched_get,
      cells_get (fun c r => (off + c, off + r)) d a b ha hb]
    rfl
  | tril =>
    show (denseTrilSchedule (α := α) off d)[_]? = _
    unfold denseTrilSchedule
    simp only []
    rw [zipIdx_sched_get,
      cells_get (fun r c => (off + c, off + r)) d a b ha hb]
    rfl

theorem denseSchedule_length (shape : MatrixTriangle) (off d : Nat) :
    (denseSchedule (α := α) off d shape).length = d * (d + 1) / 2 := by
  cases shape
  · exact Clarabel.Lemmas.KktLength.denseTriuSchedule_length off d
  · exact Clarabel.Lemmas.KktLength.denseTrilSchedule_length off d

theorem denseSchedule_idx (shape : MatrixTriangle) (off d : Nat) :
    IdxSched (denseSchedule (α := α) off d shape) := by
  cases shape
  · exact zipIdx_sched_idx _
  · exact zipIdx_sched_idx _

theorem denseSchedule_regular (shape : MatrixTriangle) (off d : Nat) :
    Regular (denseSchedule (α := α) off d shape) := by
  cases shape
  · exact denseTriuSchedule_regular _ _
  · exact denseTrilSchedule_regular _ _

theorem fillDense_run (K : Csc α) (v : Array Nat) (off d : Nat) (shape : MatrixTriangle)
    (hv : d * (d + 1) / 2 ≤ v.size) (hr : Ready K (denseSchedule off d shape)) :
    ∃ K' v', fillDenseTriangle K v off d shape = .ok (K', v') ∧
      KSpec K K' (denseSchedule off d shape) ∧ v'.size = v.size ∧
      (∀ a b, a < d → b ≤ a → SlotAt K.colptr (denseSchedule (α := α) off d shape)
        v'[a * (a + 1) / 2 + b]? (tri shape (off + b) (off + a)).2 (tri shape (off + b) (off + a)).1 0) ∧
      (∀ k, d * (d + 1) / 2 ≤ k → v'[k]? = v[k]?) := by
  obtain ⟨K', v', h, S, hs, hslot, hun⟩ := sched_run K v (denseSchedule off d shape)
    (denseSchedule_regular _ _ _) (denseSchedule_idx _ _ _)
    (by rw [denseSchedule_length]; exact hv) hr
  refine ⟨K', v', ?_, S, hs, ?_, ?_⟩
  · cases shape <;> exact h
  · intro a b ha hb
    exact slot_of_get (denseSchedule_get shape off d a b ha hb)
      (hslot _ (by rw [denseSchedule_length]; exact tri_lt ha hb))
  · intro k hk
    exact hun k (by rw [denseSchedule_length]; exact hk)

-- ------------------------------------------------------------------ blocks, missing diagonal

open Clarabel.Lemmas.KktFillBlock in
omit [OfNat α 0] in
theorem fillBlock_run (K M : Csc α) (mp : Array Nat) (r0 c0 : Nat) (shape : MatrixShape)
    (sched : List (Entry α)) (hwf : BlockWF M) (hs : blockSchedule M r0 c0 shape = .ok sched)
    (hmp : M.rowval.size ≤ mp.size) (hr : Ready K sched) :
    ∃ K' mp', fillBlock K M mp r0 c0 shape = .ok (K', mp') ∧ KSpec K K' sched ∧
      mp'.size = mp.size ∧
      ∀ i j r v, i < M.n → M.colptr.getD i 0 ≤ j → j < M.colptr.getD (i + 1) 0 →
        M.rowval[j]? = some r → M.nzval[j]? = some v →
        SlotAt K.colptr sched mp'[j]? (blockCoord shape r0 c0 i r).2 (blockCoord shape r0 c0 i r).1 v := by
  have hlen := blockSchedule_length hwf r0 c0 shape sched hs
  obtain ⟨K', mp', h, S, hsz, hslot, _⟩ := sched_run K mp sched
    (KktFillBlock.blockSchedule_regular hwf r0 c0 shape sched hs)
    (fun j e he => blockSchedule_k hwf r0 c0 shape sched hs j e he)
    (by rw [hlen]; exact hmp) hr
  refine ⟨K', mp', by rw [fillBlock_of_sched hs]; exact h, S, hsz, ?_⟩
  intro i j r v hi hlo hhi hr' hv'
  obtain ⟨r2, v2, hr2, hv2, hg⟩ := blockSchedule_get hwf r0 c0 shape sched hs i j hi hlo hhi
  rw [hr'] at hr2
  rw [hv'] at hv2
  cases hr2
  cases hv2
  have hj : j < sched.length := (List.getElem?_eq_some_iff.mp hg).1
  exact slot_of_get hg (hslot j hj)

theorem missingDiagSchedule_k {M : Csc α} {s : List (Entry α)}
    (h : missingDiagSchedule M 0 = .ok s) : ∀ e ∈ s, e.k = none := by
  rw [Clarabel.Lemmas.KktSorted.missingDiagSchedule_ok h]
  intro e he
  simp only [List.mem_flatMap, List.mem_range] at he
  obtain ⟨i, _, hi⟩ := he
  split at hi
  · simp only [List.mem_singleton] at hi
    subst hi
    rfl
  · cases hi

theorem fillMissingDiag_run (K M : Csc α) (sched : List (Entry α))
    (hs : missingDiagSchedule M 0 = .ok sched) (hr : Ready K sched) :
    ∃ K', fillMissingDiag K M 0 = .ok K' ∧ KSpec K K' sched := by
  obtain ⟨K', mp', h, S⟩ := placeAll_run K #[] sched (missingDiagSchedule_regular hs) hr.dis
    (by
      intro i e he
      obtain ⟨d, hd, hb⟩ := hr.dest i e he
      exact ⟨d, hd, by omega, by omega⟩)
    (by
      intro e he k hk
      rw [missingDiagSchedule_k hs e he] at hk
      cases hk)
  refine ⟨K', ?_, KSpec.of_placeSpec S⟩
  rw [fillMissingDiag_of_sched hs, h]
  rfl

end Clarabel.Lemmas.KktSlots
