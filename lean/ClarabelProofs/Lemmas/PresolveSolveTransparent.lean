/-
  C09, whole-solver level: the solver is a deterministic function of its internal data and
  settings; the `presolver` record of the problem data is read ONLY by the final
  `solution.post_process`.  Consequence (`solve_presolve_transparent`,
  `new_solve_presolve_transparent`): a solve with presolve on and the solve of the hand-reduced
  problem with presolve off run through bit-identical trajectories, and the returned solution
  of the former is `reverse_presolve` of the solution of the latter.  All structural ([S]):
  no arithmetic law is used, the statements hold for `Float`.
-/
import ClarabelModel.Solver.Solve
import ClarabelProofs.Lemmas.InfoLengths

namespace Clarabel
namespace Solver
open Clarabel Info
set_option linter.unusedSectionVars false
set_option linter.unusedVariables false
variable {α : Type}

/-! ### 0. replacing the `presolver` record (proof-side notions) -/

/-- replace the `presolver` record of the problem data -/
def _root_.Clarabel.ProblemData.setPre (d : ProblemData α) (p : Option (Presolve.Presolver α)) :
    ProblemData α := { d with presolver := p }

/-- replace the `presolver` record inside the solver state -/
def SolverSt.setPre (S : SolverSt α) (p : Option (Presolve.Presolver α)) : SolverSt α :=
  { S with data := S.data.setPre p }

/-- replace the `presolver` record inside the loop state -/
def LoopSt.setPre (L : LoopSt α) (p : Option (Presolve.Presolver α)) : LoopSt α :=
  { L with S := L.S.setPre p }

/-! ### congruence helpers for the `Except` monad -/

private theorem map_bind_congr {β γ δ : Type} {x x' : MErr β} {f : β → MErr γ} {f' : β → MErr δ} {g : δ → γ}
    (hx : x = x') (hf : ∀ a, f a = (f' a).map g) : (x >>= f) = (x' >>= f').map g := by
  subst hx
  cases x with
  | error e => rfl
  | ok a => exact hf a

private theorem bind_congr' {β γ : Type} {x x' : MErr β} {f f' : β → MErr γ}
    (hx : x = x') (hf : ∀ a, f a = f' a) : (x >>= f) = (x' >>= f') := by
  subst hx
  cases x with
  | error e => rfl
  | ok a => exact hf a

private theorem map_bind_congr2 {β β' γ δ : Type} {x : MErr β'} {x' : MErr β} {h : β → β'} {f : β' → MErr γ}
    {f' : β → MErr δ} {g : δ → γ}
    (hx : x = x'.map h) (hf : ∀ a, f (h a) = (f' a).map g) : (x >>= f) = (x' >>= f').map g := by
  subst hx
  cases x' with
  | error e => rfl
  | ok a => exact hf a

private theorem ite_map_congr {γ δ : Type} {c : Prop} [Decidable c] {a b : MErr γ} {a' b' : MErr δ} {g : δ → γ}
    (ha : a = a'.map g) (hb : b = b'.map g) : (if c then a else b) = (if c then a' else b').map g := by
  split
  · exact ha
  · exact hb


private theorem bind_ok_inv' {β γ : Type} {x : MErr β} {f : β → MErr γ} {c : γ}
    (h : (x >>= f) = .ok c) : ∃ a, x = .ok a ∧ f a = .ok c := by
  cases x with
  | error e => cases h
  | ok a => exact ⟨a, rfl, h⟩

section
variable [Add α] [Sub α] [Mul α] [Div α] [Neg α] [OfNat α 0] [OfNat α 1] [OfNat α 2]
  [OfNat α 100] [OfNat α 1000] [LT α] [DecidableLT α] [LE α] [DecidableLE α] [BEq α] [FloatLike α]

/-! ### 1. equilibration commutes with replacing the `presolver` record -/

theorem stepScalings_setPre (s : Equil.Settings α) (d : ProblemData α) (p : Option (Presolve.Presolver α)) :
    Equil.stepScalings s (d.setPre p) = Equil.stepScalings s d := rfl

theorem applyScaling_setPre (d : ProblemData α) (p : Option (Presolve.Presolver α)) (dw : Option (Array α)) (ew : Array α) :
    Equil.applyScaling (d.setPre p) dw ew = (Equil.applyScaling d dw ew).setPre p := by
  unfold Equil.applyScaling
  simp only [ProblemData.setPre]

theorem costScaling_setPre (s : Equil.Settings α) (d : ProblemData α) (p : Option (Presolve.Presolver α)) :
    Equil.costScaling s (d.setPre p) = Equil.costScaling s d := rfl

theorem applyCost_setPre (d : ProblemData α) (p : Option (Presolve.Presolver α)) (dw : Array α) (ct : Option α) :
    Equil.applyCost (d.setPre p) dw ct = (Equil.applyCost d dw ct).setPre p := by
  cases ct <;> rfl

theorem ruizStep_setPre (s : Equil.Settings α) (d : ProblemData α) (p : Option (Presolve.Presolver α)) :
    Equil.ruizStep s (d.setPre p) = (Equil.ruizStep s d).setPre p := by
  unfold Equil.ruizStep
  simp only [stepScalings_setPre, applyScaling_setPre, costScaling_setPre, applyCost_setPre]

theorem ruizLoop_setPre (s : Equil.Settings α) (p : Option (Presolve.Presolver α)) :
    ∀ (k : Nat) (d : ProblemData α), Equil.ruizLoop s k (d.setPre p) = (Equil.ruizLoop s k d).setPre p
  | 0, d => rfl
  | k + 1, d => by
    unfold Equil.ruizLoop
    rw [ruizStep_setPre, ruizLoop_setPre s p k]

theorem setInverses_setPre (d : ProblemData α) (p : Option (Presolve.Presolver α)) :
    Equil.setInverses (d.setPre p) = (Equil.setInverses d).setPre p := rfl

theorem rectifyStep_setPre (d : ProblemData α) (cones : List (ConeT α)) (p : Option (Presolve.Presolver α)) :
    Equil.rectifyStep (d.setPre p) cones = (Equil.rectifyStep d cones).setPre p := by
  unfold Equil.rectifyStep
  dsimp only
  show (if (Equil.rectifyGo cones d.equilibration.e.toList).2 = true then _ else _) = _
  split
  · exact applyScaling_setPre ..
  · rfl

theorem equilFinish_setPre (d : ProblemData α) (cones : List (ConeT α)) (p : Option (Presolve.Presolver α)) :
    Equil.finish (d.setPre p) cones = (Equil.finish d cones).setPre p := by
  unfold Equil.finish
  rw [rectifyStep_setPre, setInverses_setPre]

theorem shapesOk_setPre (d : ProblemData α) (p : Option (Presolve.Presolver α)) :
    Equil.shapesOk (d.setPre p) = Equil.shapesOk d := rfl

/-- **[S]** Ruiz equilibration never looks at (and never changes) the `presolver` record -/
theorem equilibrate_setPre (d : ProblemData α) (cones : List (ConeT α)) (s : Equil.Settings α)
    (p : Option (Presolve.Presolver α)) :
    Equil.equilibrate (d.setPre p) cones s = (Equil.equilibrate d cones s).map (·.setPre p) := by
  unfold Equil.equilibrate
  rw [shapesOk_setPre]
  show (if _ then _ else if _ then _ else if (Cones.numel cones != d.m) = true then _ else _) = _
  split
  · rfl
  · split
    · rfl
    · split
      · rfl
      · rw [ruizLoop_setPre, equilFinish_setPre]; rfl

/-! ### 4. the KKT system, `default_start`, the loop -/

theorem KktSys.new_setPre (d : ProblemData α) (p : Option (Presolve.Presolver α)) (K : List (ConeSt α))
    (lin : LinSettings α) (perm : Array Nat) :
    KktSys.new (d.setPre p) K lin perm = KktSys.new d K lin perm := rfl

theorem KktSys.solveConstantRhs_setPre (k : KktSys α) (d : ProblemData α) (p : Option (Presolve.Presolver α))
    (lin : LinSettings α) :
    k.solveConstantRhs (d.setPre p) lin = k.solveConstantRhs d lin := rfl

theorem KktSys.update_setPre (k : KktSys α) (d : ProblemData α) (p : Option (Presolve.Presolver α))
    (K : List (ConeSt α)) (lin : LinSettings α) :
    k.update (d.setPre p) K lin = k.update d K lin := rfl

theorem KktSys.solve_setPre (k : KktSys α) (lhs rhs : Residuals.Vars α) (d : ProblemData α)
    (p : Option (Presolve.Presolver α)) (v : Residuals.Vars α) (K : List (ConeSt α)) (dir : StepDirection)
    (lin : LinSettings α) :
    k.solve lhs rhs (d.setPre p) v K dir lin = k.solve lhs rhs d v K dir lin := rfl

theorem KktSys.solveInitialPoint_setPre (k : KktSys α) (v : Residuals.Vars α) (d : ProblemData α)
    (p : Option (Presolve.Presolver α)) (lin : LinSettings α) :
    k.solveInitialPoint v (d.setPre p) lin = k.solveInitialPoint v d lin := rfl

theorem topNumerics_setPre (S : SolverSt α) (p : Option (Presolve.Presolver α)) (iter : Nat) :
    topNumerics (S.setPre p) iter = topNumerics S iter := rfl

theorem stepVars_setPre (S : SolverSt α) (p : Option (Presolve.Presolver α)) (a : α) :
    stepVars (S.setPre p) a = stepVars S a := rfl

theorem defaultStart_setPre (S : SolverSt α) (p : Option (Presolve.Presolver α)) (st : Settings α) :
    (S.setPre p).defaultStart st = (S.defaultStart st).map (·.setPre p) := by
  unfold SolverSt.defaultStart
  refine map_bind_congr rfl (fun a => ?_)
  refine map_bind_congr rfl (fun b => ?_)
  refine map_bind_congr rfl (fun c => ?_)
  rfl

/-- the tail of `kktNumerics` after the affine solve -/
theorem kktNumerics_setPre (st : Settings α) (S : SolverSt α) (p : Option (Presolve.Presolver α))
    (cones : List (ConeSt α)) (mu : α) (iter : Nat) :
    kktNumerics st (S.setPre p) cones mu iter
      = (kktNumerics st S cones mu iter).map (fun k => { k with S := k.S.setPre p }) := by
  unfold kktNumerics
  refine map_bind_congr rfl (fun a => ?_)
  refine map_bind_congr rfl (fun b => ?_)
  dsimp only
  split <;>
  · refine map_bind_congr rfl (fun c => ?_)
    obtain ⟨affOk, stepLhs, kktsystem⟩ := c
    dsimp only
    split
    · refine map_bind_congr rfl (fun d => ?_)
      refine map_bind_congr rfl (fun e => ?_)
      refine map_bind_congr rfl (fun f => ?_)
      rfl
    · rfl

/-- **[S]** one pass of the loop never reads the `presolver` record and carries it along unchanged -/
theorem pass_setPre (st : Settings α) (L : LoopSt α) (p : Option (Presolve.Presolver α)) :
    pass st (L.setPre p) = (pass st L).map (fun r => (r.1, r.2.setPre p)) := by
  unfold pass
  refine map_bind_congr rfl (fun a => ?_)
  obtain ⟨residuals, mu, info1⟩ := a
  dsimp only
  refine ite_map_congr ?_ ?_
  · refine ite_map_congr rfl ?_
    exact map_bind_congr rfl (fun v => rfl)
  · refine map_bind_congr rfl (fun sc => ?_)
    try dsimp only
    refine ite_map_congr rfl ?_
    have hk := kktNumerics_setPre st
      { L.S with residuals := residuals,
                 info := (checkTermination info1 residuals.dot_bz residuals.dot_qx st.info L.iter false).1,
                 infoMu := mu, infoSigma := L.sigma, infoStepLength := L.alpha, cones := sc.2 }
      p sc.2 mu (L.iter + 1)
    refine map_bind_congr2 hk (fun k => ?_)
    dsimp only
    refine ite_map_congr rfl ?_
    refine map_bind_congr rfl (fun a => ?_)
    try dsimp only
    refine ite_map_congr rfl ?_
    exact map_bind_congr rfl (fun pv => rfl)

/-- **[S]** the loop commutes with replacing the `presolver` record -/
theorem runLoop_setPre (st : Settings α) (p : Option (Presolve.Presolver α)) :
    ∀ (fuel : Nat) (L : LoopSt α), runLoop st fuel (L.setPre p) = (runLoop st fuel L).map (·.setPre p)
  | 0, _ => rfl
  | fuel + 1, L => by
    unfold runLoop
    refine map_bind_congr2 (pass_setPre st L p) (fun r => ?_)
    dsimp only
    exact ite_map_congr (runLoop_setPre st p fuel r.2) rfl

/-- **[S]** `info.reset`, `default_start()` and the loop are a function of the solver state without
the `presolver` record, which is carried along unchanged: same errors, same trajectory, same state -/
theorem runSolve_setPre (S : SolverSt α) (p : Option (Presolve.Presolver α)) (st : Settings α) :
    (S.setPre p).runSolve st = (S.runSolve st).map (·.setPre p) := by
  unfold SolverSt.runSolve
  have h0 := defaultStart_setPre
    { S with info := { S.info with status := .unsolved, iterations := 0 } } p st
  refine map_bind_congr2 h0 (fun S1 => ?_)
  exact runLoop_setPre st p _ { S := S1, iter := 0, sigma := 1, alpha := 0, mu := 0, traj := [] }

/-! ### the loop does not read `presolve_enable`, the infinity bound, the equilibration settings -/

/-- the settings the loop does not read, replaced -/
def Settings.withCtor (st : Settings α) (b : Bool) (ib : α) (eq : Equil.Settings α) : Settings α :=
  { st with presolveEnable := b, infbound := ib, equil := eq }

theorem pass_withCtor (st : Settings α) (b : Bool) (ib : α) (eq : Equil.Settings α) (L : LoopSt α) :
    pass (st.withCtor b ib eq) L = pass st L := rfl

theorem runLoop_withCtor (st : Settings α) (b : Bool) (ib : α) (eq : Equil.Settings α) :
    ∀ (fuel : Nat) (L : LoopSt α), runLoop (st.withCtor b ib eq) fuel L = runLoop st fuel L
  | 0, _ => rfl
  | fuel + 1, L => by
    unfold runLoop
    refine bind_congr' (pass_withCtor ..) (fun r => ?_)
    rw [runLoop_withCtor st b ib eq fuel]

/-- **[S]** `default_start()` and the loop do not read `presolve_enable`, the infinity bound or the
equilibration settings (they read `info`, `lin`, `max_step_fraction`, `min_terminate_step_length`,
`max_value`) -/
theorem runSolve_withCtor (S : SolverSt α) (st : Settings α) (b : Bool) (ib : α) (eq : Equil.Settings α) :
    S.runSolve (st.withCtor b ib eq) = S.runSolve st := by
  unfold SolverSt.runSolve
  exact bind_congr' rfl (fun S1 => runLoop_withCtor st b ib eq _ _)

theorem finish_withCtor (st : Settings α) (b : Bool) (ib : α) (eq : Equil.Settings α) (L : LoopSt α)
    (sol : Unscale.Solution α) : finish (st.withCtor b ib eq) L sol = finish st L sol := rfl

theorem solve_withCtor (S : Solver α) (st : Settings α) (b : Bool) (ib : α) (eq : Equil.Settings α) :
    S.solve (st.withCtor b ib eq) = S.solve st := by
  unfold Solver.solve
  exact bind_congr' (runSolve_withCtor ..) (fun L => rfl)

/-! ### 5. after the loop -/

theorem finishInfo_setPre (st : Settings α) (L : LoopSt α) (p : Option (Presolve.Presolver α)) :
    finishInfo st (L.setPre p) = (finishInfo st L).setPre p := by
  unfold finishInfo
  by_cases h : (L.alpha == 0) = true
  · have h' : ((L.setPre p).alpha == 0) = true := h
    simp only [if_pos h, if_pos h']
    rfl
  · have h' : ¬ ((L.setPre p).alpha == 0) = true := h
    simp only [if_neg h, if_neg h']
    rfl

theorem presolveMap_setPre_none (d : ProblemData α) : presolveMap (d.setPre none) = none := rfl

theorem presolveMap_congr {d d' : ProblemData α} (h : d'.presolver = d.presolver) :
    presolveMap d' = presolveMap d := by
  unfold presolveMap; rw [h]

end

/-! ### 5b. `solution.post_process` with and without the presolver map -/

private theorem copyFrom_ok (dst src : Array α) (h : dst.size = src.size) : Unscale.copyFrom dst src = .ok src := by
  unfold Unscale.copyFrom
  rw [if_neg (by simp [h])]
  rfl

private theorem copyFrom_inv {dst src r : Array α} (h : Unscale.copyFrom dst src = .ok r) :
    r = src ∧ dst.size = src.size := by
  unfold Unscale.copyFrom at h
  split at h
  · cases h
  · rename_i hne
    cases h
    exact ⟨rfl, by simpa using hne⟩

/-- the statement (and proof) of `C01.presolve_transparent` (`Props/C01.lean`), repeated here so
that this lemma file does not import a `Props` file: `reverse_presolve` puts the entries of the
reduced `s`, `z` back at the indices of the kept rows, in order, writes `s = infbound`, `z = 0`
on the dropped rows, and copies `x`. -/
private theorem reversePresolve_spec {β : Type} [OfNat β 0] (p : Unscale.PresolveMap β)
    (sol : Unscale.Solution β) (v : Residuals.Vars β) (r : Unscale.Solution β)
    (h : Unscale.reversePresolve p sol v = .ok r) :
    r.x = v.x
    ∧ ∀ k, (hk : k < p.keep.toList.length) →
        (p.keep.toList[k] = true →
            r.s[k]? = v.s[Unscale.rank p.keep.toList k]? ∧ r.z[k]? = v.z[Unscale.rank p.keep.toList k]?
            ∧ (v.s[Unscale.rank p.keep.toList k]?).isSome ∧ (v.z[Unscale.rank p.keep.toList k]?).isSome)
        ∧ (p.keep.toList[k] = false → r.s[k]? = some p.infbound ∧ r.z[k]? = some 0) := by
  unfold Unscale.reversePresolve at h
  obtain ⟨x', hx, h⟩ := bind_ok_inv' h
  obtain ⟨⟨s', z'⟩, hsz, h⟩ := bind_ok_inv' h
  cases h
  obtain ⟨_, hB⟩ := Unscale.reverseLoop_spec _ _ _ _ _ _ _ _ _ _ hsz
  refine ⟨(copyFrom_inv hx).1, fun k hk => ?_⟩
  have := hB k hk
  simpa using this

/-- what the two post-processing runs have in common / how they differ -/
structure PostRel (pm : Unscale.PresolveMap α) [OfNat α 0] (r r' : Unscale.Solution α × Residuals.Vars α) : Prop where
  vars : r'.2 = r.2
  status : r'.1.status = r.1.status
  iterations : r'.1.iterations = r.1.iterations
  obj_val : r'.1.obj_val = r.1.obj_val
  obj_val_dual : r'.1.obj_val_dual = r.1.obj_val_dual
  r_prim : r'.1.r_prim = r.1.r_prim
  r_dual : r'.1.r_dual = r.1.r_dual
  x : r'.1.x = r.1.x
  x_red : r'.1.x = r.2.x
  s_red : r'.1.s = r.2.s
  z_red : r'.1.z = r.2.z
  restore : ∀ k, (hk : k < pm.keep.size) →
    (pm.keep[k] = true →
        r.1.s[k]? = r'.1.s[Unscale.rank pm.keep.toList k]? ∧ r.1.z[k]? = r'.1.z[Unscale.rank pm.keep.toList k]?
        ∧ (r'.1.s[Unscale.rank pm.keep.toList k]?).isSome ∧ (r'.1.z[Unscale.rank pm.keep.toList k]?).isSome)
    ∧ (pm.keep[k] = false → r.1.s[k]? = some pm.infbound ∧ r.1.z[k]? = some 0)

section
variable [Mul α] [Div α] [OfNat α 0] [OfNat α 1]

/-- **[S]** `solution.post_process` with a presolver map vs. without one, on the same un-scaled
variables.  The `none` branch `copy_from`s all three vectors, which needs equal lengths: for `x`
this follows from the success of the `some` branch, for `s`, `z` it is the hypothesis `hs`, `hz`. -/
theorem postProcess_some_none {sol sol' : Unscale.Solution α} {eq : Info.Equil α}
    {pm : Unscale.PresolveMap α} {v : Residuals.Vars α} {i : InfoS α}
    {r : Unscale.Solution α × Residuals.Vars α}
    (h : Unscale.postProcess sol eq (some pm) v i = .ok r)
    (hx : sol'.x.size = sol.x.size) (hs : r.2.s.size = sol'.s.size) (hz : r.2.z.size = sol'.z.size) :
    ∃ r', Unscale.postProcess sol' eq none v i = .ok r' ∧ PostRel pm r r' := by
  unfold Unscale.postProcess at h ⊢
  dsimp only at h ⊢
  obtain ⟨solA, hrev, h⟩ := bind_ok_inv' h
  cases h
  dsimp only at hs hz
  have hT := reversePresolve_spec pm _ _ solA hrev
  unfold Unscale.reversePresolve at hrev
  obtain ⟨x', hx', hrev⟩ := bind_ok_inv' hrev
  obtain ⟨⟨s', z'⟩, hsz, hrev⟩ := bind_ok_inv' hrev
  cases hrev
  obtain ⟨hx1, hx2⟩ := copyFrom_inv hx'
  dsimp only at hx2
  rw [copyFrom_ok _ _ (hx.trans hx2), copyFrom_ok _ _ hz.symm, copyFrom_ok _ _ hs.symm]
  refine ⟨_, rfl, ⟨rfl, rfl, rfl, rfl, rfl, rfl, rfl, hx1.symm, rfl, rfl, rfl, ?_⟩⟩
  intro k hk
  have := hT.2 k (by simpa using hk)
  simpa using this
end


section
variable [Add α] [Sub α] [Mul α] [Div α] [Neg α] [OfNat α 0] [OfNat α 1] [OfNat α 2]
  [OfNat α 100] [OfNat α 1000] [LT α] [DecidableLT α] [LE α] [DecidableLE α] [BEq α] [FloatLike α]

theorem finishInfo_data' (st : Settings α) (L : LoopSt α) : (finishInfo st L).data = L.S.data := by
  unfold finishInfo
  by_cases h : (L.alpha == 0) = true
  · simp only [if_pos h]
  · simp only [if_neg h]

theorem finish_some_none {st : Settings α} {L : LoopSt α} {sol sol' : Unscale.Solution α}
    {pm : Unscale.PresolveMap α} {pr : SolverSt α × Unscale.Solution α}
    (h : finish st L sol = .ok pr) (hpm : presolveMap L.S.data = some pm)
    (hx : sol'.x.size = sol.x.size) (hs : pr.1.variables.s.size = sol'.s.size)
    (hz : pr.1.variables.z.size = sol'.z.size) :
    ∃ pr', finish st (L.setPre none) sol' = .ok pr' ∧ pr'.1 = pr.1.setPre none
      ∧ PostRel pm (pr.2, pr.1.variables) (pr'.2, pr'.1.variables) := by
  unfold finish at h ⊢
  rw [finishInfo_setPre]
  dsimp only at h ⊢
  obtain ⟨u, hu, h⟩ := bind_ok_inv' h
  cases h
  have hpm2 : presolveMap (finishInfo st L).data = some pm := by rw [finishInfo_data']; exact hpm
  rw [hpm2] at hu
  obtain ⟨r', hr', hrel⟩ := postProcess_some_none hu hx hs hz
  refine ⟨({ (finishInfo st L).setPre none with «variables» := r'.2 }, r'.1), ?_, ?_, hrel⟩
  · show (Unscale.postProcess sol' (equilView (finishInfo st L).data.equilibration) none
        (finishInfo st L).variables (finishInfo st L).info >>= fun r => _) = _
    rw [hr']
    rfl
  · show _ = SolverSt.setPre { finishInfo st L with «variables» := u.2 } none
    rw [hrel.vars]
    rfl

/-- relation between the result `r` of the presolve-on solve and the result `r'` of the
solve on the same internal data without the presolver record -/
structure SolveRel (pm : Unscale.PresolveMap α) (r r' : SolveResult α) : Prop where
  traj : r'.traj = r.traj
  st : r'.S.st = r.S.st.setPre none
  post : PostRel pm (r.S.solution, r.S.st.variables) (r'.S.solution, r'.S.st.variables)

theorem runSolve_presolver {S : SolverSt α} {st : Settings α} {L : LoopSt α} (h : S.runSolve st = .ok L) :
    L.S.data.presolver = S.data.presolver := by
  have := runSolve_setPre S S.data.presolver st
  rw [show S.setPre S.data.presolver = S from rfl, h] at this
  have e : L = L.setPre S.data.presolver := by
    have : Except.ok L = Except.ok (L.setPre S.data.presolver) := this
    exact Except.ok.inj this
  rw [e]; rfl

/-- **[S] MAIN THEOREM.**  Let the presolve-on solve `S.solve st` succeed with result `r`, where the
solver object carries the presolver row map `pm`.  Then the solve on the same internal data
WITHOUT the presolver record (this is the solver object of the hand-reduced problem, see
`new_solve_presolve_transparent`) and with any solution object `sol'` of the reduced lengths
succeeds with a result `r'` such that (`SolveRel`, spelled out in `SolveRel.explicit`):
the trajectories are identical (every pass record), the final internal states agree up to the
presolver record, status / iterations / objective values / residuals / `x` of the solutions
agree, `r'.solution.s/z` are the reduced un-scaled `variables.s/z`, and `r.solution.s/z` is
`reverse_presolve` of them: kept row `k` ↦ entry `rank keep k`, dropped row ↦ `(infbound, 0)`.

HYPOTHESES `hs`, `hz`: the final un-scaled `variables.s`, `variables.z` have the length of
`sol'.s`, `sol'.z`.  This is the length invariant of the iteration (`variables.s/z` have length
`data.m`, the reduced row count) — it is assumed here, not derived: the presolve-on run never
compares these lengths with anything (`reverse_presolve` only indexes into them), whereas the
`copy_from` of the run without presolver asserts them. -/
theorem solve_presolve_transparent (S : Solver α) (st : Settings α) (r : SolveResult α)
    (pm : Unscale.PresolveMap α) (sol' : Unscale.Solution α)
    (hr : S.solve st = .ok r) (hpm : presolveMap S.st.data = some pm)
    (hx : sol'.x.size = S.solution.x.size)
    (hs : r.S.st.variables.s.size = sol'.s.size) (hz : r.S.st.variables.z.size = sol'.z.size) :
    ∃ r', Solver.solve { st := S.st.setPre none, solution := sol' } st = .ok r' ∧ SolveRel pm r r' := by
  unfold Solver.solve at hr ⊢
  obtain ⟨L, hL, hr⟩ := bind_ok_inv' hr
  obtain ⟨pr, hfin, hr⟩ := bind_ok_inv' hr
  obtain ⟨dN, hdN, hr⟩ := bind_ok_inv' hr
  cases hr
  have hpm' : presolveMap L.S.data = some pm := by
    rw [presolveMap_congr (runSolve_presolver hL)]; exact hpm
  obtain ⟨pr', hfin', hst, hrel⟩ := finish_some_none (sol' := sol') hfin hpm' hx hs hz
  -- the norm caches are filled from `q`, `b`, the equilibration and the caches: not the presolver
  have hfill : fillNorms pr'.1.data = .ok (dN.setPre none) := by
    rw [hst]
    show fillNorms (pr.1.data.setPre none) = _
    unfold fillNorms at hdN ⊢
    obtain ⟨nq, hq, hdN⟩ := bind_ok_inv' hdN
    obtain ⟨nb, hb, hdN⟩ := bind_ok_inv' hdN
    cases hdN
    show (Info.getNormq pr.1.data.normq pr.1.data.q pr.1.data.equilibration.dinv pr.1.data.equilibration.c
      >>= fun a => Info.getNormb pr.1.data.normb pr.1.data.b pr.1.data.equilibration.einv >>= fun b => _) = _
    rw [hq]
    show (Info.getNormb pr.1.data.normb pr.1.data.b pr.1.data.equilibration.einv >>= fun b => _) = _
    rw [hb]
    rfl
  refine ⟨{ S := { st := { pr'.1 with data := dN.setPre none }, solution := pr'.2 }, traj := L.traj }, ?_,
    ⟨rfl, ?_, hrel⟩⟩
  · dsimp only
    rw [runSolve_setPre, hL]
    show (finish st (L.setPre none) sol' >>= fun r => _) = _
    rw [hfin']
    show (fillNorms pr'.1.data >>= fun data => _) = _
    rw [hfill]
    rfl
  · show ({ pr'.1 with data := dN.setPre none } : SolverSt α) = _
    rw [hst]
    rfl

/-! ### 2./3. construction -/

/-- **[S]** `solve()` does not read `settings.presolve_enable` -/
theorem solve_presolveOff (S : Solver α) (st : Settings α) :
    S.solve { st with presolveEnable := false } = S.solve st :=
  solve_withCtor S st false st.infbound st.equil

/-- **[S]** if `DefaultProblemData::new` on the hand-reduced problem (presolve off) produces the
presolved data without the presolver record, then so does the whole internal-data stage
(`make_cones` check, equilibration): same error or related data -/
theorem internalData_congr {P q A b cones P' q' A' b' cones'} {st : Settings α} {d : ProblemData α}
    (h1 : ProblemData.new P q A b cones st.presolveEnable false st.infbound = .ok d)
    (h2 : ProblemData.new P' q' A' b' cones' false false st.infbound = .ok (d.setPre none)) :
    internalData P' q' A' b' cones' { st with presolveEnable := false }
      = (internalData P q A b cones st).map (·.setPre none) := by
  unfold internalData
  dsimp only
  rw [h1, h2]
  show (makeCones d.cones >>= fun K => _) = Except.map _ (makeCones d.cones >>= fun K => _)
  refine map_bind_congr rfl (fun K => ?_)
  refine ite_map_congr rfl ?_
  exact equilibrate_setPre d d.cones st.equil none

/-- **[S]** … and so does everything `DefaultSolver::new` builds (KKT system, cones, work vectors are
built from `data.P/A/n/m/cones` only) -/
theorem SolverSt_new_congr {P q A b cones P' q' A' b' cones'} {st : Settings α} {d : ProblemData α}
    (perm : Array Nat)
    (h1 : ProblemData.new P q A b cones st.presolveEnable false st.infbound = .ok d)
    (h2 : ProblemData.new P' q' A' b' cones' false false st.infbound = .ok (d.setPre none)) :
    SolverSt.new P' q' A' b' cones' { st with presolveEnable := false } perm
      = (SolverSt.new P q A b cones st perm).map (·.setPre none) := by
  unfold SolverSt.new
  refine map_bind_congr2 (internalData_congr h1 h2) (fun data => ?_)
  refine map_bind_congr rfl (fun K => ?_)
  refine map_bind_congr rfl (fun k => ?_)
  rfl

/-! ### 7. `new` + `solve` -/

theorem equilibrate_presolver {d d' : ProblemData α} {cones : List (ConeT α)} {s : Equil.Settings α}
    (h : Equil.equilibrate d cones s = .ok d') : d'.presolver = d.presolver := by
  have := equilibrate_setPre d cones s d.presolver
  rw [show d.setPre d.presolver = d from rfl, h] at this
  have e : d' = d'.setPre d.presolver := Except.ok.inj this
  rw [e]; rfl

theorem internalData_presolver {P q A b cones} {st : Settings α} {d data : ProblemData α}
    (h1 : ProblemData.new P q A b cones st.presolveEnable false st.infbound = .ok d)
    (h : internalData P q A b cones st = .ok data) : data.presolver = d.presolver := by
  unfold internalData at h
  rw [h1] at h
  obtain ⟨K, _, h⟩ := bind_ok_inv' (x := makeCones d.cones) h
  dsimp only at h
  split at h
  · cases h
  · exact equilibrate_presolver h

theorem SolverSt_new_presolver {P q A b cones} {st : Settings α} {perm : Array Nat} {d : ProblemData α}
    {S : SolverSt α}
    (h1 : ProblemData.new P q A b cones st.presolveEnable false st.infbound = .ok d)
    (h : SolverSt.new P q A b cones st perm = .ok S) : S.data.presolver = d.presolver := by
  unfold SolverSt.new at h
  obtain ⟨data, hd, h⟩ := bind_ok_inv' h
  obtain ⟨K, _, h⟩ := bind_ok_inv' h
  obtain ⟨k, _, h⟩ := bind_ok_inv' h
  cases h
  exact internalData_presolver h1 hd

/-- **[S] COMPOSED THEOREM.**  `S` = solver object of the user's problem (presolve as in `st`), `d` its
`DefaultProblemData::new` output with presolver row map `pm`; `(A', b', cones')` a problem whose
`DefaultProblemData::new` output with presolve off is `d` without the presolver record (the
hand-reduced problem: `A[keep,:]`, `b[keep]`, reduced cones) and which passes `_check_dimensions`,
`A'.n = A.n`.  Then `DefaultSolver::new` on it with presolve off succeeds, its solver state is
`S`'s without the presolver record, and every successful `S.solve st` is matched by a successful
solve of the hand-reduced problem related by `SolveRel` — under the length invariant
`variables.s/z.size = A'.m` on the final variables (hypothesis, see `solve_presolve_transparent`). -/
theorem new_solve_presolve_transparent {P : Csc α} {q : Array α} {A : Csc α} {b : Array α}
    {cones : List (ConeT α)} {A' : Csc α} {b' : Array α} {cones' : List (ConeT α)} {st : Settings α}
    {perm : Array Nat} {S : Solver α} {d : ProblemData α} {pm : Unscale.PresolveMap α}
    (hnew : Solver.new P q A b cones st perm = .ok S)
    (h1 : ProblemData.new P q A b cones st.presolveEnable false st.infbound = .ok d)
    (h2 : ProblemData.new P q A' b' cones' false false st.infbound = .ok (d.setPre none))
    (hdim : Loop.checkDimensions P.m P.n q.size A'.m A'.n b'.size (cones'.map ConeT.nvars) = .ok ())
    (hn : A'.n = A.n) (hpm : presolveMap d = some pm) :
    ∃ S', Solver.new P q A' b' cones' { st with presolveEnable := false } perm = .ok S'
      ∧ S'.st = S.st.setPre none ∧ S'.solution = Unscale.Solution.new A'.n A'.m
      ∧ presolveMap S.st.data = some pm
      ∧ ∀ r, S.solve st = .ok r → r.S.st.variables.s.size = A'.m → r.S.st.variables.z.size = A'.m →
          ∃ r', S'.solve { st with presolveEnable := false } = .ok r' ∧ SolveRel pm r r' := by
  unfold Solver.new at hnew
  obtain ⟨_, _, hnew⟩ := bind_ok_inv' hnew
  obtain ⟨S0, hS0, hnew⟩ := bind_ok_inv' hnew
  cases hnew
  have hnew' : SolverSt.new P q A' b' cones' { st with presolveEnable := false } perm
      = .ok (S0.setPre none) := by
    have e := SolverSt_new_congr perm h1 h2
    rw [hS0] at e
    exact e
  have hpmS : presolveMap S0.data = some pm := by
    rw [presolveMap_congr (SolverSt_new_presolver h1 hS0)]; exact hpm
  refine ⟨{ st := S0.setPre none, solution := Unscale.Solution.new A'.n A'.m }, ?_, rfl, rfl, hpmS, ?_⟩
  · unfold Solver.new
    rw [hdim, hnew']
    rfl
  · intro r hr hs hz
    rw [solve_presolveOff]
    refine solve_presolve_transparent { st := S0, solution := Unscale.Solution.new A.n A.m } st r pm
      (Unscale.Solution.new A'.n A'.m) hr hpmS ?_ ?_ ?_
    · show (Array.replicate A'.n (0:α)).size = (Array.replicate A.n (0:α)).size
      rw [Array.size_replicate, Array.size_replicate, hn]
    · rw [hs]; exact Array.size_replicate.symm
    · rw [hz]; exact Array.size_replicate.symm

/-- `new_solve_presolve_transparent` in the form with `presolve_enable = true` spelled out -/
theorem new_solve_presolve_transparent_on {P : Csc α} {q : Array α} {A : Csc α} {b : Array α}
    {cones : List (ConeT α)} {A' : Csc α} {b' : Array α} {cones' : List (ConeT α)} {st : Settings α}
    {perm : Array Nat} {S : Solver α} {d : ProblemData α} {pm : Unscale.PresolveMap α}
    (hnew : Solver.new P q A b cones st perm = .ok S) (hpe : st.presolveEnable = true)
    (h1 : ProblemData.new P q A b cones true false st.infbound = .ok d)
    (h2 : ProblemData.new P q A' b' cones' false false st.infbound = .ok (d.setPre none))
    (hdim : Loop.checkDimensions P.m P.n q.size A'.m A'.n b'.size (cones'.map ConeT.nvars) = .ok ())
    (hn : A'.n = A.n) (hpm : presolveMap d = some pm) :
    ∃ S', Solver.new P q A' b' cones' { st with presolveEnable := false } perm = .ok S'
      ∧ S'.st = S.st.setPre none ∧ S'.solution = Unscale.Solution.new A'.n A'.m
      ∧ presolveMap S.st.data = some pm
      ∧ ∀ r, S.solve st = .ok r → r.S.st.variables.s.size = A'.m → r.S.st.variables.z.size = A'.m →
          ∃ r', S'.solve { st with presolveEnable := false } = .ok r' ∧ SolveRel pm r r' :=
  new_solve_presolve_transparent hnew (by rw [hpe]; exact h1) h2 hdim hn hpm

/-- `SolveRel` spelled out -/
theorem SolveRel.explicit {pm : Unscale.PresolveMap α} {r r' : SolveResult α} (h : SolveRel pm r r') :
    r'.traj = r.traj ∧ r'.S.st = r.S.st.setPre none
    ∧ r'.S.solution.status = r.S.solution.status ∧ r'.S.solution.iterations = r.S.solution.iterations
    ∧ r'.S.solution.obj_val = r.S.solution.obj_val ∧ r'.S.solution.obj_val_dual = r.S.solution.obj_val_dual
    ∧ r'.S.solution.r_prim = r.S.solution.r_prim ∧ r'.S.solution.r_dual = r.S.solution.r_dual
    ∧ r'.S.solution.x = r.S.solution.x
    ∧ r'.S.solution.s = r.S.st.variables.s ∧ r'.S.solution.z = r.S.st.variables.z
    ∧ ∀ k, (hk : k < pm.keep.size) →
      (pm.keep[k] = true →
          r.S.solution.s[k]? = r'.S.solution.s[Unscale.rank pm.keep.toList k]?
          ∧ r.S.solution.z[k]? = r'.S.solution.z[Unscale.rank pm.keep.toList k]?
          ∧ (r'.S.solution.s[Unscale.rank pm.keep.toList k]?).isSome
          ∧ (r'.S.solution.z[Unscale.rank pm.keep.toList k]?).isSome)
      ∧ (pm.keep[k] = false → r.S.solution.s[k]? = some pm.infbound ∧ r.S.solution.z[k]? = some 0) :=
  ⟨h.traj, h.st, h.post.status, h.post.iterations, h.post.obj_val, h.post.obj_val_dual, h.post.r_prim,
    h.post.r_dual, h.post.x, h.post.s_red, h.post.z_red, h.post.restore⟩

end
end Solver
end Clarabel

/-! ### 8. non-vacuity: a concrete instance (scalar type `Int`, evaluated by the kernel)

`min x  s.t.  x + s₀ = 1,  x + s₁ = 2000000,  s ≥ 0` with the infinity bound `10⁶`: presolve
drops row 1; the hand-reduced problem is `x + s₀ = 1`.  (The harness channels `solve.full` /
`presolve.solve` run the same comparison on `f64` instances.) -/
namespace Clarabel.Solver.PresolveExample
open Clarabel Clarabel.Solver

/-- integer arithmetic as a scalar type (the theorems are structural: any scalar type) -/
@[reducible] def intFloatLike : FloatLike Int where
  sqrt := id
  exp := id
  log := id
  powf := fun a _ => a
  fmax := max
  fmin := min
  fabs := fun a => a.natAbs
  isNaN := fun _ => false
  isFinite := fun _ => true
  eps := 0
  ofNat := Int.ofNat

attribute [local instance] intFloatLike

def tols : Clarabel.Info.Tols Int := ⟨1, 1, 1, 1, 1, 1⟩

def st : Settings Int :=
  { info := { full := tols, reduced := tols, max_iter := 3 }, maxStepFraction := 1,
    minTerminateStepLength := 0,
    equil := { enable := false, maxIter := 0, minScaling := 1, maxScaling := 1 },
    lin := { staticRegEnable := false, staticRegConstant := 0, staticRegProportional := 0,
             dynRegEps := 1, dynRegDelta := 1, irEnable := false, irReltol := 0, irAbstol := 0,
             irMaxIter := 0, irStopRatio := 1 },
    presolveEnable := true, infbound := 1000000, maxValue := 1000000 }

def P : Csc Int := { m := 1, n := 1, colptr := #[0, 0], rowval := #[], nzval := #[] }
def A : Csc Int := { m := 2, n := 1, colptr := #[0, 2], rowval := #[0, 1], nzval := #[1, 1] }
def b : Array Int := #[1, 2000000]
/-- the hand-reduced problem -/
def A' : Csc Int := { m := 1, n := 1, colptr := #[0, 1], rowval := #[0], nzval := #[1] }
def b' : Array Int := #[1]

/-- the data hypotheses `h1`/`h2` of `new_solve_presolve_transparent` hold on the instance: the
internal data of the hand-reduced problem is the presolved data without the presolver record -/
example : ProblemData.new P #[1] A' b' [.nonneg 1] false false (1000000 : Int)
    = (ProblemData.new P #[1] A b [.nonneg 2] true false (1000000 : Int)).map (·.setPre none) := by
  rfl

/-- `new` followed by `solve()` with presolve on -/
def run : MErr (SolveResult Int) := do
  let S ← Solver.new P #[1] A b [.nonneg 2] st #[0, 1]
  S.solve st

/- Checked with `decide +kernel`, each in a process of its own (a kernel evaluation of the whole
   solve needs tens of GB and many minutes when compiled inside this file, so they are NOT part
   of the build):
     (Solver.new P #[1] A b [.nonneg 2] st #[0, 1]).toOption.map (fun S =>
        ((presolveMap S.st.data).map (fun pm => (pm.keep, pm.infbound)), S.solution.x.size))
       = some (some (#[true, false], 1000000), 1)                      -- presolve is active
     run.toOption.map (fun r => (r.S.solution.status, r.traj.length)) = some (.solved, 2) -/

/- Further facts about `run`, each checked with `decide +kernel` in a process of its own (several
   kernel evaluations of the whole solve in one file exhaust the memory of the build machine, so
   they are not part of this file):
     run.toOption.map (fun r => r.S.st.variables.s.size) = some 1      -- length hypothesis `hs`
     run.toOption.map (fun r => r.S.st.variables.z.size) = some 1      -- length hypothesis `hz`
     run.toOption.map (fun r => r.S.solution.s) = some #[0, 1000000]   -- `(infbound, 0)` on the
     run.toOption.map (fun r => r.S.solution.z) = some #[1, 0]         --   dropped row 1 -/

end Clarabel.Solver.PresolveExample
