/-
  The assembled KKT matrix (upper-triangle layout) is a valid input of `QDLDLFactorisation::new`:
  a canonical encoding (C16 `Canonical0`) that is square, whose every column is strictly
  increasing and ends with its diagonal entry, is `wellFormed`, passes `check_structure` and
  stores no position twice (`NoDupCols`) — the three hypotheses of C12's `new_factor_correct`.
-/
import ClarabelModel.Qdldl
import ClarabelProofs.Lemmas.CscBasic
import ClarabelProofs.Lemmas.QdldlRepresents

namespace Clarabel.Lemmas.KktQdldlInput
open Clarabel Clarabel.Csc Clarabel.Qdldl Clarabel.C16

variable {α : Type}

theorem mono_of_noBad (l : List Nat) (h : NoBadAdjacent (fun a b => a > b) l) :
    ∀ i j (hij : i ≤ j) (hj : j < l.length), l[i]'(by omega) ≤ l[j] := by
  rw [noBadAdjacent_iff_getElem] at h
  intro i j hij hj
  induction j with
  | zero =>
    have : i = 0 := by omega
    subst this; exact Nat.le_refl _
  | succ j ih =>
    by_cases hi : i = j + 1
    · subst hi; exact Nat.le_refl _
    · have h1 := ih (by omega) (by omega)
      have h2 := h j hj
      omega

theorem getD_eq_toList_getElem (a : Array Nat) (k : Nat) (h : k < a.size) :
    a.getD k 0 = a.toList[k]'(by simpa using h) := by
  simp [Array.getD_eq_getD_getElem?, h]

theorem le_last_of_sorted (l : List Nat) (c : Nat) (hp : l.Pairwise (· < ·))
    (hl : l.getLast? = some c) : ∀ r ∈ l, r ≤ c := by
  intro r hr
  obtain ⟨i, hi, rfl⟩ := List.getElem_of_mem hr
  have hne : l ≠ [] := by intro h0; rw [h0] at hi; simp at hi
  rw [List.getLast?_eq_getLast_of_ne_nil hne] at hl
  have hc : c = l[l.length - 1]'(by omega) := by
    rw [← List.getLast_eq_getElem]; exact (Option.some.inj hl).symm
  rw [hc]
  by_cases h : i = l.length - 1
  · subst h; exact Nat.le_refl _
  · exact Nat.le_of_lt (List.pairwise_iff_getElem.mp hp i (l.length - 1) hi (by omega) (by omega))

/-- entry `t` of the stored arrays is entry `t − colptr[c]` of column `c` -/
theorem colRows_get (K : Csc α) (c t : Nat) (hp : K.colptr.getD c 0 ≤ t)
    (hq : t < K.colptr.getD (c + 1) 0) (hle : K.colptr.getD (c + 1) 0 ≤ K.rowval.size) :
    (K.colRows c)[t - K.colptr.getD c 0]? = some (K.rowval.getD t 0) := by
  unfold Csc.colRows
  rw [Array.getElem?_toList, Array.getElem?_extract, if_pos (by omega)]
  have : K.colptr.getD c 0 + (t - K.colptr.getD c 0) = t := by omega
  rw [this]
  have ht : t < K.rowval.size := by omega
  simp [Array.getD_eq_getD_getElem?, ht]

/-- [S] **a canonical square matrix whose columns end with their diagonal entry is a valid
QDLDL input.** -/
theorem qdldl_input_of_canonical (K : Csc α) (hc : Canonical0 K) (hsq : K.m = K.n)
    (hcols : ∀ c, c < K.n →
      (∃ p q, K.colptr[c]? = some p ∧ K.colptr[c + 1]? = some q ∧ p < q) ∧
      (K.colRows c).Pairwise (· < ·) ∧ (K.colRows c).getLast? = some c) :
    wellFormed K = true ∧ checkStructure K = .ok () ∧ NoDupCols K.colptr K.rowval := by
  have hC := hc.canon
  have hsz := hC.colptr_size
  have hlen : K.colptr.toList.length = K.n + 1 := by simpa using hsz
  have hmono := mono_of_noBad K.colptr.toList hC.colptr_mono
  -- colptr entries as `getD`
  have hgd : ∀ c, c < K.n → K.colptr.getD c 0 < K.colptr.getD (c + 1) 0 := by
    intro c hcn
    obtain ⟨⟨p, q, hp, hq, hpq⟩, _⟩ := hcols c hcn
    simp [Array.getD_eq_getD_getElem?, hp, hq, hpq]
  have hle : ∀ c, c ≤ K.n → K.colptr.getD c 0 ≤ K.rowval.size := by
    intro c hcn
    rw [← hC.colptr_last, getD_eq_toList_getElem _ c (by omega),
      getD_eq_toList_getElem _ K.n (by omega)]
    exact hmono c K.n hcn (by omega)
  refine ⟨?_, ?_, ?_⟩
  · -- wellFormed
    unfold wellFormed
    have h0 : K.colptr.getD 0 1 = 0 := by
      have := hc.colptr_zero
      have h0s : 0 < K.colptr.size := by omega
      simp only [Array.getD_eq_getD_getElem?, Array.getElem?_eq_getElem h0s,
        Option.getD_some] at this ⊢
      exact this
    have hadj : anyAdjacent (fun a b => decide (a > b)) K.colptr.toList = false := by
      rw [anyAdjacent_false_iff, noBadAdjacent_iff_getElem]
      intro k hk
      have := (noBadAdjacent_iff_getElem _ _).mp hC.colptr_mono k hk
      simpa using this
    simp [hsz, h0, hadj, hC.colptr_last, hC.len_eq]
  · -- check_structure
    unfold checkStructure
    have h1 : (K.m != K.n) = false := by simp [hsq]
    have h2 : K.isTriu = true := by
      unfold Csc.isTriu
      rw [List.all_eq_true]
      intro j hj
      rw [List.mem_range] at hj
      rw [List.all_eq_true]
      intro r hr
      obtain ⟨_, hp, hl⟩ := hcols j hj
      simpa using le_last_of_sorted _ j hp hl r hr
    have h3 : anyAdjacent (fun a b => decide (a ≥ b)) K.colptr.toList = false := by
      rw [anyAdjacent_false_iff, noBadAdjacent_iff_getElem]
      intro k hk
      have hk' : k < K.n := by omega
      have := hgd k hk'
      rw [getD_eq_toList_getElem _ k (by omega), getD_eq_toList_getElem _ (k + 1) (by omega)] at this
      simp only [ge_iff_le, decide_eq_true_eq, not_le]
      exact this
    simp [h1, h2, h3]
    rfl
  · -- no duplicates
    intro k t t' h1 h2 h1' h2' heq
    have hk : k < K.n := by
      by_contra hk
      have : K.colptr.getD (k + 1) 0 = 0 := by
        rw [Array.getD_eq_getD_getElem?, Array.getElem?_eq_none (by omega)]; rfl
      omega
    obtain ⟨_, hp, _⟩ := hcols k hk
    have hq := hle (k + 1) (by omega)
    have g := colRows_get K k t h1 h2 hq
    have g' := colRows_get K k t' h1' h2' hq
    by_contra hne
    have key : ∀ a b, K.colptr.getD k 0 ≤ a → a < b → b < K.colptr.getD (k + 1) 0 →
        K.rowval.getD a 0 = K.rowval.getD b 0 → False := by
      intro a b ha hab hb hab'
      have ga := colRows_get K k a ha (by omega) hq
      have gb := colRows_get K k b (by omega) hb hq
      obtain ⟨hia, ea⟩ := List.getElem?_eq_some_iff.mp ga
      obtain ⟨hib, eb⟩ := List.getElem?_eq_some_iff.mp gb
      have := List.pairwise_iff_getElem.mp hp _ _ hia hib (by omega)
      rw [ea, eb, hab'] at this
      exact Nat.lt_irrefl _ this
    rcases Nat.lt_or_gt_of_ne hne with h | h
    · exact key t t' h1 h h2' heq
    · exact key t' t h1' h h2 heq.symm

end Clarabel.Lemmas.KktQdldlInput
