/-
  Solving twice (C05), the relational part — the simulation interface `KktSim`
  (`Lemmas/SolverStaleRel.lean`) instantiated for the CONCRETE linear-solver model
  `KktSolver` (`DirectLDLKKTSolver` + QDLDL, `ClarabelModel/Solver/KktSolver.lean`).

  `QB K K'`: the two objects are equal except for the CONTENT of the four work vectors
  `x, b, work1, work2` (which have the same lengths).  It is stated field by field (nine equalities
  and four length equalities) because that form destructures well; `qb_iff` shows that it is the
  same as `K' = { K with x := K'.x, b := K'.b, work1 := K'.work1, work2 := K'.work2 }` + lengths.

  `QW K K'`: "`update` forgets" — the two objects answer every `update` call alike (same error or
  same flag) and are `QB`-related afterwards.

  `qdldl_kktSim : KktSim QW QB`:
  * `update` never reads the content of the four vectors (`regularize_and_refactor` reads the
    lengths of `work1, work2` and then overwrites both),
  * `setrhs` overwrites `b` (its guard reads `b.len()`), `solve` overwrites `x`
    (guard: `x.len()` vs `b.len()`), `iterative_refinement` overwrites `work1` (`e`) and uses
    `work2` only as the `dx` buffer, which is written (`ldlsolver.solve(K, dx, e)`) before it is read.
-/
import ClarabelProofs.Lemmas.SolverStaleKkt
namespace Clarabel.Solver
open Clarabel Info Residuals
set_option linter.unusedSectionVars false
set_option linter.unusedVariables false
variable {α : Type}

/-! ### generic `RelM` helpers -/

theorem RelM.ite {β γ : Type} {R : β → γ → Prop} {c : Prop} [Decidable c] {a b : MErr β} {a' b' : MErr γ}
    (h1 : c → RelM R a a') (h2 : ¬ c → RelM R b b') :
    RelM R (if c then a else b) (if c then a' else b') := by
  by_cases hc : c
  · simp only [hc, if_true]; exact h1 hc
  · simp only [hc, if_false]; exact h2 hc

theorem RelM.throw {β γ : Type} {R : β → γ → Prop} (e : ModelErr) :
    RelM R (throw e : MErr β) (throw e : MErr γ) := rfl

/-- a monadic left fold whose step function preserves a relation on the accumulator -/
theorem foldlM_relM {σ σ' β : Type} {R : σ → σ' → Prop} (f : σ → β → MErr σ) (f' : σ' → β → MErr σ')
    (hf : ∀ s s' a, R s s' → RelM R (f s a) (f' s' a)) :
    ∀ (l : List β) (init : σ) (init' : σ'), R init init' → RelM R (l.foldlM f init) (l.foldlM f' init') := by
  intro l
  induction l with
  | nil => intro i i' h; exact h
  | cons a l ih =>
    intro i i' h
    simp only [List.foldlM_cons]
    exact RelM.bind (hf i i' a h) ih

/-! ### the relation -/

/-- equal except for the CONTENT of the four work vectors `x, b, work1, work2` (same lengths) -/
structure QB (K K' : KktSolver α) : Prop where
  m : K.m = K'.m
  n : K.n = K'.n
  p : K.p = K'.p
  map : K.map = K'.map
  dsigns : K.dsigns = K'.dsigns
  Hsblocks : K.Hsblocks = K'.Hsblocks
  KKT : K.KKT = K'.KKT
  ldl : K.ldl = K'.ldl
  diagonalRegularizer : K.diagonalRegularizer = K'.diagonalRegularizer
  x : K.x.size = K'.x.size
  b : K.b.size = K'.b.size
  work1 : K.work1.size = K'.work1.size
  work2 : K.work2.size = K'.work2.size

/-- the formulation "`K'` is `K` with other work vectors of the same lengths" -/
theorem qb_iff (K K' : KktSolver α) :
    QB K K' ↔
      (K' = { K with x := K'.x, b := K'.b, work1 := K'.work1, work2 := K'.work2 } ∧
        K.x.size = K'.x.size ∧ K.b.size = K'.b.size ∧ K.work1.size = K'.work1.size ∧
        K.work2.size = K'.work2.size) := by
  obtain ⟨m, n, p, x, b, w1, w2, mp, ds, hs, kkt, ldl, dr⟩ := K
  obtain ⟨m', n', p', x', b', w1', w2', mp', ds', hs', kkt', ldl', dr'⟩ := K'
  constructor
  · rintro ⟨h1, h2, h3, h4, h5, h6, h7, h8, h9, hx, hb, hw1, hw2⟩
    dsimp only at h1 h2 h3 h4 h5 h6 h7 h8 h9 hx hb hw1 hw2
    subst h1 h2 h3 h4 h5 h6 h7 h8 h9
    exact ⟨rfl, hx, hb, hw1, hw2⟩
  · rintro ⟨he, hx, hb, hw1, hw2⟩
    dsimp only at he hx hb hw1 hw2
    injection he with h1 h2 h3 _ _ _ _ h4 h5 h6 h7 h8 h9
    subst h1 h2 h3 h4 h5 h6 h7 h8 h9
    exact ⟨rfl, rfl, rfl, rfl, rfl, rfl, rfl, rfl, rfl, hx, hb, hw1, hw2⟩

theorem QB.rfl' (K : KktSolver α) : QB K K := ⟨rfl, rfl, rfl, rfl, rfl, rfl, rfl, rfl, rfl, rfl, rfl, rfl, rfl⟩

theorem QB.of_eq {K K' : KktSolver α} (h : K = K') : QB K K' := h ▸ QB.rfl' K

theorem QB.symm {K K' : KktSolver α} (h : QB K K') : QB K' K :=
  ⟨h.m.symm, h.n.symm, h.p.symm, h.map.symm, h.dsigns.symm, h.Hsblocks.symm, h.KKT.symm, h.ldl.symm,
   h.diagonalRegularizer.symm, h.x.symm, h.b.symm, h.work1.symm, h.work2.symm⟩

theorem QB.trans {K K' K'' : KktSolver α} (h : QB K K') (h' : QB K' K'') : QB K K'' :=
  ⟨h.m.trans h'.m, h.n.trans h'.n, h.p.trans h'.p, h.map.trans h'.map, h.dsigns.trans h'.dsigns,
   h.Hsblocks.trans h'.Hsblocks, h.KKT.trans h'.KKT, h.ldl.trans h'.ldl,
   h.diagonalRegularizer.trans h'.diagonalRegularizer, h.x.trans h'.x, h.b.trans h'.b,
   h.work1.trans h'.work1, h.work2.trans h'.work2⟩

/-- replacing the four vectors by others of the same lengths -/
theorem QB.set (K : KktSolver α) {x b w1 w2 : Array α} (hx : K.x.size = x.size) (hb : K.b.size = b.size)
    (hw1 : K.work1.size = w1.size) (hw2 : K.work2.size = w2.size) :
    QB K { K with x := x, b := b, work1 := w1, work2 := w2 } :=
  ⟨rfl, rfl, rfl, rfl, rfl, rfl, rfl, rfl, rfl, hx, hb, hw1, hw2⟩

variable [Add α] [Sub α] [Mul α] [Div α] [Neg α] [OfNat α 0] [OfNat α 1] [LT α] [DecidableLT α]
  [LE α] [DecidableLE α] [BEq α] [FloatLike α]

/-- "`update` forgets": the two objects answer every `update` call alike and are `QB`-related
afterwards -/
def QW (K K' : KktSolver α) : Prop :=
  ∀ (cones : List (ConeSt α)) (st : LinSettings α),
    RelM (fun r r' => r.1 = r'.1 ∧ QB r.2 r'.2) (K.update cones st) (K'.update cones st)

/-! ### `update` does not read the four vectors -/

theorem QB.updateValues {K K' : KktSolver α} (h : QB K K') (index : Array Nat) (values : Array α) :
    RelM QB (K.updateValues index values) (K'.updateValues index values) := by
  obtain ⟨m, n, p, x, b, w1, w2, mp, ds, hs, kkt, ldl, dr⟩ := K
  obtain ⟨m', n', p', x', b', w1', w2', mp', ds', hs', kkt', ldl', dr'⟩ := K'
  obtain ⟨h1, h2, h3, h4, h5, h6, h7, h8, h9, hx, hb, hw1, hw2⟩ := h
  dsimp only at h1 h2 h3 h4 h5 h6 h7 h8 h9 hx hb hw1 hw2
  subst h1 h2 h3 h4 h5 h6 h7 h8 h9
  unfold KktSolver.updateValues
  dsimp only
  refine RelM.bind (RelM.refl_eq _) ?_
  intro nz _ e
  subst e
  refine RelM.bind (RelM.refl_eq _) ?_
  intro l _ e
  subst e
  exact ⟨rfl, rfl, rfl, rfl, rfl, rfl, rfl, rfl, rfl, hx, hb, hw1, hw2⟩

theorem QB.scaleValues {K K' : KktSolver α} (h : QB K K') (index : Array Nat) (scale : α) :
    RelM QB (K.scaleValues index scale) (K'.scaleValues index scale) := by
  obtain ⟨m, n, p, x, b, w1, w2, mp, ds, hs, kkt, ldl, dr⟩ := K
  obtain ⟨m', n', p', x', b', w1', w2', mp', ds', hs', kkt', ldl', dr'⟩ := K'
  obtain ⟨h1, h2, h3, h4, h5, h6, h7, h8, h9, hx, hb, hw1, hw2⟩ := h
  dsimp only at h1 h2 h3 h4 h5 h6 h7 h8 h9 hx hb hw1 hw2
  subst h1 h2 h3 h4 h5 h6 h7 h8 h9
  unfold KktSolver.scaleValues
  dsimp only
  refine RelM.bind (RelM.refl_eq _) ?_
  intro nz _ e
  subst e
  refine RelM.bind (RelM.refl_eq _) ?_
  intro l _ e
  subst e
  exact ⟨rfl, rfl, rfl, rfl, rfl, rfl, rfl, rfl, rfl, hx, hb, hw1, hw2⟩

theorem QB.updateSparseSoc {K K' : KktSolver α} (h : QB K K') (mp : Kkt.SparseMap) (c : Soc.Cone α) :
    RelM QB (K.updateSparseSoc mp c) (K'.updateSparseSoc mp c) := by
  unfold KktSolver.updateSparseSoc
  split
  · refine RelM.bind (h.updateValues _ _) ?_
    intro K1 K1' h1
    refine RelM.bind (h1.updateValues _ _) ?_
    intro K2 K2' h2
    refine RelM.bind (h2.scaleValues _ _) ?_
    intro K3 K3' h3
    refine RelM.bind (h3.scaleValues _ _) ?_
    intro K4 K4' h4
    exact h4.updateValues _ _
  · exact RelM.throw _

theorem QB.regularizeAndRefactor {K K' : KktSolver α} (h : QB K K') (st : LinSettings α) :
    RelM (fun r r' => r.1 = r'.1 ∧ QB r.2 r'.2) (K.regularizeAndRefactor st) (K'.regularizeAndRefactor st) := by
  obtain ⟨m, n, p, x, b, w1, w2, mp, ds, hs, kkt, ldl, dr⟩ := K
  obtain ⟨m', n', p', x', b', w1', w2', mp', ds', hs', kkt', ldl', dr'⟩ := K'
  obtain ⟨h1, h2, h3, h4, h5, h6, h7, h8, h9, hx, hb, hw1, hw2⟩ := h
  dsimp only at h1 h2 h3 h4 h5 h6 h7 h8 h9 hx hb hw1 hw2
  subst h1 h2 h3 h4 h5 h6 h7 h8 h9
  unfold KktSolver.regularizeAndRefactor
  dsimp only
  refine RelM.ite (fun _ => ?_) (fun _ => ?_)
  · refine RelM.bind (RelM.refl_eq _) ?_
    intro r _ e
    subst e
    rw [hw1, hw2]
    refine RelM.ite (fun _ => RelM.throw _) (fun _ => ?_)
    refine RelM.bind (RelM.refl_eq _) ?_
    intro l _ e
    subst e
    refine RelM.bind (RelM.refl_eq _) ?_
    intro l2 _ e
    subst e
    exact ⟨rfl, rfl, rfl, rfl, rfl, rfl, rfl, rfl, rfl, rfl, hx, hb, rfl, rfl⟩
  · refine RelM.bind (RelM.refl_eq _) ?_
    intro l _ e
    subst e
    exact ⟨rfl, rfl, rfl, rfl, rfl, rfl, rfl, rfl, rfl, rfl, hx, hb, hw1, hw2⟩

/-- `KKTSolver::update` commutes with replacing the four vectors -/
theorem QB.update {K K' : KktSolver α} (h : QB K K') (cones : List (ConeSt α)) (st : LinSettings α) :
    RelM (fun r r' => r.1 = r'.1 ∧ QB r.2 r'.2) (K.update cones st) (K'.update cones st) := by
  unfold KktSolver.update
  refine RelM.bind (RelM.refl_eq _) ?_
  intro hs _ e
  subst e
  rw [h.Hsblocks]
  refine RelM.ite (fun _ => RelM.throw _) (fun _ => ?_)
  dsimp only
  rw [show K.map.Hsblocks = K'.map.Hsblocks from congrArg _ h.map]
  have h0 : QB { K with Hsblocks := Vec.negate hs } { K' with Hsblocks := Vec.negate hs } :=
    { h with Hsblocks := rfl }
  refine RelM.bind (h0.updateValues _ _) ?_
  intro K1 K1' h1
  refine RelM.bind (R := fun (r : KktSolver α × Nat) (r' : KktSolver α × Nat) => QB r.1 r'.1 ∧ r.2 = r'.2) ?_ ?_
  · refine foldlM_relM _ _ ?_ cones _ _ ⟨h1, rfl⟩
    rintro ⟨Ka, i⟩ ⟨Ka', i'⟩ c ⟨ha, hi⟩
    dsimp only at ha hi ⊢
    subst hi
    cases c with
    | soc sc =>
      dsimp only
      refine RelM.ite (fun _ => ?_) (fun _ => ⟨ha, rfl⟩)
      rw [show Ka.map.sparse_maps = Ka'.map.sparse_maps from congrArg _ ha.map]
      refine RelM.bind (RelM.refl_eq _) ?_
      intro tm _ e
      subst e
      refine RelM.bind (ha.updateSparseSoc _ _) ?_
      intro K2 K2' h2
      exact ⟨h2, rfl⟩
    | _ => exact ⟨ha, rfl⟩
  · rintro ⟨Ka, i⟩ ⟨Ka', i'⟩ ⟨ha, _⟩
    exact ha.regularizeAndRefactor st

/-- `weaken`: objects that differ in the content of the four vectors only answer `update` alike -/
theorem QB.toQW {K K' : KktSolver α} (h : QB K K') : QW K K' := fun cones st => h.update cones st

theorem QW.rfl' (K : KktSolver α) : QW K K := (QB.rfl' K).toQW

/-! ### `setrhs` + `solve` overwrite the vectors before reading them -/

/-- `setrhs`: afterwards the two right-hand sides agree -/
theorem QB.setrhs {K K' : KktSolver α} (h : QB K K') (rhsx rhsz : Array α) :
    RelM (fun K1 K1' => QB K1 K1' ∧ K1.b = K1'.b) (K.setrhs rhsx rhsz) (K'.setrhs rhsx rhsz) := by
  obtain ⟨m, n, p, x, b, w1, w2, mp, ds, hs, kkt, ldl, dr⟩ := K
  obtain ⟨m', n', p', x', b', w1', w2', mp', ds', hs', kkt', ldl', dr'⟩ := K'
  obtain ⟨h1, h2, h3, h4, h5, h6, h7, h8, h9, hx, hb, hw1, hw2⟩ := h
  dsimp only at h1 h2 h3 h4 h5 h6 h7 h8 h9 hx hb hw1 hw2
  subst h1 h2 h3 h4 h5 h6 h7 h8 h9
  unfold KktSolver.setrhs
  dsimp only
  rw [hb]
  refine RelM.ite (fun _ => RelM.throw _) (fun _ => ?_)
  refine RelM.ite (fun _ => RelM.throw _) (fun _ => ?_)
  refine RelM.ite (fun _ => RelM.throw _) (fun _ => ?_)
  exact ⟨⟨rfl, rfl, rfl, rfl, rfl, rfl, rfl, rfl, rfl, hx, rfl, hw1, hw2⟩, rfl⟩

/-- the refinement loop never reads the incoming `dx` buffer: it is either returned untouched
(exit at the first test) or overwritten by `ldlsolver.solve(K, dx, e)` -/
theorem irLoop_dx (ldl : Qdldl.Factorisation α) (KKT : Csc α) (b : Array α) (normb : α) (st : LinSettings α)
    (k : Nat) (x dx dx' e : Array α) (norme : α) (hd : dx.size = dx'.size) :
    RelM (fun r r' => r.1 = r'.1 ∧ r.2.x = r'.2.x ∧ r.2.e = r'.2.e ∧ r.2.norme = r'.2.norme ∧
        r.2.dx.size = r'.2.dx.size)
      (irLoop ldl KKT b normb st k { x := x, dx := dx, e := e, norme := norme })
      (irLoop ldl KKT b normb st k { x := x, dx := dx', e := e, norme := norme }) := by
  cases k with
  | zero =>
    unfold irLoop
    exact ⟨rfl, rfl, rfl, rfl, hd⟩
  | succ k =>
    unfold irLoop
    dsimp only
    refine RelM.ite (fun _ => ⟨rfl, rfl, rfl, rfl, hd⟩) (fun _ => ?_)
    refine RelM.bind (RelM.refl_eq _) ?_
    intro d _ e1
    subst e1
    refine RelM.ite (fun _ => RelM.throw _) (fun _ => ?_)
    refine RelM.bind (RelM.refl_eq _) ?_
    rintro ⟨norme1, e1⟩ _ e2
    subst e2
    dsimp only
    refine RelM.ite (fun _ => ⟨rfl, rfl, rfl, rfl, rfl⟩) (fun _ => ?_)
    refine RelM.ite (fun _ => ?_) (fun _ => ?_)
    · exact RelM.ite (fun _ => ⟨rfl, rfl, rfl, rfl, rfl⟩) (fun _ => ⟨rfl, rfl, rfl, rfl, rfl⟩)
    · exact RelM.of_eq rfl fun _ => ⟨rfl, rfl, rfl, rfl, rfl⟩

/-- `iterative_refinement` on two objects with the same `x` and `b` -/
theorem QB.iterativeRefinement {K K' : KktSolver α} (h : QB K K') (hxe : K.x = K'.x) (hbe : K.b = K'.b)
    (st : LinSettings α) :
    RelM (fun r r' => r.1 = r'.1 ∧ QB r.2 r'.2 ∧ r.2.x = r'.2.x)
      (K.iterativeRefinement st) (K'.iterativeRefinement st) := by
  obtain ⟨m, n, p, x, b, w1, w2, mp, ds, hs, kkt, ldl, dr⟩ := K
  obtain ⟨m', n', p', x', b', w1', w2', mp', ds', hs', kkt', ldl', dr'⟩ := K'
  obtain ⟨h1, h2, h3, h4, h5, h6, h7, h8, h9, hx, hb, hw1, hw2⟩ := h
  dsimp only at h1 h2 h3 h4 h5 h6 h7 h8 h9 hx hb hw1 hw2 hxe hbe
  subst h1 h2 h3 h4 h5 h6 h7 h8 h9 hxe hbe
  unfold KktSolver.iterativeRefinement
  dsimp only
  refine RelM.bind (RelM.refl_eq _) ?_
  rintro ⟨norme, e⟩ _ e2
  subst e2
  dsimp only
  refine RelM.ite (fun _ => ⟨rfl, ⟨rfl, rfl, rfl, rfl, rfl, rfl, rfl, rfl, rfl, rfl, rfl, rfl, hw2⟩, rfl⟩)
    (fun _ => ?_)
  refine RelM.bind (irLoop_dx _ _ _ _ _ _ _ _ _ _ _ hw2) ?_
  rintro ⟨ok, s⟩ ⟨ok', s'⟩ ⟨g1, g2, g3, g4, g5⟩
  dsimp only at g1 g2 g3 g4 g5 ⊢
  exact ⟨g1, ⟨rfl, rfl, rfl, rfl, rfl, rfl, rfl, rfl, rfl, congrArg Array.size g2, rfl,
    congrArg Array.size g3, g5⟩, g2⟩

/-- `solve` on two objects with the same right-hand side -/
theorem QB.solve {K K' : KktSolver α} (h : QB K K') (hbe : K.b = K'.b) (st : LinSettings α) :
    RelM (fun r r' => r.1 = r'.1 ∧ r.2.1 = r'.2.1 ∧ r.2.2.1 = r'.2.2.1 ∧ QB r.2.2.2 r'.2.2.2)
      (K.solve st) (K'.solve st) := by
  obtain ⟨m, n, p, x, b, w1, w2, mp, ds, hs, kkt, ldl, dr⟩ := K
  obtain ⟨m', n', p', x', b', w1', w2', mp', ds', hs', kkt', ldl', dr'⟩ := K'
  obtain ⟨h1, h2, h3, h4, h5, h6, h7, h8, h9, hx, hb, hw1, hw2⟩ := h
  dsimp only at h1 h2 h3 h4 h5 h6 h7 h8 h9 hx hb hw1 hw2 hbe
  subst h1 h2 h3 h4 h5 h6 h7 h8 h9 hbe
  unfold KktSolver.solve
  dsimp only
  rw [hx]
  refine RelM.ite (fun _ => RelM.throw _) (fun _ => ?_)
  refine RelM.bind (RelM.refl_eq _) ?_
  intro x1 _ e
  subst e
  have tail : ∀ (r r' : Bool × KktSolver α), (r.1 = r'.1 ∧ QB r.2 r'.2 ∧ r.2.x = r'.2.x) →
      RelM (fun (r r' : Bool × Array α × Array α × KktSolver α) =>
          r.1 = r'.1 ∧ r.2.1 = r'.2.1 ∧ r.2.2.1 = r'.2.2.1 ∧ QB r.2.2.2 r'.2.2.2)
        (if r.2.x.size < r.2.n + r.2.m then do
            throw (ModelErr.panic "getlhs: range")
            pure (r.1, r.2.getlhs.1, r.2.getlhs.2, r.2)
          else pure (r.1, r.2.getlhs.1, r.2.getlhs.2, r.2))
        (if r'.2.x.size < r'.2.n + r'.2.m then do
            throw (ModelErr.panic "getlhs: range")
            pure (r'.1, r'.2.getlhs.1, r'.2.getlhs.2, r'.2)
          else pure (r'.1, r'.2.getlhs.1, r'.2.getlhs.2, r'.2)) := by
    rintro ⟨ok, K1⟩ ⟨ok', K1'⟩ ⟨g1, g2, g3⟩
    dsimp only at g1 g2 g3 ⊢
    unfold KktSolver.getlhs
    rw [g3, g2.n, g2.m]
    exact RelM.ite (fun _ => RelM.throw _) (fun _ => ⟨g1, rfl, rfl, g2⟩)
  refine RelM.ite (fun _ => ?_) (fun _ => ?_)
  · refine RelM.bind (QB.iterativeRefinement ?_ ?_ ?_ st) tail
    · exact ⟨rfl, rfl, rfl, rfl, rfl, rfl, rfl, rfl, rfl, rfl, rfl, hw1, hw2⟩
    · rfl
    · rfl
  · exact tail _ _ ⟨rfl, ⟨rfl, rfl, rfl, rfl, rfl, rfl, rfl, rfl, rfl, rfl, rfl, hw1, hw2⟩, rfl⟩

/-- **The concrete linear-solver model satisfies the simulation interface.** -/
theorem qdldl_kktSim : KktSim (QW (α := α)) QB where
  update := fun cones st h => h cones st
  weaken := QB.toQW
  solve := by
    intro K K' rhsx rhsz st h
    refine RelM.bind (h.setrhs rhsx rhsz) ?_
    rintro K1 K1' ⟨g1, g2⟩
    exact g1.solve g2 st

/-! ### further consequences, non-vacuity -/

theorem RelM.symm' {β γ : Type} {R : β → γ → Prop} {Q : γ → β → Prop} {x : MErr β} {x' : MErr γ}
    (h : RelM R x x') (hq : ∀ a a', R a a' → Q a' a) : RelM Q x' x := by
  cases x with
  | error e => cases x' with
    | error e' => exact (show e = e' from h).symm
    | ok a' => exact h.elim
  | ok a => cases x' with
    | error e' => exact h.elim
    | ok a' => exact hq a a' h

theorem RelM.trans' {β γ δ : Type} {R : β → γ → Prop} {Q : γ → δ → Prop} {T : β → δ → Prop}
    {x : MErr β} {x' : MErr γ} {x'' : MErr δ} (h : RelM R x x') (h' : RelM Q x' x'')
    (ht : ∀ a a' a'', R a a' → Q a' a'' → T a a'') : RelM T x x'' := by
  cases x with
  | error e => cases x' with
    | error e' => cases x'' with
      | error e'' => exact (show e = e' from h).trans h'
      | ok a'' => exact h'.elim
    | ok a' => exact h.elim
  | ok a => cases x' with
    | error e' => exact h.elim
    | ok a' => cases x'' with
      | error e'' => exact h'.elim
      | ok a'' => exact ht a a' a'' h h'

theorem QW.symm {K K' : KktSolver α} (h : QW K K') : QW K' K := fun cones st =>
  (h cones st).symm' fun _ _ g => ⟨g.1.symm, g.2.symm⟩

theorem QW.trans {K K' K'' : KktSolver α} (h : QW K K') (h' : QW K' K'') : QW K K'' := fun cones st =>
  (h cones st).trans' (h' cones st) fun _ _ _ g g' => ⟨g.1.trans g'.1, g.2.trans g'.2⟩

/-- `QW` is strictly weaker than `QB` in what it asks of the *current* content: whatever vectors of
the right lengths are put into an object, `update` answers alike -/
theorem QW.set (K : KktSolver α) {x b w1 w2 : Array α} (hx : K.x.size = x.size) (hb : K.b.size = b.size)
    (hw1 : K.work1.size = w1.size) (hw2 : K.work2.size = w2.size) :
    QW K { K with x := x, b := b, work1 := w1, work2 := w2 } := (QB.set K hx hb hw1 hw2).toQW

/-- related objects give the same `(is_success, x, z)` and related objects in a `setrhs; solve`
round, and again in the next one (the relation is an invariant of the solve sequence) -/
theorem QB.solve_twice {K K' : KktSolver α} (h : QB K K') (rx rz rx2 rz2 : Array α) (st : LinSettings α) :
    RelM (fun r r' => r.1 = r'.1 ∧ r.2.1 = r'.2.1 ∧ r.2.2.1 = r'.2.2.1 ∧ QB r.2.2.2 r'.2.2.2)
      (do let K1 ← K.setrhs rx rz; let r ← K1.solve st; let K2 ← r.2.2.2.setrhs rx2 rz2; K2.solve st)
      (do let K1 ← K'.setrhs rx rz; let r ← K1.solve st; let K2 ← r.2.2.2.setrhs rx2 rz2; K2.solve st) := by
  refine bind_solve qdldl_kktSim h rx rz st ?_
  rintro r r' ⟨_, _, _, g⟩
  exact qdldl_kktSim.solve rx2 rz2 st g

/-- non-vacuity: two different objects related by `QB` -/
def exK : KktSolver Nat :=
  { m := 1, n := 1, p := 0, x := #[0, 0], b := #[0, 0], work1 := #[0, 0], work2 := #[0, 0],
    map := default, dsigns := #[1, -1], Hsblocks := #[0], KKT := default,
    ldl := { perm := #[0, 1], iperm := #[0, 1], L := default, D := #[1, 1], Dinv := #[1, 1],
             etree := #[none, none], Lnz := #[0, 0], triuA := default, AtoPAPt := #[],
             rp := { Dsigns := #[1, -1], enable := true, eps := 0, delta := 0 },
             positiveInertia := 1, regularizeCount := 0, isSymbolic := false },
    diagonalRegularizer := 0 }

example : QB exK { exK with x := #[3, 4], work2 := #[5, 6] } ∧ exK ≠ { exK with x := #[3, 4], work2 := #[5, 6] } := by
  refine ⟨QB.set exK rfl rfl rfl rfl, fun h => ?_⟩
  have hx := congrArg (fun K => K.x.toList) h
  exact absurd hx (by decide)

/-- the interface is inhabited at the scalar type the driver runs (`Float`) -/
example : KktSim (QW (α := Float)) QB := qdldl_kktSim

end Clarabel.Solver
