/-
  "Exactly once": every entry of a clique block is a NON-overlap entry of exactly one clique (so
  the new row of an original row is unique), and different original rows get different new rows.
-/
import ClarabelProofs.Lemmas.ChordalCompactAssemble

namespace Clarabel.Chordal

/-- a separator vertex of clique `K` has its supernode in a clique strictly later in the
post-order (a proper ancestor of `K`) -/
theorem sep_owner_gt {t : SuperNodeTree} {n : Nat} (h : ValidTree t n) (K K' u : Nat)
    (hK : K < t.nCliques) (hK' : K' < t.nCliques) (hs : u ∈ t.sepAt K) (hn : u ∈ t.snodeAt K') : K < K' := by
  obtain ⟨m, hm⟩ : ∃ m, t.nCliques - K = m := ⟨_, rfl⟩
  induction m using Nat.strong_induction_on generalizing K with
  | _ m ih =>
    have hlt : K + 1 < t.nCliques := by
      rcases Nat.lt_or_ge (K + 1) t.nCliques with h' | h'
      · exact h'
      · exfalso
        have : K = t.nCliques - 1 := by omega
        rw [this, h.root_sep] at hs
        exact List.not_mem_nil hs
    obtain ⟨j, hKj, hpar, hsep⟩ := h.parent K hlt
    have huj := ((hsep u).1 hs).2
    rcases h.snode_or_sep hpar.1 huj with h1 | h1
    · have := h.snode_disj j K' u hpar.1 hK' h1.1 hn
      omega
    · have := ih (t.nCliques - j) (by have := hpar.1; omega) j hpar.1 h1.1 rfl
      omega

theorem mem_sortO_of_inj (p : SPattern) (hp : ValidPattern p) (l : List Nat)
    (hl : ∀ v ∈ l, v < p.ordering.size) (u : Nat) (hu : u < p.ordering.size) :
    p.ordv u ∈ p.sortO l ↔ u ∈ l := by
  rw [p.mem_sortO]
  constructor
  · rintro ⟨v, hv, he⟩
    rw [hp.ord_inj v u (hl v hv) hu he] at hv
    exact hv
  · intro h; exact ⟨u, h, rfl⟩

/-- an entry is a non-overlap entry of at most one clique -/
theorem owner_unique (p : SPattern) (hp : ValidPattern p) (i i' a b : Nat)
    (hi : i < p.sntree.nCliques) (hi' : i' < p.sntree.nCliques)
    (ha : a ∈ p.cliqueO i) (hb : b ∈ p.cliqueO i) (hno : ¬(a ∈ p.sepO i ∧ b ∈ p.sepO i))
    (ha' : a ∈ p.cliqueO i') (hb' : b ∈ p.cliqueO i') (hno' : ¬(a ∈ p.sepO i' ∧ b ∈ p.sepO i')) :
    i = i' := by
  have ht := hp.tree
  have hlt := ht.clique_lt i hi
  have hlt' := ht.clique_lt i' hi'
  have hsl : ∀ k, k < p.sntree.nCliques → ∀ v ∈ p.sntree.sepAt k, v < p.ordering.size :=
    fun k hk v hv => ht.clique_lt k hk v (List.mem_append_right _ hv)
  obtain ⟨ua, hua, rfl⟩ := (p.mem_sortO _ _).1 ha
  obtain ⟨ub, hub, rfl⟩ := (p.mem_sortO _ _).1 hb
  have hua' : ua ∈ p.sntree.cliqueAt i' := (mem_sortO_of_inj p hp _ hlt' ua (hlt ua hua)).1 ha'
  have hub' : ub ∈ p.sntree.cliqueAt i' := (mem_sortO_of_inj p hp _ hlt' ub (hlt ub hub)).1 hb'
  unfold SPattern.sepO at hno hno'
  rw [mem_sortO_of_inj p hp _ (hsl i hi) ua (hlt ua hua),
    mem_sortO_of_inj p hp _ (hsl i hi) ub (hlt ub hub)] at hno
  rw [mem_sortO_of_inj p hp _ (hsl i' hi') ua (hlt ua hua),
    mem_sortO_of_inj p hp _ (hsl i' hi') ub (hlt ub hub)] at hno'
  have ca := ht.snode_or_sep hi hua
  have cb := ht.snode_or_sep hi hub
  have ca' := ht.snode_or_sep hi' hua'
  have cb' := ht.snode_or_sep hi' hub'
  -- `ua` or `ub` is in the supernode of `i`, and of `i'`
  rcases ca with ⟨sa, _⟩ | ⟨qa, _⟩
  · rcases ca' with ⟨sa', _⟩ | ⟨qa', _⟩
    · exact ht.snode_disj i i' ua hi hi' sa sa'
    · -- ua ∈ sep i', so i' < i; then ub must be in snode i'
      have h1 := sep_owner_gt ht i' i ua hi' hi qa' sa
      rcases cb' with ⟨sb', _⟩ | ⟨qb', _⟩
      · rcases cb with ⟨sb, _⟩ | ⟨qb, _⟩
        · exact ht.snode_disj i i' ub hi hi' sb sb'
        · have h2 := sep_owner_gt ht i i' ub hi hi' qb sb'
          omega
      · exact absurd ⟨qa', qb'⟩ hno'
  · rcases cb with ⟨sb, _⟩ | ⟨qb, _⟩
    · rcases cb' with ⟨sb', _⟩ | ⟨qb', _⟩
      · exact ht.snode_disj i i' ub hi hi' sb sb'
      · have h1 := sep_owner_gt ht i' i ub hi' hi qb' sb
        rcases ca' with ⟨sa', _⟩ | ⟨qa', _⟩
        · have h2 := sep_owner_gt ht i i' ua hi hi' qa sa'
          omega
        · exact absurd ⟨qa', qb'⟩ hno'
    · exact absurd ⟨qa, qb⟩ hno

/-! ## the new row of an original row is unique, and the map is injective -/

theorem tri_pair_inj {a b a' b' : Nat} (h1 : a ≤ b) (h2 : a' ≤ b')
    (h : coordToUpperTriangularIndex (a, b) = coordToUpperTriangularIndex (a', b')) : a = a' ∧ b = b' := by
  have e1 := coord_index_inv h1
  have e2 := coord_index_inv h2
  rw [h, e2] at e1
  simp only [Prod.mk.injEq] at e1
  exact ⟨e1.1.symm, e1.2.symm⟩

theorem cone_unique (ci : ChordalInfo) (c c' r : Nat) (hc : c < ci.initCones.size) (hc' : c' < ci.initCones.size)
    (h1 : ci.rs c ≤ r) (h2 : r < ci.rs c + ci.nv c) (h1' : ci.rs c' ≤ r) (h2' : r < ci.rs c' + ci.nv c') :
    c = c' := by
  rcases Nat.lt_trichotomy c c' with h | h | h
  · have := ci.rs_mono c (c' - c) (by omega)
    rw [show c + (c' - c) = c' by omega, if_pos (by omega)] at this
    omega
  · exact h
  · have := ci.rs_mono c' (c - c') (by omega)
    rw [show c' + (c - c') = c by omega, if_pos (by omega)] at this
    omega

/-- **exactly once**: the row of the compact problem that holds an original row is unique -/
theorem NewRow.unique {ci : ChordalInfo} (hv : ValidInfo ci) {r v v' : Nat}
    (h : NewRow ci r v) (h' : NewRow ci r v') : v = v' := by
  obtain ⟨c, hc, h1, h2, h3⟩ := h
  obtain ⟨c', hc', h1', h2', h3'⟩ := h'
  have hcc := cone_unique ci c c' r hc hc' h1 h2 h1' h2'
  subst hcc
  rcases h3 with ⟨hp, rfl⟩ | ⟨p, hp, i, x, y, hi, hxy, hy, hno, hr, rfl⟩
  · rcases h3' with ⟨_, rfl⟩ | ⟨p', hp', _⟩
    · rfl
    · rw [hp] at hp'; cases hp'
  · rcases h3' with ⟨hp', _⟩ | ⟨p', hp', i', x', y', hi', hxy', hy', hno', hr', rfl⟩
    · rw [hp] at hp'; cases hp'
    · rw [hp] at hp'
      cases hp'
      have hvp := (hv.pat c hc p hp).1
      have hf := cliqueFacts p hvp i hi
      have hf' := cliqueFacts p hvp i' hi'
      have hle := (getD_le_iff_of_sorted hf.clique_sorted (by omega) hy).2 hxy
      have hle' := (getD_le_iff_of_sorted hf'.clique_sorted (by omega) hy').2 hxy'
      have htri : coordToUpperTriangularIndex ((p.cliqueO i).getD x 0, (p.cliqueO i).getD y 0) =
          coordToUpperTriangularIndex ((p.cliqueO i').getD x' 0, (p.cliqueO i').getD y' 0) := by omega
      obtain ⟨ea, eb⟩ := tri_pair_inj hle hle' htri
      have hii : i = i' := owner_unique p hvp i i' _ _ hi hi' (getD_mem_of_lt (by omega)) (getD_mem_of_lt hy) hno
        (by rw [ea]; exact getD_mem_of_lt (by omega)) (by rw [eb]; exact getD_mem_of_lt hy')
        (by rw [ea, eb]; exact hno')
      subst hii
      have := getD_inj_of_sorted hf.clique_sorted (by omega) (by omega) ea
      have := getD_inj_of_sorted hf.clique_sorted hy hy' eb
      subst_vars
      rfl

theorem rowStart_succ (p : SPattern) (row0 i : Nat) (hi : i + 1 < p.sntree.nCliques) :
    p.rowStart row0 i = p.rowStart row0 (i + 1) + p.blk (i + 1) := by
  unfold SPattern.rowStart
  rw [show p.sntree.nCliques - 1 - i = (p.sntree.nCliques - 1 - (i + 1)) + 1 by omega, descSum_succ,
    show p.sntree.nCliques - 1 - (p.sntree.nCliques - 1 - (i + 1)) = i + 1 by omega]
  omega

theorem rowStart_anti (p : SPattern) (row0 i d : Nat) (hi : i + d + 1 < p.sntree.nCliques) :
    p.rowStart row0 (i + d + 1) + p.blk (i + d + 1) ≤ p.rowStart row0 i := by
  induction d with
  | zero => rw [rowStart_succ p row0 i (by omega)]
  | succ d ih =>
    have := ih (by omega)
    have h2 := rowStart_succ p row0 (i + d + 1) (by omega)
    rw [show i + (d + 1) + 1 = i + d + 1 + 1 by omega]
    omega

/-- different original rows are held by different rows of the compact problem -/
theorem NewRow.inj {ci : ChordalInfo} (hv : ValidInfo ci) {r r' v : Nat}
    (h : NewRow ci r v) (h' : NewRow ci r' v) : r = r' := by
  -- the new row lies in the range of its cone
  have hrange : ∀ r c, c < ci.initCones.size → ci.rs c ≤ r → r < ci.rs c + ci.nv c →
      ((ci.patAt c = none ∧ v = ci.newStart c + (r - ci.rs c)) ∨
       (∃ p, ci.patAt c = some p ∧ ∃ i x y, i < p.sntree.nCliques ∧ x ≤ y ∧ y < (p.cliqueO i).length ∧
          ¬((p.cliqueO i).getD x 0 ∈ p.sepO i ∧ (p.cliqueO i).getD y 0 ∈ p.sepO i) ∧
          r = ci.rs c + coordToUpperTriangularIndex ((p.cliqueO i).getD x 0, (p.cliqueO i).getD y 0) ∧
          v = p.blockRow (ci.newStart c) i x y)) →
      ci.newStart c ≤ v ∧ v < ci.newStart (c + 1) := by
    intro r c hc h1 h2 h3
    rcases h3 with ⟨hp, rfl⟩ | ⟨p, hp, i, x, y, hi, hxy, hy, _, _, rfl⟩
    · rw [ci.newStart_succ_none c hp]; omega
    · rw [ci.newStart_succ_some c p hp]
      have := blockRow_lt p (hv.pat c hc p hp).1 (ci.newStart c) i x y hi hxy hy
      unfold SPattern.blockRow SPattern.rowStart at this ⊢
      omega
  obtain ⟨c, hc, h1, h2, h3⟩ := h
  obtain ⟨c', hc', h1', h2', h3'⟩ := h'
  have hr := hrange r c hc h1 h2 h3
  have hr' := hrange r' c' hc' h1' h2' h3'
  have hcc : c = c' := by
    rcases Nat.lt_trichotomy c c' with h | h | h
    · have := ci.newStart_mono (c + 1) (c' - (c + 1))
      rw [show c + 1 + (c' - (c + 1)) = c' by omega] at this
      omega
    · exact h
    · have := ci.newStart_mono (c' + 1) (c - (c' + 1))
      rw [show c' + 1 + (c - (c' + 1)) = c by omega] at this
      omega
  subst hcc
  rcases h3 with ⟨hp, hv1⟩ | ⟨p, hp, i, x, y, hi, hxy, hy, hno, hr1, hv1⟩
  · rcases h3' with ⟨_, hv2⟩ | ⟨p', hp', _⟩
    · omega
    · rw [hp] at hp'; cases hp'
  · rcases h3' with ⟨hp', _⟩ | ⟨p', hp', i', x', y', hi', hxy', hy', hno', hr2, hv2⟩
    · rw [hp] at hp'; cases hp'
    · rw [hp] at hp'
      cases hp'
      have hvp := (hv.pat c hc p hp).1
      have hf := cliqueFacts p hvp i hi
      have hf' := cliqueFacts p hvp i' hi'
      have hb1 := coord_index_lt hxy hy
      have hb2 := coord_index_lt hxy' hy'
      rw [hf.clique_len] at hb1
      rw [hf'.clique_len] at hb2
      have hb1' : coordToUpperTriangularIndex (x, y) < p.blk i := hb1
      have hb2' : coordToUpperTriangularIndex (x', y') < p.blk i' := hb2
      unfold SPattern.blockRow at hv1 hv2
      have hii : i = i' := by
        rcases Nat.lt_trichotomy i i' with h | h | h
        · have := rowStart_anti p (ci.newStart c) i (i' - i - 1) (by omega)
          rw [show i + (i' - i - 1) + 1 = i' by omega] at this
          omega
        · exact h
        · have := rowStart_anti p (ci.newStart c) i' (i - i' - 1) (by omega)
          rw [show i' + (i - i' - 1) + 1 = i by omega] at this
          omega
      subst hii
      have htri : coordToUpperTriangularIndex (x, y) = coordToUpperTriangularIndex (x', y') := by omega
      obtain ⟨rfl, rfl⟩ := tri_pair_inj hxy hxy' htri
      omega

end Clarabel.Chordal
