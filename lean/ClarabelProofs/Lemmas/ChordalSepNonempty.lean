/-
  No empty separator below the root in a clique tree produced by the chordal analysis.

  `psd_complete` (`src/solver/chordal/decomp/psd_completion.rs`) runs, for every clique `j` other
  than the root, a Cholesky factorisation (SVD fallback) of the block `W[α, α]`, `α` = separator of
  clique `j`.  An empty `α` gives `0 × 0` blocks, LAPACK rejects `lda = 0`, and the `unwrap` of the
  SVD fallback panics.  This file proves that the analysis never produces such a clique:

  * `ValidTree.sep_ne_nil_of_connected` : in a valid clique tree whose cliques cover the edges of a
    *connected* graph on the vertices, every clique but the root has a non-empty separator
    (abstract, tree coordinates);
  * `LPat.Filled.cut_edge` : a filled pattern is connected (cut form) — this is the clause
    `connected` of `LPat.Filled`, i.e. what `connect_graph` (`chordal_info.rs`) establishes;
  * `ValidPattern.sep_ne_nil_of_connected` : the same at the level of a pattern, edges and
    connectivity in original coordinates;
  * `analysis_separators_nonempty` : end to end for `SparsityPattern::new` with each of the three
    merge strategies; `FromAnalysis.separators_nonempty`, `…getSeparators_size_ne_zero` : the same
    for every stored pattern of a `ChordalInfo`, and in the vocabulary of `psd_complete`;
  * `exDiscTree` : the converse side — `ValidTree` alone (which knows nothing about connectivity)
    does not exclude an empty separator below the root: two isolated vertices.
-/
import ClarabelProofs.Lemmas.ChordalFromAnalysis
import ClarabelModel.Chordal.PsdCompletion

namespace Clarabel.Chordal
open SuperNodeTree

/-! ## connectivity of a filled pattern, cut form -/

/-- [S] **a filled pattern is connected** (cut form): whenever a set `S` of vertices contains some
vertex `< L.n` and misses another one, some etree edge `v — L.par v` (an entry of `L`:
`L.par v ∈ L.col v`) crosses the cut.  Consequence of the clause `connected` (`connect_graph`). -/
theorem LPat.Filled.cut_edge {L : LPat} (h : L.Filled) (S : Nat → Prop)
    (hin : ∃ u, u < L.n ∧ S u) (hout : ∃ w, w < L.n ∧ ¬ S w) :
    ∃ v, v + 1 < L.n ∧ L.par v ∈ L.col v ∧
      ((S v ∧ ¬ S (L.par v)) ∨ (S (L.par v) ∧ ¬ S v)) := by
  classical
  by_contra hno
  have hsame : ∀ v, v + 1 < L.n → (S v ↔ S (L.par v)) := by
    intro v hv
    by_cases h1 : S v <;> by_cases h2 : S (L.par v)
    · exact ⟨fun _ => h2, fun _ => h1⟩
    · exact absurd ⟨v, hv, h.par_mem (h.connected v hv), Or.inl ⟨h1, h2⟩⟩ hno
    · exact absurd ⟨v, hv, h.par_mem (h.connected v hv), Or.inr ⟨h2, h1⟩⟩ hno
    · exact ⟨fun a => absurd a h1, fun a => absurd a h2⟩
  have key : ∀ d v, v < L.n → L.n - 1 - v = d → (S v ↔ S (L.n - 1)) := by
    intro d
    induction d using Nat.strong_induction_on with
    | _ d ih =>
      intro v hv hd
      by_cases hlast : v + 1 < L.n
      · obtain ⟨b1, b2⟩ := h.par_bounds hlast
        exact (hsame v hlast).trans (ih (L.n - 1 - L.par v) (by omega) (L.par v) b2 rfl)
      · have : v = L.n - 1 := by omega
        rw [this]
  obtain ⟨u, hu, hSu⟩ := hin
  obtain ⟨w, hw, hSw⟩ := hout
  exact hSw ((key _ w hw rfl).2 ((key _ u hu rfl).1 hSu))

/-! ## ancestors in the clique tree -/

/-- `Desc t i k` : the clique with post-order index `i` is an ancestor of (or equal to) the clique
with post-order index `k` -/
inductive Desc (t : SuperNodeTree) (i : Nat) : Nat → Prop
  | refl : Desc t i i
  | step {k j : Nat} : k < j → t.IsParent k j → Desc t i j → Desc t i k

namespace Desc
variable {t : SuperNodeTree} {n : Nat}

theorem le {i k : Nat} (h : Desc t i k) : k ≤ i := by
  induction h with
  | refl => exact Nat.le_refl _
  | step hkj _ _ ih => omega

theorem trans {i j k : Nat} (h1 : Desc t i j) (h2 : Desc t j k) : Desc t i k := by
  induction h2 with
  | refl => exact h1
  | step hkj hp _ ih => exact Desc.step hkj hp ih

/-- running intersection: every clique containing `u` is a descendant of the clique whose
supernode contains `u` -/
theorem of_mem (h : ValidTree t n) {u ku : Nat} (hku : ku < t.nCliques) (hus : u ∈ t.snodeAt ku) :
    ∀ d k, t.nCliques - k = d → k < t.nCliques → u ∈ t.cliqueAt k → Desc t ku k := by
  intro d
  induction d using Nat.strong_induction_on with
  | _ d ih =>
    intro k hd hk huk
    rcases h.snode_or_sep hk huk with h1 | h1
    · have hkk := h.snode_disj k ku u hk hku h1.1 hus
      rw [hkk]; exact Desc.refl
    · have hlt : k + 1 < t.nCliques := by
        apply Classical.byContradiction
        intro hc
        have : k = t.nCliques - 1 := by omega
        rw [this, h.root_sep] at h1
        exact absurd h1.1 List.not_mem_nil
      obtain ⟨j, hkj, hpar, hsep⟩ := h.parent k hlt
      have huj := ((hsep u).1 h1.1).2
      have hj := hpar.1
      exact Desc.step hkj hpar (ih (t.nCliques - j) (by omega) j rfl hj huj)

/-- below a clique with an empty separator, every vertex of a descendant clique belongs to the
supernode of a descendant clique -/
theorem top_of_mem (h : ValidTree t n) {i : Nat} (hsep : t.sepAt i = []) {k v : Nat}
    (hd : Desc t i k) (hk : k < t.nCliques) (hv : v ∈ t.cliqueAt k) :
    ∃ k', Desc t i k' ∧ k' < t.nCliques ∧ v ∈ t.snodeAt k' := by
  induction hd with
  | refl =>
    refine ⟨i, Desc.refl, hk, ?_⟩
    unfold SuperNodeTree.cliqueAt at hv
    rw [hsep, List.append_nil] at hv
    exact hv
  | @step k j hkj hpar hdj ih =>
    rcases h.snode_or_sep hk hv with h1 | h1
    · exact ⟨k, Desc.step hkj hpar hdj, hk, h1.1⟩
    · have hj := hpar.1
      have hlt : k + 1 < t.nCliques := by omega
      obtain ⟨j', _, hpar', hsep'⟩ := h.parent k hlt
      have hjj : j = j' := h.parent_unique hpar hpar'
      subst hjj
      exact ih hj ((hsep' v).1 h1.1).2

end Desc

/-! ## the abstract theorem -/

/-- [S] **no empty separator below the root** (tree coordinates): let `t` be a valid clique tree on
`0 .. n-1` and `adj` a graph on these vertices whose edges are covered by the cliques (`hcov`) and
which is connected (`hconn`, cut form: every proper non-empty subset of the vertices is left by
some edge).  Then every clique other than the root has a non-empty separator. -/
theorem ValidTree.sep_ne_nil_of_connected {t : SuperNodeTree} {n : Nat} (h : ValidTree t n)
    (adj : Nat → Nat → Prop)
    (hcov : ∀ u w, adj u w → ∃ k, k < t.nCliques ∧ u ∈ t.cliqueAt k ∧ w ∈ t.cliqueAt k)
    (hconn : ∀ S : Nat → Prop, (∃ u, u < n ∧ S u) → (∃ w, w < n ∧ ¬ S w) →
        ∃ u w, adj u w ∧ ((S u ∧ ¬ S w) ∨ (S w ∧ ¬ S u))) :
    ∀ i, i + 1 < t.nCliques → t.sepAt i ≠ [] := by
  intro i hi hsep
  have hi' : i < t.nCliques := by omega
  have hS : ∀ v, (∃ k, k < t.nCliques ∧ Desc t i k ∧ v ∈ t.cliqueAt k) →
      ∃ k', Desc t i k' ∧ k' < t.nCliques ∧ v ∈ t.snodeAt k' := by
    rintro v ⟨k, hk, hd, hv⟩
    exact Desc.top_of_mem h hsep hd hk hv
  have hin : ∃ u, u < n ∧ ∃ k, k < t.nCliques ∧ Desc t i k ∧ u ∈ t.cliqueAt k := by
    obtain ⟨u, hu⟩ := List.exists_mem_of_ne_nil _ (h.snode_ne i hi')
    exact ⟨u, h.clique_lt i hi' u (ValidTree.snode_sub_clique i u hu), i, hi', Desc.refl,
      ValidTree.snode_sub_clique i u hu⟩
  have hout : ∃ w, w < n ∧ ¬ ∃ k, k < t.nCliques ∧ Desc t i k ∧ w ∈ t.cliqueAt k := by
    have hr : t.nCliques - 1 < t.nCliques := by omega
    obtain ⟨w, hw⟩ := List.exists_mem_of_ne_nil _ (h.snode_ne _ hr)
    refine ⟨w, h.clique_lt _ hr w (ValidTree.snode_sub_clique _ w hw), fun hSw => ?_⟩
    obtain ⟨k', hd, hk', hwk'⟩ := hS w hSw
    have h1 := h.snode_disj k' _ w hk' hr hwk' hw
    have h2 := hd.le
    omega
  obtain ⟨u, w, hadj, hcut⟩ := hconn _ hin hout
  obtain ⟨k, hk, huk, hwk⟩ := hcov u w hadj
  have cross : ∀ a b, a ∈ t.cliqueAt k → b ∈ t.cliqueAt k →
      (∃ k, k < t.nCliques ∧ Desc t i k ∧ a ∈ t.cliqueAt k) →
      (∃ k, k < t.nCliques ∧ Desc t i k ∧ b ∈ t.cliqueAt k) := by
    intro a b ha hb hSa
    obtain ⟨ka, hda, hka, haka⟩ := hS a hSa
    exact ⟨k, hk, hda.trans (Desc.of_mem h hka haka _ k rfl hk ha), hb⟩
  rcases hcut with ⟨h1, h2⟩ | ⟨h1, h2⟩
  · exact h2 (cross u w huk hwk h1)
  · exact h2 (cross w u hwk huk h1)

/-! ## pattern level: original coordinates -/

/-- [S] **no empty separator below the root** (pattern level): for a valid pattern whose cliques
(sorted original coordinates, `cliqueO`) cover the entries `edges` of a graph that is connected on
`0 .. ordering.size - 1` (original coordinates, cut form), every clique other than the root has a
non-empty separator. -/
theorem ValidPattern.sep_ne_nil_of_connected {p : SPattern} (hp : ValidPattern p)
    (edges : List (Nat × Nat))
    (hcov : ∀ e ∈ edges, ∃ i, i < p.sntree.nCliques ∧ e.1 ∈ p.cliqueO i ∧ e.2 ∈ p.cliqueO i)
    (hconn : ∀ S : Nat → Prop, (∃ x, x < p.ordering.size ∧ S x) →
        (∃ y, y < p.ordering.size ∧ ¬ S y) →
        ∃ x y, (x, y) ∈ edges ∧ ((S x ∧ ¬ S y) ∨ (S y ∧ ¬ S x))) :
    ∀ i, i + 1 < p.sntree.nCliques → p.sntree.sepAt i ≠ [] := by
  have ht := hp.tree
  have hinj : ∀ u v, u < p.ordering.size → v < p.ordering.size → p.ordv u = p.ordv v → u = v :=
    hp.ord_inj
  have hlt : ∀ u, u < p.ordering.size → p.ordv u < p.ordering.size := hp.ord_lt
  refine ht.sep_ne_nil_of_connected
    (fun u w => u < p.ordering.size ∧ w < p.ordering.size ∧ (p.ordv u, p.ordv w) ∈ edges) ?_ ?_
  · rintro u w ⟨hu, hw, he⟩
    obtain ⟨k, hk, h1, h2⟩ := hcov _ he
    unfold SPattern.cliqueO at h1 h2
    refine ⟨k, hk, ?_, ?_⟩
    · obtain ⟨u', hu', e⟩ := (p.mem_sortO _ _).1 h1
      have := hinj u' u (ht.clique_lt k hk u' hu') hu e
      rw [← this]; exact hu'
    · obtain ⟨w', hw', e⟩ := (p.mem_sortO _ _).1 h2
      have := hinj w' w (ht.clique_lt k hk w' hw') hw e
      rw [← this]; exact hw'
  · intro S' hin hout
    obtain ⟨u, hu, hSu⟩ := hin
    obtain ⟨w, hw, hSw⟩ := hout
    have conv : ∀ c, c < p.ordering.size →
        ((∃ u, u < p.ordering.size ∧ p.ordv u = p.ordv c ∧ S' u) ↔ S' c) := by
      intro c hc
      constructor
      · rintro ⟨c', hc', e, hS⟩
        rw [← hinj c' c hc' hc e]; exact hS
      · intro hS
        exact ⟨c, hc, rfl, hS⟩
    obtain ⟨x, y, he, hcut⟩ := hconn (fun x => ∃ u, u < p.ordering.size ∧ p.ordv u = x ∧ S' u)
      ⟨p.ordv u, hlt u hu, u, hu, rfl, hSu⟩
      ⟨p.ordv w, hlt w hw, fun hS => hSw ((conv w hw).1 hS)⟩
    obtain ⟨k, hk, h1, h2⟩ := hcov _ he
    unfold SPattern.cliqueO at h1 h2
    obtain ⟨a, ha, ea⟩ := (p.mem_sortO _ _).1 h1
    obtain ⟨b, hb, eb⟩ := (p.mem_sortO _ _).1 h2
    have haN := ht.clique_lt k hk a ha
    have hbN := ht.clique_lt k hk b hb
    simp only at ea eb
    subst ea
    subst eb
    refine ⟨a, b, ⟨haN, hbN, he⟩, ?_⟩
    rw [conv a haN, conv b hbN] at hcut
    exact hcut

/-! ## end to end: the output of `SparsityPattern::new` -/

/-- the entries of the filled pattern `L` in original coordinates: all pairs
`(ordering[v], ordering[r])`, `v < L.n`, `r ∈ L.col v` -/
def lEdges (L : LPat) (ordering : Array Nat) : List (Nat × Nat) :=
  (List.range L.n).flatMap (fun v => (L.col v).map (fun r => (ordering.getD v 0, ordering.getD r 0)))

theorem mem_lEdges (L : LPat) (ordering : Array Nat) (e : Nat × Nat) :
    e ∈ lEdges L ordering ↔
      ∃ v, v < L.n ∧ ∃ r, r ∈ L.col v ∧ e = (ordering.getD v 0, ordering.getD r 0) := by
  unfold lEdges
  simp only [List.mem_flatMap, List.mem_range, List.mem_map]
  constructor
  · rintro ⟨v, hv, r, hr, e'⟩
    exact ⟨v, hv, r, hr, e'.symm⟩
  · rintro ⟨v, hv, r, hr, e'⟩
    exact ⟨v, hv, r, hr, e'.symm⟩

/-- the entries of `L` are entries of `L` (hypothesis `hedges` of C17's theorems) -/
theorem lEdges_in {L : LPat} (h : L.Filled) (ordering : Array Nat) (hsz : ordering.size = L.n) :
    ∀ e ∈ lEdges L ordering, ∃ a b, a < L.n ∧ b < L.n ∧ ordering[a]? = some e.1 ∧
      ordering[b]? = some e.2 ∧ (b ∈ L.col a ∨ a ∈ L.col b) := by
  intro e he
  obtain ⟨v, hv, r, hr, rfl⟩ := (mem_lEdges L ordering e).1 he
  have hr' := (h.lower v hv r hr).2
  have hget : ∀ a, a < L.n → ordering[a]? = some (ordering.getD a 0) := by
    intro a ha
    have : a < ordering.size := by omega
    simp [Array.getD_eq_getD_getElem?, this]
  exact ⟨v, r, hv, hr', hget v hv, hget r hr', Or.inl hr⟩

/-- [S] the entries of a filled pattern, mapped to original coordinates by a permutation, form a
connected graph on `0 .. L.n - 1` (cut form) -/
theorem lEdges_connected {L : LPat} (h : L.Filled) (ordering : Array Nat)
    (ho : ordering.toList.Perm (List.range L.n)) (S : Nat → Prop)
    (hin : ∃ x, x < L.n ∧ S x) (hout : ∃ y, y < L.n ∧ ¬ S y) :
    ∃ x y, (x, y) ∈ lEdges L ordering ∧ ((S x ∧ ¬ S y) ∨ (S y ∧ ¬ S x)) := by
  have hsz : ordering.size = L.n := by
    have := ho.length_eq
    rw [Array.length_toList, List.length_range] at this
    exact this
  have hsurj : ∀ x, x < L.n → ∃ u, u < L.n ∧ ordering.getD u 0 = x := by
    intro x hx
    have hm : x ∈ ordering.toList := ho.mem_iff.2 (List.mem_range.2 hx)
    obtain ⟨u, hu, e⟩ := List.getElem_of_mem hm
    rw [Array.length_toList] at hu
    refine ⟨u, by omega, ?_⟩
    rw [Array.getElem_toList] at e
    simp [Array.getD_eq_getD_getElem?, hu, e]
  obtain ⟨x, hx, hSx⟩ := hin
  obtain ⟨y, hy, hSy⟩ := hout
  obtain ⟨u, hu, rfl⟩ := hsurj x hx
  obtain ⟨w, hw, rfl⟩ := hsurj y hy
  obtain ⟨v, hv, hmem, hcut⟩ := h.cut_edge (fun a => S (ordering.getD a 0)) ⟨u, hu, hSx⟩ ⟨w, hw, hSy⟩
  exact ⟨ordering.getD v 0, ordering.getD (L.par v) 0,
    (mem_lEdges L ordering _).2 ⟨v, by omega, L.par v, hmem, rfl⟩, hcut⟩

/-- [S] **`analysis_separators_nonempty`**: for a filled pattern `L` (in particular connected:
`connect_graph`) and a permutation `ordering`, `SparsityPattern::new(L, ordering, mm)` with any of
the three merge strategies returns a clique tree in which no clique other than the root (post-order
index `nCliques - 1`) has an empty separator — `psd_complete` never hands a `0 × 0` block to
LAPACK. -/
theorem analysis_separators_nonempty {L : LPat} (h : L.Filled) (ordering : Array Nat)
    (ho : ordering.toList.Perm (List.range L.n)) (mm : String) (hmm : MergeMethodOK mm) :
    ∃ tf ord', sparsityPatternNewAll L ordering mm = .ok (tf, ord') ∧
      ∀ i, i + 1 < tf.nCliques → tf.sepAt i ≠ [] := by
  have hsz : ordering.size = L.n := by
    have := ho.length_eq
    rw [Array.length_toList, List.length_range] at this
    exact this
  obtain ⟨tf, ord', h1, h2⟩ :=
    analysis_all_valid h ordering ho (lEdges L ordering) (lEdges_in h ordering hsz) mm hmm
  refine ⟨tf, ord', h1, fun i hi => ?_⟩
  have hne : tf.nCliques ≠ 1 := by omega
  obtain ⟨hp, hN⟩ := ValidPattern.of_valid L.n (lEdges L ordering) ⟨tf, ord', 0⟩ h2 hne
  have hcov := cliqueO_cover_of_valid L.n (lEdges L ordering) ⟨tf, ord', 0⟩ h2 hne
  refine hp.sep_ne_nil_of_connected (lEdges L ordering) hcov ?_ i hi
  intro S hin hout
  have hN' : ord'.size = L.n := hN
  rw [show (⟨tf, ord', 0⟩ : SPattern).ordering.size = L.n from hN'] at hin hout
  exact lEdges_connected h ordering ho S hin hout

/-- [S] every stored pattern of a `ChordalInfo` built by the analysis: no empty separator below the
root -/
theorem FromAnalysis.separators_nonempty {ci : ChordalInfo} {E : Nat → List (Nat × Nat)}
    (h : FromAnalysis ci E) (k : Nat) (p : SPattern) (hk : ci.spatterns[k]? = some p) :
    ∀ i, i + 1 < p.sntree.nCliques → p.sntree.sepAt i ≠ [] := by
  obtain ⟨_, L, ordering, mm, hmm, hf, ho, _, hnew, _⟩ := h k p hk
  obtain ⟨tf, ord', h1, h2⟩ := analysis_separators_nonempty hf ordering ho mm hmm
  rw [hnew] at h1
  obtain ⟨rfl, rfl⟩ := Prod.mk.inj (Except.ok.inj h1)
  exact h2

/-! ## in the vocabulary of `psd_complete` -/

/-- [S] on a valid tree without empty separator below the root, `get_separators(j)` returns a
non-empty set in every pass `j` of the main loop of `psd_complete`
(`for j in (0..(n_cliques - 1)).rev()`) -/
theorem ValidTree.getSeparators_size_ne_zero {t : SuperNodeTree} {n : Nat} (h : ValidTree t n)
    (hs : ∀ i, i + 1 < t.nCliques → t.sepAt i ≠ []) :
    ∀ j, j + 1 < t.nCliques → ∀ α, t.getSeparators j = .ok α → α.size ≠ 0 := by
  intro j hj α hα h0
  obtain ⟨s, h1, h2⟩ := getSeparators_okV t n h j (by omega)
  rw [h1] at hα
  have : s = α := Except.ok.inj hα
  subst this
  apply hs j hj
  rw [← h2]
  exact Array.toList_eq_nil_iff.2 (Array.eq_empty_of_size_eq_zero h0)

/-- [S] **`psd_complete` never sees an empty `α`** (analysis output): in every pass `j` of its main
loop, `get_separators(j)` returns (no panic) a non-empty separator -/
theorem analysis_getSeparators_nonempty {L : LPat} (h : L.Filled) (ordering : Array Nat)
    (ho : ordering.toList.Perm (List.range L.n)) (mm : String) (hmm : MergeMethodOK mm) :
    ∃ tf ord', sparsityPatternNewAll L ordering mm = .ok (tf, ord') ∧
      ∀ j, j + 1 < tf.nCliques → ∃ α, tf.getSeparators j = .ok α ∧ α.size ≠ 0 := by
  have hsz : ordering.size = L.n := by
    have := ho.length_eq
    rw [Array.length_toList, List.length_range] at this
    exact this
  obtain ⟨tf, ord', h1, h2⟩ := analysis_separators_nonempty h ordering ho mm hmm
  refine ⟨tf, ord', h1, fun j hj => ?_⟩
  obtain ⟨tf', ord'', h1', hv⟩ :=
    analysis_all_valid h ordering ho (lEdges L ordering) (lEdges_in h ordering hsz) mm hmm
  rw [h1] at h1'
  obtain ⟨rfl, rfl⟩ := Prod.mk.inj (Except.ok.inj h1')
  have hne : tf.nCliques ≠ 1 := by omega
  have ht := (ValidPattern.of_valid L.n (lEdges L ordering) ⟨tf, ord', 0⟩ hv hne).1.tree
  obtain ⟨s, hs1, _⟩ := getSeparators_okV tf _ ht j (by omega)
  exact ⟨s, hs1, ht.getSeparators_size_ne_zero h2 j hj s hs1⟩

/-- [S] the same for every stored pattern of a `ChordalInfo` built by the analysis -/
theorem FromAnalysis.getSeparators_size_ne_zero {ci : ChordalInfo} {E : Nat → List (Nat × Nat)}
    (h : FromAnalysis ci E) (k : Nat) (p : SPattern) (hk : ci.spatterns[k]? = some p) :
    ∀ j, j + 1 < p.sntree.nCliques → ∃ α, p.sntree.getSeparators j = .ok α ∧ α.size ≠ 0 := by
  intro j hj
  obtain ⟨d, _, hr⟩ := h.ready k p hk
  have ht := hr.1.tree
  obtain ⟨s, hs1, _⟩ := getSeparators_okV p.sntree _ ht j (by omega)
  exact ⟨s, hs1, ht.getSeparators_size_ne_zero (h.separators_nonempty k p hk) j hj s hs1⟩

/-! ## non-vacuity -/

/-- every proper non-empty subset of `{0, 1, 2}` is left by an edge of the path `0 — 1 — 2` -/
private theorem cut3 (S : Nat → Prop) (hin : ∃ u, u < 3 ∧ S u) (hout : ∃ w, w < 3 ∧ ¬ S w) :
    (S 0 ∧ ¬ S 1) ∨ (S 1 ∧ ¬ S 0) ∨ (S 1 ∧ ¬ S 2) ∨ (S 2 ∧ ¬ S 1) := by
  classical
  obtain ⟨u, hu, hSu⟩ := hin
  obtain ⟨w, hw, hSw⟩ := hout
  have hu' : u = 0 ∨ u = 1 ∨ u = 2 := by omega
  have hw' : w = 0 ∨ w = 1 ∨ w = 2 := by omega
  by_cases h0 : S 0 <;> by_cases h1 : S 1 <;> by_cases h2 : S 2 <;>
    rcases hu' with rfl | rfl | rfl <;> rcases hw' with rfl | rfl | rfl <;> simp_all

/-- non-vacuity of `LPat.Filled.cut_edge`, `lEdges_in`, `lEdges_connected`: the filled pattern of
the path graph (`exPathL` of `Props/C18.lean`), `S = {0}` -/
example : ∃ L : LPat, L.Filled ∧ (∃ u, u < L.n ∧ u = 0) ∧ (∃ w, w < L.n ∧ ¬ w = 0) ∧
    (#[2, 0, 1] : Array Nat).toList.Perm (List.range L.n) ∧ (#[2, 0, 1] : Array Nat).size = L.n :=
  ⟨{ n := 3, colptr := #[0, 1, 2, 2], rowval := #[2, 2] }, (LPat.filledB_iff _).1 (by decide),
    ⟨0, by decide, rfl⟩, ⟨1, by decide, by decide⟩, by decide, rfl⟩

/-- non-vacuity of `Desc.of_mem` / `Desc.top_of_mem` / `ValidTree.sep_ne_nil_of_connected`: the
tree `exTreeV` of the path `0 — 1 — 2` (cliques `{0,1}`, `{1,2}`) with the path's edges; its
clique 0 has the separator `{1}` -/
example : exTreeV.sepAt 0 ≠ [] := by
  refine exTreeV_valid.sep_ne_nil_of_connected
    (fun u w => (u = 0 ∧ w = 1) ∨ (u = 1 ∧ w = 2)) ?_ ?_ 0 (by decide)
  · rintro u w (⟨rfl, rfl⟩ | ⟨rfl, rfl⟩)
    · exact ⟨0, by decide, by decide, by decide⟩
    · exact ⟨1, by decide, by decide, by decide⟩
  · intro S hin hout
    rcases cut3 S hin hout with h | h | h | h
    · exact ⟨0, 1, Or.inl ⟨rfl, rfl⟩, Or.inl h⟩
    · exact ⟨0, 1, Or.inl ⟨rfl, rfl⟩, Or.inr h⟩
    · exact ⟨1, 2, Or.inr ⟨rfl, rfl⟩, Or.inl h⟩
    · exact ⟨1, 2, Or.inr ⟨rfl, rfl⟩, Or.inr h⟩

private theorem exPattern_mem (i a : Nat) (hi : i < 2) (h : a ∈ exPattern.sntree.cliqueAt i) :
    a ∈ exPattern.cliqueO i := by
  unfold SPattern.cliqueO
  rw [exPattern.mem_sortO]
  refine ⟨a, h, ?_⟩
  have : a < 3 := exTreeV_valid.clique_lt i hi a h
  have : a = 0 ∨ a = 1 ∨ a = 2 := by omega
  rcases this with rfl | rfl | rfl <;> rfl

/-- non-vacuity of `ValidPattern.sep_ne_nil_of_connected` (and of
`ValidTree.getSeparators_size_ne_zero`): `exPattern` with the entries `(0,1)`, `(1,2)` -/
example : (∀ i, i + 1 < exPattern.sntree.nCliques → exPattern.sntree.sepAt i ≠ []) ∧
    (∀ j, j + 1 < exTreeV.nCliques → ∀ α, exTreeV.getSeparators j = .ok α → α.size ≠ 0) := by
  have key : ∀ i, i + 1 < exPattern.sntree.nCliques → exPattern.sntree.sepAt i ≠ [] := by
    refine exPattern_valid.sep_ne_nil_of_connected [(0, 1), (1, 2)] ?_ ?_
    · intro e he
      simp only [List.mem_cons, List.not_mem_nil, or_false] at he
      rcases he with rfl | rfl
      · exact ⟨0, by decide, exPattern_mem 0 0 (by decide) (by decide),
          exPattern_mem 0 1 (by decide) (by decide)⟩
      · exact ⟨1, by decide, exPattern_mem 1 1 (by decide) (by decide),
          exPattern_mem 1 2 (by decide) (by decide)⟩
    · intro S hin hout
      rcases cut3 S hin hout with h | h | h | h
      · exact ⟨0, 1, by decide, Or.inl h⟩
      · exact ⟨0, 1, by decide, Or.inr h⟩
      · exact ⟨1, 2, by decide, Or.inl h⟩
      · exact ⟨1, 2, by decide, Or.inr h⟩
  exact ⟨key, exTreeV_valid.getSeparators_size_ne_zero key⟩

/-- non-vacuity of `analysis_separators_nonempty` / `analysis_getSeparators_nonempty`: the path
graph `0 — 1 — 2` under the ordering `[2, 0, 1]`, every strategy (the driver evaluates the model on
this input to a tree with two cliques) -/
example (mm : String) (hmm : MergeMethodOK mm) :
    ∃ tf ord', sparsityPatternNewAll { n := 3, colptr := #[0, 1, 2, 2], rowval := #[2, 2] }
        #[2, 0, 1] mm = .ok (tf, ord') ∧
      (∀ i, i + 1 < tf.nCliques → tf.sepAt i ≠ []) ∧
      (∀ j, j + 1 < tf.nCliques → ∃ α, tf.getSeparators j = .ok α ∧ α.size ≠ 0) := by
  have hf : LPat.Filled { n := 3, colptr := #[0, 1, 2, 2], rowval := #[2, 2] } :=
    (LPat.filledB_iff _).1 (by decide)
  have ho : (#[2, 0, 1] : Array Nat).toList.Perm
      (List.range (LPat.n { n := 3, colptr := #[0, 1, 2, 2], rowval := #[2, 2] })) := by decide
  obtain ⟨tf, ord', h1, h2⟩ := analysis_separators_nonempty hf #[2, 0, 1] ho mm hmm
  obtain ⟨tf', ord'', h1', h3⟩ := analysis_getSeparators_nonempty hf #[2, 0, 1] ho mm hmm
  rw [h1] at h1'
  obtain ⟨rfl, rfl⟩ := Prod.mk.inj (Except.ok.inj h1')
  exact ⟨tf, ord', h1, h2, h3⟩

/-- non-vacuity of `FromAnalysis.separators_nonempty` / `FromAnalysis.getSeparators_size_ne_zero`:
the `ChordalInfo` of one `3 × 3` PSD cone whose pattern is the analysis result for the path graph
satisfies `FromAnalysis` as soon as that result has more than one clique (same construction as in
`Props/C18.lean`) -/
example : ∃ tf ord', sparsityPatternNew { n := 3, colptr := #[0, 1, 2, 2], rowval := #[2, 2] }
      #[2, 0, 1] "none" = .ok (tf, ord') ∧
    (tf.nCliques ≠ 1 →
      FromAnalysis { initDims := (1, 6), initCones := #[.psd 3], spatterns := #[⟨tf, ord', 0⟩] }
        (fun _ => [(0, 1), (1, 2)])) := by
  have hf : LPat.Filled { n := 3, colptr := #[0, 1, 2, 2], rowval := #[2, 2] } :=
    (LPat.filledB_iff _).1 (by decide)
  have ho : (#[2, 0, 1] : Array Nat).toList.Perm
      (List.range (LPat.n { n := 3, colptr := #[0, 1, 2, 2], rowval := #[2, 2] })) := by decide
  have he := LPat.edgesInB_sound { n := 3, colptr := #[0, 1, 2, 2], rowval := #[2, 2] }
    #[2, 0, 1] [(0, 1), (1, 2)] (by decide)
  obtain ⟨tf, ord', h1, _⟩ := decomposition_of_analysis_none hf #[2, 0, 1] ho _ he 0
  refine ⟨tf, ord', h1, fun hne k p hk => ?_⟩
  have hk0 : k = 0 := by
    rcases Nat.eq_zero_or_pos k with h | h
    · exact h
    · exfalso
      have : (#[(⟨tf, ord', 0⟩ : SPattern)])[k]? = none := by
        rw [Array.getElem?_eq_none]; simp; omega
      rw [this] at hk; cases hk
  subst hk0
  have hp : p = ⟨tf, ord', 0⟩ := by
    have : (#[(⟨tf, ord', 0⟩ : SPattern)])[0]? = some ⟨tf, ord', 0⟩ := rfl
    rw [this] at hk; exact (Option.some.inj hk).symm
  subst hp
  exact ⟨hne, _, #[2, 0, 1], "none", Or.inl rfl, hf, ho, he,
    by rw [sparsityPatternNewAll_none]; exact h1, rfl⟩

/-! ## the converse side: `ValidTree` alone does not exclude an empty separator below the root

`ValidTree` (C17's oracle predicate) does not mention the graph, hence not its connectivity: the
clique tree of a *disconnected* pattern — two isolated vertices, cliques `{0}` and `{1}`, the second
one the root and (formal) parent of the first — satisfies every clause, and its non-root clique has
the empty separator `{0} ∩ {1}`.  An empty separator below the root occurs exactly when the pattern
handed to the analysis is disconnected (no entry between the vertices of the subtree under the
clique and the remaining vertices); `connect_graph` rules that out before the analysis runs. -/

/-- two isolated vertices: supernodes `{0}`, `{1}`, both separators empty, clique 0 the child of
clique 1 -/
def exDiscTree : SuperNodeTree :=
  { snode := #[#[0], #[1]], snodePost := #[0, 1], snodeParent := #[1, noParent],
    snodeChildren := #[], post := #[], separators := #[#[], #[]], nblk := some #[1, 1],
    nCliques := 2 }

private theorem lt_two' {i : Nat} (h : i < 2) : i = 0 ∨ i = 1 := by omega

theorem exDiscTree_valid : ValidTree exDiscTree 2 where
  ncl_pos := by decide
  post_size := rfl
  sep_size := rfl
  par_size := rfl
  post_lt := by
    intro i hi
    rcases lt_two' hi with rfl | rfl <;> decide
  post_inj := by
    intro i j hi hj
    rcases lt_two' hi with rfl | rfl <;> rcases lt_two' hj with rfl | rfl <;> decide
  clique_nodup := by
    intro i hi
    rcases lt_two' hi with rfl | rfl <;> decide
  clique_lt := by
    intro i hi
    rcases lt_two' hi with rfl | rfl <;> decide
  snode_ne := by
    intro i hi
    rcases lt_two' hi with rfl | rfl <;> decide
  snode_disj := by
    intro i j v hi hj
    rcases lt_two' hi with rfl | rfl <;> rcases lt_two' hj with rfl | rfl <;>
      simp [SuperNodeTree.snodeAt, SuperNodeTree.postIdx, exDiscTree] <;> omega
  snode_cover := by
    intro v hv
    have : v = 0 ∨ v = 1 := by omega
    rcases this with rfl | rfl
    · exact ⟨0, by decide, by decide⟩
    · exact ⟨1, by decide, by decide⟩
  snode_consec := by
    intro i hi v
    rcases lt_two' hi with rfl | rfl
    · simp [SuperNodeTree.snodeAt, SuperNodeTree.postIdx, SuperNodeTree.snodeOffset, exDiscTree,
        List.range_succ]
    · simp [SuperNodeTree.snodeAt, SuperNodeTree.postIdx, SuperNodeTree.snodeOffset, exDiscTree,
        List.range_succ]
      omega
  root_parent := rfl
  root_sep := rfl
  parent := by
    intro i hi
    have : i = 0 := by
      have : i + 1 < 2 := hi
      omega
    subst this
    refine ⟨1, by decide, ⟨by decide, rfl⟩, fun v => ?_⟩
    simp [SuperNodeTree.sepAt, SuperNodeTree.cliqueAt, SuperNodeTree.snodeAt,
      SuperNodeTree.postIdx, exDiscTree]
    omega
  nblk := by
    refine ⟨#[1, 1], rfl, rfl, fun i hi => ?_⟩
    rcases lt_two' hi with rfl | rfl <;> rfl

/-- [S] **`ValidTree` does not imply non-empty separators**: `exDiscTree` is valid and its clique 0,
which is not the root, has an empty separator -/
theorem exDiscTree_empty_sep :
    ValidTree exDiscTree 2 ∧ 0 + 1 < exDiscTree.nCliques ∧ exDiscTree.sepAt 0 = [] :=
  ⟨exDiscTree_valid, by decide, rfl⟩

/-- on `exDiscTree`, `get_separators(0)` returns the empty set in the (only) pass `j = 0` of the
main loop of `psd_complete` -/
theorem exDiscTree_getSeparators : exDiscTree.getSeparators 0 = .ok #[] := rfl

/-- the index-level model of that pass does not panic (the `0 × 0` blocks are rejected only inside
LAPACK, which the index-level model does not contain): it writes `W[1,0]` and `W[0,1]` -/
theorem exDiscTree_step : psdCompleteStep exDiscTree 2 0 = .ok [(1, 0), (0, 1)] := by
  rfl

end Clarabel.Chordal
