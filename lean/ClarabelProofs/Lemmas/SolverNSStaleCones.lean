/-
  Solving twice on the whole-solver model WITH NONSYMMETRIC CONES (C05), the relational part — the
  composite cone of `ClarabelModel/SolverNS/Cones.lean` and the cone-dependent functions of
  `SolverNS/Vars.lean`, `SolverNS/KktSolver.lean`, `SolverNS/KktSys.lean`.  NS counterpart of
  `SolverStaleCones.lean`:

  * what a solve reads of the cone objects before the first `update_scaling` depends on their SHAPE
    only (`degreeAll`, `isSymmetric`, `allowsPD`, `initScaling`, `canSwitch`, `nSpN`, `kktSpec`,
    `compSpec?`, `unit_initialization`, `symmetric_initialization`);
  * `update_scaling` on shape-related cone lists: same flag, EQUAL lists on success, shape-related
    lists otherwise (`updateScaling_rel`);
  * `set_identity_scaling` (all-symmetric lists only) resets everything but `λ`; on all-symmetric
    lists `get_Hs` / `KKTSolver::update` / `KKTSystem::update` never read `λ`.

  All structural ([S]): no law of the scalar type is used.
-/
import ClarabelProofs.Lemmas.SolverNSStaleDefs

namespace Clarabel.SolverNS
open Clarabel Info Residuals
open Clarabel.Solver (RelM SameFrom VarsShape ListRel KktSolver KktSys LinSettings VarsXSZ
  map_const_congr bind_ok_inv)

set_option linter.unusedSectionVars false
set_option linter.unusedVariables false

variable {α : Type}

/-! ### 1. `rng_cones`: `cutE`, `pasteBack`, `numelAll`; the relations -/

theorem cutE_go_sizes {a a' : Array α} (site : String) (h : a.size = a'.size) :
    ∀ (cones : List (ConeSt α)) (start : Nat),
      RelM (ListRel (fun p p' : Array α => p.size = p'.size)) (cutE.go a site cones start)
        (cutE.go a' site cones start) := by
  intro cones
  induction cones with
  | nil => intro start; exact ListRel.nil
  | cons c rest ih =>
    intro start
    unfold cutE.go
    rw [h]
    split
    · rfl
    · refine RelM.bind (ih _) ?_
      intro tl tl' htl
      refine ListRel.cons ?_ htl
      simp only [Array.size_extract, h]

/-- cutting two arrays of the same length succeeds / fails alike; the slices have the same lengths -/
theorem cutE_sizes {a a' : Array α} (cones : List (ConeSt α)) (site : String) (h : a.size = a'.size) :
    RelM (ListRel (fun p p' : Array α => p.size = p'.size)) (cutE cones a site) (cutE cones a' site) :=
  cutE_go_sizes site h cones 0

theorem cutE_go_congr_numel (a : Array α) (site : String) :
    ∀ (cones cones' : List (ConeSt α)) (start : Nat), cones.map ConeSt.numel = cones'.map ConeSt.numel →
      cutE.go a site cones start = cutE.go a site cones' start := by
  intro cones
  induction cones with
  | nil =>
    intro cones' start h
    cases cones' with
    | nil => rfl
    | cons _ _ => cases h
  | cons c rest ih =>
    intro cones' start h
    cases cones' with
    | nil => cases h
    | cons c' rest' =>
      simp only [List.map_cons, List.cons.injEq] at h
      unfold cutE.go
      rw [h.1, ih rest' _ h.2]

/-- `rng_cones` depends on the cones' dimensions only -/
theorem cutE_congr_numel (a : Array α) (site : String) {cones cones' : List (ConeSt α)}
    (h : cones.map ConeSt.numel = cones'.map ConeSt.numel) : cutE cones a site = cutE cones' a site :=
  cutE_go_congr_numel a site cones cones' 0 h

theorem numelAll_congr {cones cones' : List (ConeSt α)} (h : cones.map ConeSt.numel = cones'.map ConeSt.numel) :
    numelAll cones = numelAll cones' := by
  unfold numelAll
  rw [h]

theorem pasteBack_congr (cones : List (ConeSt α)) {v v' : Array α} (parts : List (Array α))
    (h : SameFrom (numelAll cones) v v') : pasteBack cones v parts = pasteBack cones v' parts := by
  unfold pasteBack
  rw [h.2]

theorem pasteBack_congr_numel {cones cones' : List (ConeSt α)} (v : Array α) (parts : List (Array α))
    (h : cones.map ConeSt.numel = cones'.map ConeSt.numel) : pasteBack cones v parts = pasteBack cones' v parts := by
  unfold pasteBack
  rw [numelAll_congr h]

theorem cutE_go_length (a : Array α) (site : String) :
    ∀ (cones : List (ConeSt α)) (start : Nat) (l : List (Array α)), cutE.go a site cones start = .ok l →
      l.length = cones.length := by
  intro cones
  induction cones with
  | nil => intro start l h; unfold cutE.go at h; cases h; rfl
  | cons c rest ih =>
    intro start l h
    unfold cutE.go at h
    split at h
    · cases h
    · obtain ⟨tl, htl, h⟩ := bind_ok_inv h
      cases h
      simp only [List.length_cons, ih _ _ htl]

theorem ConeShape.rfl' (c : ConeSt α) : ConeShape c c := by
  cases c with
  | sym c => exact Solver.ConeShape.rfl' c
  | exp K => exact trivial
  | pow a K => exact rfl
  | genpow al d2 ψ K => exact ⟨rfl, rfl, rfl⟩

theorem ConesShape.rfl' (cs : List (ConeSt α)) : ConesShape cs cs := by
  induction cs with
  | nil => exact .nil
  | cons c cs ih => exact .cons (ConeShape.rfl' c) ih

theorem ConeShape.trans {a b c : ConeSt α} (h1 : ConeShape a b) (h2 : ConeShape b c) : ConeShape a c := by
  cases a <;> cases b <;> try exact h1.elim
  all_goals cases c <;> try exact h2.elim
  · exact Solver.ConeShape.trans h1 h2
  · exact trivial
  · exact Eq.trans h1 h2
  · exact ⟨h1.1.trans h2.1, h1.2.1.trans h2.2.1, h1.2.2.trans h2.2.2⟩

theorem ConesShape.trans {a b c : List (ConeSt α)} (h1 : ConesShape a b) (h2 : ConesShape b c) :
    ConesShape a c := by
  induction h1 generalizing c with
  | nil => cases h2; exact .nil
  | cons h _ ih =>
    cases h2 with
    | cons h' t' => exact .cons (h.trans h') (ih t')

theorem symConeShape_symm {c c' : Solver.ConeSt α} (h : Solver.ConeShape c c') : Solver.ConeShape c' c := by
  cases c <;> cases c' <;> try exact h.elim
  · exact Eq.symm h
  · exact ⟨h.1.symm, h.2.symm⟩
  · rename_i K K'
    obtain ⟨hd, hw, hs⟩ := h
    refine ⟨hd.symm, hw.symm, ?_⟩
    cases hk : K.sparse with
    | none =>
      cases hk' : K'.sparse with
      | none => trivial
      | some _ => rw [hk, hk'] at hs; exact hs.elim
    | some sp =>
      cases hk' : K'.sparse with
      | none => rw [hk, hk'] at hs; exact hs.elim
      | some sp' => rw [hk, hk'] at hs; exact ⟨hs.1.symm, hs.2.symm⟩

theorem ConeShape.symm {c c' : ConeSt α} (h : ConeShape c c') : ConeShape c' c := by
  cases c <;> cases c' <;> try exact h.elim
  · exact symConeShape_symm h
  · exact trivial
  · exact Eq.symm h
  · exact ⟨h.1.symm, h.2.1.symm, h.2.2.symm⟩

theorem ConesShape.symm {cs cs' : List (ConeSt α)} (h : ConesShape cs cs') : ConesShape cs' cs := by
  induction h with
  | nil => exact .nil
  | cons h _ ih => exact .cons h.symm ih

theorem symConeShape_numel {c c' : Solver.ConeSt α} (h : Solver.ConeShape c c') : c.numel = c'.numel := by
  cases c <;> cases c' <;> try exact h.elim
  · exact h
  · exact h.1
  · exact h.1

theorem ConeShape.numel {c c' : ConeSt α} (h : ConeShape c c') : c.numel = c'.numel := by
  cases c <;> cases c' <;> try exact h.elim
  · exact symConeShape_numel h
  · rfl
  · rfl
  · obtain ⟨h1, h2, _⟩ := h
    show Array.size _ + _ = Array.size _ + _
    rw [h1, h2]

theorem ConesShape.map_numel {cs cs' : List (ConeSt α)} (h : ConesShape cs cs') :
    cs.map ConeSt.numel = cs'.map ConeSt.numel := by
  induction h with
  | nil => rfl
  | cons h _ ih => simp only [List.map_cons, ih, h.numel]

theorem ConesShape.numelAll {cs cs' : List (ConeSt α)} (h : ConesShape cs cs') :
    numelAll cs = numelAll cs' := numelAll_congr h.map_numel

theorem ConesShape.length {cs cs' : List (ConeSt α)} (h : ConesShape cs cs') : cs.length = cs'.length := by
  have := congrArg List.length h.map_numel
  simpa using this

theorem symConeEqvLam_toShape {c c' : Solver.ConeSt α} (h : Solver.ConeEqvLam c c') : Solver.ConeShape c c' := by
  cases c <;> cases c' <;> try exact h.elim
  · exact h
  · exact ⟨congrArg Array.size h.1, h.2⟩
  · rename_i K K'
    obtain ⟨hd, hw, he, hsp⟩ := h
    refine ⟨hd, congrArg Array.size hw, ?_⟩
    rw [hsp]
    cases K'.sparse with
    | none => trivial
    | some sp => exact ⟨rfl, rfl⟩

theorem ConeEqvLam.toShape {c c' : ConeSt α} (h : ConeEqvLam c c') : ConeShape c c' := by
  cases c <;> cases c' <;> try exact h.elim
  · exact symConeEqvLam_toShape h
  · exact trivial
  · exact h
  · exact h

theorem ConesEqvLam.toShape {cs cs' : List (ConeSt α)} (h : ConesEqvLam cs cs') : ConesShape cs cs' := by
  induction h with
  | nil => exact .nil
  | cons h _ ih => exact .cons h.toShape ih

theorem ConeEqvLam.rfl' (c : ConeSt α) : ConeEqvLam c c := by
  cases c with
  | sym c => exact Solver.ConeEqvLam.rfl' c
  | exp K => exact trivial
  | pow a K => exact rfl
  | genpow al d2 ψ K => exact ⟨rfl, rfl, rfl⟩

theorem ConesEqvLam.rfl' (cs : List (ConeSt α)) : ConesEqvLam cs cs := by
  induction cs with
  | nil => exact .nil
  | cons c cs ih => exact .cons (ConeEqvLam.rfl' c) ih

theorem ConesEqvLam.map_numel {cs cs' : List (ConeSt α)} (h : ConesEqvLam cs cs') :
    cs.map ConeSt.numel = cs'.map ConeSt.numel := h.toShape.map_numel

/-- a monadic map whose function does not distinguish related elements -/
theorem mapM_congr_rel {β γ : Type} {R : β → β → Prop} (f : β → MErr γ)
    (hf : ∀ a a', R a a' → f a = f a') :
    ∀ {l l' : List β}, ListRel R l l' → l.mapM f = l'.mapM f := by
  intro l l' h
  induction h with
  | nil => rfl
  | cons hr _ ih => simp only [List.mapM_cons, hf _ _ hr, ih]

theorem map_congr_rel {β γ : Type} {R : β → β → Prop} (f : β → γ)
    (hf : ∀ a a', R a a' → f a = f a') :
    ∀ {l l' : List β}, ListRel R l l' → l.map f = l'.map f := by
  intro l l' h
  induction h with
  | nil => rfl
  | cons hr _ ih => simp only [List.map_cons, hf _ _ hr, ih]

/-! ### 2. what depends on the shape only -/

theorem symConeShape_degree {c c' : Solver.ConeSt α} (h : Solver.ConeShape c c') : c.degree = c'.degree := by
  cases c <;> cases c' <;> try exact h.elim
  · rfl
  · exact h.1
  · rfl

theorem symConeShape_kktSpec {c c' : Solver.ConeSt α} (h : Solver.ConeShape c c') : c.kktSpec = c'.kktSpec := by
  cases c <;> cases c' <;> try exact h.elim
  · cases h; rfl
  · show Kkt.ConeSpec.nonneg _ = Kkt.ConeSpec.nonneg _
    rw [h.1]
  · show Kkt.ConeSpec.soc _ = Kkt.ConeSpec.soc _
    rw [h.1]

theorem symConeShape_compSpec {c c' : Solver.ConeSt α} (h : Solver.ConeShape c c') : c.compSpec = c'.compSpec := by
  cases c <;> cases c' <;> try exact h.elim
  · cases h; rfl
  · show Composite.Spec.nonneg _ = Composite.Spec.nonneg _
    rw [h.1]
  · show Composite.Spec.soc _ = Composite.Spec.soc _
    rw [h.1]

theorem ConeShape.degree {c c' : ConeSt α} (h : ConeShape c c') : c.degree = c'.degree := by
  cases c <;> cases c' <;> try exact h.elim
  · exact symConeShape_degree h
  · rfl
  · rfl
  · show Array.size _ + 1 = Array.size _ + 1
    rw [h.1]

theorem ConeShape.isSymmetric {c c' : ConeSt α} (h : ConeShape c c') : c.isSymmetric = c'.isSymmetric := by
  cases c <;> cases c' <;> first | exact h.elim | rfl

theorem ConeShape.allowsPD {c c' : ConeSt α} (h : ConeShape c c') : c.allowsPD = c'.allowsPD := by
  cases c <;> cases c' <;> first | exact h.elim | rfl

theorem ConeShape.kktSpec {c c' : ConeSt α} (h : ConeShape c c') : c.kktSpec = c'.kktSpec := by
  cases c <;> cases c' <;> try exact h.elim
  · exact symConeShape_kktSpec h
  · rfl
  · rfl
  · show Kkt.ConeSpec.genpow _ _ = Kkt.ConeSpec.genpow _ _
    rw [h.1, h.2.1]

theorem ConeShape.compSpec? {c c' : ConeSt α} (h : ConeShape c c') : c.compSpec? = c'.compSpec? := by
  cases c <;> cases c' <;> try exact h.elim
  · show some _ = some _
    rw [symConeShape_compSpec h]
  · rfl
  · rfl
  · rfl

theorem degreeAll_shape {cs cs' : List (ConeSt α)} (h : ConesShape cs cs') : degreeAll cs = degreeAll cs' := by
  unfold degreeAll
  rw [map_congr_rel ConeSt.degree (fun _ _ => ConeShape.degree) h]

theorem isSymmetric_shape {cs cs' : List (ConeSt α)} (h : ConesShape cs cs') :
    isSymmetric cs = isSymmetric cs' := by
  unfold isSymmetric
  induction h with
  | nil => rfl
  | cons hc _ ih => simp only [List.all_cons, hc.isSymmetric, ih]

theorem allowsPD_shape {cs cs' : List (ConeSt α)} (h : ConesShape cs cs') : allowsPD cs = allowsPD cs' := by
  unfold allowsPD
  induction h with
  | nil => rfl
  | cons hc _ ih => simp only [List.all_cons, hc.allowsPD, ih]

theorem kktSpec_shape {cs cs' : List (ConeSt α)} (h : ConesShape cs cs') :
    cs.map ConeSt.kktSpec = cs'.map ConeSt.kktSpec :=
  map_congr_rel ConeSt.kktSpec (fun _ _ => ConeShape.kktSpec) h

theorem compSpec?_shape {cs cs' : List (ConeSt α)} (h : ConesShape cs cs') :
    cs.map ConeSt.compSpec? = cs'.map ConeSt.compSpec? :=
  map_congr_rel ConeSt.compSpec? (fun _ _ => ConeShape.compSpec?) h

theorem nSpN_shape {cs cs' : List (ConeSt α)} (h : ConesShape cs cs') : nSpN cs = nSpN cs' := by
  induction h with
  | nil => rfl
  | @cons c c' l l' hc _ ih =>
    cases c <;> cases c' <;> try exact hc.elim
    · rename_i s s'
      cases s <;> cases s' <;> try exact hc.elim
      · exact ih
      · exact ih
      · rename_i K K'
        show (if K.sparse.isSome then 1 else 0) + nSpN l = (if K'.sparse.isSome then 1 else 0) + nSpN l'
        rw [ih]
        obtain ⟨_, _, hs⟩ := hc
        cases hk : K.sparse with
        | none =>
          cases hk' : K'.sparse with
          | none => rfl
          | some _ => rw [hk, hk'] at hs; exact hs.elim
        | some sp =>
          cases hk' : K'.sparse with
          | none => rw [hk, hk'] at hs; exact hs.elim
          | some sp' => rfl
    · exact ih
    · exact ih
    · show 1 + nSpN l = 1 + nSpN l'
      rw [ih]

section
variable [Add α] [Sub α] [Mul α] [Div α] [Neg α] [LT α] [LE α] [DecidableLT α] [DecidableLE α]
  [BEq α] [OfNat α 0] [OfNat α 1] [OfNat α 2] [OfNat α 3] [OfNat α 4] [OfNat α 100] [OfNat α 1000]
  [OfScientific α] [FloatLike α]

theorem initScaling_shape {cs cs' : List (ConeSt α)} (h : ConesShape cs cs') :
    initScaling cs = initScaling cs' := by
  unfold initScaling
  rw [allowsPD_shape h]

theorem canSwitch_shape {cs cs' : List (ConeSt α)} (h : ConesShape cs cs') (sc : Loop.Scaling) :
    canSwitch cs sc = canSwitch cs' sc := by
  unfold canSwitch
  rw [isSymmetric_shape h]

/-! ### 3. `update_scaling` -/

/-- `SecondOrderCone::update_scaling` (on split vectors) from two shape-related cone objects: same
flag; on success every field has been overwritten or is shape-determined; on the two failure exits
the stale fields survive -/
theorem soc_core_rel {K K' : Soc.Cone α} (h : Solver.ConeShape (.soc K) (.soc K')) (s0 : α) (s1 : List α)
    (z0 : α) (z1 : List α) :
    (Soc.updateScalingCore K s0 s1 z0 z1).1 = (Soc.updateScalingCore K' s0 s1 z0 z1).1 ∧
      ((Soc.updateScalingCore K s0 s1 z0 z1).1 = true →
        (Soc.updateScalingCore K s0 s1 z0 z1).2 = (Soc.updateScalingCore K' s0 s1 z0 z1).2) ∧
      Solver.ConeShape (.soc (Soc.updateScalingCore K s0 s1 z0 z1).2)
        (.soc (Soc.updateScalingCore K' s0 s1 z0 z1).2) := by
  obtain ⟨d, w, l, e, sp⟩ := K
  obtain ⟨d', w', l', e', sp'⟩ := K'
  obtain ⟨hd, hw, hs⟩ := h
  dsimp only at hd hw hs
  subst hd
  have hsp : (sp = none ∧ sp' = none) ∨ (∃ a a', sp = some a ∧ sp' = some a') := by
    cases sp with
    | none =>
      cases sp' with
      | none => exact Or.inl ⟨rfl, rfl⟩
      | some _ => exact hs.elim
    | some a =>
      cases sp' with
      | none => exact hs.elim
      | some a' => exact Or.inr ⟨a, a', rfl, rfl⟩
  unfold Soc.updateScalingCore
  dsimp only
  by_cases hc : (Soc.isZero (Soc.sqrtSocResidual z0 z1) || Soc.isZero (Soc.sqrtSocResidual s0 s1)) = true
  · rw [if_pos hc, if_pos hc]
    exact ⟨rfl, fun h => (Bool.false_ne_true h).elim, rfl, hw, hs⟩
  · rw [if_neg hc, if_neg hc]
    cases hW : Soc.scalingW s0 s1 z0 z1 (Soc.sqrtSocResidual s0 s1) (Soc.sqrtSocResidual z0 z1) with
    | none =>
      exact ⟨rfl, fun h => (Bool.false_ne_true h).elim, rfl, rfl, hs⟩
    | some t =>
      obtain ⟨w0, w1, wscale⟩ := t
      dsimp only
      rcases hsp with ⟨h1, h2⟩ | ⟨a, a', h1, h2⟩
      · subst h1 h2
        exact ⟨rfl, fun _ => rfl, rfl, rfl, trivial⟩
      · subst h1 h2
        exact ⟨rfl, fun _ => rfl, rfl, rfl, rfl, rfl⟩

theorem soc_updateScaling_rel {K K' : Soc.Cone α} (h : Solver.ConeShape (.soc K) (.soc K')) (s z : Array α) :
    RelM (fun r r' => r.1 = r'.1 ∧ (r.1 = true → r.2 = r'.2) ∧ Solver.ConeShape (.soc r.2) (.soc r'.2))
      (Soc.updateScaling K s z) (Soc.updateScaling K' s z) := by
  unfold Soc.updateScaling
  rw [← h.1]
  cases Soc.split z with
  | error e => rfl
  | ok zz =>
    cases Soc.split s with
    | error e => rfl
    | ok ss =>
      dsimp only [bind, Except.bind]
      by_cases h1 : s.size = K.dim
      · by_cases h2 : z.size = K.dim
        · simp only [h1, h2, ne_eq, not_true_eq_false, if_false, pure, Except.pure]
          exact soc_core_rel h _ _ _ _
        · simp only [h1, h2, ne_eq, not_true_eq_false, not_false_eq_true, if_false, if_true, throw, throwThe,
            MonadExceptOf.throw]
          rfl
      · simp only [h1, ne_eq, not_false_eq_true, if_true, throw, throwThe, MonadExceptOf.throw]
        rfl

/-- `update_scaling` of one symmetric cone from two shape-related objects -/
theorem symUpdateScaling1_rel {c c' : Solver.ConeSt α} (s z : Array α) (h : Solver.ConeShape c c') :
    RelM (fun r r' => r.1 = r'.1 ∧ (r.1 = true → r.2 = r'.2) ∧ Solver.ConeShape r.2 r'.2)
      (Solver.updateScaling1 c s z) (Solver.updateScaling1 c' s z) := by
  cases c with
  | zero d =>
    cases c' with
    | zero d' => cases h; exact ⟨rfl, fun _ => rfl, rfl⟩
    | nonneg _ => exact h.elim
    | soc _ => exact h.elim
  | nonneg K =>
    cases c' with
    | zero _ => exact h.elim
    | nonneg K' =>
      obtain ⟨hw, hl⟩ := h
      have e : Nonneg.updateScaling K' s z = Nonneg.updateScaling K s z := by
        unfold Nonneg.updateScaling
        rw [hw, hl]
      simp only [Solver.updateScaling1]
      rw [e]
      cases Nonneg.updateScaling K s z with
      | error e => rfl
      | ok K1 => exact ⟨rfl, fun _ => rfl, Solver.ConeShape.rfl' _⟩
    | soc _ => exact h.elim
  | soc K =>
    cases c' with
    | zero _ => exact h.elim
    | nonneg _ => exact h.elim
    | soc K' =>
      simp only [Solver.updateScaling1]
      refine RelM.bind (soc_updateScaling_rel h s z) ?_
      rintro ⟨ok, K1⟩ ⟨ok', K1'⟩ ⟨h1, h2, h3⟩
      dsimp only at h1 h2 h3
      subst h1
      refine ⟨rfl, fun hk => ?_, h3⟩
      dsimp only at hk ⊢
      rw [h2 hk]

/-- `GenPowerCone::update_scaling` returns the OLD state with `false`, or a completely new one -/
theorem genpow_updateScaling_rel (al : Array α) (K K' : GenPow.State α) (z : Array α) (mu : α) :
    RelM (fun r r' => r.1 = r'.1 ∧ (r.1 = true → r.2 = r'.2))
      (GenPow.updateScaling al K z mu) (GenPow.updateScaling al K' z mu) := by
  unfold GenPow.updateScaling
  refine RelM.bind (RelM.refl_eq _) ?_
  rintro ⟨u, w⟩ _ rfl
  dsimp only
  split
  · exact ⟨rfl, fun h => (Bool.false_ne_true h).elim⟩
  · refine RelM.bind (RelM.refl_eq _) ?_
    rintro D _ rfl
    exact ⟨rfl, fun _ => rfl⟩

/-- `update_scaling` of one cone from two shape-related objects: fails alike, or same flag, the
same object on success, shape-related objects otherwise -/
theorem updateScaling1_rel {c c' : ConeSt α} (s z : Array α) (mu : α) (dual : Bool) (h : ConeShape c c') :
    RelM (fun r r' => r.1 = r'.1 ∧ (r.1 = true → r.2 = r'.2) ∧ ConeShape r.2 r'.2)
      (updateScaling1 c s z mu dual) (updateScaling1 c' s z mu dual) := by
  cases c with
  | sym c =>
    cases c' with
    | sym c' =>
      simp only [updateScaling1]
      refine RelM.bind (symUpdateScaling1_rel s z h) ?_
      rintro ⟨ok, c1⟩ ⟨ok', c1'⟩ ⟨h1, h2, h3⟩
      dsimp only at h1 h2 h3
      subst h1
      refine ⟨rfl, fun hk => ?_, h3⟩
      dsimp only at hk ⊢
      rw [h2 hk]
    | exp _ => exact h.elim
    | pow _ _ => exact h.elim
    | genpow _ _ _ _ => exact h.elim
  | exp K =>
    cases c' with
    | exp K' =>
      refine RelM.of_eq (show updateScaling1 (.exp K) s z mu dual = updateScaling1 (.exp K') s z mu dual from rfl) ?_
      intro r
      exact ⟨rfl, fun _ => rfl, ConeShape.rfl' _⟩
    | sym _ => exact h.elim
    | pow _ _ => exact h.elim
    | genpow _ _ _ _ => exact h.elim
  | pow a K =>
    cases c' with
    | pow a' K' =>
      have ha : a = a' := h
      subst ha
      refine RelM.of_eq (show updateScaling1 (.pow a K) s z mu dual = updateScaling1 (.pow a K') s z mu dual from rfl) ?_
      intro r
      exact ⟨rfl, fun _ => rfl, ConeShape.rfl' _⟩
    | sym _ => exact h.elim
    | exp _ => exact h.elim
    | genpow _ _ _ _ => exact h.elim
  | genpow al d2 ψ K =>
    cases c' with
    | genpow al' d2' ψ' K' =>
      obtain ⟨h1, h2, h3⟩ := h
      subst h1 h2 h3
      simp only [updateScaling1]
      refine RelM.bind (genpow_updateScaling_rel al K K' z mu) ?_
      rintro ⟨ok, K1⟩ ⟨ok', K1'⟩ ⟨g1, g2⟩
      dsimp only at g1 g2
      subst g1
      refine ⟨rfl, fun hk => ?_, ⟨rfl, rfl, rfl⟩⟩
      dsimp only at hk ⊢
      rw [g2 hk]
    | sym _ => exact h.elim
    | exp _ => exact h.elim
    | pow _ _ => exact h.elim

theorem updateScaling_go_rel (mu : α) (dual : Bool) {cs cs' : List (ConeSt α)} (h : ConesShape cs cs') :
    ∀ (ss zs : List (Array α)), ss.length = cs.length → zs.length = cs.length →
      RelM (fun r r' => r.1 = r'.1 ∧ (r.1 = true → r.2 = r'.2) ∧ ConesShape r.2 r'.2)
        (updateScaling.go mu dual cs ss zs) (updateScaling.go mu dual cs' ss zs) := by
  induction h with
  | nil =>
    intro ss zs _ _
    unfold updateScaling.go
    exact ⟨rfl, fun _ => rfl, .nil⟩
  | @cons c c' l l' hc hl ih =>
    intro ss zs hss hzs
    cases ss with
    | nil => cases hss
    | cons si ss =>
      cases zs with
      | nil => cases hzs
      | cons zi zs =>
        simp only [List.length_cons, Nat.add_right_cancel_iff] at hss hzs
        unfold updateScaling.go
        refine RelM.bind (updateScaling1_rel si zi mu dual hc) ?_
        rintro ⟨ok, c1⟩ ⟨ok', c1'⟩ ⟨h1, h2, h3⟩
        dsimp only at h1 h2 h3
        subst h1
        cases ok with
        | false => exact ⟨rfl, fun h => (Bool.false_ne_true h).elim, ListRel.cons h3 hl⟩
        | true =>
          dsimp only [Bool.not_true, Bool.false_eq_true, ↓reduceIte]
          refine RelM.bind (ih ss zs hss hzs) ?_
          rintro ⟨ok2, cs2⟩ ⟨ok2', cs2'⟩ ⟨g1, g2, g3⟩
          dsimp only at g1 g2 g3
          subst g1
          refine ⟨rfl, fun h => ?_, ListRel.cons h3 g3⟩
          dsimp only at h ⊢
          rw [h2 rfl, g2 h]

/-- **`CompositeCone::update_scaling` on two shape-related cone lists**: fails alike, or returns the
same flag, EQUAL cone lists when the flag is `true`, shape-related lists otherwise (it returns at the
first refusing cone; the remaining cones keep their old state) -/
theorem updateScaling_rel {cs cs' : List (ConeSt α)} (h : ConesShape cs cs') (s z : Array α) (mu : α)
    (dual : Bool) :
    RelM (fun r r' => r.1 = r'.1 ∧ (r.1 = true → r.2 = r'.2) ∧ ConesShape r.2 r'.2)
      (updateScaling cs s z mu dual) (updateScaling cs' s z mu dual) := by
  unfold updateScaling
  rw [cutE_congr_numel s _ h.map_numel, cutE_congr_numel z _ h.map_numel]
  cases hs : cutE cs' s "update_scaling s" with
  | error e => rfl
  | ok ss =>
    cases hz : cutE cs' z "update_scaling z" with
    | error e => rfl
    | ok zs =>
      have l1 := cutE_go_length s _ cs' 0 ss hs
      have l2 := cutE_go_length z _ cs' 0 zs hz
      exact updateScaling_go_rel mu dual h ss zs (by rw [l1, h.length]) (by rw [l2, h.length])

/-! `update_scaling` keeps the dimensions -/

theorem updateScaling1_numel {c : ConeSt α} {s z : Array α} {mu : α} {dual : Bool} {r : Bool × ConeSt α}
    (h : updateScaling1 c s z mu dual = .ok r) : r.2.numel = c.numel := by
  cases c with
  | sym c =>
    unfold updateScaling1 at h
    obtain ⟨⟨ok, c1⟩, h1, h⟩ := bind_ok_inv h
    cases h
    exact Solver.updateScaling1_numel h1
  | exp K =>
    unfold updateScaling1 at h
    obtain ⟨_, _, h⟩ := bind_ok_inv h
    obtain ⟨_, _, h⟩ := bind_ok_inv h
    obtain ⟨_, _, h⟩ := bind_ok_inv h
    cases h
    rfl
  | pow a K =>
    unfold updateScaling1 at h
    obtain ⟨_, _, h⟩ := bind_ok_inv h
    obtain ⟨_, _, h⟩ := bind_ok_inv h
    cases h
    rfl
  | genpow al d2 ψ K =>
    unfold updateScaling1 at h
    obtain ⟨⟨ok, K1⟩, _, h⟩ := bind_ok_inv h
    cases h
    rfl

theorem updateScaling_go_numel (mu : α) (dual : Bool) :
    ∀ (cs : List (ConeSt α)) (ss zs : List (Array α)) (r : Bool × List (ConeSt α)),
      updateScaling.go mu dual cs ss zs = .ok r → r.2.map ConeSt.numel = cs.map ConeSt.numel := by
  intro cs
  induction cs with
  | nil =>
    intro ss zs r h
    unfold updateScaling.go at h
    cases h
    rfl
  | cons c cs ih =>
    intro ss zs r h
    cases ss with
    | nil => unfold updateScaling.go at h; cases h; rfl
    | cons si ss =>
      cases zs with
      | nil => unfold updateScaling.go at h; cases h; rfl
      | cons zi zs =>
        unfold updateScaling.go at h
        obtain ⟨⟨ok, c1⟩, h1, h⟩ := bind_ok_inv h
        have hn := updateScaling1_numel h1
        cases ok with
        | false =>
          cases h
          simp only [List.map_cons, hn]
        | true =>
          dsimp only [Bool.not_true, Bool.false_eq_true, ↓reduceIte] at h
          obtain ⟨⟨ok2, cs2⟩, h2, h⟩ := bind_ok_inv h
          cases h
          simp only [List.map_cons, hn, ih ss zs _ h2]

/-- `update_scaling` keeps every cone's dimension -/
theorem updateScaling_map_numel {cs : List (ConeSt α)} {s z : Array α} {mu : α} {dual : Bool}
    {r : Bool × List (ConeSt α)} (h : updateScaling cs s z mu dual = .ok r) :
    r.2.map ConeSt.numel = cs.map ConeSt.numel := by
  unfold updateScaling at h
  obtain ⟨_, _, h⟩ := bind_ok_inv h
  obtain ⟨_, _, h⟩ := bind_ok_inv h
  exact updateScaling_go_numel mu dual _ _ _ _ h

theorem updateScaling_numel {cs : List (ConeSt α)} {s z : Array α} {mu : α} {dual : Bool}
    {r : Bool × List (ConeSt α)} (h : updateScaling cs s z mu dual = .ok r) : numelAll r.2 = numelAll cs :=
  numelAll_congr (updateScaling_map_numel h)

/-! ### 4. `set_identity_scaling` -/

/-- the per-cone function of `setIdentityScaling` -/
def setId1 (c : ConeSt α) : MErr (ConeSt α) :=
  match c with
  | .sym c => pure (.sym (Solver.setIdentityScaling1 c))
  | _ => throw (.panic "unreachable: set_identity_scaling of a nonsymmetric cone")

theorem setIdentityScaling_eq (cs : List (ConeSt α)) : setIdentityScaling cs = cs.mapM setId1 := rfl

theorem setId1_eqv {c c' : ConeSt α} (h : ConeShape c c') : RelM ConeEqvLam (setId1 c) (setId1 c') := by
  cases c <;> cases c' <;> try exact h.elim
  · exact Solver.setIdentityScaling1_eqv h
  · rfl
  · rfl
  · rfl

/-- `set_identity_scaling` on two shape-related cone lists: fails alike (a nonsymmetric cone), or the
results agree up to `λ` of the symmetric cones -/
theorem setIdentityScaling_eqv {cs cs' : List (ConeSt α)} (h : ConesShape cs cs') :
    RelM ConesEqvLam (setIdentityScaling cs) (setIdentityScaling cs') := by
  rw [setIdentityScaling_eq, setIdentityScaling_eq]
  induction h with
  | nil => exact ListRel.nil
  | cons hc _ ih =>
    simp only [List.mapM_cons]
    refine RelM.bind (setId1_eqv hc) ?_
    intro b b' hb
    refine RelM.bind ih ?_
    intro bs bs' hbs
    exact ListRel.cons hb hbs

theorem symSetIdentityScaling1_numel (c : Solver.ConeSt α) : (Solver.setIdentityScaling1 c).numel = c.numel := by
  cases c with
  | zero d => rfl
  | nonneg K => show (K.w.map _).size = K.w.size; simp
  | soc K => rfl

theorem setId1_spec {c c1 : ConeSt α} (h : setId1 c = .ok c1) : c1.numel = c.numel ∧ c1.isSymmetric = true := by
  cases c with
  | sym c =>
    cases h
    exact ⟨symSetIdentityScaling1_numel c, rfl⟩
  | exp K => cases h
  | pow a K => cases h
  | genpow al d2 ψ K => cases h

theorem setIdentityScaling_spec : ∀ (cs cs1 : List (ConeSt α)), setIdentityScaling cs = .ok cs1 →
    cs1.map ConeSt.numel = cs.map ConeSt.numel ∧ isSymmetric cs1 = true := by
  intro cs
  induction cs with
  | nil =>
    intro cs1 h
    cases h
    exact ⟨rfl, rfl⟩
  | cons c cs ih =>
    intro cs1 h
    rw [setIdentityScaling_eq, List.mapM_cons] at h
    obtain ⟨b, hb, h⟩ := bind_ok_inv h
    obtain ⟨bs, hbs, h⟩ := bind_ok_inv h
    cases h
    obtain ⟨h1, h2⟩ := setId1_spec hb
    obtain ⟨g1, g2⟩ := ih bs hbs
    refine ⟨by simp only [List.map_cons, h1, g1], ?_⟩
    unfold isSymmetric at g2 ⊢
    simp only [List.all_cons, h2, g2, Bool.and_self]

theorem setIdentityScaling_map_numel {cs cs1 : List (ConeSt α)} (h : setIdentityScaling cs = .ok cs1) :
    cs1.map ConeSt.numel = cs.map ConeSt.numel := (setIdentityScaling_spec cs cs1 h).1

theorem setIdentityScaling_isSymmetric {cs cs1 : List (ConeSt α)} (h : setIdentityScaling cs = .ok cs1) :
    isSymmetric cs1 = true := (setIdentityScaling_spec cs cs1 h).2

theorem setIdentityScaling_numelAll {cs cs1 : List (ConeSt α)} (h : setIdentityScaling cs = .ok cs1) :
    numelAll cs1 = numelAll cs := numelAll_congr (setIdentityScaling_map_numel h)

/-! ### 5. `get_Hs`, `KKTSolver::update`, `KKTSystem::update` on all-symmetric lists -/

/-- on an all-symmetric list the relation can carry the symmetry of every cone -/
theorem ConesEqvLam.withSym {cs cs' : List (ConeSt α)} (h : ConesEqvLam cs cs') (hs : isSymmetric cs = true) :
    ListRel (fun c c' : ConeSt α => ConeEqvLam c c' ∧ c.isSymmetric = true) cs cs' := by
  unfold isSymmetric at hs
  induction h with
  | nil => exact .nil
  | cons hc _ ih =>
    simp only [List.all_cons, Bool.and_eq_true] at hs
    exact .cons ⟨hc, hs.1⟩ (ih hs.2)

theorem getHs1_eqv {c c' : ConeSt α} (h : ConeEqvLam c c') (hs : c.isSymmetric = true) : getHs1 c = getHs1 c' := by
  cases c <;> cases c' <;> try exact h.elim
  · exact Solver.getHs1_eqv h
  · cases hs
  · cases hs
  · cases hs

/-- `get_Hs` of an all-symmetric composite never reads `λ` -/
theorem getHs_eqv {cs cs' : List (ConeSt α)} (h : ConesEqvLam cs cs') (hs : isSymmetric cs = true) :
    getHs cs = getHs cs' := by
  unfold getHs
  rw [mapM_congr_rel getHs1 (fun c c' hc => getHs1_eqv hc.1 hc.2) (h.withSym hs)]

/-- `KKTSolver::update` with an all-symmetric composite never reads `λ` -/
theorem kktSolverUpdate_congr_lam (K : KktSolver α) (st : LinSettings α) {cs cs' : List (ConeSt α)}
    (h : ConesEqvLam cs cs') (hs : isSymmetric cs = true) :
    kktSolverUpdate K cs st = kktSolverUpdate K cs' st := by
  unfold kktSolverUpdate
  rw [getHs_eqv h hs]
  congr 1
  funext hsv
  split
  · rfl
  · dsimp only
    congr 1
    funext K1
    congr 1
    refine Solver.foldlM_congr_rel _ _ ?_ (h.withSym hs) _
    rintro acc c c' ⟨hc, hsym⟩
    cases c <;> cases c' <;> try exact hc.elim
    · rename_i c c'
      cases c <;> cases c' <;> try exact hc.elim
      · rfl
      · rfl
      · rename_i Kc Kc'
        obtain ⟨hd, hw, he, hsp⟩ := hc
        obtain ⟨d, w, l, e, sp⟩ := Kc
        obtain ⟨d', w', l', e', sp'⟩ := Kc'
        dsimp only at hd hw he hsp
        subst hd hw he hsp
        rfl
    · rfl
    · rfl
    · cases hsym

/-- `KKTSystem::update` with an all-symmetric composite never reads `λ` -/
theorem kktSysUpdate_congr_lam (S : KktSys α) (data : ProblemData α) (st : LinSettings α)
    {cs cs' : List (ConeSt α)} (h : ConesEqvLam cs cs') (hs : isSymmetric cs = true) :
    kktSysUpdate S data cs st = kktSysUpdate S data cs' st := by
  unfold kktSysUpdate
  rw [kktSolverUpdate_congr_lam _ st h hs]

/-! ### 6. `symmetric_initialization` -/

theorem symmetricInitialization_congr {v v' : Vars α} {cones cones' : List (ConeSt α)} (hv : VarsXSZ v v')
    (hc : ConesShape cones cones') : symmetricInitialization v cones = symmetricInitialization v' cones' := by
  obtain ⟨x, s, z, t, k⟩ := v
  obtain ⟨x', s', z', t', k'⟩ := v'
  obtain ⟨h1, h2, h3⟩ := hv
  dsimp only at h1 h2 h3
  subst h1 h2 h3
  unfold symmetricInitialization
  rw [mapM_congr_rel _ (fun c c' (h : ConeShape c c') => by rw [h.compSpec?]) hc]

/-! ### 7. `unit_initialization` -/

/-- a per-cone map over `(cone, slice, slice)` triples whose function does not distinguish related
cones and reads only the lengths of the slices -/
theorem mapM_zip2_rel {β : Type} {R : ConeSt α → ConeSt α → Prop}
    (f : ConeSt α × Array α × Array α → MErr β)
    (hf : ∀ c c' p p' q q', R c c' → p.size = p'.size → q.size = q'.size → f (c, p, q) = f (c', p', q')) :
    ∀ {cs cs' : List (ConeSt α)}, ListRel R cs cs' →
      ∀ {ps ps' : List (Array α)}, ListRel (fun p p' : Array α => p.size = p'.size) ps ps' →
      ∀ {qs qs' : List (Array α)}, ListRel (fun p p' : Array α => p.size = p'.size) qs qs' →
        (cs.zip (ps.zip qs)).mapM f = (cs'.zip (ps'.zip qs')).mapM f := by
  intro cs cs' h
  induction h with
  | nil => intro _ _ _ _ _ _; rfl
  | cons hc _ ih =>
    intro ps ps' hp
    cases hp with
    | nil => intro _ _ _; rfl
    | cons hp hps =>
      intro qs qs' hq
      cases hq with
      | nil => rfl
      | cons hq hqs =>
        simp only [List.zip_cons_cons, List.mapM_cons]
        rw [hf _ _ _ _ _ _ hc hp hq, ih hps hqs]

/-- `unit_initialization` of one cone reads the LENGTHS of the incoming slices only (the symmetric
cones fill `z.map (fun _ => c)`; the nonsymmetric cones write constants), and of the cone object its
shape -/
theorem unitInit1_congr {c c' : ConeSt α} {p p' q q' : Array α} (h : ConeShape c c') (hp : p.size = p'.size)
    (hq : q.size = q'.size) : unitInit1 c p q = unitInit1 c' p' q' := by
  cases c <;> cases c' <;> try exact h.elim
  · rename_i c c'
    show Composite.unitInit1 c.compSpec p q = Composite.unitInit1 c'.compSpec p' q'
    rw [← symConeShape_compSpec h]
    cases c with
    | zero d =>
      show (pure (Zero.unitInitialization p q) : MErr _) = pure (Zero.unitInitialization p' q')
      unfold Zero.unitInitialization
      rw [map_const_congr (0 : α) hp, map_const_congr (0 : α) hq]
    | nonneg K =>
      show (pure (Nonneg.unitInitialization p q) : MErr _) = pure (Nonneg.unitInitialization p' q')
      unfold Nonneg.unitInitialization
      rw [map_const_congr (1 : α) hp, map_const_congr (1 : α) hq]
    | soc K =>
      show Soc.unitInitialization p q = Soc.unitInitialization p' q'
      unfold Soc.unitInitialization
      rw [map_const_congr (0 : α) hp, map_const_congr (0 : α) hq]
  · rfl
  · have ha : _ = _ := h
    subst ha
    rfl
  · obtain ⟨h1, h2, _⟩ := h
    subst h1 h2
    rfl

/-- `unit_initialization(z, s)` overwrites `z[rng_cones]`, `s[rng_cones]` without reading them, and
reads the shape of the cone objects only -/
theorem unitInitialization_congr_shape {cones cones' : List (ConeSt α)} (hc : ConesShape cones cones')
    {z z' s s' : Array α} (hz : SameFrom (numelAll cones) z z') (hs : SameFrom (numelAll cones) s s') :
    unitInitialization cones z s = unitInitialization cones' z' s' := by
  apply RelM.eq
  unfold unitInitialization
  rw [← cutE_congr_numel z' _ hc.map_numel, ← cutE_congr_numel s' _ hc.map_numel]
  refine RelM.bind (cutE_sizes cones _ hz.1) ?_
  intro zs zs' hzs
  refine RelM.bind (cutE_sizes cones _ hs.1) ?_
  intro ss ss' hss
  have hpz : ∀ parts, pasteBack cones z parts = pasteBack cones' z' parts := fun p => by
    rw [pasteBack_congr cones p hz, pasteBack_congr_numel z' p hc.map_numel]
  have hps : ∀ parts, pasteBack cones s parts = pasteBack cones' s' parts := fun p => by
    rw [pasteBack_congr cones p hs, pasteBack_congr_numel s' p hc.map_numel]
  simp only [hpz, hps]
  rw [mapM_zip2_rel (R := ConeShape) (fun p => unitInit1 p.1 p.2.1 p.2.2)
    (fun c c' p p' q q' h1 h2 h3 => unitInit1_congr h1 h2 h3) hc hzs hss]
  exact RelM.refl_eq _

theorem unitInitialization_congr (cones : List (ConeSt α)) {z z' s s' : Array α}
    (hz : SameFrom (numelAll cones) z z') (hs : SameFrom (numelAll cones) s s') :
    unitInitialization cones z s = unitInitialization cones z' s' :=
  unitInitialization_congr_shape (ConesShape.rfl' cones) hz hs

/-- `DefaultVariables::unit_initialization` reads the lengths of `x, s, z`, the entries of `s`, `z`
past the last cone, and the shape of the cone objects -/
theorem varsUnitInitialization_congr {cones cones' : List (ConeSt α)} {v v' : Vars α}
    (h : IterShape (numelAll cones) v v') (hc : ConesShape cones cones') :
    varsUnitInitialization v cones = varsUnitInitialization v' cones' := by
  unfold varsUnitInitialization
  rw [unitInitialization_congr_shape hc h.z h.s, map_const_congr (0 : α) h.x]

end

end Clarabel.SolverNS
