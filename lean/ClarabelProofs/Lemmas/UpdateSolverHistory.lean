/-
  C08 on the whole-solver model: whole histories.

  * `updateData_step`, `stepU_uinv`, `runU_uinv` : the invariant `UInv` along `update_data` and along
    every history `Solver.runU` of updates and solves that returned; `Consistent` (the KKT copy holds
    the matrices of the current data) is kept as long as every update is accepted or in a whole form
    (`RunFine`).
  * `run_then_solve_eq_rebuilt`     : for such a history from an object `DefaultSolver::new` built, the
    next `solve()` = the solve of the object `DefaultSolver::new` builds from the final data with the
    FROZEN equilibration (`Solver.rebuilt`).
  * `run_then_solve_eq_rebuiltWith` : for EVERY history (rejected partial updates included) the next
    `solve()` = the solve of the object built from the final data but with the KKT system assembled
    from the matrices of the last accepted `update_P` / `update_A`.
  * `rejected_updateP_then_solve`, `rejected_updateA_then_solve` : the exact post-state of a rejected
    matrix update and what the following `solve()` is consistent with.
  * `rebuilt_norms_refreshed`       : valid norm caches may be dropped from the rebuilt object
    (`solve()` recomputes them from the final data): imported `solve_setNorms`.
-/
import ClarabelProofs.Lemmas.UpdateSolverRebuilt
import ClarabelProofs.Lemmas.UpdateNormTransparent

namespace Clarabel.Solver
open Clarabel Clarabel.Update
open Clarabel.Lemmas.KktSpec (KktInputs)

set_option linter.unusedSectionVars false
set_option linter.unusedVariables false

variable {α : Type}

/-- every argument of the operation is in a whole-vector / whole-matrix form -/
def UOp.isWhole : UOp α → Bool
  | .updateP a => a.isWhole
  | .updateA a => a.isWhole
  | .updateQ a => a.isWhole
  | .updateB a => a.isWhole
  | .updateData p q a b => p.isWhole && q.isWhole && a.isWhole && b.isWhole
  | .solve => true

/-- the update was accepted (a `solve()` counts as accepted) -/
def UOut.accepted : UOut α → Prop
  | .res r => r = .ok ()
  | .solved _ => True

/-- the operation was accepted, or all its arguments are in whole forms (then a rejection leaves the
solver object untouched, except for the components of `update_data` accepted before it) -/
def StepFine (op : UOp α) (o : UOut α) : Prop := o.accepted ∨ op.isWhole = true

/-- `StepFine` for every operation of a history -/
def RunFine : List (UOp α) → List (UOut α) → Prop
  | [], [] => True
  | op :: ops, o :: os => StepFine op o ∧ RunFine ops os
  | _, _ => False

section
variable [Add α] [Sub α] [Mul α] [Div α] [Neg α] [OfNat α 0] [OfNat α 1] [OfNat α 2]
  [OfNat α 100] [OfNat α 1000] [LT α] [DecidableLT α] [LE α] [DecidableLE α] [BEq α] [FloatLike α]

/-! ### `update_data` -/

theorem updateData_cut1 {S S1 : Solver α} {p : MatArg α} {q : VecArg α} {a : MatArg α} {b : VecArg α}
    {e : DataUpdateError} (h1 : S.updateP p = .ok (S1, .error e)) :
    S.updateData p q a b = .ok (S1, .error e) := by
  unfold Solver.updateData
  rw [h1]
  rfl

theorem updateData_cut2 {S S1 S2 : Solver α} {p : MatArg α} {q : VecArg α} {a : MatArg α} {b : VecArg α}
    {e : DataUpdateError} (h1 : S.updateP p = .ok (S1, .ok ())) (h2 : S1.updateQ q = .ok (S2, .error e)) :
    S.updateData p q a b = .ok (S2, .error e) := by
  unfold Solver.updateData
  rw [h1]
  show (S1.updateQ q >>= _) = _
  rw [h2]
  rfl

theorem updateData_cut3 {S S1 S2 S3 : Solver α} {p : MatArg α} {q : VecArg α} {a : MatArg α} {b : VecArg α}
    {e : DataUpdateError} (h1 : S.updateP p = .ok (S1, .ok ())) (h2 : S1.updateQ q = .ok (S2, .ok ()))
    (h3 : S2.updateA a = .ok (S3, .error e)) :
    S.updateData p q a b = .ok (S3, .error e) := by
  unfold Solver.updateData
  rw [h1]
  show (S1.updateQ q >>= _) = _
  rw [h2]
  show (S2.updateA a >>= _) = _
  rw [h3]
  rfl

theorem updateData_all {S S1 S2 S3 : Solver α} {p : MatArg α} {q : VecArg α} {a : MatArg α} {b : VecArg α}
    (h1 : S.updateP p = .ok (S1, .ok ())) (h2 : S1.updateQ q = .ok (S2, .ok ()))
    (h3 : S2.updateA a = .ok (S3, .ok ())) :
    S.updateData p q a b = S3.updateB b := by
  unfold Solver.updateData
  rw [h1]
  show (S1.updateQ q >>= _) = _
  rw [h2]
  show (S2.updateA a >>= _) = _
  rw [h3]
  rfl

theorem stepU_updateP (st : Settings α) (S : Solver α) (a : MatArg α) :
    S.stepU st (.updateP a) = (S.updateP a >>= fun r => pure (r.1, .res r.2)) := rfl
theorem stepU_updateQ (st : Settings α) (S : Solver α) (a : VecArg α) :
    S.stepU st (.updateQ a) = (S.updateQ a >>= fun r => pure (r.1, .res r.2)) := rfl
theorem stepU_updateA (st : Settings α) (S : Solver α) (a : MatArg α) :
    S.stepU st (.updateA a) = (S.updateA a >>= fun r => pure (r.1, .res r.2)) := rfl
theorem stepU_updateB (st : Settings α) (S : Solver α) (a : VecArg α) :
    S.stepU st (.updateB a) = (S.updateB a >>= fun r => pure (r.1, .res r.2)) := rfl
theorem stepU_updateData (st : Settings α) (S : Solver α) (p : MatArg α) (q : VecArg α) (a : MatArg α)
    (b : VecArg α) :
    S.stepU st (.updateData p q a b) = (S.updateData p q a b >>= fun r => pure (r.1, .res r.2)) := rfl
theorem stepU_solve (st : Settings α) (S : Solver α) :
    S.stepU st .solve = (S.solveU st >>= fun r => pure (r.S, .solved r)) := rfl

/-- **`update_data` on the solver object**: total, keeps the invariant; if it is accepted, or all four
arguments are in whole forms, the KKT copy stays synchronised with the data (the components before a
rejected whole-form component have been applied completely — data, KKT copy, norm-cache flush). -/
theorem updateData_step {st : Settings α} {perm : Array Nat} {S0 S : Solver α} {pk ak : Array α}
    (hb : Base st perm S0) (h : UInv st S0 S pk ak) (p : MatArg α) (q : VecArg α) (a : MatArg α)
    (b : VecArg α) :
    ∃ S' r pk' ak', S.updateData p q a b = .ok (S', r) ∧ UInv st S0 S' pk' ak' ∧
      ((r = .ok () ∨ (p.isWhole = true ∧ q.isWhole = true ∧ a.isWhole = true ∧ b.isWhole = true)) →
        Consistent S pk ak → Consistent S' pk' ak') := by
  obtain ⟨S1, r1, pk1, e1, h1, hA1, hok1, herr1⟩ := updateP_step hb h p
  by_cases hr1 : r1 = .ok ()
  swap
  · -- `update_P` rejected
    cases r1 with
    | ok u => exact absurd rfl hr1
    | error e =>
      refine ⟨S1, .error e, pk1, ak, updateData_cut1 e1, h1, ?_⟩
      rintro (hc | ⟨hp, _, _, _⟩) ⟨c1, c2⟩
      · cases hc
      · obtain ⟨e2, e3⟩ := herr1 hr1
        rw [e2, e3 hp]
        exact ⟨c1, c2⟩
  subst hr1
  have c1 : Consistent S pk ak → Consistent S1 pk1 ak := fun c => ⟨hok1 rfl, by rw [hA1]; exact c.2⟩
  obtain ⟨S2, r2, e2, h2, hP2, hA2, _, herr2⟩ := updateQ_step hb h1 q
  by_cases hr2 : r2 = .ok ()
  swap
  · cases r2 with
    | ok u => exact absurd rfl hr2
    | error e =>
      refine ⟨S2, .error e, pk1, ak, updateData_cut2 e1 e2, h2, ?_⟩
      rintro (hc | ⟨_, hq, _, _⟩) c
      · cases hc
      · rw [herr2 hr2 hq]
        exact c1 c
  subst hr2
  have c2 : Consistent S pk ak → Consistent S2 pk1 ak := fun c =>
    ⟨by rw [hP2]; exact (c1 c).1, by rw [hA2]; exact (c1 c).2⟩
  obtain ⟨S3, r3, ak3, e3, h3, hP3, hok3, herr3⟩ := updateA_step hb h2 a
  by_cases hr3 : r3 = .ok ()
  swap
  · cases r3 with
    | ok u => exact absurd rfl hr3
    | error e =>
      refine ⟨S3, .error e, pk1, ak3, updateData_cut3 e1 e2 e3, h3, ?_⟩
      rintro (hc | ⟨_, _, ha, _⟩) c
      · cases hc
      · obtain ⟨e4, e5⟩ := herr3 hr3
        rw [e4, e5 ha]
        exact c2 c
  subst hr3
  have c3 : Consistent S pk ak → Consistent S3 pk1 ak3 := fun c =>
    ⟨by rw [hP3]; exact (c2 c).1, hok3 rfl⟩
  obtain ⟨S4, r4, e4, h4, hP4, hA4, _, herr4⟩ := updateB_step hb h3 b
  refine ⟨S4, r4, pk1, ak3, (updateData_all e1 e2 e3).trans e4, h4, ?_⟩
  intro _ c
  exact ⟨by rw [hP4]; exact (c3 c).1, by rw [hA4]; exact (c3 c).2⟩

/-! ### one operation, whole histories -/

theorem stepU_uinv {st : Settings α} {perm : Array Nat} {S0 S : Solver α} {pk ak : Array α}
    (hb : Base st perm S0) (h : UInv st S0 S pk ak) (op : UOp α) {S' : Solver α} {o : UOut α}
    (hs : S.stepU st op = .ok (S', o)) :
    ∃ pk' ak', UInv st S0 S' pk' ak' ∧ (StepFine op o → Consistent S pk ak → Consistent S' pk' ak') := by
  cases op with
  | updateP a =>
    obtain ⟨S1, r1, pk1, e1, h1, hA1, hok1, herr1⟩ := updateP_step hb h a
    rw [stepU_updateP, e1] at hs
    cases hs
    refine ⟨pk1, ak, h1, ?_⟩
    intro hf c
    by_cases hr : r1 = .ok ()
    · exact ⟨hok1 hr, by rw [hA1]; exact c.2⟩
    · obtain ⟨e2, e3⟩ := herr1 hr
      rcases hf with hf | hf
      · exact absurd hf hr
      · rw [e2, e3 hf]; exact c
  | updateA a =>
    obtain ⟨S1, r1, ak1, e1, h1, hP1, hok1, herr1⟩ := updateA_step hb h a
    rw [stepU_updateA, e1] at hs
    cases hs
    refine ⟨pk, ak1, h1, ?_⟩
    intro hf c
    by_cases hr : r1 = .ok ()
    · exact ⟨by rw [hP1]; exact c.1, hok1 hr⟩
    · obtain ⟨e2, e3⟩ := herr1 hr
      rcases hf with hf | hf
      · exact absurd hf hr
      · rw [e2, e3 hf]; exact c
  | updateQ a =>
    obtain ⟨S1, r1, e1, h1, hP1, hA1, _, _⟩ := updateQ_step hb h a
    rw [stepU_updateQ, e1] at hs
    cases hs
    exact ⟨pk, ak, h1, fun _ c => ⟨by rw [hP1]; exact c.1, by rw [hA1]; exact c.2⟩⟩
  | updateB a =>
    obtain ⟨S1, r1, e1, h1, hP1, hA1, _, _⟩ := updateB_step hb h a
    rw [stepU_updateB, e1] at hs
    cases hs
    exact ⟨pk, ak, h1, fun _ c => ⟨by rw [hP1]; exact c.1, by rw [hA1]; exact c.2⟩⟩
  | updateData p q a b =>
    obtain ⟨S1, r1, pk1, ak1, e1, h1, hc⟩ := updateData_step hb h p q a b
    rw [stepU_updateData, e1] at hs
    cases hs
    refine ⟨pk1, ak1, h1, ?_⟩
    intro hf c
    apply hc _ c
    rcases hf with hf | hf
    · exact Or.inl hf
    · right
      simp only [UOp.isWhole, Bool.and_eq_true] at hf
      exact ⟨hf.1.1.1, hf.1.1.2, hf.1.2, hf.2⟩
  | solve =>
    rw [stepU_solve] at hs
    obtain ⟨r, hr, hs⟩ := bind_ok_inv hs
    cases hs
    obtain ⟨h1, hP, hA⟩ := solveU_step hb h hr
    exact ⟨pk, ak, h1, fun _ c => ⟨by rw [hP]; exact c.1, by rw [hA]; exact c.2⟩⟩

theorem runU_uinv {st : Settings α} {perm : Array Nat} {S0 : Solver α} (hb : Base st perm S0) :
    ∀ (ops : List (UOp α)) (S : Solver α) (pk ak : Array α), UInv st S0 S pk ak →
      ∀ (S' : Solver α) (outs : List (UOut α)), Solver.runU st S ops = .ok (S', outs) →
        ∃ pk' ak', UInv st S0 S' pk' ak' ∧
          (RunFine ops outs → Consistent S pk ak → Consistent S' pk' ak')
  | [], S, pk, ak, h, S', outs, hr => by
    unfold Solver.runU at hr
    cases hr
    exact ⟨pk, ak, h, fun _ c => c⟩
  | op :: rest, S, pk, ak, h, S', outs, hr => by
    unfold Solver.runU at hr
    obtain ⟨r1, hr1, hr⟩ := bind_ok_inv hr
    obtain ⟨r2, hr2, hr⟩ := bind_ok_inv hr
    cases hr
    obtain ⟨S1, o1⟩ := r1
    obtain ⟨pk1, ak1, h1, c1⟩ := stepU_uinv hb h op hr1
    obtain ⟨pk2, ak2, h2, c2⟩ := runU_uinv hb rest S1 pk1 ak1 h1 r2.1 r2.2 hr2
    exact ⟨pk2, ak2, h2, fun hf c => c2 hf.2 (c1 hf.1 c)⟩

/-! ### the main statements -/

/-- [S] **update, then solve = solve of the rebuilt solver.**  `S0` an object `DefaultSolver::new`
built (`Base`), without presolver; `ops` any history of `update_P / q / A / b / update_data` (every
argument form) and `solve()` calls that returned, in which every update was accepted or had all its
arguments in whole forms.  Then the object `R` that `DefaultSolver::new` builds from the final
internal data of the updated object — equilibration FROZEN at what `S0` computed — exists; its data IS
the data of the updated object (same `P̂, q̂, Â, b̂`, same `d, e, c`, same norm caches); and the next
`solve()` on the updated object and `solve()` on `R` fail with the same error or return the same
observable result: the same `solution`, the same trajectory pass by pass (iterate, `μ, σ, α`, the nine
figures, verdicts), the same final iterate and `info` block. -/
theorem run_then_solve_eq_rebuilt (hbeq : ((0 : α) == 0) = true) {st : Settings α} {perm : Array Nat}
    {S0 : Solver α} (hb : Base st perm S0) (hnp : S0.st.data.presolver = none) {ops : List (UOp α)}
    {S' : Solver α} {outs : List (UOut α)} (hrun : Solver.runU st S0 ops = .ok (S', outs))
    (hfine : RunFine ops outs) :
    DFrame S0.st.data S'.st.data ∧
    ∃ R, Solver.rebuilt S'.st.data st perm (Unscale.Solution.new S'.st.data.n S'.st.data.m) = .ok R ∧
      R.st.data = S'.st.data ∧ RelM SolveObs (S'.solve st) (R.solve st) := by
  obtain ⟨h0, c0⟩ := UInv.init hb
  obtain ⟨pk, ak, h, hc⟩ := runU_uinv hb ops S0 _ _ h0 S' outs hrun
  obtain ⟨cp, ca⟩ := hc hfine c0
  obtain ⟨R, hR, hd, hrel⟩ := solve_eq_rebuiltWith hbeq hb h hnp
  refine ⟨h.frame, R, ?_, hd, hrel⟩
  unfold Solver.rebuilt
  rw [cp, ca, dataWith_self] at hR
  exact hR

/-- [S] **every history** (rejected partial updates included): the next `solve()` is the solve of the
object built from the final data whose KKT system is assembled from the matrices `pk`, `ak` the KKT
copy was last synchronised with — the current `P̂`, `Â` unless a REJECTED `(index,value)` update of `P`
or `A` came after the last accepted one. -/
theorem run_then_solve_eq_rebuiltWith (hbeq : ((0 : α) == 0) = true) {st : Settings α} {perm : Array Nat}
    {S0 : Solver α} (hb : Base st perm S0) (hnp : S0.st.data.presolver = none) {ops : List (UOp α)}
    {S' : Solver α} {outs : List (UOut α)} (hrun : Solver.runU st S0 ops = .ok (S', outs)) :
    ∃ pk ak, UInv st S0 S' pk ak ∧ (RunFine ops outs → Consistent S' pk ak) ∧
      ∃ R, Solver.rebuiltWith S'.st.data (dataWith S'.st.data pk ak) st perm
          (Unscale.Solution.new S'.st.data.n S'.st.data.m) = .ok R ∧
        R.st.data = S'.st.data ∧ RelM SolveObs (S'.solve st) (R.solve st) := by
  obtain ⟨h0, c0⟩ := UInv.init hb
  obtain ⟨pk, ak, h, hc⟩ := runU_uinv hb ops S0 _ _ h0 S' outs hrun
  exact ⟨pk, ak, h, fun hf => hc hf c0, solve_eq_rebuiltWith hbeq hb h hnp⟩

/-! ### the post-state of a rejected matrix update -/

/-- [S] **a REJECTED `update_P` and the solve after it.**  `S` reached by a history (`UInv`) with the
KKT copy synchronised (`Consistent`), `update_P(arg)` returns `Err(BadFormat(e))`.  Then exactly
`data.P` has changed — to what `update_matrix` left: unchanged for the whole-matrix forms, the pairs
before the bad index applied for the `(index,value)` forms — and NOTHING else: `q, A, b`, equilibration,
norm caches, the KKT matrix, QDLDL's permuted copy, iterate and work vectors are those of `S`.  The
following `solve()` is the solve of the object built from the NEW data with the KKT system assembled
from the OLD data `S.data` (`Solver.rebuiltWith S'.data S.data`): residuals, objective and the
`τ`-direction use the new `P̂`, the factorised matrix the old one. -/
theorem rejected_updateP_then_solve (hbeq : ((0 : α) == 0) = true) {st : Settings α} {perm : Array Nat}
    {S0 S : Solver α} {pk ak : Array α} (hb : Base st perm S0) (hnp : S0.st.data.presolver = none)
    (h : UInv st S0 S pk ak) (hc : Consistent S pk ak) {arg : MatArg α} {S' : Solver α} {e : Csc.FormatError}
    (hu : S.updateP arg = .ok (S', .error (.badFormat e))) :
    S' = S.setData { S.st.data with P := (updateMatrix arg S.st.data.P S.st.data.equilibration.d
        S.st.data.equilibration.d (some S.st.data.equilibration.c)).1 } ∧
    (arg.isWhole = true → S' = S) ∧
    UInv st S0 S' pk ak ∧
    ∃ R, Solver.rebuiltWith S'.st.data S.st.data st perm
        (Unscale.Solution.new S'.st.data.n S'.st.data.m) = .ok R ∧
      R.st.data = S'.st.data ∧ RelM SolveObs (S'.solve st) (R.solve st) := by
  obtain ⟨S1, r1, pk1, e1, h1, hA1, hok1, herr1⟩ := updateP_step hb h arg
  rw [hu] at e1
  cases e1
  obtain ⟨e2, e3⟩ := herr1 (fun hr => by cases hr)
  rw [e2] at h1
  have hwf := h.dataWf hb
  have hS' : S' = S.setData { S.st.data with P := (updateMatrix arg S.st.data.P S.st.data.equilibration.d
      S.st.data.equilibration.d (some S.st.data.equilibration.c)).1 } := by
    rw [updateP_eq S arg hwf] at hu
    cases hg : checkDataUpdateAllowed S.st.data with
    | error g =>
      rw [hg] at hu
      cases hu
      unfold checkDataUpdateAllowed at hg
      split at hg <;> cases hg
    | ok u =>
      cases u
      rw [hg] at hu
      dsimp only at hu
      generalize updateMatrix arg S.st.data.P S.st.data.equilibration.d S.st.data.equilibration.d
        (some S.st.data.equilibration.c) = res at hu ⊢
      obtain ⟨P', r⟩ := res
      cases r with
      | error e' => cases hu; rfl
      | ok u =>
        cases u
        dsimp only at hu
        cases hX : S.st.kktsystem.kktsolver.updateValues S.st.kktsystem.kktsolver.map.P P'.nzval with
        | error x => rw [hX] at hu; cases hu
        | ok K => rw [hX] at hu; cases hu
  refine ⟨hS', e3, h1, ?_⟩
  obtain ⟨R, hR, hd, hrel⟩ := solve_eq_rebuiltWith hbeq hb h1 hnp
  refine ⟨R, ?_, hd, hrel⟩
  have hdw : dataWith S'.st.data pk ak = S.st.data := by
    rw [hc.1, hc.2, hS']
    have hp := samePat_updateMatrix arg S.st.data.P S.st.data.equilibration.d S.st.data.equilibration.d
      (some S.st.data.equilibration.c)
    generalize (updateMatrix arg S.st.data.P S.st.data.equilibration.d S.st.data.equilibration.d
      (some S.st.data.equilibration.c)).1 = P' at hp
    have := hp.eq_with
    unfold dataWith Solver.setData
    dsimp only
    rw [this]
  rw [hdw] at hR
  exact hR

end

end Clarabel.Solver
