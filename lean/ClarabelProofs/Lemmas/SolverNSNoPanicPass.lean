/-
  Panic-freedom of the whole-solver model WITH NONSYMMETRIC CONES (C04) — composition: the step
  length (`getStepLength_okOr`), the KKT part of a pass (`kktNumerics_okOr`), one pass of the loop
  (`pass_okOr`), the loop (`runLoop_okOr`: the model's pass budget is never exhausted — direct
  induction with the measure of `SolverNSLoop.lean`), `default_start`, `runSolve`, `finish`
  (`solution.post_process`) and `Solver.solve`.

  The stages are consumed through the bundle `Stages E KIw KIs d specs st` of the interface file
  `SolverNSNoPanicDefs.lean` only.  `E` = the allowed numerical-domain panic sites.

  All structural ([S]).
-/
import ClarabelProofs.Lemmas.SolverNSNoPanicDefs
import ClarabelProofs.Lemmas.SolverModelNoPanicPass

namespace Clarabel.SolverNS
open Clarabel Info Residuals
open Clarabel.Solver (NoPanic OkAnd FmaxOK VarsSized ResidSized DataOK KSized KktSolver LinSettings
  StepDirection KktSys SolutionSized bind_ok_of equilView presolveMap)

set_option linter.unusedSectionVars false
set_option linter.unusedVariables false

variable {α : Type}

section
variable [Add α] [Sub α] [Mul α] [Div α] [Neg α] [LT α] [LE α] [DecidableLT α] [DecidableLE α]
  [BEq α] [OfNat α 0] [OfNat α 1] [OfNat α 2] [OfNat α 3] [OfNat α 4] [OfNat α 100] [OfNat α 1000]
  [OfScientific α] [FloatLike α]

/-! ### the step length -/

/-- [S] `backtrack_step_to_barrier`: only the barrier evaluations can panic (numerical domain) -/
theorem backtrackStepToBarrier_okOr {E : String → Prop} {cspecs : List Kkt.ConeSpec} (M : MidStage (α := α) E cspecs) {n m : Nat} (step : α)
    {v lhs : Vars α} {cones : List (ConeSt α)} (hc : ConesFull cones) (hn : numelAll cones = m)
    (hv : VarsSized n m v) (hl : VarsSized n m lhs) (hsp : cones.map ConeSt.kktSpec = cspecs) :
    ∀ (fuel : Nat) (a : α) (k : Nat),
      OkOr E (backtrackStepToBarrier step v lhs cones fuel a k) (fun _ => True)
  | 0, a, k => by
    unfold backtrackStepToBarrier
    exact .pure trivial
  | fuel + 1, a, k => by
    unfold backtrackStepToBarrier
    refine (M.barrier n m v lhs a cones hc hn hv hl hsp).bind fun b _ => ?_
    split
    · exact .pure trivial
    · exact backtrackStepToBarrier_okOr M step hc hn hv hl hsp fuel (step * a) (k + 1)

/-- [S] `get_step_length` -/
theorem getStepLength_okOr {E : String → Prop} {cspecs : List Kkt.ConeSpec} (M : MidStage (α := α) E cspecs) (st : Settings α)
    {S : SolverSt α} {cones : List (ConeSt α)} (dir : StepDirection) (scaling : Loop.Scaling)
    (hc : ConesFull cones) (hn : numelAll cones = S.data.m)
    (hv : VarsSized S.data.n S.data.m S.variables) (hl : VarsSized S.data.n S.data.m S.stepLhs)
    (hsp : cones.map ConeSt.kktSpec = cspecs) :
    OkOr E (getStepLength st S cones dir scaling) (fun _ => True) := by
  unfold getStepLength
  refine (M.calcStepLength S.data.n S.data.m st.ls S.variables S.stepLhs cones st.maxValue
    st.maxStepFraction dir hc hn hv hl hsp).bind fun a _ => ?_
  split
  · exact backtrackStepToBarrier_okOr M _ hc hn hv hl hsp 50 a 0
  · exact .pure trivial

/-! ### the KKT part of a pass -/

/-- [S] `kktNumerics` (KKT update, affine rhs / solve / step length, combined rhs / solve) never
panics outside the numerical-domain sites and writes `kktsystem`, `step_rhs`, `step_lhs` only -/
theorem kktNumerics_okOr {E : String → Prop} {KIw KIs : KktSolver α → Prop} {st : Settings α}
    {S : SolverSt α} {cspecs : List Kkt.ConeSpec} (M : MidStage (α := α) E cspecs)
    (T : KktTotal KIw KIs (S.cones.map ConeSt.kktSpec) S.data.n S.data.m st.lin)
    (mu : α) (iter : Nat) (scaling : Loop.Scaling) (h : Shapes KIw S)
    (hsp : S.cones.map ConeSt.kktSpec = cspecs) :
    OkOr E (kktNumerics st S S.cones mu iter scaling) (fun k => Shapes KIs k.S ∧ k.S.data = S.data
      ∧ k.S.cones = S.cones ∧ k.S.variables = S.variables ∧ k.S.prevVars = S.prevVars
      ∧ k.S.residuals = S.residuals) := by
  have hd := h.data
  unfold kktNumerics
  dsimp only
  refine (OkOr.of_okAnd (M.kktSysUpdate KIw KIs S.data.n S.data.m st.lin S.kktsystem S.data S.cones T
    h.ksized h.kkt h.cones hd.q hd.b)).bind fun r hr => ?_
  obtain ⟨updOk, K0⟩ := r
  obtain ⟨hK0, hKI0⟩ := hr
  dsimp only at hK0 hKI0 ⊢
  refine (OkOr.of_okAnd (M.affineStepRhs S.data.n S.data.m S.stepRhs S.variables S.residuals S.cones
    h.cones h.numel h.stepRhs h.resid h.vars hsp)).bind fun rhs1 hrhs1 => ?_
  have fin : ∀ (K : KktSys α) (rhs lhs : Vars α), KSized S.data.n S.data.m K → KIs K.kktsolver →
      VarsSized S.data.n S.data.m rhs → VarsSized S.data.n S.data.m lhs →
      Shapes KIs { S with kktsystem := K, stepRhs := rhs, stepLhs := lhs } :=
    fun K rhs lhs a b c d => h.of_fields rfl h.vars h.resid d c h.prevVars h.cones h.numel a b
  cases updOk with
  | false =>
    simp only [Bool.false_eq_true, ↓reduceIte, pure_bind]
    exact .pure ⟨fin _ _ _ hK0 hKI0 hrhs1 h.stepLhs, rfl, rfl, rfl, rfl, rfl⟩
  | true =>
    simp only [↓reduceIte]
    refine (OkOr.of_okAnd (M.kktSysSolve KIw KIs _ S.data.n S.data.m st.lin K0 S.data S.stepLhs rhs1
      S.variables S.cones .affine T hd rfl rfl hK0 hKI0 h.cones h.numel h.stepLhs hrhs1
      h.vars hsp)).bind fun r1 hr1 => ?_
    obtain ⟨affOk, lhs1, K1⟩ := r1
    obtain ⟨hl1, hK1, hKI1⟩ := hr1
    dsimp only at hl1 hK1 hKI1 ⊢
    cases affOk with
    | false =>
      simp only [Bool.false_eq_true, ↓reduceIte]
      exact .pure ⟨fin _ _ _ hK1 hKI1 hrhs1 hl1, rfl, rfl, rfl, rfl, rfl⟩
    | true =>
      simp only [↓reduceIte]
      refine (getStepLength_okOr M st (S := { S with kktsystem := K1, stepRhs := rhs1, stepLhs := lhs1 })
        .affine scaling h.cones h.numel h.vars hl1 hsp).bind fun p _ => ?_
      obtain ⟨aAff, nb⟩ := p
      dsimp only
      refine (OkOr.of_okAnd (M.combinedStepRhs S.data.n S.data.m rhs1 S.variables lhs1 S.residuals S.cones
        _ mu _ h.cones h.numel hrhs1 h.resid h.vars hl1 hsp)).bind fun p hp => ?_
      obtain ⟨rhs2, lhs2⟩ := p
      obtain ⟨hrhs2, hlhs2⟩ := hp
      dsimp only at hrhs2 hlhs2 ⊢
      refine (OkOr.of_okAnd (M.kktSysSolve KIw KIs _ S.data.n S.data.m st.lin K1 S.data lhs2 rhs2
        S.variables S.cones .combined T hd rfl rfl hK1 hKI1 h.cones h.numel hlhs2 hrhs2
        h.vars hsp)).bind fun r3 hr3 => ?_
      obtain ⟨combOk, lhs3, K3⟩ := r3
      obtain ⟨hl3, hK3, hKI3⟩ := hr3
      dsimp only at hl3 hK3 hKI3 ⊢
      exact .pure ⟨fin _ _ _ hK3 hKI3 hrhs2 hl3, rfl, rfl, rfl, rfl, rfl⟩

/-- [S] `save_prev_iterate` / `add_step` -/
theorem stepVars_ok {KI : KktSolver α → Prop} {S : SolverSt α} (a : α) (h : Shapes KI S) :
    OkAnd (stepVars S a) (fun pv => VarsSized S.data.n S.data.m pv.1 ∧ VarsSized S.data.n S.data.m pv.2) := by
  unfold stepVars
  refine (Solver.varsCopyFrom_ok h.prevVars h.vars).bind fun p hp => ?_
  refine (Solver.addStep_ok a h.vars h.stepLhs).bind fun v hv => ?_
  exact .pure ⟨hp, hv⟩

/-! ### one pass -/

/-- [S] **one pass of the loop panics at most at a numerical-domain site and keeps the
invariant**: on a state satisfying the invariant `pass` returns `.ok` with a state that satisfies
the invariant again (same data, same cone layout), or panics at a site allowed by `E`. -/
theorem pass_okOr {E : String → Prop} {KIw KIs : KktSolver α → Prop} {d : ProblemData α}
    {specs : List Kkt.ConeSpec} {st : Settings α} (G : Stages E KIw KIs d specs st) {L : LoopSt α}
    (h : PInv KIw d specs L.S) : OkOr E (pass st L) (fun r => PInv KIw d specs r.2.S) := by
  obtain ⟨hS, hdat, hsp⟩ := h
  unfold pass
  refine (OkOr.of_okAnd (G.mid.topNumerics L.S L.iter hS.data hS.vars hS.resid)).bind fun r hres => ?_
  obtain ⟨residuals, mu, info1⟩ := r
  dsimp only at hres ⊢
  split
  · -- check_termination says done
    split
    · exact .pure ⟨hS.of_fields rfl hS.vars hres hS.stepLhs hS.stepRhs hS.prevVars hS.cones hS.numel
        hS.ksized hS.kkt, hdat, hsp⟩
    · refine (OkOr.of_okAnd (Solver.varsCopyFrom_ok hS.vars hS.prevVars)).bind fun v hv => ?_
      split
      · exact .pure ⟨hS.of_fields rfl hv hres hS.stepLhs hS.stepRhs hS.prevVars hS.cones hS.numel
          hS.ksized hS.kkt, hdat, hsp⟩
      · exact .pure ⟨hS.of_fields rfl hv hres hS.stepLhs hS.stepRhs hS.prevVars hS.cones hS.numel
          hS.ksized hS.kkt, hdat, hsp⟩
  · -- scale_cones
    refine (G.mid.scaleCones L.S.data.n L.S.data.m L.S.variables L.S.cones mu (isDual L.scaling)
      hS.cones hS.numel hS.vars hsp).bind fun sc hsc => ?_
    obtain ⟨hc2, hk2, hn2⟩ := hsc
    have hS1 : Shapes KIw { L.S with residuals := residuals, cones := sc.2 } :=
      hS.of_fields rfl hS.vars hres hS.stepLhs hS.stepRhs hS.prevVars hc2 hn2 hS.ksized hS.kkt
    split
    · exact .pure ⟨hS.of_fields rfl hS.vars hres hS.stepLhs hS.stepRhs hS.prevVars hc2 hn2
        hS.ksized hS.kkt, hdat, hk2.trans hsp⟩
    · -- the KKT stage
      have T : KktTotal KIw KIs (sc.2.map ConeSt.kktSpec) L.S.data.n L.S.data.m st.lin := by
        rw [hk2, hsp, hdat]; exact G.kkt
      refine OkOr.bind (kktNumerics_okOr (KIw := KIw) (KIs := KIs) G.mid ?_ mu (L.iter + 1) L.scaling ?_
        (hk2.trans hsp)) fun k hk => ?_
      · exact T
      · exact hS.of_fields rfl hS.vars hres hS.stepLhs hS.stepRhs hS.prevVars hc2 hn2 hS.ksized hS.kkt
      obtain ⟨hkS, hkd, hkc, hkv, hkp, hkr⟩ := hk
      dsimp only at hkS hkd hkc hkv hkp hkr ⊢
      have hkw : Shapes KIw k.S :=
        hkS.of_fields rfl hkS.vars hkS.resid hkS.stepLhs hkS.stepRhs hkS.prevVars hkS.cones hkS.numel
          hkS.ksized (G.kkt.weaken _ hkS.kkt)
      have hkdat : k.S.data = d := hkd.trans hdat
      have hksp : k.S.cones.map ConeSt.kktSpec = specs := by rw [hkc]; exact hk2.trans hsp
      have hkI : PInv KIw d specs k.S := ⟨hkw, hkdat, hksp⟩
      have hkI' : ∀ i : InfoS α, PInv KIw d specs { k.S with info := i } := fun i =>
        ⟨hkw.of_fields rfl hkw.vars hkw.resid hkw.stepLhs hkw.stepRhs hkw.prevVars hkw.cones
          hkw.numel hkw.ksized hkw.kkt, hkdat, hksp⟩
      split
      · -- strategy_checkpoint_numerical_error
        split
        · exact .pure hkI
        · exact .pure (hkI' _)
      · have hgs : OkOr E (getStepLength st k.S sc.2 .combined L.scaling) (fun _ => True) := by
          have := getStepLength_okOr G.mid st (S := k.S) .combined L.scaling hkS.cones hkS.numel
            hkS.vars hkS.stepLhs hksp
          rw [hkc] at this
          exact this
        refine hgs.bind fun p _ => ?_
        obtain ⟨a, nbt⟩ := p
        dsimp only
        split
        · exact .pure hkI
        · split
          · exact .pure (hkI' _)
          · refine (OkOr.of_okAnd (stepVars_ok a hkw)).bind fun pv hpv => ?_
            exact .pure ⟨hkw.of_fields rfl hpv.2 hkw.resid hkw.stepLhs hkw.stepRhs hpv.1 hkw.cones
              hkw.numel hkw.ksized hkw.kkt, hkdat, hksp⟩

/-! ### the loop -/

/-- [S] **the loop panics at most at a numerical-domain site**: from a state satisfying the shape
invariant, with the iteration counter within the budget and more fuel than the measure
`(max_iter − iter) + [scaling = PrimalDual]`, `runLoop` returns `.ok` with a state satisfying the
shape invariant or panics at a site allowed by `E`.  In particular the model's
`"model: pass budget exhausted"` panic is never reached (`E` is arbitrary: take `E := NumSite`). -/
theorem runLoop_okOr {E : String → Prop} {KIw KIs : KktSolver α → Prop} {d : ProblemData α}
    {specs : List Kkt.ConeSpec} {st : Settings α} (G : Stages E KIw KIs d specs st) :
    ∀ (fuel : Nat) (L : LoopSt α), L.iter ≤ st.info.max_iter → measure st L < fuel →
      PInv KIw d specs L.S → OkOr E (runLoop st fuel L) (fun Lf => PInv KIw d specs Lf.S)
  | 0, _, _, hm, _ => by omega
  | fuel + 1, L, hI, hm, h => by
    unfold runLoop
    refine (pass_okOr G h).bind' fun r hr hP => ?_
    obtain ⟨hI', _, hdec⟩ := pass_measure (c := r.1) (L' := r.2) hI (by rw [hr])
    split
    · rename_i hc
      have := hdec hc
      exact runLoop_okOr G fuel r.2 hI' (by omega) hP
    · exact .pure hP

/-! ### `default_start`, `runSolve` -/

/-- [S] `default_start()` never panics and establishes the loop invariant -/
theorem defaultStart_okOr {E : String → Prop} {KIw KIs : KktSolver α → Prop} {d : ProblemData α}
    {specs : List Kkt.ConeSpec} {st : Settings α} (G : Stages E KIw KIs d specs st) {S : SolverSt α}
    (h : PInv KIw d specs S) : OkOr E (S.defaultStart st) (fun S' => PInv KIw d specs S') := by
  obtain ⟨hS, hdat, hsp⟩ := h
  unfold SolverSt.defaultStart
  split
  · rename_i hsym
    refine (OkOr.of_okAnd (G.cone.setIdentity S.cones hsym hS.cones hsp)).bind fun cs hcs => ?_
    obtain ⟨hc1, hk1, hn1, hsym1⟩ := hcs
    have T : KktTotal KIw KIs (cs.map ConeSt.kktSpec) S.data.n S.data.m st.lin := by
      rw [hk1, hsp, hdat]; exact G.kkt
    refine (OkOr.of_okAnd (G.mid.kktSysUpdate KIw KIs S.data.n S.data.m st.lin S.kktsystem S.data cs T
      hS.ksized hS.kkt hc1 hS.data.q hS.data.b)).bind fun r hr => ?_
    obtain ⟨updOk, K0⟩ := r
    obtain ⟨hK0, hKI0⟩ := hr
    dsimp only at hK0 hKI0 ⊢
    refine (OkOr.of_okAnd (Solver.solveInitialPoint_ok T.toSolve hK0 hKI0 hS.data.q hS.data.b
      hS.vars)).bind fun r1 hr1 => ?_
    obtain ⟨ok, v1, K1⟩ := r1
    obtain ⟨hv1, hK1, hKI1⟩ := hr1
    dsimp only at hv1 hK1 hKI1 ⊢
    refine (OkOr.of_okAnd (G.cone.symInit cs v1 S.data.n S.data.m hsym1 hc1 (hn1.trans hS.numel)
      hv1 (hk1.trans hsp))).bind fun v2 hv2 => ?_
    exact .pure ⟨hS.of_fields rfl hv2 hS.resid hS.stepLhs hS.stepRhs hS.prevVars hc1
      (hn1.trans hS.numel) hK1 (G.kkt.weaken _ hKI1), hdat, hk1.trans hsp⟩
  · refine (OkOr.of_okAnd (G.mid.unitInit S.data.n S.data.m S.variables S.cones hS.cones hS.numel
      hS.vars hsp)).bind fun v hv => ?_
    exact .pure ⟨hS.of_fields rfl hv hS.resid hS.stepLhs hS.stepRhs hS.prevVars hS.cones hS.numel
      hS.ksized hS.kkt, hdat, hsp⟩

/-- `info.reset` keeps the invariant -/
theorem resetInfo_pinv {KI : KktSolver α → Prop} {d : ProblemData α} {specs : List Kkt.ConeSpec}
    {S : SolverSt α} (h : PInv KI d specs S) : PInv KI d specs (resetInfo S) :=
  ⟨h.shapes.of_fields rfl h.shapes.vars h.shapes.resid h.shapes.stepLhs h.shapes.stepRhs
    h.shapes.prevVars h.shapes.cones h.shapes.numel h.shapes.ksized h.shapes.kkt, h.data, h.specs⟩

/-- [S] **`info.reset`, `default_start()` and the loop panic at most at a numerical-domain site**
(in particular the model's "pass budget exhausted" panic is never reached), and the state the
loop is left with satisfies the shape invariant. -/
theorem runSolve_okOr {E : String → Prop} {KIw KIs : KktSolver α → Prop} {d : ProblemData α}
    {specs : List Kkt.ConeSpec} {st : Settings α} (G : Stages E KIw KIs d specs st) {S : SolverSt α}
    (h : PInv KIw d specs S) : OkOr E (S.runSolve st) (fun L => PInv KIw d specs L.S) := by
  unfold SolverSt.runSolve
  show OkOr E ((resetInfo S).defaultStart st >>= fun S' =>
    runLoop st (st.info.max_iter + 3) (initLoopSt S')) _
  refine (defaultStart_okOr G (resetInfo_pinv h)).bind fun S' hI' => ?_
  have hm := measure_init st S'
  exact runLoop_okOr G (st.info.max_iter + 3) (initLoopSt S') (Nat.zero_le _) (by omega) hI'

/-! ### `finish`: `info.post_process`, `solution.post_process` -/

theorem finishInfo_pinv {KI : KktSolver α → Prop} {d : ProblemData α} {specs : List Kkt.ConeSpec}
    (st : Settings α) {L : LoopSt α} (h : PInv KI d specs L.S) : PInv KI d specs (finishInfo st L) := by
  have e1 : (finishInfo st L).data = L.S.data := by
    unfold finishInfo; dsimp only; split <;> rfl
  have e2 : (finishInfo st L).variables = L.S.variables := by
    unfold finishInfo; dsimp only; split <;> rfl
  have e3 : (finishInfo st L).residuals = L.S.residuals := by
    unfold finishInfo; dsimp only; split <;> rfl
  have e4 : (finishInfo st L).stepLhs = L.S.stepLhs := by
    unfold finishInfo; dsimp only; split <;> rfl
  have e5 : (finishInfo st L).stepRhs = L.S.stepRhs := by
    unfold finishInfo; dsimp only; split <;> rfl
  have e6 : (finishInfo st L).prevVars = L.S.prevVars := by
    unfold finishInfo; dsimp only; split <;> rfl
  have e7 : (finishInfo st L).cones = L.S.cones := by
    unfold finishInfo; dsimp only; split <;> rfl
  have e8 : (finishInfo st L).kktsystem = L.S.kktsystem := by
    unfold finishInfo; dsimp only; split <;> rfl
  have hS := h.shapes
  refine ⟨hS.of_fields e1 (e2 ▸ hS.vars) (e3 ▸ hS.resid) (e4 ▸ hS.stepLhs) (e5 ▸ hS.stepRhs)
    (e6 ▸ hS.prevVars) (e7 ▸ hS.cones) (e7 ▸ hS.numel) (e8 ▸ hS.ksized) (e8 ▸ hS.kkt), e1.trans h.data, ?_⟩
  rw [e7]; exact h.specs

/-- [S] everything after the loop (`info.post_process`, `solution.post_process`) never panics and
leaves a solver object that satisfies the invariant again -/
theorem finish_ok {KI : KktSolver α → Prop} {d : ProblemData α} {specs : List Kkt.ConeSpec}
    (st : Settings α) {L : LoopSt α} {sol : Unscale.Solution α} (h : PInv KI d specs L.S)
    (hsol : SolutionSized d sol) :
    OkAnd (finish st L sol) (fun r => PInv KI d specs r.1 ∧ SolutionSized d r.2) := by
  have hF := finishInfo_pinv st h
  have hFd := hF.data
  unfold finish
  dsimp only
  obtain ⟨r, hr⟩ := Solver.postProcess_ok (d := (finishInfo st L).data) (sol := sol)
    (v := (finishInfo st L).variables) (finishInfo st L).info hF.shapes.data (by rw [hFd]; exact hsol)
    hF.shapes.vars
  rw [bind_ok_of hr]
  obtain ⟨hv, hx, hz, hs⟩ := Solver.postProcess_shape hr
  refine .pure ⟨⟨hF.shapes.of_fields rfl (hF.shapes.vars.of_shape hv) hF.shapes.resid hF.shapes.stepLhs
    hF.shapes.stepRhs hF.shapes.prevVars hF.shapes.cones hF.shapes.numel hF.shapes.ksized hF.shapes.kkt,
    hFd, hF.specs⟩, ?_⟩
  exact ⟨hx.trans hsol.x, fun hp => hs.trans (hsol.none_s hp), fun hp => hz.trans (hsol.none_z hp),
    fun p hp => hs.trans (hsol.some_s p hp), fun p hp => hz.trans (hsol.some_z p hp)⟩

/-! ### the norm caches: the invariant does not look at them -/

theorem Shapes.withNorms {KI : KktSolver α → Prop} {S : SolverSt α} (h : Shapes KI S) (a b : Option α) :
    Shapes KI { S with data := { S.data with normq := a, normb := b } } :=
  ⟨h.data.withNorms a b, h.vars, h.resid, h.stepLhs, h.stepRhs, h.prevVars, h.cones, h.numel, h.ksized,
    h.kkt⟩

/-- the stage bundle depends on the data only through `n`, `m` -/
theorem Stages.withNorms {E : String → Prop} {KIw KIs : KktSolver α → Prop} {d : ProblemData α}
    {specs : List Kkt.ConeSpec} {st : Settings α} (G : Stages E KIw KIs d specs st) (a b : Option α) :
    Stages E KIw KIs { d with normq := a, normb := b } specs st :=
  ⟨G.cone, G.mid, G.kkt⟩

/-- [S] **every `solve()` returns, or panics at a numerical-domain site** (relative to the stage
bundle `G`): on a solver object satisfying the invariant, `Solver.solve` returns `.ok` and the
returned solver object satisfies the invariant again (so it can be solved again) — anchored at ITS
data, which is the data at entry with the two norm caches filled (`Solver.fillNorms`) —, or it panics
at a site allowed by `E`; it never returns `.err`, and never panics anywhere else (index / slice out
of range, length assertions, `unwrap`, the model's pass budget). -/
theorem solve_okOr {E : String → Prop} {KIw KIs : KktSolver α → Prop} {d : ProblemData α}
    {specs : List Kkt.ConeSpec} {st : Settings α} (G : Stages E KIw KIs d specs st) {S : Solver α}
    (h : SolverInv KIw d specs S) :
    OkOr E (S.solve st) (fun r => (∃ nq nb, r.S.st.data = { d with normq := some nq, normb := some nb })
      ∧ Solver.fillNorms d = .ok r.S.st.data ∧ SolverInv KIw r.S.st.data specs r.S) := by
  unfold Solver.solve
  refine (runSolve_okOr G h.st).bind fun L hI => ?_
  refine (OkOr.of_okAnd (finish_ok st hI h.solution)).bind fun r hr => ?_
  obtain ⟨nq, nb, hfill⟩ := Solver.fillNorms_ok hr.1.shapes.data
  have hd : r.1.data = d := hr.1.data
  rw [bind_ok_of hfill]
  refine .pure ⟨⟨nq, nb, ?_⟩, ?_, ⟨hr.1.shapes.withNorms _ _, rfl, hr.1.specs⟩, ?_⟩
  · show ({ r.1.data with normq := some nq, normb := some nb } : ProblemData α) = _
    rw [hd]
  · rw [← hd]; exact hfill
  · show SolutionSized { r.1.data with normq := some nq, normb := some nb } r.2
    rw [hd]; exact hr.2.withNorms _ _

/-- the literal reading with `E := NumSite`: a panic of `solve()` is one of the two
numerical-domain sites -/
theorem solve_panic_site {KIw KIs : KktSolver α → Prop} {d : ProblemData α}
    {specs : List Kkt.ConeSpec} {st : Settings α} (G : Stages NumSite KIw KIs d specs st) {S : Solver α}
    (h : SolverInv KIw d specs S) {s : String} (hp : S.solve st = .error (.panic s)) :
    s = "argument not in supported range" ∨ s = "backtrack_search: fuel" :=
  (solve_okOr G h).panic_site hp

end

end Clarabel.SolverNS
