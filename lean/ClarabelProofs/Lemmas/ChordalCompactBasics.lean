/-
  Lemmas about the search helpers of `augment_compact.rs` (model:
  `ClarabelModel/Chordal/AugCompact.lean`): `partition_point`, `get_rows_subset`,
  `get_row_index`, `modify_clique_rows`, `parent_block_indices`.
-/
import ClarabelModel.Chordal.AugCompact
import ClarabelProofs.Lemmas.ChordalTriIndex
import Mathlib.Tactic.Ring
import Mathlib.Tactic.Linarith
import Mathlib.Data.List.Nodup

namespace Clarabel.Chordal

/-! ## monadic plumbing -/

theorem bind_ok_inv' {β γ : Type} (x : MErr β) (f : β → MErr γ) (c : γ)
    (h : (x >>= f) = .ok c) : ∃ a, x = .ok a ∧ f a = .ok c := by
  cases x with
  | error e => simp [bind, Except.bind] at h
  | ok a => exact ⟨a, rfl, h⟩

theorem getE_ok {β : Type} (xs : Array β) (i : Nat) (s : String) (d : β) (h : i < xs.size) :
    getE xs i s = .ok (xs.getD i d) := by
  unfold getE
  simp [Array.getD, h, pure, Except.pure]

theorem getE_ok_inv' {β : Type} (xs : Array β) (i : Nat) (s : String) (v : β)
    (h : getE xs i s = .ok v) : i < xs.size ∧ ∀ d, xs.getD i d = v := by
  unfold getE at h
  by_cases hi : i < xs.size
  · refine ⟨hi, fun d => ?_⟩
    simp [hi, pure, Except.pure] at h
    simp [Array.getD, hi, h]
  · simp [hi, throw, throwThe, MonadExceptOf.throw] at h

theorem setE_ok {β : Type} (xs : Array β) (i : Nat) (v : β) (s : String) (h : i < xs.size) :
    setE xs i v s = .ok (xs.setIfInBounds i v) := by
  unfold setE
  simp [h, pure, Except.pure, Array.setIfInBounds]

theorem setE_ok_inv {β : Type} (xs : Array β) (i : Nat) (v : β) (s : String) (r : Array β)
    (h : setE xs i v s = .ok r) : i < xs.size ∧ r = xs.setIfInBounds i v := by
  unfold setE at h
  by_cases hi : i < xs.size
  · simp [hi, pure, Except.pure] at h
    exact ⟨hi, by simp [Array.setIfInBounds, hi, h]⟩
  · simp [hi, throw, throwThe, MonadExceptOf.throw] at h

theorem getD_setIfInBounds' {β : Type} (xs : Array β) (i j : Nat) (v d : β) :
    (xs.setIfInBounds i v).getD j d = if i = j ∧ j < xs.size then v else xs.getD j d := by
  simp only [Array.getD, Array.size_setIfInBounds]
  by_cases hj : j < xs.size
  · by_cases hij : i = j
    · subst hij; simp [hj]
    · simp [hj, hij]
  · simp [hj]

/-- invariant rule for `foldlM` in `MErr`: if every step succeeds from a state satisfying the
invariant and re-establishes it, the fold succeeds and the invariant holds at the end -/
theorem foldlM_inv {σ β : Type} (f : σ → β → MErr σ) (l : List β) (I : Nat → σ → Prop) (s0 : σ)
    (h0 : I 0 s0)
    (hstep : ∀ i (hi : i < l.length) s, I i s → ∃ s', f s l[i] = .ok s' ∧ I (i + 1) s') :
    ∃ s, l.foldlM f s0 = .ok s ∧ I l.length s := by
  induction l generalizing I s0 with
  | nil => exact ⟨s0, rfl, h0⟩
  | cons x t ih =>
    obtain ⟨s1, h1, hI1⟩ := hstep 0 (by simp) s0 h0
    have := ih (fun i s => I (i + 1) s) s1 hI1 (fun i hi s hs => by
      have := hstep (i + 1) (by simpa using hi) s hs
      simpa using this)
    obtain ⟨s, hs, hI⟩ := this
    refine ⟨s, ?_, by simpa using hI⟩
    rw [List.foldlM_cons]
    simp only [List.getElem_cons_zero] at h1
    rw [h1]
    exact hs

/-! ## `partition_point` -/

private theorem find_range_spec (p : Nat → Bool) (n : Nat) :
    match (List.range n).find? p with
    | some d => d < n ∧ p d = true ∧ ∀ e, e < d → p e = false
    | none => ∀ e, e < n → p e = false := by
  induction n with
  | zero => simp
  | succ n ih =>
    rw [List.range_succ, List.find?_append]
    cases hf : (List.range n).find? p with
    | some d =>
      rw [hf] at ih
      simp only [Option.some_or]
      exact ⟨by omega, ih.2⟩
    | none =>
      rw [hf] at ih
      simp only [Option.none_or, List.find?_cons, List.find?_nil]
      cases hp : p n with
      | true => exact ⟨by omega, hp, ih⟩
      | false =>
        intro e he
        rcases Nat.lt_succ_iff_lt_or_eq.1 he with h | h
        · exact ih e h
        · rw [h]; exact hp

/-- `partition_point(|y| y < k)` on `xs[lo..hi)`: everything before the result is `< k`, and
the element at the result (if any) is not -/
theorem partitionPointLt_spec (xs : Array Nat) (lo hi k : Nat) (h : lo ≤ hi) :
    lo ≤ partitionPointLt xs lo hi k ∧ partitionPointLt xs lo hi k ≤ hi ∧
    (∀ x, lo ≤ x → x < partitionPointLt xs lo hi k → xs.getD x 0 < k) ∧
    (partitionPointLt xs lo hi k < hi → k ≤ xs.getD (partitionPointLt xs lo hi k) 0) := by
  unfold partitionPointLt
  have hs := find_range_spec (fun d => !(decide (xs.getD (lo + d) 0 < k))) (hi - lo)
  cases hf : (List.range (hi - lo)).find? (fun d => !(decide (xs.getD (lo + d) 0 < k))) with
  | some d =>
    rw [hf] at hs
    obtain ⟨hd, hpd, hbefore⟩ := hs
    dsimp only
    refine ⟨by omega, by omega, ?_, ?_⟩
    · intro x hx1 hx2
      have := hbefore (x - lo) (by omega)
      simp only [Bool.not_eq_false', decide_eq_true_eq] at this
      rwa [show lo + (x - lo) = x by omega] at this
    · intro _
      simp only [Bool.not_eq_true', decide_eq_false_iff_not, Nat.not_lt] at hpd
      exact hpd
  | none =>
    rw [hf] at hs
    dsimp only
    refine ⟨h, Nat.le_refl _, ?_, fun hh => absurd hh (Nat.lt_irrefl _)⟩
    intro x hx1 hx2
    have := hs (x - lo) (by omega)
    simp only [Bool.not_eq_false', decide_eq_true_eq] at this
    rwa [show lo + (x - lo) = x by omega] at this

/-- `xs` is non-decreasing on the index range `[lo, hi)` -/
def MonoOn (xs : Array Nat) (lo hi : Nat) : Prop :=
  ∀ x y, lo ≤ x → x ≤ y → y < hi → xs.getD x 0 ≤ xs.getD y 0

/-- `xs` is strictly increasing on the index range `[lo, hi)` -/
def StrictOn (xs : Array Nat) (lo hi : Nat) : Prop :=
  ∀ x y, lo ≤ x → x < y → y < hi → xs.getD x 0 < xs.getD y 0

theorem StrictOn.mono {xs : Array Nat} {lo hi : Nat} (h : StrictOn xs lo hi) : MonoOn xs lo hi := by
  intro x y hx hxy hy
  rcases Nat.lt_or_eq_of_le hxy with h' | h'
  · exact Nat.le_of_lt (h x y hx h' hy)
  · subst h'; exact Nat.le_refl _

theorem StrictOn.sub {xs : Array Nat} {lo hi lo' hi' : Nat} (h : StrictOn xs lo hi)
    (h1 : lo ≤ lo') (h2 : hi' ≤ hi) : StrictOn xs lo' hi' :=
  fun x y hx hxy hy => h x y (by omega) hxy (by omega)

/-- on a sorted range everything from the partition point on is `≥ k` -/
theorem partitionPointLt_ge (xs : Array Nat) (lo hi k : Nat) (h : lo ≤ hi) (hm : MonoOn xs lo hi) :
    ∀ x, partitionPointLt xs lo hi k ≤ x → x < hi → k ≤ xs.getD x 0 := by
  intro x hx1 hx2
  obtain ⟨h1, _, _, h4⟩ := partitionPointLt_spec xs lo hi k h
  have := h4 (by omega)
  exact Nat.le_trans this (hm _ _ h1 hx1 hx2)

/-- on a strictly sorted range that contains `k` the partition point is the position of `k` -/
theorem partitionPointLt_eq_of_mem (xs : Array Nat) (lo hi k x : Nat) (hs : StrictOn xs lo hi)
    (hx1 : lo ≤ x) (hx2 : x < hi) (hk : xs.getD x 0 = k) : partitionPointLt xs lo hi k = x := by
  obtain ⟨h1, h2, h3, h4⟩ := partitionPointLt_spec xs lo hi k (by omega)
  rcases Nat.lt_trichotomy (partitionPointLt xs lo hi k) x with hlt | heq | hgt
  · exfalso
    have := h4 (by omega)
    have := hs _ _ h1 hlt hx2
    omega
  · exact heq
  · exfalso
    have := h3 x hx1 hgt
    omega

/-! ## `get_rows_subset` -/

/-- index `x` lies in the segment `[lo, hi)` of `xs` and its value in the row range `[rs, re)` -/
def InSeg (xs : Array Nat) (lo hi rs re x : Nat) : Prop :=
  lo ≤ x ∧ x < hi ∧ rs ≤ xs.getD x 0 ∧ xs.getD x 0 < re

/-- `get_rows_subset` on a sorted segment returns exactly the index range of the entries whose
row lies in `[rs, re)` (`None` is turned into the empty range `0..0` by the callers) -/
theorem getRowsSubset_spec (xs : Array Nat) (lo hi rs re : Nat) (hm : MonoOn xs lo hi) :
    ∀ x, (((getRowsSubset xs lo hi rs re).getD (0, 0)).1 ≤ x ∧
          x < ((getRowsSubset xs lo hi rs re).getD (0, 0)).2) ↔ InSeg xs lo hi rs re x := by
  intro x
  unfold getRowsSubset InSeg
  by_cases h1 : hi ≤ lo ∨ re ≤ rs
  · rw [if_pos h1]
    simp only [Option.getD_none]
    constructor
    · intro h; omega
    · intro h; omega
  rw [if_neg h1]
  have hlh : lo < hi := by omega
  by_cases h2 : xs.getD (hi - 1) 0 < rs
  · rw [if_pos h2]
    simp only [Option.getD_none]
    constructor
    · intro h; omega
    · rintro ⟨a, b, c, d⟩
      have := hm x (hi - 1) a (by omega) (by omega)
      omega
  rw [if_neg h2]
  by_cases h3 : xs.getD lo 0 ≥ re
  · rw [if_pos h3]
    simp only [Option.getD_none]
    constructor
    · intro h; omega
    · rintro ⟨a, b, c, d⟩
      have := hm lo x (Nat.le_refl _) a b
      omega
  rw [if_neg h3]
  simp only [Option.getD_some]
  obtain ⟨a1, a2, a3, a4⟩ := partitionPointLt_spec xs lo hi rs (by omega)
  obtain ⟨b1, b2, b3, b4⟩ := partitionPointLt_spec xs lo hi re (by omega)
  have a5 := partitionPointLt_ge xs lo hi rs (by omega) hm
  have b5 := partitionPointLt_ge xs lo hi re (by omega) hm
  constructor
  · rintro ⟨hx1, hx2⟩
    refine ⟨by omega, by omega, a5 x hx1 (by omega), ?_⟩
    exact b3 x (by omega) hx2
  · rintro ⟨c1, c2, c3, c4⟩
    constructor
    · rcases Nat.lt_or_ge x (partitionPointLt xs lo hi rs) with h | h
      · have := a3 x c1 h; omega
      · exact h
    · rcases Nat.lt_or_ge x (partitionPointLt xs lo hi re) with h | h
      · exact h
      · have := b5 x h c2; omega

/-- the `Some(s..e)` case: the range is inside the segment and well-ordered -/
theorem getRowsSubset_some (xs : Array Nat) (lo hi rs re s e : Nat)
    (h : getRowsSubset xs lo hi rs re = some (s, e)) : lo ≤ s ∧ e ≤ hi ∧ lo < hi := by
  unfold getRowsSubset at h
  by_cases h1 : hi ≤ lo ∨ re ≤ rs
  · rw [if_pos h1] at h; cases h
  rw [if_neg h1] at h
  by_cases h2 : xs.getD (hi - 1) 0 < rs
  · rw [if_pos h2] at h; cases h
  rw [if_neg h2] at h
  by_cases h3 : xs.getD lo 0 ≥ re
  · rw [if_pos h3] at h; cases h
  rw [if_neg h3] at h
  simp only [Option.some.injEq, Prod.mk.injEq] at h
  obtain ⟨a1, _, _, _⟩ := partitionPointLt_spec xs lo hi rs (by omega)
  obtain ⟨_, b2, _, _⟩ := partitionPointLt_spec xs lo hi re (by omega)
  omega

/-! ## `get_row_index`, `modify_clique_rows` -/

/-- a hit of `get_row_index` is a position of the range holding the row `rs + k` -/
theorem getRowIndex_some (k : Nat) (rowval : Array Nat) (rs : Nat) (col : Nat × Nat) (r : Nat)
    (h : getRowIndex k rowval rs col = some r) :
    col.1 ≤ r ∧ r < col.2 ∧ rowval.getD r 0 = rs + k := by
  unfold getRowIndex at h
  by_cases h1 : col.2 ≤ col.1
  · rw [if_pos h1] at h; cases h
  rw [if_neg h1] at h
  simp only at h
  split at h
  · cases h
  · rename_i h2
    simp only [Option.some.injEq] at h
    subst h
    have hle : col.1 ≤ min col.2 (col.1 + (rs + k) + 1) := by omega
    obtain ⟨a1, a2, _, _⟩ := partitionPointLt_spec rowval col.1 (min col.2 (col.1 + (rs + k) + 1)) (rs + k) hle
    simp only [ge_iff_le, bne_iff_ne, ne_eq, not_or, Nat.not_le, Decidable.not_not] at h2
    refine ⟨a1, by omega, h2.2⟩

/-- on a strictly increasing range whose rows are `≥ rs`, `get_row_index` finds the position of
the row `rs + k` whenever it is present -/
theorem getRowIndex_of_mem (k : Nat) (rowval : Array Nat) (rs : Nat) (col : Nat × Nat) (x : Nat)
    (hs : StrictOn rowval col.1 col.2) (hge : ∀ y, col.1 ≤ y → y < col.2 → rs ≤ rowval.getD y 0)
    (hx1 : col.1 ≤ x) (hx2 : x < col.2) (hk : rowval.getD x 0 = rs + k) :
    getRowIndex k rowval rs col = some x := by
  unfold getRowIndex
  rw [if_neg (by omega)]
  simp only
  -- position bound: x - col.1 ≤ rowval[x] - rowval[col.1]
  have hgrow : ∀ d, col.1 + d < col.2 → rowval.getD col.1 0 + d ≤ rowval.getD (col.1 + d) 0 := by
    intro d
    induction d with
    | zero => intro _; simp
    | succ d ih =>
      intro hd
      have := ih (by omega)
      have := hs (col.1 + d) (col.1 + (d + 1)) (by omega) (by omega) hd
      omega
  have hxu : x < min col.2 (col.1 + (rs + k) + 1) := by
    have := hgrow (x - col.1) (by omega)
    rw [show col.1 + (x - col.1) = x by omega] at this
    have := hge col.1 (Nat.le_refl _) (by omega)
    omega
  have hpp := partitionPointLt_eq_of_mem rowval col.1 (min col.2 (col.1 + (rs + k) + 1)) (rs + k) x
    (hs.sub (Nat.le_refl _) (Nat.min_le_left _ _)) hx1 hxu hk
  rw [hpp]
  rw [if_neg]
  simp only [ge_iff_le, bne_iff_ne, ne_eq, not_or, Nat.not_le, Decidable.not_not]
  exact ⟨hxu, hk⟩

/-- `modify_clique_rows` either leaves `v` alone or writes `newRowVal` to one slot of the range
whose row is `rs + k` -/
theorem modifyCliqueRows_ok (v : Array Nat) (k : Nat) (rowval : Array Nat) (newRowVal rs : Nat)
    (col : Nat × Nat) (hsz : col.2 ≤ v.size) :
    ∃ v', modifyCliqueRows v k rowval newRowVal rs col = .ok v' ∧
      (v' = v ∨ ∃ r, col.1 ≤ r ∧ r < col.2 ∧ rowval.getD r 0 = rs + k ∧
        v' = v.setIfInBounds r newRowVal) := by
  unfold modifyCliqueRows
  cases h : getRowIndex k rowval rs col with
  | none => exact ⟨v, rfl, Or.inl rfl⟩
  | some r =>
    obtain ⟨h1, h2, h3⟩ := getRowIndex_some k rowval rs col r h
    exact ⟨_, setE_ok v r newRowVal _ (by omega), Or.inr ⟨r, h1, h2, h3, rfl⟩⟩

/-- … and it does write when the row is present (strictly sorted range) -/
theorem modifyCliqueRows_hit (v : Array Nat) (k : Nat) (rowval : Array Nat) (newRowVal rs : Nat)
    (col : Nat × Nat) (x : Nat) (hsz : col.2 ≤ v.size)
    (hs : StrictOn rowval col.1 col.2) (hge : ∀ y, col.1 ≤ y → y < col.2 → rs ≤ rowval.getD y 0)
    (hx1 : col.1 ≤ x) (hx2 : x < col.2) (hk : rowval.getD x 0 = rs + k) :
    modifyCliqueRows v k rowval newRowVal rs col = .ok (v.setIfInBounds x newRowVal) := by
  unfold modifyCliqueRows
  rw [getRowIndex_of_mem k rowval rs col x hs hge hx1 hx2 hk]
  exact setE_ok v x newRowVal _ (by omega)

end Clarabel.Chordal
