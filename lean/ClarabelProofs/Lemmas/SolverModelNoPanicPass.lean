/-
  Panic-freedom of the whole-solver model (C04) — composition: one pass of the loop
  (`pass_ok`), the loop (`runLoop_ok`, with `runLoopO_spec` / `full_terminates` for the pass
  budget), `default_start`, `runSolve`, `finish` (`solution.post_process`) and `Solver.solve`.

  The stages are consumed through the bundles `ConeStage` (composite cone), `TopStage` (sparse
  kernels, top numerics) and `KktTotal2` (linear solver object); they are discharged in
  `SolverModelNoPanicAll.lean`.

  All structural ([S]).
-/
import ClarabelProofs.Lemmas.SolverModelNoPanicKktSys
import ClarabelProofs.Lemmas.SolverModelRun

namespace Clarabel.Solver
open Clarabel Info Residuals

set_option linter.unusedSectionVars false
set_option linter.unusedVariables false

variable {α : Type}

section
variable [Add α] [Sub α] [Mul α] [Div α] [Neg α] [OfNat α 0] [OfNat α 1] [OfNat α 2]
  [OfNat α 100] [OfNat α 1000] [LT α] [DecidableLT α] [LE α] [DecidableLE α] [BEq α] [FloatLike α]

theorem Shapes.ksized {KI : KktSolver α → Prop} {S : SolverSt α} (h : Shapes KI S) :
    KSized S.data.n S.data.m S.kktsystem :=
  ⟨h.x1, h.z1, h.x2, h.z2, h.workx, h.workz, h.workConic⟩

/-- rebuild the invariant for a state with the same data from its components -/
theorem Shapes.of_fields {KI KI' : KktSolver α → Prop} {S S' : SolverSt α} (h : Shapes KI S)
    (hd : S'.data = S.data)
    (hv : VarsSized S.data.n S.data.m S'.variables) (hr : ResidSized S.data.n S.data.m S'.residuals)
    (hl : VarsSized S.data.n S.data.m S'.stepLhs) (hrhs : VarsSized S.data.n S.data.m S'.stepRhs)
    (hp : VarsSized S.data.n S.data.m S'.prevVars) (hc : ConesFull S'.cones)
    (hn : numelAll S'.cones = S.data.m) (hK : KSized S.data.n S.data.m S'.kktsystem)
    (hKI : KI' S'.kktsystem.kktsolver) : Shapes KI' S' := by
  refine ⟨hd ▸ h.data, ?_, ?_, ?_, ?_, ?_, hc, ?_, ?_, ?_, ?_, ?_, ?_, ?_, ?_, hKI⟩ <;> rw [hd]
  · exact hv
  · exact hr
  · exact hl
  · exact hrhs
  · exact hp
  · exact hn
  · exact hK.x1
  · exact hK.z1
  · exact hK.x2
  · exact hK.z2
  · exact hK.workx
  · exact hK.workz
  · exact hK.workConic

/-- the stages a `solve()` on the problem `(d, specs)` runs through -/
structure Stages (KIw KIs : KktSolver α → Prop) (d : ProblemData α) (specs : List Kkt.ConeSpec)
    (st : Settings α) : Prop where
  cone : ConeStage α
  top : TopStage α
  kkt : KktTotal2 KIw KIs specs d.n d.m st.lin

/-- the loop invariant, anchored at the problem `(d, specs)` -/
structure PInv (KI : KktSolver α → Prop) (d : ProblemData α) (specs : List Kkt.ConeSpec)
    (S : SolverSt α) : Prop where
  shapes : Shapes KI S
  data : S.data = d
  specs : S.cones.map ConeSt.kktSpec = specs

/-! ### the KKT part of a pass -/

/-- [S] `kktNumerics` (KKT update, affine rhs / solve / step length, combined rhs / solve) is total
and writes `kktsystem`, `step_rhs`, `step_lhs` only -/
theorem kktNumerics_ok {KIw KIs : KktSolver α → Prop} {st : Settings α} {S : SolverSt α}
    (CS : ConeStage α) (TS : TopStage α)
    (T : KktTotal2 KIw KIs (S.cones.map ConeSt.kktSpec) S.data.n S.data.m st.lin)
    (mu : α) (iter : Nat) (h : Shapes KIw S) :
    OkAnd (kktNumerics st S S.cones mu iter) (fun k => Shapes KIs k.S ∧ k.S.data = S.data
      ∧ k.S.cones = S.cones ∧ k.S.variables = S.variables ∧ k.S.prevVars = S.prevVars
      ∧ k.S.residuals = S.residuals) := by
  have hd := h.data
  unfold kktNumerics
  dsimp only
  refine (kktSysUpdate_ok T h.ksized h.kkt h.cones hd.q hd.b).bind fun r hr => ?_
  obtain ⟨updOk, K0⟩ := r
  obtain ⟨hK0, hKI0⟩ := hr
  dsimp only at hK0 hKI0 ⊢
  refine (affineStepRhs_ok CS h.cones h.numel h.stepRhs h.resid h.vars).bind fun rhs1 hrhs1 => ?_
  have fin : ∀ (K : KktSys α) (rhs lhs : Vars α), KSized S.data.n S.data.m K → KIs K.kktsolver →
      VarsSized S.data.n S.data.m rhs → VarsSized S.data.n S.data.m lhs →
      Shapes KIs { S with kktsystem := K, stepRhs := rhs, stepLhs := lhs } :=
    fun K rhs lhs a b c d => h.of_fields rfl h.vars h.resid d c h.prevVars h.cones h.numel a b
  cases updOk with
  | false =>
    simp only [Bool.false_eq_true, ↓reduceIte, pure_bind]
    exact .pure ⟨fin _ _ _ hK0 hKI0 hrhs1 h.stepLhs, rfl, rfl, rfl, rfl, rfl⟩
  | true =>
    simp only [↓reduceIte]
    refine (kktSysSolve_ok CS TS T .affine hd rfl rfl hK0 hKI0 h.cones h.numel h.stepLhs hrhs1
      h.vars).bind fun r1 hr1 => ?_
    obtain ⟨affOk, lhs1, K1⟩ := r1
    obtain ⟨hl1, hK1, hKI1⟩ := hr1
    dsimp only at hl1 hK1 hKI1 ⊢
    cases affOk with
    | false =>
      simp only [Bool.false_eq_true, ↓reduceIte]
      exact .pure ⟨fin _ _ _ hK1 hKI1 hrhs1 hl1, rfl, rfl, rfl, rfl, rfl⟩
    | true =>
      simp only [↓reduceIte]
      refine (OkAnd.of_exists (calcStepLength_ok CS st.maxValue st.maxStepFraction .affine h.cones
        h.numel h.vars hl1)).bind fun aAff _ => ?_
      refine (combinedStepRhs_ok CS _ mu _ h.cones h.numel hrhs1 h.resid h.vars hl1).bind
        fun p hp => ?_
      obtain ⟨rhs2, lhs2⟩ := p
      obtain ⟨hrhs2, hlhs2⟩ := hp
      dsimp only at hrhs2 hlhs2 ⊢
      refine (kktSysSolve_ok CS TS T .combined hd rfl rfl hK1 hKI1 h.cones h.numel hlhs2 hrhs2
        h.vars).bind fun r3 hr3 => ?_
      obtain ⟨combOk, lhs3, K3⟩ := r3
      obtain ⟨hl3, hK3, hKI3⟩ := hr3
      dsimp only at hl3 hK3 hKI3 ⊢
      exact .pure ⟨fin _ _ _ hK3 hKI3 hrhs2 hl3, rfl, rfl, rfl, rfl, rfl⟩

/-- [S] `save_prev_iterate` / `add_step` -/
theorem stepVars_ok {KI : KktSolver α → Prop} {S : SolverSt α} (a : α) (h : Shapes KI S) :
    OkAnd (stepVars S a) (fun pv => VarsSized S.data.n S.data.m pv.1 ∧ VarsSized S.data.n S.data.m pv.2) := by
  unfold stepVars
  refine (varsCopyFrom_ok h.prevVars h.vars).bind fun p hp => ?_
  refine (addStep_ok a h.vars h.stepLhs).bind fun v hv => ?_
  exact .pure ⟨hp, hv⟩

/-! ### one pass -/

/-- [S] **one pass of the loop never panics and keeps the invariant**: on a state satisfying the
invariant `pass` returns `.ok`, and the state it returns satisfies the invariant again (same
data, same cone layout). -/
theorem pass_ok {KIw KIs : KktSolver α → Prop} {d : ProblemData α} {specs : List Kkt.ConeSpec}
    {st : Settings α} (G : Stages KIw KIs d specs st) {L : LoopSt α} (h : PInv KIw d specs L.S) :
    OkAnd (pass st L) (fun r => PInv KIw d specs r.2.S) := by
  obtain ⟨hS, hdat, hsp⟩ := h
  unfold pass
  refine (OkAnd.of_exists (G.top.topNumerics L.S L.iter hS.data hS.vars hS.resid)).bind fun r hr => ?_
  obtain ⟨residuals, mu, info1⟩ := r
  have hrs := topNumerics_shape hr
  have hres : ResidSized L.S.data.n L.S.data.m residuals :=
    ⟨hrs.1.trans hS.resid.rx, hrs.2.1.trans hS.resid.rz, hrs.2.2.1.trans hS.resid.rx_inf,
      hrs.2.2.2.1.trans hS.resid.rz_inf, hrs.2.2.2.2.trans hS.resid.Px⟩
  dsimp only
  split
  · -- check_termination says done
    split
    · exact .pure ⟨hS.of_fields rfl hS.vars hres hS.stepLhs hS.stepRhs hS.prevVars hS.cones hS.numel
        hS.ksized hS.kkt, hdat, hsp⟩
    · refine (varsCopyFrom_ok hS.vars hS.prevVars).bind fun v hv => ?_
      exact .pure ⟨hS.of_fields rfl hv hres hS.stepLhs hS.stepRhs hS.prevVars hS.cones hS.numel
        hS.ksized hS.kkt, hdat, hsp⟩
  · -- scale_cones
    refine (scaleCones_ok G.cone hS.cones hS.numel hS.vars).bind fun sc hsc => ?_
    obtain ⟨hc2, hk2, hn2⟩ := hsc
    have hS1 : Shapes KIw { L.S with residuals := residuals, cones := sc.2 } :=
      hS.of_fields rfl hS.vars hres hS.stepLhs hS.stepRhs hS.prevVars hc2 hn2 hS.ksized hS.kkt
    split
    · exact .pure ⟨hS.of_fields rfl hS.vars hres hS.stepLhs hS.stepRhs hS.prevVars hc2 hn2
        hS.ksized hS.kkt, hdat, hk2.trans hsp⟩
    · -- the KKT stage
      have T : KktTotal2 KIw KIs (sc.2.map ConeSt.kktSpec) L.S.data.n L.S.data.m st.lin := by
        rw [hk2, hsp, hdat]; exact G.kkt
      refine OkAnd.bind (kktNumerics_ok (KIw := KIw) (KIs := KIs) G.cone G.top ?_ mu (L.iter + 1) ?_)
        fun k hk => ?_
      · exact T
      · exact hS.of_fields rfl hS.vars hres hS.stepLhs hS.stepRhs hS.prevVars hc2 hn2 hS.ksized hS.kkt
      obtain ⟨hkS, hkd, hkc, hkv, hkp, hkr⟩ := hk
      dsimp only at hkS hkd hkc hkv hkp hkr ⊢
      have hkw : Shapes KIw k.S :=
        hkS.of_fields rfl hkS.vars hkS.resid hkS.stepLhs hkS.stepRhs hkS.prevVars hkS.cones hkS.numel
          hkS.ksized (G.kkt.weaken _ hkS.kkt)
      have hkdat : k.S.data = d := hkd.trans hdat
      have hksp : k.S.cones.map ConeSt.kktSpec = specs := by rw [hkc]; exact hk2.trans hsp
      split
      · exact .pure ⟨hkw.of_fields rfl hkw.vars hkw.resid hkw.stepLhs hkw.stepRhs hkw.prevVars hkw.cones
          hkw.numel hkw.ksized hkw.kkt, hkdat, hksp⟩
      · have hcal : ∃ a, calcStepLength k.S.variables k.S.stepLhs sc.2 st.maxValue st.maxStepFraction
            .combined = .ok a := by
          have := calcStepLength_ok G.cone st.maxValue st.maxStepFraction .combined hkS.cones hkS.numel
            hkS.vars hkS.stepLhs
          rw [hkc] at this
          exact this
        refine (OkAnd.of_exists hcal).bind fun a _ => ?_
        split
        · exact .pure ⟨hkw.of_fields rfl hkw.vars hkw.resid hkw.stepLhs hkw.stepRhs hkw.prevVars
            hkw.cones hkw.numel hkw.ksized hkw.kkt, hkdat, hksp⟩
        · refine (stepVars_ok a hkw).bind fun pv hpv => ?_
          exact .pure ⟨hkw.of_fields rfl hpv.2 hkw.resid hkw.stepLhs hkw.stepRhs hpv.1 hkw.cones
            hkw.numel hkw.ksized hkw.kkt, hkdat, hksp⟩

/-! ### the loop -/

theorem reach_pinv {KIw KIs : KktSolver α → Prop} {d : ProblemData α} {specs : List Kkt.ConeSpec}
    {st : Settings α} (G : Stages KIw KIs d specs st) {L L' : LoopSt α} (hR : Reach st L L')
    (h : PInv KIw d specs L.S) : PInv KIw d specs L'.S := by
  induction hR with
  | refl => exact h
  | step hp _ ih =>
    obtain ⟨r, hr, hI⟩ := pass_ok G h
    rw [hp] at hr
    cases hr
    exact ih hI

/-- [S] **the loop never panics**: from a state satisfying the loop invariants (`LInv` of C04 for
the iteration counter, `PInv` for the shapes) and with more fuel than remaining iterations,
`runLoop` returns `.ok`; the final state satisfies the shape invariant.  (The pass budget is
never exhausted: `runLoopO_spec`.) -/
theorem runLoop_ok {KIw KIs : KktSolver α → Prop} {d : ProblemData α} {specs : List Kkt.ConeSpec}
    {st : Settings α} (G : Stages KIw KIs d specs st) (fuel : Nat) {L : LoopSt α} (hI : LInv st L)
    (hf : st.info.max_iter - L.iter < fuel) (h : PInv KIw d specs L.S) :
    OkAnd (runLoop st fuel L) (fun Lf => PInv KIw d specs Lf.S) := by
  have hspec := runLoopO_spec st fuel L hI hf
  rw [runLoop_eq_runLoopO]
  cases hr : runLoopO st fuel L with
  | error e =>
    rw [hr] at hspec
    obtain ⟨L', hR, hp⟩ := hspec
    obtain ⟨r, hr', _⟩ := pass_ok G (reach_pinv G hR h)
    rw [hp] at hr'
    cases hr'
  | ok o =>
    rw [hr] at hspec
    cases o with
    | none => exact hspec.elim
    | some Lf =>
      obtain ⟨_, L', hR, hp⟩ := hspec
      obtain ⟨r, hr', hI'⟩ := pass_ok G (reach_pinv G hR h)
      rw [hp] at hr'
      cases hr'
      exact ⟨Lf, rfl, hI'⟩

/-! ### `default_start`, `runSolve` -/

/-- [S] `default_start()` never panics and establishes the loop invariant -/
theorem defaultStart_ok {KIw KIs : KktSolver α → Prop} {d : ProblemData α} {specs : List Kkt.ConeSpec}
    {st : Settings α} (G : Stages KIw KIs d specs st) {S : SolverSt α} (h : PInv KIw d specs S) :
    OkAnd (S.defaultStart st) (fun S' => PInv KIw d specs S') := by
  obtain ⟨hS, hdat, hsp⟩ := h
  obtain ⟨hc1, hk1, _, hn1⟩ := G.cone.setIdentity S.cones hS.cones
  unfold SolverSt.defaultStart
  dsimp only
  have T : KktTotal2 KIw KIs ((setIdentityScaling S.cones).map ConeSt.kktSpec) S.data.n S.data.m st.lin := by
    rw [hk1, hsp, hdat]; exact G.kkt
  refine (kktSysUpdate_ok T hS.ksized hS.kkt hc1 hS.data.q hS.data.b).bind fun r hr => ?_
  obtain ⟨updOk, K0⟩ := r
  obtain ⟨hK0, hKI0⟩ := hr
  dsimp only at hK0 hKI0 ⊢
  refine (solveInitialPoint_ok T hK0 hKI0 hS.data.q hS.data.b hS.vars).bind fun r1 hr1 => ?_
  obtain ⟨ok, v1, K1⟩ := r1
  obtain ⟨hv1, hK1, hKI1⟩ := hr1
  dsimp only at hv1 hK1 hKI1 ⊢
  refine (symmetricInitialization_ok G.cone hc1 (hn1.trans hS.numel) hv1).bind fun v2 hv2 => ?_
  exact .pure ⟨hS.of_fields rfl hv2 hS.resid hS.stepLhs hS.stepRhs hS.prevVars hc1 (hn1.trans hS.numel)
    hK1 (G.kkt.weaken _ hKI1), hdat, hk1.trans hsp⟩

/-- [S] **`info.reset`, `default_start()` and the loop never panic** (in particular the model's
"pass budget exhausted" panic is never reached), and the state the loop is left with satisfies
the shape invariant. -/
theorem runSolve_ok {KIw KIs : KktSolver α → Prop} {d : ProblemData α} {specs : List Kkt.ConeSpec}
    {st : Settings α} (G : Stages KIw KIs d specs st) {S : SolverSt α} (h : PInv KIw d specs S) :
    OkAnd (S.runSolve st) (fun L => PInv KIw d specs L.S) := by
  have h0 : PInv KIw d specs (resetInfo S) :=
    ⟨h.shapes.of_fields rfl h.shapes.vars h.shapes.resid h.shapes.stepLhs h.shapes.stepRhs
      h.shapes.prevVars h.shapes.cones h.shapes.numel h.shapes.ksized h.shapes.kkt, h.data, h.specs⟩
  obtain ⟨S', hS', hI'⟩ := defaultStart_ok G h0
  have hL := runLoop_ok G (st.info.max_iter + 2) (L := initLoopSt S') (initLoopSt_inv hS')
    (by show st.info.max_iter - 0 < st.info.max_iter + 2; omega) hI'
  unfold SolverSt.runSolve
  show OkAnd ((resetInfo S).defaultStart st >>= fun S' => runLoop st (st.info.max_iter + 2) (initLoopSt S')) _
  rw [bind_ok_of hS']
  exact hL

/-! ### `finish`: `info.post_process`, `solution.post_process` -/

theorem reverseLoop_ok (infb : α) (vs vz : Array α) :
    ∀ (keep : List Bool) (idx ctr : Nat) (s z : Array α),
      idx + keep.length ≤ s.size → idx + keep.length ≤ z.size →
      ctr + (keep.filter id).length ≤ vs.size → ctr + (keep.filter id).length ≤ vz.size →
      ∃ r, Unscale.reverseLoop infb vs vz keep idx ctr s z = .ok r := by
  intro keep
  induction keep with
  | nil => intro idx ctr s z _ _ _ _; exact ⟨(s, z), rfl⟩
  | cons k rest ih =>
    intro idx ctr s z h1 h2 h3 h4
    simp only [List.length_cons] at h1 h2
    unfold Unscale.reverseLoop
    cases k with
    | true =>
      simp only [List.filter_cons, id_eq, ↓reduceIte, List.length_cons] at h3 h4
      simp only [↓reduceIte]
      rw [show getE vs ctr "reverse_presolve: variables.s" = .ok vs[ctr] from by
        simp [getE, show ctr < vs.size by omega]; rfl]
      rw [show getE vz ctr "reverse_presolve: variables.z" = .ok vz[ctr] from by
        simp [getE, show ctr < vz.size by omega]; rfl]
      simp only [setE, show idx < s.size by omega, show idx < z.size by omega, ↓reduceDIte]
      exact ih (idx + 1) (ctr + 1) _ _ (by simp only [Array.size_set]; omega)
        (by simp only [Array.size_set]; omega) (by omega) (by omega)
    | false =>
      simp only [List.filter_cons, id_eq, Bool.false_eq_true, ↓reduceIte] at h3 h4
      simp only [Bool.false_eq_true, ↓reduceIte]
      simp only [setE, show idx < s.size by omega, show idx < z.size by omega, ↓reduceDIte]
      exact ih (idx + 1) ctr _ _ (by simp only [Array.size_set]; omega)
        (by simp only [Array.size_set]; omega) h3 h4

/-- [S] `solution.post_process` (un-scaling, reverse presolve, copies) never panics on a solution
object sized for the problem -/
theorem postProcess_ok {d : ProblemData α} {sol : Unscale.Solution α} {v : Vars α} (i : InfoS α)
    (hd : DataOK d) (hsol : SolutionSized d sol) (hv : VarsSized d.n d.m v) :
    ∃ r, Unscale.postProcess sol (equilView d.equilibration) (presolveMap d) v i = .ok r := by
  have hu := unscale_shape v (equilView d.equilibration) i.status.isInfeasible
  unfold Unscale.postProcess
  dsimp only
  cases hp : presolveMap d with
  | none =>
    dsimp only
    unfold Unscale.copyFrom
    rw [if_neg (by simp only [bne_iff_ne, ne_eq, Decidable.not_not]; rw [hsol.x, ← hu.x, hv.x])]
    rw [if_neg (by simp only [bne_iff_ne, ne_eq, Decidable.not_not]; rw [hsol.none_z hp, ← hu.z, hv.z])]
    rw [if_neg (by simp only [bne_iff_ne, ne_eq, Decidable.not_not]; rw [hsol.none_s hp, ← hu.s, hv.s])]
    exact ⟨_, rfl⟩
  | some p =>
    dsimp only
    unfold Unscale.reversePresolve Unscale.copyFrom
    dsimp only
    rw [if_neg (by simp only [bne_iff_ne, ne_eq, Decidable.not_not]; rw [hsol.x, ← hu.x, hv.x])]
    have hk := hd.keep p hp
    obtain ⟨r, hr⟩ := reverseLoop_ok p.infbound (Unscale.unscale v (equilView d.equilibration)
      i.status.isInfeasible).s (Unscale.unscale v (equilView d.equilibration) i.status.isInfeasible).z
      p.keep.toList 0 0 sol.s sol.z (by rw [hsol.some_s p hp]; simp)
      (by rw [hsol.some_z p hp]; simp) (by rw [hk, ← hu.s, hv.s]; omega) (by rw [hk, ← hu.z, hv.z]; omega)
    simp only [pure_bind]
    rw [bind_ok_of hr]
    exact ⟨_, rfl⟩

/-- the solver object `DefaultSolver::new` builds, and every `solve()` leaves -/
structure SolverInv (KI : KktSolver α → Prop) (d : ProblemData α) (specs : List Kkt.ConeSpec)
    (S : Solver α) : Prop where
  st : PInv KI d specs S.st
  solution : SolutionSized d S.solution

theorem finishInfo_pinv {KI : KktSolver α → Prop} {d : ProblemData α} {specs : List Kkt.ConeSpec}
    (st : Settings α) {L : LoopSt α} (h : PInv KI d specs L.S) : PInv KI d specs (finishInfo st L) := by
  have e1 : (finishInfo st L).data = L.S.data := by
    unfold finishInfo; dsimp only; split <;> rfl
  have e2 : (finishInfo st L).variables = L.S.variables := by
    unfold finishInfo; dsimp only; split <;> rfl
  have e3 : (finishInfo st L).residuals = L.S.residuals := by
    unfold finishInfo; dsimp only; split <;> rfl
  have e4 : (finishInfo st L).stepLhs = L.S.stepLhs := by
    unfold finishInfo; dsimp only; split <;> rfl
  have e5 : (finishInfo st L).stepRhs = L.S.stepRhs := by
    unfold finishInfo; dsimp only; split <;> rfl
  have e6 : (finishInfo st L).prevVars = L.S.prevVars := by
    unfold finishInfo; dsimp only; split <;> rfl
  have e7 : (finishInfo st L).cones = L.S.cones := by
    unfold finishInfo; dsimp only; split <;> rfl
  have e8 : (finishInfo st L).kktsystem = L.S.kktsystem := by
    unfold finishInfo; dsimp only; split <;> rfl
  have hS := h.shapes
  refine ⟨hS.of_fields e1 (e2 ▸ hS.vars) (e3 ▸ hS.resid) (e4 ▸ hS.stepLhs) (e5 ▸ hS.stepRhs)
    (e6 ▸ hS.prevVars) (e7 ▸ hS.cones) (e7 ▸ hS.numel) (e8 ▸ hS.ksized) (e8 ▸ hS.kkt), e1.trans h.data, ?_⟩
  rw [e7]; exact h.specs

/-- [S] everything after the loop (`info.post_process`, `solution.post_process`) never panics and
leaves a solver object that satisfies the invariant again -/
theorem finish_ok {KI : KktSolver α → Prop} {d : ProblemData α} {specs : List Kkt.ConeSpec}
    (st : Settings α) {L : LoopSt α} {sol : Unscale.Solution α} (h : PInv KI d specs L.S)
    (hsol : SolutionSized d sol) :
    OkAnd (finish st L sol) (fun r => PInv KI d specs r.1 ∧ SolutionSized d r.2) := by
  have hF := finishInfo_pinv st h
  have hFd := hF.data
  unfold finish
  dsimp only
  obtain ⟨r, hr⟩ := postProcess_ok (d := (finishInfo st L).data) (sol := sol)
    (v := (finishInfo st L).variables) (finishInfo st L).info hF.shapes.data (by rw [hFd]; exact hsol)
    hF.shapes.vars
  rw [bind_ok_of hr]
  obtain ⟨hv, hx, hz, hs⟩ := postProcess_shape hr
  refine .pure ⟨⟨hF.shapes.of_fields rfl (hF.shapes.vars.of_shape hv) hF.shapes.resid hF.shapes.stepLhs
    hF.shapes.stepRhs hF.shapes.prevVars hF.shapes.cones hF.shapes.numel hF.shapes.ksized hF.shapes.kkt,
    hFd, hF.specs⟩, ?_⟩
  exact ⟨hx.trans hsol.x, fun hp => hs.trans (hsol.none_s hp), fun hp => hz.trans (hsol.none_z hp),
    fun p hp => hs.trans (hsol.some_s p hp), fun p hp => hz.trans (hsol.some_z p hp)⟩

/-! ### the norm caches: the invariant does not look at them -/

theorem Shapes.withNorms {KI : KktSolver α → Prop} {S : SolverSt α} (h : Shapes KI S) (a b : Option α) :
    Shapes KI { S with data := { S.data with normq := a, normb := b } } :=
  ⟨h.data.withNorms a b, h.vars, h.resid, h.stepLhs, h.stepRhs, h.prevVars, h.cones, h.numel, h.x1, h.z1,
    h.x2, h.z2, h.workx, h.workz, h.workConic, h.kkt⟩

/-- the stage bundle depends on the data only through `n`, `m` -/
theorem Stages.withNorms {KIw KIs : KktSolver α → Prop} {d : ProblemData α} {specs : List Kkt.ConeSpec}
    {st : Settings α} (G : Stages KIw KIs d specs st) (a b : Option α) :
    Stages KIw KIs { d with normq := a, normb := b } specs st :=
  ⟨G.cone, G.top, G.kkt⟩

/-- [S] **every `solve()` returns without panicking** (relative to the stage bundle `G`): on a
solver object satisfying the invariant, `Solver.solve` returns `.ok`, and the returned solver
object satisfies the invariant again (so it can be solved again) — anchored at ITS data, which is the
data at entry with the two norm caches filled (`fillNorms`; the invariant does not look at the
caches: `Shapes.withNorms`, `Stages.withNorms`). -/
theorem solve_ok {KIw KIs : KktSolver α → Prop} {d : ProblemData α} {specs : List Kkt.ConeSpec}
    {st : Settings α} (G : Stages KIw KIs d specs st) {S : Solver α} (h : SolverInv KIw d specs S) :
    OkAnd (S.solve st) (fun r => (∃ nq nb, r.S.st.data = { d with normq := some nq, normb := some nb })
      ∧ fillNorms d = .ok r.S.st.data ∧ SolverInv KIw r.S.st.data specs r.S) := by
  unfold Solver.solve
  refine (runSolve_ok G h.st).bind fun L hI => ?_
  refine (finish_ok st hI h.solution).bind fun r hr => ?_
  obtain ⟨nq, nb, hfill⟩ := fillNorms_ok hr.1.shapes.data
  have hd : r.1.data = d := hr.1.data
  rw [bind_ok_of hfill]
  refine .pure ⟨⟨nq, nb, ?_⟩, ?_, ⟨hr.1.shapes.withNorms _ _, rfl, hr.1.specs⟩, ?_⟩
  · show ({ r.1.data with normq := some nq, normb := some nb } : ProblemData α) = _
    rw [hd]
  · rw [← hd]; exact hfill
  · show SolutionSized { r.1.data with normq := some nq, normb := some nb } r.2
    rw [hd]; exact hr.2.withNorms _ _

end

end Clarabel.Solver
