/-
  The validity predicate of a clique tree (`SuperNodeTree` + `ordering`), as a Lean `Prop`.

  It is the predicate that C17's oracle (`check_clique_tree` in `harness/src/bin/c17.rs`)
  evaluates on every analysis result: consistent sizes, `snode_post` a duplicate-free list of
  live cliques, supernodes partitioning the vertices with consecutive numbering in post-order,
  supernode and separator of a clique disjoint and in range, single root (last in post-order,
  empty separator), every other clique precedes its parent and
  `separator = clique ∩ parent clique`, the running intersection property ("every vertex has
  exactly one top clique" — derived below as `ValidTree.running_intersection`, under
  `separator = clique ∩ parent` it is the same thing as the partition into supernodes),
  `nblk[i] = |clique i|`, and `ordering` a permutation.

  C18's theorems about the compact transformation, its reversal and the PSD completion take a
  tree satisfying this predicate as their hypothesis.

  (Re-created verbatim from C18's `Lemmas/ChordalValid.lean` after that path was taken over by
  C17's `ValidCliqueTree` file; `postAt` renamed to `postIdx` because
  `ClarabelModel/Chordal/Valid.lean` (C17) defines `SuperNodeTree.postAt`.  The two files can
  be imported together.)
-/
import ClarabelModel.Chordal.AugStd

namespace Clarabel.Chordal

namespace SuperNodeTree

/-- tree index of the clique with post-order index `i` -/
def postIdx (t : SuperNodeTree) (i : Nat) : Nat := t.snodePost.getD i 0
/-- supernode of the clique with post-order index `i` (`get_snode(i)`) -/
def snodeAt (t : SuperNodeTree) (i : Nat) : List Nat := (t.snode.getD (t.postIdx i) #[]).toList
/-- separator of the clique with post-order index `i` (`get_separators(i)`) -/
def sepAt (t : SuperNodeTree) (i : Nat) : List Nat := (t.separators.getD (t.postIdx i) #[]).toList
/-- the clique with post-order index `i` : supernode followed by separator -/
def cliqueAt (t : SuperNodeTree) (i : Nat) : List Nat := t.snodeAt i ++ t.sepAt i
/-- the clique with post-order index `j` is the parent of the one with post-order index `i` -/
def IsParent (t : SuperNodeTree) (i j : Nat) : Prop :=
  j < t.nCliques ∧ t.snodeParent.getD (t.postIdx i) 0 = t.postIdx j
/-- number of vertices in the supernodes with post-order index `< i` -/
def snodeOffset (t : SuperNodeTree) (i : Nat) : Nat :=
  ((List.range i).map (fun j => (t.snodeAt j).length)).sum

end SuperNodeTree

/-- validity of a clique tree on the vertices `0 .. n-1` (C17's oracle predicate) -/
structure ValidTree (t : SuperNodeTree) (n : Nat) : Prop where
  ncl_pos : 0 < t.nCliques
  post_size : t.snodePost.size = t.nCliques
  sep_size : t.separators.size = t.snode.size
  par_size : t.snodeParent.size = t.snode.size
  /-- `snode_post` lists live cliques … -/
  post_lt : ∀ i, i < t.nCliques → t.postIdx i < t.snode.size
  /-- … without repetition -/
  post_inj : ∀ i j, i < t.nCliques → j < t.nCliques → t.postIdx i = t.postIdx j → i = j
  /-- supernode and separator of a clique are disjoint and duplicate-free -/
  clique_nodup : ∀ i, i < t.nCliques → (t.cliqueAt i).Nodup
  /-- vertices are in range -/
  clique_lt : ∀ i, i < t.nCliques → ∀ v ∈ t.cliqueAt i, v < n
  /-- no live clique has an empty supernode -/
  snode_ne : ∀ i, i < t.nCliques → t.snodeAt i ≠ []
  /-- the supernodes are pairwise disjoint … -/
  snode_disj : ∀ i j v, i < t.nCliques → j < t.nCliques → v ∈ t.snodeAt i → v ∈ t.snodeAt j → i = j
  /-- … and cover the vertices (together: they partition `0 .. n-1`) -/
  snode_cover : ∀ v, v < n → ∃ i, i < t.nCliques ∧ v ∈ t.snodeAt i
  /-- consecutive numbering in post-order (`reorder_snode_consecutively`) -/
  snode_consec : ∀ i, i < t.nCliques → ∀ v,
    v ∈ t.snodeAt i ↔ (t.snodeOffset i ≤ v ∧ v < t.snodeOffset (i + 1))
  /-- the last clique of the post-order is the root and has no separator -/
  root_parent : t.snodeParent.getD (t.postIdx (t.nCliques - 1)) 0 = noParent
  root_sep : t.sepAt (t.nCliques - 1) = []
  /-- every other clique has a parent later in the post-order, and its separator is
  exactly `clique ∩ parent clique` -/
  parent : ∀ i, i + 1 < t.nCliques → ∃ j, i < j ∧ t.IsParent i j ∧
    ∀ v, v ∈ t.sepAt i ↔ (v ∈ t.cliqueAt i ∧ v ∈ t.cliqueAt j)
  /-- block dimensions -/
  nblk : ∃ nb, t.nblk = some nb ∧ nb.size = t.nCliques ∧
    ∀ i, i < t.nCliques → nb.getD i 0 = (t.cliqueAt i).length

/-- validity of a sparsity pattern: a valid tree on `ordering.size` vertices and `ordering` a
permutation -/
structure ValidPattern (p : SPattern) : Prop where
  tree : ValidTree p.sntree p.ordering.size
  ord_lt : ∀ v, v < p.ordering.size → p.ordering.getD v 0 < p.ordering.size
  ord_inj : ∀ u v, u < p.ordering.size → v < p.ordering.size →
    p.ordering.getD u 0 = p.ordering.getD v 0 → u = v

namespace ValidTree
variable {t : SuperNodeTree} {n : Nat}

theorem snode_sub_clique (i v : Nat) (h : v ∈ t.snodeAt i) : v ∈ t.cliqueAt i :=
  List.mem_append_left _ h

theorem sep_sub_clique (i v : Nat) (h : v ∈ t.sepAt i) : v ∈ t.cliqueAt i :=
  List.mem_append_right _ h

/-- a vertex of a clique is in its supernode or in its separator, never in both -/
theorem snode_or_sep (h : ValidTree t n) {i v : Nat} (hi : i < t.nCliques) (hv : v ∈ t.cliqueAt i) :
    (v ∈ t.snodeAt i ∧ v ∉ t.sepAt i) ∨ (v ∈ t.sepAt i ∧ v ∉ t.snodeAt i) := by
  have hnd := h.clique_nodup i hi
  unfold SuperNodeTree.cliqueAt at hnd hv
  have hdisj := (List.nodup_append.1 hnd).2.2
  rcases List.mem_append.1 hv with h1 | h1
  · exact Or.inl ⟨h1, fun h2 => hdisj v h1 v h2 rfl⟩
  · exact Or.inr ⟨h1, fun h2 => hdisj v h2 v h1 rfl⟩

/-- `v` is a *top* vertex of clique `i`: it is in the clique and not in the parent clique -/
def Top (t : SuperNodeTree) (i v : Nat) : Prop :=
  v ∈ t.cliqueAt i ∧ (i + 1 = t.nCliques ∨ ∀ j, t.IsParent i j → v ∉ t.cliqueAt j)

/-- the parent of a clique is unique -/
theorem parent_unique (h : ValidTree t n) {i j j' : Nat}
    (hj : t.IsParent i j) (hj' : t.IsParent i j') : j = j' :=
  h.post_inj j j' hj.1 hj'.1 (hj.2.symm.trans hj'.2)

/-- top vertices of a clique = its supernode -/
theorem top_iff_snode (h : ValidTree t n) {i v : Nat} (hi : i < t.nCliques) :
    Top t i v ↔ v ∈ t.snodeAt i := by
  constructor
  · rintro ⟨hc, htop⟩
    rcases h.snode_or_sep hi hc with h1 | h1
    · exact h1.1
    · exfalso
      rcases htop with hr | hp
      · have : i = t.nCliques - 1 := by omega
        rw [this, h.root_sep] at h1
        exact absurd h1.1 (List.not_mem_nil)
      · have hlt : i + 1 < t.nCliques := by
          rcases Nat.lt_or_ge (i + 1) t.nCliques with h' | h'
          · exact h'
          · exfalso
            have : i = t.nCliques - 1 := by omega
            rw [this, h.root_sep] at h1
            exact absurd h1.1 (List.not_mem_nil)
        obtain ⟨j, _, hpar, hsep⟩ := h.parent i hlt
        exact hp j hpar ((hsep v).1 h1.1).2
  · intro hs
    refine ⟨snode_sub_clique i v hs, ?_⟩
    rcases Nat.lt_or_ge (i + 1) t.nCliques with hlt | hge
    · right
      intro j hj hvj
      obtain ⟨j', _, hpar, hsep⟩ := h.parent i hlt
      have : j = j' := h.parent_unique hj hpar
      subst this
      have hvs : v ∈ t.sepAt i := (hsep v).2 ⟨snode_sub_clique i v hs, hvj⟩
      rcases h.snode_or_sep hi (snode_sub_clique i v hs) with h1 | h1
      · exact h1.2 hvs
      · exact h1.2 hs
    · left; omega

/-- **running intersection** in the form checked by C17's oracle: every vertex has exactly
one top clique (hence the cliques containing it form a connected subtree) -/
theorem running_intersection (h : ValidTree t n) {v : Nat} (hv : v < n) :
    ∃ i, i < t.nCliques ∧ Top t i v ∧ ∀ i', i' < t.nCliques → Top t i' v → i' = i := by
  obtain ⟨i, hi, hs⟩ := h.snode_cover v hv
  refine ⟨i, hi, (h.top_iff_snode hi).2 hs, fun i' hi' ht => ?_⟩
  exact h.snode_disj i' i v hi' hi ((h.top_iff_snode hi').1 ht) hs

end ValidTree

/-! ### a concrete valid tree: the path `0 — 1 — 2`, cliques `{0,1}` and `{1,2}` -/

/-- supernodes `{0}`, `{1,2}`; separators `{1}`, `∅`; clique 0 is the child of clique 1 -/
def exTreeV : SuperNodeTree :=
  { snode := #[#[0], #[1, 2]], snodePost := #[0, 1], snodeParent := #[1, noParent],
    snodeChildren := #[], post := #[], separators := #[#[1], #[]], nblk := some #[2, 2],
    nCliques := 2 }

def exPattern : SPattern := { sntree := exTreeV, ordering := #[0, 1, 2], origIndex := 0 }

private theorem lt_two {i : Nat} (h : i < 2) : i = 0 ∨ i = 1 := by omega

theorem exTreeV_valid : ValidTree exTreeV 3 where
  ncl_pos := by decide
  post_size := rfl
  sep_size := rfl
  par_size := rfl
  post_lt := by
    intro i hi
    rcases lt_two hi with rfl | rfl <;> decide
  post_inj := by
    intro i j hi hj
    rcases lt_two hi with rfl | rfl <;> rcases lt_two hj with rfl | rfl <;> decide
  clique_nodup := by
    intro i hi
    rcases lt_two hi with rfl | rfl <;> decide
  clique_lt := by
    intro i hi
    rcases lt_two hi with rfl | rfl <;> decide
  snode_ne := by
    intro i hi
    rcases lt_two hi with rfl | rfl <;> decide
  snode_disj := by
    intro i j v hi hj
    rcases lt_two hi with rfl | rfl <;> rcases lt_two hj with rfl | rfl <;>
      simp [SuperNodeTree.snodeAt, SuperNodeTree.postIdx, exTreeV] <;> omega
  snode_cover := by
    intro v hv
    have : v = 0 ∨ v = 1 ∨ v = 2 := by omega
    rcases this with rfl | rfl | rfl
    · exact ⟨0, by decide, by decide⟩
    · exact ⟨1, by decide, by decide⟩
    · exact ⟨1, by decide, by decide⟩
  snode_consec := by
    intro i hi v
    rcases lt_two hi with rfl | rfl
    · simp [SuperNodeTree.snodeAt, SuperNodeTree.postIdx, SuperNodeTree.snodeOffset, exTreeV,
        List.range_succ]
    · simp [SuperNodeTree.snodeAt, SuperNodeTree.postIdx, SuperNodeTree.snodeOffset, exTreeV,
        List.range_succ]
      omega
  root_parent := rfl
  root_sep := rfl
  parent := by
    intro i hi
    have : i = 0 := by
      have : i + 1 < 2 := hi
      omega
    subst this
    refine ⟨1, by decide, ⟨by decide, rfl⟩, fun v => ?_⟩
    simp [SuperNodeTree.sepAt, SuperNodeTree.cliqueAt, SuperNodeTree.snodeAt,
      SuperNodeTree.postIdx, exTreeV]
    omega
  nblk := by
    refine ⟨#[2, 2], rfl, rfl, fun i hi => ?_⟩
    rcases lt_two hi with rfl | rfl <;> rfl

theorem exPattern_valid : ValidPattern exPattern where
  tree := exTreeV_valid
  ord_lt := by
    intro v hv
    have : v = 0 ∨ v = 1 ∨ v = 2 := by
      have : v < 3 := hv
      omega
    rcases this with rfl | rfl | rfl <;> decide
  ord_inj := by
    intro u v hu hv
    have hu' : u = 0 ∨ u = 1 ∨ u = 2 := by
      have : u < 3 := hu
      omega
    have hv' : v = 0 ∨ v = 1 ∨ v = 2 := by
      have : v < 3 := hv
      omega
    rcases hu' with rfl | rfl | rfl <;> rcases hv' with rfl | rfl | rfl <;> decide

end Clarabel.Chordal
