/-
  The whole-solver model (`ClarabelModel/Solver/Solve.lean`) refines the control skeleton
  (`ClarabelModel/Loop.lean`): decision tables of `check_termination`, inversion of one pass,
  the simulation relation, and the run of the loop.  All structural ([S]): no arithmetic law of
  the scalar type is used.
-/
import ClarabelProofs.Lemmas.SolverLoop
import ClarabelProofs.Lemmas.Loop
import Mathlib.Tactic.SplitIfs

namespace Clarabel.Loop
set_option linter.unusedSectionVars false
variable {α : Type} [Mul α] [Div α] [Neg α] [OfNat α 0] [OfNat α 1]
  [LT α] [DecidableLT α] [LE α] [DecidableLE α] [BEq α] [FloatLike α]

/-- the control fields of a skeleton state -/
def ctrl (s : State α) : Nat × Scaling × α × α × α × Info α × Dots α × Nat :=
  (s.iter, s.scaling, s.alpha, s.sigma, s.mu, s.info, s.dots, s.passes)

theorem passDone_sym_noip {cfg : Config α} {s1 : State α}
    (h : s1.info.status ≠ .InsufficientProgress) :
    ∃ s', passDone cfg s1 = .brk s' ∧ ctrl s' = ctrl s1 := by
  unfold passDone
  simp only [cpInsufficientProgress, cpInsufficientProgressStatus, h, ne_eq, not_false_eq_true, if_true,
    decide_false, Bool.false_eq_true, if_false, Bool.false_and]
  exact ⟨_, rfl, rfl⟩

theorem passDone_sym_ip {cfg : Config α} {s1 : State α} (hsym : cfg.symmetric = true)
    (h : s1.info.status = .InsufficientProgress) :
    ∃ s', passDone cfg s1 = .brk s' ∧
      ctrl s' = (s1.iter, s1.scaling, s1.alpha, s1.sigma, s1.mu, s1.info.resetToPrev, s1.dots, s1.passes) := by
  unfold passDone
  simp only [cpInsufficientProgress, cpInsufficientProgressStatus, h, hsym, ne_eq, not_true_eq_false, if_false,
    Bool.not_true, Bool.false_and, Bool.false_eq_true, decide_true, if_true]
  split
  · refine ⟨_, rfl, ?_⟩
    simp only [ctrl, Info.resetToPrev, h]
  · refine ⟨_, rfl, ?_⟩
    simp only [ctrl, Info.resetToPrev, h]

theorem passStep_scaleFail {cfg : Config α} {o : PassOracle α} {s1 : State α} (h : o.scaleOk = false) :
    ∃ s', passStep cfg o s1 = .brk s' ∧
      ctrl s' = (s1.iter, s1.scaling, s1.alpha, s1.sigma, s1.mu,
        { s1.info with status := .NumericalError }, s1.dots, s1.passes) := by
  unfold passStep
  simp only [cpIsScalingSuccess, cpIsScalingSuccessStatus, h, Bool.false_eq_true, if_false]
  exact ⟨_, rfl, rfl⟩

theorem passStep_kktFail {cfg : Config α} {o : PassOracle α} {s1 : State α} (hsym : cfg.symmetric = true)
    (h : o.scaleOk = true) (hk : (o.kktAffOk && o.kktCombOk) = false) :
    ∃ s', passStep cfg o s1 = .brk s' ∧
      ctrl s' = (s1.iter + 1, s1.scaling, 0, (if o.kktAffOk then o.sigma else s1.sigma), s1.mu,
        { s1.info with status := .NumericalError }, s1.dots, s1.passes) := by
  unfold passStep
  simp only [cpIsScalingSuccess, h, if_true]
  unfold passKkt
  simp only [cpNumericalError, cpNumericalErrorStatus, hk, hsym, Bool.false_eq_true, if_false, Bool.not_true,
    Bool.false_and]
  exact ⟨_, rfl, rfl⟩

theorem passStep_smallStep {cfg : Config α} {o : PassOracle α} {s1 : State α} (hsym : cfg.symmetric = true)
    (h : o.scaleOk = true) (hk : (o.kktAffOk && o.kktCombOk) = true)
    (ha : o.alpha ≤ fmax 0 cfg.minTerminateStepLength) :
    ∃ s', passStep cfg o s1 = .brk s' ∧
      ctrl s' = (s1.iter + 1, s1.scaling, 0, (if o.kktAffOk then o.sigma else s1.sigma), s1.mu,
        { s1.info with status := .InsufficientProgress }, s1.dots, s1.passes) := by
  unfold passStep
  simp only [cpIsScalingSuccess, h, if_true]
  unfold passKkt
  simp only [cpNumericalError, cpNumericalErrorStatus, hk, hsym, if_true, cpSmallStep, cpSmallStepStatus,
    Bool.not_true, Bool.false_and, Bool.false_eq_true, if_false, ha]
  exact ⟨_, rfl, rfl⟩

theorem passStep_step {cfg : Config α} {o : PassOracle α} {s1 : State α} (hsym : cfg.symmetric = true)
    (h : o.scaleOk = true) (hk : (o.kktAffOk && o.kktCombOk) = true)
    (ha : ¬ o.alpha ≤ fmax 0 cfg.minTerminateStepLength) :
    ∃ s', passStep cfg o s1 = .cont s' ∧
      ctrl s' = (s1.iter + 1, s1.scaling, o.alpha, (if o.kktAffOk then o.sigma else s1.sigma), s1.mu,
        s1.info.savePrev, s1.dots, s1.passes) := by
  unfold passStep
  simp only [cpIsScalingSuccess, h, if_true]
  unfold passKkt
  simp only [cpNumericalError, cpNumericalErrorStatus, hk, hsym, if_true, cpSmallStep, cpSmallStepStatus,
    Bool.not_true, Bool.false_and, Bool.false_eq_true, if_false, ha]
  exact ⟨_, rfl, rfl⟩

end Clarabel.Loop


namespace Clarabel.Solver
open Clarabel Info

set_option linter.unusedSectionVars false
set_option linter.unusedSimpArgs false
set_option linter.unusedVariables false

variable {α : Type}

/-- decision table of `check_termination` (skeleton side) -/
def ctl (s1 : Loop.Status) (g r p1 p23 mx tm : Bool) : Loop.Status :=
  let v := if s1 = .Unsolved ∧ g = true ∧ r = true then
      (if p23 then .InsufficientProgress else if p1 then .InsufficientProgress else .Unsolved) else s1
  if v = .Unsolved then (if mx then .MaxIterations else if tm then .MaxTime else .Unsolved) else v

/-- decision table of `check_termination` (model side) -/
def cti (s1 : SolverStatus) (g r p1 p23 mx tm : Bool) : SolverStatus :=
  let v := if s1 = .unsolved ∧ g = true ∧ r = true then
      (if p23 then .insufficientProgress else if p1 then .insufficientProgress else .unsolved) else s1
  if v = .unsolved then (if mx then .maxIterations else if tm then .maxTime else .unsolved) else v

theorem cti_abs (s1 : SolverStatus) (g r p1 p23 mx tm : Bool) :
    absStatus (cti s1 g r p1 p23 mx tm) = ctl (absStatus s1) g r p1 p23 mx tm := by
  cases s1 <;> cases g <;> cases r <;> cases p1 <;> cases p23 <;> cases mx <;> cases tm <;> rfl

section
variable [Mul α] [Div α] [Neg α] [OfNat α 0] [OfNat α 1]
  [LT α] [DecidableLT α] [LE α] [DecidableLE α] [FloatLike α]

theorem loop_checkTermination_table (I : Loop.Info α) (d : Loop.Dots α) (cfg : Loop.Config α) (iter : Nat) :
    Loop.checkTermination I d cfg iter =
      ctl (Loop.checkConvergence I d cfg.full .Solved .PrimalInfeasible .DualInfeasible)
        (decide (iter > 1))
        (decide (I.prevResDual < I.resDual) || decide (I.prevResPrimal < I.resPrimal))
        (decide (I.ktratio < FloatLike.eps * Loop.lit 100)
          && (decide (I.prevGapAbs < cfg.full.gapAbs) || decide (I.prevGapRel < cfg.full.gapRel)))
        (decide (I.ktratio < 1)
          && ((decide (cfg.full.feas * Loop.lit 100 < I.resDual) && decide (I.prevResDual * Loop.lit 100 < I.resDual))
            || (decide (cfg.full.feas * Loop.lit 100 < I.resPrimal) && decide (I.prevResPrimal * Loop.lit 100 < I.resPrimal))))
        (decide (cfg.maxIter = I.iterations)) (decide (cfg.timeLimit < I.solveTime)) := by
  unfold Loop.checkTermination Loop.verdict Loop.poorProgress ctl
  generalize Loop.checkConvergence I d cfg.full .Solved .PrimalInfeasible .DualInfeasible = s1
  generalize (decide (I.prevResDual < I.resDual) || decide (I.prevResPrimal < I.resPrimal)) = r
  generalize (decide (I.ktratio < FloatLike.eps * Loop.lit 100)
          && (decide (I.prevGapAbs < cfg.full.gapAbs) || decide (I.prevGapRel < cfg.full.gapRel))) = p1
  generalize (decide (I.ktratio < 1)
          && ((decide (cfg.full.feas * Loop.lit 100 < I.resDual) && decide (I.prevResDual * Loop.lit 100 < I.resDual))
            || (decide (cfg.full.feas * Loop.lit 100 < I.resPrimal) && decide (I.prevResPrimal * Loop.lit 100 < I.resPrimal)))) = p23
  simp only [decide_eq_true_eq]
end

section
variable [Add α] [Sub α] [Mul α] [Div α] [Neg α] [OfNat α 0] [OfNat α 1] [OfNat α 2]
  [OfNat α 100] [OfNat α 1000] [LT α] [DecidableLT α] [LE α] [DecidableLE α] [BEq α] [FloatLike α]

theorem info_checkTermination_table (i : InfoS α) (dbz dqx : α) (s : Info.Settings α) (iter : Nat) (to : Bool) :
    (Info.checkTermination i dbz dqx s iter to).1.status =
      cti (Info.checkConvergence i dbz dqx s.full .solved .primalInfeasible .dualInfeasible).status
        (decide (iter > 1))
        (decide (i.res_dual > i.prev_res_dual) || decide (i.res_primal > i.prev_res_primal))
        (decide (i.ktratio < FloatLike.eps * 100)
            && (decide (i.prev_gap_abs < s.full.gap_abs) || decide (i.prev_gap_rel < s.full.gap_rel)))
        (decide (i.ktratio < 1) &&
          ((decide (i.res_dual > s.full.feas * 100) && decide (i.res_dual > i.prev_res_dual * 100))
            || (decide (i.res_primal > s.full.feas * 100) && decide (i.res_primal > i.prev_res_primal * 100))))
        (s.max_iter == i.iterations) to := by
  have hj := checkConvergence_frame i dbz dqx s.full .solved .primalInfeasible .dualInfeasible
  unfold Info.checkTermination Info.checkConvergenceFull cti
  generalize Info.checkConvergence i dbz dqx s.full .solved .primalInfeasible .dualInfeasible = j at hj ⊢
  rw [hj]
  generalize j.status = sj
  simp only [apply_ite InfoS.iterations, apply_ite InfoS.status, apply_ite InfoS.ktratio,
    apply_ite InfoS.res_dual, apply_ite InfoS.res_primal, apply_ite InfoS.prev_res_dual,
    apply_ite InfoS.prev_res_primal, ite_self]
  generalize (decide (i.res_dual > i.prev_res_dual) || decide (i.res_primal > i.prev_res_primal)) = r
  generalize (decide (i.ktratio < FloatLike.eps * 100)
            && (decide (i.prev_gap_abs < s.full.gap_abs) || decide (i.prev_gap_rel < s.full.gap_rel))) = p1
  generalize ((decide (i.res_dual > s.full.feas * 100) && decide (i.res_dual > i.prev_res_dual * 100))
            || (decide (i.res_primal > s.full.feas * 100) && decide (i.res_primal > i.prev_res_primal * 100))) = p3
  generalize decide (i.ktratio < 1) = p2
  generalize decide (iter > 1) = g
  generalize (s.max_iter == i.iterations) = mx
  cases sj <;> cases g <;> cases r <;> cases p1 <;> cases p2 <;> cases p3 <;> cases mx <;> cases to <;> rfl
end

section
variable [Add α] [Sub α] [Mul α] [Div α] [Neg α] [OfNat α 0] [OfNat α 1] [OfNat α 2]
  [OfNat α 100] [OfNat α 1000] [LT α] [DecidableLT α] [LE α] [DecidableLE α] [BEq α] [FloatLike α]

/-- `check_termination` only ever changes `status`, and `isdone` is `status != Unsolved` -/
theorem checkTermination_frame (i : InfoS α) (dbz dqx : α) (s : Info.Settings α) (iter : Nat) (to : Bool) :
    (Info.checkTermination i dbz dqx s iter to).1 =
        { i with status := (Info.checkTermination i dbz dqx s iter to).1.status }
      ∧ (Info.checkTermination i dbz dqx s iter to).2 =
        ((Info.checkTermination i dbz dqx s iter to).1.status != .unsolved) := by
  refine ⟨?_, rfl⟩
  have hj := checkConvergence_frame i dbz dqx s.full .solved .primalInfeasible .dualInfeasible
  unfold Info.checkTermination Info.checkConvergenceFull
  generalize Info.checkConvergence i dbz dqx s.full .solved .primalInfeasible .dualInfeasible = j at hj ⊢
  rw [hj]
  generalize j.status = sj
  dsimp only
  repeat' split
  all_goals rfl

theorem bind_ok_inv {β γ : Type} {x : MErr β} {f : β → MErr γ} {c : γ}
    (h : (x >>= f) = .ok c) : ∃ a, x = .ok a ∧ f a = .ok c := by
  cases x with
  | error e => cases h
  | ok a => exact ⟨a, rfl, h⟩

theorem status_bne (a b : SolverStatus) : (a != b) = true ↔ a ≠ b := by
  cases a <;> cases b <;> decide
theorem status_beq (a b : SolverStatus) : (a == b) = true ↔ a = b := by
  cases a <;> cases b <;> decide

/-- the record a pass appends before the KKT stage -/
def rec0Of (L : LoopSt α) (residuals : Residuals.Resid α) (mu : α) (info1 : InfoS α)
    (ct : InfoS α × Bool) : PassRec α :=
  { vars := L.S.variables, mu, sigma := L.sigma, stepLength := L.alpha, info := info1,
    dotBz := residuals.dot_bz, dotQx := residuals.dot_qx, isdone := ct.2, status := ct.1.status }

/-- the solver object after the top of a pass -/
def topS (L : LoopSt α) (residuals : Residuals.Resid α) (mu : α) (ct : InfoS α × Bool) : SolverSt α :=
  { L.S with residuals, info := ct.1, infoMu := mu, infoSigma := L.sigma, infoStepLength := L.alpha }

/-- the record after the KKT stage -/
def rec3Of (r : PassRec α) (k : KktOut α) : PassRec α :=
  { r with scalingSuccess := some true, kktSuccess := some k.ok, alphaAff := k.aff.map (·.1), sigmaNew := k.aff.map (·.2) }

/-- `σ` after the KKT stage -/
def sigmaOf (k : KktOut α) (L : LoopSt α) : α :=
  match k.aff with
  | some p => p.2
  | none => L.sigma

/-- the six ways through one pass -/
inductive PassCase (st : Settings α) (L : LoopSt α) : Bool → LoopSt α → Prop
  | done (residuals mu info1)
      (htop : topNumerics L.S L.iter = .ok (residuals, mu, info1))
      (hdone : (Info.checkTermination info1 residuals.dot_bz residuals.dot_qx st.info L.iter false).2 = true)
      (hip : (Info.checkTermination info1 residuals.dot_bz residuals.dot_qx st.info L.iter false).1.status
        ≠ .insufficientProgress) :
      PassCase st L false
        (let ct := Info.checkTermination info1 residuals.dot_bz residuals.dot_qx st.info L.iter false
         { L with S := topS L residuals mu ct, mu, traj := L.traj ++ [rec0Of L residuals mu info1 ct] })
  | rollback (residuals mu info1 variables)
      (htop : topNumerics L.S L.iter = .ok (residuals, mu, info1))
      (hdone : (Info.checkTermination info1 residuals.dot_bz residuals.dot_qx st.info L.iter false).2 = true)
      (hip : (Info.checkTermination info1 residuals.dot_bz residuals.dot_qx st.info L.iter false).1.status
        = .insufficientProgress)
      (hcopy : varsCopyFrom L.S.variables L.S.prevVars = .ok variables) :
      PassCase st L false
        (let ct := Info.checkTermination info1 residuals.dot_bz residuals.dot_qx st.info L.iter false
         { L with S := { (topS L residuals mu ct) with info := Info.resetToPrev ct.1, variables := variables }, mu,
                  traj := L.traj ++ [rec0Of L residuals mu info1 ct] })
  | scaleFail (residuals mu info1 sc)
      (htop : topNumerics L.S L.iter = .ok (residuals, mu, info1))
      (hdone : (Info.checkTermination info1 residuals.dot_bz residuals.dot_qx st.info L.iter false).2 = false)
      (hsc : scaleCones L.S.variables L.S.cones = .ok sc) (hok : sc.1 = false) :
      PassCase st L false
        (let ct := Info.checkTermination info1 residuals.dot_bz residuals.dot_qx st.info L.iter false
         { L with S := { (topS L residuals mu ct) with cones := sc.snd, info := { ct.1 with status := .numericalError } }, mu,
                  traj := L.traj ++ [{ rec0Of L residuals mu info1 ct with scalingSuccess := some false }] })
  | kktFail (residuals mu info1 sc k)
      (htop : topNumerics L.S L.iter = .ok (residuals, mu, info1))
      (hdone : (Info.checkTermination info1 residuals.dot_bz residuals.dot_qx st.info L.iter false).2 = false)
      (hsc : scaleCones L.S.variables L.S.cones = .ok sc) (hok : sc.1 = true)
      (hk : kktNumerics st { (topS L residuals mu
          (Info.checkTermination info1 residuals.dot_bz residuals.dot_qx st.info L.iter false)) with cones := sc.2 }
          sc.2 mu (L.iter + 1) = .ok k)
      (hkok : k.ok = false) :
      PassCase st L false
        (let ct := Info.checkTermination info1 residuals.dot_bz residuals.dot_qx st.info L.iter false
         { S := { k.S with info := { k.S.info with status := .numericalError } }, iter := L.iter + 1,
           sigma := sigmaOf k L, alpha := 0, mu,
           traj := L.traj ++ [rec3Of (rec0Of L residuals mu info1 ct) k] })
  | smallStep (residuals mu info1 sc k a)
      (htop : topNumerics L.S L.iter = .ok (residuals, mu, info1))
      (hdone : (Info.checkTermination info1 residuals.dot_bz residuals.dot_qx st.info L.iter false).2 = false)
      (hsc : scaleCones L.S.variables L.S.cones = .ok sc) (hok : sc.1 = true)
      (hk : kktNumerics st { (topS L residuals mu
          (Info.checkTermination info1 residuals.dot_bz residuals.dot_qx st.info L.iter false)) with cones := sc.2 }
          sc.2 mu (L.iter + 1) = .ok k)
      (hkok : k.ok = true)
      (ha : calcStepLength k.S.variables k.S.stepLhs sc.2 st.maxValue st.maxStepFraction .combined = .ok a)
      (hsmall : a ≤ fmax 0 st.minTerminateStepLength) :
      PassCase st L false
        (let ct := Info.checkTermination info1 residuals.dot_bz residuals.dot_qx st.info L.iter false
         { S := { k.S with info := { k.S.info with status := .insufficientProgress } }, iter := L.iter + 1,
           sigma := sigmaOf k L, alpha := 0, mu,
           traj := L.traj ++ [{ rec3Of (rec0Of L residuals mu info1 ct) k with alpha := some a }] })
  | step (residuals mu info1 sc k a pv)
      (htop : topNumerics L.S L.iter = .ok (residuals, mu, info1))
      (hdone : (Info.checkTermination info1 residuals.dot_bz residuals.dot_qx st.info L.iter false).2 = false)
      (hsc : scaleCones L.S.variables L.S.cones = .ok sc) (hok : sc.1 = true)
      (hk : kktNumerics st { (topS L residuals mu
          (Info.checkTermination info1 residuals.dot_bz residuals.dot_qx st.info L.iter false)) with cones := sc.2 }
          sc.2 mu (L.iter + 1) = .ok k)
      (hkok : k.ok = true)
      (ha : calcStepLength k.S.variables k.S.stepLhs sc.2 st.maxValue st.maxStepFraction .combined = .ok a)
      (hsmall : ¬ a ≤ fmax 0 st.minTerminateStepLength)
      (hpv : stepVars k.S a = .ok pv) :
      PassCase st L true
        (let ct := Info.checkTermination info1 residuals.dot_bz residuals.dot_qx st.info L.iter false
         { S := { k.S with info := Info.savePrev k.S.info, prevVars := pv.1, variables := pv.2 },
           iter := L.iter + 1,
           sigma := sigmaOf k L, alpha := a, mu,
           traj := L.traj ++ [{ rec3Of (rec0Of L residuals mu info1 ct) k with alpha := some a }] })

theorem pass_inv {st : Settings α} {L L' : LoopSt α} {c : Bool} (hp : pass st L = .ok (c, L')) :
    PassCase st L c L' := by
  unfold pass at hp
  obtain ⟨⟨residuals, mu, info1⟩, htop, hp⟩ := bind_ok_inv hp
  try dsimp only at hp
  split at hp
  · rename_i hdone
    split at hp
    · rename_i hip
      cases hp
      exact .done residuals mu info1 htop hdone ((status_bne _ _).mp hip)
    · rename_i hip
      obtain ⟨variables, hcopy, hp⟩ := bind_ok_inv hp
      cases hp
      exact .rollback residuals mu info1 variables htop hdone (Decidable.byContradiction fun h => hip ((status_bne _ _).mpr h)) hcopy
  · rename_i hdone
    have hdone' : (Info.checkTermination info1 residuals.dot_bz residuals.dot_qx st.info L.iter false).2 = false := by
      simpa using hdone
    obtain ⟨sc, hsc, hp⟩ := bind_ok_inv hp
    try dsimp only at hp
    split at hp
    · rename_i hok
      cases hp
      exact .scaleFail residuals mu info1 sc htop hdone' hsc (by simpa using hok)
    · rename_i hok
      have hok' : sc.1 = true := by simpa using hok
      obtain ⟨k, hk, hp⟩ := bind_ok_inv hp
      try dsimp only at hp
      split at hp
      · rename_i hkok
        cases hp
        exact .kktFail residuals mu info1 sc k htop hdone' hsc hok' hk (by simpa using hkok)
      · rename_i hkok
        have hkok' : k.ok = true := by simpa using hkok
        obtain ⟨a, ha, hp⟩ := bind_ok_inv hp
        try dsimp only at hp
        split at hp
        · rename_i hsmall
          cases hp
          exact .smallStep residuals mu info1 sc k a htop hdone' hsc hok' hk hkok' ha hsmall
        · rename_i hsmall
          obtain ⟨pv, hpv, hp⟩ := bind_ok_inv hp
          cases hp
          exact .step residuals mu info1 sc k a pv htop hdone' hsc hok' hk hkok' ha hsmall hpv

/-- the two models of `check_termination` agree (no time limit on the model side: the
skeleton's clock never exceeds its limit) -/
theorem checkTermination_abs (t0 m sg sl : α) (i : InfoS α) (dbz dqx : α) (s : Info.Settings α)
    (iter : Nat) (cfg : Loop.Config α)
    (h100 : (100 : α) = FloatLike.ofNat 100) (h1000 : (1000 : α) = FloatLike.ofNat 1000)
    (hfull : cfg.full = absTols s.full) (hmax : cfg.maxIter = s.max_iter)
    (htl : ¬ cfg.timeLimit < t0) :
    absStatus (Info.checkTermination i dbz dqx s iter false).1.status =
      Loop.checkTermination (absInfo t0 m sg sl i) ⟨dbz, dqx⟩ cfg iter := by
  rw [info_checkTermination_table, loop_checkTermination_table, cti_abs,
    checkConvergence_abs t0 m sg sl i dbz dqx s.full .solved .primalInfeasible .dualInfeasible h1000,
    hfull, hmax]
  have e100 : (Loop.lit 100 : α) = 100 := h100.symm
  rw [e100]
  have et : decide (cfg.timeLimit < (absInfo t0 m sg sl i).solveTime) = false := by
    show decide (cfg.timeLimit < t0) = false
    simpa using htl
  rw [et]
  have em : decide (s.max_iter = (absInfo t0 m sg sl i).iterations) = (s.max_iter == i.iterations) := by
    show decide (s.max_iter = i.iterations) = _
    by_cases h : s.max_iter = i.iterations <;> simp [h]
  rw [em]
  rfl

/-- `DefaultInfo::update` leaves `prev_*`, `iterations`, `status` alone -/
theorem update_frame {i i' : InfoS α} {eq : Info.Equil α} {nq nb : α} {v : Residuals.Vars α}
    {r : Residuals.Resid α} (h : Info.update i eq nq nb v r = .ok i') :
    i'.prev_cost_primal = i.prev_cost_primal ∧ i'.prev_cost_dual = i.prev_cost_dual
      ∧ i'.prev_res_primal = i.prev_res_primal ∧ i'.prev_res_dual = i.prev_res_dual
      ∧ i'.prev_gap_abs = i.prev_gap_abs ∧ i'.prev_gap_rel = i.prev_gap_rel
      ∧ i'.iterations = i.iterations ∧ i'.status = i.status := by
  unfold Info.update at h
  dsimp only at h
  obtain ⟨_, _, h⟩ := bind_ok_inv h
  obtain ⟨_, _, h⟩ := bind_ok_inv h
  obtain ⟨_, _, h⟩ := bind_ok_inv h
  obtain ⟨_, _, h⟩ := bind_ok_inv h
  obtain ⟨_, _, h⟩ := bind_ok_inv h
  obtain ⟨_, _, h⟩ := bind_ok_inv h
  obtain ⟨_, _, h⟩ := bind_ok_inv h
  obtain ⟨_, _, h⟩ := bind_ok_inv h
  cases h
  exact ⟨rfl, rfl, rfl, rfl, rfl, rfl, rfl, rfl⟩

theorem topNumerics_frame {S : SolverSt α} {iter : Nat} {r : Residuals.Resid α} {mu : α} {i' : InfoS α}
    (h : topNumerics S iter = .ok (r, mu, i')) :
    i'.prev_cost_primal = S.info.prev_cost_primal ∧ i'.prev_cost_dual = S.info.prev_cost_dual
      ∧ i'.prev_res_primal = S.info.prev_res_primal ∧ i'.prev_res_dual = S.info.prev_res_dual
      ∧ i'.prev_gap_abs = S.info.prev_gap_abs ∧ i'.prev_gap_rel = S.info.prev_gap_rel
      ∧ i'.iterations = iter ∧ i'.status = S.info.status := by
  unfold topNumerics at h
  dsimp only at h
  obtain ⟨_, _, h⟩ := bind_ok_inv h
  obtain ⟨_, _, h⟩ := bind_ok_inv h
  obtain ⟨_, _, h⟩ := bind_ok_inv h
  obtain ⟨_, hu, h⟩ := bind_ok_inv h
  cases h
  exact update_frame hu

/-- the KKT stage only writes the KKT system and the two step vectors; a successful stage
has gone through the affine step -/
theorem kktNumerics_frame {st : Settings α} {S : SolverSt α} {cones : List (ConeSt α)} {mu : α}
    {iter : Nat} {k : KktOut α} (h : kktNumerics st S cones mu iter = .ok k) :
    k.S = { S with kktsystem := k.S.kktsystem, stepRhs := k.S.stepRhs, stepLhs := k.S.stepLhs }
      ∧ (k.ok = true → k.aff.isSome = true) := by
  unfold kktNumerics at h
  dsimp only at h
  repeat (first | (obtain ⟨_, _, h⟩ := bind_ok_inv h) | (split at h) | (dsimp only at h))
  all_goals (cases h; exact ⟨rfl, fun h => by first | rfl | cases h⟩)

/-- the oracle answers of one pass, read off its trajectory record -/
def oracleOf (t0 : α) (r : PassRec α) : Loop.PassOracle α :=
  { dotBz := r.dotBz, dotQx := r.dotQx, mu := r.mu,
    costPrimal := r.info.cost_primal, costDual := r.info.cost_dual, resPrimal := r.info.res_primal,
    resDual := r.info.res_dual, resPrimalInf := r.info.res_primal_inf,
    resDualInf := r.info.res_dual_inf, gapAbs := r.info.gap_abs, gapRel := r.info.gap_rel,
    ktratio := r.info.ktratio, solveTime := t0,
    scaleOk := r.scalingSuccess.getD true, kktAffOk := r.alphaAff.isSome,
    alphaAff := r.alphaAff.getD 0, sigma := r.sigmaNew.getD 0,
    kktCombOk := r.kktSuccess.getD false, alpha := r.alpha.getD 0 }

/-- simulation relation: the control fields of a skeleton state are those of the loop state of
the model (the symbolic iterate, the printed rows and the decision log of the skeleton have no
counterpart in the model and are left free) -/
structure Sim (sc : Loop.Scaling) (t0 : α) (L : LoopSt α) (s : Loop.State α) : Prop where
  iter : s.iter = L.iter
  scaling : s.scaling = sc
  alpha : s.alpha = L.alpha
  sigma : s.sigma = L.sigma
  mu : s.mu = L.mu
  info : s.info = absInfo t0 L.S.infoMu L.S.infoSigma L.S.infoStepLength L.S.info
  dots : s.dots = ⟨L.S.residuals.dot_bz, L.S.residuals.dot_qx⟩
  passes : s.passes = L.traj.length

theorem absInfo_status (t0 a b c : α) (i : InfoS α) (st : SolverStatus) :
    absInfo t0 a b c { i with status := st } = { absInfo t0 a b c i with status := absStatus st } := rfl

/-- the top of a pass (`Loop.top`) on the recorded oracle answers -/
theorem top_sim (st : Settings α) (tl t0 : α)
    (h100 : (100 : α) = FloatLike.ofNat 100) (h1000 : (1000 : α) = FloatLike.ofNat 1000)
    (htl : ¬ tl < t0) (sc : Loop.Scaling) {L : LoopSt α} {s : Loop.State α} (hs : Sim sc t0 L s)
    {residuals : Residuals.Resid α} {mu : α} {info1 : InfoS α}
    (htop : topNumerics L.S L.iter = .ok (residuals, mu, info1)) (r : PassRec α)
    (hmu : r.mu = mu) (hinfo : r.info = info1) (hbz : r.dotBz = residuals.dot_bz)
    (hqx : r.dotQx = residuals.dot_qx) :
    Sim sc t0
      { L with S := topS L residuals mu
                 (Info.checkTermination info1 residuals.dot_bz residuals.dot_qx st.info L.iter false),
               mu := mu, traj := L.traj ++ [r] }
      (Loop.top (cfgOf st tl) (oracleOf t0 r) s) := by
  obtain ⟨f1, f2, f3, f4, f5, f6, f7, f8⟩ := topNumerics_frame htop
  have hct := checkTermination_abs t0 mu L.sigma L.alpha info1 residuals.dot_bz residuals.dot_qx
    st.info L.iter (cfgOf st tl) h100 h1000 rfl rfl htl
  have hfr := (checkTermination_frame info1 residuals.dot_bz residuals.dot_qx st.info L.iter false).1
  refine ⟨hs.iter, hs.scaling, hs.alpha, hs.sigma, ?_, ?_, ?_, ?_⟩
  · show r.mu = mu
    exact hmu
  · show (Loop.top (cfgOf st tl) (oracleOf t0 r) s).info = absInfo t0 mu L.sigma L.alpha
      (Info.checkTermination info1 residuals.dot_bz residuals.dot_qx st.info L.iter false).1
    rw [hfr, absInfo_status, hct]
    unfold Loop.top
    simp only [oracleOf, hs.info, hs.alpha, hs.sigma, hs.iter, Loop.Info.saveScalars, absInfo, hmu, hinfo,
      hbz, hqx, f1, f2, f3, f4, f5, f6, f7, f8]
  · show (⟨r.dotBz, r.dotQx⟩ : Loop.Dots α) = _
    rw [hbz, hqx]; rfl
  · show s.passes + 1 = (L.traj ++ [r]).length
    rw [hs.passes]; simp

theorem sim_iff (sc : Loop.Scaling) (t0 : α) (L : LoopSt α) (s : Loop.State α) :
    Sim sc t0 L s ↔ Loop.ctrl s = (L.iter, sc, L.alpha, L.sigma, L.mu,
      absInfo t0 L.S.infoMu L.S.infoSigma L.S.infoStepLength L.S.info,
      (⟨L.S.residuals.dot_bz, L.S.residuals.dot_qx⟩ : Loop.Dots α), L.traj.length) := by
  constructor
  · intro h
    simp only [Loop.ctrl, h.iter, h.scaling, h.alpha, h.sigma, h.mu, h.info, h.dots, h.passes]
  · intro h
    simp only [Loop.ctrl, Prod.mk.injEq] at h
    obtain ⟨h1, h2, h3, h4, h5, h6, h7, h8⟩ := h
    exact ⟨h1, h2, h3, h4, h5, h6, h7, h8⟩

/-- one pass of the model is one pass of the skeleton on the recorded oracle answers -/
theorem pass_sim (st : Settings α) (tl t0 : α)
    (h100 : (100 : α) = FloatLike.ofNat 100) (h1000 : (1000 : α) = FloatLike.ofNat 1000)
    (htl : ¬ tl < t0) (sc : Loop.Scaling) {L L' : LoopSt α} {c : Bool} {s : Loop.State α}
    (hs : Sim sc t0 L s) (hp : pass st L = .ok (c, L')) :
    ∃ r s', L'.traj = L.traj ++ [r]
      ∧ Loop.pass (cfgOf st tl) (oracleOf t0 r) s = (if c then Loop.PassResult.cont s' else .brk s')
      ∧ Sim sc t0 L' s' := by
  have hsym : (cfgOf st tl).symmetric = true := rfl
  have hpass : ∀ o, Loop.pass (cfgOf st tl) o s =
      if (Loop.top (cfgOf st tl) o s).info.status ≠ .Unsolved then Loop.passDone (cfgOf st tl) (Loop.top (cfgOf st tl) o s)
      else Loop.passStep (cfgOf st tl) o (Loop.top (cfgOf st tl) o s) := fun o => rfl
  cases pass_inv hp with
  | done residuals mu info1 htop hdone hip =>
    have hs1 := top_sim st tl t0 h100 h1000 htl sc hs htop
      (rec0Of L residuals mu info1 (Info.checkTermination info1 residuals.dot_bz residuals.dot_qx st.info L.iter false))
      rfl rfl rfl rfl
    have hfr := (checkTermination_frame info1 residuals.dot_bz residuals.dot_qx st.info L.iter false).2
    rw [hfr, status_bne] at hdone
    have hst := congrArg Loop.Info.status hs1.info
    have hne : (Loop.top (cfgOf st tl) (oracleOf t0 (rec0Of L residuals mu info1
        (Info.checkTermination info1 residuals.dot_bz residuals.dot_qx st.info L.iter false))) s).info.status
        ≠ .Unsolved := by
      rw [hst]; exact fun h => hdone ((absStatus_unsolved _).mp h)
    have hnip : (Loop.top (cfgOf st tl) (oracleOf t0 (rec0Of L residuals mu info1
        (Info.checkTermination info1 residuals.dot_bz residuals.dot_qx st.info L.iter false))) s).info.status
        ≠ .InsufficientProgress := by
      rw [hst]; exact fun h => hip ((absStatus_insuff _).mp h)
    obtain ⟨s', hbrk, hctrl⟩ := Loop.passDone_sym_noip (cfg := cfgOf st tl) hnip
    refine ⟨_, s', rfl, ?_, ?_⟩
    · rw [hpass, if_pos hne, hbrk]; rfl
    · rw [sim_iff, hctrl]; exact (sim_iff _ _ _ _).mp hs1
  | rollback residuals mu info1 variables htop hdone hip hcopy =>
    have hs1 := top_sim st tl t0 h100 h1000 htl sc hs htop
      (rec0Of L residuals mu info1 (Info.checkTermination info1 residuals.dot_bz residuals.dot_qx st.info L.iter false))
      rfl rfl rfl rfl
    have hst := congrArg Loop.Info.status hs1.info
    have hisip : (Loop.top (cfgOf st tl) (oracleOf t0 (rec0Of L residuals mu info1
        (Info.checkTermination info1 residuals.dot_bz residuals.dot_qx st.info L.iter false))) s).info.status
        = .InsufficientProgress := by
      rw [hst]; exact (absStatus_insuff _).mpr hip
    have hne : (Loop.top (cfgOf st tl) (oracleOf t0 (rec0Of L residuals mu info1
        (Info.checkTermination info1 residuals.dot_bz residuals.dot_qx st.info L.iter false))) s).info.status
        ≠ .Unsolved := by
      rw [hisip]; decide
    obtain ⟨s', hbrk, hctrl⟩ := Loop.passDone_sym_ip (cfg := cfgOf st tl) hsym hisip
    refine ⟨_, s', rfl, ?_, ?_⟩
    · rw [hpass, if_pos hne, hbrk]; rfl
    · rw [sim_iff, hctrl, hs1.iter, hs1.scaling, hs1.alpha, hs1.sigma, hs1.mu, hs1.info, hs1.dots, hs1.passes]
      rfl
  | scaleFail residuals mu info1 scl htop hdone hsc hok =>
    have hs1 := top_sim st tl t0 h100 h1000 htl sc hs htop
      { rec0Of L residuals mu info1 (Info.checkTermination info1 residuals.dot_bz residuals.dot_qx st.info L.iter false)
          with scalingSuccess := some false }
      rfl rfl rfl rfl
    have hfr := (checkTermination_frame info1 residuals.dot_bz residuals.dot_qx st.info L.iter false).2
    have hun : (Info.checkTermination info1 residuals.dot_bz residuals.dot_qx st.info L.iter false).1.status
        = .unsolved := by
      rw [hfr] at hdone
      exact Decidable.byContradiction fun h => by rw [(status_bne _ _).mpr h] at hdone; cases hdone
    have hst := congrArg Loop.Info.status hs1.info
    have heq : ¬ (Loop.top (cfgOf st tl) (oracleOf t0 { rec0Of L residuals mu info1
        (Info.checkTermination info1 residuals.dot_bz residuals.dot_qx st.info L.iter false)
          with scalingSuccess := some false }) s).info.status ≠ .Unsolved := by
      rw [hst]; exact fun h => h ((absStatus_unsolved _).mpr hun)
    obtain ⟨s', hbrk, hctrl⟩ := Loop.passStep_scaleFail (cfg := cfgOf st tl)
      (o := oracleOf t0 { rec0Of L residuals mu info1
        (Info.checkTermination info1 residuals.dot_bz residuals.dot_qx st.info L.iter false)
          with scalingSuccess := some false })
      (s1 := Loop.top (cfgOf st tl) (oracleOf t0 { rec0Of L residuals mu info1
        (Info.checkTermination info1 residuals.dot_bz residuals.dot_qx st.info L.iter false)
          with scalingSuccess := some false }) s) rfl
    refine ⟨_, s', rfl, ?_, ?_⟩
    · rw [hpass, if_neg heq, hbrk]; rfl
    · rw [sim_iff, hctrl, hs1.iter, hs1.scaling, hs1.alpha, hs1.sigma, hs1.mu, hs1.info, hs1.dots, hs1.passes]
      rfl
  | kktFail residuals mu info1 scl k htop hdone hsc hok hk hkok =>
    have hs1 := top_sim st tl t0 h100 h1000 htl sc hs htop (rec3Of (rec0Of L residuals mu info1 (Info.checkTermination info1 residuals.dot_bz residuals.dot_qx st.info L.iter false)) k) rfl rfl rfl rfl
    have hfr := (checkTermination_frame info1 residuals.dot_bz residuals.dot_qx st.info L.iter false).2
    have hun : (Info.checkTermination info1 residuals.dot_bz residuals.dot_qx st.info L.iter false).1.status
        = .unsolved := by
      rw [hfr] at hdone
      exact Decidable.byContradiction fun h => by rw [(status_bne _ _).mpr h] at hdone; cases hdone
    have hst := congrArg Loop.Info.status hs1.info
    have heq : ¬ (Loop.top (cfgOf st tl) (oracleOf t0 (rec3Of (rec0Of L residuals mu info1 (Info.checkTermination info1 residuals.dot_bz residuals.dot_qx st.info L.iter false)) k)) s).info.status ≠ .Unsolved := by
      rw [hst]; exact fun h => h ((absStatus_unsolved _).mpr hun)
    obtain ⟨hkS, haff⟩ := kktNumerics_frame hk
    have e1 : k.S.info = (Info.checkTermination info1 residuals.dot_bz residuals.dot_qx st.info L.iter false).1 := by
      rw [hkS]; rfl
    have e2 : k.S.infoMu = mu := by rw [hkS]; rfl
    have e3 : k.S.infoSigma = L.sigma := by rw [hkS]; rfl
    have e4 : k.S.infoStepLength = L.alpha := by rw [hkS]; rfl
    have e5 : k.S.residuals = residuals := by rw [hkS]; rfl
    have hsig : (if (oracleOf t0 (rec3Of (rec0Of L residuals mu info1 (Info.checkTermination info1 residuals.dot_bz residuals.dot_qx st.info L.iter false)) k)).kktAffOk then (oracleOf t0 (rec3Of (rec0Of L residuals mu info1 (Info.checkTermination info1 residuals.dot_bz residuals.dot_qx st.info L.iter false)) k)).sigma else L.sigma) = sigmaOf k L := by
      show (if (k.aff.map (·.1)).isSome = true then (k.aff.map (·.2)).getD 0 else L.sigma) = _
      unfold sigmaOf
      cases k.aff <;> rfl
    obtain ⟨s', hbrk, hctrl⟩ := Loop.passStep_kktFail (cfg := cfgOf st tl) (o := oracleOf t0 (rec3Of (rec0Of L residuals mu info1 (Info.checkTermination info1 residuals.dot_bz residuals.dot_qx st.info L.iter false)) k))
      (s1 := Loop.top (cfgOf st tl) (oracleOf t0 (rec3Of (rec0Of L residuals mu info1 (Info.checkTermination info1 residuals.dot_bz residuals.dot_qx st.info L.iter false)) k)) s) hsym rfl
      (by show ((k.aff.map (·.1)).isSome && k.ok) = false
          rw [hkok]; simp)
    refine ⟨_, s', rfl, ?_, ?_⟩
    · rw [hpass, if_neg heq, hbrk]; rfl
    · rw [sim_iff, hctrl, hs1.iter, hs1.scaling, hs1.sigma, hs1.mu, hs1.info, hs1.dots, hs1.passes]
      dsimp only
      rw [hsig, e1, e2, e3, e4, e5]
      rfl
  | smallStep residuals mu info1 scl k a htop hdone hsc hok hk hkok ha hsmall =>
    have hs1 := top_sim st tl t0 h100 h1000 htl sc hs htop { rec3Of (rec0Of L residuals mu info1 (Info.checkTermination info1 residuals.dot_bz residuals.dot_qx st.info L.iter false)) k with alpha := some a } rfl rfl rfl rfl
    have hfr := (checkTermination_frame info1 residuals.dot_bz residuals.dot_qx st.info L.iter false).2
    have hun : (Info.checkTermination info1 residuals.dot_bz residuals.dot_qx st.info L.iter false).1.status
        = .unsolved := by
      rw [hfr] at hdone
      exact Decidable.byContradiction fun h => by rw [(status_bne _ _).mpr h] at hdone; cases hdone
    have hst := congrArg Loop.Info.status hs1.info
    have heq : ¬ (Loop.top (cfgOf st tl) (oracleOf t0 { rec3Of (rec0Of L residuals mu info1 (Info.checkTermination info1 residuals.dot_bz residuals.dot_qx st.info L.iter false)) k with alpha := some a }) s).info.status ≠ .Unsolved := by
      rw [hst]; exact fun h => h ((absStatus_unsolved _).mpr hun)
    obtain ⟨hkS, haff⟩ := kktNumerics_frame hk
    have e1 : k.S.info = (Info.checkTermination info1 residuals.dot_bz residuals.dot_qx st.info L.iter false).1 := by
      rw [hkS]; rfl
    have e2 : k.S.infoMu = mu := by rw [hkS]; rfl
    have e3 : k.S.infoSigma = L.sigma := by rw [hkS]; rfl
    have e4 : k.S.infoStepLength = L.alpha := by rw [hkS]; rfl
    have e5 : k.S.residuals = residuals := by rw [hkS]; rfl
    have hsig : (if (oracleOf t0 { rec3Of (rec0Of L residuals mu info1 (Info.checkTermination info1 residuals.dot_bz residuals.dot_qx st.info L.iter false)) k with alpha := some a }).kktAffOk then (oracleOf t0 { rec3Of (rec0Of L residuals mu info1 (Info.checkTermination info1 residuals.dot_bz residuals.dot_qx st.info L.iter false)) k with alpha := some a }).sigma else L.sigma) = sigmaOf k L := by
      show (if (k.aff.map (·.1)).isSome = true then (k.aff.map (·.2)).getD 0 else L.sigma) = _
      unfold sigmaOf
      cases k.aff <;> rfl
    obtain ⟨s', hbrk, hctrl⟩ := Loop.passStep_smallStep (cfg := cfgOf st tl) (o := oracleOf t0 { rec3Of (rec0Of L residuals mu info1 (Info.checkTermination info1 residuals.dot_bz residuals.dot_qx st.info L.iter false)) k with alpha := some a })
      (s1 := Loop.top (cfgOf st tl) (oracleOf t0 { rec3Of (rec0Of L residuals mu info1 (Info.checkTermination info1 residuals.dot_bz residuals.dot_qx st.info L.iter false)) k with alpha := some a }) s) hsym rfl
      (by show ((k.aff.map (·.1)).isSome && k.ok) = true
          rw [hkok, Option.isSome_map, haff hkok]; rfl)
      hsmall
    refine ⟨_, s', rfl, ?_, ?_⟩
    · rw [hpass, if_neg heq, hbrk]; rfl
    · rw [sim_iff, hctrl, hs1.iter, hs1.scaling, hs1.sigma, hs1.mu, hs1.info, hs1.dots, hs1.passes]
      dsimp only
      rw [hsig, e1, e2, e3, e4, e5]
      rfl
  | step residuals mu info1 scl k a pv htop hdone hsc hok hk hkok ha hsmall hpv =>
    have hs1 := top_sim st tl t0 h100 h1000 htl sc hs htop { rec3Of (rec0Of L residuals mu info1 (Info.checkTermination info1 residuals.dot_bz residuals.dot_qx st.info L.iter false)) k with alpha := some a } rfl rfl rfl rfl
    have hfr := (checkTermination_frame info1 residuals.dot_bz residuals.dot_qx st.info L.iter false).2
    have hun : (Info.checkTermination info1 residuals.dot_bz residuals.dot_qx st.info L.iter false).1.status
        = .unsolved := by
      rw [hfr] at hdone
      exact Decidable.byContradiction fun h => by rw [(status_bne _ _).mpr h] at hdone; cases hdone
    have hst := congrArg Loop.Info.status hs1.info
    have heq : ¬ (Loop.top (cfgOf st tl) (oracleOf t0 { rec3Of (rec0Of L residuals mu info1 (Info.checkTermination info1 residuals.dot_bz residuals.dot_qx st.info L.iter false)) k with alpha := some a }) s).info.status ≠ .Unsolved := by
      rw [hst]; exact fun h => h ((absStatus_unsolved _).mpr hun)
    obtain ⟨hkS, haff⟩ := kktNumerics_frame hk
    have e1 : k.S.info = (Info.checkTermination info1 residuals.dot_bz residuals.dot_qx st.info L.iter false).1 := by
      rw [hkS]; rfl
    have e2 : k.S.infoMu = mu := by rw [hkS]; rfl
    have e3 : k.S.infoSigma = L.sigma := by rw [hkS]; rfl
    have e4 : k.S.infoStepLength = L.alpha := by rw [hkS]; rfl
    have e5 : k.S.residuals = residuals := by rw [hkS]; rfl
    have hsig : (if (oracleOf t0 { rec3Of (rec0Of L residuals mu info1 (Info.checkTermination info1 residuals.dot_bz residuals.dot_qx st.info L.iter false)) k with alpha := some a }).kktAffOk then (oracleOf t0 { rec3Of (rec0Of L residuals mu info1 (Info.checkTermination info1 residuals.dot_bz residuals.dot_qx st.info L.iter false)) k with alpha := some a }).sigma else L.sigma) = sigmaOf k L := by
      show (if (k.aff.map (·.1)).isSome = true then (k.aff.map (·.2)).getD 0 else L.sigma) = _
      unfold sigmaOf
      cases k.aff <;> rfl
    obtain ⟨s', hbrk, hctrl⟩ := Loop.passStep_step (cfg := cfgOf st tl) (o := oracleOf t0 { rec3Of (rec0Of L residuals mu info1 (Info.checkTermination info1 residuals.dot_bz residuals.dot_qx st.info L.iter false)) k with alpha := some a })
      (s1 := Loop.top (cfgOf st tl) (oracleOf t0 { rec3Of (rec0Of L residuals mu info1 (Info.checkTermination info1 residuals.dot_bz residuals.dot_qx st.info L.iter false)) k with alpha := some a }) s) hsym rfl
      (by show ((k.aff.map (·.1)).isSome && k.ok) = true
          rw [hkok, Option.isSome_map, haff hkok]; rfl)
      hsmall
    refine ⟨_, s', rfl, ?_, ?_⟩
    · rw [hpass, if_neg heq, hbrk]; rfl
    · rw [sim_iff, hctrl, hs1.iter, hs1.scaling, hs1.sigma, hs1.mu, hs1.info, hs1.dots, hs1.passes]
      dsimp only
      rw [hsig, e1, e2, e3, e4, e5]
      rfl

end

end Clarabel.Solver
