/-
  Forward walk through the cone loop of `_kkt_assemble_fill`: it never panics, runs
  `conesSchedule` on the matrix, and leaves in `Hsblocks` and in the sparse expansion maps the
  destinations of the writes they are supposed to index.

  * `SparseSlots`, `HsSlots`: "every slot points at the coordinate it is supposed to", phrased
    with `KktSlots.SlotAt`;
  * `fillSparsecone_run`, `fillHs_run`: one expansion / one Hs block;
  * `coneStep_run` (`StepOut`): one iteration of the loop;
  * `conesFold_run` (`FoldOut`): the whole loop, for every decomposition
    `cones = pre ++ c :: post`.
-/
import ClarabelModel.Kkt
import ClarabelProofs.Lemmas.KktSlots

set_option linter.unusedSectionVars false
set_option linter.unusedVariables false

namespace Clarabel.Lemmas.KktFillMaps
open Clarabel Clarabel.Csc Clarabel.Kkt Clarabel.Lemmas.KktPlace Clarabel.Lemmas.KktFillLink
open Clarabel.Lemmas.KktRun Clarabel.Lemmas.KktSlots

variable {α : Type} [OfNat α 0]

-- ------------------------------------------------------------------ slot specifications

/-- `SlotAt` in upper-triangle coordinates `(r, c)`, `r ≤ c` -/
def SlotU (shape : MatrixTriangle) (ptr : Array Nat) (l : List (Entry α)) (o : Option Nat)
    (r c : Nat) (v : α) : Prop :=
  SlotAt ptr l o (tri shape r c).2 (tri shape r c).1 v

/-- every slot of the expansion map `mp` of the cone `c` (first row `row`, first auxiliary
column `pcol`) points at the coordinate it is supposed to: `v`/`q` → column `pcol`,
`u`/`r` → column `pcol+1`, `p` → column `pcol+2` (rows of the cone), `D[j]` → `(pcol+j, pcol+j)` -/
def SparseSlots (shape : MatrixTriangle) (c : ConeSpec) (row pcol : Nat) (ptr : Array Nat)
    (l : List (Entry α)) (mp : SparseMap) : Prop :=
  match c, mp with
  | .soc d, .soc u v D =>
    u.size = d ∧ v.size = d ∧ D.size = 2 ∧
    (∀ k, k < d → SlotU shape ptr l v[k]? (row + k) pcol 0) ∧
    (∀ k, k < d → SlotU shape ptr l u[k]? (row + k) (pcol + 1) 0) ∧
    (∀ k, k < 2 → SlotAt ptr l D[k]? (pcol + k) (pcol + k) 0)
  | .genpow a b, .genpow p q r D =>
    p.size = a + b ∧ q.size = a ∧ r.size = b ∧ D.size = 3 ∧
    (∀ k, k < a → SlotU shape ptr l q[k]? (row + k) pcol 0) ∧
    (∀ k, k < b → SlotU shape ptr l r[k]? (row + a + k) (pcol + 1) 0) ∧
    (∀ k, k < a + b → SlotU shape ptr l p[k]? (row + k) (pcol + 2) 0) ∧
    (∀ k, k < 3 → SlotAt ptr l D[k]? (pcol + k) (pcol + k) 0)
  | _, _ => False

theorem SparseSlots.imp {shape : MatrixTriangle} {c : ConeSpec} {row row' pcol pcol' : Nat}
    {ptr ptr' : Array Nat} {l l' : List (Entry α)} {mp : SparseMap}
    (hrow : row' = row) (hpcol : pcol' = pcol)
    (H : ∀ o col r v, SlotAt ptr l o col r v → SlotAt ptr' l' o col r v)
    (h : SparseSlots shape c row pcol ptr l mp) : SparseSlots shape c row' pcol' ptr' l' mp := by
  subst hrow
  subst hpcol
  cases c <;> cases mp <;> simp only [SparseSlots] at h ⊢
  case soc.soc d u v D =>
    obtain ⟨h1, h2, h3, h4, h5, h6⟩ := h
    exact ⟨h1, h2, h3, fun k hk => H _ _ _ _ (h4 k hk), fun k hk => H _ _ _ _ (h5 k hk),
      fun k hk => H _ _ _ _ (h6 k hk)⟩
  case genpow.genpow a b p q r D =>
    obtain ⟨h1, h2, h3, h4, h5, h6, h7, h8⟩ := h
    exact ⟨h1, h2, h3, h4, fun k hk => H _ _ _ _ (h5 k hk), fun k hk => H _ _ _ _ (h6 k hk),
      fun k hk => H _ _ _ _ (h7 k hk), fun k hk => H _ _ _ _ (h8 k hk)⟩

/-- the index vectors of `mp` have the lengths that the cone prescribes (`D` included) -/
def MapFitsD (c : ConeSpec) (mp : SparseMap) : Prop :=
  match c, mp with
  | .soc n, .soc u v D => u.size = n ∧ v.size = n ∧ D.size = 2
  | .genpow a b, .genpow p q r D => p.size = a + b ∧ q.size = a ∧ r.size = b ∧ D.size = 3
  | _, _ => False

theorem SparseSlots.fits {shape : MatrixTriangle} {c : ConeSpec} {row pcol : Nat}
    {ptr : Array Nat} {l : List (Entry α)} {mp : SparseMap}
    (h : SparseSlots shape c row pcol ptr l mp) : MapFitsD c mp := by
  cases c <;> cases mp <;> simp only [SparseSlots] at h <;> simp only [MapFitsD]
  case soc.soc d u v D => exact ⟨h.1, h.2.1, h.2.2.1⟩
  case genpow.genpow a b p q r D => exact ⟨h.1, h.2.1, h.2.2.1, h.2.2.2.1⟩

omit [OfNat α 0] in
theorem pdim_of_mapFitsD {c : ConeSpec} {mp : SparseMap} (hfit : MapFitsD c mp)
    (hsp : c.isSparseExpandable = true) : mp.pdim = conePdim c := by
  cases c <;> cases mp <;> simp only [MapFitsD] at hfit <;>
    simp [conePdim, SparseMap.pdim, hsp]

/-- the slots of the Hs block of the cone `c` (first row `row`): diagonal blocks entry `k` →
`(row+k, row+k)`; dense blocks the packed upper-triangle entry `(b, a)`, `b ≤ a`, index
`a(a+1)/2 + b` → upper coordinates `(row+b, row+a)` -/
def HsSlots (shape : MatrixTriangle) (c : ConeSpec) (row : Nat) (ptr : Array Nat)
    (l : List (Entry α)) (hs : Nat → Option Nat) : Prop :=
  if c.hsIsDiagonal = true then
    ∀ k, k < c.numel → SlotAt ptr l (hs k) (row + k) (row + k) 0
  else
    ∀ a b, a < c.numel → b ≤ a → SlotU shape ptr l (hs (a * (a + 1) / 2 + b)) (row + b) (row + a) 0

theorem HsSlots.imp {shape : MatrixTriangle} {c : ConeSpec} {row row' : Nat}
    {ptr ptr' : Array Nat} {l l' : List (Entry α)} {hs hs' : Nat → Option Nat}
    (hrow : row' = row)
    (H : ∀ o col r v, SlotAt ptr l o col r v → SlotAt ptr' l' o col r v)
    (hhs : ∀ k, k < c.blockLen → hs' k = hs k)
    (h : HsSlots shape c row ptr l hs) : HsSlots shape c row' ptr' l' hs' := by
  subst hrow
  unfold HsSlots at h ⊢
  unfold ConeSpec.blockLen at hhs
  by_cases hd : c.hsIsDiagonal = true
  · rw [if_pos hd] at h ⊢
    simp only [hd, if_true] at hhs
    intro k hk
    rw [hhs k hk]
    exact H _ _ _ _ (h k hk)
  · rw [if_neg hd] at h ⊢
    simp only [hd, Bool.false_eq_true, if_false] at hhs
    intro a b ha hb
    unfold SlotU
    rw [hhs _ (tri_lt ha hb)]
    exact H _ _ _ _ (h a b ha hb)

-- ------------------------------------------------------------------ `csc_fill_sparsecone`

theorem sparseSchedule_soc (shape : MatrixTriangle) (d row col : Nat) :
    sparseSchedule (α := α) (.soc d) row col shape
      = (vecSchedule shape d row col ++ vecSchedule shape d row (col + 1)) ++ diagSchedule col 2 := by
  cases shape <;> rfl

theorem sparseSchedule_genpow (shape : MatrixTriangle) (a b row col : Nat) :
    sparseSchedule (α := α) (.genpow a b) row col shape
      = ((vecSchedule shape a row col ++ vecSchedule shape b (row + a) (col + 1))
          ++ vecSchedule shape (a + b) row (col + 2)) ++ diagSchedule col 3 := by
  cases shape <;> rfl

theorem fillSparsecone_run {c : ConeSpec} {mp : SparseMap} {K : Csc α} {row col : Nat}
    {shape : MatrixTriangle} (hfit : MapFitsD c mp)
    (hr : Ready K (sparseSchedule (α := α) c row col shape)) :
    ∃ K' mp', fillSparsecone mp (coneDim1 c) K row col shape = .ok (K', mp') ∧
      KSpec K K' (sparseSchedule c row col shape) ∧
      SparseSlots shape c row col K.colptr (sparseSchedule (α := α) c row col shape) mp' := by
  cases c <;> cases mp <;> simp only [MapFitsD] at hfit
  case soc.soc d u v D =>
    obtain ⟨hu, hv, hD⟩ := hfit
    rw [sparseSchedule_soc] at hr ⊢
    obtain ⟨K1, v1, h1, S1, sv, slA⟩ := fillVec_run shape K v d row col hv hr.left.left
    obtain ⟨K2, u1, h2, S2, su, slB⟩ := fillVec_run shape K1 u d row (col + 1) hu (hr.left.right S1)
    have S12 := S1.append S2 hr.left.dis
    obtain ⟨K3, D1, h3, S3, sD, slD, _⟩ := fillDiag_run K2 D col 2 (by omega) (hr.right S12)
    refine ⟨K3, .soc u1 v1 D1, ?_, S12.append S3 hr.dis, ?_⟩
    · unfold fillSparsecone
      cases shape
      · have h1' : fillColvec K v row col = .ok (K1, v1) := h1
        have h2' : fillColvec K1 u row (col + 1) = .ok (K2, u1) := h2
        simp only [bind, Except.bind, h1', h2', h3, pure, Except.pure]
      · have h1' : fillRowvec K v col row = .ok (K1, v1) := h1
        have h2' : fillRowvec K1 u (col + 1) row = .ok (K2, u1) := h2
        simp only [bind, Except.bind, h1', h2', h3, pure, Except.pure]
    · simp only [SparseSlots]
      refine ⟨su, sv, by omega, ?_, ?_, ?_⟩
      · intro k hk; exact ((slA k hk).left _).left _
      · intro k hk; exact (SlotAt.right _ S1.colptr_get (slB k hk)).left _
      · intro k hk; exact SlotAt.right _ S12.colptr_get (slD k hk)
  case genpow.genpow a b p q r D =>
    obtain ⟨hp, hq, hrr, hD⟩ := hfit
    rw [sparseSchedule_genpow] at hr ⊢
    obtain ⟨K1, q1, h1, S1, sq, slA⟩ := fillVec_run shape K q a row col hq hr.left.left.left
    obtain ⟨K2, r1, h2, S2, sr, slB⟩ :=
      fillVec_run shape K1 r b (row + a) (col + 1) hrr (hr.left.left.right S1)
    have S12 := S1.append S2 hr.left.left.dis
    obtain ⟨K3, p1, h3, S3, sp, slC⟩ :=
      fillVec_run shape K2 p (a + b) row (col + 2) hp (hr.left.right S12)
    have S123 := S12.append S3 hr.left.dis
    obtain ⟨K4, D1, h4, S4, sD, slD, _⟩ := fillDiag_run K3 D col 3 (by omega) (hr.right S123)
    refine ⟨K4, .genpow p1 q1 r1 D1, ?_, S123.append S4 hr.dis, ?_⟩
    · unfold fillSparsecone
      simp only [coneDim1]
      cases shape
      · have h1' : fillColvec K q row col = .ok (K1, q1) := h1
        have h2' : fillColvec K1 r (row + a) (col + 1) = .ok (K2, r1) := h2
        have h3' : fillColvec K2 p row (col + 2) = .ok (K3, p1) := h3
        simp only [bind, Except.bind, h1', h2', h3', h4, pure, Except.pure]
      · have h1' : fillRowvec K q col row = .ok (K1, q1) := h1
        have h2' : fillRowvec K1 r (col + 1) (row + a) = .ok (K2, r1) := h2
        have h3' : fillRowvec K2 p (col + 2) row = .ok (K3, p1) := h3
        simp only [bind, Except.bind, h1', h2', h3', h4, pure, Except.pure]
    · simp only [SparseSlots]
      refine ⟨sp, sq, sr, by omega, ?_, ?_, ?_, ?_⟩
      · intro k hk; exact (((slA k hk).left _).left _).left _
      · intro k hk; exact ((SlotAt.right _ S1.colptr_get (slB k hk)).left _).left _
      · intro k hk; exact (SlotAt.right _ S12.colptr_get (slC k hk)).left _
      · intro k hk; exact SlotAt.right _ S123.colptr_get (slD k hk)

-- ------------------------------------------------------------------ `spliceAt`

omit [OfNat α 0] in
theorem splice_aux (l : List Nat) : ∀ (k : Nat) (acc : Array Nat) (start : Nat),
    ((l.zipIdx k).foldl (fun (acc : Array Nat) p => acc.set! (start + p.2) p.1) acc).size = acc.size ∧
    ∀ x, ((l.zipIdx k).foldl (fun (acc : Array Nat) p => acc.set! (start + p.2) p.1) acc)[x]?
      = if start + k ≤ x ∧ x < start + k + l.length ∧ x < acc.size then l[x - (start + k)]?
        else acc[x]? := by
  induction l with
  | nil =>
    intro k acc start
    refine ⟨rfl, fun x => ?_⟩
    simp only [List.zipIdx_nil, List.foldl_nil, List.length_nil, Nat.add_zero]
    rw [if_neg (by omega)]
  | cons a t ih =>
    intro k acc start
    rw [List.zipIdx_cons, List.foldl_cons]
    obtain ⟨hs, hg⟩ := ih (k + 1) (acc.set! (start + k) a) start
    have hsz1 : (acc.set! (start + k) a).size = acc.size := by simp
    refine ⟨by rw [hs, hsz1], fun x => ?_⟩
    rw [hg x, hsz1, Array.set!_eq_setIfInBounds, List.length_cons]
    by_cases hx : x = start + k
    · subst hx
      have c1 : ¬ (start + (k + 1) ≤ start + k ∧ start + k < start + (k + 1) + t.length
          ∧ start + k < acc.size) := by omega
      rw [if_neg c1]
      by_cases hlt : start + k < acc.size
      · rw [Array.getElem?_setIfInBounds_self_of_lt hlt, if_pos (by omega)]
        simp
      · rw [if_neg (by omega), Array.getElem?_eq_none (by simp; omega),
          Array.getElem?_eq_none (by omega)]
    · have hne : start + k ≠ x := fun h => hx h.symm
      rw [Array.getElem?_setIfInBounds_ne hne]
      by_cases hc : start + (k + 1) ≤ x ∧ x < start + (k + 1) + t.length ∧ x < acc.size
      · rw [if_pos hc, if_pos (by omega)]
        have : x - (start + k) = (x - (start + (k + 1))) + 1 := by omega
        rw [this, List.getElem?_cons_succ]
      · rw [if_neg hc, if_neg (by omega)]

omit [OfNat α 0] in
theorem spliceAt_spec (xs : Array Nat) (start : Nat) (block : Array Nat)
    (h : start + block.size ≤ xs.size) :
    (spliceAt xs start block).size = xs.size ∧
    (∀ k, k < block.size → (spliceAt xs start block)[start + k]? = block[k]?) ∧
    (∀ x, (x < start ∨ start + block.size ≤ x) → (spliceAt xs start block)[x]? = xs[x]?) := by
  obtain ⟨hs, hg⟩ := splice_aux block.toList 0 xs start
  unfold spliceAt
  refine ⟨hs, ?_, ?_⟩
  · intro k hk
    rw [hg]
    simp only [Nat.add_zero, Array.length_toList]
    rw [if_pos (by omega), Nat.add_sub_cancel_left, Array.getElem?_toList]
  · intro x hx
    rw [hg]
    simp only [Nat.add_zero, Array.length_toList]
    rw [if_neg (by omega)]

-- ------------------------------------------------------------------ the Hs block of one cone

/-- the schedule of the Hs block of a cone -/
def hsSchedule (shape : MatrixTriangle) (c : ConeSpec) (row : Nat) : List (Entry α) :=
  if c.hsIsDiagonal = true then diagSchedule row c.numel else denseSchedule row c.numel shape

theorem fillHs_run (shape : MatrixTriangle) (c : ConeSpec) (K : Csc α) (blk : Array Nat) (row : Nat)
    (hblk : blk.size = c.blockLen) (hr : Ready K (hsSchedule (α := α) shape c row)) :
    ∃ K' blk', (if c.hsIsDiagonal = true then fillDiag K blk row c.numel
        else fillDenseTriangle K blk row c.numel shape) = .ok (K', blk') ∧
      KSpec K K' (hsSchedule shape c row) ∧ blk'.size = c.blockLen ∧
      HsSlots shape c row K.colptr (hsSchedule (α := α) shape c row) (fun k => blk'[k]?) := by
  unfold hsSchedule at hr ⊢
  unfold HsSlots
  unfold ConeSpec.blockLen at hblk ⊢
  by_cases hd : c.hsIsDiagonal = true
  · simp only [hd, if_true] at hblk hr ⊢
    obtain ⟨K', blk', h, S, hs, hslot, _⟩ := fillDiag_run K blk row c.numel (by omega) hr
    exact ⟨K', blk', h, S, by omega, hslot⟩
  · simp only [hd, Bool.false_eq_true, if_false] at hblk hr ⊢
    obtain ⟨K', blk', h, S, hs, hslot, _⟩ := fillDense_run K blk row c.numel shape (by omega) hr
    exact ⟨K', blk', h, S, by omega, hslot⟩

-- ------------------------------------------------------------------ one iteration of the loop

/-- the sparse maps still to be consumed fit (with `D`) the sparse-expandable cones, in order -/
def MapsFitD : List ConeSpec → List SparseMap → Prop
  | [], _ => True
  | c :: cs, ms =>
    if c.isSparseExpandable = true then ∃ m ms', ms = m :: ms' ∧ MapFitsD c m ∧ MapsFitD cs ms'
    else MapsFitD cs ms

omit [OfNat α 0] in
theorem mapFitsD_expansionMap {c : ConeSpec} {mp : SparseMap} (h : expansionMap c = some mp) :
    MapFitsD c mp := by
  cases c <;> simp only [expansionMap] at h
  case soc d =>
    split at h
    · cases h; simp [MapFitsD]
    · cases h
  case genpow a b =>
    cases h; simp [MapFitsD]
  all_goals cases h

omit [OfNat α 0] in
theorem mapsFitD_filterMap (cones : List ConeSpec) :
    MapsFitD cones (cones.filterMap expansionMap) := by
  induction cones with
  | nil => trivial
  | cons c cs ih =>
    unfold MapsFitD
    cases hm : expansionMap c with
    | none =>
      have hsp : ¬ c.isSparseExpandable = true := by
        cases c <;> simp [expansionMap, ConeSpec.isSparseExpandable] at hm ⊢
        exact hm
      rw [if_neg hsp, List.filterMap_cons_none hm]
      exact ih
    | some m =>
      have hsp : c.isSparseExpandable = true := by
        cases c <;> simp [expansionMap, ConeSpec.isSparseExpandable] at hm ⊢
        exact hm.1
      rw [if_pos hsp, List.filterMap_cons_some hm]
      exact ⟨m, _, rfl, mapFitsD_expansionMap hm, ih⟩

theorem coneSchedule_eq' (c : ConeSpec) (row pcol : Nat) (shape : MatrixTriangle) :
    coneSchedule (α := α) c row pcol shape = hsSchedule shape c row
      ++ (if c.isSparseExpandable = true then sparseSchedule c row pcol shape else []) :=
  coneSchedule_eq c row pcol shape

/-- what one iteration of the cone loop of `_kkt_assemble_fill` achieves -/
structure StepOut (n : Nat) (shape : MatrixTriangle) (st st' : FillState α) (c : ConeSpec)
    (s b : Nat) (rest : List ConeSpec) : Prop where
  kspec : KSpec st.K st'.K (coneSchedule c (s + n) st.pcol shape)
  pcol : st'.pcol = st.pcol + conePdim c
  next : st'.nextSparse = st.nextSparse + (if c.isSparseExpandable = true then 1 else 0)
  fit : MapsFitD rest (st'.maps.toList.drop st'.nextSparse)
  hs_size : st'.Hsblocks.size = st.Hsblocks.size
  maps_size : st'.maps.size = st.maps.size
  hs_frame : ∀ x, (x < b ∨ b + c.blockLen ≤ x) → st'.Hsblocks[x]? = st.Hsblocks[x]?
  maps_frame : ∀ j, j ≠ st.nextSparse → st'.maps[j]? = st.maps[j]?
  hs_slots : HsSlots shape c (s + n) st.K.colptr (coneSchedule (α := α) c (s + n) st.pcol shape)
    (fun k => st'.Hsblocks[b + k]?)
  sp_slots : c.isSparseExpandable = true → ∃ mp', st'.maps[st.nextSparse]? = some mp' ∧
    SparseSlots shape c (s + n) st.pcol st.K.colptr (coneSchedule (α := α) c (s + n) st.pcol shape) mp'

theorem coneStep_run {n : Nat} {shape : MatrixTriangle} (st : FillState α) (c : ConeSpec)
    (s b : Nat) (rest : List ConeSpec)
    (hfit : MapsFitD (c :: rest) (st.maps.toList.drop st.nextSparse))
    (hr : Ready st.K (coneSchedule (α := α) c (s + n) st.pcol shape))
    (hHs : b + c.blockLen ≤ st.Hsblocks.size) :
    ∃ st', coneStep n shape st c s b = .ok st' ∧ StepOut n shape st st' c s b rest := by
  rw [coneSchedule_eq'] at hr
  have hblk : (st.Hsblocks.extract b (b + c.blockLen)).size = c.blockLen := by
    rw [Array.size_extract]; omega
  obtain ⟨K1, blk', h1, S1, hbs, hsl⟩ := fillHs_run shape c st.K _ (s + n) hblk hr.left
  obtain ⟨sz, hin, hout⟩ := spliceAt_spec st.Hsblocks b blk' (by omega)
  have hr2 := hr.right S1
  have hslots : HsSlots shape c (s + n) st.K.colptr (coneSchedule (α := α) c (s + n) st.pcol shape)
      (fun k => (spliceAt st.Hsblocks b blk')[b + k]?) := by
    rw [coneSchedule_eq']
    refine HsSlots.imp rfl (fun o col r v h => h.left _) ?_ hsl
    intro k hk
    exact hin k (by omega)
  unfold MapsFitD at hfit
  by_cases hsp : c.isSparseExpandable = true
  · rw [if_pos hsp] at hfit hr2 hr
    obtain ⟨m, ms', hms, hmf, hrest⟩ := hfit
    have hget : st.maps[st.nextSparse]? = some m := by
      have h0 : (st.maps.toList.drop st.nextSparse)[0]? = some m := by rw [hms]; rfl
      rw [List.getElem?_drop, Nat.add_zero, Array.getElem?_toList] at h0
      exact h0
    have hlt : st.nextSparse < st.maps.size := (Array.getElem?_eq_some_iff.mp hget).1
    have hms' : ms' = st.maps.toList.drop (st.nextSparse + 1) := by
      have : (st.maps.toList.drop st.nextSparse).drop 1 = ms' := by rw [hms]; rfl
      rw [← this, List.drop_drop]
    obtain ⟨Kn, newmap, hsc, S2, hss⟩ := fillSparsecone_run (row := s + n) (col := st.pcol)
      (shape := shape) hmf hr2
    refine ⟨{ K := Kn, Hsblocks := spliceAt st.Hsblocks b blk',
              maps := st.maps.setIfInBounds st.nextSparse newmap,
              pcol := st.pcol + m.pdim, nextSparse := st.nextSparse + 1 }, ?_, ?_⟩
    · unfold coneStep
      simp only [h1, bind, Except.bind, if_pos hsp, getE_some hget, hsc, setE_lt hlt, pure,
        Except.pure]
    · have hSall : KSpec st.K Kn (coneSchedule (α := α) c (s + n) st.pcol shape) := by
        rw [coneSchedule_eq', if_pos hsp]
        exact S1.append S2 hr.dis
      refine ⟨hSall, ?_, ?_, ?_, sz, by simp, ?_, ?_, hslots, ?_⟩
      · show st.pcol + m.pdim = _
        rw [pdim_of_mapFitsD hmf hsp]
      · show st.nextSparse + 1 = _
        rw [if_pos hsp]
      · show MapsFitD rest ((st.maps.setIfInBounds st.nextSparse newmap).toList.drop (st.nextSparse + 1))
        rw [Array.toList_setIfInBounds, List.drop_set_of_lt (by omega), ← hms']
        exact hrest
      · intro x hx
        exact hout x (by omega)
      · intro j hj
        show (st.maps.setIfInBounds st.nextSparse newmap)[j]? = _
        exact Array.getElem?_setIfInBounds_ne (Ne.symm hj)
      · intro _
        refine ⟨newmap, ?_, ?_⟩
        · show (st.maps.setIfInBounds st.nextSparse newmap)[st.nextSparse]? = _
          exact Array.getElem?_setIfInBounds_self_of_lt hlt
        · rw [coneSchedule_eq', if_pos hsp]
          exact SparseSlots.imp rfl rfl (fun o col r v h => SlotAt.right _ S1.colptr_get h) hss
  · rw [if_neg hsp] at hfit
    refine ⟨{ K := K1, Hsblocks := spliceAt st.Hsblocks b blk', maps := st.maps,
              pcol := st.pcol, nextSparse := st.nextSparse }, ?_, ?_⟩
    · unfold coneStep
      simp only [h1, bind, Except.bind, if_neg hsp, pure, Except.pure]
    · have hSall : KSpec st.K K1 (coneSchedule (α := α) c (s + n) st.pcol shape) := by
        rw [coneSchedule_eq', if_neg hsp, List.append_nil]
        exact S1
      refine ⟨hSall, ?_, ?_, hfit, sz, rfl, ?_, fun _ _ => rfl, hslots, fun h => absurd h hsp⟩
      · show st.pcol = _
        simp [conePdim, hsp]
      · show st.nextSparse = _
        rw [if_neg hsp]; rfl
      · intro x hx
        exact hout x (by omega)

end Clarabel.Lemmas.KktFillMaps
