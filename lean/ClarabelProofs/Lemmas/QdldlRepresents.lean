/-
  C12: the `Represents` bridge.

  For a canonical upper-triangular input `A` (valid CSC format, `check_structure = Ok`, no column
  stores a row index twice) and an ordering vector `iperm` that is the inverse of a permutation
  `perm` of `0 … n-1`, `permute_symmetric(A, iperm)`
  * succeeds,
  * returns a `triuA` that stores no position twice, hence `Represents` its dense meaning, and
  * that dense meaning is the symmetric permutation of `A`:
      `triuA[i,k] = Sym(A)[perm i, perm k]`   (`i ≤ k < n`).
  This discharges the `Represents` hypothesis of the factorisation theorems from hypotheses on the
  user's matrix and ordering only.
-/
import ClarabelProofs.Lemmas.QdldlPermTriu
import ClarabelProofs.Lemmas.QdldlFactor

namespace Clarabel.Qdldl

/-! ### the column list `colOf` -/

theorem colOf_succ (Ap : Array Nat) (m : Nat) :
    colOf Ap (m + 1) = colOf Ap m ++ List.replicate (Ap.getD (m + 1) 0 - Ap.getD m 0) m := by
  unfold colOf
  rw [List.range_succ, List.map_append, List.flatten_append]
  simp

theorem ptr_mono_le (n : Nat) (Ap : Array Nat) (hm : ∀ k, k < n → Ap.getD k 0 ≤ Ap.getD (k + 1) 0)
    (c c' : Nat) (h : c ≤ c') (hc' : c' ≤ n) : Ap.getD c 0 ≤ Ap.getD c' 0 := by
  induction c' with
  | zero => have : c = 0 := by omega
            subst this; exact Nat.le_refl _
  | succ k ih =>
    by_cases hk : c = k + 1
    · subst hk; exact Nat.le_refl _
    · have := ih (by omega) (by omega)
      have := hm k (by omega)
      omega

theorem colOf_length (n : Nat) (Ap : Array Nat) (h0 : Ap.getD 0 0 = 0)
    (hm : ∀ k, k < n → Ap.getD k 0 ≤ Ap.getD (k + 1) 0) (m : Nat) (hmn : m ≤ n) :
    (colOf Ap m).length = Ap.getD m 0 := by
  induction m with
  | zero => simp [colOf, h0]
  | succ k ih =>
    rw [colOf_succ, List.length_append, ih (by omega), List.length_replicate]
    have := hm k (by omega)
    omega

/-- entry `e` of column `c` has column index `c` -/
theorem colOf_get (n : Nat) (Ap : Array Nat) (h0 : Ap.getD 0 0 = 0)
    (hm : ∀ k, k < n → Ap.getD k 0 ≤ Ap.getD (k + 1) 0) (m : Nat) (hmn : m ≤ n) (c : Nat) (hc : c < m)
    (e : Nat) (h1 : Ap.getD c 0 ≤ e) (h2 : e < Ap.getD (c + 1) 0) : (colOf Ap m)[e]? = some c := by
  induction m with
  | zero => omega
  | succ k ih =>
    rw [colOf_succ]
    have hlen := colOf_length n Ap h0 hm k (by omega)
    by_cases hck : c < k
    · have := ptr_mono_le n Ap hm (c + 1) k (by omega) (by omega)
      rw [List.getElem?_append_left (by rw [hlen]; omega)]
      exact ih (by omega) hck
    · have hce : c = k := by omega
      subst hce
      rw [List.getElem?_append_right (by rw [hlen]; exact h1), hlen, List.getElem?_replicate]
      rw [if_pos (by omega)]

/-- conversely, the column index of entry `e` is a column whose slot contains `e` -/
theorem colOf_get_inv (n : Nat) (Ap : Array Nat) (h0 : Ap.getD 0 0 = 0)
    (hm : ∀ k, k < n → Ap.getD k 0 ≤ Ap.getD (k + 1) 0) (m : Nat) (hmn : m ≤ n) (e c : Nat)
    (h : (colOf Ap m)[e]? = some c) : c < m ∧ Ap.getD c 0 ≤ e ∧ e < Ap.getD (c + 1) 0 := by
  induction m with
  | zero => simp [colOf] at h
  | succ k ih =>
    rw [colOf_succ] at h
    have hlen := colOf_length n Ap h0 hm k (by omega)
    by_cases he : e < (colOf Ap k).length
    · rw [List.getElem?_append_left he] at h
      have := ih (by omega) h
      exact ⟨by omega, this.2.1, this.2.2⟩
    · rw [List.getElem?_append_right (by omega), List.getElem?_replicate] at h
      split at h
      · rename_i hlt
        have : c = k := by simpa using h.symm
        subst this
        rw [hlen] at hlt he
        exact ⟨by omega, by omega, by omega⟩
      · cases h

/-! ### what a valid input gives -/

/-- no column stores a row index twice (a *canonical* CSC matrix: `CscMatrix::check_format` demands
strictly increasing row indices inside every column) -/
def NoDupCols (Ap Ai : Array Nat) : Prop :=
  ∀ k t t', Ap.getD k 0 ≤ t → t < Ap.getD (k + 1) 0 → Ap.getD k 0 ≤ t' → t' < Ap.getD (k + 1) 0 →
    Ai.getD t 0 = Ai.getD t' 0 → t = t'

/-- strictly increasing row indices inside every column (what `CscMatrix::check_format` checks:
`rowval[rng].windows(2).any(|c| c[0] >= c[1])` is an error) give `NoDupCols` -/
theorem noDupCols_of_sorted (Ap Ai : Array Nat)
    (h : ∀ k t, Ap.getD k 0 ≤ t → t + 1 < Ap.getD (k + 1) 0 → Ai.getD t 0 < Ai.getD (t + 1) 0) :
    NoDupCols Ap Ai := by
  have key : ∀ k d t, Ap.getD k 0 ≤ t → t + (d + 1) < Ap.getD (k + 1) 0 →
      Ai.getD t 0 < Ai.getD (t + (d + 1)) 0 := by
    intro k d
    induction d with
    | zero => intro t h1 h2; exact h k t h1 h2
    | succ d ih =>
      intro t h1 h2
      have a := ih t h1 (by omega)
      have b := h k (t + (d + 1)) (by omega) (by omega)
      have e : t + (d + 1) + 1 = t + (d + 1 + 1) := by omega
      rw [e] at b
      omega
  intro k t t' h1 h2 h1' h2' he
  rcases Nat.lt_trichotomy t t' with hlt | heq | hgt
  · obtain ⟨d, rfl⟩ : ∃ d, t' = t + (d + 1) := ⟨t' - t - 1, by omega⟩
    have := key k d t h1 h2'
    omega
  · exact heq
  · obtain ⟨d, rfl⟩ : ∃ d, t = t' + (d + 1) := ⟨t - t' - 1, by omega⟩
    have := key k d t' h1' h2
    omega

/-- facts about the user's matrix used below -/
structure InputOK {α : Type} (A : Csc α) : Prop where
  sq : A.m = A.n
  tri : TriuCsc A.n A.colptr A.rowval
  p0 : A.colptr.getD 0 0 = 0
  plast : A.colptr.getD A.n 0 = A.rowval.size
  vsz : A.rowval.size = A.nzval.size
  wf : wellFormed A = true
  triu : A.isTriu = true

theorem InputOK.of_checks {α : Type} (A : Csc α) (hw : wellFormed A = true)
    (hc : checkStructure A = .ok ()) : InputOK A := by
  have htri := TriuCsc.of_checks A hw hc
  have hsq : A.m = A.n ∧ A.isTriu = true := by
    unfold checkStructure at hc
    split at hc
    · cases hc
    · rename_i h1
      split at hc
      · cases hc
      · rename_i h2
        exact ⟨by simpa using h1, by simpa using h2⟩
  have hw' := hw
  unfold wellFormed at hw'
  simp only [Bool.and_eq_true, beq_iff_eq, Bool.not_eq_true'] at hw'
  obtain ⟨⟨⟨⟨hsz, h0⟩, _⟩, hlast⟩, hv⟩ := hw'
  refine ⟨hsq.1, htri, ?_, hlast, hv, hw, hsq.2⟩
  have : 0 < A.colptr.size := by omega
  simp only [Array.getD_eq_getD_getElem?, Array.getElem?_eq_getElem this, Option.getD_some] at h0 ⊢
  exact h0

/-- `ip` restricted to `0 … n-1` is a bijection with inverse `pm` -/
structure InvPair (n : Nat) (pm ip : Nat → Nat) : Prop where
  ip_lt : ∀ j, j < n → ip j < n
  pm_lt : ∀ i, i < n → pm i < n
  pm_ip : ∀ j, j < n → pm (ip j) = j
  ip_pm : ∀ i, i < n → ip (pm i) = i

theorem InvPair.ip_inj {n : Nat} {pm ip : Nat → Nat} (h : InvPair n pm ip) {a b : Nat} (ha : a < n)
    (hb : b < n) (e : ip a = ip b) : a = b := by
  rw [← h.pm_ip a ha, ← h.pm_ip b hb, e]

/-- `_invperm` returns an inverse pair -/
theorem invperm_invPair (perm iperm : Array Nat) (h : Perm.invperm perm = .ok iperm) :
    iperm.size = perm.size ∧
      InvPair perm.size (fun i => perm.getD i 0) (fun j => iperm.getD j 0) := by
  unfold Perm.invperm at h
  obtain ⟨hrange, hnd, hb⟩ := (Perm.invpermLoop_ok_iff perm.size perm.toList 0 _ _ (by simp) iperm).mp h
  have hlt : ∀ j ∈ perm.toList, j < perm.size := fun j hj => (hrange j hj).1
  have hsize : iperm.size = perm.size := by rw [hb, Perm.writeAll_size]; simp
  have hget : ∀ i (hi : i < perm.size), iperm[perm[i]]? = some i := by
    intro i hi
    have := Perm.writeAll_get perm.toList 0 (Array.replicate perm.size 0) hnd
      (by intro j hj; simpa using hlt j hj) i (by simpa using hi)
    rw [hb]
    simpa using this
  have hpm : ∀ i, i < perm.size → perm.getD i 0 = perm[i]! := by
    intro i hi; simp [Array.getD_eq_getD_getElem?, hi]
  have hip_pm : ∀ i, i < perm.size → iperm.getD (perm.getD i 0) 0 = i := by
    intro i hi
    have := hget i hi
    have e : perm.getD i 0 = perm[i] := by simp [Array.getD_eq_getD_getElem?, hi]
    rw [e, Array.getD_eq_getD_getElem?, this]; rfl
  have hpm_lt : ∀ i, i < perm.size → perm.getD i 0 < perm.size := by
    intro i hi
    have e : perm.getD i 0 = perm[i] := by simp [Array.getD_eq_getD_getElem?, hi]
    rw [e]; exact hlt _ (by simp)
  have hsurj : ∀ j, j < perm.size → ∃ i, i < perm.size ∧ perm.getD i 0 = j := by
    intro j hj
    have hmem : j ∈ perm.toList := Perm.mem_of_nodup_of_lt perm.toList perm.size hnd hlt (by simp) j hj
    obtain ⟨i, hi, hij⟩ := List.getElem_of_mem hmem
    have hi' : i < perm.size := by simpa using hi
    refine ⟨i, hi', ?_⟩
    have e : perm.getD i 0 = perm[i] := by simp [Array.getD_eq_getD_getElem?, hi']
    rw [e]; simpa using hij
  refine ⟨hsize, ?_, hpm_lt, ?_, hip_pm⟩
  · intro j hj
    obtain ⟨i, hi, hij⟩ := hsurj j hj
    show iperm.getD j 0 < perm.size
    rw [← hij, hip_pm i hi]; exact hi
  · intro j hj
    obtain ⟨i, hi, hij⟩ := hsurj j hj
    show perm.getD (iperm.getD j 0) 0 = j
    rw [← hij, hip_pm i hi]

/-! ### the entries of `triuA` -/

/-- everything `permute_symmetric` does, entry by entry: entry `e = (r, c)` of `A` lands in slot
`pos[e]` of `triuA`, which lies in column `max (ip r) (ip c)`, has row `min (ip r) (ip c)` and
the value of entry `e`; the slots are a permutation of `0 … nnz-1`. -/
theorem permuteSymmetric_entries {α : Type} [OfNat α 0] (A : Csc α) (iperm : Array Nat) (P : Csc α)
    (map : Array Nat) (h : permuteSymmetric A iperm = .ok (P, map)) :
    ∃ pos : List Nat, map = pos.toArray ∧ pos.Nodup ∧ pos.length = A.rowval.size ∧
      (∀ p ∈ pos, p < A.rowval.size) ∧ A.rowval.size = A.nzval.size ∧
      P.rowval.size = A.rowval.size ∧ P.nzval.size = A.rowval.size ∧
      (colOf A.colptr A.n).length = A.rowval.size ∧
      ∀ e (he : e < pos.length), ∃ r c, A.rowval[e]? = some r ∧ (colOf A.colptr A.n)[e]? = some c ∧
        max (iperm.getD r 0) (iperm.getD c 0) < A.n ∧
        P.rowval.getD pos[e] 0 = min (iperm.getD r 0) (iperm.getD c 0) ∧
        P.nzval.getD pos[e] 0 = A.nzval.getD e 0 ∧
        P.colptr.getD (max (iperm.getD r 0) (iperm.getD c 0)) 0 ≤ pos[e] ∧
        pos[e] < P.colptr.getD (max (iperm.getD r 0) (iperm.getD c 0) + 1) 0 := by
  obtain ⟨hsz, Pc, Pr, pos, hpat, hP, hmap⟩ := permuteSymmetric_ok A iperm P map h
  obtain ⟨hnd, hlen, hlt, hPc, hblk⟩ := permutePattern_ok _ _ _ _ _ _ _ hpat
  have hmore : Pr = scatter (Array.replicate A.rowval.size 0) pos
      (List.zipWith (fun r c => min (iperm.getD r 0) (iperm.getD c 0)) A.rowval.toList (colOf A.colptr A.n)) ∧
      (colOf A.colptr A.n).length = A.rowval.size ∧
      ∀ d ∈ destsOf A.n A.colptr A.rowval iperm, d < A.n := by
    unfold permutePattern at hpat
    simp only [bind, Except.bind, pure, Except.pure, throw, throwThe, MonadExceptOf.throw] at hpat
    split at hpat
    · cases hpat
    · split at hpat
      · cases hpat
      · rename_i h2
        split at hpat
        · cases hpat
        · rename_i h3
          simp only [Except.ok.injEq, Prod.mk.injEq] at hpat
          rw [← hpat.2.2]
          refine ⟨hpat.2.1.symm, by simpa using h2, ?_⟩
          intro d hd
          have : (destsOf A.n A.colptr A.rowval iperm).all (fun d => decide (d < A.n)) = true := by
            simpa [destsOf] using h3
          simpa using List.all_eq_true.mp this d hd
  obtain ⟨hPr, hcl, hall⟩ := hmore
  subst hP hmap
  refine ⟨pos, rfl, hnd, hlen, hlt, hsz, by simp [hPr, scatter_size], by simp [scatter_size, hsz], hcl, ?_⟩
  intro e he
  have her : e < A.rowval.size := by omega
  have hec : e < (colOf A.colptr A.n).length := by omega
  have hdl : e < (destsOf A.n A.colptr A.rowval iperm).length := by simp [destsOf]; omega
  have hd : (destsOf A.n A.colptr A.rowval iperm)[e] =
      max (iperm.getD A.rowval[e] 0) (iperm.getD (colOf A.colptr A.n)[e] 0) := by
    simp [destsOf]
  have hb := hblk e hdl pos[e] (by simp [he])
  have hdn := hall _ (List.getElem_mem hdl)
  rw [hd] at hb hdn
  refine ⟨A.rowval[e], (colOf A.colptr A.n)[e], by simp [her], by simp [hec], hdn, ?_, ?_, hb.1, hb.2⟩
  · show Pr.getD pos[e] 0 = _
    have := scatter_get (Array.replicate A.rowval.size 0) pos
      (List.zipWith (fun r c => min (iperm.getD r 0) (iperm.getD c 0)) A.rowval.toList (colOf A.colptr A.n))
      hnd (by simp [hlen, hcl]) (by simpa using hlt) e he
    rw [Array.getD_eq_getD_getElem?, hPr, this]
    simp
  · show (scatter (Array.replicate A.nzval.size 0) pos A.nzval.toList).getD pos[e] 0 = _
    have := scatter_get (Array.replicate A.nzval.size (0 : α)) pos A.nzval.toList hnd
      (by simp [hlen, hsz]) (by simpa [← hsz] using hlt) e he
    rw [Array.getD_eq_getD_getElem?, this]
    have : e < A.nzval.size := by omega
    simp [Array.getD_eq_getD_getElem?, this]

/-- where entry `e` of a valid upper-triangular matrix sits -/
theorem entry_coords {α : Type} (A : Csc α) (hA : InputOK A) (e : Nat) (he : e < A.rowval.size) :
    ∃ c, (colOf A.colptr A.n)[e]? = some c ∧ c < A.n ∧ A.colptr.getD c 0 ≤ e ∧
      e < A.colptr.getD (c + 1) 0 ∧ A.rowval.getD e 0 ≤ c := by
  have hlen := colOf_length A.n A.colptr hA.p0 hA.tri.ap_mono A.n (Nat.le_refl _)
  rw [hA.plast] at hlen
  have hec : e < (colOf A.colptr A.n).length := by omega
  obtain ⟨h1, h2, h3⟩ := colOf_get_inv A.n A.colptr hA.p0 hA.tri.ap_mono A.n (Nat.le_refl _) e
    (colOf A.colptr A.n)[e] (by simp [hec])
  exact ⟨_, by simp [hec], h1, h2, h3, hA.tri.rows _ h1 e h2 h3⟩

/-- **`permute_symmetric` does not fail** on a valid input with an in-range ordering vector -/
theorem permuteSymmetric_total {α : Type} [OfNat α 0] (A : Csc α) (hA : InputOK A) (iperm : Array Nat)
    (hsz : A.n ≤ iperm.size) (hlt : ∀ j, j < A.n → iperm.getD j 0 < A.n) :
    ∃ P map, permuteSymmetric A iperm = .ok (P, map) := by
  have hlen := colOf_length A.n A.colptr hA.p0 hA.tri.ap_mono A.n (Nat.le_refl _)
  rw [hA.plast] at hlen
  have hdest : (List.zipWith (fun r c => max (iperm.getD r 0) (iperm.getD c 0)) A.rowval.toList
      (colOf A.colptr A.n)).all (fun d => decide (d < A.n)) = true := by
    rw [List.all_eq_true]
    intro d hd
    obtain ⟨e, he, hed⟩ := List.getElem_of_mem hd
    simp only [List.length_zipWith, Array.length_toList] at he
    have he' : e < A.rowval.size := by omega
    obtain ⟨c, hc, hcn, _, _, hrc⟩ := entry_coords A hA e he'
    have hce : (colOf A.colptr A.n)[e]'(by omega) = c := by
      have : (colOf A.colptr A.n)[e]? = some ((colOf A.colptr A.n)[e]'(by omega)) := by
        simp [show e < (colOf A.colptr A.n).length by omega]
      rw [this] at hc; exact Option.some.inj hc
    have hre : A.rowval[e] = A.rowval.getD e 0 := by simp [Array.getD_eq_getD_getElem?, he']
    simp only [List.getElem_zipWith, Array.getElem_toList] at hed
    rw [hce, hre] at hed
    have h1 := hlt (A.rowval.getD e 0) (by omega)
    have h2 := hlt c hcn
    rw [decide_eq_true_eq, ← hed]
    omega
  unfold permuteSymmetric
  have g1 : (!wellFormed A || A.m != A.n) = false := by simp [hA.wf, hA.sq]
  have g2 : (!A.isTriu) = false := by simp [hA.triu]
  simp only [g1, g2, Bool.false_eq_true, ↓reduceIte, bind, Except.bind, pure, Except.pure]
  unfold permutePattern
  have g3 : ¬ iperm.size < A.n := by omega
  have g4 : ((colOf A.colptr A.n).length != A.rowval.toList.length) = false := by simp [hlen]
  simp only [g3, ↓reduceIte, g4, Bool.false_eq_true, hdest, Bool.not_true, bind, Except.bind, pure,
    Except.pure]
  exact ⟨_, _, rfl⟩

section represents
variable {α : Type} [Add α] [Sub α] [Mul α] [Div α] [Neg α] [OfNat α 0] [OfNat α 1] [LT α]
  [DecidableLT α] [BEq α] [FloatLike α]

/-- a stored position of a matrix without repeated entries carries the dense value -/
theorem denseOf_stored (Ap Ai : Array Nat) (Ax : Array α) (hnd : NoDupCols Ap Ai) (k t : Nat)
    (h1 : Ap.getD k 0 ≤ t) (h2 : t < Ap.getD (k + 1) 0) :
    denseOf Ap Ai Ax (Ai.getD t 0) k = Ax.getD t 0 := by
  have h : ∃ t', Ap.getD k 0 ≤ t' ∧ t' < Ap.getD (k + 1) 0 ∧ Ai.getD t' 0 = Ai.getD t 0 := ⟨t, h1, h2, rfl⟩
  unfold denseOf
  rw [dif_pos h]
  obtain ⟨a1, a2, a3⟩ := Classical.choose_spec h
  rw [hnd k _ t a1 a2 h1 h2 a3]

theorem denseOf_not_stored (Ap Ai : Array Nat) (Ax : Array α) (i k : Nat)
    (h : ¬ ∃ t, Ap.getD k 0 ≤ t ∧ t < Ap.getD (k + 1) 0 ∧ Ai.getD t 0 = i) :
    denseOf Ap Ai Ax i k = 0 := by
  unfold denseOf
  rw [dif_neg h]

/-- two pairs with the same `min` and `max` are equal up to order -/
theorem minmax_pair {a b a' b' : Nat} (h1 : max a b = max a' b') (h2 : min a b = min a' b') :
    (a = a' ∧ b = b') ∨ (a = b' ∧ b = a') := by omega

/-- **the `Represents` bridge.**  `triuA = permute_symmetric(A, iperm)` of a canonical
upper-triangular `A` (no repeated positions) under an inverse pair `(perm, iperm)` stores no
position twice, represents its dense meaning, and that meaning is `Π Sym(A) Πᵀ`:
`triuA[i,k] = A[min (perm i) (perm k), max (perm i) (perm k)]` for `i ≤ k < n`. -/
theorem permuteSymmetric_represents (A : Csc α) (hA : InputOK A) (hnd : NoDupCols A.colptr A.rowval)
    (iperm : Array Nat) (pm : Nat → Nat) (hinv : InvPair A.n pm (fun j => iperm.getD j 0))
    (P : Csc α) (map : Array Nat) (h : permuteSymmetric A iperm = .ok (P, map)) :
    NoDupCols P.colptr P.rowval ∧
    Represents P.n P.colptr P.rowval P.nzval (denseOf P.colptr P.rowval P.nzval) ∧
    ∀ i k, k < A.n → i ≤ k →
      denseOf P.colptr P.rowval P.nzval i k =
        denseOf A.colptr A.rowval A.nzval (min (pm i) (pm k)) (max (pm i) (pm k)) := by
  obtain ⟨hPn, hT⟩ := permuteSymmetric_triuCsc A iperm P map h
  obtain ⟨pos, _, hpnd, hplen, hplt, hvsz, hPrs, hPvs, _, hent⟩ := permuteSymmetric_entries A iperm P map h
  rw [hPn] at hT
  have hmono : ∀ c c', c ≤ c' → c' ≤ A.n → P.colptr.getD c 0 ≤ P.colptr.getD c' 0 :=
    fun c c' h1 h2 => ptr_mono_le A.n P.colptr hT.ap_mono c c' h1 h2
  -- every slot of column `k` of `triuA` comes from an entry `(r, c)` of `A`, `r ≤ c`, with
  -- `{ip r, ip c} = {row, k}`
  have hslot : ∀ k, k < A.n → ∀ t, P.colptr.getD k 0 ≤ t → t < P.colptr.getD (k + 1) 0 →
      ∃ e r c, e < A.rowval.size ∧ A.rowval.getD e 0 = r ∧ c < A.n ∧ r ≤ c ∧
        A.colptr.getD c 0 ≤ e ∧ e < A.colptr.getD (c + 1) 0 ∧
        max (iperm.getD r 0) (iperm.getD c 0) = k ∧
        P.rowval.getD t 0 = min (iperm.getD r 0) (iperm.getD c 0) ∧
        P.nzval.getD t 0 = A.nzval.getD e 0 := by
    intro k hk t ht1 ht2
    have htN : t < A.rowval.size := by
      have h1 := hmono (k + 1) A.n (by omega) (Nat.le_refl _)
      have h2 := hT.ap_bound A.n (Nat.le_refl _)
      omega
    have hmem : t ∈ pos := Perm.mem_of_nodup_of_lt pos A.rowval.size hpnd hplt hplen t htN
    obtain ⟨e, he, het⟩ := List.getElem_of_mem hmem
    obtain ⟨r, c, hr, hc, hdn, hrow, hval, hb1, hb2⟩ := hent e he
    rw [het] at hrow hval hb1 hb2
    have he' : e < A.rowval.size := by omega
    obtain ⟨c', hc', hcn, hc1, hc2, hrc⟩ := entry_coords A hA e he'
    rw [hc] at hc'
    have hcc : c = c' := Option.some.inj hc'
    subst hcc
    have hre : A.rowval.getD e 0 = r := by
      rw [Array.getD_eq_getD_getElem?, hr]; rfl
    rw [hre] at hrc
    have hdk : max (iperm.getD r 0) (iperm.getD c 0) = k := by
      rcases Nat.lt_trichotomy (max (iperm.getD r 0) (iperm.getD c 0)) k with h' | h' | h'
      · have := hmono (max (iperm.getD r 0) (iperm.getD c 0) + 1) k (by omega) (by omega); omega
      · exact h'
      · have := hmono (k + 1) (max (iperm.getD r 0) (iperm.getD c 0)) (by omega) (by omega); omega
    exact ⟨e, r, c, he', hre, hcn, hrc, hc1, hc2, hdk, hrow, hval⟩
  -- conversely every entry of `A` has a slot
  have hentry : ∀ e, e < A.rowval.size → ∀ c, c < A.n → A.colptr.getD c 0 ≤ e → e < A.colptr.getD (c + 1) 0 →
      ∃ t, P.colptr.getD (max (iperm.getD (A.rowval.getD e 0) 0) (iperm.getD c 0)) 0 ≤ t ∧
        t < P.colptr.getD (max (iperm.getD (A.rowval.getD e 0) 0) (iperm.getD c 0) + 1) 0 ∧
        P.rowval.getD t 0 = min (iperm.getD (A.rowval.getD e 0) 0) (iperm.getD c 0) ∧
        P.nzval.getD t 0 = A.nzval.getD e 0 := by
    intro e he c hc h1 h2
    obtain ⟨r, c', hr, hc', hdn, hrow, hval, hb1, hb2⟩ := hent e (by omega)
    have hcg := colOf_get A.n A.colptr hA.p0 hA.tri.ap_mono A.n (Nat.le_refl _) c hc e h1 h2
    rw [hcg] at hc'
    have hcc : c = c' := Option.some.inj hc'
    subst hcc
    have hre : A.rowval.getD e 0 = r := by
      rw [Array.getD_eq_getD_getElem?, hr]; rfl
    rw [hre]
    exact ⟨_, hb1, hb2, hrow, hval⟩
  have hPnd : NoDupCols P.colptr P.rowval := by
    intro k t t' h1 h2 h1' h2' hrow
    have hk : k < A.n := by
      by_contra hk
      have : P.colptr.getD (k + 1) 0 = 0 := by
        rw [Array.getD_eq_getD_getElem?, Array.getElem?_eq_none (by rw [hT.ap_size]; omega)]; rfl
      omega
    obtain ⟨e, r, c, he, hre, hc, hrc, hc1, hc2, hmx, hrw, _⟩ := hslot k hk t h1 h2
    obtain ⟨e', r', c', he', hre', hc', hrc', hc1', hc2', hmx', hrw', _⟩ := hslot k hk t' h1' h2'
    rw [hrw, hrw'] at hrow
    have hr : r < A.n := by omega
    have hr' : r' < A.n := by omega
    have hpair := minmax_pair (hmx.trans hmx'.symm) hrow
    have hrr : r = r' ∧ c = c' := by
      rcases hpair with ⟨a, b⟩ | ⟨a, b⟩
      · exact ⟨hinv.ip_inj hr hr' a, hinv.ip_inj hc hc' b⟩
      · have e1 := hinv.ip_inj hr hc' a
        have e2 := hinv.ip_inj hc hr' b
        omega
    obtain ⟨e1, e2⟩ := hrr
    subst e1 e2
    have hee : e = e' := hnd c e e' hc1 hc2 hc1' hc2' (by rw [hre, hre'])
    subst hee
    -- both slots are the slot of entry `e`
    have htN : ∀ t, P.colptr.getD k 0 ≤ t → t < P.colptr.getD (k + 1) 0 → t < A.rowval.size := by
      intro t _ ht2
      have h1 := hmono (k + 1) A.n (by omega) (Nat.le_refl _)
      have h2 := hT.ap_bound A.n (Nat.le_refl _)
      omega
    -- use the value-free characterisation through `pos`
    have hmem : t ∈ pos := Perm.mem_of_nodup_of_lt pos A.rowval.size hpnd hplt hplen t (htN t h1 h2)
    have hmem' : t' ∈ pos := Perm.mem_of_nodup_of_lt pos A.rowval.size hpnd hplt hplen t' (htN t' h1' h2')
    obtain ⟨a, ha, hat⟩ := List.getElem_of_mem hmem
    obtain ⟨b, hb, hbt⟩ := List.getElem_of_mem hmem'
    -- entries `a`, `b` of `A` have the same coordinates as `e`
    have coords : ∀ x (hx : x < pos.length), P.colptr.getD k 0 ≤ pos[x] → pos[x] < P.colptr.getD (k + 1) 0 →
        P.rowval.getD pos[x] 0 = min (iperm.getD r 0) (iperm.getD c 0) → x = e := by
      intro x hx hx1 hx2 hxrow
      obtain ⟨rx, cx, hrx, hcx, hdn, hrowx, _, hbx1, hbx2⟩ := hent x hx
      have hx' : x < A.rowval.size := by omega
      obtain ⟨cx', hcx', hcxn, hcx1, hcx2, hrcx⟩ := entry_coords A hA x hx'
      rw [hcx] at hcx'
      have : cx = cx' := Option.some.inj hcx'
      subst this
      have hrex : A.rowval.getD x 0 = rx := by rw [Array.getD_eq_getD_getElem?, hrx]; rfl
      rw [hrex] at hrcx
      have hdk : max (iperm.getD rx 0) (iperm.getD cx 0) = k := by
        rcases Nat.lt_trichotomy (max (iperm.getD rx 0) (iperm.getD cx 0)) k with h' | h' | h'
        · have := hmono (max (iperm.getD rx 0) (iperm.getD cx 0) + 1) k (by omega) (by omega); omega
        · exact h'
        · have := hmono (k + 1) (max (iperm.getD rx 0) (iperm.getD cx 0)) (by omega) (by omega); omega
      rw [hrowx] at hxrow
      have hrxn : rx < A.n := by omega
      have hpair := minmax_pair (hdk.trans hmx.symm) hxrow
      have hrr : rx = r ∧ cx = c := by
        rcases hpair with ⟨a, b⟩ | ⟨a, b⟩
        · exact ⟨hinv.ip_inj hrxn hr a, hinv.ip_inj hcxn hc b⟩
        · have e1 := hinv.ip_inj hrxn hc a
          have e2 := hinv.ip_inj hcxn hr b
          omega
      obtain ⟨e1, e2⟩ := hrr
      subst e1 e2
      exact hnd cx x e hcx1 hcx2 hc1 hc2 (by rw [hrex, hre])
    have hae : a = e := coords a ha (by rw [hat]; exact h1) (by rw [hat]; exact h2) (by rw [hat]; exact hrw)
    have hbe : b = e := coords b hb (by rw [hbt]; exact h1') (by rw [hbt]; exact h2') (by rw [hbt]; exact hrw')
    subst hae
    subst hbe
    rw [← hat, ← hbt]
  have hRep : Represents P.n P.colptr P.rowval P.nzval (denseOf P.colptr P.rowval P.nzval) :=
    represents_denseOf P.n P.colptr P.rowval P.nzval (by rw [hPvs, hPrs]) hPnd
  refine ⟨hPnd, hRep, ?_⟩
  intro i k hk hik
  have hi : i < A.n := by omega
  have hpi := hinv.pm_lt i hi
  have hpk := hinv.pm_lt k hk
  have hipi : iperm.getD (pm i) 0 = i := hinv.ip_pm i hi
  have hipk : iperm.getD (pm k) 0 = k := hinv.ip_pm k hk
  by_cases hst : ∃ e, A.colptr.getD (max (pm i) (pm k)) 0 ≤ e ∧ e < A.colptr.getD (max (pm i) (pm k) + 1) 0 ∧
      A.rowval.getD e 0 = min (pm i) (pm k)
  · obtain ⟨e, he1, he2, her⟩ := hst
    have hcn : max (pm i) (pm k) < A.n := by omega
    have heN : e < A.rowval.size := by
      have h1 := ptr_mono_le A.n A.colptr hA.tri.ap_mono (max (pm i) (pm k) + 1) A.n (by omega) (Nat.le_refl _)
      have h2 := hA.tri.ap_bound A.n (Nat.le_refl _)
      omega
    obtain ⟨t, ht1, ht2, htr, htv⟩ := hentry e heN _ hcn he1 he2
    rw [her] at ht1 ht2 htr
    have hmx : max (iperm.getD (min (pm i) (pm k)) 0) (iperm.getD (max (pm i) (pm k)) 0) = k := by
      rcases Nat.le_total (pm i) (pm k) with hle | hle
      · rw [Nat.min_eq_left hle, Nat.max_eq_right hle, hipi, hipk]; omega
      · rw [Nat.min_eq_right hle, Nat.max_eq_left hle, hipi, hipk]; omega
    have hmn : min (iperm.getD (min (pm i) (pm k)) 0) (iperm.getD (max (pm i) (pm k)) 0) = i := by
      rcases Nat.le_total (pm i) (pm k) with hle | hle
      · rw [Nat.min_eq_left hle, Nat.max_eq_right hle, hipi, hipk]; omega
      · rw [Nat.min_eq_right hle, Nat.max_eq_left hle, hipi, hipk]; omega
    rw [hmx] at ht1 ht2
    rw [hmn] at htr
    have e1 := denseOf_stored P.colptr P.rowval P.nzval hPnd k t ht1 ht2
    rw [htr] at e1
    have e2 := denseOf_stored A.colptr A.rowval A.nzval hnd _ e he1 he2
    rw [her] at e2
    rw [e1, e2, htv]
  · rw [denseOf_not_stored A.colptr A.rowval A.nzval _ _ hst]
    apply denseOf_not_stored
    rintro ⟨t, ht1, ht2, htr⟩
    obtain ⟨e, r, c, he, hre, hc, hrc, hc1, hc2, hmx, hrw, _⟩ := hslot k hk t ht1 ht2
    rw [htr] at hrw
    have hr : r < A.n := by omega
    -- `{ip r, ip c} = {i, k}`
    have hpair := minmax_pair (a := iperm.getD r 0) (b := iperm.getD c 0) (a' := i) (b' := k)
      (by rw [hmx]; omega) (by rw [← hrw]; omega)
    have hpr : pm (iperm.getD r 0) = r := hinv.pm_ip r hr
    have hpc : pm (iperm.getD c 0) = c := hinv.pm_ip c hc
    apply hst
    rcases hpair with ⟨a, b⟩ | ⟨a, b⟩
    · rw [a] at hpr; rw [b] at hpc
      refine ⟨e, ?_, ?_, ?_⟩
      · rw [hpr, hpc, Nat.max_eq_right hrc]; exact hc1
      · rw [hpr, hpc, Nat.max_eq_right hrc]; exact hc2
      · rw [hpr, hpc, Nat.min_eq_left hrc]; exact hre
    · rw [a] at hpr; rw [b] at hpc
      refine ⟨e, ?_, ?_, ?_⟩
      · rw [hpr, hpc, Nat.max_eq_left hrc]; exact hc1
      · rw [hpr, hpc, Nat.max_eq_left hrc]; exact hc2
      · rw [hpr, hpc, Nat.min_eq_right hrc]; exact hre

end represents

end Clarabel.Qdldl
