/-
  Helper lemmas for C16 (round 3): equality / sparsity comparison, the constructor `new`,
  `spalloc`, `findnz`, and what the row-wise operations compute on encodings whose
  `colptr` does not start at 0.
-/
import ClarabelProofs.Lemmas.CscReduce
import ClarabelProofs.Lemmas.CscFormat
import ClarabelProofs.Lemmas.CscSort
import ClarabelProofs.Lemmas.CscCat

namespace Clarabel.Csc
open Clarabel.C16

variable {α : Type}
set_option linter.unusedSectionVars false

/-! ### equality and sparsity comparison -/

theorem ext_fields (A B : Csc α) (h1 : A.m = B.m) (h2 : A.n = B.n) (h3 : A.colptr = B.colptr)
    (h4 : A.rowval = B.rowval) (h5 : A.nzval = B.nzval) : A = B := by
  cases A; cases B; simp_all

theorem isEqual_iff_fields [BEq α] (A B : Csc α) :
    A.isEqual B = true ↔ A.m = B.m ∧ A.n = B.n ∧ A.colptr = B.colptr ∧ A.rowval = B.rowval ∧
      (A.nzval == B.nzval) = true := by
  unfold isEqual
  simp only [Bool.and_eq_true, beq_iff_eq, and_assoc]

theorem isEqual_iff_eq [BEq α] [LawfulBEq α] (A B : Csc α) : A.isEqual B = true ↔ A = B := by
  rw [isEqual_iff_fields]
  constructor
  · rintro ⟨h1, h2, h3, h4, h5⟩
    exact ext_fields A B h1 h2 h3 h4 (by simpa using h5)
  · rintro rfl
    simp

theorem isEqualSparsity_iff (A B : Csc α) :
    A.isEqualSparsity B = true ↔ A.m = B.m ∧ A.n = B.n ∧ A.colptr = B.colptr ∧ A.rowval = B.rowval := by
  unfold isEqualSparsity
  simp only [Bool.and_eq_true, beq_iff_eq, and_assoc]

theorem checkEqualSparsity_ok_iff (A B : Csc α) :
    A.checkEqualSparsity B = .ok () ↔
      A.m = B.m ∧ A.n = B.n ∧ A.colptr = B.colptr ∧ A.rowval = B.rowval := by
  unfold checkEqualSparsity
  by_cases h1 : A.m = B.m <;> by_cases h2 : A.n = B.n <;> by_cases h3 : A.colptr = B.colptr <;>
    by_cases h4 : A.rowval = B.rowval <;> simp [h1, h2, h3, h4]

theorem checkEqualSparsity_dim_iff (A B : Csc α) :
    A.checkEqualSparsity B = .error .incompatibleDimension ↔ ¬ (A.m = B.m ∧ A.n = B.n) := by
  unfold checkEqualSparsity
  by_cases h1 : A.m = B.m <;> by_cases h2 : A.n = B.n <;> by_cases h3 : A.colptr = B.colptr <;>
    by_cases h4 : A.rowval = B.rowval <;> simp [h1, h2, h3, h4]

theorem checkEqualSparsity_mismatch_iff (A B : Csc α) :
    A.checkEqualSparsity B = .error .sparsityMismatch ↔
      A.m = B.m ∧ A.n = B.n ∧ ¬ (A.colptr = B.colptr ∧ A.rowval = B.rowval) := by
  unfold checkEqualSparsity
  by_cases h1 : A.m = B.m <;> by_cases h2 : A.n = B.n <;> by_cases h3 : A.colptr = B.colptr <;>
    by_cases h4 : A.rowval = B.rowval <;> simp [h1, h2, h3, h4]

/-- two canonical encodings (starting at 0) of the same shape with the same columns are the
same encoding -/
theorem canonical_ext (A B : Csc α) (hA : Canonical A) (hB : Canonical B)
    (hA0 : A.colptr.getD 0 0 = 0) (hB0 : B.colptr.getD 0 0 = 0)
    (hm : A.m = B.m) (hn : A.n = B.n) (hcol : ∀ j, j < A.n → A.col j = B.col j) : A = B := by
  rw [← ofCols_cols_self A hA hA0, ← ofCols_cols_self B hB hB0, hm, hn]
  congr 1
  unfold cols
  rw [hn]
  apply List.map_congr_left
  intro j hj
  exact hcol j (by rw [hn]; exact List.mem_range.mp hj)

/-! ### `new` and `spalloc` -/

theorem new_ok (m n : Nat) (colptr rowval : Array Nat) (nzval : Array α)
    (h1 : rowval.size = nzval.size) (h2 : colptr.size = n + 1) (h3 : colptr.getD n 0 = rowval.size) :
    Csc.new m n colptr rowval nzval = .ok ⟨m, n, colptr, rowval, nzval⟩ := by
  unfold Csc.new
  have hn : n < colptr.size := by omega
  rw [Array.getD_eq_getD_getElem?, Array.getElem?_eq_getElem hn] at h3
  simp only [Option.getD_some] at h3
  simp [h1, h2, Array.getElem?_eq_getElem hn, h3]
  rfl

theorem new_panics (m n : Nat) (colptr rowval : Array Nat) (nzval : Array α)
    (h : ¬ (rowval.size = nzval.size ∧ colptr.size = n + 1 ∧ colptr.getD n 0 = rowval.size)) :
    ∃ s, Csc.new m n colptr rowval nzval = .error (.panic s) := by
  unfold Csc.new
  by_cases h1 : rowval.size = nzval.size
  · by_cases h2 : colptr.size = n + 1
    · have hn : n < colptr.size := by omega
      have h3 : ¬ colptr[n] = rowval.size := by
        intro h3
        apply h
        refine ⟨h1, h2, ?_⟩
        rw [Array.getD_eq_getD_getElem?, Array.getElem?_eq_getElem hn]
        simpa using h3
      have h3' : ¬ colptr[n] = nzval.size := by rw [← h1]; exact h3
      exact ⟨_, by simp [h1, h2, Array.getElem?_eq_getElem hn, h3']; rfl⟩
    · exact ⟨_, by simp [h1, h2]; rfl⟩
  · exact ⟨_, by simp [h1]; rfl⟩

theorem spalloc_colptr_getD [OfNat α 0] (m n nnz k : Nat) :
    (spalloc m n nnz : Csc α).colptr.getD k 0 = if k = n then nnz else 0 := by
  simp only [spalloc, Array.getD_eq_getD_getElem?, Array.getElem?_push, Array.size_replicate]
  by_cases hk : k = n
  · simp [hk]
  · simp only [hk, ↓reduceIte]
    by_cases hk2 : k < n
    · simp [Array.getElem?_replicate, hk2]
    · simp [Array.getElem?_replicate, hk2]

theorem spalloc_checkDimensions [OfNat α 0] (m n nnz : Nat) (h : 0 < n ∨ nnz = 0) :
    (spalloc m n nnz : Csc α).checkDimensions = .ok () := by
  have hmono : anyAdjacent (fun a b => decide (a > b)) (spalloc m n nnz : Csc α).colptr.toList = false := by
    rw [anyAdjacent_false_iff, noBadAdjacent_iff_getElem]
    intro k hk
    have hsz : (spalloc m n nnz : Csc α).colptr.size = n + 1 := by simp [spalloc]
    simp only [Array.length_toList] at hk
    rw [toList_getElem_eq_getD _ k (by omega), toList_getElem_eq_getD _ (k + 1) hk,
      spalloc_colptr_getD, spalloc_colptr_getD]
    have : k ≠ n := by omega
    simp [this]
  have h0 : (spalloc m n nnz : Csc α).colptr.getD 0 0 = 0 := by
    rw [spalloc_colptr_getD]
    rcases h with h | h
    · rw [if_neg (by omega)]
    · split_ifs <;> simp [h]
  unfold checkDimensions
  rw [hmono, h0]
  have h3 := spalloc_colptr_getD (α := α) m n nnz n
  simp only [↓reduceIte] at h3
  have hn : (spalloc m n nnz : Csc α).n = n := rfl
  rw [hn, h3]
  simp [spalloc]

/-- `spalloc(m, 0, nnz)` with `nnz > 0` has `colptr = [nnz]`: it does not start at 0 -/
theorem spalloc_zero_cols_shifted [OfNat α 0] (m nnz : Nat) (h : 0 < nnz) :
    (spalloc m 0 nnz : Csc α).checkDimensions = .error .badColptr := by
  apply checkDimensions_shifted
  · exact ⟨by simp [spalloc], by simp [spalloc], by rw [spalloc_colptr_getD]; simp [spalloc]⟩
  · rw [spalloc_colptr_getD]; simp; omega

/-! ### encodings whose `colptr` does not start at 0: the storage-order entry list is an
orphan prefix (entries below `colptr[0]`, owned by no column) followed by the columns -/

theorem take_drop_append_drop {β : Type} (T : List β) (a b : Nat) (hab : a ≤ b) :
    (T.take b).drop a ++ T.drop b = T.drop a := by
  conv_rhs => rw [← List.take_append_drop (b - a) (T.drop a)]
  rw [List.drop_drop, List.drop_take]
  congr 2
  omega

theorem flatten_slices_from {β : Type} (l : List β) (p : Nat → Nat) (k : Nat)
    (hmono : ∀ j, j < k → p j ≤ p (j + 1)) :
    ((List.range k).map (fun j => (l.take (p (j + 1))).drop (p j))).flatten =
      (l.take (p k)).drop (p 0) := by
  induction k with
  | zero => simp
  | succ k ih =>
    rw [List.range_succ, List.map_append, List.flatten_append,
      ih (fun j hj => hmono j (by omega))]
    simp only [List.map_cons, List.map_nil, List.flatten_cons, List.flatten_nil, List.append_nil]
    have hle := hmono k (by omega)
    have h0k : p 0 ≤ p k := by
      clear ih hle
      induction k with
      | zero => exact le_refl _
      | succ k ih2 =>
        exact le_trans (ih2 (fun j hj => hmono j (by omega))) (hmono k (by omega))
    have e : l.take (p k) = (l.take (p (k + 1))).take (p k) := by
      rw [List.take_take, Nat.min_eq_left hle]
    rw [e]
    exact take_drop_append_drop _ _ _ h0k

/-- the entries stored below `colptr[0]` -/
def orphans (M : Csc α) : List (Nat × α) := M.entries.take (M.colptr.getD 0 0)

theorem colptr_mono_of_canonical (M : Csc α) (hM : Canonical M) :
    ∀ j, j < M.n → M.colptr.getD j 0 ≤ M.colptr.getD (j + 1) 0 := by
  intro j hj
  have := (noBadAdjacent_iff_getElem _ _).mp hM.colptr_mono j
    (by simp [hM.colptr_size]; omega)
  have hs := hM.colptr_size
  rw [toList_getElem_eq_getD _ j (by omega), toList_getElem_eq_getD _ (j + 1) (by omega)] at this
  omega

theorem entries_eq_orphans_append (M : Csc α) (hM : Canonical M) :
    M.entries = M.orphans ++ M.cols.flatten := by
  unfold cols orphans
  have := flatten_slices_from M.entries (fun j => M.colptr.getD j 0) M.n
    (colptr_mono_of_canonical M hM)
  simp only [← col_eq_slice] at this
  rw [this, hM.colptr_last, List.take_of_length_le (l := M.entries) (i := M.rowval.size)
    (by simp [entries, hM.len_eq]), List.take_append_drop]

theorem orphans_eq_nil (M : Csc α) (h0 : M.colptr.getD 0 0 = 0) : M.orphans = [] := by
  unfold orphans; rw [h0]; rfl

/-! ### `findnz` -/

theorem zip_flatten_map {β γ : Type} (L : List Nat) (f : Nat → List β) (g : Nat → List γ)
    (h : ∀ c ∈ L, (f c).length = (g c).length) :
    ((L.map f).flatten).zip ((L.map g).flatten) = (L.map (fun c => (f c).zip (g c))).flatten := by
  induction L with
  | nil => rfl
  | cons c t ih =>
    simp only [List.map_cons, List.flatten_cons]
    rw [List.zip_append (h c (by simp)), ih (fun c' hc' => h c' (List.mem_cons_of_mem _ hc'))]

theorem zip_replicate_length {β : Type} (l : List β) (c : Nat) :
    l.zip (List.replicate l.length c) = l.map (fun e => (e, c)) := by
  induction l with
  | nil => rfl
  | cons a t ih => simp [List.replicate_succ, ih]

theorem zip3_reassoc {β γ δ : Type} (I : List β) (J : List γ) (V : List δ) :
    I.zip (J.zip V) = ((I.zip V).zip J).map (fun p => (p.1.1, p.2, p.1.2)) := by
  induction I generalizing J V with
  | nil => simp
  | cons a t ih =>
    cases J with
    | nil => simp
    | cons b J' =>
      cases V with
      | nil => simp
      | cons c V' => simp [ih]

/-- the column index list of `findnz` -/
theorem findnz_J (M : Csc α) (hM : Canonical M) :
    M.findnz.2.1.toList =
      ((List.range M.n).map (fun c => List.replicate (M.col c).length c)).flatten := by
  unfold findnz
  simp only [List.toList_toArray]
  congr 1
  apply List.map_congr_left
  intro c hc
  rw [col_length M hM c (List.mem_range.mp hc)]

/-- the stored entries of the columns, paired with `findnz`'s column indices, are the
column-major listing `(entry, column)` -/
theorem cols_zip_findnz_J (M : Csc α) (hM : Canonical M) :
    M.cols.flatten.zip M.findnz.2.1.toList =
      ((List.range M.n).map (fun c => (M.col c).map (fun e => (e, c)))).flatten := by
  rw [findnz_J M hM]
  unfold cols
  rw [zip_flatten_map _ _ _ (fun c _ => by simp)]
  congr 1
  apply List.map_congr_left
  intro c _
  exact zip_replicate_length _ c

theorem findnz_J_length (M : Csc α) (hM : Canonical M) :
    M.findnz.2.1.size + M.colptr.getD 0 0 = M.rowval.size := by
  have h1 : M.findnz.2.1.toList.length = M.cols.flatten.length := by
    rw [findnz_J M hM]
    simp [cols, List.length_flatten, Function.comp_def]
  have h2 := congrArg List.length (entries_eq_orphans_append M hM)
  have hle : M.colptr.getD 0 0 ≤ M.rowval.size := by
    rw [← hM.colptr_last]
    have hmono := colptr_mono_of_canonical M hM
    have : ∀ k, k ≤ M.n → M.colptr.getD 0 0 ≤ M.colptr.getD k 0 := by
      intro k hk
      induction k with
      | zero => exact le_refl _
      | succ k ih => exact le_trans (ih (by omega)) (hmono k (by omega))
    exact this M.n (le_refl _)
  simp only [List.length_append, orphans, List.length_take, entries, List.length_zip,
    Array.length_toList, ← hM.len_eq, Nat.min_self] at h2
  simp only [Array.length_toList] at h1
  omega

/-- for a canonical matrix starting at 0, `findnz` lists the triples `(row, col, val)` in
column-major storage order -/
theorem findnz_triples (M : Csc α) (hM : Canonical M) (h0 : M.colptr.getD 0 0 = 0) :
    M.findnz.1.toList.zip (M.findnz.2.1.toList.zip M.findnz.2.2.toList) =
      ((List.range M.n).map (fun c => (M.col c).map (fun e => (e.1, c, e.2)))).flatten := by
  rw [zip3_reassoc]
  have he : M.findnz.1.toList.zip M.findnz.2.2.toList = M.cols.flatten := by
    have := entries_eq_orphans_append M hM
    rw [orphans_eq_nil M h0, List.nil_append] at this
    rw [← this]; rfl
  rw [he, cols_zip_findnz_J M hM, List.map_flatten, List.map_map]
  congr 1
  apply List.map_congr_left
  intro c _
  simp [Function.comp_def]

theorem filter_col_triples (M : Csc α) (c : Nat) (hc : c < M.n) :
    ((((List.range M.n).map (fun c' => (M.col c').map (fun e => (e.1, c', e.2)))).flatten).filter
      (fun t => t.2.1 == c)).map (fun t => (t.1, t.2.2)) = M.col c := by
  rw [List.filter_flatten, List.map_map, List.map_flatten, List.map_map,
    flatten_map_range_single M.n c _ hc]
  · simp only [Function.comp_def, List.filter_map, List.map_map]
    rw [List.filter_eq_self.mpr (by intro a _; simp)]
    simp
  · intro k _ hkc
    simp only [Function.comp_def, List.filter_map, List.map_map]
    rw [List.filter_eq_nil_iff.mpr (by intro a _; simpa using hkc)]
    rfl

/-- `new_from_triplets ∘ findnz` is the identity on canonical matrices (starting at 0) -/
theorem newFromTriplets_findnz [Add α] (M : Csc α) (hM : Canonical M)
    (h0 : M.colptr.getD 0 0 = 0) :
    newFromTriplets M.m M.n M.findnz.1 M.findnz.2.1 M.findnz.2.2 = .ok M := by
  have hJlen := findnz_J_length M hM
  rw [h0, Nat.add_zero] at hJlen
  have hJ : (M.findnz.2.1.toList.any (fun c => decide (c > M.n))) = false := by
    rw [List.any_eq_false]
    intro c hc
    rw [findnz_J M hM] at hc
    simp only [List.mem_flatten, List.mem_map, List.mem_range] at hc
    obtain ⟨_, ⟨c', hc', rfl⟩, hmem⟩ := hc
    have := List.eq_of_mem_replicate hmem
    simp; omega
  have hI : M.findnz.1 = M.rowval := rfl
  have hV : M.findnz.2.2 = M.nzval := rfl
  unfold newFromTriplets
  rw [hJ, findnz_triples M hM h0]
  simp only [hI, hV, hJlen, hM.len_eq, bne_self_eq_false, Bool.or_self, Bool.false_eq_true,
    ↓reduceIte]
  have hcols : (List.range M.n).map (fun c => dedupeRows (sortByRow
      (((((List.range M.n).map (fun c' => (M.col c').map (fun e => (e.1, c', e.2)))).flatten).filter
        (fun t => t.2.1 == c)).map (fun t => (t.1, t.2.2))))) = M.cols := by
    unfold cols
    apply List.map_congr_left
    intro c hc
    have hc' := List.mem_range.mp hc
    rw [filter_col_triples M c hc', sortByRow_of_sorted _ (colOK_of_canonical hM c hc').1,
      dedupeRows_of_sorted _ (colOK_of_canonical hM c hc').1]
  show Except.ok (ofCols M.m M.n _) = Except.ok M
  rw [hcols, ofCols_cols_self M hM h0]

/-! ### row-wise reductions and `index_to_coord` without `colptr[0] = 0` -/

theorem rowSums_general [AddCommMonoid α] (M : Csc α) (sums : Array α) (hM : Canonical M)
    (hs : sums.size = M.m) :
    ∃ v, M.rowSums sums = .ok v ∧ v.size = M.m ∧
      ∀ i, i < M.m → v[i]? =
        some ((colVals M.orphans i).sum + ∑ j ∈ Finset.range M.n, M.toDense i j) := by
  have hb : ∀ e ∈ M.entries, e.1 < (sums.map (fun _ => (0 : α))).size := by
    intro e he
    simp only [Array.size_map, hs]
    exact hM.rows_bound _ (List.of_mem_zip he).1
  obtain ⟨v, h1, h2, h3⟩ := scatter_spec (fun s v => s + v) (sums.map (fun _ => (0 : α))) M.entries hb
  refine ⟨v, by unfold rowSums; simp only [hs, bne_self_eq_false, Bool.false_eq_true, ↓reduceIte]; exact h1,
    by simpa [hs] using h2, fun i hi => ?_⟩
  rw [h3 i (by simpa [hs] using hi)]
  have hi' : i < sums.size := by omega
  simp only [Array.getElem?_map, Array.getElem?_eq_getElem hi', Option.map_some]
  rw [foldl_add_eq, zero_add, entries_eq_orphans_append M hM, colVals_append, List.sum_append,
    colVals_flatten, List.sum_flatten]
  unfold cols
  rw [List.map_map, List.map_map, list_sum_range_eq]
  congr 2
  apply Finset.sum_congr rfl
  intro j _
  simp only [Function.comp, toDense_eq_sum_colVals]

theorem rowNormsNoReset_general [Field α] [LinearOrder α] [IsStrictOrderedRing α] [FloatLike α]
    [LawfulFloatLike α] (M : Csc α) (norms : Array α) (hM : Canonical M) (hs : norms.size = M.m) :
    ∃ v, M.rowNormsNoReset norms = .ok v ∧ v.size = M.m ∧
      ∀ i, i < M.m → ∃ r, v[i]? = some r ∧
        IsMaxOf r (norms.getD i 0)
          (((M.orphans ++ M.cols.flatten).filter (fun e => e.1 == i)).map (fun e => |e.2|)) := by
  have hb : ∀ e ∈ M.entries.map (fun e => (e.1, fabs e.2)), e.1 < norms.size := by
    intro e he
    simp only [List.mem_map] at he
    obtain ⟨e', he', rfl⟩ := he
    rw [hs]
    exact hM.rows_bound _ (List.of_mem_zip he').1
  obtain ⟨v, h1, h2, h3⟩ := scatter_spec (fun m t => fmax m t) norms
    (M.entries.map (fun e => (e.1, fabs e.2))) hb
  have hback : M.colptr.back? = some M.rowval.size := by
    have hsz := hM.colptr_size
    have hlast := hM.colptr_last
    rw [Array.getD_eq_getD_getElem?, Array.getElem?_eq_getElem (by omega)] at hlast
    rw [Array.back?_eq_getElem?, hsz, Nat.add_sub_cancel, Array.getElem?_eq_getElem (by omega)]
    simpa using hlast
  refine ⟨v, ?_, by rw [h2, hs], fun i hi => ?_⟩
  · unfold rowNormsNoReset
    rw [hback]
    simp only [bne_self_eq_false, Bool.false_eq_true, ↓reduceIte]
    exact h1
  · have hi' : i < norms.size := by omega
    refine ⟨_, by rw [h3 i hi', Array.getElem?_eq_getElem hi', Option.map_some], ?_⟩
    have hget : norms[i] = norms.getD i 0 := by
      rw [Array.getD_eq_getD_getElem?, Array.getElem?_eq_getElem hi']; rfl
    rw [hget, colVals_map_val M.entries (fun v => fabs v) i, entries_eq_orphans_append M hM]
    have : (fun (m t : α) => fmax m t) = (fun m a => max m a) := by
      funext m t; exact LawfulFloatLike.fmax_eq m t
    rw [this]
    have h4 : (colVals (M.orphans ++ M.cols.flatten) i).map (fun v => fabs v)
        = ((M.orphans ++ M.cols.flatten).filter (fun e => e.1 == i)).map (fun e => |e.2|) := by
      unfold colVals
      rw [List.map_map]
      apply List.map_congr_left
      intro e _
      exact LawfulFloatLike.fabs_eq e.2
    rw [h4]
    exact foldl_max_isMaxOf _ _

/-- `index_to_coord` for an index at or beyond `colptr[0]` (always the case when
`colptr[0] = 0`) -/
theorem indexToCoord_general (M : Csc α) (idx : Nat) (hM : Canonical M)
    (h0 : M.colptr.getD 0 0 ≤ idx) (hidx : idx < M.nnz) :
    ∃ row col, M.indexToCoord idx = .ok (row, col) ∧ M.rowval[idx]? = some row ∧ col < M.n ∧
      M.colptr.getD col 0 ≤ idx ∧ idx < M.colptr.getD (col + 1) 0 := by
  have hs := hM.colptr_size
  have hnnz : M.nnz = M.rowval.size := hM.colptr_last
  have hidx' : idx < M.rowval.size := by omega
  obtain ⟨hp1, hp2⟩ := takeWhile_length_spec M.colptr.toList (fun c => decide (idx + 1 > c))
  set pp := (M.colptr.toList.takeWhile (fun c => decide (idx + 1 > c))).length with hpp
  have hlen : M.colptr.toList.length = M.n + 1 := by simp [hs]
  have hpp_le : pp ≤ M.n + 1 := by
    rw [← hlen]; exact (List.takeWhile_prefix _).length_le
  have hpp_pos : 1 ≤ pp := by
    by_contra hc
    have hz : pp = 0 := by omega
    have := hp2 (by rw [hz, hlen]; omega)
    rw [toList_getElem_eq_getD _ pp (by omega), hz] at this
    simp only [decide_eq_false_iff_not] at this
    omega
  have hpp_n : pp ≤ M.n := by
    by_contra hc
    have hz : M.n < pp := by omega
    have := hp1 M.n (by rw [hlen]; omega) hz
    rw [toList_getElem_eq_getD _ M.n (by omega)] at this
    simp only [decide_eq_true_eq] at this
    unfold nnz at hidx
    omega
  refine ⟨M.rowval[idx], pp - 1, ?_, Array.getElem?_eq_getElem hidx', by omega, ?_, ?_⟩
  · unfold indexToCoord
    simp only [hidx, decide_true, Bool.not_true, Bool.false_eq_true, ↓reduceIte,
      Array.getElem?_eq_getElem hidx']
    rfl
  · have := hp1 (pp - 1) (by rw [hlen]; omega) (by omega)
    rw [toList_getElem_eq_getD _ (pp - 1) (by omega)] at this
    simp only [decide_eq_true_eq] at this
    omega
  · have := hp2 (by rw [hlen]; omega)
    rw [toList_getElem_eq_getD _ pp (by omega)] at this
    simp only [decide_eq_false_iff_not] at this
    have e : pp - 1 + 1 = pp := by omega
    rw [e]
    omega

/-- an index below `colptr[0]` belongs to no column; the model answers column 0 there (the
Rust expression `partition_point(..) - 1` underflows: panic in a debug build, `usize::MAX`
in a release build) -/
theorem indexToCoord_orphan (M : Csc α) (idx : Nat) (hM : Canonical M)
    (h0 : idx < M.colptr.getD 0 0) :
    (∃ row, M.indexToCoord idx = .ok (row, 0)) ∧
    ¬ ∃ col, col < M.n ∧ M.colptr.getD col 0 ≤ idx ∧ idx < M.colptr.getD (col + 1) 0 := by
  have hs := hM.colptr_size
  have hmono := colptr_mono_of_canonical M hM
  have hge : ∀ k, k ≤ M.n → M.colptr.getD 0 0 ≤ M.colptr.getD k 0 := by
    intro k hk
    induction k with
    | zero => exact le_refl _
    | succ k ih => exact le_trans (ih (by omega)) (hmono k (by omega))
  have hidx : idx < M.nnz := by
    unfold nnz
    have := hge M.n (le_refl _)
    omega
  have hidx' : idx < M.rowval.size := by
    have : M.nnz = M.rowval.size := hM.colptr_last
    omega
  refine ⟨⟨M.rowval[idx], ?_⟩, ?_⟩
  · have htw : M.colptr.toList.takeWhile (fun c => decide (idx + 1 > c)) = [] := by
      have hne : M.colptr.toList ≠ [] := by
        intro h
        have := congrArg List.length h
        simp [hs] at this
      obtain ⟨a, t, hat⟩ := List.exists_cons_of_ne_nil hne
      have ha : a = M.colptr.getD 0 0 := by
        have := toList_getElem_eq_getD M.colptr 0 (by omega)
        simp only [hat, List.getElem_cons_zero] at this
        exact this
      rw [hat, List.takeWhile_cons]
      have : decide (idx + 1 > a) = false := by
        rw [ha]; exact decide_eq_false (by omega)
      rw [this]; rfl
    unfold indexToCoord
    simp only [hidx, decide_true, Bool.not_true, Bool.false_eq_true, ↓reduceIte,
      Array.getElem?_eq_getElem hidx', htw, List.length_nil]
    rfl
  · rintro ⟨col, hc, h1, _⟩
    have := hge col (by omega)
    omega

end Clarabel.Csc
