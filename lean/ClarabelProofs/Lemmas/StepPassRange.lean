/-
  C06, round 9 — the ranges of the step length `α` and the centring parameter `σ` of an accepted pass
  of the whole-solver model from an interior iterate (zero / nonnegative / second-order cones, ℝ):

    `0 < α ≤ max_step_fraction < 1`,  `0 ≤ α_aff ≤ 1`,  `0 ≤ σ = (1 − α_aff)³ ≤ 1`,

  hence the contraction factor `1 − α(1−σ)` of `pass_residual_contraction` lies in `(0, 1]`.

  * `calcStepLength_affine_inv`, `affine_step_range` : `calc_step_length(Affine)` from an interior
    iterate returns a value in `[0, α_max] ⊆ [0, 1]` (C07's `StepK.coneStep_interior`).
  * `combined_step_range` : `calc_step_length(Combined)` returns a value in `[0, max_step_fraction]`
    (C07's `StepK.interior_step` through `Bridge.calcStepLength_stepK`).
  * `pass_alpha_sigma_range` : one accepted pass.
  * `solvePass_factor_range` : every accepted pass of a `solve()`.
  * `solve_factors_range`    : the product of the factors of the records before any record of a
    `solve()` lies in `(0, 1]`.
-/
import ClarabelProofs.Lemmas.StepPassTraj
import Mathlib.Tactic.Linarith
import Mathlib.Tactic.Positivity

namespace Clarabel.Solver
open Clarabel Clarabel.Lemmas Residuals

set_option linter.unusedVariables false

/-- the shape of the model's `calc_step_length(Affine)` -/
theorem calcStepLength_affine_inv {v d : Vars ℝ} {cs : List (ConeSt ℝ)} {mv msf a : ℝ}
    (h : calcStepLength v d cs mv msf .affine = .ok a) :
    ∃ fns r, stepFns cs d.z d.s v.z v.s = .ok fns ∧
      Composite.stepLength fns msf (Loop.Step.alphaMax v.τ v.κ d.τ d.κ mv) = .ok r ∧
      a = min r.1 r.2 := by
  unfold calcStepLength at h
  dsimp only at h
  obtain ⟨⟨az, as⟩, h1, h⟩ := bind_ok_inv h
  unfold stepLength at h1
  obtain ⟨fns, hf, h1⟩ := bind_ok_inv h1
  refine ⟨fns, (az, as), hf, h1, ?_⟩
  simp only [pure, Except.pure, Except.ok.injEq] at h
  rw [← h]
  rfl

/-- `calc_step_length(Affine)` from an interior iterate returns a value in `[0, 1]` -/
theorem affine_step_range {cs : List (ConeSt ℝ)} {v d : Vars ℝ} {mv msf a : ℝ}
    (h0 : 0 < msf) (h1 : msf < 1) (hm : 0 < mv)
    (hI : Interior (cs.map ConeSt.compSpec) v) (hdz : d.z.size = v.z.size) (hds : d.s.size = v.s.size)
    (ha : calcStepLength v d cs mv msf .affine = .ok a) : 0 ≤ a ∧ a ≤ 1 := by
  obtain ⟨hτ, hκ, hzs, hss, hrows⟩ := hI
  obtain ⟨fns, r, hf, hr, hae⟩ := calcStepLength_affine_inv ha
  rw [Bridge.stepFns_eq Bridge.lsDummy hf] at hr
  have hB := (Bridge.mkBlks_interior_iff cs v.z.toList v.s.toList d.z.toList d.s.toList).mpr hrows
  have hD := Bridge.mkBlks_dirOk cs v.z.toList v.s.toList d.z.toList d.s.toList
    (by simpa using hdz) (by simpa using hds)
  obtain ⟨hp, hle1, -, -⟩ := Loop.Step.alphaMax_bounds v.τ v.κ d.τ d.κ mv hτ hκ hm
  obtain ⟨e, g0, g1, -, -⟩ := StepK.coneStep_interior Bridge.lsDummy (by norm_num [Bridge.lsDummy])
    (by norm_num [Bridge.lsDummy]) _ hB hD msf _ h0 h1 (le_of_lt hp) r hr
  rw [hae, ← e, min_self]
  exact ⟨g0, le_trans g1 hle1⟩

/-- `calc_step_length(Combined)` from an interior iterate returns a value in
`[0, max_step_fraction]` -/
theorem combined_step_range {cs : List (ConeSt ℝ)} {v d : Vars ℝ} {mv msf a : ℝ}
    (h0 : 0 < msf) (h1 : msf < 1) (hm : 0 < mv)
    (hI : Interior (cs.map ConeSt.compSpec) v) (hdz : d.z.size = v.z.size) (hds : d.s.size = v.s.size)
    (ha : calcStepLength v d cs mv msf .combined = .ok a) : 0 ≤ a ∧ a ≤ msf := by
  obtain ⟨hτ, hκ, hzs, hss, hrows⟩ := hI
  have hPI : (Bridge.ptOf cs v d).Interior :=
    ⟨hτ, hκ, (Bridge.mkBlks_interior_iff cs _ _ _ _).mpr hrows⟩
  have hPD : (Bridge.ptOf cs v d).DirOk :=
    Bridge.mkBlks_dirOk cs _ _ _ _ (by simpa using hdz) (by simpa using hds)
  obtain ⟨g0, g1, g2, -, -⟩ := StepK.interior_step mv Bridge.lsDummy (by norm_num [Bridge.lsDummy])
    (by norm_num [Bridge.lsDummy]) hm (Bridge.ptOf cs v d) hPI hPD msf a h0 h1
    (Bridge.calcStepLength_stepK ha)
  refine ⟨g0, le_trans g1 ?_⟩
  calc msf * _ ≤ msf * 1 := mul_le_mul_of_nonneg_left g2 (le_of_lt h0)
    _ = msf := mul_one _

/-- `σ = (1 − a)³ ∈ [0, 1]` for `a ∈ [0, 1]` -/
theorem centeringParameter_range {a : ℝ} (h0 : 0 ≤ a) (h1 : a ≤ 1) :
    0 ≤ Step.centeringParameter a ∧ Step.centeringParameter a ≤ 1 := by
  have e : Step.centeringParameter a = (1 - a) ^ 3 := by unfold Step.centeringParameter; ring
  rw [e]
  have ha : 0 ≤ 1 - a := by linarith
  have hb : 1 - a ≤ 1 := by linarith
  exact ⟨by positivity, pow_le_one₀ ha hb⟩

/-- **the step length and centring parameter of an accepted pass from an interior iterate**:
`0 < α ≤ max_step_fraction`, `0 ≤ σ ≤ 1`, hence `0 < 1 − α(1−σ) ≤ 1` -/
theorem pass_alpha_sigma_range {st : Settings ℝ} {L L' : LoopSt ℝ} {n m : ℕ} (hS : PassShape L.S n m)
    (hp : pass st L = .ok (true, L')) (h0 : 0 < st.maxStepFraction) (h1 : st.maxStepFraction < 1)
    (hm : 0 < st.maxValue) (hI : Interior (L.S.cones.map ConeSt.compSpec) L.S.variables) :
    0 < L'.alpha ∧ L'.alpha ≤ st.maxStepFraction ∧ 0 ≤ L'.sigma ∧ L'.sigma ≤ 1
      ∧ 0 < 1 - L'.alpha * (1 - L'.sigma) ∧ 1 - L'.alpha * (1 - L'.sigma) ≤ 1 := by
  obtain ⟨res', ys, an⟩ := pass_step_anatomy hS hp
  obtain ⟨res, info1, kk1, kk2, rhsA, lhsA, lhsA', aAff, htop, hscale, hupd, hrA, hsA, haA, hσ, hrC, hsC⟩ :=
    pass_mu_inv hp
  obtain ⟨r, hr, -, ck, -⟩ := updateScaling_ok (cones := L.S.cones) (s := L.S.variables.s)
    (z := L.S.variables.z) hS.cones (by rw [hS.numel]; exact hS.vs) (by rw [hS.numel]; exact hS.vz)
  rw [hscale] at hr
  cases hr
  have ck : L'.S.cones.map ConeSt.kktSpec = L.S.cones.map ConeSt.kktSpec := ck
  have hI' : Interior (L'.S.cones.map ConeSt.compSpec) L.S.variables := by
    rw [compSpec_of_kktSpec _ _ ck]; exact hI
  obtain ⟨ha, hsmall, hadd⟩ := pass_step_calls hp
  -- the combined step length
  obtain ⟨c0, c1⟩ := combined_step_range h0 h1 hm hI' (by rw [an.lhs_z, hS.vz]) (by rw [an.lhs_s, hS.vs]) ha
  have hapos : 0 < L'.alpha := by
    have h' : ¬ L'.alpha ≤ max 0 st.minTerminateStepLength := hsmall
    have : (0 : ℝ) ≤ max 0 st.minTerminateStepLength := le_max_left _ _
    linarith [lt_of_not_ge h']
  -- the affine step length
  obtain ⟨_, r1, r2, _⟩ := topNumerics_dense L.S L.iter n m res L'.mu info1
    hS.canP hS.canA hS.Pn hS.Pm hS.An hS.Am hS.q hS.b hS.vx hS.vs hS.vz hS.rPx hS.rrx hS.rrz hS.rrxi
    hS.rrzi htop
  obtain ⟨ax, az, aτ, aκ, hads, _, _⟩ := affineStepRhs_inv hrA
  obtain ⟨s1, s2, s3, s4, s5, s6, s7, s8, s9⟩ := KktSys.solve_sizes hsA hS.vx hS.lx hS.lz
    (by rw [az]; exact r2)
  obtain ⟨a0, a1⟩ := affine_step_range h0 h1 hm hI' (by rw [s8, hS.vz]) (by rw [s9, hS.vs]) haA
  obtain ⟨g0, g1⟩ := centeringParameter_range a0 a1
  rw [← hσ] at g0 g1
  have hprod0 : 0 ≤ L'.alpha * (1 - L'.sigma) := mul_nonneg (le_of_lt hapos) (by linarith)
  have hprod1 : L'.alpha * (1 - L'.sigma) ≤ st.maxStepFraction := by
    calc L'.alpha * (1 - L'.sigma) ≤ L'.alpha * 1 :=
          mul_le_mul_of_nonneg_left (by linarith) (le_of_lt hapos)
      _ = L'.alpha := mul_one _
      _ ≤ st.maxStepFraction := c1
  exact ⟨hapos, c1, g0, g1, by linarith, by linarith⟩

/-- **the factor of every accepted pass of a `solve()` lies in `(0, 1]`** -/
theorem solvePass_factor_range {S : Solver ℝ} {st : Settings ℝ} (hI : SolverInvQ S)
    (h0 : 0 < st.maxStepFraction) (h1 : st.maxStepFraction < 1) (hm : 0 < st.maxValue)
    {L L' : LoopSt ℝ} (hp : SolvePass S st L L') :
    0 < L'.alpha ∧ L'.alpha ≤ st.maxStepFraction ∧ 0 ≤ L'.sigma ∧ L'.sigma ≤ 1
      ∧ 0 < 1 - L'.alpha * (1 - L'.sigma) ∧ 1 - L'.alpha * (1 - L'.sigma) ≤ 1 := by
  obtain ⟨S0, hds, hR, hpass⟩ := hp
  have hT := reach_trajInv hI h0 h1 hm hds hR
  exact pass_alpha_sigma_range hT.shape hpass h0 h1 hm hT.interior

/-- **the product of the contraction factors of the records before any record of a `solve()` lies
in `(0, 1]`** (every one of these records was written by an accepted pass) -/
theorem solve_factors_range {S : Solver ℝ} {st : Settings ℝ} {r : SolveResult ℝ} (hI : SolverInvQ S)
    (hr : S.solve st = .ok r) (h0 : 0 < st.maxStepFraction) (h1 : st.maxStepFraction < 1)
    (hm : 0 < st.maxValue) (k : ℕ) (hk : k < r.traj.length) :
    0 < ((r.traj.take k).map passFactor).prod ∧ ((r.traj.take k).map passFactor).prod ≤ 1 := by
  induction k with
  | zero => simp
  | succ j ih =>
    obtain ⟨i0, i1⟩ := ih (by omega)
    have hj : j < r.traj.length := by omega
    obtain ⟨S0, L, hds, hR, e1, e2, -, -, hnext⟩ :=
      solve_record hr j r.traj[j] (List.getElem?_eq_getElem hj)
    obtain ⟨L', p', hsp, a1, a2, -⟩ := hnext hk
    obtain ⟨-, -, -, -, f0, f1⟩ := solvePass_factor_range hI h0 h1 hm hsp
    have hf : passFactor r.traj[j] = 1 - L'.alpha * (1 - L'.sigma) := by
      unfold passFactor; rw [a1, a2]; rfl
    rw [List.take_add_one, List.getElem?_eq_getElem hj, Option.toList_some, List.map_append,
      List.prod_append, List.map_singleton, List.prod_singleton, hf]
    exact ⟨mul_pos i0 f0, mul_le_one₀ i1 (le_of_lt f0) f1⟩

end Clarabel.Solver
