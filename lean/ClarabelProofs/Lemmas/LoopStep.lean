/-
  Step-length lemmas over an ordered field (helper lemmas for C07, class [F]).
-/
import ClarabelModel.Loop
import ClarabelProofs.Lemmas.ScalarInst

namespace Clarabel.Loop.Step

variable {α : Type} [Field α] [LinearOrder α] [IsStrictOrderedRing α] [FloatLike α] [LawfulFloatLike α]

theorem ratio_pos (v dv maxValue : α) (hv : 0 < v) (hm : 0 < maxValue) : 0 < ratio v dv maxValue := by
  unfold ratio
  split
  · rename_i h
    exact div_pos_of_neg_of_neg (by linarith) h
  · exact hm

/-- a step no longer than `f·ratio` with `f < 1` keeps the scalar positive -/
theorem scalar_pos (v dv maxValue a f : α) (hv : 0 < v) (ha0 : 0 ≤ a) (hf1 : f < 1) (hf0 : 0 < f)
    (ha : a ≤ f * ratio v dv maxValue) : 0 < v + a * dv := by
  by_cases hd : dv < 0
  · unfold ratio at ha
    rw [if_pos hd] at ha
    -- a·(-dv) ≤ f·v < v
    have h1 : a * (-dv) ≤ f * ((-v) / dv) * (-dv) := by
      apply mul_le_mul_of_nonneg_right ha (by linarith)
    have hne : dv ≠ 0 := ne_of_lt hd
    have h2 : f * ((-v) / dv) * (-dv) = f * v := by
      field_simp
    rw [h2] at h1
    have h3 : f * v < v := by nlinarith
    nlinarith
  · have : 0 ≤ a * dv := mul_nonneg ha0 (by linarith [not_lt.mp hd])
    linarith

theorem alphaMax_bounds (tau kappa dtau dkappa maxValue : α) (hτ : 0 < tau) (hκ : 0 < kappa)
    (hm : 0 < maxValue) :
    0 < alphaMax tau kappa dtau dkappa maxValue ∧ alphaMax tau kappa dtau dkappa maxValue ≤ 1
      ∧ alphaMax tau kappa dtau dkappa maxValue ≤ ratio tau dtau maxValue
      ∧ alphaMax tau kappa dtau dkappa maxValue ≤ ratio kappa dkappa maxValue := by
  unfold alphaMax
  simp only [LawfulFloatLike.fmin_eq]
  have h1 := ratio_pos tau dtau maxValue hτ hm
  have h2 := ratio_pos kappa dkappa maxValue hκ hm
  refine ⟨?_, min_le_right _ _, ?_, ?_⟩
  · exact lt_min (lt_min h1 h2) one_pos
  · exact le_trans (min_le_left _ _) (min_le_left _ _)
  · exact le_trans (min_le_left _ _) (min_le_right _ _)

/-- the fold of `NonnegativeCone::step_length` with `fmin = min` -/
def nnG (a : α) (p : α × α) : α := if p.2 < 0 then min a ((-p.1) / p.2) else a

theorem nnFold_eq (l : List (α × α)) (amax : α) :
    l.foldl (fun a p => if p.2 < 0 then fmin a ((-p.1) / p.2) else a) amax = l.foldl nnG amax := by
  have : (fun (a : α) (p : α × α) => if p.2 < 0 then fmin a ((-p.1) / p.2) else a) = nnG := by
    funext a p
    simp [nnG, LawfulFloatLike.fmin_eq]
  rw [this]

/-- the nonnegative-cone step length never exceeds `αmax` nor any of the ratios -/
theorem nnFold_le (l : List (α × α)) (amax : α) :
    l.foldl nnG amax ≤ amax ∧ ∀ p ∈ l, p.2 < 0 → l.foldl nnG amax ≤ (-p.1) / p.2 := by
  induction l generalizing amax with
  | nil => simp
  | cons q t ih =>
    simp only [List.foldl_cons, List.mem_cons]
    by_cases hq : q.2 < 0
    · have e : nnG amax q = min amax ((-q.1) / q.2) := by simp [nnG, hq]
      rw [e]
      obtain ⟨h1, h2⟩ := ih (min amax ((-q.1) / q.2))
      refine ⟨le_trans h1 (min_le_left _ _), ?_⟩
      intro p hp hneg
      rcases hp with rfl | hp
      · exact le_trans h1 (min_le_right _ _)
      · exact h2 p hp hneg
    · have e : nnG amax q = amax := by simp [nnG, hq]
      rw [e]
      obtain ⟨h1, h2⟩ := ih amax
      refine ⟨h1, ?_⟩
      intro p hp hneg
      rcases hp with rfl | hp
      · exact absurd hneg hq
      · exact h2 p hp hneg

theorem nnFold_nonneg (l : List (α × α)) (amax : α) (ha : 0 ≤ amax) (hl : ∀ p ∈ l, 0 < p.1) :
    0 ≤ l.foldl nnG amax := by
  induction l generalizing amax with
  | nil => simpa using ha
  | cons q t ih =>
    simp only [List.foldl_cons]
    have hq1 : 0 < q.1 := hl q (by simp)
    have ht : ∀ p ∈ t, 0 < p.1 := fun p hp => hl p (by simp [hp])
    by_cases hq : q.2 < 0
    · have e : nnG amax q = min amax ((-q.1) / q.2) := by simp [nnG, hq]
      rw [e]
      exact ih _ (le_min ha (le_of_lt (div_pos_of_neg_of_neg (by linarith) hq))) ht
    · have e : nnG amax q = amax := by simp [nnG, hq]
      rw [e]
      exact ih _ ha ht

/-- contraction by `step ∈ (0,1]` keeps a step length in `(0, a]` -/
theorem backtrack_bounds (step : α) (ok : α → Bool) (hs0 : 0 < step) (hs1 : step ≤ 1) :
    ∀ (n : Nat) (a : α), 0 < a → 0 < backtrack step ok n a ∧ backtrack step ok n a ≤ a
  | 0, a, ha => ⟨ha, le_refl _⟩
  | n + 1, a, ha => by
    unfold backtrack
    split
    · exact ⟨ha, le_refl _⟩
    · have hpos : 0 < step * a := mul_pos hs0 ha
      obtain ⟨h1, h2⟩ := backtrack_bounds step ok hs0 hs1 n (step * a) hpos
      refine ⟨h1, le_trans h2 ?_⟩
      calc step * a ≤ 1 * a := mul_le_mul_of_nonneg_right hs1 (le_of_lt ha)
        _ = a := one_mul a

end Clarabel.Loop.Step
