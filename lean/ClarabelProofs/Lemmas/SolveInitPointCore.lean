/-
  `solve_initial_point` since /repo 7c1c881 = zero-fill `variables.x/s/z`, then the two (LP) / one (QP)
  KKT solves.  The part after the zero-fill (`solveInitialPointCore`, the whole function before the
  repair) is named here so that lemmas about it can be stated for an arbitrary incoming iterate;
  `solveInitialPoint_eq_core` ties it to the model definition by `rfl`.
-/
import ClarabelModel.Solver.KktSys

namespace Clarabel.Solver
open Clarabel Residuals
set_option linter.unusedSectionVars false

variable {α : Type}
variable [Add α] [Sub α] [Mul α] [Div α] [Neg α] [OfNat α 0] [OfNat α 1] [LT α] [DecidableLT α]
  [LE α] [DecidableLE α] [BEq α] [FloatLike α]

/-- `variables.x.fill(0); variables.s.fill(0); variables.z.fill(0)` -/
def zeroXSZ (vars : Vars α) : Vars α :=
  { vars with x := vars.x.map (fun _ => (0 : α)), s := vars.s.map (fun _ => (0 : α)),
              z := vars.z.map (fun _ => (0 : α)) }

/-- the body of `solve_initial_point` after the zero-fill -/
def KktSys.solveInitialPointCore (S : KktSys α) (vars : Vars α) (data : ProblemData α)
    (st : LinSettings α) : MErr (Bool × Vars α × KktSys α) := do
  if data.P.nnz == 0 then
    -- LP initialization: rhs [0; b] → (x, −s)
    let workx := S.workx.map (fun _ => (0 : α))
    let workz ← copyInto S.workz data.b "workz"
    let K ← S.kktsolver.setrhs workx workz
    let (ok, lx, lz, K) ← K.solve st
    let (x, s) ← if ok then do
        let x ← copyInto vars.x lx "variables.x"
        let s ← copyInto vars.s lz "variables.s"
        pure (x, s)
      else pure (vars.x, vars.s)
    let s := Vec.negate s
    let vars := { vars with x, s }
    let S := { S with workx, workz, kktsolver := K }
    if !ok then pure (false, vars, S) else
    -- rhs [−q; 0] → z
    let workx := Vec.scalaropFrom S.workx (fun q => -q) data.q
    let workz := S.workz.map (fun _ => (0 : α))
    let K ← S.kktsolver.setrhs workx workz
    let (ok, _, lz, K) ← K.solve st
    let z ← if ok then copyInto vars.z lz "variables.z" else pure vars.z
    pure (ok, { vars with z }, { S with workx, workz, kktsolver := K })
  else
    -- QP initialization: rhs [−q; b] → (x, z), s = −z
    if S.workx.size != data.q.size then throw (.panic "scalarop_from: length")
    let workx := Vec.negate data.q
    let workz ← copyInto S.workz data.b "workz"
    let K ← S.kktsolver.setrhs workx workz
    let (ok, lx, lz, K) ← K.solve st
    let (x, z) ← if ok then do
        let x ← copyInto vars.x lx "variables.x"
        let z ← copyInto vars.z lz "variables.z"
        pure (x, z)
      else pure (vars.x, vars.z)
    if vars.s.size != z.size then throw (.panic "scalarop_from: length")
    pure (ok, { vars with x, z, s := Vec.negate z }, { S with workx, workz, kktsolver := K })

theorem KktSys.solveInitialPoint_eq_core (S : KktSys α) (vars : Vars α) (data : ProblemData α)
    (st : LinSettings α) :
    S.solveInitialPoint vars data st = S.solveInitialPointCore (zeroXSZ vars) data st := rfl

@[simp] theorem zeroXSZ_x (v : Vars α) : (zeroXSZ v).x = v.x.map (fun _ => (0 : α)) := rfl
@[simp] theorem zeroXSZ_s (v : Vars α) : (zeroXSZ v).s = v.s.map (fun _ => (0 : α)) := rfl
@[simp] theorem zeroXSZ_z (v : Vars α) : (zeroXSZ v).z = v.z.map (fun _ => (0 : α)) := rfl
@[simp] theorem zeroXSZ_τ (v : Vars α) : (zeroXSZ v).τ = v.τ := rfl
@[simp] theorem zeroXSZ_κ (v : Vars α) : (zeroXSZ v).κ = v.κ := rfl

theorem zeroXSZ_size_x (v : Vars α) : (zeroXSZ v).x.size = v.x.size := Array.size_map ..
theorem zeroXSZ_size_s (v : Vars α) : (zeroXSZ v).s.size = v.s.size := Array.size_map ..
theorem zeroXSZ_size_z (v : Vars α) : (zeroXSZ v).z.size = v.z.size := Array.size_map ..

/-- the zero-filled iterate depends on the lengths of the three vectors only -/
theorem zeroXSZ_congr {v v' : Vars α} (hx : v.x.size = v'.x.size) (hs : v.s.size = v'.s.size)
    (hz : v.z.size = v'.z.size) :
    (zeroXSZ v).x = (zeroXSZ v').x ∧ (zeroXSZ v).s = (zeroXSZ v').s ∧ (zeroXSZ v).z = (zeroXSZ v').z := by
  have key : ∀ {a b : Array α}, a.size = b.size →
      a.map (fun _ => (0 : α)) = b.map (fun _ => (0 : α)) := by
    intro a b h
    apply Array.ext
    · simp only [Array.size_map, h]
    · intro i h1 h2
      simp only [Array.getElem_map]
  exact ⟨key hx, key hs, key hz⟩

end Clarabel.Solver
