/-
  The scaling operators of the PSD cone model (`ClarabelModel/Cones/PsdTriangle.lean`, C13)
  in matrix language: `mul_W` / `mul_Winv` are `x ↦ svec(RᵀXR)` etc., they are mutually
  inverse when `R·R⁻¹ = I`, transpose-consistent, and `mul_Hs` is `x ↦ svec(RRᵀ X RRᵀ)`.
-/
import ClarabelProofs.Lemmas.ConesPsdSvec
import Mathlib.Data.Matrix.Diagonal
import Mathlib.LinearAlgebra.Matrix.NonsingularInverse

namespace Clarabel.PsdTri
open PsdIndex (triangularNumber triangularIndex)
open Finset Matrix

/-! ## bridge to `Matrix (Fin n) (Fin n) ℝ` -/

/-- the leading `n × n` part of an entry function as a Mathlib matrix -/
def toM (n : Nat) (M : MatFn ℝ) : Matrix (Fin n) (Fin n) ℝ := Matrix.of fun i j => M i j

/-- a Mathlib matrix as an entry function (zero outside) -/
def ofM {n : Nat} (A : Matrix (Fin n) (Fin n) ℝ) : MatFn ℝ :=
  fun i j => if h : i < n ∧ j < n then A ⟨i, h.1⟩ ⟨j, h.2⟩ else 0

@[simp] theorem toM_apply (n : Nat) (M : MatFn ℝ) (i j : Fin n) : toM n M i j = M i j := rfl

theorem ofM_apply {n : Nat} (A : Matrix (Fin n) (Fin n) ℝ) {i j : Nat} (hi : i < n) (hj : j < n) :
    ofM A i j = A ⟨i, hi⟩ ⟨j, hj⟩ := by
  simp [ofM, hi, hj]

@[simp] theorem toM_ofM {n : Nat} (A : Matrix (Fin n) (Fin n) ℝ) : toM n (ofM A) = A := by
  ext i j
  simp [toM, ofM_apply A i.2 j.2]

theorem ofM_toM {n : Nat} (M : MatFn ℝ) {i j : Nat} (hi : i < n) (hj : j < n) :
    ofM (toM n M) i j = M i j := by
  rw [ofM_apply _ hi hj]; rfl

/-- `svec` of a Mathlib matrix -/
noncomputable def svecM {n : Nat} (A : Matrix (Fin n) (Fin n) ℝ) : Array ℝ := matToSvec n (ofM A)

theorem matToSvec_eq_svecM (n : Nat) (M : MatFn ℝ) : matToSvec n M = svecM (toM n M) :=
  matToSvec_congr (fun _ _ hi hj => (ofM_toM M hi hj).symm)

theorem size_svecM {n : Nat} (A : Matrix (Fin n) (Fin n) ℝ) :
    (svecM A).size = triangularNumber n := size_matToSvec n _

theorem isSymm_ofM {n : Nat} {A : Matrix (Fin n) (Fin n) ℝ} (hA : A.IsSymm) : IsSymm n (ofM A) := by
  intro i j hi hj
  rw [ofM_apply A hi hj, ofM_apply A hj hi]
  exact (Matrix.IsSymm.apply hA _ _).symm

theorem toM_svecToMat_isSymm (n : Nat) (x : Array ℝ) : (toM n (svecToMat x)).IsSymm := by
  ext i j
  simp [toM, Matrix.transpose_apply, svecToMat_symm x j i]

/-- [R] `mat(svec A) = A` for symmetric `A` -/
theorem toM_svecToMat_svecM {n : Nat} (A : Matrix (Fin n) (Fin n) ℝ) (hA : A.IsSymm) :
    toM n (svecToMat (svecM A)) = A := by
  ext i j
  simp only [toM_apply, svecM]
  rw [svecToMat_matToSvec n (ofM A) (isSymm_ofM hA) i j i.2 j.2, ofM_apply A i.2 j.2]

/-- [R] `svec(mat x) = x` -/
theorem svecM_toM_svecToMat (n : Nat) (x : Array ℝ) (hx : x.size = triangularNumber n) :
    svecM (toM n (svecToMat x)) = x := by
  rw [← matToSvec_eq_svecM]; exact matToSvec_svecToMat n x hx

theorem sum_range_fin (n : Nat) (f : Nat → ℝ) : ∑ k ∈ range n, f k = ∑ k : Fin n, f k :=
  (Fin.sum_univ_eq_sum_range f n).symm

/-- [R] `⟨svec A, svec B⟩ = tr(A·B)` for symmetric `A`, `B` -/
theorem dot_svecM {n : Nat} (A B : Matrix (Fin n) (Fin n) ℝ) (hA : A.IsSymm) (hB : B.IsSymm) :
    Vec.dot (svecM A) (svecM B) = Matrix.trace (A * B) := by
  unfold svecM
  rw [dot_matToSvec n _ _ (isSymm_ofM hA) (isSymm_ofM hB)]
  simp only [Matrix.trace, Matrix.diag, Matrix.mul_apply]
  rw [sum_range_fin n (fun j => ∑ i ∈ range n, ofM A i j * ofM B i j)]
  rw [Finset.sum_comm]
  simp only [sum_range_fin]
  rw [Finset.sum_comm]
  apply Finset.sum_congr rfl
  intro i _
  apply Finset.sum_congr rfl
  intro j _
  rw [ofM_apply A j.2 i.2, ofM_apply B j.2 i.2]
  simp only [Fin.eta]
  rw [Matrix.IsSymm.apply hA i j]

theorem toM_mm (n : Nat) (A B : MatFn ℝ) : toM n (mm n A B) = toM n A * toM n B := by
  ext i j
  simp only [toM_apply, mm, sumN_eq, Matrix.mul_apply, sum_range_fin]

theorem toM_tr (n : Nat) (A : MatFn ℝ) : toM n (tr A) = (toM n A)ᵀ := by
  ext i j; rfl

theorem isZero_real (x : ℝ) : isZero x = true ↔ x = 0 := by
  unfold isZero
  simp only [Bool.and_eq_true, Bool.not_eq_eq_eq_not, Bool.not_true, decide_eq_false_iff_not, not_lt]
  constructor
  · rintro ⟨h1, h2⟩; linarith
  · intro h; subst h; simp

/-- [R] `gemm` is `a·(A·B) + b·C` (the `β = 0` shortcut of BLAS changes nothing over ℝ) -/
theorem toM_gemm (n : Nat) (A B C : MatFn ℝ) (a b : ℝ) :
    toM n (gemm n A B a b C) = a • (toM n A * toM n B) + b • toM n C := by
  ext i j
  simp only [toM_apply, gemm, sumN_eq, Matrix.add_apply, Matrix.smul_apply, Matrix.mul_apply,
    sum_range_fin, smul_eq_mul]
  by_cases hb : isZero b = true
  · have := (isZero_real b).mp hb
    subst this
    simp
  · simp [hb]

/-! ## `mul_W` / `mul_Winv` -/

/-- [R] shape `N`: `y ← svec(a·RᵀXR + b·Y)` -/
theorem mulWxInner_N (n : Nat) (R : MatFn ℝ) (y x : Array ℝ) (a b : ℝ) :
    mulWxInner false n R y x a b
      = svecM (a • ((toM n R)ᵀ * toM n (svecToMat x) * toM n R) + b • toM n (svecToMat y)) := by
  simp only [mulWxInner, Bool.false_eq_true, if_false]
  rw [matToSvec_eq_svecM, toM_gemm, toM_mm, toM_tr]

/-- [R] shape `T`: `y ← svec(a·RXRᵀ + b·Y)` -/
theorem mulWxInner_T (n : Nat) (R : MatFn ℝ) (y x : Array ℝ) (a b : ℝ) :
    mulWxInner true n R y x a b
      = svecM (a • (toM n R * toM n (svecToMat x) * (toM n R)ᵀ) + b • toM n (svecToMat y)) := by
  simp only [mulWxInner, if_true]
  rw [matToSvec_eq_svecM, toM_gemm, toM_mm, toM_tr, Matrix.mul_assoc]

/-- both shapes at once: the conjugating factor is `Rᵀ…R` (`N`) or `R…Rᵀ` (`T`) -/
def shapeM {n : Nat} (t : Bool) (R : Matrix (Fin n) (Fin n) ℝ) : Matrix (Fin n) (Fin n) ℝ :=
  if t then Rᵀ else R

theorem mulWxInner_eq (t : Bool) (n : Nat) (R : MatFn ℝ) (y x : Array ℝ) (a b : ℝ) :
    mulWxInner t n R y x a b
      = svecM (a • ((shapeM t (toM n R))ᵀ * toM n (svecToMat x) * shapeM t (toM n R))
          + b • toM n (svecToMat y)) := by
  cases t
  · simpa [shapeM] using mulWxInner_N n R y x a b
  · simpa [shapeM] using mulWxInner_T n R y x a b

theorem conj_isSymm {n : Nat} (P X : Matrix (Fin n) (Fin n) ℝ) (hX : X.IsSymm) :
    (Pᵀ * X * P).IsSymm := by
  unfold Matrix.IsSymm
  rw [Matrix.transpose_mul, Matrix.transpose_mul, Matrix.transpose_transpose, hX.eq,
    Matrix.mul_assoc]

/-- [R] with `α = 1`, `β = 0`: `mat(mul_Wx x) = PᵀXP` -/
theorem toM_mulWxInner (t : Bool) (n : Nat) (R : MatFn ℝ) (y x : Array ℝ) :
    toM n (svecToMat (mulWxInner t n R y x 1 0))
      = (shapeM t (toM n R))ᵀ * toM n (svecToMat x) * shapeM t (toM n R) := by
  rw [mulWxInner_eq, one_smul, zero_smul, add_zero]
  exact toM_svecToMat_svecM _ (conj_isSymm _ _ (toM_svecToMat_isSymm n x))

/-- [R] `mul_Wx` with factor `P` undoes `mul_Wx` with factor `Q` when `Q·P = I` (same shape):
covers `W W⁻¹ = I`, `W⁻¹ W = I`, `Wᵀ W⁻ᵀ = I`, `W⁻ᵀ Wᵀ = I`. -/
theorem mulWxInner_inverse (t : Bool) (n : Nat) (P Q : MatFn ℝ) (y y' x : Array ℝ)
    (hx : x.size = triangularNumber n) (hPQ : toM n Q * toM n P = 1) :
    mulWxInner t n P y' (mulWxInner t n Q y x 1 0) 1 0 = x := by
  have hQP : toM n P * toM n Q = 1 := mul_eq_one_comm.mp hPQ
  rw [mulWxInner_eq t n P, toM_mulWxInner, one_smul, zero_smul, add_zero]
  have e : (shapeM t (toM n P))ᵀ * ((shapeM t (toM n Q))ᵀ * toM n (svecToMat x)
      * shapeM t (toM n Q)) * shapeM t (toM n P) = toM n (svecToMat x) := by
    cases t
    · simp only [shapeM, Bool.false_eq_true, if_false]
      calc (toM n P)ᵀ * ((toM n Q)ᵀ * toM n (svecToMat x) * toM n Q) * toM n P
          = (toM n Q * toM n P)ᵀ * toM n (svecToMat x) * (toM n Q * toM n P) := by
            rw [Matrix.transpose_mul]; simp only [Matrix.mul_assoc]
        _ = toM n (svecToMat x) := by rw [hPQ]; simp
    · simp only [shapeM, if_true, Matrix.transpose_transpose]
      calc toM n P * (toM n Q * toM n (svecToMat x) * (toM n Q)ᵀ) * (toM n P)ᵀ
          = (toM n P * toM n Q) * toM n (svecToMat x) * (toM n P * toM n Q)ᵀ := by
            rw [Matrix.transpose_mul]; simp only [Matrix.mul_assoc]
        _ = toM n (svecToMat x) := by rw [hQP]; simp
  rw [e]
  exact svecM_toM_svecToMat n x hx

/-- [R] transpose consistency: `⟨mul_W(N) x, y⟩ = ⟨x, mul_W(T) y⟩` -/
theorem mulWxInner_adjoint (n : Nat) (R : MatFn ℝ) (b1 b2 x y : Array ℝ)
    (hx : x.size = triangularNumber n) (hy : y.size = triangularNumber n) :
    Vec.dot (mulWxInner false n R b1 x 1 0) y = Vec.dot x (mulWxInner true n R b2 y 1 0) := by
  have hX := toM_svecToMat_isSymm n x
  have hY := toM_svecToMat_isSymm n y
  rw [mulWxInner_N, mulWxInner_T, one_smul, zero_smul, add_zero, one_smul, zero_smul, add_zero]
  conv_lhs => rw [← svecM_toM_svecToMat n y hy]
  conv_rhs => rw [← svecM_toM_svecToMat n x hx]
  rw [dot_svecM _ _ (conj_isSymm _ _ hX) hY]
  rw [dot_svecM _ _ hX (by simpa using conj_isSymm (toM n R)ᵀ _ hY)]
  rw [Matrix.mul_assoc, Matrix.mul_assoc, Matrix.trace_mul_comm]
  simp only [Matrix.mul_assoc]

/-! ## the `Cone`-level wrappers -/

theorem size_mulWxInner (t : Bool) (n : Nat) (R : MatFn ℝ) (y x : Array ℝ) (a b : ℝ) :
    (mulWxInner t n R y x a b).size = triangularNumber n := by
  cases t <;> simp [mulWxInner, size_matToSvec]

theorem mulWx_ok (t : Bool) (n : Nat) (Rx y x : Array ℝ) (a b : ℝ) (hR : Rx.size = n * n)
    (hx : x.size = triangularNumber n) (hy : y.size = triangularNumber n) :
    mulWx t n Rx y x a b = .ok (mulWxInner t n (matOf n Rx) y x a b) := by
  simp [mulWx, sizeGuard, hR, hx, hy, bind, Except.bind, pure, Except.pure]

/-! ## Jordan product -/

theorem half_eq : (half : ℝ) = 1 / 2 := by norm_num [half]
theorem two_eq : (two : ℝ) = 2 := by norm_num [two]

/-- [R] `circ_op` on matrices is `svec(½(Y Zᵀ + Z Yᵀ))` (what `syr2k` computes) -/
theorem circOpFn_eq (n : Nat) (Y Z : MatFn ℝ) :
    circOpFn n Y Z
      = svecM ((1 / 2 : ℝ) • (toM n Y * (toM n Z)ᵀ + toM n Z * (toM n Y)ᵀ)) := by
  unfold circOpFn
  rw [matToSvec_eq_svecM]
  congr 1
  ext i j
  have comm : ∀ a b : Nat, (∑ k ∈ range n, (Y a k * Z b k + Z a k * Y b k))
      = ∑ k ∈ range n, (Y b k * Z a k + Z b k * Y a k) := by
    intro a b
    apply sum_congr rfl; intro k _; ring
  simp only [toM_apply, symView, sumN_eq, half_eq, Matrix.smul_apply, Matrix.add_apply,
    Matrix.mul_apply, Matrix.transpose_apply, smul_eq_mul, ← sum_range_fin n
      (fun k => Y i k * Z j k), ← sum_range_fin n (fun k => Z i k * Y j k), ← sum_add_distrib]
  split
  · rfl
  · rw [comm]

/-- [R] `circ_op` is the Jordan product `y ∘ z = svec(½(YZ + ZY))` -/
theorem circOp_eq (n : Nat) (y z : Array ℝ) (hy : y.size = triangularNumber n)
    (hz : z.size = triangularNumber n) :
    circOp n y z = .ok (svecM ((1 / 2 : ℝ) •
      (toM n (svecToMat y) * toM n (svecToMat z) + toM n (svecToMat z) * toM n (svecToMat y)))) := by
  simp only [circOp, sizeGuard, hy, hz, beq_self_eq_true, Bool.and_self, if_true, bind,
    Except.bind, pure, Except.pure]
  rw [circOpFn_eq, (toM_svecToMat_isSymm n y).eq, (toM_svecToMat_isSymm n z).eq]

/-- [R] the Jordan product is commutative -/
theorem circOp_comm (n : Nat) (y z : Array ℝ) : circOp n y z = circOp n z y := by
  by_cases h : y.size = triangularNumber n ∧ z.size = triangularNumber n
  · rw [circOp_eq n y z h.1 h.2, circOp_eq n z y h.2 h.1, add_comm]
  · have : (y.size == triangularNumber n && z.size == triangularNumber n) = false := by
      rcases not_and_or.mp h with h | h <;> simp [h]
    have h2 : (z.size == triangularNumber n && y.size == triangularNumber n) = false := by
      rw [Bool.and_comm]; exact this
    simp only [circOp, sizeGuard, this, h2, bind, Except.bind]
    rfl

/-- `diag(λ)` as an entry function -/
def diagFn (lam : Array ℝ) : MatFn ℝ := fun i j => if i = j then lam.getD i 0 else 0

/-- the scaling point `λ` in the cone's vector form, `svec(diag λ)` -/
noncomputable def lamVec (n : Nat) (lam : Array ℝ) : Array ℝ := matToSvec n (diagFn lam)

theorem toM_diagFn (n : Nat) (lam : Array ℝ) :
    toM n (diagFn lam) = Matrix.diagonal (fun i : Fin n => lam.getD i 0) := by
  ext i j
  simp only [toM_apply, diagFn, Matrix.diagonal_apply, Fin.ext_iff]

theorem size_lamVec (n : Nat) (lam : Array ℝ) : (lamVec n lam).size = triangularNumber n :=
  size_matToSvec n _

theorem toM_svecToMat_lamVec (n : Nat) (lam : Array ℝ) :
    toM n (svecToMat (lamVec n lam)) = Matrix.diagonal (fun i : Fin n => lam.getD i 0) := by
  unfold lamVec
  rw [matToSvec_eq_svecM, toM_diagFn]
  exact toM_svecToMat_svecM _ (Matrix.isSymm_diagonal _)

/-- [R] `affine_ds = λ ∘ λ` -/
theorem affineDs_eq (K : Cone ℝ) (hl : K.lam.size = K.n) :
    affineDs K (triangularNumber K.n) = circOp K.n (lamVec K.n K.lam) (lamVec K.n K.lam) := by
  rw [circOp_eq _ _ _ (size_lamVec _ _) (size_lamVec _ _), toM_svecToMat_lamVec]
  simp only [affineDs, sizeGuard, hl, beq_self_eq_true, Bool.and_self, if_true, bind,
    Except.bind, pure, Except.pure]
  congr 1
  unfold svecM matToSvec
  congr 1
  apply packed_congr
  intro i j hij hj
  rw [Matrix.diagonal_mul_diagonal]
  by_cases h : i = j
  · subst h
    simp only [if_true]
    rw [ofM_apply _ hj hj]
    simp only [Matrix.smul_apply, Matrix.add_apply, Matrix.diagonal_apply_eq, smul_eq_mul]
    ring
  · simp only [h, if_false]
    rw [ofM_apply _ (by omega : i < K.n) hj, ofM_apply _ hj (by omega : i < K.n)]
    have h1 : (⟨i, by omega⟩ : Fin K.n) ≠ ⟨j, hj⟩ := by simp [Fin.ext_iff, h]
    simp [Matrix.diagonal_apply_ne _ h1, Matrix.diagonal_apply_ne _ h1.symm]

/-- the matrix `λ \ Z`: `2 Zᵢⱼ / (λᵢ + λⱼ)` -/
noncomputable def lamInvM {n : Nat} (lam : Array ℝ) (Z : Matrix (Fin n) (Fin n) ℝ) :
    Matrix (Fin n) (Fin n) ℝ :=
  Matrix.of fun i j => 2 * Z i j / (lam.getD i 0 + lam.getD j 0)

theorem lamInvM_isSymm {n : Nat} (lam : Array ℝ) {Z : Matrix (Fin n) (Fin n) ℝ} (hZ : Z.IsSymm) :
    (lamInvM lam Z).IsSymm := by
  ext i j
  simp only [lamInvM, Matrix.transpose_apply, Matrix.of_apply]
  rw [Matrix.IsSymm.apply hZ i j, add_comm]

/-- [R] `λ_inv_circ_op z = svec(2 Zᵢⱼ/(λᵢ+λⱼ))` -/
theorem lamInvCircOpFn_eq (n : Nat) (lam z : Array ℝ) :
    lamInvCircOpFn n lam z = svecM (lamInvM lam (toM n (svecToMat z))) := by
  unfold lamInvCircOpFn
  rw [matToSvec_eq_svecM]
  congr 1
  ext i j
  simp [lamInvM, two_eq]

/-- [R] `λ ∘ (λ \ z) = z`, with `λ` in vector form `svec(diag λ)`, whenever no `λᵢ + λⱼ`
vanishes (in particular for positive `λ`) -/
theorem circ_lamInv (n : Nat) (lam z : Array ℝ) (hz : z.size = triangularNumber n)
    (hl : ∀ i j, i < n → j < n → lam.getD i 0 + lam.getD j 0 ≠ 0) :
    circOp n (lamVec n lam) (lamInvCircOpFn n lam z) = .ok z := by
  have hsz : (lamInvCircOpFn n lam z).size = triangularNumber n := by
    rw [lamInvCircOpFn_eq]; exact size_svecM _
  rw [circOp_eq _ _ _ (size_lamVec _ _) hsz, toM_svecToMat_lamVec, lamInvCircOpFn_eq,
    toM_svecToMat_svecM _ (lamInvM_isSymm lam (toM_svecToMat_isSymm n z))]
  congr 1
  conv_rhs => rw [← svecM_toM_svecToMat n z hz]
  congr 1
  ext i j
  simp only [Matrix.smul_apply, Matrix.add_apply, Matrix.diagonal_mul, Matrix.mul_diagonal,
    lamInvM, Matrix.of_apply, smul_eq_mul]
  have := hl i j i.2 j.2
  field_simp

theorem lamInvCircOp_ok (K : Cone ℝ) (z : Array ℝ) (hl : K.lam.size = K.n)
    (hz : z.size = triangularNumber K.n) :
    lamInvCircOp K z = .ok (lamInvCircOpFn K.n K.lam z) := by
  simp [lamInvCircOp, sizeGuard, hl, hz, bind, Except.bind, pure, Except.pure]

/-! ## `scaled_unit_shift` (model in `PsdIndex`) -/

/-- the step of the `scaled_unit_shift` loop -/
theorem scaledUnitShift_aux (m : Nat) (z : Array ℝ) (a : ℝ)
    (hz : triangularNumber m ≤ z.size) :
    ∃ z', (List.range m).foldlM (fun (acc : Array ℝ) k => do
        let v ← getE acc (triangularIndex k) "z[triangular_index(k)]"
        setE acc (triangularIndex k) (v + a)) z = .ok z' ∧ z'.size = z.size ∧
      ∀ p, z'.getD p 0 = z.getD p 0 + (if ∃ k, k < m ∧ p = triangularNumber k + k then a else 0) := by
  induction m with
  | zero => exact ⟨z, rfl, rfl, by simp⟩
  | succ m ih =>
    have hm : triangularNumber m ≤ z.size := le_trans (tri_mono (Nat.le_succ m)) hz
    obtain ⟨z1, h1, h2, h3⟩ := ih hm
    have hidx : triangularIndex m < z1.size := by
      rw [h2, triangularIndex_eq]; rw [tri_succ] at hz; omega
    refine ⟨z1.set (triangularIndex m) (z1[triangularIndex m] + a) hidx, ?_, by simp [h2], ?_⟩
    · rw [List.range_succ, List.foldlM_append, h1]
      simp only [List.foldlM_cons, List.foldlM_nil, getE, setE, bind, Except.bind, pure,
        Except.pure, Array.getElem?_eq_getElem hidx, hidx, dite_true]
    · intro p
      rw [Array.getD_eq_getD_getElem?, Array.getElem?_set]
      by_cases hp : triangularIndex m = p
      · subst hp
        have hno : ¬ ∃ k, k < m ∧ triangularIndex m = triangularNumber k + k := by
          rintro ⟨k, hk, he⟩
          rw [triangularIndex_eq] at he
          have := (pair_unique (Nat.le_refl m) (Nat.le_refl k) he).1
          omega
        have hyes : ∃ k, k < m + 1 ∧ triangularIndex m = triangularNumber k + k :=
          ⟨m, by omega, triangularIndex_eq m⟩
        have h3' := h3 (triangularIndex m)
        rw [Array.getD_eq_getD_getElem?, Array.getElem?_eq_getElem hidx] at h3'
        simp only [Option.getD_some, hno, if_false, add_zero] at h3'
        simp only [if_true, Option.getD_some, hyes, h3']
      · simp only [hp, if_false]
        rw [← Array.getD_eq_getD_getElem?, h3 p]
        congr 1
        have : (∃ k, k < m ∧ p = triangularNumber k + k) ↔ (∃ k, k < m + 1 ∧ p = triangularNumber k + k) := by
          constructor
          · rintro ⟨k, hk, he⟩; exact ⟨k, by omega, he⟩
          · rintro ⟨k, hk, he⟩
            refine ⟨k, ?_, he⟩
            by_contra hkm
            have : k = m := by omega
            subst this
            exact hp (by rw [triangularIndex_eq]; exact he.symm)
        simp only [this]

/-- [R] `scaled_unit_shift z α = z + α·svec(I)`: `α` is added exactly at the packed diagonal
positions -/
theorem scaledUnitShift_eq (n : Nat) (z : Array ℝ) (a : ℝ) (hz : z.size = triangularNumber n) :
    PsdIndex.scaledUnitShift n z a
      = .ok (packed n fun r c => z.getD (triangularNumber c + r) 0 + if r = c then a else 0).toArray := by
  obtain ⟨z', h1, h2, h3⟩ := scaledUnitShift_aux n z a (by omega)
  unfold PsdIndex.scaledUnitShift
  rw [h1]
  congr 1
  apply Array.ext
  · rw [h2, hz, size_packed]
  · intro p hp1 hp2
    rw [h2, hz] at hp1
    obtain ⟨i, j, hij, hj, rfl⟩ := exists_pair hp1
    have e1 := h3 (triangularNumber j + i)
    have e2 := getD_packed (fun r c => z.getD (triangularNumber c + r) 0 + if r = c then a else 0)
      (0 : ℝ) hij hj
    rw [Array.getD_eq_getD_getElem?, Array.getElem?_eq_getElem (by rw [h2, hz]; exact hp1)] at e1
    rw [Array.getD_eq_getD_getElem?, Array.getElem?_eq_getElem hp2] at e2
    simp only [Option.getD_some] at e1 e2
    rw [e1, e2]
    congr 1
    by_cases h : i = j
    · subst h
      have : ∃ k, k < n ∧ triangularNumber i + i = triangularNumber k + k := ⟨i, hj, rfl⟩
      simp [this]
    · have : ¬ ∃ k, k < n ∧ triangularNumber j + i = triangularNumber k + k := by
        rintro ⟨k, _, he⟩
        have := pair_unique hij (Nat.le_refl k) he
        omega
      simp [this, h]

end Clarabel.PsdTri
