/-
  Round 4 (cone geometry), part A: the open generalised power cone
  `int K = {(u,w) : u > 0, ‖w‖ < Π uᵢ^{αᵢ}}` (`αᵢ > 0`, `Σαᵢ = 1`, any dimensions) and the open
  dual cone `int K* = {(u,w) : u > 0, ‖w‖ < Π (uᵢ/αᵢ)^{αᵢ}}` are convex.

  * `geo_concave`: the weighted geometric mean `u ↦ Π uᵢ^{αᵢ}` is concave on the positive orthant
    (weighted AM–GM, `Real.geom_mean_le_arith_mean_weighted`, applied to `uᵢ/Xᵢ` with `X` the
    convex combination — the n-ary form of `C15Convex.geo_concave`);
  * `sq_comb_le`: `‖μa + νb‖² ≤ (μ‖a‖ + ν‖b‖)²` (Cauchy–Schwarz);
  * `IntF.convex`, `IntF.ray`: convexity of the cone in index-function form, and the segment from an
    interior point to an accepted candidate;
  * `primal_iff`, `dual_iff`: C14's list predicates `GenPowPrimalInterior` / `GenPowDualInterior`
    (the sets the model's `is_primal_feasible` / `is_dual_feasible` decide) in that form;
  * `primal_segment`, `dual_segment`: on the model's candidate points `waxpby(1, q, t, dq)`.
-/
import ClarabelProofs.Lemmas.NonsymGenPowScaling
import Mathlib.Analysis.MeanInequalities
import Mathlib.Algebra.Order.BigOperators.Ring.Finset
import Mathlib.Algebra.Order.BigOperators.Group.Finset

namespace Clarabel.GenPowConvex
open Finset

/-- the open generalised power cone in squared form, `u > 0 ∧ ‖w‖² < Π uᵢ^{2αᵢ}` — what
`is_primal_feasible` decides (`GenPow.isPrimalFeasible_iff`); definitionally C14's
`GenPowPrimalInterior` (this file sits below `Props/C14.lean`, which imports it) -/
def PrimalInt (al u w : List ℝ) : Prop := GenPow.AllPos u ∧ GenPow.sumSq w < GenPow.prodPhiP al u

/-- the open dual cone, `u > 0 ∧ ‖w‖² < Π (uᵢ/αᵢ)^{2αᵢ}` — what `is_dual_feasible` decides
(`GenPow.isDualFeasible_iff`); definitionally C14's `GenPowDualInterior` -/
def DualInt (al u w : List ℝ) : Prop := GenPow.AllPos u ∧ GenPow.sumSq w < GenPow.prodPhi al u

/-- convex combination along a ray: `q + t·d = (1 − t/α)·q + (t/α)·(q + α·d)` -/
theorem ray_weights {α t : ℝ} (hα : 0 < α) (ht0 : 0 ≤ t) (ht : t ≤ α) :
    0 ≤ 1 - t / α ∧ 0 ≤ t / α ∧ (1 - t / α) + t / α = 1 := by
  refine ⟨?_, div_nonneg ht0 hα.le, by ring⟩
  have : t / α ≤ 1 := (div_le_one hα).mpr ht
  linarith

/-! ## scalar helpers -/

theorem comb_pos {μ ν x y : ℝ} (hμ : 0 ≤ μ) (hν : 0 ≤ ν) (h1 : μ + ν = 1) (hx : 0 < x) (hy : 0 < y) :
    0 < μ * x + ν * y := by
  rcases eq_or_lt_of_le hμ with h | h
  · have : ν = 1 := by linarith
    rw [← h, this]; simpa using hy
  · have := mul_pos h hx
    have := mul_nonneg hν hy.le
    linarith

theorem comb_lt {μ ν a b c d : ℝ} (hμ : 0 ≤ μ) (hν : 0 ≤ ν) (h1 : μ + ν = 1) (hac : a < c) (hbd : b < d) :
    μ * a + ν * b < μ * c + ν * d := by
  have := comb_pos hμ hν h1 (sub_pos.mpr hac) (sub_pos.mpr hbd)
  linarith

/-! ## the weighted geometric mean is concave -/

/-- [R] `μ·Π xᵢ^{αᵢ} + ν·Π yᵢ^{αᵢ} ≤ Π (μxᵢ + νyᵢ)^{αᵢ}` for `x, y > 0`, `αᵢ > 0`, `Σαᵢ = 1` -/
theorem geo_concave (n : ℕ) (al x y : ℕ → ℝ) (hal : ∀ i ∈ range n, 0 < al i)
    (hsum : ∑ i ∈ range n, al i = 1) (hx : ∀ i ∈ range n, 0 < x i) (hy : ∀ i ∈ range n, 0 < y i)
    {μ ν : ℝ} (hμ : 0 ≤ μ) (hν : 0 ≤ ν) (h1 : μ + ν = 1) :
    μ * ∏ i ∈ range n, x i ^ al i + ν * ∏ i ∈ range n, y i ^ al i
      ≤ ∏ i ∈ range n, (μ * x i + ν * y i) ^ al i := by
  have hXpos : ∀ i ∈ range n, 0 < μ * x i + ν * y i :=
    fun i hi => comb_pos hμ hν h1 (hx i hi) (hy i hi)
  have hG : 0 < ∏ i ∈ range n, (μ * x i + ν * y i) ^ al i :=
    prod_pos fun i hi => Real.rpow_pos_of_pos (hXpos i hi) _
  have am : ∀ u : ℕ → ℝ, (∀ i ∈ range n, 0 < u i) →
      ∏ i ∈ range n, u i ^ al i ≤ (∑ i ∈ range n, al i * (u i / (μ * x i + ν * y i)))
        * ∏ i ∈ range n, (μ * x i + ν * y i) ^ al i := by
    intro u hu
    have h := Real.geom_mean_le_arith_mean_weighted (range n) al (fun i => u i / (μ * x i + ν * y i))
      (fun i hi => (hal i hi).le) hsum (fun i hi => (div_pos (hu i hi) (hXpos i hi)).le)
    have e : ∏ i ∈ range n, (u i / (μ * x i + ν * y i)) ^ al i
        = (∏ i ∈ range n, u i ^ al i) / ∏ i ∈ range n, (μ * x i + ν * y i) ^ al i := by
      rw [← prod_div_distrib]
      exact prod_congr rfl fun i hi => Real.div_rpow (hu i hi).le (hXpos i hi).le _
    rw [e, div_le_iff₀ hG] at h
    exact h
  have e1 := mul_le_mul_of_nonneg_left (am x hx) hμ
  have e2 := mul_le_mul_of_nonneg_left (am y hy) hν
  have tot : μ * (∑ i ∈ range n, al i * (x i / (μ * x i + ν * y i)))
      + ν * (∑ i ∈ range n, al i * (y i / (μ * x i + ν * y i))) = 1 := by
    rw [mul_sum, mul_sum, ← sum_add_distrib, ← hsum]
    refine sum_congr rfl fun i hi => ?_
    have hne := (hXpos i hi).ne'
    field_simp
  calc μ * ∏ i ∈ range n, x i ^ al i + ν * ∏ i ∈ range n, y i ^ al i
      ≤ μ * ((∑ i ∈ range n, al i * (x i / (μ * x i + ν * y i)))
            * ∏ i ∈ range n, (μ * x i + ν * y i) ^ al i)
        + ν * ((∑ i ∈ range n, al i * (y i / (μ * x i + ν * y i)))
            * ∏ i ∈ range n, (μ * x i + ν * y i) ^ al i) := add_le_add e1 e2
    _ = (μ * (∑ i ∈ range n, al i * (x i / (μ * x i + ν * y i)))
          + ν * (∑ i ∈ range n, al i * (y i / (μ * x i + ν * y i))))
          * ∏ i ∈ range n, (μ * x i + ν * y i) ^ al i := by ring
    _ = ∏ i ∈ range n, (μ * x i + ν * y i) ^ al i := by rw [tot, one_mul]

/-- [R] `Σ (μaⱼ + νbⱼ)² ≤ (μ‖a‖ + ν‖b‖)²` (triangle inequality of the Euclidean norm, squared) -/
theorem sq_comb_le (m : ℕ) (a b : ℕ → ℝ) {μ ν : ℝ} (hμ : 0 ≤ μ) (hν : 0 ≤ ν) :
    ∑ j ∈ range m, (μ * a j + ν * b j) ^ 2
      ≤ (μ * Real.sqrt (∑ j ∈ range m, a j ^ 2) + ν * Real.sqrt (∑ j ∈ range m, b j ^ 2)) ^ 2 := by
  have hA : 0 ≤ ∑ j ∈ range m, a j ^ 2 := sum_nonneg fun j _ => sq_nonneg _
  have hB : 0 ≤ ∑ j ∈ range m, b j ^ 2 := sum_nonneg fun j _ => sq_nonneg _
  have cs := Finset.sum_mul_sq_le_sq_mul_sq (range m) a b
  have hab : ∑ j ∈ range m, a j * b j
      ≤ Real.sqrt (∑ j ∈ range m, a j ^ 2) * Real.sqrt (∑ j ∈ range m, b j ^ 2) := by
    have h2 : (∑ j ∈ range m, a j * b j) ^ 2
        ≤ (Real.sqrt (∑ j ∈ range m, a j ^ 2) * Real.sqrt (∑ j ∈ range m, b j ^ 2)) ^ 2 := by
      rw [mul_pow, Real.sq_sqrt hA, Real.sq_sqrt hB]; exact cs
    have h3 := sq_le_sq.mp h2
    rw [abs_of_nonneg (mul_nonneg (Real.sqrt_nonneg _) (Real.sqrt_nonneg _))] at h3
    exact le_trans (le_abs_self _) h3
  have ex : ∑ j ∈ range m, (μ * a j + ν * b j) ^ 2
      = μ ^ 2 * (∑ j ∈ range m, a j ^ 2) + 2 * μ * ν * (∑ j ∈ range m, a j * b j)
        + ν ^ 2 * (∑ j ∈ range m, b j ^ 2) := by
    rw [mul_sum, mul_sum, mul_sum, ← sum_add_distrib, ← sum_add_distrib]
    exact sum_congr rfl fun j _ => by ring
  have h2 := mul_le_mul_of_nonneg_left hab (by positivity : 0 ≤ 2 * μ * ν)
  have hA' := Real.sq_sqrt hA
  have hB' := Real.sq_sqrt hB
  rw [ex]
  nlinarith

/-! ## the cone in index-function form -/

/-- `u > 0` on `range n` and `Σ_{j<m} wⱼ² < (Π_{i<n} uᵢ^{αᵢ})²` -/
def IntF (n m : ℕ) (al u w : ℕ → ℝ) : Prop :=
  (∀ i ∈ range n, 0 < u i) ∧ ∑ j ∈ range m, w j ^ 2 < (∏ i ∈ range n, u i ^ al i) ^ 2

theorem IntF.congr {n m : ℕ} {al al' u u' w w' : ℕ → ℝ} (ha : ∀ i ∈ range n, al i = al' i)
    (hu : ∀ i ∈ range n, u i = u' i) (hw : ∀ j ∈ range m, w j = w' j) :
    IntF n m al u w ↔ IntF n m al' u' w' := by
  unfold IntF
  have e1 : ∑ j ∈ range m, w j ^ 2 = ∑ j ∈ range m, w' j ^ 2 :=
    sum_congr rfl fun j hj => by rw [hw j hj]
  have e2 : ∏ i ∈ range n, u i ^ al i = ∏ i ∈ range n, u' i ^ al' i :=
    prod_congr rfl fun i hi => by rw [hu i hi, ha i hi]
  rw [e1, e2]
  constructor
  · rintro ⟨h1, h2⟩; exact ⟨fun i hi => by rw [← hu i hi]; exact h1 i hi, h2⟩
  · rintro ⟨h1, h2⟩; exact ⟨fun i hi => by rw [hu i hi]; exact h1 i hi, h2⟩

/-- [R] **the open generalised power cone is convex** (index-function form) -/
theorem IntF.convex {n m : ℕ} {al ua wa ub wb : ℕ → ℝ} (hal : ∀ i ∈ range n, 0 < al i)
    (hsum : ∑ i ∈ range n, al i = 1) (ha : IntF n m al ua wa) (hb : IntF n m al ub wb)
    {μ ν : ℝ} (hμ : 0 ≤ μ) (hν : 0 ≤ ν) (h1 : μ + ν = 1) :
    IntF n m al (fun i => μ * ua i + ν * ub i) (fun j => μ * wa j + ν * wb j) := by
  obtain ⟨pa, qa⟩ := ha
  obtain ⟨pb, qb⟩ := hb
  refine ⟨fun i hi => comb_pos hμ hν h1 (pa i hi) (pb i hi), ?_⟩
  have hPa : 0 < ∏ i ∈ range n, ua i ^ al i := prod_pos fun i hi => Real.rpow_pos_of_pos (pa i hi) _
  have hPb : 0 < ∏ i ∈ range n, ub i ^ al i := prod_pos fun i hi => Real.rpow_pos_of_pos (pb i hi) _
  have ra : Real.sqrt (∑ j ∈ range m, wa j ^ 2) < ∏ i ∈ range n, ua i ^ al i :=
    (Real.sqrt_lt' hPa).mpr qa
  have rb : Real.sqrt (∑ j ∈ range m, wb j ^ 2) < ∏ i ∈ range n, ub i ^ al i :=
    (Real.sqrt_lt' hPb).mpr qb
  have s1 := sq_comb_le m wa wb hμ hν
  have s2 : μ * Real.sqrt (∑ j ∈ range m, wa j ^ 2) + ν * Real.sqrt (∑ j ∈ range m, wb j ^ 2)
      < μ * ∏ i ∈ range n, ua i ^ al i + ν * ∏ i ∈ range n, ub i ^ al i := comb_lt hμ hν h1 ra rb
  have s0 : 0 ≤ μ * Real.sqrt (∑ j ∈ range m, wa j ^ 2) + ν * Real.sqrt (∑ j ∈ range m, wb j ^ 2) :=
    add_nonneg (mul_nonneg hμ (Real.sqrt_nonneg _)) (mul_nonneg hν (Real.sqrt_nonneg _))
  have s3 := geo_concave n al ua ub hal hsum pa pb hμ hν h1
  calc ∑ j ∈ range m, (μ * wa j + ν * wb j) ^ 2
      ≤ (μ * Real.sqrt (∑ j ∈ range m, wa j ^ 2) + ν * Real.sqrt (∑ j ∈ range m, wb j ^ 2)) ^ 2 := s1
    _ < (μ * ∏ i ∈ range n, ua i ^ al i + ν * ∏ i ∈ range n, ub i ^ al i) ^ 2 :=
        pow_lt_pow_left₀ s2 s0 (by norm_num)
    _ ≤ (∏ i ∈ range n, (μ * ua i + ν * ub i) ^ al i) ^ 2 :=
        pow_le_pow_left₀ (le_trans s0 s2.le) s3 2

/-- [R] the segment from an interior point to an interior point `α` further along `d` stays interior -/
theorem IntF.ray {n m : ℕ} {al u w du dw : ℕ → ℝ} (hal : ∀ i ∈ range n, 0 < al i)
    (hsum : ∑ i ∈ range n, al i = 1) {α t : ℝ} (h0 : IntF n m al u w)
    (hα : IntF n m al (fun i => u i + α * du i) (fun j => w j + α * dw j)) (ht0 : 0 ≤ t) (ht : t ≤ α) :
    IntF n m al (fun i => u i + t * du i) (fun j => w j + t * dw j) := by
  rcases eq_or_lt_of_le (le_trans ht0 ht) with h | h
  · have : t = 0 := by linarith
    subst this
    simpa using h0
  · obtain ⟨w1, w2, w3⟩ := ray_weights h ht0 ht
    have := IntF.convex hal hsum h0 hα w1 w2 w3
    have hne : α ≠ 0 := h.ne'
    refine (IntF.congr (fun _ _ => rfl) (fun i _ => ?_) (fun j _ => ?_)).mp this
    · field_simp; ring
    · field_simp; ring

/-- the dual cone is the primal cone in the coordinates `uᵢ/αᵢ` -/
theorem IntF.ray_dual {n m : ℕ} {al u w du dw : ℕ → ℝ} (hal : ∀ i ∈ range n, 0 < al i)
    (hsum : ∑ i ∈ range n, al i = 1) {α t : ℝ} (h0 : IntF n m al (fun i => u i / al i) w)
    (hα : IntF n m al (fun i => (u i + α * du i) / al i) (fun j => w j + α * dw j)) (ht0 : 0 ≤ t)
    (ht : t ≤ α) :
    IntF n m al (fun i => (u i + t * du i) / al i) (fun j => w j + t * dw j) := by
  have hα' : IntF n m al (fun i => u i / al i + α * (du i / al i)) (fun j => w j + α * dw j) :=
    (IntF.congr (fun _ _ => rfl) (fun i _ => by ring) (fun _ _ => rfl)).mp hα
  have := IntF.ray hal hsum h0 hα' ht0 ht
  exact (IntF.congr (fun _ _ => rfl) (fun i _ => by ring) (fun _ _ => rfl)).mp this

/-! ## lists as index functions -/

theorem sum_map_range (f : ℝ → ℝ) (l : List ℝ) :
    (l.map f).sum = ∑ j ∈ range l.length, f (l.getD j 0) := by
  induction l with
  | nil => simp
  | cons a t ih =>
    rw [List.map_cons, List.sum_cons, List.length_cons, sum_range_succ', ih]
    simp only [List.getD_cons_succ, List.getD_cons_zero]
    ring

theorem prod_zip_range (f : ℝ → ℝ → ℝ) : ∀ (al u : List ℝ), al.length = u.length →
    ((al.zip u).map (fun p => f p.1 p.2)).prod = ∏ i ∈ range al.length, f (al.getD i 0) (u.getD i 0) := by
  intro al
  induction al with
  | nil => intro u _; simp
  | cons a t ih =>
    intro u hu
    cases u with
    | nil => simp at hu
    | cons x r =>
      rw [List.zip_cons_cons, List.map_cons, List.prod_cons, List.length_cons, prod_range_succ',
        ih r (by simpa using hu)]
      simp only [List.getD_cons_succ, List.getD_cons_zero]
      ring

theorem forall_mem_range (P : ℝ → Prop) (u : List ℝ) :
    (∀ x ∈ u, P x) ↔ ∀ i ∈ range u.length, P (u.getD i 0) := by
  induction u with
  | nil => simp
  | cons a t ih =>
    constructor
    · intro h i hi
      cases i with
      | zero => simpa using h a (by simp)
      | succ k =>
        rw [List.getD_cons_succ]
        exact (ih.mp fun x hx => h x (by simp [hx])) k (by
          rw [mem_range] at hi ⊢; simpa using hi)
    · intro h x hx
      rcases List.mem_cons.mp hx with rfl | hx
      · simpa using h 0 (by simp)
      · refine (ih.mpr fun i hi => ?_) x hx
        have := h (i + 1) (by rw [mem_range] at hi ⊢; simpa using hi)
        simpa using this

theorem list_sum_range (l : List ℝ) : l.sum = ∑ i ∈ range l.length, l.getD i 0 := by
  have := sum_map_range id l
  simpa using this

theorem rpow_two_mul {x : ℝ} (hx : 0 ≤ x) (a : ℝ) : x ^ (2 * a) = (x ^ a) ^ 2 := by
  rw [show (2 : ℝ) * a = a * ((2 : ℕ) : ℝ) by push_cast; ring, Real.rpow_mul_natCast hx]

/-- C14's primal predicate in index-function form -/
theorem primal_iff (al u w : List ℝ) (hlen : al.length = u.length) :
    PrimalInt al u w
      ↔ IntF al.length w.length (fun i => al.getD i 0) (fun i => u.getD i 0) (fun j => w.getD j 0) := by
  unfold PrimalInt GenPow.AllPos GenPow.sumSq GenPow.prodPhiP IntF
  rw [forall_mem_range (fun x => 0 < x) u, ← hlen]
  refine and_congr_right fun hpos => ?_
  have e1 : (w.map (fun x => x * x)).sum = ∑ j ∈ range w.length, w.getD j 0 ^ 2 := by
    rw [sum_map_range]
    exact sum_congr rfl fun j _ => by ring
  have e2 : ((al.zip u).map (fun p => p.2 ^ (2 * p.1))).prod
      = (∏ i ∈ range al.length, u.getD i 0 ^ al.getD i 0) ^ 2 := by
    rw [prod_zip_range (fun a x => x ^ (2 * a)) al u hlen, ← prod_pow]
    exact prod_congr rfl fun i hi => rpow_two_mul (hpos i hi).le _
  rw [e1, e2]

/-- C14's dual predicate in index-function form (coordinates `uᵢ/αᵢ`) -/
theorem dual_iff (al u w : List ℝ) (hlen : al.length = u.length) (hal : ∀ a ∈ al, 0 < a) :
    DualInt al u w
      ↔ IntF al.length w.length (fun i => al.getD i 0) (fun i => u.getD i 0 / al.getD i 0)
          (fun j => w.getD j 0) := by
  unfold DualInt GenPow.AllPos GenPow.sumSq GenPow.prodPhi IntF
  have hal' := (forall_mem_range (fun x => 0 < x) al).mp hal
  have hfirst : (∀ x ∈ u, 0 < x) ↔ ∀ i ∈ range al.length, 0 < u.getD i 0 / al.getD i 0 := by
    rw [forall_mem_range (fun x => 0 < x) u, ← hlen]
    constructor
    · intro h i hi; exact div_pos (h i hi) (hal' i hi)
    · intro h i hi
      have := mul_pos (h i hi) (hal' i hi)
      rwa [div_mul_cancel₀ _ (hal' i hi).ne'] at this
  rw [hfirst]
  refine and_congr_right fun hpos => ?_
  have e1 : (w.map (fun x => x * x)).sum = ∑ j ∈ range w.length, w.getD j 0 ^ 2 := by
    rw [sum_map_range]
    exact sum_congr rfl fun j _ => by ring
  have e2 : ((al.zip u).map (fun p => (p.2 / p.1) ^ (2 * p.1))).prod
      = (∏ i ∈ range al.length, (u.getD i 0 / al.getD i 0) ^ al.getD i 0) ^ 2 := by
    rw [prod_zip_range (fun a x => (x / a) ^ (2 * a)) al u hlen, ← prod_pow]
    exact prod_congr rfl fun i hi => rpow_two_mul (hpos i hi).le _
  rw [e1, e2]

/-! ## candidate points of the line search -/

/-- `waxpby(1, ·, t, ·)` coordinate-wise -/
def stepFn (t : ℝ) (p : ℝ × ℝ) : ℝ := 1 * p.1 + t * p.2

theorem getD_zip_map (t : ℝ) (a b : List ℝ) (hb : b.length = a.length) (i : ℕ) (hi : i ∈ range a.length) :
    ((a.zip b).map (stepFn t)).getD i 0 = a.getD i 0 + t * b.getD i 0 := by
  rw [mem_range] at hi
  have hib : i < b.length := by omega
  simp [List.getD_eq_getElem?_getD, hi, hib, stepFn]

theorem length_zip_map (t : ℝ) (a b : List ℝ) (hb : b.length = a.length) :
    ((a.zip b).map (stepFn t)).length = a.length := by
  simp [hb]

/-- the candidate `waxpby(1, q, t, dq)` splits like `q` -/
theorem candidate_split (q dq : Array ℝ) (hsz : dq.size = q.size) (uq wq : List ℝ)
    (hq : q.toList = uq ++ wq) (t : ℝ) :
    (dq.toList.take uq.length).length = uq.length ∧ (dq.toList.drop uq.length).length = wq.length ∧
      (Vec.waxpby 1 q t dq).toList = (uq.zip (dq.toList.take uq.length)).map (stepFn t)
        ++ (wq.zip (dq.toList.drop uq.length)).map (stepFn t) := by
  have hlen : dq.toList.length = uq.length + wq.length := by
    rw [Array.length_toList, hsz, ← Array.length_toList, hq, List.length_append]
  refine ⟨?_, ?_, ?_⟩
  · rw [List.length_take]; omega
  · rw [List.length_drop]; omega
  · have hd : dq.toList = dq.toList.take uq.length ++ dq.toList.drop uq.length :=
      (List.take_append_drop _ _).symm
    have hl : uq.length = (dq.toList.take uq.length).length := by rw [List.length_take]; omega
    simp only [Vec.waxpby]
    rw [hq]
    conv_lhs => rw [hd]
    rw [List.zip_append hl, List.map_append]
    rfl

/-- a candidate written as `u ++ w` with `|u| = |uq|` has the two parts of `candidate_split` -/
theorem candidate_parts (q dq : Array ℝ) (hsz : dq.size = q.size) (uq wq : List ℝ)
    (hq : q.toList = uq ++ wq) (t : ℝ) (u w : List ℝ)
    (huw : (Vec.waxpby 1 q t dq).toList = u ++ w) (hul : uq.length = u.length) :
    u = (uq.zip (dq.toList.take uq.length)).map (stepFn t) ∧
      w = (wq.zip (dq.toList.drop uq.length)).map (stepFn t) := by
  obtain ⟨h1, _, h3⟩ := candidate_split q dq hsz uq wq hq t
  rw [h3] at huw
  have := List.append_inj huw.symm (by rw [length_zip_map t _ _ h1]; exact hul.symm)
  exact this

/-- [R] primal cone: from an interior point, if the candidate at `α` is interior then so is every
candidate at `t ∈ [0, α]` -/
theorem primal_segment (al : List ℝ) (hal : ∀ a ∈ al, 0 < a) (hsum : al.sum = 1) (q dq : Array ℝ)
    (hsz : dq.size = q.size) (uq wq : List ℝ) (hq : q.toList = uq ++ wq) (hl : al.length = uq.length)
    (hI : PrimalInt al uq wq) (α : ℝ)
    (hα : ∀ u w, (Vec.waxpby 1 q α dq).toList = u ++ w → al.length = u.length →
      PrimalInt al u w) (t : ℝ) (ht0 : 0 ≤ t) (ht : t ≤ α) :
    ∀ u w, (Vec.waxpby 1 q t dq).toList = u ++ w → al.length = u.length →
      PrimalInt al u w := by
  intro u w huw hul
  obtain ⟨hdu, hdw, hcα⟩ := candidate_split q dq hsz uq wq hq α
  obtain ⟨rfl, rfl⟩ := candidate_parts q dq hsz uq wq hq t u w huw (by omega)
  have hA := hα _ _ hcα (by rw [length_zip_map α _ _ hdu]; exact hl)
  have hal' := (forall_mem_range (fun x => 0 < x) al).mp hal
  have hsum' : ∑ i ∈ range al.length, al.getD i 0 = 1 := by rw [← list_sum_range]; exact hsum
  rw [primal_iff al _ _ (by rw [length_zip_map α _ _ hdu]; exact hl), length_zip_map α _ _ hdw] at hA
  rw [primal_iff al _ _ hl] at hI
  rw [primal_iff al _ _ (by rw [length_zip_map t _ _ hdu]; exact hl), length_zip_map t _ _ hdw]
  have hA' := (IntF.congr (fun _ _ => rfl)
    (fun i hi => getD_zip_map α uq _ hdu i (by rw [← hl]; exact hi))
    (fun j hj => getD_zip_map α wq _ hdw j hj)).mp hA
  have := IntF.ray hal' hsum' hI hA' ht0 ht
  exact (IntF.congr (fun _ _ => rfl)
    (fun i hi => getD_zip_map t uq _ hdu i (by rw [← hl]; exact hi))
    (fun j hj => getD_zip_map t wq _ hdw j hj)).mpr this

/-- [R] dual cone: the same statement -/
theorem dual_segment (al : List ℝ) (hal : ∀ a ∈ al, 0 < a) (hsum : al.sum = 1) (q dq : Array ℝ)
    (hsz : dq.size = q.size) (uq wq : List ℝ) (hq : q.toList = uq ++ wq) (hl : al.length = uq.length)
    (hI : DualInt al uq wq) (α : ℝ)
    (hα : ∀ u w, (Vec.waxpby 1 q α dq).toList = u ++ w → al.length = u.length →
      DualInt al u w) (t : ℝ) (ht0 : 0 ≤ t) (ht : t ≤ α) :
    ∀ u w, (Vec.waxpby 1 q t dq).toList = u ++ w → al.length = u.length →
      DualInt al u w := by
  intro u w huw hul
  obtain ⟨hdu, hdw, hcα⟩ := candidate_split q dq hsz uq wq hq α
  obtain ⟨rfl, rfl⟩ := candidate_parts q dq hsz uq wq hq t u w huw (by omega)
  have hA := hα _ _ hcα (by rw [length_zip_map α _ _ hdu]; exact hl)
  have hal' := (forall_mem_range (fun x => 0 < x) al).mp hal
  have hsum' : ∑ i ∈ range al.length, al.getD i 0 = 1 := by rw [← list_sum_range]; exact hsum
  rw [dual_iff al _ _ (by rw [length_zip_map α _ _ hdu]; exact hl) hal, length_zip_map α _ _ hdw] at hA
  rw [dual_iff al _ _ hl hal] at hI
  rw [dual_iff al _ _ (by rw [length_zip_map t _ _ hdu]; exact hl) hal, length_zip_map t _ _ hdw]
  have hA' := (IntF.congr (fun _ _ => rfl)
    (fun i hi => by rw [getD_zip_map α uq _ hdu i (by rw [← hl]; exact hi)])
    (fun j hj => getD_zip_map α wq _ hdw j hj)).mp hA
  have := IntF.ray_dual hal' hsum' hI hA' ht0 ht
  exact (IntF.congr (fun _ _ => rfl)
    (fun i hi => by rw [getD_zip_map t uq _ hdu i (by rw [← hl]; exact hi)])
    (fun j hj => getD_zip_map t wq _ hdw j hj)).mpr this

/-! ## convexity on lists -/

/-- convex combination coordinate-wise -/
def combFn (μ ν : ℝ) (p : ℝ × ℝ) : ℝ := μ * p.1 + ν * p.2

theorem getD_zip_comb (μ ν : ℝ) (a b : List ℝ) (hb : b.length = a.length) (i : ℕ)
    (hi : i ∈ range a.length) :
    ((a.zip b).map (combFn μ ν)).getD i 0 = μ * a.getD i 0 + ν * b.getD i 0 := by
  rw [mem_range] at hi
  have hib : i < b.length := by omega
  simp [List.getD_eq_getElem?_getD, hi, hib, combFn]

theorem length_zip_comb (μ ν : ℝ) (a b : List ℝ) (hb : b.length = a.length) :
    ((a.zip b).map (combFn μ ν)).length = a.length := by
  simp [hb]

/-- [R] **the open generalised power cone is convex** (positive exponents summing to one, any
dimensions): a convex combination of two interior points is interior -/
theorem primal_convex (al ua wa ub wb : List ℝ) (hal : ∀ a ∈ al, 0 < a) (hsum : al.sum = 1)
    (hla : al.length = ua.length) (hlb : ub.length = ua.length) (hlw : wb.length = wa.length)
    (hA : PrimalInt al ua wa) (hB : PrimalInt al ub wb) {μ ν : ℝ} (hμ : 0 ≤ μ) (hν : 0 ≤ ν)
    (h1 : μ + ν = 1) :
    PrimalInt al ((ua.zip ub).map (combFn μ ν)) ((wa.zip wb).map (combFn μ ν)) := by
  have hal' := (forall_mem_range (fun x => 0 < x) al).mp hal
  have hsum' : ∑ i ∈ range al.length, al.getD i 0 = 1 := by rw [← list_sum_range]; exact hsum
  rw [primal_iff al _ _ hla] at hA
  rw [primal_iff al _ _ (by rw [hlb]; exact hla), hlw] at hB
  rw [primal_iff al _ _ (by rw [length_zip_comb μ ν _ _ hlb]; exact hla), length_zip_comb μ ν _ _ hlw]
  have := IntF.convex hal' hsum' hA hB hμ hν h1
  exact (IntF.congr (fun _ _ => rfl)
    (fun i hi => getD_zip_comb μ ν ua ub hlb i (by rw [← hla]; exact hi))
    (fun j hj => getD_zip_comb μ ν wa wb hlw j hj)).mpr this

/-- [R] **the open dual cone is convex** -/
theorem dual_convex (al ua wa ub wb : List ℝ) (hal : ∀ a ∈ al, 0 < a) (hsum : al.sum = 1)
    (hla : al.length = ua.length) (hlb : ub.length = ua.length) (hlw : wb.length = wa.length)
    (hA : DualInt al ua wa) (hB : DualInt al ub wb) {μ ν : ℝ} (hμ : 0 ≤ μ) (hν : 0 ≤ ν)
    (h1 : μ + ν = 1) :
    DualInt al ((ua.zip ub).map (combFn μ ν)) ((wa.zip wb).map (combFn μ ν)) := by
  have hal' := (forall_mem_range (fun x => 0 < x) al).mp hal
  have hsum' : ∑ i ∈ range al.length, al.getD i 0 = 1 := by rw [← list_sum_range]; exact hsum
  rw [dual_iff al _ _ hla hal] at hA
  rw [dual_iff al _ _ (by rw [hlb]; exact hla) hal, hlw] at hB
  rw [dual_iff al _ _ (by rw [length_zip_comb μ ν _ _ hlb]; exact hla) hal,
    length_zip_comb μ ν _ _ hlw]
  have := IntF.convex hal' hsum' hA hB hμ hν h1
  refine (IntF.congr (fun _ _ => rfl) (fun i hi => ?_)
    (fun j hj => getD_zip_comb μ ν wa wb hlw j hj)).mpr this
  rw [getD_zip_comb μ ν ua ub hlb i (by rw [← hla]; exact hi)]
  ring

/-! ## on the model's membership tests -/

/-- every array the primal membership test accepts has the form `u ++ w` with `|u| = |α|` -/
theorem isPrimalFeasible_shape (al s : Array ℝ) (h : GenPow.isPrimalFeasible al s = .ok true) :
    ∃ u w : List ℝ, s = (u ++ w).toArray ∧ al.toList.length = u.length := by
  have hsz : al.size ≤ s.size := by
    by_contra hlt
    unfold GenPow.isPrimalFeasible GenPow.split at h
    simp [hlt, bind, Except.bind, throw, throwThe, MonadExceptOf.throw] at h
  refine ⟨s.toList.take al.size, s.toList.drop al.size, ?_, ?_⟩
  · simp
  · simp [hsz]

/-- [R] `is_dual_feasible` along a ray: true at the start `z` and at `z + α·dz` ⟹ true at every
`z + t·dz`, `0 ≤ t ≤ α` -/
theorem isDualFeasible_segment (al z dz : Array ℝ) (hal : ∀ a ∈ al.toList, 0 < a)
    (hsum : al.toList.sum = 1) (hsz : dz.size = z.size) (hz : GenPow.isDualFeasible al z = .ok true)
    (α : ℝ) (hα : GenPow.isDualFeasible al (Vec.waxpby 1 z α dz) = .ok true) (t : ℝ) (ht0 : 0 ≤ t)
    (ht : t ≤ α) : GenPow.isDualFeasible al (Vec.waxpby 1 z t dz) = .ok true := by
  obtain ⟨uz, wz, rfl, hl⟩ := GenPow.isDualFeasible_shape al z hz
  obtain ⟨l⟩ := al
  simp only at hl hal hsum
  have hI : DualInt l uz wz := (GenPow.isDualFeasible_iff l uz wz hl hal).mp hz
  have hacc : ∀ u w, (Vec.waxpby 1 (uz ++ wz).toArray α dz).toList = u ++ w → l.length = u.length →
      DualInt l u w := by
    intro u w huw hul
    have e : Vec.waxpby 1 (uz ++ wz).toArray α dz = (u ++ w).toArray := by rw [← huw]
    rw [e] at hα
    exact (GenPow.isDualFeasible_iff l u w hul hal).mp hα
  obtain ⟨hdu, _, hc⟩ := candidate_split (uz ++ wz).toArray dz hsz uz wz rfl t
  have := dual_segment l hal hsum _ dz hsz uz wz rfl hl hI α hacc t ht0 ht _ _ hc
    (by rw [length_zip_map t _ _ hdu]; exact hl)
  have e := congrArg List.toArray hc
  rw [Array.toArray_toList] at e
  rw [e]
  exact (GenPow.isDualFeasible_iff l _ _ (by rw [length_zip_map t _ _ hdu]; exact hl) hal).mpr this

/-- [R] `is_primal_feasible` along a ray -/
theorem isPrimalFeasible_segment (al s ds : Array ℝ) (hal : ∀ a ∈ al.toList, 0 < a)
    (hsum : al.toList.sum = 1) (hsz : ds.size = s.size) (hs : GenPow.isPrimalFeasible al s = .ok true)
    (α : ℝ) (hα : GenPow.isPrimalFeasible al (Vec.waxpby 1 s α ds) = .ok true) (t : ℝ) (ht0 : 0 ≤ t)
    (ht : t ≤ α) : GenPow.isPrimalFeasible al (Vec.waxpby 1 s t ds) = .ok true := by
  obtain ⟨us, ws, rfl, hl⟩ := isPrimalFeasible_shape al s hs
  obtain ⟨l⟩ := al
  simp only at hl hal hsum
  have hI : PrimalInt l us ws := (GenPow.isPrimalFeasible_iff l us ws hl).mp hs
  have hacc : ∀ u w, (Vec.waxpby 1 (us ++ ws).toArray α ds).toList = u ++ w → l.length = u.length →
      PrimalInt l u w := by
    intro u w huw hul
    have e : Vec.waxpby 1 (us ++ ws).toArray α ds = (u ++ w).toArray := by rw [← huw]
    rw [e] at hα
    exact (GenPow.isPrimalFeasible_iff l u w hul).mp hα
  obtain ⟨hdu, _, hc⟩ := candidate_split (us ++ ws).toArray ds hsz us ws rfl t
  have := primal_segment l hal hsum _ ds hsz us ws rfl hl hI α hacc t ht0 ht _ _ hc
    (by rw [length_zip_map t _ _ hdu]; exact hl)
  have e := congrArg List.toArray hc
  rw [Array.toArray_toList] at e
  rw [e]
  exact (GenPow.isPrimalFeasible_iff l _ _ (by rw [length_zip_map t _ _ hdu]; exact hl)).mpr this

/-- a zero step: `waxpby(1, q, 0, dq) = q` for a direction of the same length -/
theorem waxpby_zero (q dq : Array ℝ) (hsz : dq.size = q.size) : Vec.waxpby 1 q 0 dq = q := by
  apply Array.ext'
  simp only [Vec.waxpby]
  have hl : dq.toList.length = q.toList.length := by simp [hsz]
  generalize q.toList = a at hl
  generalize dq.toList = b at hl
  induction a generalizing b with
  | nil => simp
  | cons x t ih =>
    cases b with
    | nil => simp at hl
    | cons y r =>
      simp only [List.zip_cons_cons, List.map_cons, List.cons.injEq]
      exact ⟨by ring, ih r (by simpa using hl)⟩

/-- `inPrimal` is `is_primal_feasible = Ok(true)` -/
theorem inPrimal_iff (al x : Array ℝ) :
    GenPow.inPrimal al x = true ↔ GenPow.isPrimalFeasible al x = .ok true := by
  unfold GenPow.inPrimal
  cases h : GenPow.isPrimalFeasible al x with
  | ok b => cases b <;> simp
  | error e => simp

/-- [R] `GenPowerCone::step_length` from interior points: the whole segments up to the two returned
step lengths pass the membership tests (also when the failure value `0` is returned) -/
theorem stepLength_segments (al dz ds z s : Array ℝ) (step aMin aMax : ℝ) (fuel : Nat)
    (hal : ∀ a ∈ al.toList, 0 < a) (hsum : al.toList.sum = 1) (az as : ℝ)
    (h : GenPow.stepLength al dz ds z s step aMin aMax fuel = .ok (az, as))
    (hdz : dz.size = z.size) (hds : ds.size = s.size)
    (hz : GenPow.isDualFeasible al z = .ok true) (hs : GenPow.isPrimalFeasible al s = .ok true) :
    (∀ t, 0 ≤ t → t ≤ az → GenPow.isDualFeasible al (Vec.waxpby 1 z t dz) = .ok true) ∧
    (∀ t, 0 ≤ t → t ≤ as → GenPow.isPrimalFeasible al (Vec.waxpby 1 s t ds) = .ok true) := by
  unfold GenPow.stepLength at h
  cases h1 : Nonsym.backtrackSearch dz z aMax aMin step (GenPow.inDual al) fuel with
  | error e => rw [h1] at h; simp [bind, Except.bind] at h
  | ok a1 =>
    rw [h1] at h
    cases h2 : Nonsym.backtrackSearch ds s aMax aMin step (GenPow.inPrimal al) fuel with
    | error e => rw [h2] at h; simp [bind, Except.bind] at h
    | ok a2 =>
      rw [h2] at h
      simp only [bind, Except.bind, pure, Except.pure, Except.ok.injEq, Prod.mk.injEq] at h
      obtain ⟨rfl, rfl⟩ := h
      constructor
      · intro t ht0 ht
        rcases Nonsym.backtrackSearch_post dz z aMin step (GenPow.inDual al) fuel aMax a1 h1 with h0 | hin
        · have : t = 0 := by rw [h0] at ht; linarith
          rw [this, waxpby_zero z dz hdz]; exact hz
        · exact isDualFeasible_segment al z dz hal hsum hdz hz a1 ((GenPow.inDual_iff al _).mp hin) t
            ht0 ht
      · intro t ht0 ht
        rcases Nonsym.backtrackSearch_post ds s aMin step (GenPow.inPrimal al) fuel aMax a2 h2 with h0 | hin
        · have : t = 0 := by rw [h0] at ht; linarith
          rw [this, waxpby_zero s ds hds]; exact hs
        · exact isPrimalFeasible_segment al s ds hal hsum hds hs a2 ((inPrimal_iff al _).mp hin) t
            ht0 ht

end Clarabel.GenPowConvex
