/-
  Clique-graph merge strategy: the stage specifications of `ChordalCGDefs.lean` /
  `ChordalCGSpecs.lean` discharged by the theorems of `ChordalCG{Triplets,MatOps,Reduced,Init,
  Traverse,UpdState,UpdInv,PostMulti,PostSingle}.lean`, and the end-to-end statements without
  specification hypotheses.
-/
import ClarabelProofs.Lemmas.ChordalCGMain
import ClarabelProofs.Lemmas.ChordalCGWeights
import ClarabelProofs.Lemmas.ChordalCGTriplets
import ClarabelProofs.Lemmas.ChordalCGMatOps
import ClarabelProofs.Lemmas.ChordalCGReduced
import ClarabelProofs.Lemmas.ChordalCGInit
import ClarabelProofs.Lemmas.ChordalCGTraverse
import ClarabelProofs.Lemmas.ChordalCGUpdState
import ClarabelProofs.Lemmas.ChordalCGUpdInv
import ClarabelProofs.Lemmas.ChordalCGPostMulti
import ClarabelProofs.Lemmas.ChordalCGPostSingle

namespace Clarabel.Chordal
open Clarabel

/-- [S] `initialise` establishes the loop invariant -/
theorem initialise_ok : InitialiseSpec :=
  initialise_spec newFromTriplets_spec reduced_ok reduced_tree_edge

/-- [S] what `update_strategy` does to the edge matrix and the adjacency table -/
theorem update_state_ok : UpdateStateSpec := updateStrategy_state setEntry_spec dropzeros_spec

/-- [S] one merge preserves the loop invariant -/
theorem merge_update_ok : MergeUpdateSpec := merge_update_spec update_state_ok

/-- [S] the invariant says that THE ADJACENCY TABLE NEVER MENTIONS A REMOVED CLIQUE: a member of
the adjacency set of a live clique is a live clique (and a different one) -/
theorem CGInv.nbrs_live {N nv : Nat} {s : CGStrategy} {t : SuperNodeTree} (h : CGInv N nv s t)
    {a b : Nat} (ha : CGLive t a) (hb : b ∈ (s.adjacencyTable.nbrs a).toList) :
    CGLive t b ∧ a ≠ b := by
  obtain ⟨hadj, hne⟩ := (h.adj_iff a b ha).1 hb
  have := h.edge_live _ _ hadj
  refine ⟨?_, hne⟩
  rcases Nat.le_total a b with hab | hab
  · rw [Nat.max_eq_right hab, Nat.min_eq_left hab] at this; exact this.1
  · rw [Nat.max_eq_left hab, Nat.min_eq_right hab] at this; exact this.2

/-- [S] the adjacency table is symmetric under the invariant -/
theorem CGInv.nbrs_symm {N nv : Nat} {s : CGStrategy} {t : SuperNodeTree} (h : CGInv N nv s t)
    {a b : Nat} (ha : CGLive t a) (hb : b ∈ (s.adjacencyTable.nbrs a).toList) :
    a ∈ (s.adjacencyTable.nbrs b).toList := by
  obtain ⟨hadj, hne⟩ := (h.adj_iff a b ha).1 hb
  exact (h.adj_iff b a (h.nbrs_live ha hb).1).2 ⟨hadj.symm, Ne.symm hne⟩

/-- [S] what `CGInv` gives to `kruskal_determineParentCliques`: `WFE`, `Lower`, the live list is
duplicate-free of length `n_cliques` with members `< n`, all edges inside it, and it is connected -/
theorem CGInv.kruskal_hyps {N nv : Nat} {s : CGStrategy} {t : SuperNodeTree}
    (h : CGInv N nv s t) :
    s.edges.WFE ∧ s.edges.Lower ∧ (cgLiveList t).Nodup ∧ (cgLiveList t).length = t.nCliques ∧
    (∀ v ∈ cgLiveList t, v < s.edges.n) ∧
    (∀ e ∈ s.edges.edges, e.1 ∈ cgLiveList t ∧ e.2 ∈ cgLiveList t) ∧
    (∀ u ∈ cgLiveList t, ∀ v ∈ cgLiveList t, Conn s.edges.edges u v) := by
  refine ⟨h.good.wfe, h.good.lower, cgLiveList_nodup t, h.ncl.symm, ?_, ?_, ?_⟩
  · intro v hv
    rw [h.en, ← h.sz]
    exact ((mem_cgLiveList t v).1 hv).1
  · intro e he
    have := h.edge_live e.1 e.2 ((h.good.mem_edges e.1 e.2).1 he)
    exact ⟨(mem_cgLiveList t _).2 this.1, (mem_cgLiveList t _).2 this.2⟩
  · intro u hu v hv
    exact h.conn u v ((mem_cgLiveList t u).1 hu) ((mem_cgLiveList t v).1 hv)

/-- [S] the tree of `SuperNodeTree::new exFilledL` has at least two cliques: the vertices `0` and
`3` are not adjacent, so they cannot lie in one clique (non-vacuity of `SnTreeOk L t0` together
with `2 ≤ t0.snode.size`) -/
theorem exFilledL_two_cliques : ∃ t0, SuperNodeTree.new exFilledL = .ok t0 ∧
    SnTreeOk exFilledL t0 ∧ 2 ≤ t0.snode.size := by
  obtain ⟨t0, hnew, hok⟩ := sntree_new_ok exFilledL_filled
  refine ⟨t0, hnew, hok, ?_⟩
  have hpart := hok.cover.partition
  have hpos := hok.pos
  by_contra hlt
  have h1 : t0.snode.size = 1 := by omega
  have hlen : t0.snode.toList.length = 1 := by simpa using h1
  obtain ⟨a, ha⟩ : ∃ a, t0.snode.toList = [a] := by
    match hm : t0.snode.toList, hlen with
    | [a], _ => exact ⟨a, rfl⟩
  have hget : t0.snode.getD 0 #[] = a := by
    have h0 : t0.snode[0]? = some a := by
      rw [← Array.getElem?_toList, ha]; rfl
    simp [Array.getD_eq_getD_getElem?, h0]
  rw [ha] at hpart
  simp only [List.flatMap_cons, List.flatMap_nil, List.append_nil] at hpart
  have m0 : 0 ∈ (t0.snode.getD 0 #[]).toList := by rw [hget]; exact hpart.mem_iff.2 (by decide)
  have m3 : 3 ∈ (t0.snode.getD 0 #[]).toList := by rw [hget]; exact hpart.mem_iff.2 (by decide)
  have := hok.cover.clique exFilledL_filled 0 (by omega) 0 3 (Or.inl m0) (Or.inl m3) (by decide)
  revert this
  decide

/-- [S] the whole loop of `merge_cliques` (clique-graph strategy) -/
theorem cg_loop_ok (N nv : Nat) (fuel : Nat) (s : CGStrategy) (t : SuperNodeTree)
    (hinv : CGInv N nv s t) (h2 : 2 ≤ t.nCliques)
    (hfuel : (if s.stop then 1 else t.nCliques + 1) ≤ fuel) :
    ∃ s' t', CGStrategy.loop fuel s t = .ok (s', t') ∧ CGInv N nv s' t' ∧ CGFrame t t' ∧
      CGCover t t' ∧ 1 ≤ t'.nCliques :=
  cg_loop_spec traverse_spec evaluate_spec merge_update_ok N nv fuel s t hinv h2 hfuel

/-- [S] `initialise` + the loop on the tree of `SuperNodeTree::new` -/
theorem cg_front_ok {L : LPat} (h : L.Filled) {t0 : SuperNodeTree} (hok : SnTreeOk L t0)
    (h2 : 2 ≤ t0.snode.size) :
    ∃ s1 t1 s t, CGStrategy.new.initialise t0 = .ok (s1, t1) ∧
      CGStrategy.loop (t1.snode.size + 2) s1 t1 = .ok (s, t) ∧
      CGInitRel t0 t1 ∧ CGInv t0.snode.size L.n s1 t1 ∧
      CGInv t0.snode.size L.n s t ∧ CGFrame t1 t ∧ CGCover t1 t ∧ 1 ≤ t.nCliques :=
  cg_front_spec initialise_ok traverse_spec evaluate_spec merge_update_ok h hok h2

/-- [S] `merge_cliques` (clique-graph strategy) never panics on the tree of a filled pattern -/
theorem merge_cliques_cg_no_panic {L : LPat} (h : L.Filled) {t0 : SuperNodeTree}
    (hok : SnTreeOk L t0) (h2 : 2 ≤ t0.snode.size) :
    ∃ t', CGStrategy.mergeCliques t0 = .ok t' :=
  merge_cliques_cg_ok initialise_ok traverse_spec evaluate_spec merge_update_ok post_multi_spec
    post_single_spec h hok h2

/-- [S] **C17 for the strategy `clique_graph`, up to the two tested links `cgRipB`, `cgNonemptyB`** -/
theorem analysis_cg_valid_partial {L : LPat} (h : L.Filled) (ordering : Array Nat)
    (ho : ordering.toList.Perm (List.range L.n)) (edges : List (Nat × Nat))
    (hedges : EdgesIn L ordering edges) (hrip : cgRipB L = true)
    (hne : cgNonemptyB L = true) :
    ∃ tf ord', sparsityPatternNewCG L ordering = .ok (tf, ord') ∧
      ValidCliqueTree L.n edges tf ord' ∧ validCliqueTreeB L.n edges tf ord' = true :=
  analysis_cg_valid_of_specs initialise_ok traverse_spec evaluate_spec merge_update_ok
    post_multi_spec post_single_spec h ordering ho edges hedges hrip hne

end Clarabel.Chordal
