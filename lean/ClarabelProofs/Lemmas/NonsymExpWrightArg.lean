/-
  Exponential cone (C14 / C04): the range check of `_wright_omega` over ℝ.

  `ExponentialCone::_wright_omega(z)` panics (`"argument not in supported range"`) for `z < 0`.
  Its two callers, `gradient_primal(s)` and `barrier_primal(s)`, hand it
  `z = 1 − s₀/s₁ − log(s₁/s₂)`.  At every point the code's own test `is_primal_feasible(s)`
  accepts (`s₂ > 0`, `s₁ > 0`, `s₁·log(s₂/s₁) − s₀ > 0`) this is
  `z = 1 + (s₁·log(s₂/s₁) − s₀)/s₁ > 1`; so over ℝ the panic is unreachable from both call sites
  at accepted points, and `update_scaling` / `compute_barrier` of the cone return.
-/
import ClarabelProofs.Lemmas.NonsymExpStart

namespace Clarabel.Exp
open Clarabel Nonsym

/-- what `is_primal_feasible` tests, over ℝ -/
theorem isPrimalFeasible_real {s0 s1 s2 : ℝ} (h : isPrimalFeasible s0 s1 s2 = true) :
    0 < s1 ∧ 0 < s2 ∧ 0 < s1 * Real.log (s2 / s1) - s0 := by
  unfold isPrimalFeasible at h
  by_cases h2 : 0 < s2
  · by_cases h1 : 0 < s1
    · simp only [h1, h2, decide_true, Bool.and_self, if_true] at h
      rw [logsafe_of_pos (div_pos h2 h1)] at h
      by_cases hr : 0 < s1 * Real.log (s2 / s1) - s0
      · exact ⟨h1, h2, hr⟩
      · rw [if_neg hr] at h; exact absurd h (by decide)
    · simp [h1] at h
  · simp [h2] at h

/-- the exact form of the Wright-omega argument on `s₁, s₂ > 0`:
`1 − s₀/s₁ − log(s₁/s₂) = 1 + (s₁·log(s₂/s₁) − s₀)/s₁` (the second summand is the residual
`is_primal_feasible` tests, over `s₁`) -/
theorem omegaArg_eq_residual {s0 s1 s2 : ℝ} (h1 : 0 < s1) (h2 : 0 < s2) :
    omegaArg s0 s1 s2 = 1 + (s1 * Real.log (s2 / s1) - s0) / s1 := by
  unfold omegaArg
  rw [logsafe_of_pos (div_pos h1 h2)]
  have hinv : s1 / s2 = (s2 / s1)⁻¹ := (inv_div s2 s1).symm
  rw [hinv, Real.log_inv]
  field_simp
  ring

/-- **the argument handed to `_wright_omega` is `> 1` at every point `is_primal_feasible` accepts** -/
theorem omegaArg_gt_one_of_feasible {s0 s1 s2 : ℝ} (h : isPrimalFeasible s0 s1 s2 = true) :
    1 < omegaArg s0 s1 s2 := by
  obtain ⟨h1, h2, hr⟩ := isPrimalFeasible_real h
  rw [omegaArg_eq_residual h1 h2]
  have := div_pos hr h1
  linarith

/-- `_wright_omega` returns on its supported range -/
theorem wrightOmega_ok_of_nonneg {z : ℝ} (hz : 0 ≤ z) : ∃ w, wrightOmega z = .ok w :=
  ⟨_, wrightOmega_eq hz⟩

/-- the Wright-omega call of `gradient_primal` / `barrier_primal` returns at accepted points -/
theorem wrightOmega_omegaArg_ok {s0 s1 s2 : ℝ} (h : isPrimalFeasible s0 s1 s2 = true) :
    ∃ w, wrightOmega (omegaArg s0 s1 s2) = .ok w :=
  wrightOmega_ok_of_nonneg (le_of_lt (lt_trans one_pos (omegaArg_gt_one_of_feasible h)))

/-- `gradient_primal` returns at every point `is_primal_feasible` accepts -/
theorem gradientPrimal_ok_of_feasible {s : V3 ℝ} (h : isPrimalFeasible s.1 s.2.1 s.2.2 = true) :
    ∃ w, wrightOmega (omegaArg s.1 s.2.1 s.2.2) = .ok w ∧
      gradientPrimal s = .ok (gradientPrimalOf w s.1 s.2.1 s.2.2) := by
  obtain ⟨w, hw⟩ := wrightOmega_omegaArg_ok h
  refine ⟨w, hw, ?_⟩
  unfold gradientPrimal
  rw [hw]
  rfl

/-- `barrier_primal` returns at every point `is_primal_feasible` accepts -/
theorem barrierPrimal_ok_of_feasible {s : V3 ℝ} (h : isPrimalFeasible s.1 s.2.1 s.2.2 = true) :
    ∃ b, barrierPrimal s = .ok b := by
  obtain ⟨w, hw⟩ := wrightOmega_omegaArg_ok h
  unfold barrierPrimal
  rw [hw]
  exact ⟨_, rfl⟩

/-- the only panic of `gradient_primal` / `barrier_primal` is the range check, and it needs a point
`is_primal_feasible` rejects -/
theorem gradientPrimal_panic_rejected {s : V3 ℝ} {site : String}
    (h : gradientPrimal s = .error (.panic site)) : isPrimalFeasible s.1 s.2.1 s.2.2 = false := by
  by_contra hc
  have hf : isPrimalFeasible s.1 s.2.1 s.2.2 = true := by
    cases hb : isPrimalFeasible s.1 s.2.1 s.2.2 <;> simp_all
  obtain ⟨w, _, hg⟩ := gradientPrimal_ok_of_feasible hf
  rw [hg] at h
  cases h

theorem barrierPrimal_panic_rejected {s : V3 ℝ} {site : String}
    (h : barrierPrimal s = .error (.panic site)) : isPrimalFeasible s.1 s.2.1 s.2.2 = false := by
  by_contra hc
  have hf : isPrimalFeasible s.1 s.2.1 s.2.2 = true := by
    cases hb : isPrimalFeasible s.1 s.2.1 s.2.2 <;> simp_all
  obtain ⟨b, hb⟩ := barrierPrimal_ok_of_feasible hf
  rw [hb] at h
  cases h

/-- `update_scaling(s, z, μ, strategy)` of the exponential cone returns when the strategy is `Dual`
(no Wright-omega call) or `s` passes `is_primal_feasible` -/
theorem updateScaling_ok_of_feasible (s z : V3 ℝ) (mu : ℝ) (dual : Bool)
    (h : dual = true ∨ isPrimalFeasible s.1 s.2.1 s.2.2 = true) :
    ∃ K, updateScaling s z mu dual = .ok K := by
  unfold updateScaling
  rcases h with h | h
  · subst h
    exact ⟨_, rfl⟩
  · cases dual with
    | true => exact ⟨_, rfl⟩
    | false =>
      obtain ⟨w, _, hg⟩ := gradientPrimal_ok_of_feasible h
      simp only [Bool.false_eq_true, if_false]
      rw [hg]
      exact ⟨_, rfl⟩

/-- `compute_barrier(z, s, dz, ds, α)` of the exponential cone returns when the candidate point
`s + α·ds` passes `is_primal_feasible` -/
theorem computeBarrier_ok_of_feasible (z s dz ds : V3 ℝ) (a : ℝ)
    (h : isPrimalFeasible (s.1 + a * ds.1) (s.2.1 + a * ds.2.1) (s.2.2 + a * ds.2.2) = true) :
    ∃ b, computeBarrier z s dz ds a = .ok b := by
  obtain ⟨b, hb⟩ := barrierPrimal_ok_of_feasible
    (s := (s.1 + a * ds.1, s.2.1 + a * ds.2.1, s.2.2 + a * ds.2.2)) h
  unfold computeBarrier
  simp only []
  rw [hb]
  exact ⟨_, rfl⟩

end Clarabel.Exp
