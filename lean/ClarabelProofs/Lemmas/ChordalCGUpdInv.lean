/-
  Clique-graph merge strategy: ONE MERGE PRESERVES THE LOOP INVARIANT
  (`merge_two_cliques` + `update_strategy` of `src/solver/chordal/merge/clique_graph.rs`, model
  `ClarabelModel/Chordal/MergeCG.lean`).

  `UpdateStateSpec` (what `update_strategy` does to the edge matrix and to the adjacency table,
  `ChordalCGUpdState.lean`) is a HYPOTHESIS here; everything else is proved:

  * `cgv_*`                     : a `Good` edge matrix as a graph (`edges`, `entry`, `Adj`);
  * `mergeTwoCliques_ok`        : `merge_two_cliques` does not panic, explicit result `cgMerged`;
  * `cgLive_merged`, `cgLiveList_merged_length`, `cgMerged_frame`, `cgMerged_cover`;
  * `cg_contract_conn`          : contracting an edge preserves connectivity;
  * `cg_contract_card`          : contracting an edge does not create entries;
  * `merge_update_spec (hU : UpdateStateSpec) : MergeUpdateSpec`.
-/
import ClarabelProofs.Lemmas.ChordalCGSpecs
import ClarabelProofs.Lemmas.ChordalMergePC
import Mathlib.Data.List.Nodup
import Mathlib.Data.List.Perm.Subperm

namespace Clarabel.Chordal
open Clarabel

/-! ## a `Good` edge matrix as a graph -/

/-- [S] a column index beyond the matrix holds no entry -/
theorem cgv_entry_none_of_ge {E : IMat} (h : E.WFE) {c : Nat} (hc : E.n ≤ c) (r : Nat) :
    E.entry r c = none := by
  have h0 : E.colptr.getD (c + 1) 0 = 0 := by
    have := h.cpsize
    simp [Array.getD_eq_getD_getElem?, Array.getElem?_eq_none (show E.colptr.size ≤ c + 1 by omega)]
  have he : E.colRows c = #[] := by
    unfold IMat.colRows
    rw [h0]
    apply Array.ext'
    simp
  unfold IMat.entry
  rw [he]
  simp

/-- [S] an entry exists only inside the matrix -/
theorem cgv_col_lt_of_entry {E : IMat} (h : E.WFE) {r c : Nat}
    (he : (E.entry r c).isSome = true) : c < E.n := by
  by_contra hc
  rw [cgv_entry_none_of_ge h (by omega)] at he
  simp at he

/-- [S] the stored entry `k` is found by `entry` at its own coordinates -/
theorem cgv_entry_of_index {E : IMat} (h : E.Good) {k : Nat} (hk : k < E.rowval.size) :
    E.entry (E.rowval.getD k 0) (E.colIdx.getD k 0) = some (E.nzval.getD k 0) :=
  (entry_eq_some_iff h.wfe h.lower (colIdx_spec h.wfe hk).1 _).mpr ⟨k, hk, rfl, rfl, rfl⟩

/-- [S] the edge list consists of the positions with a stored entry -/
theorem cgv_mem_edges {E : IMat} (h : E.Good) (r c : Nat) :
    (r, c) ∈ E.edges ↔ (E.entry r c).isSome = true := by
  simp only [IMat.edges, List.mem_map, List.mem_range, Prod.mk.injEq]
  constructor
  · rintro ⟨k, hk, rfl, rfl⟩
    rw [cgv_entry_of_index h hk]; rfl
  · intro he
    have hc := cgv_col_lt_of_entry h.wfe he
    obtain ⟨v, hv⟩ := Option.isSome_iff_exists.mp he
    obtain ⟨k, hk, h1, h2, _⟩ := (entry_eq_some_iff h.wfe h.lower hc v).mp hv
    exact ⟨k, hk, h2, h1⟩

/-- [S] no edge is listed twice -/
theorem cgv_edges_nodup {E : IMat} (h : E.Good) : E.edges.Nodup := by
  unfold IMat.edges
  refine List.Nodup.map_on ?_ List.nodup_range
  intro k hk k' hk' he
  simp only [List.mem_range] at hk hk'
  simp only [Prod.mk.injEq] at he
  exact h.lower.nodup k k' hk hk' he.2 he.1

/-- [S] one edge per stored entry -/
theorem cgv_edges_length (E : IMat) : E.edges.length = E.rowval.size := by
  simp [IMat.edges]

/-- [S] stored entries are strictly below the diagonal and inside the matrix -/
theorem cgv_entry_lt {E : IMat} (h : E.Good) {r c : Nat}
    (he : (E.entry r c).isSome = true) : c < r ∧ r < E.n := by
  have hc := cgv_col_lt_of_entry h.wfe he
  obtain ⟨v, hv⟩ := Option.isSome_iff_exists.mp he
  obtain ⟨k, hk, h1, h2, _⟩ := (entry_eq_some_iff h.wfe h.lower hc v).mp hv
  have := h.lower.lower k hk
  have := h.wfe.rows k hk
  omega

/-- [S] `Adj` is irreflexive (the matrix is strictly lower triangular) -/
theorem cgv_adj_irrefl {E : IMat} (h : E.Good) (a : Nat) : ¬ E.Adj a a := by
  intro ha
  unfold IMat.Adj at ha
  rw [Nat.max_self, Nat.min_self] at ha
  have := (cgv_entry_lt h ha).1
  omega

/-- [S] adjacent cliques are distinct -/
theorem cgv_adj_ne {E : IMat} (h : E.Good) {a b : Nat} (hab : E.Adj a b) : a ≠ b := by
  rintro rfl
  exact cgv_adj_irrefl h a hab

/-- [S] a stored entry joins its coordinates -/
theorem cgv_adj_of_entry {E : IMat} (h : E.Good) {r c : Nat}
    (he : (E.entry r c).isSome = true) : E.Adj r c := by
  have := (cgv_entry_lt h he).1
  unfold IMat.Adj
  rwa [Nat.max_eq_left (by omega), Nat.min_eq_right (by omega)]

/-- [S] the edge list is the relation `Adj`, oriented downwards -/
theorem cgv_mem_edges_iff_adj {E : IMat} (h : E.Good) (r c : Nat) :
    (r, c) ∈ E.edges ↔ E.Adj r c ∧ c < r := by
  rw [cgv_mem_edges h]
  constructor
  · intro he
    exact ⟨cgv_adj_of_entry h he, (cgv_entry_lt h he).1⟩
  · rintro ⟨ha, hlt⟩
    unfold IMat.Adj at ha
    rwa [Nat.max_eq_left (by omega), Nat.min_eq_right (by omega)] at ha

/-- [S] `Adj` is the symmetric closure of the edge list -/
theorem cgv_adj_iff_mem {E : IMat} (h : E.Good) (a b : Nat) :
    E.Adj a b ↔ (a, b) ∈ E.edges ∨ (b, a) ∈ E.edges := by
  rw [cgv_mem_edges_iff_adj h, cgv_mem_edges_iff_adj h]
  constructor
  · intro hab
    have hne := cgv_adj_ne h hab
    rcases Nat.lt_or_gt_of_ne hne with hlt | hgt
    · exact Or.inr ⟨hab.symm, hlt⟩
    · exact Or.inl ⟨hab, hgt⟩
  · rintro (⟨hab, _⟩ | ⟨hba, _⟩)
    · exact hab
    · exact hba.symm

/-- [S] adjacent cliques are connected -/
theorem cgv_conn_of_adj {E : IMat} (h : E.Good) {a b : Nat} (hab : E.Adj a b) :
    Conn E.edges a b := by
  rcases (cgv_adj_iff_mem h a b).mp hab with h1 | h1
  · exact Conn.edge h1
  · exact (Conn.edge h1).symm

/-- [S] the number of stored values is the number of edges -/
theorem cgv_nzval_size {E : IMat} (h : E.Good) : E.nzval.size = E.edges.length := by
  rw [cgv_edges_length, h.wfe.nnz_val]

/-! ## `merge_two_cliques` -/

/-- the tree after `merge_two_cliques (r, c)`: clique `c` is poured into clique `r` and emptied -/
def cgMerged (t : SuperNodeTree) (r c : Nat) : SuperNodeTree :=
  { t with
    snode := (t.snode.setIfInBounds r
      ((t.snode.getD r #[]).extend (t.snode.getD c #[]).toList)).setIfInBounds c #[]
    nCliques := t.nCliques - 1 }

/-- [S] `merge_two_cliques` on two distinct stored cliques, with a positive clique counter, does
not panic and returns `cgMerged` -/
theorem mergeTwoCliques_ok (s : CGStrategy) (t : SuperNodeTree) {r c : Nat} (hne : r ≠ c)
    (hr : r < t.snode.size) (hc : c < t.snode.size) (hn : t.nCliques ≠ 0) :
    s.mergeTwoCliques t (r, c) = .ok (cgMerged t r c) := by
  unfold CGStrategy.mergeTwoCliques
  simp only [setUnionIntoIndexed_ok t.snode r c hne hr hc, bind, Except.bind]
  rw [Kr.setE_ok _ _ _ _ (by simpa using hc)]
  have hb : (t.nCliques == 0) = false := by simpa using hn
  simp only [hb, Bool.false_eq_true, if_false]
  rfl

/-- [S] the surviving clique is the union -/
theorem cgMerged_snode_r (t : SuperNodeTree) {r c : Nat} (hne : r ≠ c) (hr : r < t.snode.size) :
    (cgMerged t r c).snode.getD r #[] = (t.snode.getD r #[]).extend (t.snode.getD c #[]).toList := by
  simp [cgMerged, Array.getD_eq_getD_getElem?, hr, Ne.symm hne]

/-- [S] the removed clique is empty -/
theorem cgMerged_snode_c (t : SuperNodeTree) (r c : Nat) :
    (cgMerged t r c).snode.getD c #[] = #[] := by
  by_cases hc : c < t.snode.size
  · simp [cgMerged, Array.getD_eq_getD_getElem?, hc]
  · simp [cgMerged, Array.getD_eq_getD_getElem?, hc]

/-- [S] the other cliques are unchanged -/
theorem cgMerged_snode_other (t : SuperNodeTree) {r c a : Nat} (har : a ≠ r) (hac : a ≠ c) :
    (cgMerged t r c).snode.getD a #[] = t.snode.getD a #[] := by
  simp [cgMerged, Array.getD_eq_getD_getElem?, Ne.symm har, Ne.symm hac]

/-- [S] the number of stored cliques is unchanged -/
theorem cgMerged_size (t : SuperNodeTree) (r c : Nat) :
    (cgMerged t r c).snode.size = t.snode.size := by
  simp [cgMerged]

/-- [S] `merge_two_cliques` touches `snode` and `n_cliques` only -/
theorem cgMerged_frame (t : SuperNodeTree) (r c : Nat) : CGFrame t (cgMerged t r c) :=
  ⟨rfl, rfl, rfl, rfl, rfl, rfl, cgMerged_size t r c⟩

/-! ## liveness after the merge -/

/-- [S] a clique with a member is live -/
theorem cgv_live_of_mem {t : SuperNodeTree} {c v : Nat} (hv : v ∈ (t.snode.getD c #[]).toList) :
    CGLive t c := by
  refine ⟨?_, ?_⟩
  · by_contra hc
    have : t.snode.getD c #[] = #[] := by simp [Array.getD, hc]
    rw [this] at hv; simp at hv
  · intro he; rw [he] at hv; simp at hv

/-- [S] `extend` of a non-empty set is not empty -/
theorem cgv_extend_ne_empty {S : VSet} (l : List Nat) (h : S ≠ #[]) : S.extend l ≠ #[] := by
  intro he
  rcases S with ⟨l0⟩
  cases l0 with
  | nil => exact h rfl
  | cons v l0 =>
    have hv : v ∈ (VSet.extend ⟨v :: l0⟩ l).toList :=
      (VSet.mem_extend l _ v).mpr (Or.inl (by simp))
    rw [he] at hv
    simp at hv

/-- [S] the live cliques after the merge: the old ones without `c` -/
theorem cgLive_merged {t : SuperNodeTree} {r c : Nat} (hne : r ≠ c) (hr : CGLive t r) (a : Nat) :
    CGLive (cgMerged t r c) a ↔ CGLive t a ∧ a ≠ c := by
  unfold CGLive
  rw [cgMerged_size]
  by_cases hac : a = c
  · subst hac
    rw [cgMerged_snode_c]
    simp
  · by_cases har : a = r
    · subst har
      rw [cgMerged_snode_r t hne hr.1]
      have := cgv_extend_ne_empty (t.snode.getD c #[]).toList hr.2
      exact ⟨fun _ => ⟨hr, hac⟩, fun _ => ⟨hr.1, this⟩⟩
    · rw [cgMerged_snode_other t har hac]
      exact ⟨fun h => ⟨h, hac⟩, fun h => h.1⟩

/-- [S] the list of live cliques after the merge is the old one with `c` erased -/
theorem cgLiveList_merged_perm {t : SuperNodeTree} {r c : Nat} (hne : r ≠ c) (hr : CGLive t r) :
    (cgLiveList (cgMerged t r c)).Perm ((cgLiveList t).erase c) := by
  rw [List.perm_ext_iff_of_nodup (cgLiveList_nodup _) ((cgLiveList_nodup t).erase c)]
  intro a
  rw [(cgLiveList_nodup t).mem_erase_iff, mem_cgLiveList, mem_cgLiveList, cgLive_merged hne hr]
  exact And.comm

/-- [S] one live clique less -/
theorem cgLiveList_merged_length {t : SuperNodeTree} {r c : Nat} (hne : r ≠ c) (hr : CGLive t r)
    (hc : CGLive t c) :
    (cgLiveList (cgMerged t r c)).length = (cgLiveList t).length - 1 := by
  rw [(cgLiveList_merged_perm hne hr).length_eq,
    List.length_erase_of_mem ((mem_cgLiveList t c).mpr hc)]

/-- [S] two distinct live cliques: the counter is at least `2` -/
theorem cgLiveList_length_ge_two {t : SuperNodeTree} {r c : Nat} (hne : r ≠ c) (hr : CGLive t r)
    (hc : CGLive t c) : 2 ≤ (cgLiveList t).length := by
  have hsub : [r, c].Subperm (cgLiveList t) := by
    apply List.subperm_of_subset
    · simp [hne]
    · intro x hx
      simp only [List.mem_cons, List.not_mem_nil, or_false] at hx
      rcases hx with rfl | rfl
      · exact (mem_cgLiveList t _).mpr hr
      · exact (mem_cgLiveList t _).mpr hc
  exact hsub.length_le

/-- [S] the members of the cliques after the merge -/
theorem cgMerged_mem {t : SuperNodeTree} {r c : Nat} (hne : r ≠ c) (hr : r < t.snode.size)
    (a v : Nat) :
    v ∈ ((cgMerged t r c).snode.getD a #[]).toList ↔
      (a = r ∧ (v ∈ (t.snode.getD r #[]).toList ∨ v ∈ (t.snode.getD c #[]).toList)) ∨
      (a ≠ r ∧ a ≠ c ∧ v ∈ (t.snode.getD a #[]).toList) := by
  by_cases hac : a = c
  · subst hac
    rw [cgMerged_snode_c]
    simp only [List.not_mem_nil, false_iff, not_or, not_and]
    exact ⟨fun h => absurd h.symm hne, fun _ h => absurd rfl h⟩
  · by_cases har : a = r
    · subst har
      rw [cgMerged_snode_r t hne hr, VSet.mem_extend]
      simp
    · rw [cgMerged_snode_other t har hac]
      simp [har, hac]

/-- [S] COVERAGE: the clique `c` is covered by `r`, the others by themselves; no vertex is
invented -/
theorem cgMerged_cover {t : SuperNodeTree} {r c : Nat} (hne : r ≠ c) (hr : CGLive t r) :
    CGCover t (cgMerged t r c) where
  live_sub := fun a ha => ((cgLive_merged hne hr a).mp ha).1
  cover := by
    intro a ha
    by_cases hac : a = c
    · subst hac
      refine ⟨r, (cgLive_merged hne hr r).mpr ⟨hr, hne⟩, ?_⟩
      intro v hv
      exact (cgMerged_mem hne hr.1 r v).mpr (Or.inl ⟨rfl, Or.inr hv⟩)
    · refine ⟨a, (cgLive_merged hne hr a).mpr ⟨ha, hac⟩, ?_⟩
      intro v hv
      by_cases har : a = r
      · subst har
        exact (cgMerged_mem hne hr.1 a v).mpr (Or.inl ⟨rfl, Or.inl hv⟩)
      · exact (cgMerged_mem hne hr.1 a v).mpr (Or.inr ⟨har, hac, hv⟩)
  verts := by
    intro a v hv
    rcases (cgMerged_mem hne hr.1 a v).mp hv with ⟨_, hv | hv⟩ | ⟨_, _, hv⟩
    · exact ⟨r, hr, hv⟩
    · exact ⟨c, cgv_live_of_mem hv, hv⟩
    · exact ⟨a, cgv_live_of_mem hv, hv⟩

/-- [S] the cliques stay duplicate-free -/
theorem cgMerged_nodup {t : SuperNodeTree} {r c : Nat} (hne : r ≠ c) (hr : r < t.snode.size)
    (h : ∀ a, (t.snode.getD a #[]).toList.Nodup) (a : Nat) :
    ((cgMerged t r c).snode.getD a #[]).toList.Nodup := by
  by_cases hac : a = c
  · subst hac
    rw [cgMerged_snode_c]
    simp
  · by_cases har : a = r
    · subst har
      rw [cgMerged_snode_r t hne hr]
      exact VSet.nodup_extend _ _ (h a)
    · rw [cgMerged_snode_other t har hac]
      exact h a

/-- [S] the cliques stay inside `0..nv` -/
theorem cgMerged_lt {t : SuperNodeTree} {r c nv : Nat} (hne : r ≠ c) (hr : r < t.snode.size)
    (h : ∀ a, ∀ v ∈ (t.snode.getD a #[]).toList, v < nv) (a : Nat) :
    ∀ v ∈ ((cgMerged t r c).snode.getD a #[]).toList, v < nv := by
  intro v hv
  rcases (cgMerged_mem hne hr a v).mp hv with ⟨_, hv | hv⟩ | ⟨_, _, hv⟩
  · exact h r v hv
  · exact h c v hv
  · exact h a v hv

/-! ## contracting an edge of the clique graph -/

/-- the graph `E'` is the graph `E` with `cr` contracted into `c1` (the `Adj` clause of
`UpdateStateSpec`) -/
def CGContracted (E E' : IMat) (c1 cr : Nat) : Prop :=
  ∀ a b, E'.Adj a b ↔ (a ≠ cr ∧ b ≠ cr ∧
    (E.Adj a b ∨ (a = c1 ∧ E.Adj cr b ∧ b ≠ c1) ∨ (b = c1 ∧ E.Adj cr a ∧ a ≠ c1)))

/-- [S] CONTRACTING AN EDGE PRESERVES CONNECTIVITY: with `φ x = if x = cr then c1 else x`, a path
of `E` from `a` to `b` is mapped to a path of `E'` from `φ a` to `φ b` -/
theorem cg_contract_conn {E E' : IMat} (hE : E.Good) (hE' : E'.Good) {c1 cr : Nat}
    (hne : c1 ≠ cr) (hadj : CGContracted E E' c1 cr) {a b : Nat} (h : Conn E.edges a b) :
    Conn E'.edges (if a = cr then c1 else a) (if b = cr then c1 else b) := by
  unfold Conn at h
  induction h with
  | refl a => exact Conn.refl _ _
  | symm a b _ ih => exact ih.symm
  | trans a b c _ _ ih1 ih2 => exact ih1.trans ih2
  | rel a b hab =>
    have hA : E.Adj a b := (cgv_adj_iff_mem hE a b).mpr (Or.inl hab)
    have hab_ne := cgv_adj_ne hE hA
    by_cases ha : a = cr
    · by_cases hb : b = cr
      · exact absurd (ha.trans hb.symm) hab_ne
      · rw [if_pos ha, if_neg hb]
        by_cases hb1 : b = c1
        · rw [hb1]; exact Conn.refl _ _
        · apply cgv_conn_of_adj hE'
          rw [hadj]
          exact ⟨hne, hb, Or.inr (Or.inl ⟨rfl, ha ▸ hA, hb1⟩)⟩
    · by_cases hb : b = cr
      · rw [if_neg ha, if_pos hb]
        by_cases ha1 : a = c1
        · rw [ha1]; exact Conn.refl _ _
        · apply cgv_conn_of_adj hE'
          rw [hadj]
          exact ⟨ha, hne, Or.inr (Or.inr ⟨rfl, hb ▸ hA.symm, ha1⟩)⟩
      · rw [if_neg ha, if_neg hb]
        apply cgv_conn_of_adj hE'
        rw [hadj]
        exact ⟨ha, hb, Or.inl hA⟩

/-- [S] an adjacent pair, listed downwards, is an edge -/
theorem cgv_maxmin_mem_edges {E : IMat} (h : E.Good) {a b : Nat} (hab : E.Adj a b) :
    (max a b, min a b) ∈ E.edges :=
  (cgv_mem_edges h _ _).mpr hab

/-- where the injection of `cg_contract_card` sends an edge of the contracted graph: an old edge
to itself, a new edge `{c1, n}` to the old edge `{cr, n}` -/
def cgContractMap (E : IMat) (c1 cr : Nat) (e : Nat × Nat) : Nat × Nat :=
  if e ∈ E.edges then e
  else if e.1 = c1 then (max cr e.2, min cr e.2) else (max cr e.1, min cr e.1)

/-- [S] the three kinds of edges of the contracted graph and their images -/
theorem cgContractMap_cases {E E' : IMat} (hE : E.Good) (hE' : E'.Good) {c1 cr : Nat}
    (hadj : CGContracted E E' c1 cr) {x y : Nat} (he : (x, y) ∈ E'.edges) :
    y < x ∧ x ≠ cr ∧ y ≠ cr ∧ cgContractMap E c1 cr (x, y) ∈ E.edges ∧
      (((x, y) ∈ E.edges ∧ cgContractMap E c1 cr (x, y) = (x, y)) ∨
       ((x, y) ∉ E.edges ∧ x = c1 ∧ cgContractMap E c1 cr (x, y) = (max cr y, min cr y)) ∨
       ((x, y) ∉ E.edges ∧ y = c1 ∧ cgContractMap E c1 cr (x, y) = (max cr x, min cr x))) := by
  obtain ⟨hA', hlt⟩ := (cgv_mem_edges_iff_adj hE' x y).mp he
  obtain ⟨hx, hy, hcase⟩ := (hadj x y).mp hA'
  refine ⟨hlt, hx, hy, ?_⟩
  by_cases hm : (x, y) ∈ E.edges
  · have : cgContractMap E c1 cr (x, y) = (x, y) := by simp [cgContractMap, hm]
    exact ⟨by rw [this]; exact hm, Or.inl ⟨hm, this⟩⟩
  · rcases hcase with hA | ⟨hx1, hA, _⟩ | ⟨hy1, hA, hx1⟩
    · exact absurd ((cgv_mem_edges_iff_adj hE x y).mpr ⟨hA, hlt⟩) hm
    · have : cgContractMap E c1 cr (x, y) = (max cr y, min cr y) := by
        unfold cgContractMap
        rw [if_neg hm, if_pos hx1]
      exact ⟨by rw [this]; exact cgv_maxmin_mem_edges hE hA, Or.inr (Or.inl ⟨hm, hx1, this⟩)⟩
    · have : cgContractMap E c1 cr (x, y) = (max cr x, min cr x) := by
        unfold cgContractMap
        rw [if_neg hm, if_neg hx1]
      exact ⟨by rw [this]; exact cgv_maxmin_mem_edges hE hA, Or.inr (Or.inr ⟨hm, hy1, this⟩)⟩

/-- [S] CONTRACTING AN EDGE DOES NOT CREATE ENTRIES: the edges of the contracted graph inject into
the old edges -/
theorem cg_contract_card {E E' : IMat} (hE : E.Good) (hE' : E'.Good) {c1 cr : Nat}
    (hadj : CGContracted E E' c1 cr) : E'.edges.length ≤ E.edges.length := by
  have hnd : (E'.edges.map (cgContractMap E c1 cr)).Nodup := by
    refine List.Nodup.map_on ?_ (cgv_edges_nodup hE')
    rintro ⟨x1, y1⟩ h1 ⟨x2, y2⟩ h2 heq
    obtain ⟨l1, a1, b1, m1, k1⟩ := cgContractMap_cases hE hE' hadj h1
    obtain ⟨l2, a2, b2, m2, k2⟩ := cgContractMap_cases hE hE' hadj h2
    rcases k1 with ⟨o1, e1⟩ | ⟨o1, p1, e1⟩ | ⟨o1, p1, e1⟩ <;>
    rcases k2 with ⟨o2, e2⟩ | ⟨o2, p2, e2⟩ | ⟨o2, p2, e2⟩ <;>
    rw [e1, e2] at heq <;> simp only [Prod.mk.injEq] at heq ⊢ <;> omega
  have hsub : (E'.edges.map (cgContractMap E c1 cr)).Subperm E.edges := by
    apply List.subperm_of_subset hnd
    intro e he
    obtain ⟨⟨x, y⟩, hxy, rfl⟩ := List.mem_map.mp he
    exact (cgContractMap_cases hE hE' hadj hxy).2.2.2.1
  have := hsub.length_le
  rwa [List.length_map] at this

/-- [S] adjacent cliques are live -/
theorem cgv_inv_adj_live {N nv : Nat} {s : CGStrategy} {t : SuperNodeTree} (h : CGInv N nv s t)
    {a b : Nat} (hab : s.edges.Adj a b) : CGLive t a ∧ CGLive t b := by
  obtain ⟨h1, h2⟩ := h.edge_live _ _ hab
  rcases Nat.le_total a b with hle | hle
  · rw [Nat.max_eq_right hle] at h1; rw [Nat.min_eq_left hle] at h2; exact ⟨h2, h1⟩
  · rw [Nat.max_eq_left hle] at h1; rw [Nat.min_eq_right hle] at h2; exact ⟨h1, h2⟩

/-! ## the main theorem -/

/-- [S] ONE MERGE PRESERVES THE LOOP INVARIANT (`MergeUpdateSpec`), given what `update_strategy`
does to the edge matrix and the adjacency table (`UpdateStateSpec`) -/
theorem merge_update_spec (hU : UpdateStateSpec) : MergeUpdateSpec := by
  intro N nv s t h r c he
  have hG := h.good
  obtain ⟨hcr, hrn⟩ := cgv_entry_lt hG he
  obtain ⟨hlr, hlc⟩ := h.edge_live r c he
  have hne : r ≠ c := by omega
  have h2 := cgLiveList_length_ge_two hne hlr hlc
  have hn : t.nCliques ≠ 0 := by rw [h.ncl]; omega
  have hm := mergeTwoCliques_ok s t hne hlr.1 hlc.1 hn
  obtain ⟨s', hs', hstop, hp, hG', hm', hn', hnz', hadj, hkey, hnb, hnd⟩ :=
    hU N nv s t h r c he _ hm
  have hlive := cgLive_merged (t := t) hne hlr
  have hAr : s.edges.Adj r c := cgv_adj_of_entry hG he
  refine ⟨_, s', hm, hs', ?_, cgMerged_frame t r c, cgMerged_cover hne hlr, ?_, hstop⟩
  · exact
    { sz := (cgMerged_size t r c).trans h.sz
      small := h.small
      em := hm'
      en := hn'
      good := hG'
      nz := hnz'
      edge_live := by
        intro a b hab
        have hA' := cgv_adj_of_entry hG' hab
        obtain ⟨ha, hb, hcase⟩ := (hadj a b).mp hA'
        rw [hlive, hlive]
        rcases hcase with hA | ⟨rfl, hA, _⟩ | ⟨rfl, hA, _⟩
        · exact ⟨⟨(cgv_inv_adj_live h hA).1, ha⟩, ⟨(cgv_inv_adj_live h hA).2, hb⟩⟩
        · exact ⟨⟨hlr, ha⟩, ⟨(cgv_inv_adj_live h hA).2, hb⟩⟩
        · exact ⟨⟨(cgv_inv_adj_live h hA).2, ha⟩, ⟨hlr, hb⟩⟩
      conn := by
        intro a b ha hb
        obtain ⟨hla, hac⟩ := (hlive a).mp ha
        obtain ⟨hlb, hbc⟩ := (hlive b).mp hb
        have := cg_contract_conn hG hG' hne hadj (h.conn a b hla hlb)
        rwa [if_neg hac, if_neg hbc] at this
      adj_key := by
        intro a
        rw [hkey, h.adj_key, hlive]
      adj_iff := by
        intro a b ha
        obtain ⟨hla, hac⟩ := (hlive a).mp ha
        rw [hnb a b hac ((h.adj_key a).mpr hla), hadj, h.adj_iff a b hla, h.adj_iff c b hlc,
          h.adj_iff c a hlc]
        constructor
        · rintro ⟨hb, hcase⟩
          rcases hcase with ⟨hA, hab⟩ | ⟨ha1, ⟨hA, _⟩, hb1⟩ | ⟨hb1, ⟨hA, _⟩, ha1⟩
          · exact ⟨⟨hac, hb, Or.inl hA⟩, hab⟩
          · exact ⟨⟨hac, hb, Or.inr (Or.inl ⟨ha1, hA, hb1⟩)⟩, by rw [ha1]; exact Ne.symm hb1⟩
          · exact ⟨⟨hac, hb, Or.inr (Or.inr ⟨hb1, hA, ha1⟩)⟩, by rw [hb1]; exact ha1⟩
        · rintro ⟨⟨_, hb, hcase⟩, hab⟩
          refine ⟨hb, ?_⟩
          rcases hcase with hA | ⟨ha1, hA, hb1⟩ | ⟨hb1, hA, ha1⟩
          · exact Or.inl ⟨hA, hab⟩
          · exact Or.inr (Or.inl ⟨ha1, ⟨hA, Ne.symm hb⟩, hb1⟩)
          · exact Or.inr (Or.inr ⟨hb1, ⟨hA, Ne.symm hac⟩, ha1⟩)
      adj_nodup := hnd
      ncl := by
        rw [cgLiveList_merged_length hne hlr hlc, ← h.ncl]
        rfl
      psize := by
        rw [hp, cgv_nzval_size hG']
        have := cg_contract_card hG hG' hadj
        have := h.psize
        rw [cgv_nzval_size hG] at this
        omega
      sn_nodup := cgMerged_nodup hne hlr.1 h.sn_nodup
      sn_lt := cgMerged_lt hne hlr.1 h.sn_lt }
  · show t.nCliques - 1 + 1 = t.nCliques
    omega

/-! ## non-vacuity: a concrete merge -/

namespace UpdInvExample

/-- two cliques `{0,1}`, `{1,2}` -/
def t0 : SuperNodeTree :=
  { snode := #[#[0, 1], #[1, 2]], snodePost := #[0, 1], snodeParent := #[inactiveNode, inactiveNode],
    snodeChildren := #[#[], #[]], post := #[0, 1, 2], separators := #[#[1], #[]], nblk := none,
    nCliques := 2 }

/-- `merge_two_cliques (1, 0)` runs and pours clique `0` into clique `1` -/
example : CGStrategy.new.mergeTwoCliques t0 (1, 0) = .ok (cgMerged t0 1 0) :=
  mergeTwoCliques_ok _ _ (by decide) (by decide) (by decide) (by decide)

example : (cgMerged t0 1 0).snode = #[#[], #[1, 2, 0]] := by
  simp [cgMerged, t0, VSet.extend, VSet.insert]
example : (cgMerged t0 1 0).nCliques = 1 := rfl

/-- both cliques are live before, only clique `1` afterwards -/
example : CGLive t0 0 ∧ CGLive t0 1 ∧ ¬ CGLive (cgMerged t0 1 0) 0 ∧ CGLive (cgMerged t0 1 0) 1 := by
  have h1 : CGLive t0 1 := by decide
  have h0 : CGLive t0 0 := by decide
  refine ⟨h0, h1, ?_, ?_⟩
  · rw [cgLive_merged (by decide) h1]; exact fun h => h.2 rfl
  · rw [cgLive_merged (by decide) h1]; exact ⟨h1, by decide⟩

/-! ### non-vacuity of the contraction lemmas: the triangle `KrEx.tri` with clique `0` contracted
into clique `1` -/

open KrEx in
/-- [S] the triangle is a `Good` matrix -/
theorem tri_good : tri.Good := by
  refine ⟨tri_wfe, tri_lower, ⟨?_⟩⟩
  intro c hc k h1 h2
  have hb : tri.colptr.getD (c + 1) 0 ≤ 3 :=
    (by decide : ∀ c, c < 4 → tri.colptr.getD (c + 1) 0 ≤ 3) c hc
  exact (by decide : ∀ c, c < 4 → ∀ k, k < 3 → tri.colptr.getD c 0 ≤ k →
    k + 1 < tri.colptr.getD (c + 1) 0 → tri.rowval.getD k 0 < tri.rowval.getD (k + 1) 0)
    c hc k (by omega) h1 h2

/-- the triangle with clique `0` contracted into clique `1`: the single edge `2–1` -/
def tri1 : IMat :=
  { m := 4, n := 4, colptr := #[0, 0, 1, 1, 1], rowval := #[2], nzval := #[7] }

/-- [S] the contracted triangle is a `Good` matrix -/
theorem tri1_good : tri1.Good := by
  refine ⟨⟨rfl, rfl, by decide, rfl, rfl, by decide⟩, ⟨rfl, by decide, ?_⟩, ⟨?_⟩⟩
  · intro k k' hk hk' _ _
    have h1 : k < 1 := hk
    have h2 : k' < 1 := hk'
    omega
  · intro c hc k h1 h2
    have hb : tri1.colptr.getD (c + 1) 0 ≤ 1 :=
      (by decide : ∀ c, c < 4 → tri1.colptr.getD (c + 1) 0 ≤ 1) c hc
    omega

/-- [S] its only edge -/
theorem tri1_edges : tri1.edges = [(2, 1)] := by decide

open KrEx in
/-- [S] `tri1` is `tri` with `0` contracted into `1` -/
theorem tri_contracted : CGContracted tri tri1 1 0 := by
  have h1 := cgv_adj_iff_mem tri1_good
  have h := cgv_adj_iff_mem tri_good
  rw [tri1_edges] at h1
  rw [tri_edges] at h
  generalize tri = T at *
  generalize tri1 = T1 at *
  intro a b
  rw [h1, h, h, h]
  simp only [List.mem_cons, List.not_mem_nil, or_false, Prod.mk.injEq]
  have ha : a = 0 ∨ a = 1 ∨ a = 2 ∨ 3 ≤ a := by omega
  have hb : b = 0 ∨ b = 1 ∨ b = 2 ∨ 3 ≤ b := by omega
  rcases ha with rfl | rfl | rfl | ha <;> rcases hb with rfl | rfl | rfl | hb <;>
    first | (simp; done) | (simp; omega)

open KrEx in
example : tri1.edges.length ≤ tri.edges.length :=
  cg_contract_card tri_good tri1_good tri_contracted

open KrEx in
/-- the path `0–2` of the triangle becomes the path `1–2` -/
example : Conn tri1.edges 1 2 :=
  cg_contract_conn tri_good tri1_good (by decide) tri_contracted (a := 0) (b := 2)
    (Conn.symm (Conn.edge (by rw [tri_edges]; decide)))

end UpdInvExample

end Clarabel.Chordal
