/-
  The final specification of `assemble_kkt_matrix`, on the returned matrix and maps only:

  * `AsmRun.cols_sorted`: canonical columns (rows strictly increasing, all `< N`), the diagonal
    entry present in every column — last (`triu`) / first (`tril`);
  * `AsmRun.toDense_intended`, `AsmRun.toDense_other`: the dense meaning `Csc.toDense`;
  * `AsmRun.maps` (`MapsOut`): every index map slot is a position of `K` at the coordinate it
    is supposed to index.
-/
import ClarabelModel.Kkt
import ClarabelProofs.Lemmas.KktIntended

set_option linter.unusedSectionVars false
set_option linter.unusedVariables false

namespace Clarabel.Lemmas.KktSpec
open Clarabel Clarabel.Csc Clarabel.Kkt Clarabel.Lemmas.KktPlace Clarabel.Lemmas.KktFillLink
open Clarabel.Lemmas.KktRun Clarabel.Lemmas.KktSlots Clarabel.Lemmas.KktFillMaps
open Clarabel.Lemmas.KktFillRun Clarabel.Lemmas.KktCount Clarabel.Lemmas.KktAssembly
open Clarabel.Lemmas.KktSorted Clarabel.Lemmas.KktSortedTril Clarabel.Lemmas.KktLength
open Clarabel.Lemmas.KktTotal Clarabel.Lemmas.KktFinal Clarabel.Lemmas.KktIntended

variable {α : Type} [OfNat α 0]

-- ------------------------------------------------------------------ canonical columns

/-- the diagonal entry of column `c` is its last stored entry in the `triu` layout and its first
stored entry in the `tril` layout -/
def DiagPlace (shape : MatrixTriangle) (rows : List Nat) (c : Nat) : Prop :=
  match shape with
  | .triu => rows.getLast? = some c
  | .tril => rows.head? = some c

omit [OfNat α 0] in
theorem mem_colRowsOf_iff {sched : List (Entry α)} {c x : Nat} :
    x ∈ colRowsOf sched c ↔ ∃ e ∈ sched, e.readCol = c ∧ e.row = x := by
  unfold colRowsOf
  simp only [List.mem_map, List.mem_filter, beq_iff_eq]
  constructor
  · rintro ⟨e, ⟨he, hc⟩, hx⟩; exact ⟨e, he, hc, hx⟩
  · rintro ⟨e, he, hc, hx⟩; exact ⟨e, ⟨he, hc⟩, hx⟩

/-- **canonical columns with a complete diagonal** -/
theorem _root_.Clarabel.Lemmas.KktTotal.AsmRun.cols_sorted {P A : Csc α} {cones : List ConeSpec}
    {shape : MatrixTriangle} {K : Csc α} {map : LDLDataMap} {sched : List (Entry α)} {Kc : Csc α}
    {nd : Nat} (R : AsmRun P A cones shape K map sched Kc nd)
    (hP : Canon P) (hPt : IsTriu P) (hPsq : P.m = P.n) (hA : Canon A) (hn : P.n = A.n)
    (hm : (cones.map ConeSpec.numel).sum = A.m) (c : Nat) (hc : c < kktDim A cones) :
    (K.colRows c).Pairwise (· < ·) ∧ (∀ x ∈ K.colRows c, x < kktDim A cones) ∧
      DiagPlace shape (K.colRows c) c := by
  rw [R.mat.colRows_eq c hc]
  have hrows : ∀ x ∈ colRowsOf sched c, x < kktDim A cones := by
    intro x hx
    obtain ⟨e, he, _, rfl⟩ := mem_colRowsOf_iff.mp hx
    exact (R.cols e he).2.1
  cases shape with
  | triu =>
    obtain ⟨h1, h2⟩ := kktSchedule_triu_sorted P A cones sched hP hPt hPsq hA hn hm R.sched_ok c hc
    exact ⟨h1, hrows, h2⟩
  | tril =>
    obtain ⟨h1, h2, _⟩ := kktSchedule_tril_sorted P A cones sched hP hPt hPsq hA hn hm R.sched_ok c hc
    exact ⟨h1, hrows, h2⟩

-- ------------------------------------------------------------------ dense meaning

omit [OfNat α 0] in
theorem filter_unique {r : Nat} {v : α} : ∀ (l : List (Nat × α)),
    (l.map (·.1)).Pairwise (· < ·) → (r, v) ∈ l → l.filter (fun e => e.1 == r) = [(r, v)]
  | [], _, hm => by cases hm
  | x :: xs, hp, hm => by
    simp only [List.map_cons, List.pairwise_cons] at hp
    obtain ⟨hlt, hp'⟩ := hp
    by_cases hx : x.1 = r
    · have hxs : xs.filter (fun e => e.1 == r) = [] := by
        rw [List.filter_eq_nil_iff]
        intro e he
        have := hlt e.1 (List.mem_map.mpr ⟨e, he, rfl⟩)
        simp only [beq_iff_eq]
        omega
      have hxe : x = (r, v) := by
        rcases List.mem_cons.mp hm with h | h
        · exact h.symm
        · have := hlt r (List.mem_map.mpr ⟨(r, v), h, rfl⟩)
          omega
      rw [List.filter_cons, if_pos (by simp [hx]), hxs, hxe]
    · have hm' : (r, v) ∈ xs := by
        rcases List.mem_cons.mp hm with h | h
        · rw [← h] at hx; exact absurd rfl hx
        · exact h
      rw [List.filter_cons, if_neg (by simp [hx])]
      exact filter_unique xs hp' hm'

omit [OfNat α 0] in
theorem filter_none {r : Nat} (l : List (Nat × α)) (h : ∀ v, (r, v) ∉ l) :
    l.filter (fun e => e.1 == r) = [] := by
  rw [List.filter_eq_nil_iff]
  intro e he hr
  simp only [beq_iff_eq] at hr
  exact h e.2 (by rw [← hr]; exact he)

omit [OfNat α 0] in
theorem col_empty_of_ge (M : Csc α) (c : Nat) (h : M.colptr.size ≤ c + 1) : M.col c = [] := by
  have e2 : M.colptr.getD (c + 1) 0 = 0 := by
    simp [Array.getD_eq_getD_getElem?, Array.getElem?_eq_none h]
  have : (M.col c).length = 0 := by
    unfold Csc.col
    simp only [e2]
    rw [List.length_zip, Array.length_toList, Array.length_toList, Array.size_extract,
      Array.size_extract]
    omega
  exact List.eq_nil_of_length_eq_zero this

section dense
variable [Add α]

/-- [S] dense meaning at an intended coordinate: the (single) stored value -/
theorem _root_.Clarabel.Lemmas.KktTotal.AsmRun.toDense_intended {P A : Csc α}
    {cones : List ConeSpec} {shape : MatrixTriangle} {K : Csc α} {map : LDLDataMap}
    {sched : List (Entry α)} {Kc : Csc α} {nd : Nat}
    (R : AsmRun P A cones shape K map sched Kc nd)
    (hP : Canon P) (hPt : IsTriu P) (hPsq : P.m = P.n) (hA : Canon A) (hn : P.n = A.n)
    (hm : (cones.map ConeSpec.numel).sum = A.m) {r c : Nat} {v : α}
    (h : Intended P A cones shape r c v) : K.toDense r c = 0 + v := by
  have hc := (intended_lt R h).2
  have hmem := (R.mem_col_iff hP hA r c hc v).mpr h
  have hsorted : ((K.col c).map (·.1)).Pairwise (· < ·) := by
    rw [col_rows K c (by rw [R.mat.rowval_size, R.mat.nzval_size])]
    exact (R.cols_sorted hP hPt hPsq hA hn hm c hc).1
  unfold Csc.toDense
  rw [filter_unique _ hsorted hmem]
  rfl

/-- [S] dense meaning everywhere else: zero (no stray entry) -/
theorem _root_.Clarabel.Lemmas.KktTotal.AsmRun.toDense_other {P A : Csc α}
    {cones : List ConeSpec} {shape : MatrixTriangle} {K : Csc α} {map : LDLDataMap}
    {sched : List (Entry α)} {Kc : Csc α} {nd : Nat}
    (R : AsmRun P A cones shape K map sched Kc nd) (hP : Canon P) (hA : Canon A) {r c : Nat}
    (h : ∀ v, ¬ Intended P A cones shape r c v) : K.toDense r c = 0 := by
  unfold Csc.toDense
  by_cases hc : c < kktDim A cones
  · rw [filter_none _ (fun v hv => h v ((R.mem_col_iff hP hA r c hc v).mp hv))]
    rfl
  · rw [col_empty_of_ge K c (by rw [R.mat.colptr_size]; omega)]
    rfl

end dense

-- ------------------------------------------------------------------ the index maps

omit [OfNat α 0] in
theorem col_get_inv (M : Csc α) (j t lo hi r : Nat) (v : α) (hlo : M.colptr[j]? = some lo)
    (hhi : M.colptr[j + 1]? = some hi) (h : (M.col j)[t]? = some (r, v)) :
    M.rowval[lo + t]? = some r ∧ M.nzval[lo + t]? = some v ∧ lo + t < hi := by
  have e1 : M.colptr.getD j 0 = lo := by simp [Array.getD_eq_getD_getElem?, hlo]
  have e2 : M.colptr.getD (j + 1) 0 = hi := by simp [Array.getD_eq_getD_getElem?, hhi]
  unfold Csc.col at h
  simp only [e1, e2] at h
  rw [List.getElem?_zip_eq_some] at h
  obtain ⟨h1, h2⟩ := h
  rw [Array.getElem?_toList, Array.getElem?_extract] at h1 h2
  by_cases c1 : t < min hi M.rowval.size - lo
  · rw [if_pos c1] at h1
    by_cases c2 : t < min hi M.nzval.size - lo
    · rw [if_pos c2] at h2
      exact ⟨h1, h2, by omega⟩
    · rw [if_neg c2] at h2
      cases h2
  · rw [if_neg c1] at h1
    cases h1

/-- every index map slot is a position of `K` at the coordinate it is supposed to index -/
structure MapsOut (P A : Csc α) (cones : List ConeSpec) (shape : MatrixTriangle) (K : Csc α)
    (map : LDLDataMap) : Prop where
  /-- entry `j` of `P` (column `i`, row `r`, value `v`) sits at `K[map.P[j]]`, upper
  coordinates `(r, i)` -/
  P_map : ∀ i j r v, i < P.n → P.colptr.getD i 0 ≤ j → j < P.colptr.getD (i + 1) 0 →
    P.rowval[j]? = some r → P.nzval[j]? = some v →
    SlotIs K map.P[j]? (tri shape r i).1 (tri shape r i).2 v
  /-- entry `j` of `A` (column `i`, row `r`, value `v`) sits at `K[map.A[j]]`, upper
  coordinates `(i, n + r)` (the transposed/offset coordinate) -/
  A_map : ∀ i j r v, i < A.n → A.colptr.getD i 0 ≤ j → j < A.colptr.getD (i + 1) 0 →
    A.rowval[j]? = some r → A.nzval[j]? = some v →
    SlotIs K map.A[j]? (tri shape i (r + A.n)).1 (tri shape i (r + A.n)).2 v
  /-- diagonal Hs blocks -/
  hs_diag : ∀ pre c post, cones = pre ++ c :: post → c.hsIsDiagonal = true → ∀ k, k < c.numel →
    SlotIs K map.Hsblocks[(pre.map ConeSpec.blockLen).sum + k]?
      (A.n + (pre.map ConeSpec.numel).sum + k) (A.n + (pre.map ConeSpec.numel).sum + k) 0
  /-- dense Hs blocks, packed upper triangle: entry `(b, a)`, `b ≤ a`, has index `a(a+1)/2 + b` -/
  hs_dense : ∀ pre c post, cones = pre ++ c :: post → c.hsIsDiagonal = false →
    ∀ a b, a < c.numel → b ≤ a →
    SlotIs K map.Hsblocks[(pre.map ConeSpec.blockLen).sum + (a * (a + 1) / 2 + b)]?
      (tri shape (A.n + (pre.map ConeSpec.numel).sum + b) (A.n + (pre.map ConeSpec.numel).sum + a)).1
      (tri shape (A.n + (pre.map ConeSpec.numel).sum + b) (A.n + (pre.map ConeSpec.numel).sum + a)).2 0
  /-- second-order cone expansions: `v` → auxiliary column `pcol`, `u` → `pcol+1`, `D` → the two
  auxiliary diagonal entries -/
  soc : ∀ pre d post, cones = pre ++ ConeSpec.soc d :: post → d > socNoExpansionMaxSize →
    ∃ u v D, map.sparse_maps[nSparse pre]? = some (.soc u v D) ∧ u.size = d ∧ v.size = d ∧
      D.size = 2 ∧
      (∀ k, k < d → SlotIs K v[k]?
        (tri shape (A.n + (pre.map ConeSpec.numel).sum + k) (A.m + A.n + (pre.map conePdim).sum)).1
        (tri shape (A.n + (pre.map ConeSpec.numel).sum + k) (A.m + A.n + (pre.map conePdim).sum)).2 0) ∧
      (∀ k, k < d → SlotIs K u[k]?
        (tri shape (A.n + (pre.map ConeSpec.numel).sum + k) (A.m + A.n + (pre.map conePdim).sum + 1)).1
        (tri shape (A.n + (pre.map ConeSpec.numel).sum + k) (A.m + A.n + (pre.map conePdim).sum + 1)).2 0) ∧
      (∀ j, j < 2 → SlotIs K D[j]? (A.m + A.n + (pre.map conePdim).sum + j)
        (A.m + A.n + (pre.map conePdim).sum + j) 0)
  /-- generalised power cone expansions: `q` → `pcol` (first `dim1` rows), `r` → `pcol+1` (last
  `dim2` rows), `p` → `pcol+2` (all rows), `D` → the three auxiliary diagonal entries -/
  genpow : ∀ pre a b post, cones = pre ++ ConeSpec.genpow a b :: post →
    ∃ p q r D, map.sparse_maps[nSparse pre]? = some (.genpow p q r D) ∧ p.size = a + b ∧
      q.size = a ∧ r.size = b ∧ D.size = 3 ∧
      (∀ k, k < a → SlotIs K q[k]?
        (tri shape (A.n + (pre.map ConeSpec.numel).sum + k) (A.m + A.n + (pre.map conePdim).sum)).1
        (tri shape (A.n + (pre.map ConeSpec.numel).sum + k) (A.m + A.n + (pre.map conePdim).sum)).2 0) ∧
      (∀ k, k < b → SlotIs K r[k]?
        (tri shape (A.n + (pre.map ConeSpec.numel).sum + a + k) (A.m + A.n + (pre.map conePdim).sum + 1)).1
        (tri shape (A.n + (pre.map ConeSpec.numel).sum + a + k) (A.m + A.n + (pre.map conePdim).sum + 1)).2 0) ∧
      (∀ k, k < a + b → SlotIs K p[k]?
        (tri shape (A.n + (pre.map ConeSpec.numel).sum + k) (A.m + A.n + (pre.map conePdim).sum + 2)).1
        (tri shape (A.n + (pre.map ConeSpec.numel).sum + k) (A.m + A.n + (pre.map conePdim).sum + 2)).2 0) ∧
      (∀ j, j < 3 → SlotIs K D[j]? (A.m + A.n + (pre.map conePdim).sum + j)
        (A.m + A.n + (pre.map conePdim).sum + j) 0)
  /-- `diag_full[c]` is the position of the diagonal entry `(c, c)`, for every column -/
  diag_full : map.diag_full.size = kktDim A cones ∧
    ∀ c, c < kktDim A cones → ∃ v, SlotIs K map.diag_full[c]? c c v
  /-- `diagP` is the leading part of `diag_full` -/
  diagP : map.diagP.size = A.n ∧ ∀ i, i < A.n → map.diagP[i]? = map.diag_full[i]?

theorem _root_.Clarabel.Lemmas.KktTotal.AsmRun.maps {P A : Csc α} {cones : List ConeSpec}
    {shape : MatrixTriangle} {K : Csc α} {map : LDLDataMap} {sched : List (Entry α)} {Kc : Csc α}
    {nd : Nat} (R : AsmRun P A cones shape K map sched Kc nd)
    (hP : Canon P) (hPt : IsTriu P) (hPsq : P.m = P.n) (hA : Canon A) (hn : P.n = A.n)
    (hm : (cones.map ConeSpec.numel).sum = A.m) : MapsOut P A cones shape K map := by
  have M := R.mat
  have hcs := M.colptr_size
  have hcols : ∀ e ∈ sched, e.readCol < kktDim A cones := fun e he => (R.cols e he).1
  have conv : ∀ {o : Option Nat} {col row : Nat} {v : α},
      SlotAt (colcountToColptr Kc).colptr sched o col row v → SlotIs K o row col v :=
    fun h => M.slotIs hcols h
  have hNn : A.n ≤ kktDim A cones := by unfold kktDim; omega
  refine ⟨?_, ?_, ?_, ?_, ?_, ?_, ?_, ?_⟩
  · intro i j r v hi h1 h2 hr hv
    exact conv (R.fill.P_slots i j r v hi h1 h2 hr hv)
  · intro i j r v hi h1 h2 hr hv
    exact conv (R.fill.A_slots i j r v hi h1 h2 hr hv)
  · intro pre c post hdec hd k hk
    have h := (R.fill.cone_slots pre c post hdec).1
    unfold HsSlots at h
    rw [if_pos hd] at h
    exact conv (h k hk)
  · intro pre c post hdec hd a b ha hb
    have h := (R.fill.cone_slots pre c post hdec).1
    unfold HsSlots at h
    rw [if_neg (by simp [hd])] at h
    exact conv (h a b ha hb)
  · intro pre d post hdec hd
    obtain ⟨mp', hm', hss⟩ := (R.fill.cone_slots pre _ post hdec).2
      (by simpa [ConeSpec.isSparseExpandable] using hd)
    cases mp' <;> simp only [SparseSlots] at hss
    rename_i u v D
    obtain ⟨h1, h2, h3, h4, h5, h6⟩ := hss
    exact ⟨u, v, D, hm', h1, h2, h3, fun k hk => conv (h4 k hk), fun k hk => conv (h5 k hk),
      fun k hk => conv (h6 k hk)⟩
  · intro pre a b post hdec
    obtain ⟨mp', hm', hss⟩ := (R.fill.cone_slots pre _ post hdec).2
      (by simp [ConeSpec.isSparseExpandable])
    cases mp' <;> simp only [SparseSlots] at hss
    rename_i p q r D
    obtain ⟨h1, h2, h3, h4, h5, h6, h7, h8⟩ := hss
    exact ⟨p, q, r, D, hm', h1, h2, h3, h4, fun k hk => conv (h5 k hk), fun k hk => conv (h6 k hk),
      fun k hk => conv (h7 k hk), fun k hk => conv (h8 k hk)⟩
  · -- diag_full
    have hd := R.fill.diag
    have hsz : K.colptr.toList.length = kktDim A cones + 1 := by
      rw [Array.length_toList]; exact M.colptr_size
    have key : ∀ c, c < kktDim A cones → ∀ p, K.colptr[c]? = some p →
        ∀ t, t < cnt c sched → (colRowsOf sched c)[t]? = some c →
        ∃ v, EntryAt K (p + t) c c v := by
      intro c hc p hp t ht hrow
      obtain ⟨p', hp', hp1⟩ := M.colptr_succ c hc
      rw [hp] at hp'
      cases hp'
      have hE : ∃ x, (colEntriesOf sched c)[t]? = some x ∧ x.1 = c := by
        rw [← colEntriesOf_rows, List.getElem?_map] at hrow
        cases hx : (colEntriesOf sched c)[t]? with
        | none => rw [hx] at hrow; cases hrow
        | some x =>
          rw [hx] at hrow
          exact ⟨x, rfl, Option.some.inj hrow⟩
      obtain ⟨x, hx, hx1⟩ := hE
      rw [← M.col_eq c hc] at hx
      obtain ⟨g1, g2, g3⟩ := col_get_inv K c t p _ x.1 x.2 hp hp1 hx
      exact ⟨x.2, p, _, hp, hp1, by omega, g3, by rw [g1, hx1], g2⟩
    have hlenS : ∀ c, (colRowsOf sched c).length = cnt c sched := by
      intro c
      unfold colRowsOf cnt
      rw [List.length_map, List.countP_eq_length_filter]
    cases shape with
    | triu =>
      obtain ⟨hdf, _⟩ := hd
      refine ⟨?_, ?_⟩
      · have := congrArg List.length hdf
        simp only [Array.length_toList, List.length_map, List.length_drop] at this
        omega
      · intro c hc
        obtain ⟨p, hp, hp1⟩ := M.colptr_succ c hc
        obtain ⟨_, hlast⟩ := kktSchedule_triu_sorted P A cones sched hP hPt hPsq hA hn hm
          R.sched_ok c hc
        have hpos := cnt_pos_triu P A cones sched hP hPt hPsq hA hn hm R.sched_ok c hc
        rw [List.getLast?_eq_getElem?, hlenS] at hlast
        obtain ⟨v, hv⟩ := key c hc p hp (cnt c sched - 1) (by omega) hlast
        refine ⟨v, p + (cnt c sched - 1), ?_, hv⟩
        rw [← Array.getElem?_toList, hdf, List.getElem?_map, List.getElem?_drop,
          Array.getElem?_toList, Nat.add_comm 1 c, hp1]
        simp only [Option.map_some, Option.some.injEq]
        omega
    | tril =>
      obtain ⟨hdf, _⟩ := hd
      refine ⟨?_, ?_⟩
      · have := congrArg List.length hdf
        simp only [Array.length_toList, List.length_dropLast] at this
        omega
      · intro c hc
        obtain ⟨p, hp, hp1⟩ := M.colptr_succ c hc
        obtain ⟨_, hhead, _⟩ := kktSchedule_tril_sorted P A cones sched hP hPt hPsq hA hn hm
          R.sched_ok c hc
        have hpos : 0 < cnt c sched := by
          rw [← hlenS]
          cases hl : colRowsOf sched c with
          | nil => rw [hl] at hhead; simp at hhead
          | cons x xs => simp
        rw [List.head?_eq_getElem?] at hhead
        obtain ⟨v, hv⟩ := key c hc p hp 0 hpos hhead
        refine ⟨v, p, ?_, by simpa using hv⟩
        rw [← Array.getElem?_toList, hdf, List.getElem?_dropLast,
          if_pos (by rw [hsz]; omega), Array.getElem?_toList, hp]
  · -- diagP
    have hd := R.fill.diag
    cases shape with
    | triu =>
      obtain ⟨hdf, hdp⟩ := hd
      have hsz : K.colptr.toList.length = kktDim A cones + 1 := by
        rw [Array.length_toList]; exact M.colptr_size
      refine ⟨?_, ?_⟩
      · have := congrArg List.length hdp
        simp only [Array.length_toList, List.length_map, List.length_take, List.length_drop] at this
        omega
      · intro i hi
        rw [← Array.getElem?_toList, ← Array.getElem?_toList, hdp, hdf, List.getElem?_map,
          List.getElem?_map, List.getElem?_take, if_pos hi]
    | tril =>
      obtain ⟨hdf, hdp⟩ := hd
      have hsz : K.colptr.toList.length = kktDim A cones + 1 := by
        rw [Array.length_toList]; exact M.colptr_size
      refine ⟨?_, ?_⟩
      · have := congrArg List.length hdp
        simp only [Array.length_toList, List.length_take] at this
        omega
      · intro i hi
        rw [← Array.getElem?_toList, ← Array.getElem?_toList, hdp, hdf, List.getElem?_take,
          if_pos hi, List.getElem?_dropLast, if_pos (by rw [hsz]; omega)]


-- ------------------------------------------------------------------ packaging

/-- the data `assemble_kkt_matrix` is called with: `P` canonical, upper triangular, `n×n`; `A`
canonical, `m×n`; the cones partition the `m` rows -/
structure KktInputs (P A : Csc α) (cones : List ConeSpec) : Prop where
  P_canon : Canon P
  P_triu : IsTriu P
  P_square : P.m = P.n
  A_canon : Canon A
  n_eq : P.n = A.n
  m_eq : (cones.map ConeSpec.numel).sum = A.m

/-- whatever `assemble_kkt_matrix` returned is the result of the run analysed above -/
theorem asmRun_of_ok {P A : Csc α} {cones : List ConeSpec} {shape : MatrixTriangle} {K : Csc α}
    {map : LDLDataMap} (hin : KktInputs P A cones)
    (h : assembleKktMatrix P A cones shape = .ok (K, map)) :
    ∃ sched Kc nd, AsmRun P A cones shape K map sched Kc nd := by
  obtain ⟨K', map', sched, Kc, nd, R⟩ := assembleKktMatrix_run P A cones shape hin.P_canon
    hin.P_triu hin.P_square hin.A_canon hin.n_eq hin.m_eq
  have := R.ok
  rw [h] at this
  cases this
  exact ⟨sched, Kc, nd, R⟩

end Clarabel.Lemmas.KktSpec
