/-
  The configuration header as a function of the problem data the solver holds: what
  `Summary.ofData` reads from the result of the model of `DefaultProblemData::new`
  (`ClarabelModel/ProblemData.lean`, the C09 model).
-/
import ClarabelModel.PrintHeader
import ClarabelProofs.Lemmas.PrintHeader

namespace Clarabel.Print
open Clarabel.Loop Clarabel.Cones

set_option linter.unusedSectionVars false

variable {α : Type}
variable [Add α] [Sub α] [Mul α] [Div α] [OfNat α 0] [OfNat α 1] [LT α] [DecidableLT α] [FloatLike α]

/-- the steps of `DefaultProblemData::new` behind a successful result -/
theorem problemData_new_inv (P : Csc α) (q : Array α) (A : Csc α) (b : Array α) (cones : List (ConeT α))
    (presolve chordal : Bool) (inf : α) (d : ProblemData α)
    (h : ProblemData.new P q A b cones presolve chordal inf = .ok d) :
    ∃ Pn ps r, ProblemData.triuStep P = .ok Pn
      ∧ ProblemData.tryPresolver b (newCollapsed cones) presolve inf = .ok ps
      ∧ ProblemData.reduceStep ps A b (newCollapsed cones) = .ok r
      ∧ d = ProblemData.assemble Pn q r.1 r.2.1 r.2.2 ps inf := by
  unfold ProblemData.new at h
  cases h1 : ProblemData.triuStep P with
  | error e => simp [h1, bind, Except.bind] at h
  | ok Pn =>
    cases h2 : ProblemData.tryPresolver b (newCollapsed cones) presolve inf with
    | error e => simp [h1, h2, bind, Except.bind] at h
    | ok ps =>
      cases h3 : ProblemData.reduceStep ps A b (newCollapsed cones) with
      | error e => simp [h1, h2, h3, bind, Except.bind] at h
      | ok r =>
        simp only [h1, h2, h3, bind, Except.bind] at h
        refine ⟨Pn, ps, r, by first | exact h1 | rfl, by first | exact h2 | rfl, by first | exact h3 | rfl, ?_⟩
        split at h
        · cases h
        · simp only [pure, Except.pure] at h
          cases h
          rfl

/-- the figures of the header, read off the steps of `DefaultProblemData::new` -/
theorem summary_ofData_new (P : Csc α) (q : Array α) (A : Csc α) (b : Array α) (cones : List (ConeT α))
    (presolve chordal : Bool) (inf : α) (d : ProblemData α)
    (h : ProblemData.new P q A b cones presolve chordal inf = .ok d) (ch : Option ChordalCounts) :
    ∃ Pn ps r, ProblemData.triuStep P = .ok Pn
      ∧ ProblemData.tryPresolver b (newCollapsed cones) presolve inf = .ok ps
      ∧ ProblemData.reduceStep ps A b (newCollapsed cones) = .ok r
      ∧ Summary.ofData d ch =
          { presolveRemoved := ps.map (fun p => p.mfull - p.mreduced), chordal := ch,
            n := r.1.n, m := r.1.m, nnzP := Pn.nnz, nnzA := r.1.nnz, cones := coneSummary r.2.2 } := by
  obtain ⟨Pn, ps, r, h1, h2, h3, hd⟩ := problemData_new_inv P q A b cones presolve chordal inf d h
  refine ⟨Pn, ps, r, h1, h2, h3, ?_⟩
  subst hd
  cases ps <;> rfl

end Clarabel.Print
