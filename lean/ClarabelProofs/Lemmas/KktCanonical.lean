/-
  The assembled KKT matrix is canonical in the sense of property C16
  (`Clarabel.C16.Canonical`, which `Props/C16.check_format_iff` shows equivalent to
  `check_format` returning `Ok`): consistent lengths, monotone `colptr` ending at `nnz`,
  strictly increasing row indices `< m` in every column.
-/
import ClarabelModel.Kkt
import ClarabelProofs.Lemmas.KktSpec
import ClarabelProofs.Lemmas.CscBasic

set_option linter.unusedSectionVars false
set_option linter.unusedVariables false

namespace Clarabel.Lemmas.KktCanonical
open Clarabel Clarabel.Csc Clarabel.Kkt
open Clarabel.Lemmas.KktTotal Clarabel.Lemmas.KktFinal Clarabel.Lemmas.KktSpec
open Clarabel.Lemmas.KktSorted (Canon IsTriu)
open Clarabel.Lemmas.KktFillBlock (BlockWF)

variable {α : Type} [OfNat α 0]

theorem _root_.Clarabel.Lemmas.KktTotal.AsmRun.blockWF {P A : Csc α} {cones : List ConeSpec}
    {shape : MatrixTriangle} {K : Csc α} {map : LDLDataMap} {sched : List (Entry α)} {Kc : Csc α}
    {nd : Nat} (R : AsmRun P A cones shape K map sched Kc nd) : BlockWF K := by
  have M := R.mat
  refine ⟨by rw [M.colptr_size, M.n_eq], M.colptr_zero, ?_, ?_, by rw [M.nzval_size, M.rowval_size]⟩
  · intro i hi
    rw [M.n_eq] at hi
    obtain ⟨p, hp, hp1⟩ := M.colptr_succ i hi
    simp [Array.getD_eq_getD_getElem?, hp, hp1]
  · rw [M.n_eq, M.rowval_size]; exact M.colptr_last

/-- [S] the assembled matrix passes `check_format` (C16's `Canonical`) -/
theorem _root_.Clarabel.Lemmas.KktTotal.AsmRun.canonical {P A : Csc α} {cones : List ConeSpec}
    {shape : MatrixTriangle} {K : Csc α} {map : LDLDataMap} {sched : List (Entry α)} {Kc : Csc α}
    {nd : Nat} (R : AsmRun P A cones shape K map sched Kc nd)
    (hP : Canon P) (hPt : IsTriu P) (hPsq : P.m = P.n) (hA : Canon A) (hn : P.n = A.n)
    (hm : (cones.map ConeSpec.numel).sum = A.m) : Clarabel.C16.Canonical K := by
  have M := R.mat
  have W := R.blockWF
  have hsorted := fun c hc => R.cols_sorted hP hPt hPsq hA hn hm c hc
  refine ⟨by rw [M.rowval_size, M.nzval_size], W.colptr_size, ?_, ?_, ?_, ?_⟩
  · simp [Array.getD_eq_getD_getElem?, W.colptr_last]
  · rw [noBadAdjacent_iff_getElem]
    intro k hk
    have hk' : k < kktDim A cones := by
      rw [Array.length_toList, M.colptr_size] at hk; omega
    obtain ⟨p, hp, hp1⟩ := M.colptr_succ k hk'
    have e1 : K.colptr.toList[k] = p := by
      have := Array.getElem?_toList (xs := K.colptr) (i := k)
      rw [hp, List.getElem?_eq_getElem (by omega)] at this
      exact Option.some.inj this
    have e2 : K.colptr.toList[k + 1] = p + KktPlace.cnt k sched := by
      have := Array.getElem?_toList (xs := K.colptr) (i := k + 1)
      rw [hp1, List.getElem?_eq_getElem hk] at this
      exact Option.some.inj this
    rw [e1, e2]
    omega
  · intro j hj
    rw [noBadAdjacent_ge_iff_pairwise]
    exact (hsorted j (by rw [← M.n_eq]; exact hj)).1
  · intro r hr
    obtain ⟨d, hd, rfl⟩ := List.mem_iff_getElem.mp hr
    have hd' : d < K.rowval.size := by simpa using hd
    obtain ⟨i, hi, h1, h2⟩ := W.col_exists d hd'
    rw [M.m_eq]
    apply (hsorted i (by rw [← M.n_eq]; exact hi)).2.1
    unfold Csc.colRows
    rw [List.mem_iff_getElem?]
    refine ⟨d - K.colptr.getD i 0, ?_⟩
    rw [Array.getElem?_toList, Array.getElem?_extract]
    have hle : K.colptr.getD (i + 1) 0 ≤ K.rowval.size := by
      obtain ⟨p, hp, hp1⟩ := M.colptr_succ i (by rw [← M.n_eq]; exact hi)
      have := M.colptr_le (i + 1) _ (by rw [← M.n_eq]; omega) hp1
      rw [M.rowval_size]
      simp [Array.getD_eq_getD_getElem?, hp1]
      exact this
    rw [if_pos (by omega)]
    have : K.colptr.getD i 0 + (d - K.colptr.getD i 0) = d := by omega
    rw [this]
    simp [Array.getElem?_eq_getElem hd']

end Clarabel.Lemmas.KktCanonical
