/-
  Power cone (C14): the third-order correction is half the directional derivative of the
  Hessian:  d/dt [ H(z + t u) v ]_{t=0} = 2 · higher_correction_of(a; z, u, v),
  and `higher_correction` is `higher_correction_of` applied to the Cholesky solution of `H u = Δs`.
-/
import ClarabelProofs.Lemmas.NonsymPow
import ClarabelProofs.Lemmas.NonsymChol

namespace Clarabel.Pow
open Clarabel Nonsym

theorem line_d (z u : ℝ) : HasDerivAt (fun t : ℝ => z + t * u) u 0 := by
  simpa using ((hasDerivAt_id (0 : ℝ)).mul_const u).const_add z

/-- `higher_correction` = zero if the factorisation fails, else the closed form at `u = H⁻¹Δs` -/
theorem higherCorrection_eq (a : ℝ) (H : Sym3 ℝ) (z ds v : V3 ℝ) :
    higherCorrection a H z ds v =
      if (Sym3.choleskyFactor H).1 then
        higherCorrectionOf a z (Sym3.choleskySolve (Sym3.choleskyFactor H).2 ds) v
      else (0, 0, 0) := by
  unfold higherCorrection higherCorrectionOf
  cases h : (Sym3.choleskyFactor H).1 <;> simp [h]

/-- `φ` along the line `z + t u` -/
theorem phi_line {a z0 z1 : ℝ} (u0 u1 : ℝ) (ha0 : 0 < a) (ha1 : a < 1) (h0 : 0 < z0) (h1 : 0 < z1) :
    HasDerivAt (fun t => phiDual a (z0 + t * u0) (z1 + t * u1))
      (phiDual a z0 z1 * (2 * a * u0 / z0 + 2 * (1 - a) * u1 / z1)) 0 := by
  have h1a : 0 < 1 - a := by linarith
  unfold phiDual
  simp only [real_powf_eq]
  have hb0 : (z0 + 0 * u0) / a ≠ 0 := by simpa using ne_of_gt (div_pos h0 ha0)
  have hb1 : (z1 + 0 * u1) / (1 - a) ≠ 0 := by simpa using ne_of_gt (div_pos h1 h1a)
  have d0 := ((line_d z0 u0).div_const a).rpow_const (p := 2 * a) (Or.inl hb0)
  have d1 := ((line_d z1 u1).div_const (1 - a)).rpow_const (p := 2 - 2 * a) (Or.inl hb1)
  have hd := d0.mul d1
  refine hd.congr_deriv ?_
  simp only [zero_mul, add_zero]
  have hb0' : z0 / a ≠ 0 := ne_of_gt (div_pos h0 ha0)
  have hb1' : z1 / (1 - a) ≠ 0 := ne_of_gt (div_pos h1 h1a)
  rw [Real.rpow_sub_one hb0', Real.rpow_sub_one hb1']
  have : a ≠ 0 := ne_of_gt ha0
  have : 1 - a ≠ 0 := ne_of_gt h1a
  have : z0 ≠ 0 := ne_of_gt h0
  have : z1 ≠ 0 := ne_of_gt h1
  field_simp

/-- `ψ = φ - z₂²` along the line -/
theorem psi_line {a z0 z1 : ℝ} (z2 u0 u1 u2 : ℝ) (ha0 : 0 < a) (ha1 : a < 1) (h0 : 0 < z0) (h1 : 0 < z1) :
    HasDerivAt (fun t => psiDual a (z0 + t * u0) (z1 + t * u1) (z2 + t * u2))
      (phiDual a z0 z1 * (2 * a * u0 / z0 + 2 * (1 - a) * u1 / z1) - 2 * z2 * u2) 0 := by
  unfold psiDual
  have hd := (phi_line u0 u1 ha0 ha1 h0 h1).sub ((line_d z2 u2).mul (line_d z2 u2))
  refine hd.congr_deriv ?_
  simp only [zero_mul, add_zero]
  ring

section
variable {a z0 z1 z2 : ℝ} (u0 u1 u2 v0 v1 v2 : ℝ) (h : DualInt a z0 z1 z2)
include h

set_option hygiene false in
local macro "pow3_setup" : tactic => `(tactic| (
  obtain ⟨ha0, ha1, h0, h1, hψ⟩ := h
  have n0 : z0 ≠ 0 := ne_of_gt h0
  have n1 : z1 ≠ 0 := ne_of_gt h1
  have nψ : psiDual a z0 z1 z2 ≠ 0 := ne_of_gt hψ
  have hZ0 := line_d z0 u0
  have hZ1 := line_d z1 u1
  have hZ2 := line_d z2 u2
  have hP := phi_line (a := a) (z0 := z0) (z1 := z1) u0 u1 ha0 ha1 h0 h1
  have hS := psi_line (a := a) (z0 := z0) (z1 := z1) z2 u0 u1 u2 ha0 ha1 h0 h1
  have nZ0 : z0 + 0 * u0 ≠ 0 := by simpa using n0
  have nZ1 : z1 + 0 * u1 ≠ 0 := by simpa using n1
  have nS : psiDual a (z0 + 0 * u0) (z1 + 0 * u1) (z2 + 0 * u2) ≠ 0 := by simpa using nψ
  -- gψ entries along the line
  have g0 := (hP.const_mul (2 * a)).div (hZ0.mul hS) (mul_ne_zero nZ0 nS)
  have g1 := (hP.const_mul (2 * (1 - a))).div (hZ1.mul hS) (mul_ne_zero nZ1 nS)
  have g2 := (hZ2.const_mul (-2)).div hS nS))

set_option hygiene false in
local macro "pow3_finish" : tactic => `(tactic| (
  simp only [higherCorrectionOf, Sym3.dot3, Sym3.mul, recip, real_powf_eq, Pi.mul_apply, Pi.div_apply,
    Pi.add_apply, Pi.sub_apply, zero_mul, add_zero, zero_add, mul_zero, one_mul]
  simp only [psiDual, phiDual, real_powf_eq] at nψ ⊢
  generalize (z0 / a) ^ (2 * a) * (z1 / (1 - a)) ^ (2 - 2 * a) = φ at *
  have nψ' : φ - z2 ^ 2 ≠ 0 := by rw [sq]; exact nψ
  have e5 : (0.5 : ℝ) = 1 / 2 := by norm_num
  rw [e5]
  field_simp
  ring))

/-- row 0 of `d/dt H(z+tu) v` -/
theorem third_row0 :
    HasDerivAt (fun t => ((hessDual a (z0 + t * u0, z1 + t * u1, z2 + t * u2)).mul (v0, v1, v2)).1)
      (2 * (higherCorrectionOf a (z0, z1, z2) (u0, u1, u2) (v0, v1, v2)).1) 0 := by
  pow3_setup
  have d00 := ((g0.mul g0).sub
      ((hP.const_mul (2 * a * (2 * a - 1))).div ((hZ0.mul hZ0).mul hS) (mul_ne_zero (mul_ne_zero nZ0 nZ0) nS))).add
    ((hasDerivAt_const (0 : ℝ) (1 - a)).div (hZ0.mul hZ0) (mul_ne_zero nZ0 nZ0))
  have d01 := (g0.mul g1).sub
      ((hP.const_mul (4 * a * (1 - a))).div ((hZ0.mul hZ1).mul hS) (mul_ne_zero (mul_ne_zero nZ0 nZ1) nS))
  have d02 := g0.mul g2
  have hd := ((d00.mul_const v0).add (d01.mul_const v1)).add (d02.mul_const v2)
  simp only [hessDual, Sym3.mul, h00, h01, h02, gpsi0, gpsi1, gpsi2]
  refine hd.congr_deriv ?_
  pow3_finish

/-- row 1 of `d/dt H(z+tu) v` -/
theorem third_row1 :
    HasDerivAt (fun t => ((hessDual a (z0 + t * u0, z1 + t * u1, z2 + t * u2)).mul (v0, v1, v2)).2.1)
      (2 * (higherCorrectionOf a (z0, z1, z2) (u0, u1, u2) (v0, v1, v2)).2.1) 0 := by
  pow3_setup
  have d01 := (g0.mul g1).sub
      ((hP.const_mul (4 * a * (1 - a))).div ((hZ0.mul hZ1).mul hS) (mul_ne_zero (mul_ne_zero nZ0 nZ1) nS))
  have d11 := ((g1.mul g1).sub
      ((hP.const_mul (2 * (1 - a) * (1 - 2 * a))).div ((hZ1.mul hZ1).mul hS)
        (mul_ne_zero (mul_ne_zero nZ1 nZ1) nS))).add
    ((hasDerivAt_const (0 : ℝ) a).div (hZ1.mul hZ1) (mul_ne_zero nZ1 nZ1))
  have d12 := g1.mul g2
  have hd := ((d01.mul_const v0).add (d11.mul_const v1)).add (d12.mul_const v2)
  simp only [hessDual, Sym3.mul, h01, h11, h12, gpsi0, gpsi1, gpsi2]
  refine hd.congr_deriv ?_
  pow3_finish

/-- row 2 of `d/dt H(z+tu) v` -/
theorem third_row2 :
    HasDerivAt (fun t => ((hessDual a (z0 + t * u0, z1 + t * u1, z2 + t * u2)).mul (v0, v1, v2)).2.2)
      (2 * (higherCorrectionOf a (z0, z1, z2) (u0, u1, u2) (v0, v1, v2)).2.2) 0 := by
  pow3_setup
  have d02 := g0.mul g2
  have d12 := g1.mul g2
  have d22 := (g2.mul g2).add ((hasDerivAt_const (0 : ℝ) (2 : ℝ)).div hS nS)
  have hd := ((d02.mul_const v0).add (d12.mul_const v1)).add (d22.mul_const v2)
  simp only [hessDual, Sym3.mul, h02, h12, h22, gpsi0, gpsi1, gpsi2]
  refine hd.congr_deriv ?_
  pow3_finish

end

end Clarabel.Pow
