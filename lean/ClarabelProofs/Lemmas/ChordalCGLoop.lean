/-
  Clique-graph merge strategy: THE LOOP of `merge_cliques` (`CGStrategy.loop`), composed from the
  specifications of its passes (`TraverseSpec`, `EvaluateSpec`, `MergeUpdateSpec` of
  `ChordalCGSpecs.lean`): from a state satisfying the loop invariant `CGInv`, with fuel at least
  `n_cliques + 1`, the loop returns (no panic, fuel not exhausted) a state that satisfies the
  invariant again; the fields of the tree other than the clique sets and the counter are untouched
  and coverage is monotone.
-/
import ClarabelProofs.Lemmas.ChordalCGSpecs

namespace Clarabel.Chordal
open Clarabel

/-- [S] `update_strategy` without a merge does nothing -/
theorem updateStrategy_false (s : CGStrategy) (t : SuperNodeTree) (cand : Nat × Nat) :
    s.updateStrategy t cand false = .ok s := by
  unfold CGStrategy.updateStrategy
  simp [pure, Except.pure]

/-- [S] the part of the invariant that mentions the strategy only through `edges`,
`adjacency_table` and `|p|` survives a change of `stop` -/
theorem CGInv.with_stop {N nv : Nat} {s : CGStrategy} {t : SuperNodeTree} (h : CGInv N nv s t)
    (b : Bool) : CGInv N nv { s with stop := b } t :=
  h.of_eq rfl rfl rfl

/-- [S] THE WHOLE LOOP of `merge_cliques` for the clique-graph strategy -/
theorem cg_loop_spec (hTr : TraverseSpec) (hEv : EvaluateSpec) (hMU : MergeUpdateSpec)
    (N nv : Nat) : ∀ (fuel : Nat) (s : CGStrategy) (t : SuperNodeTree), CGInv N nv s t →
    2 ≤ t.nCliques → (if s.stop then 1 else t.nCliques + 1) ≤ fuel →
    ∃ s' t', CGStrategy.loop fuel s t = .ok (s', t') ∧ CGInv N nv s' t' ∧ CGFrame t t' ∧
      CGCover t t' ∧ 1 ≤ t'.nCliques := by
  intro fuel
  induction fuel with
  | zero =>
    intro s t _ _ hf
    split at hf <;> omega
  | succ fuel ih =>
    intro s t hinv h2 hf
    unfold CGStrategy.loop
    by_cases hstop : s.stop = true
    · simp only [hstop, if_true]
      exact ⟨s, t, rfl, hinv, CGFrame.refl t, CGCover.refl t, by omega⟩
    · simp only [hstop, Bool.false_eq_true, if_false] at hf ⊢
      obtain ⟨p', cand?, htr, hpsz, hcand⟩ := hTr N nv s t hinv h2
      have hinv1 : CGInv N nv { s with p := p' } t := hinv.of_eq rfl rfl hpsz
      simp only [htr, bind, Except.bind]
      cases hc : cand? with
      | none =>
        exact ⟨_, t, rfl, hinv1, CGFrame.refl t, CGCover.refl t, by omega⟩
      | some cand =>
        obtain ⟨r, c⟩ := cand
        have hsome := hcand r c hc
        obtain ⟨v, hv⟩ := Option.isSome_iff_exists.1 hsome
        have hev := hEv N nv { s with p := p' } t hinv1 r c v hv
        simp only [hev]
        by_cases hvn : v ≥ 0
        · -- merge
          simp only [hvn, if_true, decide_true]
          obtain ⟨t', s', hm, hu, hinv', hfr, hcov, hncl, hst⟩ :=
            hMU N nv { s with p := p' } t hinv1 r c hsome
          simp only [hm, hu]
          by_cases h1 : t'.nCliques = 1
          · simp only [h1, beq_self_eq_true, if_true, pure, Except.pure]
            exact ⟨s', t', rfl, hinv', hfr, hcov, by omega⟩
          · have hne : (t'.nCliques == 1) = false := by simpa using h1
            simp only [hne, Bool.false_eq_true, if_false]
            have hs' : s'.stop = false := by
              rw [hst]; simpa using hstop
            obtain ⟨s'', t'', hl, hi'', hf'', hc'', hn''⟩ :=
              ih s' t' hinv' (by omega) (by simp only [hs', Bool.false_eq_true, if_false]; omega)
            exact ⟨s'', t'', hl, hi'', hfr.trans hf'', hcov.trans hc'', hn''⟩
        · -- no merge: `stop`
          simp only [hvn, if_false, decide_false, Bool.false_eq_true, pure, Except.pure,
            updateStrategy_false]
          have hne : (t.nCliques == 1) = false := by
            have : t.nCliques ≠ 1 := by omega
            simpa using this
          simp only [hne, Bool.false_eq_true, if_false]
          obtain ⟨s'', t'', hl, hi'', hf'', hc'', hn''⟩ :=
            ih { s with p := p', stop := true } t (hinv1.with_stop true) h2
              (by simp only [if_true]; omega)
          exact ⟨s'', t'', hl, hi'', hf'', hc'', hn''⟩

end Clarabel.Chordal
