/-
  Panic-freedom of the whole-solver model WITH NONSYMMETRIC CONES (`ClarabelModel/SolverNS/*`, C04) —
  composite-cone operations, part B: `step_length`, `unit_initialization`, `compute_barrier` of
  `SolverNS/Cones.lean` and `symmetric_initialization` of `SolverNS/Vars.lean`.

  The statements are exactly the fields `stepLength`, `unitInitialization`, `computeBarrier`,
  `symInit` of `ConeStage E` (`SolverNSNoPanicDefs.lean`), for a generic set `E` of allowed
  numerical-domain panic sites containing
    * `"argument not in supported range"` (`Exp.wrightOmega`, reached from `compute_barrier` of an
      exponential cone), and
    * `"backtrack_search: fuel"` (`Nonsym.backtrackSearch`, reached from `step_length` of an
      exponential / power / generalised power cone).
  Every other `.panic` and every `.err` is proved unreachable on consistently sized cone objects
  (`ConesFull`) and vectors of the composite cone's dimension.

  All structural ([S]): no law of the scalar type is used; the only scalar hypothesis is `FmaxOK`
  (for the second-order cone's `step_length`, as in the symmetric model).
-/
import ClarabelProofs.Lemmas.SolverNSNoPanicDefs
import ClarabelProofs.Lemmas.SolverModelNoPanicConesA
import ClarabelProofs.Lemmas.SolverModelNoPanicConesB

namespace Clarabel.SolverNS
open Clarabel Info Residuals
open Clarabel.Solver (OkAnd FmaxOK VarsSized bind_ok_of bind_ok_inv)

set_option linter.unusedSectionVars false
set_option linter.unusedVariables false

variable {α : Type} [Add α] [Sub α] [Mul α] [Div α] [Neg α] [LT α] [LE α] [DecidableLT α] [DecidableLE α]
  [BEq α] [OfNat α 0] [OfNat α 1] [OfNat α 2] [OfNat α 3] [OfNat α 4] [OfNat α 100] [OfNat α 1000]
  [OfScientific α] [FloatLike α]

/-! Helper lemmas live in the sub-namespace `ConesB` (so that they cannot clash with the helpers of
the other stage files); the four interface theorems are stated in `Clarabel.SolverNS` at the end. -/
namespace ConesB

/-! ### generic helpers -/

/-- [S] zipping two slice lists related to the same cone list -/
theorem forall₂_zip {β γ δ : Type} {R1 : β → γ → Prop} {R2 : β → δ → Prop} {cs : List β}
    {xs : List γ} (h1 : List.Forall₂ R1 cs xs) : ∀ {ys : List δ}, List.Forall₂ R2 cs ys →
      List.Forall₂ (fun c (p : γ × δ) => R1 c p.1 ∧ R2 c p.2) cs (xs.zip ys) := by
  induction h1 with
  | nil => intro ys h2; cases h2; exact .nil
  | cons hab _ ih =>
    intro ys h2
    cases h2 with
    | cons hcd h2' => exact .cons ⟨hab, hcd⟩ (ih h2')

/-- [S] the members of a zip of related lists are related pairs -/
theorem forall₂_mem_zip {β γ : Type} {R : β → γ → Prop} {cs : List β} {ps : List γ}
    (h : List.Forall₂ R cs ps) : ∀ p ∈ cs.zip ps, p.1 ∈ cs ∧ R p.1 p.2 := by
  induction h with
  | nil => intro p hp; cases hp
  | @cons a b l l' hab _ ih =>
    intro p hp
    rw [List.zip_cons_cons, List.mem_cons] at hp
    cases hp with
    | inl e => subst e; exact ⟨List.mem_cons_self .., hab⟩
    | inr e => exact ⟨List.mem_cons_of_mem _ (ih p e).1, (ih p e).2⟩

/-- [S] a per-cone map over `(cone, slices)` is `.ok` when the per-cone function is on every related
pair, and the results are related to the cones -/
theorem mapM_zip_okAnd {γ β : Type} (R : ConeSt α → γ → Prop) (P : ConeSt α → Prop)
    (Q : ConeSt α → β → Prop) (f : ConeSt α × γ → MErr β)
    (hf : ∀ c p, P c → R c p → OkAnd (f (c, p)) (Q c)) :
    ∀ {cones : List (ConeSt α)} {ps : List γ}, List.Forall₂ R cones ps → (∀ c ∈ cones, P c) →
      OkAnd ((cones.zip ps).mapM f) (fun outs => List.Forall₂ Q cones outs) := by
  intro cones ps h
  induction h with
  | nil => intro _; exact ⟨[], rfl, .nil⟩
  | @cons c p cs ps' hcp _ ih =>
    intro hP
    obtain ⟨o, ho, hQ⟩ := hf c p (hP c (List.mem_cons_self ..)) hcp
    obtain ⟨os, hos, hQs⟩ := ih (fun c' hc' => hP c' (List.mem_cons_of_mem _ hc'))
    refine ⟨o :: os, ?_, .cons hQ hQs⟩
    simp only [List.zip_cons_cons, List.mapM_cons]
    rw [ho, hos]
    rfl

/-- [S] a monadic left fold stays inside `OkOr E` when the step function does on every member -/
theorem foldlM_okOr {σ β : Type} {E : String → Prop} (f : σ → β → MErr σ) : ∀ (l : List β),
    (∀ p ∈ l, ∀ acc, OkOr E (f acc p) (fun _ => True)) →
      ∀ acc, OkOr E (l.foldlM f acc) (fun _ => True) := by
  intro l
  induction l with
  | nil => intro _ acc; rw [List.foldlM_nil]; exact OkOr.pure trivial
  | cons p ps ih =>
    intro hl acc
    rw [List.foldlM_cons]
    exact (hl p (List.mem_cons_self ..) acc).bind
      fun r _ => ih (fun q hq => hl q (List.mem_cons_of_mem _ hq)) r

/-- [S] per-cone results of the cones' dimensions, as lists of lengths -/
theorem sizes_of_forall₂ {β : Type} (sz : β → Nat) : ∀ {cones : List (ConeSt α)} {outs : List β},
    List.Forall₂ (fun c o => sz o = c.numel) cones outs → outs.map sz = cones.map ConeSt.numel := by
  intro cones outs h
  induction h with
  | nil => rfl
  | cons hab _ ih => simp only [List.map_cons, hab, ih]

/-- [S] pasting per-cone results of the right dimensions back keeps the length of the vector -/
theorem pasteBack_size {cones : List (ConeSt α)} {v : Array α} {outs : List (Array α)}
    (hle : numelAll cones ≤ v.size) (houts : outs.map Array.size = cones.map ConeSt.numel) :
    (pasteBack cones v outs).size = v.size := by
  unfold pasteBack
  rw [Array.size_append, Solver.foldl_append_size, houts, Array.size_extract]
  show numelAll cones + _ = _
  omega

/-- [S] a slice of length 3 is a triple -/
theorem v3E_ok {a : Array α} (site : String) (h : a.size = 3) : ∃ v, v3E a site = .ok v := by
  obtain ⟨l⟩ := a
  rcases l with _ | ⟨a0, _ | ⟨a1, _ | ⟨a2, _ | ⟨a3, t⟩⟩⟩⟩
  · exfalso; change 0 = 3 at h; omega
  · exfalso; change 1 = 3 at h; omega
  · exfalso; change 2 = 3 at h; omega
  · exact ⟨(a0, a1, a2), rfl⟩
  · exfalso
    change t.length + 4 = 3 at h
    omega

/-! ### `unit_initialization` -/

theorem genpow_unitInitialization_size (al : Array α) (d2 : Nat) :
    (GenPow.unitInitialization al d2).size = al.size + d2 := by
  unfold GenPow.unitInitialization
  simp only [List.size_toArray, List.length_append, List.length_map, Array.length_toList,
    List.length_replicate]

theorem soc_unitInitialization_ok {z s : Array α} (hz : 1 ≤ z.size) (hs : 1 ≤ s.size) :
    OkAnd (Soc.unitInitialization z s) (fun o => o.1.size = z.size ∧ o.2.size = s.size) := by
  obtain ⟨s', hs'⟩ := Solver.ConesB.soc_scaledUnitShift_ok (z := s.map (fun _ => (0 : α))) 1
    (by rw [Array.size_map]; exact hs)
  obtain ⟨z', hz'⟩ := Solver.ConesB.soc_scaledUnitShift_ok (z := z.map (fun _ => (0 : α))) 1
    (by rw [Array.size_map]; exact hz)
  have e1 := Solver.soc_scaledUnitShift_size hs'
  have e2 := Solver.soc_scaledUnitShift_size hz'
  rw [Array.size_map] at e1 e2
  unfold Soc.unitInitialization
  rw [bind_ok_of hs', bind_ok_of hz']
  exact ⟨_, rfl, e2, e1⟩

/-- [S] `unit_initialization` of one cone is total on slices of the cone's dimension and keeps it -/
theorem unitInit1_ok {c : ConeSt α} {z s : Array α} (hc : ConeFull c) (hz : z.size = c.numel)
    (hs : s.size = c.numel) :
    OkAnd (unitInit1 c z s) (fun o => o.1.size = c.numel ∧ o.2.size = c.numel) := by
  cases c with
  | sym c =>
    cases c with
    | zero d =>
      refine ⟨_, rfl, ?_, ?_⟩
      · show (z.map _).size = _
        rw [Array.size_map]; exact hz
      · show (s.map _).size = _
        rw [Array.size_map]; exact hs
    | nonneg K =>
      refine ⟨_, rfl, ?_, ?_⟩
      · show (z.map _).size = _
        rw [Array.size_map]; exact hz
      · show (s.map _).size = _
        rw [Array.size_map]; exact hs
    | soc K =>
      have hd : 2 ≤ K.dim := hc.1
      have e : (ConeSt.sym (Solver.ConeSt.soc K)).numel = K.dim := rfl
      rw [e] at hz hs ⊢
      exact (soc_unitInitialization_ok (z := z) (s := s) (by omega) (by omega)).mono
        fun o ho => ⟨ho.1.trans hz, ho.2.trans hs⟩
  | exp K => exact ⟨_, rfl, rfl, rfl⟩
  | pow a K => exact ⟨_, rfl, rfl, rfl⟩
  | genpow al d2 ψ K =>
    exact ⟨_, rfl, genpow_unitInitialization_size al d2, genpow_unitInitialization_size al d2⟩

/-- [S] `CompositeCone::unit_initialization` is total on full cones and vectors of the cone's
dimension, and keeps the lengths -/
theorem unitInitialization_ok (cones : List (ConeSt α)) (z s : Array α) (h : ConesFull cones)
    (h1 : z.size = numelAll cones) (h2 : s.size = numelAll cones) :
    OkAnd (unitInitialization cones z s) (fun o => o.1.size = z.size ∧ o.2.size = s.size) := by
  obtain ⟨zs, hzs, hzF⟩ := cutE_ok (cones := cones) (v := z) "unit_initialization z" (by omega)
  obtain ⟨ss, hss, hsF⟩ := cutE_ok (cones := cones) (v := s) "unit_initialization s" (by omega)
  have hrel := forall₂_zip hzF hsF
  unfold unitInitialization
  rw [bind_ok_of hzs, bind_ok_of hss]
  refine (mapM_zip_okAnd _ ConeFull (fun c (o : Array α × Array α) => o.1.size = c.numel ∧ o.2.size = c.numel)
    _ ?_ hrel h).bind fun outs houts => ?_
  · intro c p hc hp
    exact unitInit1_ok hc hp.1 hp.2
  · refine OkAnd.pure ⟨pasteBack_size (by omega) ?_, pasteBack_size (by omega) ?_⟩
    · rw [List.map_map]
      exact sizes_of_forall₂ (fun o : Array α × Array α => o.1.size)
        (List.Forall₂.imp (fun _ _ h => h.1) houts)
    · rw [List.map_map]
      exact sizes_of_forall₂ (fun o : Array α × Array α => o.2.size)
        (List.Forall₂.imp (fun _ _ h => h.2) houts)

/-! ### `step_length` -/

/-- [S] `backtrack_search` returns a value or exhausts the model's fuel (the unbounded Rust `loop`);
nothing else -/
theorem backtrackSearch_okOr {E : String → Prop} (hb : E "backtrack_search: fuel")
    (dq q : Array α) (aMin step : α) (inCone : Array α → Bool) : ∀ (fuel : Nat) (aInit : α),
      OkOr E (Nonsym.backtrackSearch dq q aInit aMin step inCone fuel) (fun _ => True) := by
  intro fuel
  induction fuel with
  | zero => intro aInit; exact hb
  | succ n ih =>
    intro aInit
    unfold Nonsym.backtrackSearch
    dsimp only
    split
    · exact trivial
    · split
      · exact trivial
      · exact ih _

theorem exp_stepLength_okOr {E : String → Prop} (hb : E "backtrack_search: fuel")
    (dz ds z s : V3 α) (step aMin aMax : α) (fuel : Nat) :
    OkOr E (Exp.stepLength dz ds z s step aMin aMax fuel) (fun _ => True) := by
  unfold Exp.stepLength
  refine (backtrackSearch_okOr hb _ _ _ _ _ fuel aMax).bind fun _ _ => ?_
  exact (backtrackSearch_okOr hb _ _ _ _ _ fuel aMax).bind fun _ _ => trivial

theorem pow_stepLength_okOr {E : String → Prop} (hb : E "backtrack_search: fuel")
    (a : α) (dz ds z s : V3 α) (step aMin aMax : α) (fuel : Nat) :
    OkOr E (Pow.stepLength a dz ds z s step aMin aMax fuel) (fun _ => True) := by
  unfold Pow.stepLength
  refine (backtrackSearch_okOr hb _ _ _ _ _ fuel aMax).bind fun _ _ => ?_
  exact (backtrackSearch_okOr hb _ _ _ _ _ fuel aMax).bind fun _ _ => trivial

theorem genpow_stepLength_okOr {E : String → Prop} (hb : E "backtrack_search: fuel")
    (al dz ds z s : Array α) (step aMin aMax : α) (fuel : Nat) :
    OkOr E (GenPow.stepLength al dz ds z s step aMin aMax fuel) (fun _ => True) := by
  unfold GenPow.stepLength
  refine (backtrackSearch_okOr hb _ _ _ _ _ fuel aMax).bind fun _ _ => ?_
  exact (backtrackSearch_okOr hb _ _ _ _ _ fuel aMax).bind fun _ _ => trivial

/-- [S] the closure `innerfcn` stays inside `OkOr E` when every cone's `step_length` does -/
theorem inner_okOr {E : String → Prop} (fns : List (Composite.ConeFn α)) (symcond : Bool)
    (h : ∀ c ∈ fns, ∀ a, OkOr E (c.stepLength a) (fun _ => True)) (a : α) :
    OkOr E (Composite.inner fns symcond a) (fun _ => True) := by
  unfold Composite.inner
  refine foldlM_okOr _ fns ?_ a
  intro c hc acc
  dsimp only
  split
  · exact trivial
  · exact (h c hc acc).bind fun ⟨az, as⟩ _ => trivial

/-- [S] the composite `step_length` (C15 model) stays inside `OkOr E` when every cone's does -/
theorem compStepLength_okOr {E : String → Prop} (fns : List (Composite.ConeFn α)) (msf amax : α)
    (h : ∀ c ∈ fns, ∀ a, OkOr E (c.stepLength a) (fun _ => True)) :
    OkOr E (Composite.stepLength fns msf amax) (fun _ => True) := by
  unfold Composite.stepLength
  dsimp only
  refine (inner_okOr fns true h amax).bind fun a1 _ => ?_
  exact (inner_okOr fns false h _).bind fun _ _ => trivial

/-- [S] the only panic of `_step_length_soc_component` is `c < 0` ("starting point of line search not
in SOC"): excluded by `FmaxOK`, or an allowed site -/
theorem soc_stepLengthQuad_okOr {E : String → Prop} (a b c amax : α)
    (hc : ¬ (c < 0) ∨ E "starting point of line search not in SOC") :
    OkOr E (Soc.stepLengthQuad a b c amax) (fun _ => True) := by
  rcases hc with hc | hc
  · exact OkOr.of_exists (Solver.ConesB.soc_stepLengthQuad_ok a b c amax hc)
  · unfold Soc.stepLengthQuad
    dsimp only
    split
    · exact hc
    · split
      · exact trivial
      · split
        · exact trivial
        · split
          · exact trivial
          · exact trivial

theorem soc_stepLengthComponent_okOr {E : String → Prop}
    (hs : FmaxOK α ∨ E "starting point of line search not in SOC") {x y : Array α} (amax : α)
    (hx : 1 ≤ x.size) (hy : 1 ≤ y.size) :
    OkOr E (Soc.stepLengthComponent x y amax) (fun _ => True) := by
  obtain ⟨x0, x1, hx'⟩ := Solver.ConesB.soc_split_total (x := x) hx
  obtain ⟨y0, y1, hy'⟩ := Solver.ConesB.soc_split_total (x := y) hy
  unfold Soc.stepLengthComponent
  rw [bind_ok_of hx']; dsimp only
  rw [bind_ok_of hy']; dsimp only
  unfold Soc.stepLengthComponentCore
  exact soc_stepLengthQuad_okOr _ _ _ _ (hs.imp (fun hf => hf _) id)

theorem soc_stepLength_okOr {E : String → Prop}
    (hs : FmaxOK α ∨ E "starting point of line search not in SOC") {dz ds z s : Array α} (amax : α)
    (h1 : 1 ≤ dz.size) (h2 : 1 ≤ ds.size) (h3 : 1 ≤ z.size) (h4 : 1 ≤ s.size) :
    OkOr E (Soc.stepLength dz ds z s amax) (fun _ => True) := by
  unfold Soc.stepLength
  refine (soc_stepLengthComponent_okOr hs amax h3 h1).bind fun _ _ => ?_
  exact (soc_stepLengthComponent_okOr hs amax h4 h2).bind fun _ _ => trivial

/-- [S] the closures handed to the composite `step_length` exist; each returns a value, runs out
of the backtracking fuel, or (when `FmaxOK` is not assumed) hits the second-order cone's
"starting point of line search not in SOC" site.  The fuel site is only needed when the composite
has a nonsymmetric cone (only the closures of exp / pow / genpow cones call `backtrack_search`). -/
theorem stepFns_okC {E : String → Prop}
    (hs : FmaxOK α ∨ E "starting point of line search not in SOC")
    (ls : LineSearch α) {cones : List (ConeSt α)}
    (hb : hasNonsym (cones.map ConeSt.kktSpec) → E "backtrack_search: fuel")
    {dz ds z s : Array α} (h : ConesFull cones)
    (h1 : dz.size = numelAll cones) (h2 : ds.size = numelAll cones) (h3 : z.size = numelAll cones)
    (h4 : s.size = numelAll cones) :
    ∃ fns, stepFns ls cones dz ds z s = .ok fns
      ∧ ∀ c ∈ fns, ∀ a, OkOr E (c.stepLength a) (fun _ => True) := by
  obtain ⟨dzs, hdzs, F1⟩ := cutE_ok (cones := cones) (v := dz) "step_length dz" (by omega)
  obtain ⟨dss, hdss, F2⟩ := cutE_ok (cones := cones) (v := ds) "step_length ds" (by omega)
  obtain ⟨zs, hzs, F3⟩ := cutE_ok (cones := cones) (v := z) "step_length z" (by omega)
  obtain ⟨ss, hss, F4⟩ := cutE_ok (cones := cones) (v := s) "step_length s" (by omega)
  have hrel := forall₂_zip F1 (forall₂_zip F2 (forall₂_zip F3 F4))
  unfold stepFns
  rw [bind_ok_of hdzs, bind_ok_of hdss, bind_ok_of hzs, bind_ok_of hss]
  refine ⟨_, rfl, ?_⟩
  intro c hc a
  rw [List.mem_map] at hc
  obtain ⟨p, hp, rfl⟩ := hc
  obtain ⟨hmem, q1, q2, q3, q4⟩ := forall₂_mem_zip hrel p hp
  have hfull := h _ hmem
  obtain ⟨c, p1, p2, p3, p4⟩ := p
  dsimp only at q1 q2 q3 q4 hfull hmem ⊢
  cases c with
  | sym c =>
    cases c with
    | zero d => exact trivial
    | nonneg K =>
      exact OkOr.of_exists
        (Solver.ConesB.nn_stepLength_ok a (q3.trans q4.symm) (q1.trans q3.symm) (q2.trans q4.symm))
    | soc K =>
      have hd : 2 ≤ K.dim := hfull.1
      have e : (ConeSt.sym (Solver.ConeSt.soc K)).numel = K.dim := rfl
      exact soc_stepLength_okOr hs a (by omega) (by omega) (by omega) (by omega)
  | exp K =>
    have hb' : E "backtrack_search: fuel" :=
      hb ⟨_, List.mem_map.mpr ⟨_, hmem, rfl⟩, Or.inl rfl⟩
    have e : (ConeSt.exp K).numel = 3 := rfl
    obtain ⟨v1, hv1⟩ := v3E_ok (a := p1) "dz" (q1.trans e)
    obtain ⟨v2, hv2⟩ := v3E_ok (a := p2) "ds" (q2.trans e)
    obtain ⟨v3, hv3⟩ := v3E_ok (a := p3) "z" (q3.trans e)
    obtain ⟨v4, hv4⟩ := v3E_ok (a := p4) "s" (q4.trans e)
    dsimp only
    rw [bind_ok_of hv1, bind_ok_of hv2, bind_ok_of hv3, bind_ok_of hv4]
    exact exp_stepLength_okOr hb' ..
  | pow al K =>
    have hb' : E "backtrack_search: fuel" :=
      hb ⟨_, List.mem_map.mpr ⟨_, hmem, rfl⟩, Or.inr (Or.inl rfl)⟩
    have e : (ConeSt.pow al K).numel = 3 := rfl
    obtain ⟨v1, hv1⟩ := v3E_ok (a := p1) "dz" (q1.trans e)
    obtain ⟨v2, hv2⟩ := v3E_ok (a := p2) "ds" (q2.trans e)
    obtain ⟨v3, hv3⟩ := v3E_ok (a := p3) "z" (q3.trans e)
    obtain ⟨v4, hv4⟩ := v3E_ok (a := p4) "s" (q4.trans e)
    dsimp only
    rw [bind_ok_of hv1, bind_ok_of hv2, bind_ok_of hv3, bind_ok_of hv4]
    exact pow_stepLength_okOr hb' ..
  | genpow al d2 ψ K =>
    have hb' : E "backtrack_search: fuel" :=
      hb ⟨_, List.mem_map.mpr ⟨_, hmem, rfl⟩, Or.inr (Or.inr ⟨_, _, rfl⟩)⟩
    exact genpow_stepLength_okOr hb' ..

/-- [S] the closures handed to the composite `step_length` exist; each returns a value, runs out
of the backtracking fuel, or (when `FmaxOK` is not assumed) hits the second-order cone's
"starting point of line search not in SOC" site -/
theorem stepFns_ok' {E : String → Prop}
    (hs : FmaxOK α ∨ E "starting point of line search not in SOC")
    (hb : E "backtrack_search: fuel")
    (ls : LineSearch α) {cones : List (ConeSt α)} {dz ds z s : Array α} (h : ConesFull cones)
    (h1 : dz.size = numelAll cones) (h2 : ds.size = numelAll cones) (h3 : z.size = numelAll cones)
    (h4 : s.size = numelAll cones) :
    ∃ fns, stepFns ls cones dz ds z s = .ok fns
      ∧ ∀ c ∈ fns, ∀ a, OkOr E (c.stepLength a) (fun _ => True) :=
  stepFns_okC hs ls (fun _ => hb) h h1 h2 h3 h4

/-- [S] the closures handed to the composite `step_length` exist; each returns a value or runs out
of the backtracking fuel -/
theorem stepFns_ok {E : String → Prop} (hf : FmaxOK α) (hb : E "backtrack_search: fuel")
    (ls : LineSearch α) {cones : List (ConeSt α)} {dz ds z s : Array α} (h : ConesFull cones)
    (h1 : dz.size = numelAll cones) (h2 : ds.size = numelAll cones) (h3 : z.size = numelAll cones)
    (h4 : s.size = numelAll cones) :
    ∃ fns, stepFns ls cones dz ds z s = .ok fns
      ∧ ∀ c ∈ fns, ∀ a, OkOr E (c.stepLength a) (fun _ => True) :=
  stepFns_ok' (Or.inl hf) hb ls h h1 h2 h3 h4

/-- [S] `CompositeCone::step_length`, with the fuel site conditional on the presence of a
nonsymmetric cone -/
theorem stepLength_okC {E : String → Prop}
    (hs : FmaxOK α ∨ E "starting point of line search not in SOC")
    (ls : LineSearch α) (cones : List (ConeSt α)) (dz ds z s : Array α) (msf amax : α)
    (hb : hasNonsym (cones.map ConeSt.kktSpec) → E "backtrack_search: fuel")
    (h : ConesFull cones) (h1 : dz.size = numelAll cones) (h2 : ds.size = numelAll cones)
    (h3 : z.size = numelAll cones) (h4 : s.size = numelAll cones) :
    OkOr E (stepLength ls cones dz ds z s msf amax) (fun _ => True) := by
  obtain ⟨fns, hfns, hall⟩ := stepFns_okC hs ls hb h h1 h2 h3 h4
  unfold stepLength
  rw [bind_ok_of hfns]
  exact compStepLength_okOr fns msf amax hall

/-- [S] `CompositeCone::step_length` on full cones and vectors of the cone's dimension returns a
value, runs out of the backtracking fuel, or (when `FmaxOK` is not assumed) panics at the
second-order cone's "starting point of line search not in SOC" -/
theorem stepLength_ok' {E : String → Prop}
    (hs : FmaxOK α ∨ E "starting point of line search not in SOC")
    (hb : E "backtrack_search: fuel")
    (ls : LineSearch α) (cones : List (ConeSt α)) (dz ds z s : Array α) (msf amax : α)
    (h : ConesFull cones) (h1 : dz.size = numelAll cones) (h2 : ds.size = numelAll cones)
    (h3 : z.size = numelAll cones) (h4 : s.size = numelAll cones) :
    OkOr E (stepLength ls cones dz ds z s msf amax) (fun _ => True) := by
  obtain ⟨fns, hfns, hall⟩ := stepFns_ok' hs hb ls h h1 h2 h3 h4
  unfold stepLength
  rw [bind_ok_of hfns]
  exact compStepLength_okOr fns msf amax hall

/-- [S] `CompositeCone::step_length` on full cones and vectors of the cone's dimension returns a
value or runs out of the backtracking fuel -/
theorem stepLength_ok {E : String → Prop} (hf : FmaxOK α) (hb : E "backtrack_search: fuel")
    (ls : LineSearch α) (cones : List (ConeSt α)) (dz ds z s : Array α) (msf amax : α)
    (h : ConesFull cones) (h1 : dz.size = numelAll cones) (h2 : ds.size = numelAll cones)
    (h3 : z.size = numelAll cones) (h4 : s.size = numelAll cones) :
    OkOr E (stepLength ls cones dz ds z s msf amax) (fun _ => True) :=
  stepLength_ok' (Or.inl hf) hb ls cones dz ds z s msf amax h h1 h2 h3 h4

/-! ### `compute_barrier` -/

theorem nnBarrier_ok {z s dz ds : Array α} (a : α) (h1 : z.size = s.size) (h2 : dz.size = z.size)
    (h3 : ds.size = s.size) : ∃ r, nnBarrier z s dz ds a = .ok r := by
  unfold nnBarrier
  rw [if_neg (by simp [h1, h2, h3])]
  exact ⟨_, rfl⟩

theorem dotShiftedE_ok {z s dz ds : Array α} (a : α) (h1 : z.size = s.size) (h2 : z.size = dz.size)
    (h3 : s.size = ds.size) : ∃ r, Vec.dotShiftedE z s dz ds a = .ok r := by
  unfold Vec.dotShiftedE
  rw [if_neg (by simp [h1]), if_neg (by simp [h2]), if_neg (by simp [h3])]
  exact ⟨_, rfl⟩

/-- [S] `_soc_residual_shifted` is total on non-empty slices of equal lengths -/
theorem socResidualShifted_ok {z dz : Array α} (a : α) (hz : 1 ≤ z.size) (h : dz.size = z.size) :
    ∃ r, socResidualShifted z dz a = .ok r := by
  obtain ⟨d, hd⟩ := dotShiftedE_ok (z := z.extract 1 z.size) (s := z.extract 1 z.size)
    (dz := dz.extract 1 dz.size) (ds := dz.extract 1 dz.size) a rfl
    (by simp only [Array.size_extract]; omega) (by simp only [Array.size_extract]; omega)
  unfold socResidualShifted
  rw [bind_ok_of (Solver.getE_ok' z 0 _ (by omega)), bind_ok_of (Solver.getE_ok' dz 0 _ (by omega))]
  dsimp only
  rw [bind_ok_of hd]
  exact ⟨_, rfl⟩

theorem socBarrier_ok {z s dz ds : Array α} (a : α) (hz : 1 ≤ z.size) (hs : 1 ≤ s.size)
    (h1 : dz.size = z.size) (h2 : ds.size = s.size) : ∃ r, socBarrier z s dz ds a = .ok r := by
  obtain ⟨rs, hrs⟩ := socResidualShifted_ok (z := s) (dz := ds) a hs h2
  obtain ⟨rz, hrz⟩ := socResidualShifted_ok (z := z) (dz := dz) a hz h1
  unfold socBarrier
  rw [bind_ok_of hrs, bind_ok_of hrz]
  split
  · exact ⟨_, rfl⟩
  · exact ⟨_, rfl⟩

/-- [S] the one numerical-domain panic of the exponential cone: `_wright_omega(z)` for `z < 0` -/
theorem wrightOmega_okOr {E : String → Prop} (hw : E "argument not in supported range") (x : α) :
    OkOr E (Exp.wrightOmega x) (fun _ => True) := by
  unfold Exp.wrightOmega
  split
  · exact hw
  · exact trivial

theorem exp_barrierPrimal_okOr {E : String → Prop} (hw : E "argument not in supported range")
    (s : V3 α) : OkOr E (Exp.barrierPrimal s) (fun _ => True) := by
  unfold Exp.barrierPrimal
  exact (wrightOmega_okOr hw _).bind fun _ _ => trivial

theorem exp_computeBarrier_okOr {E : String → Prop} (hw : E "argument not in supported range")
    (z s dz ds : V3 α) (a : α) : OkOr E (Exp.computeBarrier z s dz ds a) (fun _ => True) := by
  unfold Exp.computeBarrier
  dsimp only
  exact (exp_barrierPrimal_okOr hw _).bind fun _ _ => trivial

theorem genpow_split_ok {x : Array α} {d1 : Nat} (h : d1 ≤ x.size) :
    GenPow.split x d1 = .ok (x.extract 0 d1, x.extract d1 x.size) := by
  unfold GenPow.split
  rw [if_pos h]
  rfl

/-- [S] `gradient_primal` of the generalised power cone: `s[..dim1]` is in range, and the result has
at least `dim1` entries -/
theorem genpow_gradientPrimal_ok (al : Array α) (ψ : α) {s : Array α} (h : al.size ≤ s.size) :
    OkAnd (GenPow.gradientPrimal al ψ s) (fun g => al.size ≤ g.size) := by
  unfold GenPow.gradientPrimal
  rw [bind_ok_of (genpow_split_ok h)]
  dsimp only
  split
  · refine ⟨_, rfl, ?_⟩
    simp only [List.size_toArray, List.length_append, List.length_map, List.length_zip,
      Array.length_toList, Array.size_extract]
    omega
  · refine ⟨_, rfl, ?_⟩
    simp only [List.size_toArray, List.length_append, List.length_map, List.length_zip,
      Array.length_toList, Array.size_extract]
    omega

theorem genpow_barrierDual_ok (al : Array α) {z : Array α} (h : al.size ≤ z.size) :
    ∃ r, GenPow.barrierDual al z = .ok r := by
  unfold GenPow.barrierDual
  rw [bind_ok_of (genpow_split_ok h)]
  exact ⟨_, rfl⟩

theorem genpow_barrierPrimal_ok (al : Array α) (ψ : α) {s : Array α} (h : al.size ≤ s.size) :
    ∃ r, GenPow.barrierPrimal al ψ s = .ok r := by
  obtain ⟨g, hg, hsz⟩ := genpow_gradientPrimal_ok al ψ h
  obtain ⟨bd, hbd⟩ := genpow_barrierDual_ok al (z := Vec.negate g)
    (by unfold Vec.negate; rw [Array.size_map]; exact hsz)
  unfold GenPow.barrierPrimal
  rw [bind_ok_of hg, bind_ok_of hbd]
  exact ⟨_, rfl⟩

/-- [S] `compute_barrier` of the generalised power cone is total on slices of the cone's length
(the work vector `s + α·ds` has the length of `s`) -/
theorem genpow_computeBarrier_ok (al : Array α) (ψ : α) {z s dz ds : Array α} (a : α)
    (hz : al.size ≤ z.size) (hs : al.size ≤ s.size) (h1 : dz.size = z.size) (h2 : ds.size = s.size) :
    ∃ r, GenPow.computeBarrier al ψ z s dz ds a = .ok r := by
  obtain ⟨bp, hbp⟩ := genpow_barrierPrimal_ok al ψ (s := Vec.waxpby 1 s a ds)
    (by rw [Solver.waxpby_size _ _ _ _ h2.symm]; exact hs)
  obtain ⟨bd, hbd⟩ := genpow_barrierDual_ok al (z := Vec.waxpby 1 z a dz)
    (by rw [Solver.waxpby_size _ _ _ _ h1.symm]; exact hz)
  unfold GenPow.computeBarrier
  dsimp only
  rw [bind_ok_of hbp, bind_ok_of hbd]
  exact ⟨_, rfl⟩

/-- [S] `compute_barrier` of one cone on slices of the cone's dimension: a value, or the
`_wright_omega` panic of an exponential cone -/
theorem computeBarrier1_okOrC {E : String → Prop} {c : ConeSt α}
    (hw : c.kktSpec = Kkt.ConeSpec.exp → E "argument not in supported range")
    {z s dz ds : Array α} (a : α) (hc : ConeFull c) (hz : z.size = c.numel)
    (hs : s.size = c.numel) (hdz : dz.size = c.numel) (hds : ds.size = c.numel) :
    OkOr E (computeBarrier1 c z s dz ds a) (fun _ => True) := by
  cases c with
  | sym c =>
    cases c with
    | zero d => exact trivial
    | nonneg K =>
      exact OkOr.of_exists (nnBarrier_ok a (hz.trans hs.symm) (hdz.trans hz.symm) (hds.trans hs.symm))
    | soc K =>
      have hd : 2 ≤ K.dim := hc.1
      have e : (ConeSt.sym (Solver.ConeSt.soc K)).numel = K.dim := rfl
      exact OkOr.of_exists (socBarrier_ok a (by omega) (by omega) (hdz.trans hz.symm)
        (hds.trans hs.symm))
  | exp K =>
    have e : (ConeSt.exp K).numel = 3 := rfl
    obtain ⟨v1, hv1⟩ := v3E_ok (a := z) "z" (hz.trans e)
    obtain ⟨v2, hv2⟩ := v3E_ok (a := s) "s" (hs.trans e)
    obtain ⟨v3, hv3⟩ := v3E_ok (a := dz) "dz" (hdz.trans e)
    obtain ⟨v4, hv4⟩ := v3E_ok (a := ds) "ds" (hds.trans e)
    unfold computeBarrier1
    dsimp only
    rw [bind_ok_of hv1, bind_ok_of hv2, bind_ok_of hv3, bind_ok_of hv4]
    exact exp_computeBarrier_okOr (hw rfl) ..
  | pow al K =>
    have e : (ConeSt.pow al K).numel = 3 := rfl
    obtain ⟨v1, hv1⟩ := v3E_ok (a := z) "z" (hz.trans e)
    obtain ⟨v2, hv2⟩ := v3E_ok (a := s) "s" (hs.trans e)
    obtain ⟨v3, hv3⟩ := v3E_ok (a := dz) "dz" (hdz.trans e)
    obtain ⟨v4, hv4⟩ := v3E_ok (a := ds) "ds" (hds.trans e)
    unfold computeBarrier1
    dsimp only
    rw [bind_ok_of hv1, bind_ok_of hv2, bind_ok_of hv3, bind_ok_of hv4]
    exact trivial
  | genpow al d2 ψ K =>
    have e : (ConeSt.genpow al d2 ψ K).numel = al.size + d2 := rfl
    exact OkOr.of_exists (genpow_computeBarrier_ok al ψ a (by omega) (by omega)
      (hdz.trans hz.symm) (hds.trans hs.symm))

theorem computeBarrier1_okOr {E : String → Prop} (hw : E "argument not in supported range")
    {c : ConeSt α} {z s dz ds : Array α} (a : α) (hc : ConeFull c) (hz : z.size = c.numel)
    (hs : s.size = c.numel) (hdz : dz.size = c.numel) (hds : ds.size = c.numel) :
    OkOr E (computeBarrier1 c z s dz ds a) (fun _ => True) :=
  computeBarrier1_okOrC (fun _ => hw) a hc hz hs hdz hds

/-- [S] `CompositeCone::compute_barrier` on full cones and vectors of the cone's dimension returns a
value or panics in `_wright_omega`; the site is only needed when the composite has an exponential
cone -/
theorem computeBarrier_okC {E : String → Prop}
    (cones : List (ConeSt α)) (z s dz ds : Array α) (a : α)
    (hw : hasExp (cones.map ConeSt.kktSpec) → E "argument not in supported range")
    (h : ConesFull cones)
    (h1 : z.size = numelAll cones) (h2 : s.size = numelAll cones) (h3 : dz.size = numelAll cones)
    (h4 : ds.size = numelAll cones) :
    OkOr E (computeBarrier cones z s dz ds a) (fun _ => True) := by
  obtain ⟨zs, hzs, F1⟩ := cutE_ok (cones := cones) (v := z) "compute_barrier z" (by omega)
  obtain ⟨ss, hss, F2⟩ := cutE_ok (cones := cones) (v := s) "compute_barrier s" (by omega)
  obtain ⟨dzs, hdzs, F3⟩ := cutE_ok (cones := cones) (v := dz) "compute_barrier dz" (by omega)
  obtain ⟨dss, hdss, F4⟩ := cutE_ok (cones := cones) (v := ds) "compute_barrier ds" (by omega)
  have hrel := forall₂_zip F1 (forall₂_zip F2 (forall₂_zip F3 F4))
  unfold computeBarrier
  rw [bind_ok_of hzs, bind_ok_of hss, bind_ok_of hdzs, bind_ok_of hdss]
  refine foldlM_okOr _ _ ?_ 0
  intro p hp acc
  obtain ⟨hmem, q1, q2, q3, q4⟩ := forall₂_mem_zip hrel p hp
  refine (computeBarrier1_okOrC (fun he => hw ?_) a (h _ hmem) q1 q2 q3 q4).bind fun _ _ => trivial
  exact List.mem_map.mpr ⟨_, hmem, he⟩

/-- [S] `CompositeCone::compute_barrier` on full cones and vectors of the cone's dimension returns a
value or panics in `_wright_omega` -/
theorem computeBarrier_ok {E : String → Prop} (hw : E "argument not in supported range")
    (cones : List (ConeSt α)) (z s dz ds : Array α) (a : α) (h : ConesFull cones)
    (h1 : z.size = numelAll cones) (h2 : s.size = numelAll cones) (h3 : dz.size = numelAll cones)
    (h4 : ds.size = numelAll cones) :
    OkOr E (computeBarrier cones z s dz ds a) (fun _ => True) :=
  computeBarrier_okC cones z s dz ds a (fun _ => hw) h h1 h2 h3 h4

/-! ### `symmetric_initialization` -/

end ConesB

/-- the symmetric constituent cones of a composite cone, as cone objects of the symmetric model
(all of them when `isSymmetric cones`) -/
def symPart : List (ConeSt α) → List (Solver.ConeSt α)
  | [] => []
  | .sym c :: cs => c :: symPart cs
  | _ :: cs => symPart cs

namespace ConesB

/-- [S] on a symmetric composite cone the `margins` / `scaled_unit_shift` dispatch never reaches an
`unreachable!()` arm: the spec list is the one of the symmetric model -/
theorem compSpecs_ok (f : ConeSt α → MErr Composite.Spec)
    (hf : ∀ c, f (.sym c) = .ok c.compSpec) : ∀ (cones : List (ConeSt α)),
    isSymmetric cones = true → cones.mapM f = .ok ((symPart cones).map Solver.ConeSt.compSpec) := by
  intro cones
  induction cones with
  | nil => intro _; rfl
  | cons c cs ih =>
    intro h
    unfold isSymmetric at h
    rw [List.all_cons, Bool.and_eq_true] at h
    have ih' := ih h.2
    cases c with
    | sym c =>
      simp only [List.mapM_cons]
      rw [hf c, ih']
      rfl
    | exp K => exact absurd h.1 (by simp [ConeSt.isSymmetric])
    | pow a K => exact absurd h.1 (by simp [ConeSt.isSymmetric])
    | genpow al d2 ψ K => exact absurd h.1 (by simp [ConeSt.isSymmetric])

theorem symPart_full : ∀ (cones : List (ConeSt α)), isSymmetric cones = true → ConesFull cones →
    Solver.ConesFull (symPart cones) := by
  intro cones
  induction cones with
  | nil => intro _ _ c hc; cases hc
  | cons c cs ih =>
    intro h hf
    unfold isSymmetric at h
    rw [List.all_cons, Bool.and_eq_true] at h
    cases c with
    | sym c =>
      intro c' hc'
      have hc'' : c' ∈ c :: symPart cs := hc'
      rcases List.mem_cons.mp hc'' with rfl | hm
      · exact hf.head
      · exact ih h.2 hf.tail c' hm
    | exp K => exact absurd h.1 (by simp [ConeSt.isSymmetric])
    | pow a K => exact absurd h.1 (by simp [ConeSt.isSymmetric])
    | genpow al d2 ψ K => exact absurd h.1 (by simp [ConeSt.isSymmetric])

theorem symPart_numel : ∀ (cones : List (ConeSt α)), isSymmetric cones = true →
    Solver.numelAll (symPart cones) = numelAll cones := by
  intro cones
  induction cones with
  | nil => intro _; rfl
  | cons c cs ih =>
    intro h
    unfold isSymmetric at h
    rw [List.all_cons, Bool.and_eq_true] at h
    cases c with
    | sym c =>
      show Solver.numelAll (c :: symPart cs) = _
      rw [Solver.numelAll_cons, numelAll_cons, ih h.2]
      rfl
    | exp K => exact absurd h.1 (by simp [ConeSt.isSymmetric])
    | pow a K => exact absurd h.1 (by simp [ConeSt.isSymmetric])
    | genpow al d2 ψ K => exact absurd h.1 (by simp [ConeSt.isSymmetric])

/-- [S] `symmetric_initialization(cones)` is total on a symmetric composite cone of full cone
objects and variables of the problem's dimensions, and keeps the dimensions -/
theorem symInit_ok (cones : List (ConeSt α)) (v : Vars α) (n m : Nat)
    (hsym : isSymmetric cones = true) (h : ConesFull cones) (hm : numelAll cones = m)
    (hv : VarsSized n m v) : OkAnd (symmetricInitialization v cones) (VarsSized n m) := by
  have hF := symPart_full cones hsym h
  have hN := symPart_numel cones hsym
  obtain ⟨s', hs'⟩ := Solver.shiftToConeInterior_ok (cones := symPart cones) (z := v.s) true hF
    (by rw [hN, hm]; exact hv.s)
  obtain ⟨z', hz'⟩ := Solver.shiftToConeInterior_ok (cones := symPart cones) (z := v.z) false hF
    (by rw [hN, hm]; exact hv.z)
  unfold symmetricInitialization
  rw [bind_ok_of (compSpecs_ok _ ?hf cones hsym), bind_ok_of hs', bind_ok_of hz']
  case hf => intro c; rfl
  refine OkAnd.pure ⟨hv.x, ?_, ?_⟩
  · exact (Solver.shiftToConeInterior_size hs').trans hv.s
  · exact (Solver.shiftToConeInterior_size hz').trans hv.z

end ConesB

/-! ### the interface theorems of this stage (fields of `ConeStage E`) -/

/-- [S] field `stepLength` of `ConeStage E`: `CompositeCone::step_length` on full cones and vectors
of the cone's dimension returns a value, or the model's fuel for the unbounded `loop` of
`backtrack_search` is exhausted; no other panic, no `.err`.  (`FmaxOK`: `max(0, r) < 0` never holds,
which excludes the "starting point of line search not in SOC" panic.) -/
theorem stepLength_ok {E : String → Prop} (hf : FmaxOK α) (hb : E "backtrack_search: fuel")
    (ls : LineSearch α) (cones : List (ConeSt α)) (dz ds z s : Array α) (msf amax : α)
    (h : ConesFull cones) (h1 : dz.size = numelAll cones) (h2 : ds.size = numelAll cones)
    (h3 : z.size = numelAll cones) (h4 : s.size = numelAll cones) :
    OkOr E (stepLength ls cones dz ds z s msf amax) (fun _ => True) :=
  ConesB.stepLength_ok hf hb ls cones dz ds z s msf amax h h1 h2 h3 h4

/-- [S] field `stepLength` of `ConeStage E` with the scalar hypothesis optional: either `FmaxOK`, or
the second-order cone's `panic!("starting point of line search not in SOC")` is counted among the
allowed sites (so the stage can be instantiated with no law of the scalar type at all) -/
theorem stepLength_ok' {E : String → Prop}
    (hs : Solver.FmaxOK α ∨ E "starting point of line search not in SOC")
    (hb : E "backtrack_search: fuel") (ls : LineSearch α) (cones : List (ConeSt α))
    (dz ds z s : Array α) (msf amax : α)
    (h : ConesFull cones) (h1 : dz.size = numelAll cones) (h2 : ds.size = numelAll cones)
    (h3 : z.size = numelAll cones) (h4 : s.size = numelAll cones) :
    OkOr E (stepLength ls cones dz ds z s msf amax) (fun _ => True) :=
  ConesB.stepLength_ok' hs hb ls cones dz ds z s msf amax h h1 h2 h3 h4

/-- [S] field `stepLength` of `ConeStage E specs`, sharpened: the fuel site of `backtrack_search` is
only needed when the composite (seen through its KKT view) has an exponential, power or generalised
power cone -/
theorem stepLength_okC {E : String → Prop}
    (hs : Solver.FmaxOK α ∨ E "starting point of line search not in SOC")
    (ls : LineSearch α) (cones : List (ConeSt α)) (dz ds z s : Array α) (msf amax : α)
    (hb : hasNonsym (cones.map ConeSt.kktSpec) → E "backtrack_search: fuel")
    (h : ConesFull cones) (h1 : dz.size = numelAll cones) (h2 : ds.size = numelAll cones)
    (h3 : z.size = numelAll cones) (h4 : s.size = numelAll cones) :
    OkOr E (stepLength ls cones dz ds z s msf amax) (fun _ => True) :=
  ConesB.stepLength_okC hs ls cones dz ds z s msf amax hb h h1 h2 h3 h4

/-- [S] field `computeBarrier` of `ConeStage E specs`, sharpened: the `_wright_omega` site is only
needed when the composite (seen through its KKT view) has an exponential cone -/
theorem computeBarrier_okC {E : String → Prop}
    (cones : List (ConeSt α)) (z s dz ds : Array α) (a : α)
    (hw : hasExp (cones.map ConeSt.kktSpec) → E "argument not in supported range")
    (h : ConesFull cones) (h1 : z.size = numelAll cones) (h2 : s.size = numelAll cones)
    (h3 : dz.size = numelAll cones) (h4 : ds.size = numelAll cones) :
    OkOr E (computeBarrier cones z s dz ds a) (fun _ => True) :=
  ConesB.computeBarrier_okC cones z s dz ds a hw h h1 h2 h3 h4

/-- [S] field `unitInitialization` of `ConeStage E` -/
theorem unitInitialization_ok (cones : List (ConeSt α)) (z s : Array α) (h : ConesFull cones)
    (h1 : z.size = numelAll cones) (h2 : s.size = numelAll cones) :
    OkAnd (unitInitialization cones z s) (fun o => o.1.size = z.size ∧ o.2.size = s.size) :=
  ConesB.unitInitialization_ok cones z s h h1 h2

/-- [S] field `computeBarrier` of `ConeStage E`: `CompositeCone::compute_barrier` on full cones and
vectors of the cone's dimension returns a value, or `_wright_omega` of an exponential cone panics
on a negative argument; no other panic, no `.err` -/
theorem computeBarrier_ok {E : String → Prop} (hw : E "argument not in supported range")
    (cones : List (ConeSt α)) (z s dz ds : Array α) (a : α) (h : ConesFull cones)
    (h1 : z.size = numelAll cones) (h2 : s.size = numelAll cones) (h3 : dz.size = numelAll cones)
    (h4 : ds.size = numelAll cones) :
    OkOr E (computeBarrier cones z s dz ds a) (fun _ => True) :=
  ConesB.computeBarrier_ok hw cones z s dz ds a h h1 h2 h3 h4

/-- [S] field `symInit` of `ConeStage E` -/
theorem symInit_ok (cones : List (ConeSt α)) (v : Vars α) (n m : Nat)
    (hsym : isSymmetric cones = true) (h : ConesFull cones) (hm : numelAll cones = m)
    (hv : VarsSized n m v) : OkAnd (symmetricInitialization v cones) (VarsSized n m) :=
  ConesB.symInit_ok cones v n m hsym h hm hv

/-! ### the four fields, in the form `ConeStage E specs` states them (a type-check of the statements) -/

/-- field `stepLength`, for any `E` containing the sites the composite `specs` can reach -/
example {E : String → Prop} (specs : List Kkt.ConeSpec)
    (hs : FmaxOK α ∨ E "starting point of line search not in SOC")
    (hb : hasNonsym specs → E "backtrack_search: fuel") :
    ∀ (ls : LineSearch α) (cones : List (ConeSt α)) (dz ds z s : Array α) (msf amax : α),
    ConesFull cones → dz.size = numelAll cones → ds.size = numelAll cones → z.size = numelAll cones →
    s.size = numelAll cones →
    cones.map ConeSt.kktSpec = specs → OkOr E (stepLength ls cones dz ds z s msf amax) (fun _ => True) :=
  fun ls cones dz ds z s msf amax h h1 h2 h3 h4 hsp =>
    stepLength_okC hs ls cones dz ds z s msf amax (fun hn => hb (hsp ▸ hn)) h h1 h2 h3 h4

/-- field `stepLength` with `E := SiteFor specs` (the sharpened end theorem's site set) -/
example (hf : FmaxOK α) (specs : List Kkt.ConeSpec) :
    ∀ (ls : LineSearch α) (cones : List (ConeSt α)) (dz ds z s : Array α) (msf amax : α),
    ConesFull cones → dz.size = numelAll cones → ds.size = numelAll cones → z.size = numelAll cones →
    s.size = numelAll cones →
    cones.map ConeSt.kktSpec = specs →
    OkOr (SiteFor specs) (stepLength ls cones dz ds z s msf amax) (fun _ => True) :=
  fun ls cones dz ds z s msf amax h h1 h2 h3 h4 hsp =>
    stepLength_okC (Or.inl hf) ls cones dz ds z s msf amax
      (fun hn => Or.inr ⟨rfl, hsp ▸ hn⟩) h h1 h2 h3 h4

/-- with every panic site allowed the `stepLength` field needs no law of the scalar type -/
example (specs : List Kkt.ConeSpec) :
    ∀ (ls : LineSearch α) (cones : List (ConeSt α)) (dz ds z s : Array α) (msf amax : α),
    ConesFull cones → dz.size = numelAll cones → ds.size = numelAll cones → z.size = numelAll cones →
    s.size = numelAll cones →
    cones.map ConeSt.kktSpec = specs →
    OkOr (fun _ => True) (stepLength ls cones dz ds z s msf amax) (fun _ => True) :=
  fun ls cones dz ds z s msf amax h h1 h2 h3 h4 _ =>
    stepLength_ok' (Or.inr trivial) trivial ls cones dz ds z s msf amax h h1 h2 h3 h4

/-- field `unitInitialization` -/
example (specs : List Kkt.ConeSpec) : ∀ (cones : List (ConeSt α)) (z s : Array α), ConesFull cones →
    z.size = numelAll cones → s.size = numelAll cones →
    cones.map ConeSt.kktSpec = specs →
    OkAnd (unitInitialization cones z s) (fun o => o.1.size = z.size ∧ o.2.size = s.size) :=
  fun cones z s h h1 h2 _ => unitInitialization_ok cones z s h h1 h2

/-- field `computeBarrier`, for any `E` containing the sites the composite `specs` can reach -/
example {E : String → Prop} (specs : List Kkt.ConeSpec)
    (hw : hasExp specs → E "argument not in supported range") :
    ∀ (cones : List (ConeSt α)) (z s dz ds : Array α) (a : α), ConesFull cones →
    z.size = numelAll cones → s.size = numelAll cones → dz.size = numelAll cones →
    ds.size = numelAll cones →
    cones.map ConeSt.kktSpec = specs → OkOr E (computeBarrier cones z s dz ds a) (fun _ => True) :=
  fun cones z s dz ds a h h1 h2 h3 h4 hsp =>
    computeBarrier_okC cones z s dz ds a (fun he => hw (hsp ▸ he)) h h1 h2 h3 h4

/-- field `computeBarrier` with `E := SiteFor specs` -/
example (specs : List Kkt.ConeSpec) :
    ∀ (cones : List (ConeSt α)) (z s dz ds : Array α) (a : α), ConesFull cones →
    z.size = numelAll cones → s.size = numelAll cones → dz.size = numelAll cones →
    ds.size = numelAll cones →
    cones.map ConeSt.kktSpec = specs →
    OkOr (SiteFor specs) (computeBarrier cones z s dz ds a) (fun _ => True) :=
  fun cones z s dz ds a h h1 h2 h3 h4 hsp =>
    computeBarrier_okC cones z s dz ds a (fun he => Or.inl ⟨rfl, hsp ▸ he⟩) h h1 h2 h3 h4

/-- field `symInit` -/
example (specs : List Kkt.ConeSpec) : ∀ (cones : List (ConeSt α)) (v : Vars α) (n m : Nat),
    isSymmetric cones = true → ConesFull cones → numelAll cones = m → VarsSized n m v →
    cones.map ConeSt.kktSpec = specs →
    OkAnd (symmetricInitialization v cones) (VarsSized n m) :=
  fun cones v n m hsym h hm hv _ => symInit_ok cones v n m hsym h hm hv

/-! ### non-vacuity: one cone of each kind, sized as `make_cone` builds it -/

example : ConesFull (α := α)
    [.sym (.zero 1), .sym (.nonneg ⟨#[1], #[1]⟩), .sym (.soc ⟨2, #[1, 0], #[1, 0], 1, none⟩),
     .exp expInit, .pow 1 powInit, .genpow #[1] 1 1 (GenPow.State.init 1 1)] := by
  intro c hc
  simp only [List.mem_cons, List.not_mem_nil, or_false] at hc
  rcases hc with rfl | rfl | rfl | rfl | rfl | rfl
  · trivial
  · rfl
  · exact ⟨Nat.le_refl _, rfl, rfl, rfl, fun sp hsp => by cases hsp⟩
  · trivial
  · trivial
  · exact ⟨rfl, rfl, rfl, rfl, rfl, rfl⟩

example : isSymmetric (α := α) [.sym (.zero 1), .sym (.nonneg ⟨#[1], #[1]⟩)] = true := rfl

end Clarabel.SolverNS
