/-
  Solving twice (C05) — condition (iii) is gone.

  Since /repo 7c1c881 `solve_initial_point` zero-fills `variables.x/s/z` before its KKT solves, so a
  failed solve leaves the start a fresh solver would have, not the iterate of the previous `solve()`.
  In the model: `solveInitialPoint (zeroXSZ v) = solveInitialPoint v` (`zeroXSZ` is idempotent), hence
  `solve()` on a solver object = `solve()` on the same object with zero-filled `variables.x/s/z`
  (`solve_zeroVars`, an EQUATION: error or result, everything).  The relational chain of
  `Lemmas/SolverStaleSolve.lean` / `KktQwIdem.lean` is then applied to the two zero-filled objects, whose
  iterates agree (`VarsXSZ`), which discharges its hypothesis `hinit` (`InitPointOk ∨ VarsXSZ`).
-/
import ClarabelProofs.Lemmas.KktQwIdem

namespace Clarabel.Solver
open Clarabel Info Residuals

set_option linter.unusedSectionVars false
set_option linter.unusedVariables false

variable {α : Type}
variable [Add α] [Sub α] [Mul α] [Div α] [Neg α] [OfNat α 0] [OfNat α 1] [OfNat α 2]
  [OfNat α 100] [OfNat α 1000] [LT α] [DecidableLT α] [LE α] [DecidableLE α] [BEq α] [FloatLike α]

theorem zeroXSZ_idem (v : Vars α) : zeroXSZ (zeroXSZ v) = zeroXSZ v := by
  unfold zeroXSZ
  dsimp only
  rw [Array.map_map, Array.map_map, Array.map_map]
  rfl

/-- the incoming content of `variables.x/s/z` is dead in `solve_initial_point` -/
theorem KktSys.solveInitialPoint_zeroXSZ (S : KktSys α) (v : Vars α) (data : ProblemData α)
    (st : LinSettings α) : S.solveInitialPoint (zeroXSZ v) data st = S.solveInitialPoint v data st := by
  rw [KktSys.solveInitialPoint_eq_core, KktSys.solveInitialPoint_eq_core, zeroXSZ_idem]

/-- the solver state with `variables.x/s/z` zero-filled (`τ, κ` and everything else untouched) -/
def SolverSt.zeroVars (S : SolverSt α) : SolverSt α := { S with «variables» := zeroXSZ S.«variables» }

/-- the solver object with `variables.x/s/z` zero-filled -/
def Solver.zeroVars (S : Solver α) : Solver α := { S with st := S.st.zeroVars }

theorem defaultStart_zeroVars (S : SolverSt α) (st : Settings α) :
    S.zeroVars.defaultStart st = S.defaultStart st := by
  unfold SolverSt.defaultStart SolverSt.zeroVars
  dsimp only
  simp only [KktSys.solveInitialPoint_zeroXSZ]

theorem runSolve_zeroVars (S : SolverSt α) (st : Settings α) : S.zeroVars.runSolve st = S.runSolve st := by
  have e : ∀ T : SolverSt α, T.runSolve st =
      ((resetInfo T).defaultStart st >>= fun S0 => runLoop st (st.info.max_iter + 2) (initLoopSt S0)) := fun _ => rfl
  rw [e, e]
  show (resetInfo S).zeroVars.defaultStart st >>= _ = _
  rw [defaultStart_zeroVars]

/-- **`solve()` does not read `variables.x/s/z`**: zero-filling the three vectors of the solver object
before the call changes nothing — the same error, or the same `SolveResult` (solution, trajectory,
final state: everything). -/
theorem solve_zeroVars (S : Solver α) (st : Settings α) : S.zeroVars.solve st = S.solve st := by
  unfold Solver.solve Solver.zeroVars
  dsimp only
  rw [runSolve_zeroVars]

theorem Stale.zeroVars {Bw : KktSolver α → KktSolver α → Prop} {S S' : SolverSt α} (h : Stale Bw S S') :
    Stale Bw S.zeroVars S'.zeroVars :=
  ⟨h.data, h.«variables».zeroXSZ, h.residuals, h.kktsystem, h.cones, h.stepLhs, h.stepRhs, h.prevVars⟩

/-- **`solve()` on two `Stale`-related solver objects, no condition on the initial point**: both fail
with the same error, or both succeed with the same observable result — whatever `variables` hold
and whether `solve_initial_point` succeeds or not. -/
theorem solve_rel_any (hbeq : ((0 : α) == 0) = true) {Bw Bs : KktSolver α → KktSolver α → Prop}
    (hsim : KktSim Bw Bs) (st : Settings α) {S S' : Solver α} (h : Stale Bw S.st S'.st)
    (hsol : SolShape ((presolveMap S.st.data).map (fun m => m.keep.size)) S.solution S'.solution) :
    RelM SolveObs (S.solve st) (S'.solve st) := by
  rw [← solve_zeroVars S, ← solve_zeroVars S']
  exact solve_rel hbeq hsim st (S := S.zeroVars) (S' := S'.zeroVars) h.zeroVars hsol
    (Or.inr (VarsXSZ.zeroXSZ h.«variables»))

/-- the same with `QW1` (the two linear-solver objects answer the FIRST `update` alike) -/
theorem solve_rel1_any (hbeq : ((0 : α) == 0) = true) (st : Settings α) {S S' : Solver α}
    (h : Stale (QW1 (setIdentityScaling S.st.cones) st.lin) S.st S'.st)
    (hsol : SolShape ((presolveMap S.st.data).map (fun m => m.keep.size)) S.solution S'.solution) :
    RelM SolveObs (S.solve st) (S'.solve st) := by
  rw [← solve_zeroVars S, ← solve_zeroVars S']
  exact solve_rel1 hbeq st (S := S.zeroVars) (S' := S'.zeroVars) h.zeroVars hsol
    (Or.inr (VarsXSZ.zeroXSZ h.«variables»))

/-- `InitPointOk` is no longer needed by anything; for the record: it does not depend on the content
of `variables.x/s/z` either -/
theorem InitPointOk.zeroVars {S : SolverSt α} {st : Settings α} (h : InitPointOk S st) :
    InitPointOk S.zeroVars st := by
  intro u v hu hv
  refine h u v hu ?_
  rw [← KktSys.solveInitialPoint_zeroXSZ]
  exact hv

/-- **the second of two `solve()` calls on one solver object** gives the observable result of the
first — given (iv) `QW`, and NO condition on the initial point -/
theorem solve_twice_obs_any (hbeq : ((0 : α) == 0) = true) (st : Settings α) {S : Solver α} {r1 : SolveResult α}
    (h1 : S.solve st = .ok r1) (hc : ConesOk S.st.cones) (hw : WellSized S.st) (hq : WorkxSized S.st)
    (hsz : ∀ n, (presolveMap S.st.data).map (fun m => m.keep.size) = some n →
      S.solution.s.size ≤ n ∧ S.solution.z.size ≤ n)
    (hK : QW S.st.kktsystem.kktsolver r1.S.st.kktsystem.kktsolver) :
    ∃ r2, r1.S.solve st = .ok r2 ∧ SolveObs r1 r2 := by
  have hsh := solve_sameShape h1 hc
  obtain ⟨s1, s2, s3⟩ := solve_solution_shape h1
  have hsol : SolShape ((presolveMap S.st.data).map (fun m => m.keep.size)) S.solution r1.S.solution :=
    SolShape.of_sizes s1.symm s3.symm s2.symm hsz
  have hrel := solve_rel_any hbeq qdldl_kktSim st (S' := r1.S.withData S.st.data)
    (Stale.of_sameShape hsh hw hq hK) hsol
  rw [← solve_putBack h1 st] at hrel
  exact hrel.ok_left h1

/-- **the second of two `solve()` calls on one solver object** gives the observable result of the
first: no hypothesis on `KKTSolver::update`, no condition on the initial point -/
theorem solve_twice_obs1_any (hbeq : ((0 : α) == 0) = true) (st : Settings α) {S : Solver α} {r1 : SolveResult α}
    (h1 : S.solve st = .ok r1) (hc : ConesOk S.st.cones) (hw : WellSized S.st) (hq : WorkxSized S.st)
    (hk : KktOk S.st)
    (hsz : ∀ n, (presolveMap S.st.data).map (fun m => m.keep.size) = some n →
      S.solution.s.size ≤ n ∧ S.solution.z.size ≤ n) :
    ∃ r2, r1.S.solve st = .ok r2 ∧ SolveObs r1 r2 := by
  have hsh := solve_sameShape h1 hc
  obtain ⟨s1, s2, s3⟩ := solve_solution_shape h1
  have hsol : SolShape ((presolveMap S.st.data).map (fun m => m.keep.size)) S.solution r1.S.solution :=
    SolShape.of_sizes s1.symm s3.symm s2.symm hsz
  have hrel := solve_rel1_any hbeq st (S' := r1.S.withData S.st.data)
    (Stale.of_sameShape hsh hw hq (solve_kktOk h1 hc hk).2) hsol
  rw [← solve_putBack h1 st] at hrel
  exact hrel.ok_left h1

end Clarabel.Solver
