/-
  Solving twice on the whole-solver model WITH NONSYMMETRIC CONES (C05), the relational part —
  `DefaultKKTSystem`: `kktSysUpdate` (+ `solve_constant_rhs`) and `kktSysSolve` on two systems
  related by `KRel` give the same answers.  NS counterpart of `Lemmas/SolverStaleKkt.lean`, with the
  three cone-level congruences it needs (`affine_ds`, `mul_Hs`, `Δs_from_Δz_offset` never read the
  stale content of their output vector over `rng_cones`).

  All structural ([S]).
-/
import ClarabelProofs.Lemmas.SolverNSStaleDefs

namespace Clarabel.SolverNS
open Clarabel Info Residuals
open Clarabel.Solver (RelM SameFrom VarsShape StepShape ResidShape ListRel KRel KktSolver KktSys
  LinSettings QB StepDirection copyInto axpbyE waxpbyE)

set_option linter.unusedSectionVars false
set_option linter.unusedVariables false

variable {α : Type}

/-! ### `rng_cones` -/

theorem k_cutE_go_sizes {a a' : Array α} (site : String) (h : a.size = a'.size) :
    ∀ (cones : List (ConeSt α)) (start : Nat),
      RelM (ListRel (fun p p' : Array α => p.size = p'.size)) (cutE.go a site cones start)
        (cutE.go a' site cones start) := by
  intro cones
  induction cones with
  | nil => intro start; exact ListRel.nil
  | cons c rest ih =>
    intro start
    unfold cutE.go
    rw [h]
    split
    · rfl
    · refine RelM.bind (ih _) ?_
      intro tl tl' htl
      refine ListRel.cons ?_ htl
      simp only [Array.size_extract, h]

theorem k_cutE_sizes {a a' : Array α} (cones : List (ConeSt α)) (site : String) (h : a.size = a'.size) :
    RelM (ListRel (fun p p' : Array α => p.size = p'.size)) (cutE cones a site) (cutE cones a' site) :=
  k_cutE_go_sizes site h cones 0

theorem k_pasteBack_congr (cones : List (ConeSt α)) {v v' : Array α} (parts : List (Array α))
    (h : SameFrom (numelAll cones) v v') : pasteBack cones v parts = pasteBack cones v' parts := by
  unfold pasteBack
  rw [h.2]

/-- a per-cone map over `(cone, slice, rest)` triples whose function reads only the length of the
slice -/
theorem k_mapM_zip_sizes {β γ : Type} (f : ConeSt α × Array α × γ → MErr β)
    (hf : ∀ c p p' r, p.size = p'.size → f (c, p, r) = f (c, p', r)) :
    ∀ {ps ps' : List (Array α)}, ListRel (fun p p' : Array α => p.size = p'.size) ps ps' →
      ∀ (cones : List (ConeSt α)) (rs : List γ),
        (cones.zip (ps.zip rs)).mapM f = (cones.zip (ps'.zip rs)).mapM f := by
  intro ps ps' h
  induction h with
  | nil => intro cones rs; rfl
  | cons hp _ ih =>
    intro cones rs
    cases cones with
    | nil => rfl
    | cons c cs =>
      cases rs with
      | nil => rfl
      | cons r rs =>
        simp only [List.zip_cons_cons, List.mapM_cons]
        rw [hf c _ _ r hp, ih cs rs]

section
variable [Add α] [Sub α] [Mul α] [Div α] [Neg α] [LT α] [LE α] [DecidableLT α] [DecidableLE α]
  [BEq α] [OfNat α 0] [OfNat α 1] [OfNat α 2] [OfNat α 3] [OfNat α 4] [OfNat α 100] [OfNat α 1000]
  [OfScientific α] [FloatLike α]

/-! ### the composite-cone operations with an output buffer -/

/-- [S] `affine_ds(ds, s)` overwrites `ds[rng_cones]` without reading it (the nonsymmetric cones
copy their slice of `s`, the symmetric ones read the length of the `ds` slice only) -/
theorem affineDs_congr (cones : List (ConeSt α)) {ds ds' : Array α} (s : Array α)
    (h : SameFrom (numelAll cones) ds ds') : affineDs cones ds s = affineDs cones ds' s := by
  apply RelM.eq
  unfold affineDs
  refine RelM.bind (k_cutE_sizes cones _ h.1) ?_
  intro ps ps' hps
  refine RelM.bind (RelM.refl_eq _) ?_
  intro ss _ hss
  subst hss
  have hpb : ∀ parts, pasteBack cones ds parts = pasteBack cones ds' parts := fun p => k_pasteBack_congr cones p h
  simp only [hpb]
  rw [k_mapM_zip_sizes _ ?_ hps cones]
  · exact RelM.refl_eq _
  · intro c p p' r hp
    cases c with
    | sym c =>
      cases c with
      | zero d => simp only [Zero.affineDs, Solver.map_const_congr (0 : α) hp]
      | nonneg K => simp only [hp]
      | soc K => simp only [hp]
    | exp K => rfl
    | pow a K => rfl
    | genpow al d2 ψ K => rfl

/-- [S] `mul_Hs(y, x, work)` overwrites `y[rng_cones]` without reading it -/
theorem mulHs_congr (cones : List (ConeSt α)) {y y' : Array α} (x : Array α)
    (h : SameFrom (numelAll cones) y y') : mulHs cones y x = mulHs cones y' x := by
  apply RelM.eq
  unfold mulHs
  refine RelM.bind (RelM.refl_eq _) ?_
  intro xs _ hxs
  subst hxs
  refine RelM.bind (k_cutE_sizes cones _ h.1) ?_
  intro _ _ _
  have hpb : ∀ parts, pasteBack cones y parts = pasteBack cones y' parts := fun p => k_pasteBack_congr cones p h
  simp only [hpb]
  exact RelM.refl_eq _

/-- [S] `Δs_from_Δz_offset(out, ds, work, z)` overwrites `out[rng_cones]` without reading it -/
theorem dsFromDzOffset_congr (cones : List (ConeSt α)) {out out' : Array α} (ds z : Array α)
    (h : SameFrom (numelAll cones) out out') : dsFromDzOffset cones out ds z = dsFromDzOffset cones out' ds z := by
  apply RelM.eq
  unfold dsFromDzOffset
  refine RelM.bind (k_cutE_sizes cones _ h.1) ?_
  intro os os' hos
  refine RelM.bind (RelM.refl_eq _) ?_
  intro dss _ hd
  subst hd
  refine RelM.bind (RelM.refl_eq _) ?_
  intro zs _ hz
  subst hz
  have hpb : ∀ parts, pasteBack cones out parts = pasteBack cones out' parts := fun p => k_pasteBack_congr cones p h
  simp only [hpb]
  rw [k_mapM_zip_sizes _ ?_ hos cones]
  · exact RelM.refl_eq _
  · intro c p p' r hp
    cases c with
    | sym c =>
      cases c with
      | zero d => simp only [Zero.dsFromDzOffset, Solver.map_const_congr (0 : α) hp]
      | nonneg K => rfl
      | soc K => rfl
    | exp K => rfl
    | pow a K => rfl
    | genpow al d2 ψ K => rfl

/-! ### `DefaultKKTSystem` -/

/-- [S] `KKTSystem::update` on two systems whose linear-solver objects are `Bw`-related: same flag,
`QB`-related systems afterwards, the same `x2`, `z2` on success -/
theorem kktSysUpdate_rel {k : Nat} {st : LinSettings α} {Bw : KktSolver α → KktSolver α → Prop}
    (hsim : KktSimN k st Bw) {n : Nat} {S S' : KktSys α} (data : ProblemData α) (cones : List (ConeSt α))
    (hk : k ≤ nSpN cones) (h : KRel Bw n data.q.size S S') :
    RelM (fun r r' => r.1 = r'.1 ∧ KRel QB n data.q.size r.2 r'.2 ∧ (r.1 = true → r.2.x2 = r'.2.x2 ∧ r.2.z2 = r'.2.z2))
      (kktSysUpdate S data cones st) (kktSysUpdate S' data cones st) := by
  unfold kktSysUpdate
  refine RelM.bind (hsim.update cones hk h.solver) ?_
  rintro ⟨ok, K1⟩ ⟨ok', K1'⟩ ⟨h1, h2⟩
  dsimp only at h1 h2 ⊢
  subst h1
  have hkr : KRel QB n data.q.size { S with kktsolver := K1 } { S' with kktsolver := K1' } := { h with solver := h2 }
  cases ok with
  | false => exact ⟨rfl, hkr, fun h => (Bool.false_ne_true h).elim⟩
  | true => exact Solver.solveConstantRhs_rel Solver.qdldl_kktSim data st hkr

/-- [S] `KKTSystem::solve` after a successful `update` in the same pass -/
theorem kktSysSolve_rel {n : Nat}
    {S S' : KktSys α} {lhs lhs' : Vars α} (rhs : Vars α) (data : ProblemData α) (vars : Vars α)
    (cones : List (ConeSt α)) (dir : StepDirection) (st : LinSettings α) (hn : numelAll cones = n)
    {nq : Nat} (h : KRel QB n nq S S') (hx2 : S.x2 = S'.x2) (hz2 : S.z2 = S'.z2) (hl : StepShape n lhs lhs') :
    RelM (fun r r' => r.1 = r'.1 ∧ (if r.1 = true then r.2.1 = r'.2.1 else r.2.1 = lhs ∧ r'.2.1 = lhs')
        ∧ KRel QB n nq r.2.2 r'.2.2 ∧ r.2.2.x2 = r'.2.2.x2 ∧ r.2.2.z2 = r'.2.2.z2)
      (kktSysSolve S lhs rhs data vars cones dir st) (kktSysSolve S' lhs' rhs data vars cones dir st) := by
  subst hn
  obtain ⟨ks, x1, z1, x2, z2, wx, wz, wc⟩ := S
  obtain ⟨ks', x1', z1', x2', z2', wx', wz', wc'⟩ := S'
  obtain ⟨hks, hx1, hz1, _, _, hwx, hwz, hwc⟩ := h
  dsimp only at hks hx1 hz1 hwx hwz hwc hx2 hz2
  subst hx2 hz2
  unfold kktSysSolve
  dsimp only
  rw [Solver.copyInto_congr rhs.x "workx" hwx.1]
  refine RelM.bind (RelM.refl_eq _) ?_
  intro workx _ e
  subst e
  cases dir
  all_goals
    dsimp only
    first
      | rw [Solver.copyInto_congr vars.s "work_conic" hwc.1]
      | rw [dsFromDzOffset_congr cones rhs.s vars.z hwc]
    refine RelM.bind (RelM.refl_eq _) ?_
    intro dsConst _ e
    subst e
    rw [Solver.waxpbyE_len_congr _ _ _ _ _ hwz]
    refine RelM.bind (RelM.refl_eq _) ?_
    intro workz _ e
    subst e
    refine Solver.bind_solve Solver.qdldl_kktSim hks _ _ _ ?_
    rintro ⟨ok, lx, lz, K1⟩ ⟨ok', lx', lz', K1'⟩ ⟨h1, h2, h3, h4⟩
    dsimp only at h1 h2 h3 h4 ⊢
    subst h1 h2 h3
    cases ok with
    | false =>
      exact ⟨rfl, ⟨rfl, rfl⟩, ⟨h4, hx1, hz1, rfl, rfl, SameFrom.rfl' _ _, rfl, SameFrom.rfl' _ _⟩, rfl, rfl⟩
    | true =>
      simp only [Bool.not_true, Bool.false_eq_true, if_false]
      rw [Solver.copyInto_congr lx "x1" hx1, Solver.copyInto_congr lz "z1" hz1]
      have hm : ∀ dz, mulHs cones lhs.s dz = mulHs cones lhs'.s dz := fun dz => mulHs_congr cones dz hl.s
      simp only [hm, hl.x, hl.z]
      repeat (refine RelM.bind (RelM.refl_eq _) ?_; intro _ _ e; subst e)
      exact ⟨rfl, rfl, ⟨h4, rfl, rfl, rfl, rfl, SameFrom.rfl' _ _, rfl, SameFrom.rfl' _ _⟩, rfl, rfl⟩

end

end Clarabel.SolverNS
