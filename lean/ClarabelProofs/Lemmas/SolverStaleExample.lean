/-
  Non-vacuity of the `Stale` theorems (C05): for EVERY solver object `S` the object `poison S`
  — garbage in the iterate, the residuals, the step vectors, `prev_vars`, the `info` block, the KKT
  work vectors, the linear solver's work vectors, the cone scalings `λ`, the `solution` — is
  `Stale`-related to `S` (scalar type `Int`, where `0·a = 0`), and on the concrete example of
  `Lemmas/SolverModelExample.lean` `solve_initial_point` succeeds (evaluated by the kernel).
-/
import ClarabelProofs.Lemmas.SolverStaleIdem
import ClarabelProofs.Lemmas.SolverModelExample

namespace Clarabel.Solver.Example
open Clarabel Clarabel.Solver Clarabel.Residuals

attribute [local instance] intFloatLike

/-- same length, every entry replaced by `c` -/
def junk (a : Array Int) (c : Int) : Array Int := a.map (fun _ => c)

theorem junk_size (a : Array Int) (c : Int) : a.size = (junk a c).size := by simp [junk]

def junkVars (v : Vars Int) (c : Int) : Vars Int :=
  { x := junk v.x c, s := junk v.s (c + 1), z := junk v.z (c + 2), τ := c + 3, κ := c + 4 }

/-- step vectors: `x`, `z`, `τ`, `κ` replaced (the `s` part is kept: it is only dead up to the
cone dimension, which is not known for an arbitrary object) -/
def junkStep (v : Vars Int) (c : Int) : Vars Int :=
  { x := junk v.x c, s := v.s, z := junk v.z (c + 2), τ := c + 3, κ := c + 4 }

def junkLam : ConeSt Int → ConeSt Int
  | .zero d => .zero d
  | .nonneg K => .nonneg { K with w := junk K.w 3, lam := junk K.lam 41 }
  | .soc K => .soc { K with w := junk K.w 5, lam := junk K.lam 43, eta := 17,
                            sparse := K.sparse.map (fun sp => { u := junk sp.u 1, v := junk sp.v 2, d := 9 }) }

/-- garbage in every component that `solve()` must not read -/
def poison (S : Solver Int) : Solver Int :=
  { st :=
      { S.st with
        variables := junkVars S.st.variables 100
        residuals := { rx := junk S.st.residuals.rx 7, rz := junk S.st.residuals.rz 8, rτ := 9,
                       rx_inf := junk S.st.residuals.rx_inf 10, rz_inf := junk S.st.residuals.rz_inf 11,
                       dot_qx := 12, dot_bz := 13, dot_sz := 14, dot_xPx := 15,
                       Px := junk S.st.residuals.Px (-16) }
        kktsystem := { S.st.kktsystem with
                       kktsolver := { S.st.kktsystem.kktsolver with
                                      x := junk S.st.kktsystem.kktsolver.x 21, b := junk S.st.kktsystem.kktsolver.b 22,
                                      work1 := junk S.st.kktsystem.kktsolver.work1 23,
                                      work2 := junk S.st.kktsystem.kktsolver.work2 24 }
                       x1 := junk S.st.kktsystem.x1 31, z1 := junk S.st.kktsystem.z1 32,
                       x2 := junk S.st.kktsystem.x2 33, z2 := junk S.st.kktsystem.z2 34,
                       workz := junk S.st.kktsystem.workz 36 }
        cones := S.st.cones.map junkLam
        stepLhs := junkStep S.st.stepLhs 50
        stepRhs := junkStep S.st.stepRhs 60
        prevVars := junkVars S.st.prevVars 70
        info := { cost_primal := 1, cost_dual := 2, res_primal := 3, res_dual := 4, res_primal_inf := 5,
                  res_dual_inf := 6, gap_abs := 7, gap_rel := 8, ktratio := 9, prev_cost_primal := 10,
                  prev_cost_dual := 11, prev_res_primal := 12, prev_res_dual := 13, prev_gap_abs := 14,
                  prev_gap_rel := 15, iterations := 16, status := .numericalError }
        infoMu := 81, infoSigma := 82, infoStepLength := 83 }
    solution := { S.solution with x := junk S.solution.x 91, status := .maxTime, obj_val := some 5, iterations := 4 } }

theorem junkLam_shape (c : ConeSt Int) : ConeShape c (junkLam c) := by
  cases c with
  | zero d => exact rfl
  | nonneg K => exact ⟨junk_size _ _, junk_size _ _⟩
  | soc K =>
    refine ⟨rfl, junk_size _ _, ?_⟩
    dsimp only
    cases K.sparse with
    | none => trivial
    | some sp => exact ⟨junk_size _ _, junk_size _ _⟩

theorem junkLam_shapes (cs : List (ConeSt Int)) : ConesShape cs (cs.map junkLam) := by
  induction cs with
  | nil => exact .nil
  | cons c cs ih => exact .cons (junkLam_shape c) ih

/-- every solver object is `Stale`-related to its poisoned copy -/
theorem stale_poison (S : Solver Int) : Stale QW S.st (poison S).st :=
  { data := rfl
    variables := ⟨junk_size _ _, junk_size _ _, junk_size _ _⟩
    residuals := ⟨junk_size _ _, junk_size _ _, junk_size _ _, junk_size _ _,
      junk_size _ _⟩
    kktsystem := ⟨QW.set _ (junk_size _ _) (junk_size _ _) (junk_size _ _) (junk_size _ _),
      junk_size _ _, junk_size _ _, junk_size _ _, junk_size _ _,
      SameFrom.rfl' _ _, junk_size _ _, SameFrom.rfl' _ _⟩
    cones := junkLam_shapes _
    stepLhs := ⟨junk_size _ _, SameFrom.rfl' _ _, junk_size _ _⟩
    stepRhs := ⟨junk_size _ _, SameFrom.rfl' _ _, junk_size _ _⟩
    prevVars := ⟨junk_size _ _, junk_size _ _, junk_size _ _⟩ }

theorem solShape_poison (k : Option Nat) (S : Solver Int) : SolShape k S.solution (poison S).solution :=
  ⟨junk_size _ _, rfl, rfl, fun _ _ _ _ => rfl, fun _ _ _ _ => rfl⟩

/-- executable form of `InitPointOk` -/
def initOkB (S : SolverSt Int) (st : Settings Int) : Bool :=
  match S.kktsystem.update S.data (setIdentityScaling S.cones) st.lin with
  | .ok u =>
    match u.2.solveInitialPoint S.variables S.data st.lin with
    | .ok v => v.1
    | .error _ => true
  | .error _ => true

theorem initOk_of_B {S : SolverSt Int} {st : Settings Int} (h : initOkB S st = true) : InitPointOk S st := by
  intro u v hu hv
  unfold initOkB at h
  rw [hu] at h
  dsimp only at h
  rw [hv] at h
  exact h

/-- on the example problem `solve_initial_point` succeeds (kernel evaluation) -/
theorem example_initOk : (newSolver 3).toOption.map (fun S => initOkB (resetInfo S.st) (st 3)) = some true := by
  decide +kernel

theorem example_initPointOk {S : Solver Int} (h : newSolver 3 = .ok S) : InitPointOk (resetInfo S.st) (st 3) := by
  have := example_initOk
  rw [h] at this
  exact initOk_of_B (Option.some.inj this)

end Clarabel.Solver.Example
