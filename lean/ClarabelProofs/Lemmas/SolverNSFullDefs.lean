/-
  Composition on the whole-solver model WITH NONSYMMETRIC CONES (`ClarabelModel/SolverNS/*.lean`) —
  the INTERFACE between the pieces of the end-to-end theorems `C01.ns_full_*`, `C02.ns_full_*`,
  `C03.ns_full_*` (counterpart of `Lemmas/SolverFullDefs.lean` for the first model).

  * `ConeSt.typ`, `layoutN` : the cone layout of the solver object as a list of `ConeT` (kind,
                       dimension, and the static parameters — the exponent of a power cone, the exponents
                       and `dim2` of a generalised power cone); constant along `ConesShape`.
  * `SizedN S`       : the size part of the state invariant that the composition needs: the iterate
                       and the residual object have the problem's dimensions, the cone objects are
                       consistently sized and cover the `m` rows.
  * `StepHypN st G`  : `G` (a predicate on the iterate, indexed by the cone layout) is preserved by one
                       ACCEPTED step: the step length is what the model's own `getStepLength …
                       .combined` returned (`calc_step_length`, then — nonsymmetric cones under the
                       `Dual` strategy — `backtrack_step_to_barrier`), it passed
                       `strategy_checkpoint_small_step`, the new iterate is the model's own `addStep`.
  * `InitHypN st S G`: `default_start()` on `S` establishes `G`.
  * `ZeroSN l v`     : `s = 0` on the rows of the zero cones.
  * `SRecN d p`      : the pass record `p` was written by a pass on the data `d` from a SIZED state.
  * `PassCaseN`, `pass_invN` : the ten ways through one pass of the loop (seven of the first model and
                       the three `continue`s after a switch of the scaling strategy).
  * `Returned st S r p l` : what a `solve()` reports, relative to the LAST record `l` and the record `p`
                       of the iterate that is returned.

  All structural ([S]): every scalar type, `Float` included.
-/
import ClarabelProofs.Lemmas.SolverNSStaleFrame
import ClarabelProofs.Lemmas.SolverNSStaleCones
import ClarabelProofs.Lemmas.SolverNSIdemInfo
import ClarabelProofs.Lemmas.InfoFigures

namespace Clarabel.SolverNS
open Clarabel Info Residuals Clarabel.InfoReport
open Clarabel.Solver (bind_ok_inv status_bne VarsSized ResidSized varsCopyFrom addStep equilView presolveMap
  StepDirection)
open Clarabel.Loop (Scaling Checkpoint)

set_option linter.unusedSectionVars false
set_option linter.unusedVariables false

variable {α : Type}

/-! ### the cone layout -/

/-- the `SupportedConeT` a live cone object was built from -/
def ConeSt.typ : ConeSt α → ConeT α
  | .sym (.zero d) => .zero d
  | .sym (.nonneg K) => .nonneg K.w.size
  | .sym (.soc K) => .soc K.dim
  | .exp _ => .exp
  | .pow a _ => .pow a
  | .genpow al d2 _ _ => .genpow al d2

/-- the cone layout (kinds, dimensions, static parameters) of the solver state -/
def layoutN (S : SolverSt α) : List (ConeT α) := S.cones.map ConeSt.typ

theorem ConeShape.typ_eq {c c' : ConeSt α} (h : ConeShape c c') : c.typ = c'.typ := by
  cases c with
  | sym c =>
    cases c' with
    | sym c' =>
      cases c <;> cases c' <;> try exact (h : False).elim
      · exact congrArg ConeT.zero h
      · exact congrArg ConeT.nonneg (h : _ ∧ _).1
      · exact congrArg ConeT.soc (h : _ ∧ _).1
    | exp K => exact (h : False).elim
    | pow a K => exact (h : False).elim
    | genpow al d ψ K => exact (h : False).elim
  | exp K => cases c' <;> first | rfl | exact (h : False).elim
  | pow a K =>
    cases c' with
    | pow a' K' => exact congrArg ConeT.pow h
    | sym c' => exact (h : False).elim
    | exp K => exact (h : False).elim
    | genpow al d ψ K => exact (h : False).elim
  | genpow al d ψ K =>
    cases c' with
    | genpow al' d' ψ' K' =>
      obtain ⟨h1, h2, -⟩ := (h : _ ∧ _ ∧ _)
      subst h1 h2
      rfl
    | sym c' => exact (h : False).elim
    | exp K => exact (h : False).elim
    | pow a K => exact (h : False).elim

/-- [S] cone objects of the same shape have the same layout -/
theorem ConesShape.typ_eq {cs cs' : List (ConeSt α)} (h : ConesShape cs cs') :
    cs.map ConeSt.typ = cs'.map ConeSt.typ := by
  induction h with
  | nil => rfl
  | cons h _ ih => simp only [List.map_cons, ih, h.typ_eq]

section
variable [Add α] [Sub α] [Mul α] [Div α] [Neg α] [LT α] [LE α] [DecidableLT α] [DecidableLE α]
  [BEq α] [OfNat α 0] [OfNat α 1] [OfNat α 2] [OfNat α 3] [OfNat α 4] [OfNat α 100] [OfNat α 1000]
  [OfScientific α] [FloatLike α]

/-! ### sizes -/

/-- the size part of the state invariant of `solve()` that the composition needs -/
structure SizedN (S : SolverSt α) : Prop where
  vars : VarsSized S.data.n S.data.m S.variables
  resid : ResidSized S.data.n S.data.m S.residuals
  numel : numelAll S.cones = S.data.m
  full : ConesFull S.cones

/-! ### the hypotheses of the trajectory induction -/

/-- `G` is preserved by one accepted step of `solve()`.  `S` is the solver state after the top of the
pass and `scale_cones` (`S.cones` the freshly scaled cones, `S.variables` the current iterate), `sc` the
scaling strategy of the pass, `k` what the model's own KKT stage returned (`k.S.stepLhs` the combined
direction; `k.S.variables = S.variables`, `k.S.cones = S.cones` by `kktNumerics_frameN`). -/
def StepHypN (st : Settings α) (G : List (ConeT α) → Vars α → Prop) : Prop :=
  ∀ (S : SolverSt α) (mu : α) (iter : Nat) (sc : Scaling) (k : KktOut α) (a : α) (nbt : Nat) (v' : Vars α),
    SizedN S → G (layoutN S) S.variables →
    kktNumerics st S S.cones mu iter sc = .ok k → k.ok = true →
    getStepLength st k.S S.cones .combined sc = .ok (a, nbt) →
    ¬ a ≤ fmax 0 st.minTerminateStepLength →
    addStep S.variables k.S.stepLhs a = .ok v' →
    G (layoutN S) v'

/-- `default_start()` on the solver state `S` establishes `G` -/
def InitHypN (st : Settings α) (S : SolverSt α) (G : List (ConeT α) → Vars α → Prop) : Prop :=
  ∀ S0 : SolverSt α, S.defaultStart st = .ok S0 → G (layoutN S0) S0.variables

theorem StepHypN.and {st : Settings α} {G1 G2 : List (ConeT α) → Vars α → Prop}
    (h1 : StepHypN st G1) (h2 : StepHypN st G2) : StepHypN st (fun l v => G1 l v ∧ G2 l v) :=
  fun S mu iter sc k a nbt v' hS hG hk hok ha hs hv =>
    ⟨h1 S mu iter sc k a nbt v' hS hG.1 hk hok ha hs hv, h2 S mu iter sc k a nbt v' hS hG.2 hk hok ha hs hv⟩

theorem InitHypN.and {st : Settings α} {S : SolverSt α} {G1 G2 : List (ConeT α) → Vars α → Prop}
    (h1 : InitHypN st S G1) (h2 : InitHypN st S G2) : InitHypN st S (fun l v => G1 l v ∧ G2 l v) :=
  fun S0 h => ⟨h1 S0 h, h2 S0 h⟩

/-- the record `p` was written by a pass of a loop on the data `d`, from a sized state: `p.info` is
what `topNumerics` (`residuals.update`, `info.update`) assigned for the iterate `p.vars` -/
def SRecN (d : ProblemData α) (p : PassRec α) : Prop :=
  ∃ (S0 : SolverSt α) (iter : Nat) (res : Resid α) (mu : α),
    S0.data = d ∧ S0.variables = p.vars ∧ SizedN S0 ∧ topNumerics S0 iter = .ok (res, mu, p.info)
      ∧ p.dotBz = res.dot_bz ∧ p.dotQx = res.dot_qx

/-- `s = 0` on the rows of every zero cone (`s ∈ K` for `K = {0}`), on the flat vector cut along
the cone layout -/
def ZeroRowsN : List (ConeT α) → List α → Prop
  | [], _ => True
  | .zero n :: cs, s => (∀ x ∈ s.take n, x = 0) ∧ ZeroRowsN cs (s.drop n)
  | c :: cs, s => ZeroRowsN cs (s.drop c.nvars)

/-- the iterate has `s = 0` on the zero-cone rows -/
def ZeroSN (l : List (ConeT α)) (v : Vars α) : Prop := ZeroRowsN l v.s.toList

/-! ### the ways through one pass -/

/-- `check_termination` of a pass (no time limit) -/
abbrev ctOf (st : Settings α) (L : LoopSt α) (residuals : Resid α) (info1 : InfoS α) : InfoS α × Bool :=
  Info.checkTermination info1 residuals.dot_bz residuals.dot_qx st.info L.iter false

/-- the record a pass appends before the strategy checkpoints fill in their fields -/
def rec0Of (L : LoopSt α) (residuals : Resid α) (mu : α) (info1 : InfoS α) (ct : InfoS α × Bool) :
    PassRec α :=
  { vars := L.S.variables, mu, sigma := L.sigma, stepLength := L.alpha, info := info1,
    dotBz := residuals.dot_bz, dotQx := residuals.dot_qx, isdone := ct.2, status := ct.1.status,
    dual := isDual L.scaling }

/-- the solver object after the top of a pass -/
def topS (L : LoopSt α) (residuals : Resid α) (mu : α) (ct : InfoS α × Bool) : SolverSt α :=
  { L.S with residuals, info := ct.1, infoMu := mu, infoSigma := L.sigma, infoStepLength := L.alpha }

/-- the record after the KKT stage -/
def rec3Of (r : PassRec α) (k : KktOut α) : PassRec α :=
  { r with scalingSuccess := some true, kktSuccess := some k.ok, alphaAff := k.aff.map (·.1),
           sigmaNew := k.aff.map (·.2) }

/-- the record after `get_step_length` -/
def rec4Of (r : PassRec α) (k : KktOut α) (a : α) (nbt : Nat) : PassRec α :=
  { rec3Of r k with neCp := some .NoUpdate, alpha := some a, backtracks := some nbt }

/-- `σ` after the KKT stage -/
def sigmaOf (k : KktOut α) (L : LoopSt α) : α :=
  match k.aff with
  | some p => p.2
  | none => L.sigma

/-- the ten ways through one pass of the loop -/
inductive PassCaseN (st : Settings α) (L : LoopSt α) : Bool → LoopSt α → Prop
  /-- `check_termination` is done with a status other than `InsufficientProgress`: `break` -/
  | done (residuals mu info1)
      (htop : topNumerics L.S L.iter = .ok (residuals, mu, info1))
      (hdone : (ctOf st L residuals info1).2 = true)
      (hip : (ctOf st L residuals info1).1.status ≠ .insufficientProgress) :
      PassCaseN st L false
        { L with S := topS L residuals mu (ctOf st L residuals info1), mu,
                 traj := L.traj ++ [{ rec0Of L residuals mu info1 (ctOf st L residuals info1) with
                                        ipCp := some .NoUpdate }] }
  /-- `InsufficientProgress`: `reset_to_prev_iterate`, then `Update(Dual)` and `continue` -/
  | ipSwitch (residuals mu info1 vrs)
      (htop : topNumerics L.S L.iter = .ok (residuals, mu, info1))
      (hdone : (ctOf st L residuals info1).2 = true)
      (hip : (ctOf st L residuals info1).1.status = .insufficientProgress)
      (hcopy : varsCopyFrom L.S.variables L.S.prevVars = .ok vrs)
      (hsw : canSwitch L.S.cones L.scaling = true) :
      PassCaseN st L true
        { L with S := { (topS L residuals mu (ctOf st L residuals info1)) with
                          info := { Info.resetToPrev (ctOf st L residuals info1).1 with status := .unsolved },
                          «variables» := vrs },
                 mu, scaling := .Dual,
                 traj := L.traj ++ [{ rec0Of L residuals mu info1 (ctOf st L residuals info1) with
                                        ipCp := some (.Update .Dual) }] }
  /-- `InsufficientProgress`: `reset_to_prev_iterate`, then `Fail`: `break` -/
  | rollback (residuals mu info1 vrs)
      (htop : topNumerics L.S L.iter = .ok (residuals, mu, info1))
      (hdone : (ctOf st L residuals info1).2 = true)
      (hip : (ctOf st L residuals info1).1.status = .insufficientProgress)
      (hcopy : varsCopyFrom L.S.variables L.S.prevVars = .ok vrs)
      (hsw : canSwitch L.S.cones L.scaling = false) :
      PassCaseN st L false
        { L with S := { (topS L residuals mu (ctOf st L residuals info1)) with
                          info := Info.resetToPrev (ctOf st L residuals info1).1, «variables» := vrs },
                 mu,
                 traj := L.traj ++ [{ rec0Of L residuals mu info1 (ctOf st L residuals info1) with
                                        ipCp := some .Fail }] }
  /-- `scale_cones` failed: `NumericalError`, `break` -/
  | scaleFail (residuals mu info1 sc)
      (htop : topNumerics L.S L.iter = .ok (residuals, mu, info1))
      (hdone : (ctOf st L residuals info1).2 = false)
      (hsc : scaleCones L.S.variables L.S.cones mu (isDual L.scaling) = .ok sc) (hok : sc.1 = false) :
      PassCaseN st L false
        { L with S := { (topS L residuals mu (ctOf st L residuals info1)) with
                          cones := sc.2,
                          info := { (ctOf st L residuals info1).1 with status := .numericalError } },
                 mu,
                 traj := L.traj ++ [{ rec0Of L residuals mu info1 (ctOf st L residuals info1) with
                                        scalingSuccess := some false }] }
  /-- the KKT stage failed under `PrimalDual` with a nonsymmetric cone: `Update(Dual)`, `continue` -/
  | kktSwitch (residuals mu info1 sc k)
      (htop : topNumerics L.S L.iter = .ok (residuals, mu, info1))
      (hdone : (ctOf st L residuals info1).2 = false)
      (hsc : scaleCones L.S.variables L.S.cones mu (isDual L.scaling) = .ok sc) (hok : sc.1 = true)
      (hk : kktNumerics st { (topS L residuals mu (ctOf st L residuals info1)) with cones := sc.2 }
          sc.2 mu (L.iter + 1) L.scaling = .ok k)
      (hkok : k.ok = false) (hsw : canSwitch sc.2 L.scaling = true) :
      PassCaseN st L true
        { S := k.S, iter := L.iter + 1, sigma := sigmaOf k L, alpha := 0, mu, scaling := .Dual,
          traj := L.traj ++ [{ rec3Of (rec0Of L residuals mu info1 (ctOf st L residuals info1)) k with
                                 neCp := some (.Update .Dual) }] }
  /-- the KKT stage failed: `NumericalError`, `break` -/
  | kktFail (residuals mu info1 sc k)
      (htop : topNumerics L.S L.iter = .ok (residuals, mu, info1))
      (hdone : (ctOf st L residuals info1).2 = false)
      (hsc : scaleCones L.S.variables L.S.cones mu (isDual L.scaling) = .ok sc) (hok : sc.1 = true)
      (hk : kktNumerics st { (topS L residuals mu (ctOf st L residuals info1)) with cones := sc.2 }
          sc.2 mu (L.iter + 1) L.scaling = .ok k)
      (hkok : k.ok = false) (hsw : canSwitch sc.2 L.scaling = false) :
      PassCaseN st L false
        { S := { k.S with info := { k.S.info with status := .numericalError } }, iter := L.iter + 1,
          sigma := sigmaOf k L, alpha := 0, mu, scaling := L.scaling,
          traj := L.traj ++ [{ rec3Of (rec0Of L residuals mu info1 (ctOf st L residuals info1)) k with
                                 neCp := some .Fail }] }
  /-- `α < min_switch_step_length` under `PrimalDual` with a nonsymmetric cone: `Update(Dual)`,
  `continue` -/
  | stepSwitch (residuals mu info1 sc k a nbt)
      (htop : topNumerics L.S L.iter = .ok (residuals, mu, info1))
      (hdone : (ctOf st L residuals info1).2 = false)
      (hsc : scaleCones L.S.variables L.S.cones mu (isDual L.scaling) = .ok sc) (hok : sc.1 = true)
      (hk : kktNumerics st { (topS L residuals mu (ctOf st L residuals info1)) with cones := sc.2 }
          sc.2 mu (L.iter + 1) L.scaling = .ok k)
      (hkok : k.ok = true)
      (ha : getStepLength st k.S sc.2 .combined L.scaling = .ok (a, nbt))
      (hsw : canSwitch sc.2 L.scaling = true) :
      PassCaseN st L true
        { S := k.S, iter := L.iter + 1, sigma := sigmaOf k L, alpha := 0, mu, scaling := .Dual,
          traj := L.traj ++ [{ rec4Of (rec0Of L residuals mu info1 (ctOf st L residuals info1)) k a nbt with
                                 smCp := some (.Update .Dual) }] }
  /-- `α ≤ max(0, min_terminate_step_length)`: `InsufficientProgress`, `break` -/
  | smallStep (residuals mu info1 sc k a nbt)
      (htop : topNumerics L.S L.iter = .ok (residuals, mu, info1))
      (hdone : (ctOf st L residuals info1).2 = false)
      (hsc : scaleCones L.S.variables L.S.cones mu (isDual L.scaling) = .ok sc) (hok : sc.1 = true)
      (hk : kktNumerics st { (topS L residuals mu (ctOf st L residuals info1)) with cones := sc.2 }
          sc.2 mu (L.iter + 1) L.scaling = .ok k)
      (hkok : k.ok = true)
      (ha : getStepLength st k.S sc.2 .combined L.scaling = .ok (a, nbt))
      (hsmall : a ≤ fmax 0 st.minTerminateStepLength) :
      PassCaseN st L false
        { S := { k.S with info := { k.S.info with status := .insufficientProgress } }, iter := L.iter + 1,
          sigma := sigmaOf k L, alpha := 0, mu, scaling := L.scaling,
          traj := L.traj ++ [{ rec4Of (rec0Of L residuals mu info1 (ctOf st L residuals info1)) k a nbt with
                                 smCp := some .Fail }] }
  /-- the accepted step: `save_prev_iterate`, `add_step`, next pass -/
  | step (residuals mu info1 sc k a nbt pv)
      (htop : topNumerics L.S L.iter = .ok (residuals, mu, info1))
      (hdone : (ctOf st L residuals info1).2 = false)
      (hsc : scaleCones L.S.variables L.S.cones mu (isDual L.scaling) = .ok sc) (hok : sc.1 = true)
      (hk : kktNumerics st { (topS L residuals mu (ctOf st L residuals info1)) with cones := sc.2 }
          sc.2 mu (L.iter + 1) L.scaling = .ok k)
      (hkok : k.ok = true)
      (ha : getStepLength st k.S sc.2 .combined L.scaling = .ok (a, nbt))
      (hsmall : ¬ a ≤ fmax 0 st.minTerminateStepLength)
      (hpv : stepVars k.S a = .ok pv) :
      PassCaseN st L true
        { S := { k.S with info := Info.savePrev k.S.info, prevVars := pv.1, «variables» := pv.2 },
          iter := L.iter + 1, sigma := sigmaOf k L, alpha := a, mu, scaling := L.scaling,
          traj := L.traj ++ [{ rec4Of (rec0Of L residuals mu info1 (ctOf st L residuals info1)) k a nbt with
                                 smCp := some .NoUpdate }] }

/-- [S] every successful pass is one of the ten cases -/
theorem pass_invN {st : Settings α} {L L' : LoopSt α} {c : Bool} (hp : pass st L = .ok (c, L')) :
    PassCaseN st L c L' := by
  unfold pass at hp
  obtain ⟨⟨residuals, mu, info1⟩, htop, hp⟩ := bind_ok_inv hp
  try dsimp only at hp
  split at hp
  · rename_i hdone
    split at hp
    · rename_i hip
      cases hp
      exact .done residuals mu info1 htop hdone ((status_bne _ _).mp hip)
    · rename_i hip
      have hip' : (ctOf st L residuals info1).1.status = .insufficientProgress :=
        Decidable.byContradiction fun h => hip ((status_bne _ _).mpr h)
      obtain ⟨vrs, hcopy, hp⟩ := bind_ok_inv hp
      try dsimp only at hp
      split at hp
      · rename_i hsw
        cases hp
        exact .ipSwitch residuals mu info1 vrs htop hdone hip' hcopy hsw
      · rename_i hsw
        cases hp
        exact .rollback residuals mu info1 vrs htop hdone hip' hcopy (by simpa using hsw)
  · rename_i hdone
    have hdone' : (ctOf st L residuals info1).2 = false := by simpa using hdone
    obtain ⟨sc, hsc, hp⟩ := bind_ok_inv hp
    try dsimp only at hp
    split at hp
    · rename_i hok
      cases hp
      exact .scaleFail residuals mu info1 sc htop hdone' hsc (by simpa using hok)
    · rename_i hok
      have hok' : sc.1 = true := by simpa using hok
      obtain ⟨k, hk, hp⟩ := bind_ok_inv hp
      try dsimp only at hp
      split at hp
      · rename_i hkok
        have hkok' : k.ok = false := by simpa using hkok
        split at hp
        · rename_i hsw
          cases hp
          exact .kktSwitch residuals mu info1 sc k htop hdone' hsc hok' hk hkok' hsw
        · rename_i hsw
          cases hp
          exact .kktFail residuals mu info1 sc k htop hdone' hsc hok' hk hkok' (by simpa using hsw)
      · rename_i hkok
        have hkok' : k.ok = true := by simpa using hkok
        obtain ⟨⟨a, nbt⟩, ha, hp⟩ := bind_ok_inv hp
        try dsimp only at hp
        split at hp
        · rename_i hsw
          cases hp
          exact .stepSwitch residuals mu info1 sc k a nbt htop hdone' hsc hok' hk hkok' ha
            (by simp only [Bool.and_eq_true] at hsw; exact hsw.1)
        · split at hp
          · rename_i hsmall
            cases hp
            exact .smallStep residuals mu info1 sc k a nbt htop hdone' hsc hok' hk hkok' ha hsmall
          · rename_i hsmall
            obtain ⟨pv, hpv, hp⟩ := bind_ok_inv hp
            cases hp
            exact .step residuals mu info1 sc k a nbt pv htop hdone' hsc hok' hk hkok' ha hsmall hpv

/-! ### frames of the stages of a pass -/

/-- the top of a pass leaves `prev_*`, `status` alone and sets `iterations := iter` -/
theorem topNumerics_frameN {S : SolverSt α} {iter : Nat} {r : Resid α} {mu : α} {i' : InfoS α}
    (h : topNumerics S iter = .ok (r, mu, i')) :
    i'.prev_cost_primal = S.info.prev_cost_primal ∧ i'.prev_cost_dual = S.info.prev_cost_dual
      ∧ i'.prev_res_primal = S.info.prev_res_primal ∧ i'.prev_res_dual = S.info.prev_res_dual
      ∧ i'.prev_gap_abs = S.info.prev_gap_abs ∧ i'.prev_gap_rel = S.info.prev_gap_rel
      ∧ i'.iterations = iter ∧ i'.status = S.info.status := by
  unfold topNumerics at h
  dsimp only at h
  obtain ⟨_, _, h⟩ := bind_ok_inv h
  obtain ⟨_, _, h⟩ := bind_ok_inv h
  obtain ⟨_, _, h⟩ := bind_ok_inv h
  obtain ⟨_, hu, h⟩ := bind_ok_inv h
  cases h
  exact Solver.update_frame hu

/-- the KKT stage only writes the KKT system and the two step vectors -/
theorem kktNumerics_frameN {st : Settings α} {S : SolverSt α} {cones : List (ConeSt α)} {mu : α}
    {iter : Nat} {sc : Scaling} {k : KktOut α} (h : kktNumerics st S cones mu iter sc = .ok k) :
    k.S = { S with kktsystem := k.S.kktsystem, stepRhs := k.S.stepRhs, stepLhs := k.S.stepLhs } := by
  unfold kktNumerics at h
  dsimp only at h
  repeat (first | (obtain ⟨_, _, h⟩ := bind_ok_inv h) | (split at h) | (dsimp only at h))
  all_goals (cases h; rfl)

/-! ### what a `solve()` reports -/

/-- **What a `solve()` of the model with nonsymmetric cones reports**, relative to the LAST pass
record `l` and the record `p` of the iterate that is returned.

* `p = l` unless the loop was left through the insufficient-progress rollback; then `p` is the record
  of the LAST PASS THAT REACHED `add_step` (`p.smCp = some .NoUpdate`) — the iterate `save_prev_iterate`
  stored is `p.vars` —, followed in the trajectory by at most one pass that `continue`d after a switch
  of the scaling strategy (without `save_prev_iterate`) and by the discarded last pass `l`;
* the six figures of the final `info` and the reported scalars are the ones `Info.update` assigned to
  `p.vars`; the returned variables are `unscale p.vars`;
* the final `info` is `Info::post_process` of an info `j` that is `l.info` up to its status — the status
  `check_termination` gave, or `NumericalError` / `InsufficientProgress` of a strategy checkpoint — or,
  after the rollback, `reset_to_prev` of it. -/
structure Returned (st : Settings α) (S : Solver α) (r : SolveResult α) (p l : PassRec α) : Prop where
  last : r.traj.getLast? = some l
  mem : p ∈ r.traj
  lun : l.info.status = .unsolved
  /-- the data is untouched except for the two norm caches, which `solve()` fills -/
  data : Clarabel.Solver.fillNorms S.st.data = .ok r.S.st.data
  vars : r.S.st.variables
    = Unscale.unscale p.vars (equilView S.st.data.equilibration) r.S.st.info.status.isInfeasible
  figs : SameFigures r.S.st.info p.info
  objv : r.S.solution.obj_val = (if r.S.st.info.status.isInfeasible then none else some p.info.cost_primal)
  objd : r.S.solution.obj_val_dual = (if r.S.st.info.status.isInfeasible then none else some p.info.cost_dual)
  rprim : r.S.solution.r_prim = some p.info.res_primal
  rdual : r.S.solution.r_dual = some p.info.res_dual
  status : r.S.solution.status = r.S.st.info.status
  iterations : r.S.solution.iterations = r.S.st.info.iterations
  /-- without a presolver row map the solution vectors are the returned variables -/
  sol : presolveMap S.st.data = none →
    r.S.solution.x = r.S.st.variables.x ∧ r.S.solution.s = r.S.st.variables.s
      ∧ r.S.solution.z = r.S.st.variables.z
  final : ∃ (j : InfoS α) (it k : Nat),
    r.S.st.info = Info.postProcess { j with iterations := it } l.dotBz l.dotQx st.info
    ∧ ((p = l ∧ ∃ s', j = { l.info with status := s' }
          ∧ (s' = (Info.checkTermination l.info l.dotBz l.dotQx st.info k false).1.status
              ∨ s' = .numericalError ∨ s' = .insufficientProgress))
      ∨ ((Info.checkTermination l.info l.dotBz l.dotQx st.info k false).1.status = .insufficientProgress
          ∧ j = Info.resetToPrev (Info.checkTermination l.info l.dotBz l.dotQx st.info k false).1
          ∧ p.smCp = some .NoUpdate
          ∧ ∃ pre post, r.traj = pre ++ p :: post ++ [l] ∧ post.length ≤ 1
              ∧ ∀ q ∈ post, q.smCp ≠ some .NoUpdate))

end

end Clarabel.SolverNS
