/-
  Budget independence of the whole-solver model (C07): `max_iter` enters a pass through
  `check_termination` only, so the run with budget `k` is a prefix of the run with budget
  `k' ≥ k` — same loop states, bit for bit — and returns the `k`-th iterate.  All structural ([S]).
-/
import ClarabelProofs.Lemmas.SolverModelRun
namespace Clarabel.Solver
open Clarabel Info
set_option linter.unusedSectionVars false
set_option linter.unusedVariables false
variable {α : Type}
section
variable [Add α] [Sub α] [Mul α] [Div α] [Neg α] [OfNat α 0] [OfNat α 1] [OfNat α 2]
  [OfNat α 100] [OfNat α 1000] [LT α] [DecidableLT α] [LE α] [DecidableLE α] [BEq α] [FloatLike α]

/-- the same settings with another iteration budget -/
def withMaxIter (st : Settings α) (k : Nat) : Settings α :=
  { st with info := { st.info with max_iter := k } }

/-- everything of one pass after the top numerics, with the outcome `ct` of
`check_termination` as a parameter (a copy of the body of `pass`) -/
def passRest (st : Settings α) (L : LoopSt α) (residuals : Residuals.Resid α) (mu : α) (info1 : InfoS α)
    (ct : InfoS α × Bool) : MErr (Bool × LoopSt α) := do
  let rec0 : PassRec α :=
    { vars := L.S.variables, mu, sigma := L.sigma, stepLength := L.alpha, info := info1,
      dotBz := residuals.dot_bz, dotQx := residuals.dot_qx, isdone := ct.2, status := ct.1.status }
  let S : SolverSt α := { L.S with residuals, info := ct.1, infoMu := mu, infoSigma := L.sigma,
                                   infoStepLength := L.alpha }
  if ct.2 then
    if ct.1.status != .insufficientProgress then
      pure (false, { L with S, mu, traj := L.traj ++ [rec0] })
    else
      let variables ← varsCopyFrom S.variables S.prevVars
      pure (false, { L with S := { S with info := Info.resetToPrev ct.1, variables }, mu,
                            traj := L.traj ++ [rec0] })
  else
  let sc ← scaleCones S.variables S.cones
  let S := { S with cones := sc.2 }
  if !sc.1 then
    pure (false, { L with S := { S with info := { S.info with status := .numericalError } }, mu,
                          traj := L.traj ++ [{ rec0 with scalingSuccess := some false }] })
  else
  let k ← kktNumerics st S sc.2 mu (L.iter + 1)
  let sigma := match k.aff with
    | some p => p.2
    | none => L.sigma
  let rec3 : PassRec α :=
    { rec0 with scalingSuccess := some true, kktSuccess := some k.ok,
                alphaAff := k.aff.map (·.1), sigmaNew := k.aff.map (·.2) }
  if !k.ok then
    pure (false, { S := { k.S with info := { k.S.info with status := .numericalError } },
                   iter := L.iter + 1, sigma, alpha := 0, mu, traj := L.traj ++ [rec3] })
  else
  let a ← calcStepLength k.S.variables k.S.stepLhs sc.2 st.maxValue st.maxStepFraction .combined
  let rec4 := { rec3 with alpha := some a }
  if a ≤ fmax 0 st.minTerminateStepLength then
    pure (false, { S := { k.S with info := { k.S.info with status := .insufficientProgress } },
                   iter := L.iter + 1, sigma, alpha := 0, mu, traj := L.traj ++ [rec4] })
  else
  let pv ← stepVars k.S a
  pure (true, { S := { k.S with info := Info.savePrev k.S.info, prevVars := pv.1, variables := pv.2 },
                iter := L.iter + 1, sigma, alpha := a, mu, traj := L.traj ++ [rec4] })

/-- `pass` = top numerics, `check_termination`, the rest -/
theorem pass_eq (st : Settings α) (L : LoopSt α) :
    pass st L = topNumerics L.S L.iter >>= fun t =>
      passRest st L t.1 t.2.1 t.2.2
        (Info.checkTermination t.2.2 t.1.dot_bz t.1.dot_qx st.info L.iter false) := by
  unfold pass
  cases topNumerics L.S L.iter with
  | error e => rfl
  | ok t =>
    obtain ⟨r, mu, i1⟩ := t
    rfl

/-- the iteration budget enters a pass through `check_termination` only -/
theorem passRest_withMaxIter (st : Settings α) (k : Nat) (L : LoopSt α) (r : Residuals.Resid α) (mu : α)
    (i1 : InfoS α) (ct : InfoS α × Bool) :
    passRest (withMaxIter st k) L r mu i1 ct = passRest st L r mu i1 ct := rfl


/-- the verdict `check_termination` reaches from the numbers alone (no limits) -/
def verdictOf (i : InfoS α) (dbz dqx : α) (s : Info.Settings α) (iter : Nat) : SolverStatus :=
  (Info.checkTermination i dbz dqx { s with max_iter := i.iterations + 1 } iter false).1.status

theorem cti_mx (s1 : SolverStatus) (g r p1 p23 mx : Bool) :
    cti s1 g r p1 p23 mx false =
      if cti s1 g r p1 p23 false false = .unsolved then (if mx then .maxIterations else .unsolved)
      else cti s1 g r p1 p23 false false := by
  cases s1 <;> cases g <;> cases r <;> cases p1 <;> cases p23 <;> cases mx <;> rfl

/-- `max_iter` matters to `check_termination` only through the test `max_iter == iterations`,
and only when the numbers give no verdict -/
theorem checkTermination_status_budget (i : InfoS α) (dbz dqx : α) (s : Info.Settings α) (iter k : Nat) :
    (Info.checkTermination i dbz dqx { s with max_iter := k } iter false).1.status =
      if verdictOf i dbz dqx s iter = .unsolved then
        (if k = i.iterations then .maxIterations else .unsolved)
      else verdictOf i dbz dqx s iter := by
  unfold verdictOf
  rw [info_checkTermination_table, info_checkTermination_table]
  have h1 : ((i.iterations + 1 == i.iterations) = false) := by simp
  show cti _ _ _ _ _ (k == i.iterations) false =
    if cti _ _ _ _ _ (i.iterations + 1 == i.iterations) false = .unsolved then _
    else cti _ _ _ _ _ (i.iterations + 1 == i.iterations) false
  rw [cti_mx _ _ _ _ _ (k == i.iterations), cti_mx _ _ _ _ _ (i.iterations + 1 == i.iterations), h1]
  generalize cti _ _ _ _ _ false false = v
  by_cases hk : k = i.iterations
  · have : (k == i.iterations) = true := by simpa using hk
    rw [this]
    cases v <;> simp [hk]
  · have : (k == i.iterations) = false := by simpa using hk
    rw [this]
    cases v <;> simp [hk]

theorem checkTermination_budget_eq (i : InfoS α) (dbz dqx : α) (s : Info.Settings α) (iter k k' : Nat)
    (h : verdictOf i dbz dqx s iter ≠ .unsolved ∨ (k ≠ i.iterations ∧ k' ≠ i.iterations)) :
    Info.checkTermination i dbz dqx { s with max_iter := k } iter false =
      Info.checkTermination i dbz dqx { s with max_iter := k' } iter false := by
  have hs : (Info.checkTermination i dbz dqx { s with max_iter := k } iter false).1.status =
      (Info.checkTermination i dbz dqx { s with max_iter := k' } iter false).1.status := by
    rw [checkTermination_status_budget, checkTermination_status_budget]
    rcases h with h | ⟨h1, h2⟩
    · rw [if_neg h, if_neg h]
    · rw [if_neg h1, if_neg h2]
  have f1 := checkTermination_frame i dbz dqx { s with max_iter := k } iter false
  have f2 := checkTermination_frame i dbz dqx { s with max_iter := k' } iter false
  apply Prod.ext
  · rw [f1.1, f2.1, hs]
  · rw [f1.2, f2.2, hs]

/-- a pass does not depend on the budget unless its check sits exactly at one of the two
budgets with no other verdict -/
theorem pass_budget_indep (st : Settings α) (k k' : Nat) (L : LoopSt α)
    (h : ∀ r mu i1, topNumerics L.S L.iter = .ok (r, mu, i1) →
      verdictOf i1 r.dot_bz r.dot_qx st.info L.iter ≠ .unsolved ∨ (k ≠ L.iter ∧ k' ≠ L.iter)) :
    pass (withMaxIter st k) L = pass (withMaxIter st k') L := by
  rw [pass_eq, pass_eq]
  cases htn : topNumerics L.S L.iter with
  | error e => rfl
  | ok t =>
    obtain ⟨r, mu, i1⟩ := t
    have hit := (topNumerics_frame htn).2.2.2.2.2.2.1
    have h' : verdictOf i1 r.dot_bz r.dot_qx st.info L.iter ≠ .unsolved
        ∨ (k ≠ i1.iterations ∧ k' ≠ i1.iterations) := by rw [hit]; exact h r mu i1 htn
    show passRest (withMaxIter st k) L r mu i1 (Info.checkTermination i1 r.dot_bz r.dot_qx
        { st.info with max_iter := k } L.iter false) =
      passRest (withMaxIter st k') L r mu i1 (Info.checkTermination i1 r.dot_bz r.dot_qx
        { st.info with max_iter := k' } L.iter false)
    rw [checkTermination_budget_eq i1 r.dot_bz r.dot_qx st.info L.iter k k' h',
      passRest_withMaxIter, passRest_withMaxIter]

/-- at its budget, with no other verdict, the short run stops with `MaxIterations` and hands
the current iterate to post-processing -/
theorem pass_at_budget (st : Settings α) (k : Nat) (L : LoopSt α) (hk : k = L.iter)
    {r : Residuals.Resid α} {mu : α} {i1 : InfoS α} (htn : topNumerics L.S L.iter = .ok (r, mu, i1))
    (hv : verdictOf i1 r.dot_bz r.dot_qx st.info L.iter = .unsolved) :
    ∃ Lf, pass (withMaxIter st k) L = .ok (false, Lf) ∧ Lf.S.info.status = .maxIterations
      ∧ Lf.S.variables = L.S.variables ∧ Lf.iter = L.iter ∧ Lf.alpha = L.alpha
      ∧ ∃ rec, Lf.traj = L.traj ++ [rec] ∧ rec.vars = L.S.variables := by
  have hit := (topNumerics_frame htn).2.2.2.2.2.2.1
  have hs := checkTermination_status_budget i1 r.dot_bz r.dot_qx st.info L.iter k
  rw [if_pos hv, if_pos (by rw [hit]; exact hk)] at hs
  have f := checkTermination_frame i1 r.dot_bz r.dot_qx { st.info with max_iter := k } L.iter false
  rw [pass_eq, htn]
  show ∃ Lf, passRest (withMaxIter st k) L r mu i1 (Info.checkTermination i1 r.dot_bz r.dot_qx
        { st.info with max_iter := k } L.iter false) = .ok (false, Lf) ∧ _
  unfold passRest
  have h2 : (Info.checkTermination i1 r.dot_bz r.dot_qx { st.info with max_iter := k } L.iter false).2 = true := by
    rw [f.2, hs]; rfl
  have h3 : ((Info.checkTermination i1 r.dot_bz r.dot_qx { st.info with max_iter := k } L.iter false).1.status
      != .insufficientProgress) = true := by rw [hs]; rfl
  dsimp only
  rw [if_pos h2, if_pos h3]
  exact ⟨_, rfl, hs, rfl, rfl, rfl, _, rfl, rfl⟩

/-- how the run with budget `k` relates to the run with budget `k' ≥ k` from the same loop
state: `Lf` is the loop state the short run leaves its loop with -/
inductive FullPrefix (st : Settings α) (k k' : Nat) (L0 Lf : LoopSt α) : Prop
  /-- the longer-budget run goes through the same passes and ends in the same state -/
  | same (Lm : LoopSt α) (hshort : Reach (withMaxIter st k) L0 Lm) (hlong : Reach (withMaxIter st k') L0 Lm)
      (hs : pass (withMaxIter st k) Lm = .ok (false, Lf))
      (hl : pass (withMaxIter st k') Lm = .ok (false, Lf))
  /-- the short run stops on its budget at a top-of-pass state `Lm` which the long run reaches
  too, through identical passes (same iterates, bit for bit), and returns the iterate of `Lm`:
  the `k`-th iterate of the longer run -/
  | budget (Lm : LoopSt α) (hshort : Reach (withMaxIter st k) L0 Lm) (hlong : Reach (withMaxIter st k') L0 Lm)
      (hs : pass (withMaxIter st k) Lm = .ok (false, Lf))
      (hiter : Lm.iter = k) (hstatus : Lf.S.info.status = .maxIterations)
      (hvars : Lf.S.variables = Lm.S.variables) (hiter' : Lf.iter = k)
      (htraj : ∃ rec, Lf.traj = Lm.traj ++ [rec] ∧ rec.vars = Lm.S.variables)

theorem pass_cont_iter {st : Settings α} {L L' : LoopSt α} (hp : pass st L = .ok (true, L')) :
    L'.iter = L.iter + 1 := by
  cases pass_inv hp with
  | step => rfl

theorem reach_prefix (st : Settings α) (k k' : Nat) (hk : k ≤ k') {L0 Lm : LoopSt α}
    (hI : LInv (withMaxIter st k) L0) (h : Reach (withMaxIter st k) L0 Lm) :
    Reach (withMaxIter st k') L0 Lm := by
  induction h with
  | refl => exact .refl _
  | @step L L' L'' hp _ ih =>
    have hI' := pass_cont_inv hI hp
    have hit := pass_cont_iter hp
    have hle : L'.iter ≤ k := hI'.iter_le
    have heq : pass (withMaxIter st k) L = pass (withMaxIter st k') L :=
      pass_budget_indep st k k' L (fun _ _ _ _ => Or.inr ⟨by omega, by omega⟩)
    exact .step (heq ▸ hp) (ih hI')

/-- `C07.full_prefix`, loop level -/
theorem loop_prefix (st : Settings α) (k k' : Nat) (hk : k ≤ k') {L0 Lm Lf : LoopSt α}
    (hI : LInv (withMaxIter st k) L0) (h : Reach (withMaxIter st k) L0 Lm)
    (hp : pass (withMaxIter st k) Lm = .ok (false, Lf)) : FullPrefix st k k' L0 Lf := by
  have hlong := reach_prefix st k k' hk hI h
  have hIm := h.inv hI
  have hle : Lm.iter ≤ k := hIm.iter_le
  by_cases hlt : Lm.iter < k
  · have heq : pass (withMaxIter st k) Lm = pass (withMaxIter st k') Lm :=
      pass_budget_indep st k k' Lm (fun _ _ _ _ => Or.inr ⟨by omega, by omega⟩)
    exact .same Lm h hlong hp (heq ▸ hp)
  · have hkm : k = Lm.iter := by omega
    cases htn : topNumerics Lm.S Lm.iter with
    | error e =>
      rw [pass_eq, htn] at hp
      cases hp
    | ok t =>
      obtain ⟨r, mu, i1⟩ := t
      by_cases hv : verdictOf i1 r.dot_bz r.dot_qx st.info Lm.iter = .unsolved
      · obtain ⟨Lf', h1, h2, h3, h4, _, h6⟩ := pass_at_budget st k Lm hkm htn hv
        rw [h1] at hp
        cases hp
        exact .budget Lm h hlong h1 hkm.symm h2 h3 (h4.trans hkm.symm) h6
      · have heq : pass (withMaxIter st k) Lm = pass (withMaxIter st k') Lm :=
          pass_budget_indep st k k' Lm (fun r' mu' i1' htn' => by
            rw [htn] at htn'
            cases htn'
            exact Or.inl hv)
        exact .same Lm h hlong hp (heq ▸ hp)

/-- a run that reaches `Lm` and leaves the loop there is what `runLoopO` computes, whatever the
(sufficient) fuel -/
theorem runLoopO_of_reach {st : Settings α} {L Lm Lf : LoopSt α} (h : Reach st L Lm) (hI : LInv st L)
    (hp : pass st Lm = .ok (false, Lf)) : ∀ fuel, st.info.max_iter - L.iter < fuel →
    runLoopO st fuel L = .ok (some Lf) := by
  induction h with
  | refl L =>
    intro fuel hf
    cases fuel with
    | zero => omega
    | succ f =>
      unfold runLoopO
      rw [hp]; rfl
  | @step L L' L'' hp' _ ih =>
    intro fuel hf
    have hI' := pass_cont_inv hI hp'
    have hit := pass_cont_iter hp'
    have hle := hI'.iter_le
    cases fuel with
    | zero => omega
    | succ f =>
      unfold runLoopO
      rw [hp']
      exact ih hI' hp f (by omega)

theorem defaultStart_withMaxIter (S : SolverSt α) (st : Settings α) (k : Nat) :
    S.defaultStart (withMaxIter st k) = S.defaultStart st := rfl

/-- `C07.full_prefix` on `SolverSt.runSolve`: for `k ≤ k'` the run with `max_iter = k` starts
from the same point as the run with `max_iter = k'` (the start does not depend on the budget),
and its loop is related to the longer run's loop by `FullPrefix`; when the short run did not
stop on its budget, the longer run returns the very same loop state -/
theorem runSolve_prefix (S : SolverSt α) (st : Settings α) (k k' : Nat) (hk : k ≤ k') {Lk : LoopSt α}
    (h : S.runSolve (withMaxIter st k) = .ok Lk) :
    ∃ S0, (resetInfo S).defaultStart st = .ok S0
      ∧ FullPrefix st k k' (initLoopSt S0) Lk
      ∧ (S.runSolve (withMaxIter st k') = .ok Lk ∨ Lk.S.info.status = .maxIterations ∧ Lk.iter = k) := by
  rw [runSolve_eq_runSolveO] at h
  obtain ⟨o, ho, hl⟩ := bind_ok_inv h
  unfold SolverSt.runSolveO at ho
  obtain ⟨S0, hds, ho⟩ := bind_ok_inv ho
  rw [defaultStart_withMaxIter] at hds
  have hI : LInv (withMaxIter st k) (initLoopSt S0) :=
    initLoopSt_inv (st := withMaxIter st k) (by rw [defaultStart_withMaxIter]; exact hds)
  have hspec := runLoopO_spec (withMaxIter st k) ((withMaxIter st k).info.max_iter + 2) (initLoopSt S0) hI
    (by show k - 0 < k + 2; omega)
  rw [ho] at hspec
  cases o with
  | none => exact hspec.elim
  | some Lf =>
    cases hl
    obtain ⟨_, Lm, hr, hp⟩ := hspec
    have hpre := loop_prefix st k k' hk hI hr hp
    refine ⟨S0, hds, hpre, ?_⟩
    cases hpre with
    | same Lm' h1 h2 hs hl' =>
      left
      have hI' : LInv (withMaxIter st k') (initLoopSt S0) :=
        initLoopSt_inv (st := withMaxIter st k') (by rw [defaultStart_withMaxIter]; exact hds)
      have := runLoopO_of_reach h2 hI' hl' ((withMaxIter st k').info.max_iter + 2)
        (by show k' - 0 < k' + 2; omega)
      rw [runSolve_eq_runSolveO]
      unfold SolverSt.runSolveO
      rw [defaultStart_withMaxIter, hds]
      show (runLoopO (withMaxIter st k') ((withMaxIter st k').info.max_iter + 2) (initLoopSt S0) >>= liftO) = _
      rw [this]; rfl
    | budget Lm' h1 h2 hs hiter hstatus hvars hiter' htraj =>
      exact Or.inr ⟨hstatus, hiter'⟩
end
end Clarabel.Solver
