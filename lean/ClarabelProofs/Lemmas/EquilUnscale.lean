/-
  C10 ⟷ C01: `DefaultVariables::unscale` (model `Unscale.unscale`, C01) undoes the change of
  variables `x̂ = D⁻¹x·τ`, `ŝ = E s·τ`, `ẑ = E⁻¹z·(τc)` — with the exact formulas of
  `variables.rs::unscale` (`x = (x̂∘d)·τ⁻¹`, `z = (ẑ∘e)·(τ⁻¹c⁻¹)`, `s = (ŝ∘einv)·τ⁻¹`) and the
  `dinv = 1/d`, `einv = 1/e` that `equilibrate` leaves (`C10.inverse_scalings`).
-/
import ClarabelModel.EquilUnscale
import ClarabelProofs.Lemmas.ScalarInst
import Mathlib.Algebra.Order.Field.Basic
import Mathlib.Tactic.FieldSimp
import Mathlib.Tactic.Ring

namespace Clarabel.Equil
open Clarabel Residuals

variable {α : Type}

/-- `[T]::hadamard` when the partner is at least as long: an index-wise product -/
theorem unscale_hadamard_eq [Mul α] [OfNat α 1] (x y : Array α) (h : x.size ≤ y.size) :
    Unscale.hadamardInPlace x y = ((List.range x.size).map (fun i => x.getD i 1 * y.getD i 1)).toArray := by
  unfold Unscale.hadamardInPlace
  congr 1
  rw [← List.filterMap_eq_map]
  apply List.filterMap_congr
  intro i hi
  have hx : i < x.size := List.mem_range.mp hi
  have hy : i < y.size := by omega
  simp [Array.getD, hx, hy]

theorem size_unscale_hadamard [Mul α] [OfNat α 1] (x y : Array α) (h : x.size ≤ y.size) :
    (Unscale.hadamardInPlace x y).size = x.size := by
  rw [unscale_hadamard_eq x y h]; simp

theorem getD_unscale_hadamard [Mul α] [OfNat α 1] (x y : Array α) (h : x.size ≤ y.size) (i : Nat)
    (hi : i < x.size) : (Unscale.hadamardInPlace x y).getD i 1 = x.getD i 1 * y.getD i 1 := by
  rw [unscale_hadamard_eq x y h]
  simp [Array.getD, hi]

section field
variable [Field α]

theorem size_scale_hadamard (x a : Array α) (σ : α) (ha : x.size ≤ a.size) :
    (Vec.scale (Unscale.hadamardInPlace x a) σ).size = x.size := by
  unfold Vec.scale
  rw [Array.size_map, size_unscale_hadamard x a ha]

theorem getD_scale_hadamard (x a : Array α) (σ : α) (ha : x.size ≤ a.size) (i : Nat) (hi : i < x.size) :
    (Vec.scale (Unscale.hadamardInPlace x a) σ).getD i 1 = x.getD i 1 * a.getD i 1 * σ := by
  have h1 : i < (Unscale.hadamardInPlace x a).size := by rw [size_unscale_hadamard x a ha]; exact hi
  have : (Vec.scale (Unscale.hadamardInPlace x a) σ).getD i 1 = (Unscale.hadamardInPlace x a).getD i 1 * σ := by
    unfold Vec.scale
    simp [Array.getD, h1]
  rw [this, getD_unscale_hadamard x a ha i hi]

/-- `((x∘a)·σ ∘ b)·ρ = x` when `aᵢ bᵢ σ ρ = 1` -/
theorem scale_hadamard_roundtrip (x a b : Array α) (σ ρ : α) (ha : x.size ≤ a.size) (hb : x.size ≤ b.size)
    (hab : ∀ i, i < x.size → a.getD i 1 * σ * b.getD i 1 * ρ = 1) :
    Vec.scale (Unscale.hadamardInPlace (Vec.scale (Unscale.hadamardInPlace x a) σ) b) ρ = x := by
  have hs1 := size_scale_hadamard x a σ ha
  have hs2 := size_scale_hadamard (Vec.scale (Unscale.hadamardInPlace x a) σ) b ρ (by rw [hs1]; exact hb)
  apply Array.ext
  · rw [hs2, hs1]
  · intro i h1 h2
    have hi : i < x.size := h2
    have l : (Vec.scale (Unscale.hadamardInPlace (Vec.scale (Unscale.hadamardInPlace x a) σ) b) ρ)[i] =
        (Vec.scale (Unscale.hadamardInPlace (Vec.scale (Unscale.hadamardInPlace x a) σ) b) ρ).getD i 1 := by
      simp [Array.getD, h1]
    have r : x[i] = x.getD i 1 := by simp [Array.getD, hi]
    rw [l, r, getD_scale_hadamard _ b ρ (by rw [hs1]; exact hb) i (by rw [hs1]; exact hi),
      getD_scale_hadamard x a σ ha i hi]
    have := hab i hi
    calc x.getD i 1 * a.getD i 1 * σ * b.getD i 1 * ρ
        = x.getD i 1 * (a.getD i 1 * σ * b.getD i 1 * ρ) := by ring
      _ = x.getD i 1 := by rw [this, mul_one]

/-- [F] **`unscale ∘ scale = id`** on `(x, s, z)`: for scalings with `dinv = 1/d`, `einv = 1/e`
(what `equilibrate` leaves), nonzero `dⱼ`, `eᵢ`, `c` and `τ ≠ 0`, un-scaling the internal
representative of a user point returns the user point, with `τ = 1` and `κ/τ`. -/
theorem unscale_scaleVars (eq : EquilData α) (x s z : Array α) (τ κ : α) (hτ : τ ≠ 0) (hc : eq.c ≠ 0)
    (hdinv : eq.dinv = eq.d.map (fun v => 1 / v)) (heinv : eq.einv = eq.e.map (fun v => 1 / v))
    (hd : ∀ j, j < eq.d.size → eq.d.getD j 1 ≠ 0) (he : ∀ i, i < eq.e.size → eq.e.getD i 1 ≠ 0)
    (hx : x.size = eq.d.size) (hs : s.size = eq.e.size) (hz : z.size = eq.e.size) :
    Unscale.unscale (scaleVars eq x s z τ κ) (infoEquil eq) false =
      { x := x, s := s, z := z, τ := 1, κ := κ / τ } := by
  have hdi : ∀ j, j < eq.d.size → eq.dinv.getD j 1 = 1 / eq.d.getD j 1 := by
    intro j hj; rw [hdinv]; simp [Array.getD, hj]
  have hei : ∀ i, i < eq.e.size → eq.einv.getD i 1 = 1 / eq.e.getD i 1 := by
    intro i hi; rw [heinv]; simp [Array.getD, hi]
  have szdi : eq.dinv.size = eq.d.size := by rw [hdinv]; simp
  have szei : eq.einv.size = eq.e.size := by rw [heinv]; simp
  unfold Unscale.unscale scaleVars infoEquil
  simp only [Bool.false_eq_true, ↓reduceIte]
  congr 1
  · apply scale_hadamard_roundtrip x eq.dinv eq.d τ (1 / τ) (by omega) (by omega)
    intro i hi
    have := hd i (by omega)
    rw [hdi i (by omega)]
    field_simp
  · apply scale_hadamard_roundtrip s eq.e eq.einv τ (1 / τ) (by omega) (by omega)
    intro i hi
    have := he i (by omega)
    rw [hei i (by omega)]
    field_simp
  · apply scale_hadamard_roundtrip z eq.einv eq.e (τ * eq.c) (1 / τ * (1 / eq.c)) (by omega) (by omega)
    intro i hi
    have := he i (by omega)
    rw [hei i (by omega)]
    field_simp
  · field_simp
  · field_simp

end field
end Clarabel.Equil
