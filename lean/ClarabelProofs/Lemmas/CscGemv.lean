/-
  Helper lemmas for C16: the scatter loop of gemv / symv / row sums, and the algebra that
  turns the per-entry accumulation into the dense matrix-vector product.
-/
import ClarabelModel.CscMath
import ClarabelProofs.Lemmas.CscBasic
import Mathlib.Algebra.BigOperators.Group.Finset.Basic
import Mathlib.Algebra.BigOperators.Ring.List
import Mathlib.Algebra.BigOperators.Ring.Finset
import Mathlib.Algebra.BigOperators.Intervals

namespace Clarabel.Csc
open Clarabel.C16

variable {α : Type}

theorem scatter_cons (f : α → α → α) (y : Array α) (e : Nat × α) (t : List (Nat × α))
    (h : e.1 < y.size) :
    scatter f y (e :: t) = scatter f (y.set e.1 (f y[e.1] e.2) h) t := by
  simp [scatter, List.foldlM_cons, getE, setE, h]

/-- [S] the scatter loop never panics when all indices are in range, and slot `i` of the
result is the left fold of `f` over the values scattered to `i`, in list order, starting
from the old content. -/
theorem scatter_spec (f : α → α → α) (y : Array α) (l : List (Nat × α))
    (h : ∀ e ∈ l, e.1 < y.size) :
    ∃ y', scatter f y l = .ok y' ∧ y'.size = y.size ∧
      ∀ i, i < y.size → y'[i]? = (y[i]?).map (fun yi => (colVals l i).foldl f yi) := by
  induction l generalizing y with
  | nil =>
    refine ⟨y, rfl, rfl, fun i _ => ?_⟩
    simp
  | cons e t ih =>
    have he : e.1 < y.size := h e (by simp)
    obtain ⟨y', h1, h2, h3⟩ := ih (y.set e.1 (f y[e.1] e.2) he)
      (fun e' he' => by simpa using h e' (List.mem_cons_of_mem _ he'))
    refine ⟨y', by rw [scatter_cons f y e t he]; exact h1, by simpa using h2, fun i hi => ?_⟩
    rw [h3 i (by simpa using hi), colVals_cons]
    by_cases hei : e.1 = i
    · subst hei
      simp [he]
    · simp [hei, Array.getElem?_set_ne]

theorem colVals_map_val (c : List (Nat × α)) (g : α → α) (i : Nat) :
    colVals (c.map (fun e => (e.1, g e.2))) i = (colVals c i).map g := by
  induction c with
  | nil => rfl
  | cons e t ih =>
    rw [List.map_cons, colVals_cons, colVals_cons]
    by_cases h : e.1 = i <;> simp [h, ih]

theorem zipIdx_map_eq {β γ : Type} (l : List β) (f : β × Nat → γ) (g : Nat → γ)
    (h : ∀ j (hj : j < l.length), f (l[j], j) = g j) :
    l.zipIdx.map f = (List.range l.length).map g := by
  apply List.ext_getElem
  · simp
  · intro i h1 h2
    simp only [List.getElem_map, List.getElem_zipIdx, List.getElem_range, Nat.zero_add]
    exact h i (by simpa using h1)

theorem list_sum_range_eq [AddCommMonoid α] (f : Nat → α) (n : Nat) :
    ((List.range n).map f).sum = ∑ j ∈ Finset.range n, f j := by
  induction n with
  | zero => simp
  | succ n ih => simp [List.range_succ, Finset.sum_range_succ, ih]

theorem foldl_add_eq [AddCommMonoid α] (l : List α) (y0 : α) :
    l.foldl (fun yi t => yi + t) y0 = y0 + l.sum := by
  induction l generalizing y0 with
  | nil => simp
  | cons a t ih => simp [ih, add_assoc]

theorem foldl_sub_eq [AddCommGroup α] (l : List α) (y0 : α) :
    l.foldl (fun yi t => yi - t) y0 = y0 - l.sum := by
  induction l generalizing y0 with
  | nil => simp
  | cons a t ih => simp [ih, sub_sub]

/-- the values scattered to row `i` by the gemv loop, summed: `c · Σ_j (Σ A_ij-entries) · x_j` -/
theorem sum_colVals_terms [Semiring α] (n : Nat) (colf : Nat → List (Nat × α)) (xs : Nat → α)
    (g : α → α → α) (c : α) (hg : ∀ v xj, g v xj = c * v * xj) (i : Nat) :
    (colVals (((List.range n).map (fun j => (colf j).map (fun e => (e.1, g e.2 (xs j))))).flatten) i).sum
      = c * ∑ j ∈ Finset.range n, (colVals (colf j) i).sum * xs j := by
  rw [colVals_flatten, List.map_map, List.sum_flatten, List.map_map, list_sum_range_eq,
    Finset.mul_sum]
  apply Finset.sum_congr rfl
  intro j _
  simp only [Function.comp]
  rw [colVals_map_val (colf j) (fun v => g v (xs j)) i]
  induction colVals (colf j) i with
  | nil => simp
  | cons v t ih =>
    rw [List.map_cons, List.sum_cons, ih, List.sum_cons, add_mul, mul_add, hg, mul_assoc]

theorem gemvTerms_eq [Mul α] (A : Csc α) (x : Array α) (g : α → α → α) (d : α) :
    gemvTerms A x g = ((List.range x.size).map (fun j =>
      (A.col j).map (fun e => (e.1, g e.2 (x.getD j d))))).flatten := by
  unfold gemvTerms
  rw [zipIdx_map_eq x.toList _ (fun j => (A.col j).map (fun e => (e.1, g e.2 (x.getD j d))))]
  · simp
  · intro j hj
    have hj' : j < x.size := by simpa using hj
    simp [Array.getD_eq_getD_getElem?, Array.getElem?_eq_getElem hj']

section applyB
variable [CommRing α] [DecidableEq α]

theorem applyB_size (b : α) (y : Array α) : (applyB b y).size = y.size := by
  unfold applyB Vec.negate Vec.scale
  split_ifs <;> simp

theorem applyB_get (b : α) (y : Array α) (i : Nat) (hi : i < y.size) :
    (applyB b y)[i]? = some (b * y[i]) := by
  unfold applyB Vec.negate Vec.scale
  split_ifs with h0 h1 h2
  · have : b = 0 := by simpa using h0
    simp [hi, this]
  · have : b = 1 := by simpa using h1
    simp [hi, this]
  · have : b = -1 := by simpa using h2
    simp [hi, this]
  · simp [hi, mul_comm]

end applyB

theorem nzvalMatchesColptr_of_canonical {A : Csc α} (hA : Canonical A) :
    nzvalMatchesColptr A = .ok () := by
  unfold nzvalMatchesColptr
  have hsz := hA.colptr_size
  have hlast := hA.colptr_last
  rw [Array.getD_eq_getD_getElem?] at hlast
  have : A.colptr.back? = A.colptr[A.n]? := by
    rw [Array.back?_eq_getElem?, hsz]; rfl
  rw [this]
  have hn : A.n < A.colptr.size := by omega
  rw [Array.getElem?_eq_getElem hn] at hlast ⊢
  simp only [Option.getD_some] at hlast
  simp [hlast, hA.len_eq]
  rfl


/-! ### transposed product -/

theorem colDotM_eq (c : List (Nat × α)) (x : Array α) (upd term : α → α → α) (y0 : α) (d : α)
    (h : ∀ e ∈ c, e.1 < x.size) :
    colDotM c x upd term y0 = .ok (c.foldl (fun acc e => upd acc (term e.2 (x.getD e.1 d))) y0) := by
  unfold colDotM
  induction c generalizing y0 with
  | nil => rfl
  | cons e t ih =>
    have he : e.1 < x.size := h e (by simp)
    rw [List.foldlM_cons]
    have : getE x e.1 "x[row]" = .ok (x.getD e.1 d) := by
      simp [getE, Array.getD_eq_getD_getElem?, Array.getElem?_eq_getElem he]
      rfl
    simp only [this, List.foldl_cons]
    exact ih _ (fun e' he' => h e' (List.mem_cons_of_mem _ he'))

theorem mapM_eq_ok {β γ : Type} (l : List β) (f : β → MErr γ) (g : β → γ)
    (h : ∀ p ∈ l, f p = .ok (g p)) : l.mapM f = .ok (l.map g) := by
  induction l with
  | nil => rfl
  | cons a t ih =>
    rw [List.mapM_cons, h a (by simp), ih (fun p hp => h p (List.mem_cons_of_mem _ hp))]
    rfl

/-- a column's dot product with `x`, regrouped by row -/
theorem sum_col_mul_eq [CommSemiring α] (c : List (Nat × α)) (xs : Nat → α) (m : Nat)
    (h : ∀ e ∈ c, e.1 < m) :
    (c.map (fun e => e.2 * xs e.1)).sum = ∑ i ∈ Finset.range m, (colVals c i).sum * xs i := by
  induction c with
  | nil => simp
  | cons e t ih =>
    rw [List.map_cons, List.sum_cons, ih (fun e' he' => h e' (List.mem_cons_of_mem _ he'))]
    have he : e.1 < m := h e (by simp)
    have : ∀ i, (colVals (e :: t) i).sum * xs i =
        (if i = e.1 then e.2 * xs e.1 else 0) + (colVals t i).sum * xs i := by
      intro i
      rw [colVals_cons]
      by_cases hi : e.1 = i
      · subst hi; simp [add_mul]
      · have : ¬ i = e.1 := fun h => hi h.symm
        simp [hi, this]
    simp only [this, Finset.sum_add_distrib, Finset.sum_ite_eq', Finset.mem_range, he, ↓reduceIte]

theorem foldl_upd_add [CommRing α] (c : List (Nat × α)) (k : α) (xs : Nat → α) (y0 : α) :
    c.foldl (fun acc e => acc + k * e.2 * xs e.1) y0 = y0 + k * (c.map (fun e => e.2 * xs e.1)).sum := by
  induction c generalizing y0 with
  | nil => simp
  | cons e t ih =>
    rw [List.foldl_cons, ih, List.map_cons, List.sum_cons, mul_add, add_assoc, mul_assoc]

end Clarabel.Csc
