/-
  **Every pass of the interior-point loop sees the assembled matrix with the CURRENT scaling.**

  `DirectLDLKKTSolver::update` overwrites every position of `KKT.nzval` that depends on the cone
  scaling (all of `map.Hsblocks`, all vectors of every sparse expansion map) with values that do
  not depend on what was stored there before, and touches nothing else; `regularize_and_refactor`
  puts the solver's own copy back after the factorisation.  Hence, whatever the earlier passes
  wrote:

  * `updateValues_start_irrelevant` [S]: `update` on a value array that agrees with the assembled
    one off the scaling positions (`StartOK`) returns exactly what `update` on the freshly assembled
    array returns;
  * `startOK_runPasses` [S]: the value array left by any sequence of passes is such an array;
  * `runPasses_last` [S]: so the outputs (refinement copy, LDL copy, regulariser) of the LAST pass of
    any history are those of a fresh `assemble + update` with the last scaling data alone — the
    statement the harness oracle `history independence` tests on the implementation.
-/
import ClarabelModel.KktPasses
import ClarabelProofs.Lemmas.KktUpdateTotal
import ClarabelProofs.Lemmas.KktRestore

set_option linter.unusedSectionVars false
set_option linter.unusedVariables false

namespace Clarabel.Lemmas.KktPasses
open Clarabel Clarabel.Csc Clarabel.Kkt
open Clarabel.Lemmas.KktRun Clarabel.Lemmas.KktSlots Clarabel.Lemmas.KktFillMaps
open Clarabel.Lemmas.KktFillRun Clarabel.Lemmas.KktTotal
open Clarabel.Lemmas.KktFinal Clarabel.Lemmas.KktSpec Clarabel.Lemmas.KktDistinct
open Clarabel.Lemmas.KktUpdateAsm Clarabel.Lemmas.KktUpdateTotal

-- ====================================================================================
-- (A) two runs of the writing primitives on arrays that agree off a "dirty" set
-- ====================================================================================

section agree
variable {α : Type}

/-- two value arrays of the same length agree off the "dirty" positions `D` -/
def AgreeOff (D : Nat → Prop) (a b : Array α) : Prop :=
  a.size = b.size ∧ ∀ j, ¬ D j → a[j]? = b[j]?

theorem AgreeOff.mono {D D' : Nat → Prop} {a b : Array α} (h : AgreeOff D a b)
    (hDD : ∀ j, D j → D' j) : AgreeOff D' a b :=
  ⟨h.1, fun j hj => h.2 j (fun hd => hj (hDD j hd))⟩

theorem AgreeOff.eq_of_clean {D : Nat → Prop} {a b : Array α} (h : AgreeOff D a b)
    (hD : ∀ j, ¬ D j) : a = b :=
  Array.ext_getElem? (fun j => h.2 j (hD j))

/-- `_update_values_KKT` with at least as many values as indices cleans its index positions -/
theorem updateValuesKKT_agree {D : Nat → Prop} {a b a' b' : Array α} {idx : Array Nat}
    {vals : Array α} (h : AgreeOff D a b) (ha : updateValuesKKT a idx vals = .ok a')
    (hb : updateValuesKKT b idx vals = .ok b') (hlen : idx.size ≤ vals.size) :
    AgreeOff (fun j => D j ∧ j ∉ idx.toList) a' b' := by
  refine ⟨by rw [updateValuesKKT_size ha, updateValuesKKT_size hb, h.1], fun j hj => ?_⟩
  rw [updateValuesKKT_getElem? ha j, updateValuesKKT_getElem? hb j]
  cases hf : (idx.toList.zip vals.toList).reverse.find? (fun p => p.1 == j) with
  | some q => rfl
  | none =>
    have hjn : j ∉ idx.toList := not_mem_of_zip_find_none (by simpa using hlen) hf
    exact h.2 j (fun hd => hj ⟨hd, hjn⟩)

section scale
variable [Mul α]

theorem foldlM_scale_agree (s : α) (site1 site2 : String) {D : Nat → Prop} :
    ∀ (l : List Nat) (a b a' b' : Array α), AgreeOff D a b →
      l.foldlM (fun (a : Array α) i => do
        let v ← getE a i site1
        setE a i (v * s) site2) a = .ok a' →
      l.foldlM (fun (a : Array α) i => do
        let v ← getE a i site1
        setE a i (v * s) site2) b = .ok b' →
      AgreeOff D a' b' := by
  intro l
  induction l with
  | nil =>
    intro a b a' b' h ha hb
    simp only [List.foldlM_nil] at ha hb
    cases ha; cases hb
    exact h
  | cons i l ih =>
    intro a b a' b' h ha hb
    rw [List.foldlM_cons] at ha hb
    obtain ⟨a1, h1, ha⟩ := except_bind_eq_ok ha
    obtain ⟨v, hv, h1⟩ := except_bind_eq_ok h1
    obtain ⟨b1, g1, hb⟩ := except_bind_eq_ok hb
    obtain ⟨w, hw, g1⟩ := except_bind_eq_ok g1
    have hv' := getE_ok hv
    have hw' := getE_ok hw
    have hi : i < a.size := (Array.getElem?_eq_some_iff.1 hv').1
    have hib : i < b.size := (Array.getElem?_eq_some_iff.1 hw').1
    unfold setE at h1 g1
    rw [dif_pos hi] at h1
    rw [dif_pos hib] at g1
    cases h1; cases g1
    refine ih _ _ _ _ ⟨by simpa using h.1, fun j hj => ?_⟩ ha hb
    by_cases hji : i = j
    · subst hji
      have e := h.2 i hj
      rw [hv', hw'] at e
      cases e
      rw [Array.getElem?_set_self hi, Array.getElem?_set_self hib]
    · rw [Array.getElem?_set_ne hi hji, Array.getElem?_set_ne hib hji]
      exact h.2 j hj

/-- `_scale_values_KKT` keeps two arrays in agreement where they agreed -/
theorem scaleValuesKKT_agree {D : Nat → Prop} {a b a' b' : Array α} {idx : Array Nat} {s : α}
    (h : AgreeOff D a b) (ha : scaleValuesKKT a idx s = .ok a')
    (hb : scaleValuesKKT b idx s = .ok b') : AgreeOff D a' b' :=
  foldlM_scale_agree s _ _ _ _ _ _ _ h ha hb

end scale

section sparsecone
variable [Mul α] [Neg α] [OfNat α 1] [FloatLike α]

/-- every index vector of the expansion map is covered by the data vector written through it
(`zip` in `_update_values_KKT` would otherwise leave the tail of the index vector unwritten) -/
def VecCovers : SparseMap → ConeScaling α → Prop
  | .soc mu mv mD, .socSparse _ _ u v _ => mu.size ≤ u.size ∧ mv.size ≤ v.size ∧ mD.size ≤ 2
  | .genpow mp mq mr mD, .genpow _ p q r _ _ =>
      mp.size ≤ p.size ∧ mq.size ≤ q.size ∧ mr.size ≤ r.size ∧ mD.size ≤ 3
  | _, _ => False

/-- `csc_update_sparsecone` cleans all positions of its expansion map -/
theorem updateSparsecone_agree {D : Nat → Prop} {a b a' b' : Array α} {mp : SparseMap}
    {c : ConeScaling α} (h : AgreeOff D a b) (hcov : VecCovers mp c)
    (ha : updateSparsecone a mp c = .ok a') (hb : updateSparsecone b mp c = .ok b') :
    AgreeOff (fun j => D j ∧ j ∉ mp.indices) a' b' := by
  cases mp with
  | soc mu mv mD =>
    cases c with
    | socSparse dim η u v d =>
      obtain ⟨c1, c2, c3⟩ := hcov
      obtain ⟨a1, a2, a3, a4, ha1, ha2, ha3, ha4, ha5⟩ := updateSparsecone_soc_inv ha
      obtain ⟨b1, b2, b3, b4, hb1, hb2, hb3, hb4, hb5⟩ := updateSparsecone_soc_inv hb
      have s1 := updateValuesKKT_agree h ha1 hb1 c1
      have s2 := updateValuesKKT_agree s1 ha2 hb2 c2
      have s3 := scaleValuesKKT_agree s2 ha3 hb3
      have s4 := scaleValuesKKT_agree s3 ha4 hb4
      have s5 := updateValuesKKT_agree s4 ha5 hb5 (by simpa using c3)
      refine s5.mono ?_
      rintro j ⟨⟨⟨hd, h1⟩, h2⟩, h3⟩
      refine ⟨hd, ?_⟩
      simp only [SparseMap.indices, List.mem_append, not_or]
      exact ⟨⟨h1, h2⟩, h3⟩
    | _ => exact absurd hcov (by simp [VecCovers])
  | genpow mp' mq mr mD =>
    cases c with
    | genpow μ p q r d1 d2 =>
      obtain ⟨c1, c2, c3, c4⟩ := hcov
      obtain ⟨a1, a2, a3, a4, a5, a6, ha1, ha2, ha3, ha4, ha5, ha6, ha7⟩ :=
        updateSparsecone_genpow_inv ha
      obtain ⟨b1, b2, b3, b4, b5, b6, hb1, hb2, hb3, hb4, hb5, hb6, hb7⟩ :=
        updateSparsecone_genpow_inv hb
      have s1 := updateValuesKKT_agree h ha1 hb1 c2
      have s2 := updateValuesKKT_agree s1 ha2 hb2 c3
      have s3 := updateValuesKKT_agree s2 ha3 hb3 c1
      have s4 := scaleValuesKKT_agree s3 ha4 hb4
      have s5 := scaleValuesKKT_agree s4 ha5 hb5
      have s6 := scaleValuesKKT_agree s5 ha6 hb6
      have s7 := updateValuesKKT_agree s6 ha7 hb7 (by simpa using c4)
      refine s7.mono ?_
      rintro j ⟨⟨⟨⟨hd, h1⟩, h2⟩, h3⟩, h4⟩
      refine ⟨hd, ?_⟩
      simp only [SparseMap.indices, List.mem_append, not_or]
      exact ⟨⟨⟨h3, h1⟩, h2⟩, h4⟩
    | _ => exact absurd hcov (by simp [VecCovers])

/-- the expansion maps consumed by the cones `cs`, starting with map number `k`, are covered -/
def CoverFrom (map : LDLDataMap) : Nat → List (ConeScaling α) → Prop
  | _, [] => True
  | k, c :: cs =>
    if c.isSparse = true then
      (∀ mp, map.sparse_maps[k]? = some mp → VecCovers mp c) ∧ CoverFrom map (k + 1) cs
    else CoverFrom map k cs

/-- the loop of `update` over the cones cleans every expansion map it consumes -/
theorem foldlM_sparseStep_agree (map : LDLDataMap) :
    ∀ (cs : List (ConeScaling α)) (D : Nat → Prop) (a b : Array α) (k : Nat)
      (ra rb : Array α × Nat), AgreeOff D a b → CoverFrom map k cs →
      cs.foldlM (sparseStep map) (a, k) = .ok ra → cs.foldlM (sparseStep map) (b, k) = .ok rb →
      ra.2 = rb.2 ∧ ra.2 = k + (cs.filter (fun c => c.isSparse)).length ∧
      AgreeOff (fun j => D j ∧ ∀ m mp, k ≤ m → m < ra.2 → map.sparse_maps[m]? = some mp →
        j ∉ mp.indices) ra.1 rb.1 := by
  intro cs
  induction cs with
  | nil =>
    intro D a b k ra rb h _ ha hb
    simp only [List.foldlM_nil] at ha hb
    cases ha; cases hb
    exact ⟨rfl, by simp, h.mono (fun j hd => ⟨hd, fun m mp h1 h2 => by omega⟩)⟩
  | cons c cs ih =>
    intro D a b k ra rb h hcov ha hb
    rw [List.foldlM_cons] at ha hb
    obtain ⟨sa, hsa, ha⟩ := except_bind_eq_ok ha
    obtain ⟨sb, hsb, hb⟩ := except_bind_eq_ok hb
    rcases sparseStep_inv hsa with ⟨hc, rfl⟩ | ⟨hc, mp, na, hmp, hna, rfl⟩
    · rcases sparseStep_inv hsb with ⟨_, rfl⟩ | ⟨hc', _⟩
      · have hcov' : CoverFrom map k cs := by
          simp only [CoverFrom, hc, Bool.false_eq_true, if_false] at hcov
          exact hcov
        obtain ⟨e1, e2, e3⟩ := ih D a b k ra rb h hcov' ha hb
        refine ⟨e1, ?_, e3⟩
        rw [e2, List.filter_cons_of_neg (by simp [hc])]
      · rw [hc] at hc'; cases hc'
    · rcases sparseStep_inv hsb with ⟨hc', _⟩ | ⟨_, mp', nb, hmp', hnb, rfl⟩
      · rw [hc] at hc'; cases hc'
      · rw [hmp] at hmp'
        cases hmp'
        have hcov' : (∀ mp, map.sparse_maps[k]? = some mp → VecCovers mp c) ∧
            CoverFrom map (k + 1) cs := by
          simp only [CoverFrom, hc, if_true] at hcov
          exact hcov
        have s1 := updateSparsecone_agree h (hcov'.1 mp hmp) hna hnb
        obtain ⟨e1, e2, e3⟩ := ih _ na nb (k + 1) ra rb s1 hcov'.2 ha hb
        refine ⟨e1, ?_, e3.mono ?_⟩
        · rw [e2, List.filter_cons_of_pos (by simp [hc])]
          simp only [List.length_cons]
          omega
        · rintro j ⟨⟨hd, hnot⟩, hall⟩
          refine ⟨hd, fun m mp' h1 h2 h3 => ?_⟩
          by_cases hmk : m = k
          · subst hmk
            rw [hmp] at h3
            cases h3
            exact hnot
          · exact hall m mp' (by omega) h2 h3

end sparsecone

end agree

-- ====================================================================================
-- (B) the whole `update`
-- ====================================================================================

section values
variable {α : Type} [Add α] [Sub α] [Mul α] [Div α] [Neg α] [OfNat α 0] [OfNat α 1] [LT α]
  [DecidableLT α] [FloatLike α]

/-- [S] two runs of `update` from arrays that agree off `D`: afterwards they agree off what is left
of `D` outside the Hs index and the expansion maps consumed -/
theorem updateValues_agree {D : Nat → Prop} {a b a' b' : Array α} {map : LDLDataMap}
    {scal : List (ConeScaling α)} (h : AgreeOff D a b) (hcov : CoverFrom map 0 scal)
    (hHs : ∀ blocks, scal.mapM getHs = .ok blocks →
      map.Hsblocks.size ≤ ((blocks.map Array.toList).flatten).length)
    (ha : updateValues a map scal = .ok a') (hb : updateValues b map scal = .ok b') :
    AgreeOff (fun j => D j ∧ j ∉ map.Hsblocks.toList ∧
      ∀ m mp, m < (scal.filter (fun c => c.isSparse)).length → map.sparse_maps[m]? = some mp →
        j ∉ mp.indices) a' b' := by
  obtain ⟨blocks, a1, ra, hba, h1a, hra, rfl⟩ := updateValues_inv ha
  obtain ⟨blocks', b1, rb, hbb, h1b, hrb, rfl⟩ := updateValues_inv hb
  rw [hba] at hbb
  cases hbb
  have s1 := updateValuesKKT_agree h h1a h1b (by
    simp only [Array.size_map, List.size_toArray]
    exact hHs blocks hba)
  obtain ⟨_, e2, e3⟩ := foldlM_sparseStep_agree map scal _ a1 b1 0 ra rb s1 hcov hra hrb
  refine e3.mono ?_
  rintro j ⟨⟨hd, hH⟩, hall⟩
  refine ⟨hd, hH, fun m mp hm hmp => hall m mp (Nat.zero_le _) (by rw [e2]; omega) hmp⟩

/-- the expansion vectors have the lengths `update_scaling` gives them (the scalar-generic form of
`KktSymOfValues.VecFits`) -/
def VecLens : ConeScaling α → Prop
  | .socSparse dim _ u v _ => u.size = dim ∧ v.size = dim
  | .genpow _ p q r d1 _ => p.size = d1.size + r.size ∧ q.size = d1.size
  | _ => True

section asm
variable {P A : Csc α} {cones : List ConeSpec} {shape : MatrixTriangle} {K : Csc α}
  {map : LDLDataMap} {sched : List (Entry α)} {Kc : Csc α} {nd : Nat}

/-- on the maps of the assembly every expansion map is covered by the data of its cone -/
theorem coverFrom_asm (R : AsmRun P A cones shape K map sched Kc nd) :
    ∀ (rest : List (ConeScaling α)) (restS : List ConeSpec), LayoutFits rest restS →
    (∀ c ∈ rest, VecLens c) →
    ∀ (preS : List ConeSpec), cones = preS ++ restS → CoverFrom map (nSparse preS) rest := by
  intro rest restS hfit
  induction hfit with
  | nil => intro _ preS _; trivial
  | @cons c cS rest' restS' hab hrest ih =>
    intro hvec preS hdec
    have hdec' : cones = (preS ++ [cS]) ++ restS' := by rw [hdec]; simp
    have hns : nSparse (preS ++ [cS])
        = nSparse preS + (if cS.isSparseExpandable = true then 1 else 0) := by
      unfold nSparse
      rw [List.countP_append, List.countP_cons]
      simp
    have ih' := ih (fun c' hc' => hvec c' (List.mem_cons_of_mem _ hc')) (preS ++ [cS]) hdec'
    have hv := hvec c (List.mem_cons_self)
    by_cases hsp : cS.isSparseExpandable = true
    · have hcs : c.isSparse = true := by rw [fits_sparse hab]; exact hsp
      obtain ⟨mp', hget, hss⟩ := (R.fill.cone_slots preS cS restS' hdec).2 hsp
      have hf := hss.fits
      rw [hns, if_pos hsp] at ih'
      show (if c.isSparse = true then _ else _)
      rw [if_pos hcs]
      refine ⟨fun mp hmp => ?_, ih'⟩
      rw [hget] at hmp
      cases hmp
      cases c <;> simp only [ConeScaling.isSparse] at hcs <;> try (cases hcs)
      all_goals
        cases cS <;> simp only [ScalingFits] at hab <;>
          cases mp' <;> simp only [MapFitsD] at hf <;> simp only [VecCovers, VecLens] at hv ⊢ <;>
          omega
    · have hcs : c.isSparse = false := by
        rw [fits_sparse hab]; simpa using hsp
      rw [hns, if_neg hsp] at ih'
      show (if c.isSparse = true then _ else _)
      rw [if_neg (by simp [hcs])]
      exact ih'

/-- a value array that `update` may start from: the assembled length, and the assembled values at
every position that is neither an Hs position nor a position of a sparse expansion map (the `P`,
`A` entries and the filled-in diagonal zeros) -/
def StartOK (K : Csc α) (map : LDLDataMap) (nz : Array α) : Prop :=
  AgreeOff (fun j => j ∈ map.Hsblocks.toList ∨ ∃ mp ∈ map.sparse_maps.toList, j ∈ mp.indices)
    nz K.nzval

theorem startOK_self (K : Csc α) (map : LDLDataMap) : StartOK K map K.nzval :=
  ⟨rfl, fun _ _ => rfl⟩

/-- [S] `update` keeps the value array in that class, whatever the scaling data -/
theorem startOK_update (hin : KktInputs P A cones)
    (hasm : assembleKktMatrix P A cones shape = .ok (K, map)) {nz nz' : Array α}
    (scal : List (ConeScaling α)) (hs : StartOK K map nz)
    (hup : updateValues nz map scal = .ok nz') : StartOK K map nz' := by
  obtain ⟨sched, Kc, nd, R⟩ := asmRun_of_ok hin hasm
  obtain ⟨hnd, hdisjH, _, _⟩ := R.maps_distinct hin.m_eq
  obtain ⟨_, _, hsz, hframe, _⟩ := updateValues_frame_and_Hs nz nz' map scal hnd hdisjH hup
  refine ⟨by rw [hsz]; exact hs.1, fun j hj => ?_⟩
  rw [hframe j (fun h => hj (Or.inl h)) (fun mp hmp h => hj (Or.inr ⟨mp, hmp, h⟩))]
  exact hs.2 j hj

/-- [S] **what `update` returns does not depend on the values left at the scaling positions by
earlier passes**: on the maps of `assemble_kkt_matrix`, for scaling data with the layout of the
cone list and expansion vectors of the right lengths, `update` started from any array of the class
`StartOK` returns exactly what `update` started from the freshly assembled array returns (the same
error if `get_Hs` of a cone fails). -/
theorem updateValues_start_irrelevant (hin : KktInputs P A cones)
    (hasm : assembleKktMatrix P A cones shape = .ok (K, map))
    (scal : List (ConeScaling α)) (hfits : LayoutFits scal cones)
    (hvec : ∀ c ∈ scal, VecLens c) (nz : Array α) (hs : StartOK K map nz) :
    updateValues nz map scal = updateValues K.nzval map scal := by
  cases hget : scal.mapM getHs with
  | error e =>
    unfold updateValues
    simp only [hget, bind, Except.bind]
  | ok blocks =>
    obtain ⟨sched, Kc, nd, R⟩ := asmRun_of_ok hin hasm
    obtain ⟨n1, h1⟩ := assemble_update_total hin hasm nz hs.1 scal hfits blocks hget
    obtain ⟨n2, h2⟩ := assemble_update_total hin hasm K.nzval rfl scal hfits blocks hget
    rw [h1, h2]
    congr 1
    have hcov : CoverFrom map 0 scal := coverFrom_asm R scal cones hfits hvec [] rfl
    have hHs : ∀ blocks', scal.mapM getHs = .ok blocks' →
        map.Hsblocks.size ≤ ((blocks'.map Array.toList).flatten).length := by
      intro blocks' hb
      rw [R.sizes.2.2.1, Clarabel.Lemmas.KktLength.hsblocksLen_eq_sum, ← layout_sizes hfits hb,
        List.length_flatten, List.map_map]
      exact Nat.le_refl _
    apply (updateValues_agree hs hcov hHs h1 h2).eq_of_clean
    rintro j ⟨hd, hnH, hnS⟩
    rcases hd with hH | ⟨mp, hmp, hj⟩
    · exact hnH hH
    · obtain ⟨m, hm, rfl⟩ := List.mem_iff_getElem.mp hmp
      have hm' : m < map.sparse_maps.size := by simpa using hm
      refine hnS m _ ?_ (by simp [Array.getElem?_eq_getElem hm']) hj
      rw [layout_nSparse hfits, ← filterMap_expansion_length, ← R.sizes.2.2.2]
      exact hm'

-- ------------------------------------------------------------------ sequences of passes

/-- the value array the solver holds after the passes with outputs `outs` (started from `nz`) -/
def finalNz : Array α → List (PassOut α) → Array α
  | nz, [] => nz
  | _, o :: os => finalNz o.nzval os

theorem updatePass_inv {nz : Array α} {ds : Array Int} {en : Bool} {c p : α}
    {scal : List (ConeScaling α)} {o : PassOut α}
    (h : updatePass nz map ds en c p scal = .ok o) :
    ∃ nz' rr, updateValues nz map scal = .ok nz' ∧
      regularizeAndRestore nz' map.diag_full ds en c p = .ok (rr, o.nzFactor) ∧
      o.nzval = nz' ∧ o.eps = rr.eps := by
  unfold updatePass at h
  obtain ⟨nz', hup, h⟩ := except_bind_eq_ok h
  obtain ⟨⟨rr, nzF⟩, hreg, h⟩ := except_bind_eq_ok h
  cases h
  exact ⟨nz', rr, hup, hreg, regularizeAndRestore_restores hreg, rfl⟩

/-- [S] one pass keeps the value array in the class `StartOK` -/
theorem updatePass_startOK (hin : KktInputs P A cones)
    (hasm : assembleKktMatrix P A cones shape = .ok (K, map)) {nz : Array α} {ds : Array Int}
    {en : Bool} {c p : α} {scal : List (ConeScaling α)} {o : PassOut α} (hs : StartOK K map nz)
    (h : updatePass nz map ds en c p scal = .ok o) : StartOK K map o.nzval := by
  obtain ⟨nz', rr, hup, _, he, _⟩ := updatePass_inv h
  rw [he]
  exact startOK_update hin hasm scal hs hup

/-- [S] **after ANY sequence of passes** (any scaling data, regularisation on or off — they only
have to return) the solver's value array is in the class `StartOK` -/
theorem runPasses_startOK (hin : KktInputs P A cones)
    (hasm : assembleKktMatrix P A cones shape = .ok (K, map)) (ds : Array Int) (en : Bool)
    (c p : α) : ∀ (hist : List (List (ConeScaling α))) (nz : Array α) (outs : List (PassOut α)),
      StartOK K map nz → runPasses map ds en c p nz hist = .ok outs →
      StartOK K map (finalNz nz outs) := by
  intro hist
  induction hist with
  | nil =>
    intro nz outs hs h
    cases h
    exact hs
  | cons scal rest ih =>
    intro nz outs hs h
    unfold runPasses at h
    obtain ⟨o, ho, h⟩ := except_bind_eq_ok h
    obtain ⟨os, hos, h⟩ := except_bind_eq_ok h
    cases h
    exact ih o.nzval os (updatePass_startOK hin hasm hs ho) hos

/-- [S] **the pass after any history is the pass on the freshly assembled matrix**: refinement copy,
LDL copy and regulariser of `update` called after the passes `hist` are those of `update` called
right after `assemble_kkt_matrix`. -/
theorem updatePass_after_history (hin : KktInputs P A cones)
    (hasm : assembleKktMatrix P A cones shape = .ok (K, map)) (ds : Array Int) (en : Bool)
    (c p : α) (hist : List (List (ConeScaling α))) (outs : List (PassOut α))
    (hrun : runPasses map ds en c p K.nzval hist = .ok outs)
    (scal : List (ConeScaling α)) (hfits : LayoutFits scal cones)
    (hvec : ∀ c ∈ scal, VecLens c) (en' : Bool) (c' p' : α) :
    updatePass (finalNz K.nzval outs) map ds en' c' p' scal
      = updatePass K.nzval map ds en' c' p' scal := by
  have hs := runPasses_startOK hin hasm ds en c p hist K.nzval outs (startOK_self K map) hrun
  unfold updatePass
  rw [updateValues_start_irrelevant hin hasm scal hfits hvec _ hs]

/-- `runPasses` on a history with one more pass -/
theorem runPasses_snoc (ds : Array Int) (en : Bool) (c p : α) (scal : List (ConeScaling α)) :
    ∀ (hist : List (List (ConeScaling α))) (nz : Array α) (outs : List (PassOut α)),
      runPasses map ds en c p nz (hist ++ [scal]) = .ok outs →
      ∃ init o, outs = init ++ [o] ∧ runPasses map ds en c p nz hist = .ok init ∧
        updatePass (finalNz nz init) map ds en c p scal = .ok o := by
  intro hist
  induction hist with
  | nil =>
    intro nz outs h
    simp only [List.nil_append] at h
    unfold runPasses at h
    obtain ⟨o, ho, h⟩ := except_bind_eq_ok h
    obtain ⟨os, hos, h⟩ := except_bind_eq_ok h
    unfold runPasses at hos
    cases hos
    cases h
    exact ⟨[], o, rfl, rfl, ho⟩
  | cons s rest ih =>
    intro nz outs h
    simp only [List.cons_append] at h
    unfold runPasses at h
    obtain ⟨o1, ho1, h⟩ := except_bind_eq_ok h
    obtain ⟨os, hos, h⟩ := except_bind_eq_ok h
    cases h
    obtain ⟨init, o, rfl, hinit, ho⟩ := ih o1.nzval os hos
    refine ⟨o1 :: init, o, rfl, ?_, ho⟩
    show (updatePass nz map ds en c p s >>= fun o =>
      runPasses map ds en c p o.nzval rest >>= fun os => pure (o :: os)) = _
    rw [ho1]
    show (runPasses map ds en c p o1.nzval rest >>= fun os => pure (o1 :: os)) = _
    rw [hinit]
    rfl

/-- [S] **the outputs of the LAST pass of any history are those of a fresh
`assemble + update` with the last scaling data alone.** -/
theorem runPasses_last (hin : KktInputs P A cones)
    (hasm : assembleKktMatrix P A cones shape = .ok (K, map)) (ds : Array Int) (en : Bool)
    (c p : α) (hist : List (List (ConeScaling α))) (scal : List (ConeScaling α))
    (hfits : LayoutFits scal cones) (hvec : ∀ c ∈ scal, VecLens c) (outs : List (PassOut α))
    (hrun : runPasses map ds en c p K.nzval (hist ++ [scal]) = .ok outs) :
    ∃ init o, outs = init ++ [o] ∧ updatePass K.nzval map ds en c p scal = .ok o := by
  obtain ⟨init, o, rfl, hinit, ho⟩ := runPasses_snoc ds en c p scal hist K.nzval outs hrun
  refine ⟨init, o, rfl, ?_⟩
  rw [← updatePass_after_history hin hasm ds en c p hist init hinit scal hfits hvec en c p]
  exact ho

end asm

end values

end Clarabel.Lemmas.KktPasses
