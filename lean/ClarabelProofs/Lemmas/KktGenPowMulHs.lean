/-
  Bridge: C11's algebraic `genpowMulHs` (the operator whose negative is the Schur complement of
  the block `update` writes for a generalised power cone, `C11.update_genpow_schur`) IS the
  generalised-power-cone model's own `mul_Hs` (`GenPow.mulHs`, model of `genpowcone.rs::mul_Hs`;
  C14 `genpow_mulHs` / `mulHs_eq_data`: `mul_Hs = μ(D + ppᵀ − qqᵀ − rrᵀ)x` in list form), entry by
  entry — "eliminating the auxiliary variables reproduces exactly the scaling operator `H` that
  the cones use" on the cone model's own function, as for the second-order cone.

  Class [F] (stated over `ℝ`, where C14's `mulHs_eq_data` lives).
-/
import ClarabelProofs.Lemmas.NonsymGenPowHess
import ClarabelProofs.Lemmas.KktUpdateSchur
import ClarabelProofs.Lemmas.KktInertiaGenPowReal

namespace Clarabel.Lemmas.KktGenPowMulHs

open Finset
open Clarabel Clarabel.GenPow Clarabel.Nonsym
open Clarabel.Lemmas.KktExpansion Clarabel.Lemmas.KktUpdateSchur
open Clarabel.Lemmas.KktInertiaGenPowReal (list_sum_eq_sum)

theorem lgetD (l : List ℝ) (i : ℕ) (h : i < l.length) : l.getD i 0 = l[i] := by
  simp [List.getD_eq_getElem?_getD, h]

theorem agetD (a : Array ℝ) (i : ℕ) (h : i < a.size) : a.getD i 0 = a[i] := by
  simp [Array.getD_eq_getD_getElem?, h]

theorem ldot_eq_sum (a b : List ℝ) (n : ℕ) (ha : a.length = n) (hb : b.length = n) :
    ldot a b = ∑ i : Fin n, a.getD i.val 0 * b.getD i.val 0 := by
  unfold ldot
  rw [list_sum_eq_sum]
  have hl : ((a.zip b).map (fun p => p.1 * p.2)).length = n := by simp [ha, hb]
  rw [← Fin.sum_congr' (fun i : Fin n => a.getD i.val 0 * b.getD i.val 0) hl]
  refine Finset.sum_congr rfl fun i _ => ?_
  have hi : i.val < n := by rw [← hl]; exact i.isLt
  simp only [Fin.getElem_fin, List.getElem_map, List.getElem_zip, Fin.coe_cast]
  rw [lgetD _ _ (by omega), lgetD _ _ (by omega)]

theorem placeAt_low (a : Array ℝ) (n1 n2 : ℕ) (ha : a.size = n1) (i : Fin n1) :
    placeAt a 0 (Fin.castAdd n2 i) = a.getD i.val 0 := by
  unfold placeAt
  rw [if_pos (by simp only [Fin.val_castAdd]; omega)]
  simp

theorem placeAt_low_zero (a : Array ℝ) (n1 n2 : ℕ) (ha : a.size = n1) (j : Fin n2) :
    placeAt a 0 (Fin.natAdd n1 j) = 0 := by
  unfold placeAt
  exact if_neg (by simp only [Fin.val_natAdd]; omega)

theorem placeAt_high (a : Array ℝ) (n1 n2 : ℕ) (ha : a.size = n2) (j : Fin n2) :
    placeAt a n1 (Fin.natAdd n1 j) = a.getD j.val 0 := by
  unfold placeAt
  rw [if_pos (by simp only [Fin.val_natAdd]; omega)]
  simp

theorem placeAt_high_zero (a : Array ℝ) (n1 n2 : ℕ) (i : Fin n1) :
    placeAt a n1 (Fin.castAdd n2 i) = 0 := by
  unfold placeAt
  exact if_neg (by simp only [Fin.val_castAdd]; omega)

theorem placeAt_full_high (a : Array ℝ) (n1 n2 : ℕ) (ha : a.size = n1 + n2) (j : Fin n2) :
    placeAt a 0 (Fin.natAdd n1 j) = a.getD (n1 + j.val) 0 := by
  unfold placeAt
  rw [if_pos (by simp only [Fin.val_natAdd]; omega)]
  simp

theorem placeAt_full_low (a : Array ℝ) (n1 n2 : ℕ) (ha : a.size = n1 + n2) (i : Fin n1) :
    placeAt a 0 (Fin.castAdd n2 i) = a.getD i.val 0 := by
  unfold placeAt
  rw [if_pos (by simp only [Fin.val_castAdd]; omega)]
  simp

/-- [F] **`genpowMulHs` = the cone model's `mul_Hs`.**  For a `Data` record with consistent
lengths (`|d1| = |q| = dim1`, `|r| = dim2`, `|p| = dim1 + dim2`: what `update_dual_grad_H`
writes, `KktScalingFits.genpow_update_fits`) and a vector `x = (x1, x2)` of that layout, the model
of `genpowcone.rs::mul_Hs` succeeds and its `k`-th output entry is
`genpowMulHs μ D p̃ q̃ r̃ x k` — the operator of `C11.update_genpow_schur` /
`assemble_update_genpow_schur`. -/
theorem genpow_mulHs_model (D : Data ℝ) (μ : ℝ) (x1 x2 : List ℝ)
    (hx1 : x1.length = D.d1.size) (hx2 : x2.length = D.r.size)
    (hq : D.q.size = D.d1.size) (hp : D.p.size = D.d1.size + D.r.size) :
    ∃ yv, mulHs D μ D.d1.size (x1 ++ x2).toArray = .ok yv ∧
      yv.size = D.d1.size + D.r.size ∧
      ∀ k : Fin (D.d1.size + D.r.size),
        yv[k.val]? = some (genpowMulHs μ (genpowD D.d1 D.d2) (placeAt D.p 0) (placeAt D.q 0)
          (placeAt D.r D.d1.size) (fun j => (x1 ++ x2).getD j.val 0) k) := by
  set n1 := D.d1.size with hn1
  set n2 := D.r.size with hn2
  set x : Fin (n1 + n2) → ℝ := fun j => (x1 ++ x2).getD j.val 0 with hxdef
  have hplen : D.p.toList.length = n1 + n2 := by simpa using hp
  have hpsplit : D.p.toList = D.p.toList.take n1 ++ D.p.toList.drop n1 :=
    (List.take_append_drop n1 _).symm
  have hpu : (D.p.toList.take n1).length = x1.length := by simp [hplen, hx1]
  have hpw : (D.p.toList.drop n1).length = x2.length := by simp [hplen, hx2]
  have hrun := mulHs_eq_data D (D.p.toList.take n1) (D.p.toList.drop n1) x1 x2 μ hpsplit
    (by simpa using hx1.symm) (by simpa [hx1] using hq) hpu (by simpa using hx2.symm) hpw
  rw [hx1] at hrun
  rw [← hpsplit] at hrun
  -- entries of `x`
  have hxl : ∀ i : Fin n1, x (Fin.castAdd n2 i) = x1.getD i.val 0 := by
    intro i
    have hi := i.isLt
    simp only [hxdef, Fin.val_castAdd, List.getD_eq_getElem?_getD]
    rw [List.getElem?_append_left (by omega)]
  have hxr : ∀ j : Fin n2, x (Fin.natAdd n1 j) = x2.getD j.val 0 := by
    intro j
    simp only [hxdef, Fin.val_natAdd, List.getD_eq_getElem?_getD]
    rw [List.getElem?_append_right (by omega), hx1, Nat.add_sub_cancel_left]
  -- the three inner products
  have eq_q : ldot D.q.toList x1 = dot (placeAt D.q 0) x := by
    rw [ldot_eq_sum _ _ n1 (by simpa using hq) hx1]
    unfold dot
    rw [Fin.sum_univ_add]
    have z : ∑ j : Fin n2, placeAt D.q 0 (Fin.natAdd n1 j) * x (Fin.natAdd n1 j) = 0 :=
      Finset.sum_eq_zero fun j _ => by rw [placeAt_low_zero D.q n1 n2 hq j, zero_mul]
    rw [z, add_zero]
    refine Finset.sum_congr rfl fun i _ => ?_
    rw [placeAt_low D.q n1 n2 hq i, hxl i]
    simp [Array.getD_eq_getD_getElem?, List.getD_eq_getElem?_getD]
  have eq_r : ldot D.r.toList x2 = dot (placeAt D.r n1) x := by
    rw [ldot_eq_sum _ _ n2 (by simp [hn2]) hx2]
    unfold dot
    rw [Fin.sum_univ_add]
    have z : ∑ i : Fin n1, placeAt D.r n1 (Fin.castAdd n2 i) * x (Fin.castAdd n2 i) = 0 :=
      Finset.sum_eq_zero fun i _ => by rw [placeAt_high_zero D.r n1 n2 i, zero_mul]
    rw [z, zero_add]
    refine Finset.sum_congr rfl fun j _ => ?_
    rw [placeAt_high D.r n1 n2 rfl j, hxr j]
    simp [Array.getD_eq_getD_getElem?, List.getD_eq_getElem?_getD]
  have eq_p : ldot D.p.toList (x1 ++ x2) = dot (placeAt D.p 0) x := by
    rw [ldot_eq_sum _ _ (n1 + n2) hplen (by simp [hx1, hx2])]
    unfold dot
    refine Finset.sum_congr rfl fun k _ => ?_
    have hk : (0 ≤ k.val ∧ k.val < 0 + D.p.size) := by have := k.isLt; omega
    simp only [placeAt, hk, and_self, if_true, Nat.sub_zero, hxdef]
    simp [Array.getD_eq_getD_getElem?, List.getD_eq_getElem?_getD]
  rw [eq_q, eq_r, eq_p] at hrun
  refine ⟨_, hrun, by
    simp only [List.size_toArray, List.length_append, List.length_map, List.length_zip,
      List.length_take, List.length_drop, Array.length_toList]
    omega, ?_⟩
  intro k
  simp only [List.getElem?_toArray]
  by_cases hk : k.val < n1
  · -- the `u` block
    obtain ⟨i, rfl⟩ : ∃ i : Fin n1, k = Fin.castAdd n2 i := ⟨⟨k.val, hk⟩, rfl⟩
    have hi := i.isLt
    have hi1 : i.val < D.d1.size := hi
    have hiq : i.val < D.q.size := by omega
    have hip : i.val < D.p.size := by omega
    have hlen4 : (((x1.zip D.d1.toList).zip D.q.toList).zip (D.p.toList.take n1)).length = n1 := by
      simp only [List.length_zip, List.length_take, Array.length_toList]
      omega
    rw [List.getElem?_append_left (by rw [List.length_map, hlen4]; exact hi)]
    rw [List.getElem?_map]
    have hz : ((((x1.zip D.d1.toList).zip D.q.toList).zip (D.p.toList.take n1)))[i.val]?
        = some (((x1.getD i.val 0, D.d1.getD i.val 0), D.q.getD i.val 0), D.p.getD i.val 0) := by
      rw [List.getElem?_eq_getElem (by rw [hlen4]; exact hi)]
      simp only [List.getElem_zip, List.getElem_take, Array.getElem_toList, Option.some.injEq,
        Prod.mk.injEq]
      exact ⟨⟨⟨(lgetD _ _ (by omega)).symm, (agetD _ _ hi1).symm⟩, (agetD _ _ hiq).symm⟩,
        (agetD _ _ hip).symm⟩
    simp only [Fin.val_castAdd, hz, Option.map_some, Option.some.injEq]
    unfold genpowMulHs
    rw [placeAt_low D.q n1 n2 hq i, placeAt_high_zero D.r n1 n2 i,
      placeAt_full_low D.p n1 n2 hp i, hxl i]
    have hD : genpowD D.d1 D.d2 (Fin.castAdd n2 i) = D.d1.getD i.val 0 := by
      unfold genpowD
      have : (Fin.castAdd n2 i).val < D.d1.size := hi1
      rw [dif_pos this]
      exact (agetD _ _ hi1).symm
    rw [hD]
    ring
  · -- the `w` block
    obtain ⟨j, rfl⟩ : ∃ j : Fin n2, k = Fin.natAdd n1 j :=
      ⟨⟨k.val - n1, by have := k.isLt; omega⟩, Fin.ext (by simp; omega)⟩
    have hj := j.isLt
    have hjr : j.val < D.r.size := hj
    have hjp : n1 + j.val < D.p.size := by omega
    have hlen1 : ((((x1.zip D.d1.toList).zip D.q.toList).zip (D.p.toList.take n1)).map
        (fun t => μ * (t.1.1.2 * t.1.1.1 - dot (placeAt D.q 0) x * t.1.2
          + dot (placeAt D.p 0) x * t.2))).length = n1 := by
      simp only [List.length_map, List.length_zip, List.length_take, Array.length_toList]
      omega
    rw [List.getElem?_append_right (by rw [hlen1]; simp), hlen1]
    simp only [Fin.val_natAdd, Nat.add_sub_cancel_left]
    rw [List.getElem?_map]
    have hz : ((x2.zip D.r.toList).zip (D.p.toList.drop n1))[j.val]?
        = some ((x2.getD j.val 0, D.r.getD j.val 0), D.p.getD (n1 + j.val) 0) := by
      rw [List.getElem?_eq_getElem (by
        simp only [List.length_zip, List.length_drop, Array.length_toList]; omega)]
      simp only [List.getElem_zip, List.getElem_drop, Array.getElem_toList, Option.some.injEq,
        Prod.mk.injEq]
      exact ⟨⟨(lgetD _ _ (by omega)).symm, (agetD _ _ hjr).symm⟩, (agetD _ _ hjp).symm⟩
    simp only [hz, Option.map_some, Option.some.injEq]
    unfold genpowMulHs
    rw [placeAt_low_zero D.q n1 n2 hq j, placeAt_high D.r n1 n2 rfl j,
      placeAt_full_high D.p n1 n2 hp j, hxr j]
    have hD : genpowD D.d1 D.d2 (Fin.natAdd n1 j) = D.d2 := by
      unfold genpowD
      have : ¬ (Fin.natAdd n1 j).val < D.d1.size := by
        show ¬ (n1 + j.val < n1)
        omega
      rw [dif_neg this]
    rw [hD]
    ring

end Clarabel.Lemmas.KktGenPowMulHs
