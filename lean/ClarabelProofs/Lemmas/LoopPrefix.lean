/-
  The loop body reads `max_iter` only inside `check_termination`: helper lemmas for the
  prefix property (C07).  Structural — valid for `Float`.
-/
import ClarabelProofs.Lemmas.Loop

namespace Clarabel.Loop

set_option linter.unusedSectionVars false
set_option linter.unusedSimpArgs false

variable {α : Type} [Mul α] [Div α] [Neg α] [OfNat α 0] [OfNat α 1]
  [LT α] [DecidableLT α] [LE α] [DecidableLE α] [BEq α] [FloatLike α]

/-- the same configuration with another iteration budget -/
def withBudget (cfg : Config α) (k : Nat) : Config α := { cfg with maxIter := k }

/-- the info `check_termination` looks at in a pass -/
def topInfo (o : PassOracle α) (st : State α) : Info α :=
  { (st.info.saveScalars o.mu st.alpha st.sigma st.iter) with
    costPrimal := o.costPrimal, costDual := o.costDual, resPrimal := o.resPrimal,
    resDual := o.resDual, resPrimalInf := o.resPrimalInf, resDualInf := o.resDualInf,
    gapAbs := o.gapAbs, gapRel := o.gapRel, ktratio := o.ktratio, solveTime := o.solveTime }

theorem verdict_withBudget (cfg : Config α) (k : Nat) (i : Info α) (d : Dots α) (iter : Nat) :
    verdict i d (withBudget cfg k) iter = verdict i d cfg iter := rfl

/-- the budget matters to `check_termination` only through the test `max_iter == iterations` -/
theorem checkTermination_withBudget (cfg : Config α) (k : Nat) (i : Info α) (d : Dots α) (iter : Nat)
    (h : verdict i d cfg iter ≠ .Unsolved ∨ (cfg.maxIter ≠ i.iterations ∧ k ≠ i.iterations)) :
    checkTermination i d (withBudget cfg k) iter = checkTermination i d cfg iter := by
  unfold checkTermination
  rw [verdict_withBudget]
  rcases h with h | ⟨h1, h2⟩
  · rw [if_neg h, if_neg h]
  · split
    · have e1 : (withBudget cfg k).maxIter = k := rfl
      have e2 : (withBudget cfg k).timeLimit = cfg.timeLimit := rfl
      first | rfl | (rw [e1, e2, if_neg h2, if_neg h1]) | (rw [e1, e2, if_neg h2]) | simp [e1, e2, h1, h2]
    · rfl

theorem top_withBudget (cfg : Config α) (k : Nat) (o : PassOracle α) (st : State α)
    (h : checkTermination (topInfo o st) ⟨o.dotBz, o.dotQx⟩ (withBudget cfg k) st.iter
      = checkTermination (topInfo o st) ⟨o.dotBz, o.dotQx⟩ cfg st.iter) :
    top (withBudget cfg k) o st = top cfg o st := by
  unfold top
  simp only
  have hp : ∀ (i : Info α) rows, printStatus (withBudget cfg k) i rows = printStatus cfg i rows := fun _ _ => rfl
  rw [hp]
  unfold topInfo at h
  rw [h]

theorem passDone_withBudget (cfg : Config α) (k : Nat) (st1 : State α) :
    passDone (withBudget cfg k) st1 = passDone cfg st1 := rfl

theorem passStep_withBudget (cfg : Config α) (k : Nat) (o : PassOracle α) (st1 : State α) :
    passStep (withBudget cfg k) o st1 = passStep cfg o st1 := rfl

/-- a pass does not depend on the budget unless the check is exactly at one of the budgets
with no other verdict -/
theorem pass_withBudget (cfg : Config α) (k : Nat) (o : PassOracle α) (st : State α)
    (h : verdict (topInfo o st) ⟨o.dotBz, o.dotQx⟩ cfg st.iter ≠ .Unsolved
      ∨ (cfg.maxIter ≠ st.iter ∧ k ≠ st.iter)) :
    pass (withBudget cfg k) o st = pass cfg o st := by
  have ht := top_withBudget cfg k o st (checkTermination_withBudget cfg k _ _ _ h)
  unfold pass
  rw [ht, passDone_withBudget, passStep_withBudget]

/-- at its budget, with no other verdict, the short run stops with `MaxIterations` and
hands the current iterate to post-processing -/
theorem pass_at_budget (cfg : Config α) (o : PassOracle α) (st : State α)
    (hv : verdict (topInfo o st) ⟨o.dotBz, o.dotQx⟩ cfg st.iter = .Unsolved)
    (hk : cfg.maxIter = st.iter) :
    ∃ st', pass cfg o st = .brk st' ∧ st'.info.status = .MaxIterations ∧ st'.vars = st.vars
      ∧ st'.iter = st.iter := by
  have hs : (top cfg o st).info.status = .MaxIterations := by
    rw [top_info_status_in]
    unfold checkTermination
    have e : verdict (topInfo o st) ⟨o.dotBz, o.dotQx⟩ cfg st.iter = .Unsolved := hv
    unfold topInfo at e
    rw [if_pos e]
    rw [if_pos (by exact hk)]
  obtain ⟨st', h1, h2, h3, h4, _⟩ := pass_done_brk (cfg := cfg) (o := o) (st := st)
    (by rw [hs]; decide) (by rw [hs]; decide)
  exact ⟨st', h1, by rw [h2, hs], h4, h3⟩

/-- run the passes of an oracle list, all of which must continue -/
def advance (cfg : Config α) : List (PassOracle α) → State α → Option (State α)
  | [], st => some st
  | o :: os, st =>
    match pass cfg o st with
    | .cont st' => advance cfg os st'
    | _ => none

/-- how the run with the smaller budget `cfg.maxIter` relates to the run with budget `k'` on
the same oracle answers -/
inductive PrefixRel (cfg : Config α) (k' : Nat) (os : List (PassOracle α)) (st s : State α) : Prop where
  /-- the longer-budget run does exactly the same -/
  | same (h : loop (withBudget cfg k') os st = .done s)
  /-- the short run stops on its budget at a top-of-pass state `sk` which the long run reaches
  too, through identical passes, and returns the iterate of `sk` -/
  | budget (pre : List (PassOracle α)) (o : PassOracle α) (rest : List (PassOracle α)) (sk : State α)
      (hos : os = pre ++ o :: rest)
      (hshort : advance cfg pre st = some sk) (hlong : advance (withBudget cfg k') pre st = some sk)
      (hiter : sk.iter = cfg.maxIter) (hvars : s.vars = sk.vars) (hstatus : s.info.status = .MaxIterations)
      (hiter' : s.iter = sk.iter)

theorem prefix_loop (cfg : Config α) (k' : Nat) (hk : cfg.maxIter ≤ k') :
    ∀ (os : List (PassOracle α)) (st s : State α), st.iter ≤ cfg.maxIter →
      loop cfg os st = .done s → PrefixRel cfg k' os st s
  | [], st, s, _, h => by unfold loop at h; cases h
  | o :: os, st, s, hi, h => by
    by_cases hcase : verdict (topInfo o st) ⟨o.dotBz, o.dotQx⟩ cfg st.iter ≠ .Unsolved
        ∨ (cfg.maxIter ≠ st.iter ∧ k' ≠ st.iter)
    · -- the pass is budget independent
      have hp := pass_withBudget cfg k' o st hcase
      unfold loop at h
      cases hpass : pass cfg o st with
      | brk s' =>
        rw [hpass] at h; cases h
        exact .same (by unfold loop; rw [hp, hpass])
      | panic m => rw [hpass] at h; cases h
      | cont st' =>
        rw [hpass] at h
        have hi' : st'.iter ≤ cfg.maxIter := (budget_cont hi (pass_cont hpass)).2
        cases prefix_loop cfg k' hk os st' s hi' h with
        | same hl => exact .same (by unfold loop; rw [hp, hpass]; exact hl)
        | budget pre o' rest sk hos hs hl h1 h2 h3 h4 =>
          refine .budget (o :: pre) o' rest sk (by rw [hos]; rfl) ?_ ?_ h1 h2 h3 h4
          · unfold advance; rw [hpass]; exact hs
          · unfold advance; rw [hp, hpass]; exact hl
    · -- no other verdict, and the iteration count sits at one of the two budgets
      have hv : verdict (topInfo o st) ⟨o.dotBz, o.dotQx⟩ cfg st.iter = .Unsolved := by
        by_cases hh : verdict (topInfo o st) ⟨o.dotBz, o.dotQx⟩ cfg st.iter = .Unsolved
        · exact hh
        · exact absurd (Or.inl hh) hcase
      have hk2 : cfg.maxIter = st.iter := by
        by_cases hh : cfg.maxIter = st.iter
        · exact hh
        · have : k' ≠ st.iter := by omega
          exact absurd (Or.inr ⟨hh, this⟩) hcase
      obtain ⟨s', h1, h2, h3, h4⟩ := pass_at_budget cfg o st hv hk2
      unfold loop at h
      rw [h1] at h
      cases h
      exact .budget [] o os st rfl rfl rfl hk2.symm h3 h2 h4

end Clarabel.Loop
