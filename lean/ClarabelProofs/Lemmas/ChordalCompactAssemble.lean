/-
  `find_compact_A_b_and_cones` : bounds on the new rows, assembly of `A_new` (`new_from_triplets`)
  and `b_new` (`SparseVector -> Vec`), no panic.
-/
import ClarabelProofs.Lemmas.ChordalCompactMain
import ClarabelProofs.Lemmas.CscBasic
import ClarabelProofs.Lemmas.CscSort

namespace Clarabel.Chordal
open Clarabel.C16 Clarabel.Csc
variable {α : Type}

/-! ## bounds -/

theorem blockRow_lt (p : SPattern) (hp : ValidPattern p) (row0 i x y : Nat) (hi : i < p.sntree.nCliques)
    (hxy : x ≤ y) (hy : y < (p.cliqueO i).length) : p.blockRow row0 i x y < row0 + p.totalRows := by
  have hf := cliqueFacts p hp i hi
  have h1 := coord_index_lt hxy hy
  rw [hf.clique_len] at h1
  have h1' : coordToUpperTriangularIndex (x, y) < p.blk i := h1
  have h2 := descSum_succ p.blk p.sntree.nCliques (p.sntree.nCliques - 1 - i)
  rw [show p.sntree.nCliques - 1 - (p.sntree.nCliques - 1 - i) = i by omega] at h2
  have h3 := descSum_mono p.blk p.sntree.nCliques (p.sntree.nCliques - 1 - i + 1) p.sntree.nCliques (by omega)
  unfold SPattern.blockRow SPattern.rowStart SPattern.totalRows
  omega

theorem ChordalInfo.newStart_succ_none (ci : ChordalInfo) (c : Nat) (h : ci.patAt c = none) :
    ci.newStart (c + 1) = ci.newStart c + ci.nv c := by
  unfold ChordalInfo.newStart
  rw [ci.layoutAt_succ]
  unfold ChordalInfo.layoutStep
  have : ci.nextPattern? (ci.layoutAt c).1 c = none := h
  rw [this]

theorem ChordalInfo.newStart_succ_some (ci : ChordalInfo) (c : Nat) (p : SPattern) (h : ci.patAt c = some p) :
    ci.newStart (c + 1) = ci.newStart c + p.totalRows := by
  unfold ChordalInfo.newStart
  rw [ci.layoutAt_succ]
  unfold ChordalInfo.layoutStep
  have : ci.nextPattern? (ci.layoutAt c).1 c = some p := h
  rw [this]

theorem ChordalInfo.newStart_le_dim (ci : ChordalInfo) (c : Nat) (hc : c ≤ ci.initCones.size) :
    ci.newStart c ≤ ci.newStart ci.initCones.size := by
  have := ci.newStart_mono c (ci.initCones.size - c)
  rwa [show c + (ci.initCones.size - c) = ci.initCones.size by omega] at this

/-- a new row is a row of the compact problem -/
theorem NewRow.lt_dim {ci : ChordalInfo} (hv : ValidInfo ci) {r val : Nat} (h : NewRow ci r val) :
    val < ci.newStart ci.initCones.size := by
  obtain ⟨c, hc, h1, h2, h3⟩ := h
  have hle := ci.newStart_le_dim (c + 1) (by omega)
  rcases h3 with ⟨hp, rfl⟩ | ⟨p, hp, i, x, y, hi, hxy, hy, _, _, rfl⟩
  · rw [ci.newStart_succ_none c hp] at hle; omega
  · rw [ci.newStart_succ_some c p hp] at hle
    have := blockRow_lt p (hv.pat c hc p hp).1 (ci.newStart c) i x y hi hxy hy
    omega

theorem OvTarget.lt_dim {ci : ChordalInfo} (hv : ValidInfo ci) {nnz slot val : Nat}
    (h : OvTarget ci nnz slot val) : val < ci.newStart ci.initCones.size := by
  obtain ⟨c, p, i, j, x, y, x', y', hc, hp, hi, hpar, hxy, hy, _, _, hxy', hy', _, _, halt⟩ := h
  have hle := ci.newStart_le_dim (c + 1) (by omega)
  rw [ci.newStart_succ_some c p hp] at hle
  have hvp := (hv.pat c hc p hp).1
  rcases halt with ⟨_, rfl⟩ | ⟨_, rfl⟩
  · have := blockRow_lt p hvp (ci.newStart c) i x y (by omega) hxy hy; omega
  · have := blockRow_lt p hvp (ci.newStart c) j x' y' hpar.1 hxy' hy'; omega

/-! ## `new_from_triplets` (re-proved here from C16's lemmas: on in-range triplets it succeeds and
the dense entry is the sum of the triplet values at that position) -/

theorem newFromTriplets_ok [AddMonoid α] (m n : Nat) (I J : Array Nat) (V : Array α)
    (hIJ : I.size = J.size) (hIV : I.size = V.size)
    (hJ : ∀ c ∈ J.toList, c < n) (hI : ∀ r ∈ I.toList, r < m) :
    ∃ R, newFromTriplets m n I J V = .ok R ∧ Canonical R ∧ R.m = m ∧ R.n = n ∧
      ∀ i j, j < n → R.toDense i j =
        (((I.toList.zip (J.toList.zip V.toList)).filter
          (fun t => t.1 == i && t.2.1 == j)).map (·.2.2)).sum := by
  have hJ' : (J.toList.any (fun c => decide (c > n))) = false := by
    rw [List.any_eq_false]
    intro c hc
    have := hJ c hc
    simp; omega
  refine ⟨ofCols m n ((List.range n).map (fun c => dedupeRows (sortByRow
    (((I.toList.zip (J.toList.zip V.toList)).filter (fun t => t.2.1 == c)).map
      (fun t => (t.1, t.2.2)))))), ?_, ?_, rfl, rfl, ?_⟩
  · unfold newFromTriplets
    simp only [hIJ, ← hIV, bne_self_eq_false, Bool.or_self, Bool.false_eq_true, ↓reduceIte, hJ']
    rfl
  · apply canonical_ofCols
    · simp
    · intro c hc
      simp only [List.mem_map, List.mem_range] at hc
      obtain ⟨j, _, rfl⟩ := hc
      apply colOK_dedupe_sort
      intro e he
      simp only [List.mem_map, List.mem_filter] at he
      obtain ⟨t, ⟨ht, _⟩, rfl⟩ := he
      exact hI _ (List.of_mem_zip ht).1
  · intro i j hj
    rw [toDense_eq_sum_colVals, col_ofCols _ _ _ j (by simpa using hj)]
    simp only [List.getElem_map, List.getElem_range]
    rw [colVals_sum_dedupeRows, colVals_sortByRow]
    unfold colVals
    rw [List.filter_map, List.filter_filter, List.map_map]
    rfl

/-! ## `SparseVector -> Vec` -/

/-- the scatter loop that builds `b_new`: no panic when every target index is in range; a row that
is nobody's target stays `0`; a target row holds the value of the LAST index mapped to it -/
theorem scatter_spec [OfNat α 0] (dim : Nat) (baI : Array Nat) (bVal : List α) (n : Nat)
    (hlt : ∀ k, k < n → baI.getD k 0 < dim) :
    ∃ v, (List.range n).foldlM (fun (v : Array α) k =>
        setE v (baI.getD k 0) (bVal.getD k 0) "sparsevector.into") (Array.replicate dim 0) = .ok v ∧
      v.size = dim ∧
      (∀ r, (∀ k, k < n → baI.getD k 0 ≠ r) → v.getD r 0 = 0) ∧
      (∀ k, k < n → (∀ k', k < k' → k' < n → baI.getD k' 0 ≠ baI.getD k 0) →
        v.getD (baI.getD k 0) 0 = bVal.getD k 0) := by
  have := foldlM_inv (fun (v : Array α) k =>
      setE v (baI.getD k 0) (bVal.getD k 0) "sparsevector.into") (List.range n)
    (fun i v => i ≤ n → (v.size = dim ∧
      (∀ r, (∀ k, k < i → baI.getD k 0 ≠ r) → v.getD r 0 = 0) ∧
      (∀ k, k < i → (∀ k', k < k' → k' < i → baI.getD k' 0 ≠ baI.getD k 0) →
        v.getD (baI.getD k 0) 0 = bVal.getD k 0))) (Array.replicate dim 0)
    (fun _ => ⟨by simp, fun r _ => by simp [Array.getD], fun k hk => by omega⟩)
    (by
      intro i hi v hv
      simp only [List.length_range] at hi
      obtain ⟨h1, h2, h3⟩ := hv (by omega)
      simp only [List.getElem_range]
      refine ⟨_, setE_ok v _ _ _ (by rw [h1]; exact hlt i hi), fun _ => ⟨by simpa using h1, ?_, ?_⟩⟩
      · intro r hr
        rw [getD_setIfInBounds', if_neg (fun hh => hr i (by omega) hh.1)]
        exact h2 r (fun k hk => hr k (by omega))
      · intro k hk hlast
        rw [getD_setIfInBounds']
        rcases Nat.lt_succ_iff_lt_or_eq.1 hk with h | h
        · rw [if_neg (fun hh => hlast i h (by omega) hh.1)]
          exact h3 k h (fun k' hk1 hk2 => hlast k' hk1 (by omega))
        · subst h
          rw [if_pos ⟨rfl, by rw [h1]; exact hlt k hi⟩])
  obtain ⟨v, hv, hI⟩ := this
  simp only [List.length_range] at hI
  exact ⟨v, hv, hI (Nat.le_refl _)⟩

/-! ## the assembled result -/

/-- `find_compact_A_b_and_cones` on valid input does not panic; `A_new` is the canonical
`dim × (n + n_overlaps)` matrix whose dense entries are the sums of the triplets (described by
`findCompactTriplets_spec`), `b_new` scatters the non-zeros of `b` to their new rows -/
theorem findCompactAbAndCones_spec [Ring α] [BEq α] (ci : ChordalInfo) (A : Csc α)
    (b : Array α) (H : CompactHyp ci A (bIndOf b)) (hnz : A.colptr.getD A.n 0 ≤ A.nzval.size)
    (hpos : A.colptr.getD A.n 0 + 2 * ci.ovBefore ci.initCones.size ≠ 0) :
    ∃ tr Anew bnew, findCompactTriplets ci A b = .ok tr ∧
      findCompactAbAndCones ci A b = .ok (Anew, bnew, tr.conesNew, tr.coneMaps) ∧
      Canonical Anew ∧ Anew.m = tr.dim ∧ Anew.n = A.n + tr.nOverlaps ∧
      (∀ i j, j < A.n + tr.nOverlaps → Anew.toDense i j =
        (((tr.AaI.toList.zip (tr.AaJ.toList.zip tr.AaV.toList)).filter
          (fun t => t.1 == i && t.2.1 == j)).map (·.2.2)).sum) ∧
      bnew.size = tr.dim ∧
      (∀ r, (∀ k, k < tr.bInd.size → tr.baI.getD k 0 ≠ r) → bnew.getD r 0 = 0) ∧
      (∀ k, k < tr.bInd.size →
        (∀ k', k < k' → k' < tr.bInd.size → tr.baI.getD k' 0 ≠ tr.baI.getD k 0) →
        bnew.getD (tr.baI.getD k 0) 0 = tr.bVal.getD k 0) := by
  obtain ⟨tr, htr, hdim, hnov, hsz, hJ, hV, hbI, hbV, hbsz, hA, hO, hB, _, _⟩ :=
    findCompactTriplets_spec ci A b H hnz hpos
  have hJlen := findnzJ_length A H.wf
  have hszJ : tr.AaJ.size = A.colptr.getD A.n 0 + 2 * tr.nOverlaps := by
    rw [hJ, Array.size_append, List.size_toArray, List.size_toArray, hJlen, pairs_length _ _ (fun _ => rfl)]
  have hszV : tr.AaV.size = A.colptr.getD A.n 0 + 2 * tr.nOverlaps := by
    have e1 : ((List.range tr.nOverlaps).flatMap (fun _ => [(1 : α), -1])).toArray.size = 2 * tr.nOverlaps := by
      rw [List.size_toArray]; exact pairs_length _ _ (fun _ => rfl)
    rw [hV, Array.size_append, e1, Array.size_extract]
    omega
  obtain ⟨Anew, hAnew, hcan, hm, hn, hdense⟩ := newFromTriplets_ok tr.dim (A.n + tr.nOverlaps) tr.AaI tr.AaJ tr.AaV
    (by rw [hsz, hszJ]) (by rw [hsz, hszV])
    (by
      intro c hc
      rw [hJ, Array.toList_append, List.mem_append] at hc
      rcases hc with hc | hc
      · simp only [List.mem_flatMap, List.mem_range, List.mem_replicate] at hc
        obtain ⟨c', hc', _, rfl⟩ := hc
        omega
      · simp only [List.mem_flatMap, List.mem_range, List.mem_cons, List.not_mem_nil, or_false, or_self] at hc
        obtain ⟨o, ho, rfl⟩ := hc
        omega)
    (by
      intro r hr
      obtain ⟨x, hx, rfl⟩ := List.getElem_of_mem hr
      have hx' : x < tr.AaI.size := by simpa using hx
      have hgd : tr.AaI.toList[x] = tr.AaI.getD x 0 := by simp [Array.getD, hx']
      rw [hgd, hdim]
      rcases Nat.lt_or_ge x (A.colptr.getD A.n 0) with h | h
      · exact (hA x h).lt_dim H.valid
      · exact (hO x h (by omega)).lt_dim H.valid)
  obtain ⟨bnew, hbnew, hbs, hb0, hb1⟩ := scatter_spec tr.dim tr.baI tr.bVal tr.bInd.size (by
    intro k hk
    rw [hbI] at hk
    rw [hdim]
    exact (hB k hk).lt_dim H.valid)
  refine ⟨tr, Anew, bnew, htr, ?_, hcan, hm, hn, hdense, hbs, hb0, hb1⟩
  unfold findCompactAbAndCones
  rw [htr]
  simp only [bind, Except.bind]
  rw [hAnew]
  simp only
  rw [hbnew]
  rfl

end Clarabel.Chordal
