/-
  C07, round 3: `calc_step_length` + `add_step` over a composite cone keep the iterate strictly
  inside `K × K*` (helper lemmas for `Props/C07.lean`; model `ClarabelModel/StepK.lean`).

  Composes C15's per-cone step-length theorems (`Props/C15.lean`) — nothing is re-proved here.
-/
import ClarabelModel.StepK
import ClarabelProofs.Props.C15
import ClarabelProofs.Lemmas.LoopStep
import ClarabelProofs.Lemmas.LoopSoc

namespace Clarabel.Composite

set_option linter.unusedSectionVars false

section General
variable {α : Type} [Field α] [LinearOrder α] [IsStrictOrderedRing α] [FloatLike α]
  [LawfulFloatLike α]

/-- what the composite needs from a cone to keep the running step nonnegative -/
def StepNonneg (c : ConeFn α) : Prop :=
  ∀ a, 0 ≤ a → ∀ r, c.stepLength a = .ok r → 0 ≤ r.1 ∧ 0 ≤ r.2

/-- `inner_general` with signs: started from `a ≥ 0` over cones that answer `≥ 0`, the result is
in `[0, a]` and every visited cone was asked with some `a' ∈ [0, a]` and answered above it -/
theorem inner_signed (cones : List (ConeFn α)) (symcond : Bool)
    (hnn : ∀ c ∈ cones, StepNonneg c) :
    ∀ (a m : α), 0 ≤ a → inner cones symcond a = .ok m →
      0 ≤ m ∧ m ≤ a ∧ ∀ c ∈ cones, (c.symmetric == symcond) = false →
        ∃ a' r, 0 ≤ a' ∧ a' ≤ a ∧ c.stepLength a' = .ok r ∧ m ≤ r.1 ∧ m ≤ r.2 ∧ m ≤ a' := by
  induction cones with
  | nil =>
    intro a m ha h
    simp only [inner, List.foldlM_nil, pure, Except.pure, Except.ok.injEq] at h
    subst h
    exact ⟨ha, le_refl _, fun c hc => absurd hc List.not_mem_nil⟩
  | cons d t ih =>
    intro a m ha h
    have iht := ih (fun c hc => hnn c (List.mem_cons_of_mem _ hc))
    simp only [inner, List.foldlM_cons] at h
    by_cases hs : (d.symmetric == symcond) = true
    · simp only [hs, ↓reduceIte, pure, Except.pure, bind, Except.bind] at h
      obtain ⟨h0, h1, h2⟩ := iht a m ha h
      refine ⟨h0, h1, fun c hc hcs => ?_⟩
      rcases List.mem_cons.mp hc with rfl | hc
      · rw [hs] at hcs; cases hcs
      · exact h2 c hc hcs
    · simp only [hs, Bool.false_eq_true, ↓reduceIte, bind, Except.bind] at h
      cases hd : d.stepLength a with
      | error e => rw [hd] at h; cases h
      | ok r =>
        rw [hd] at h
        simp only [pure, Except.pure] at h
        have hfe : fmin a (fmin r.1 r.2) = min a (min r.1 r.2) := by
          rw [LawfulFloatLike.fmin_eq, LawfulFloatLike.fmin_eq]
        rw [hfe] at h
        obtain ⟨r0, r1⟩ := hnn d List.mem_cons_self a ha r hd
        have hge : 0 ≤ min a (min r.1 r.2) := le_min ha (le_min r0 r1)
        obtain ⟨h0, h1, h2⟩ := iht _ m hge h
        have hle : min a (min r.1 r.2) ≤ a := min_le_left _ _
        refine ⟨h0, le_trans h1 hle, fun c hc hcs => ?_⟩
        rcases List.mem_cons.mp hc with rfl | hc
        · refine ⟨a, r, ha, le_refl _, hd, ?_, ?_, le_trans h1 hle⟩
          · exact le_trans h1 (le_trans (min_le_right _ _) (min_le_left _ _))
          · exact le_trans h1 (le_trans (min_le_right _ _) (min_le_right _ _))
        · obtain ⟨a', r', ha0, ha', hr', g1, g2, g3⟩ := h2 c hc hcs
          exact ⟨a', r', ha0, le_trans ha' hle, hr', g1, g2, g3⟩

/-- [F] `CompositeCone::step_length` with signs: for `αmax ≥ 0`, `max_step_fraction ≥ 0` and cones
that answer `≥ 0` when asked with `≥ 0`, the common value `m` lies in `[0, αmax]`, `m ≤
max_step_fraction` when a nonsymmetric cone is present, and every cone was asked with some
`a' ∈ [0, αmax]` and answered with a pair `≥ m`. -/
theorem stepLength_signed (cones : List (ConeFn α)) (msf amax : α) (r : α × α)
    (hnn : ∀ c ∈ cones, StepNonneg c) (ham : 0 ≤ amax) (hmsf : 0 ≤ msf)
    (h : stepLength cones msf amax = .ok r) :
    r.1 = r.2 ∧ 0 ≤ r.1 ∧ r.1 ≤ amax ∧ (cones.all (·.symmetric) = false → r.1 ≤ msf) ∧
      ∀ c ∈ cones, ∃ a' rc, 0 ≤ a' ∧ a' ≤ amax ∧ c.stepLength a' = .ok rc ∧ r.1 ≤ rc.1 ∧
        r.1 ≤ rc.2 := by
  unfold stepLength at h
  cases h1 : inner cones true amax with
  | error e => rw [h1] at h; cases h
  | ok a1 =>
    rw [h1] at h
    simp only [bind, Except.bind] at h
    set a2 := (if !cones.all (·.symmetric) then fmin msf a1 else a1) with ha2
    cases h3 : inner cones false a2 with
    | error e => rw [h3] at h; cases h
    | ok a3 =>
      rw [h3] at h
      simp only [pure, Except.pure, Except.ok.injEq] at h
      subst h
      obtain ⟨g0, g1, g2⟩ := inner_signed cones true hnn amax a1 ham h1
      have ha21 : a2 ≤ a1 := by
        rw [ha2]; split
        · rw [LawfulFloatLike.fmin_eq]; exact min_le_right _ _
        · exact le_refl _
      have ha20 : 0 ≤ a2 := by
        rw [ha2]; split
        · rw [LawfulFloatLike.fmin_eq]; exact le_min hmsf g0
        · exact g0
      obtain ⟨g3, g4, g5⟩ := inner_signed cones false hnn a2 a3 ha20 h3
      refine ⟨rfl, g3, le_trans g4 (le_trans ha21 g1), ?_, ?_⟩
      · intro hall
        refine le_trans g4 ?_
        rw [ha2, hall]
        simp only [Bool.not_false, ↓reduceIte, LawfulFloatLike.fmin_eq]
        exact min_le_left _ _
      · intro c hc
        by_cases hs : c.symmetric = true
        · obtain ⟨a', rc, k0, k1, k2, k3, k4, _⟩ := g5 c hc (by simp [hs])
          exact ⟨a', rc, k0, le_trans k1 (le_trans ha21 g1), k2, k3, k4⟩
        · have hs' : c.symmetric = false := by simpa using hs
          obtain ⟨a', rc, k0, k1, k2, k3, k4, _⟩ := g2 c hc (by simp [hs'])
          have : a3 ≤ a1 := le_trans g4 ha21
          exact ⟨a', rc, k0, k1, k2, le_trans this k3, le_trans this k4⟩

end General
end Clarabel.Composite

namespace Clarabel.StepK
open Clarabel Nonsym Loop.Step

/-! ## interior points, block by block -/

/-- `(z, s)` of the block lies strictly inside `K* × K` — for the cone kinds covered at full
strength (zero: no condition; nonnegative; second-order of any dimension; exponential; power with
`0 < a < 1`).  Generalised power and PSD blocks are *not* covered by this predicate (they have
their own one-step theorems). -/
def Blk.Interior : Blk ℝ → Prop
  | .zero .. => True
  | .nn z s _ _ => z.size = s.size ∧ (∀ v ∈ z.toList, 0 < v) ∧ (∀ v ∈ s.toList, 0 < v)
  | .soc z s _ _ => ∃ z0 z1 s0 s1, z.toList = z0 :: z1 ∧ s.toList = s0 :: s1 ∧
      Soc.Interior z0 z1 ∧ Soc.Interior s0 s1
  | .exp z s _ _ => C14.ExpDualInterior z.1 z.2.1 z.2.2 ∧ C14.ExpPrimalInterior s.1 s.2.1 s.2.2
  | .pow a z s _ _ => 0 < a ∧ a < 1 ∧ C14.PowDualInterior a z.1 z.2.1 z.2.2 ∧
      C14.PowPrimalInterior a s.1 s.2.1 s.2.2
  | .genpow .. => False
  | .psd .. => False

/-- the direction has the shape of the iterate (`step.z.len() == z.len()` …) -/
def Blk.DirOk {α : Type} : Blk α → Prop
  | .zero .. => True
  | .nn z s dz ds => dz.size = z.size ∧ ds.size = s.size
  | .soc z s dz ds => dz.size = z.size ∧ ds.size = s.size
  | .exp .. => True
  | .pow .. => True
  | .genpow _ z s dz ds => dz.size = z.size ∧ ds.size = s.size
  | .psd _ _ _ z s dz ds => dz.size = z.size ∧ ds.size = s.size

/-- same cone, same `(z, s)`; any direction -/
inductive Blk.SamePoint {α : Type} : Blk α → Blk α → Prop
  | zero (z s dz ds dz' ds') : SamePoint (.zero z s dz ds) (.zero z s dz' ds')
  | nn (z s dz ds dz' ds') : SamePoint (.nn z s dz ds) (.nn z s dz' ds')
  | soc (z s dz ds dz' ds') : SamePoint (.soc z s dz ds) (.soc z s dz' ds')
  | exp (z s dz ds dz' ds') : SamePoint (.exp z s dz ds) (.exp z s dz' ds')
  | pow (a z s dz ds dz' ds') : SamePoint (.pow a z s dz ds) (.pow a z s dz' ds')
  | genpow (al z s dz ds dz' ds') : SamePoint (.genpow al z s dz ds) (.genpow al z s dz' ds')
  | psd (K γz γs K' γz' γs' z s dz ds dz' ds') :
      SamePoint (.psd K γz γs z s dz ds) (.psd K' γz' γs' z s dz' ds')

theorem Blk.SamePoint.interior {b b' : Blk ℝ} (h : Blk.SamePoint b b') (hI : b.Interior) :
    b'.Interior := by
  cases h <;> exact hI

/-- the whole iterate is interior: `τ, κ > 0` and every block is -/
def Pt.Interior (p : Pt ℝ) : Prop := 0 < p.τ ∧ 0 < p.κ ∧ ∀ b ∈ p.blks, b.Interior

def Pt.DirOk {α : Type} (p : Pt α) : Prop := ∀ b ∈ p.blks, b.DirOk

/-- same iterate `(x, s, z, τ, κ)`, any direction -/
def Pt.SamePoint {α : Type} (p q : Pt α) : Prop :=
  p.x = q.x ∧ p.τ = q.τ ∧ p.κ = q.κ ∧ List.Forall₂ Blk.SamePoint p.blks q.blks

theorem forall2_samePoint_interior {l l' : List (Blk ℝ)} (h : List.Forall₂ Blk.SamePoint l l')
    (hI : ∀ b ∈ l, b.Interior) : ∀ b ∈ l', b.Interior := by
  induction h with
  | nil => intro b hb; cases hb
  | cons hab _ ih =>
    intro b hb
    rcases List.mem_cons.mp hb with rfl | hb
    · exact hab.interior (hI _ List.mem_cons_self)
    · exact ih (fun c hc => hI c (List.mem_cons_of_mem _ hc)) b hb

theorem Pt.SamePoint.interior {p q : Pt ℝ} (h : Pt.SamePoint p q) (hI : p.Interior) :
    q.Interior := by
  obtain ⟨_, hτ, hκ, hb⟩ := h
  exact ⟨hτ ▸ hI.1, hκ ▸ hI.2.1, forall2_samePoint_interior hb hI.2.2⟩

/-! ## list helpers for `add_step` -/

theorem addStepVec_toList (z dz : Array ℝ) (a : ℝ) :
    (addStepVec z dz a).toList = (z.toList.zip dz.toList).map (fun p => p.1 + a * p.2) := by
  simp only [addStepVec, Vec.axpby]
  apply List.map_congr_left
  intro p _
  ring

theorem addStepVec_size (z dz : Array ℝ) (a : ℝ) (h : dz.size = z.size) :
    (addStepVec z dz a).size = z.size := by
  simp [addStepVec, Vec.axpby, h]

theorem map_zip_axpyL (x y : List ℝ) (a : ℝ) :
    (x.zip y).map (fun p => p.1 + a * p.2) = Soc.axpyL x a y := by
  induction x generalizing y with
  | nil => simp [Soc.axpyL]
  | cons h t ih =>
    cases y with
    | nil => simp [Soc.axpyL]
    | cons g u =>
      simp only [List.zip_cons_cons, List.map_cons, Soc.axpyL, List.zipWith_cons_cons]
      congr 1
      exact ih u

/-! ## nonnegative cone -/

theorem nn_stepComponent_nonneg (z dz : List ℝ) :
    ∀ (amax : ℝ), 0 ≤ amax → (∀ p ∈ z.zip dz, 0 < p.1) → 0 ≤ Nonneg.stepComponent amax z dz := by
  unfold Nonneg.stepComponent
  induction (z.zip dz) with
  | nil => intro amax ha _; simpa using ha
  | cons p t ih =>
    intro amax ha hp
    simp only [List.foldl_cons]
    apply ih
    · rw [Nonneg.ratio_eq]
      split
      · rename_i hd
        have h1 : 0 < p.1 := hp p List.mem_cons_self
        exact le_min ha (le_of_lt (div_pos_of_neg_of_neg (by linarith) hd))
      · exact ha
    · intro q hq; exact hp q (List.mem_cons_of_mem _ hq)

/-- strict positivity after a step of at most `f·α*`, `f < 1` -/
theorem nn_step_strict (z dz : List ℝ) (amax a f : ℝ) (hz : ∀ v ∈ z, 0 < v) (ha0 : 0 ≤ a)
    (hf0 : 0 < f) (hf1 : f < 1) (ha : a ≤ f * Nonneg.stepComponent amax z dz) :
    ∀ v ∈ (z.zip dz).map (fun p => p.1 + a * p.2), 0 < v := by
  intro v hv
  obtain ⟨p, hp, rfl⟩ := List.mem_map.mp hv
  have hpos : 0 < p.1 := hz p.1 (List.of_mem_zip hp).1
  by_cases hd : p.2 < 0
  · have h1 := Nonneg.foldl_ratio_le_mem (z.zip dz) amax p hp hd
    have h2 : a ≤ f * (-p.1 / p.2) :=
      le_trans ha (mul_le_mul_of_nonneg_left h1 (le_of_lt hf0))
    have hq : 0 < -p.1 / p.2 := div_pos_of_neg_of_neg (by linarith) hd
    have h3 : a < -p.1 / p.2 := lt_of_le_of_lt h2 (by nlinarith)
    rw [lt_div_iff_of_neg hd] at h3
    linarith
  · have : 0 ≤ a * p.2 := mul_nonneg ha0 (not_lt.mp hd)
    linarith

/-! ## second-order cone -/

theorem soc_component_of_toList (x y : Array ℝ) (x0 : ℝ) (x1 : List ℝ) (y0 : ℝ) (y1 : List ℝ)
    (hx : x.toList = x0 :: x1) (hy : y.toList = y0 :: y1) (amax : ℝ) :
    Soc.stepLengthComponent x y amax = Soc.stepLengthComponentCore x0 x1 y0 y1 amax := by
  simp only [Soc.stepLengthComponent, Soc.split, hx, hy, bind, Except.bind, pure, Except.pure]

/-- a direction of the same size splits like the point -/
theorem toList_cons_of_size (x y : Array ℝ) (x0 : ℝ) (x1 : List ℝ) (hx : x.toList = x0 :: x1)
    (h : y.size = x.size) : ∃ y0 y1, y.toList = y0 :: y1 ∧ x1.length = y1.length := by
  have hl : y.toList.length = x1.length + 1 := by
    rw [Array.length_toList, h, ← Array.length_toList, hx]; rfl
  cases hy : y.toList with
  | nil => rw [hy] at hl; simp at hl
  | cons y0 y1 =>
    rw [hy] at hl
    exact ⟨y0, y1, rfl, by simp at hl; omega⟩

/-- one SOC component: the answer is `≥ 0`, and a step of at most `f·t`, `f < 1`, stays interior -/
theorem soc_component_step (x y : Array ℝ) (x0 : ℝ) (x1 : List ℝ) (hx : x.toList = x0 :: x1)
    (hI : Soc.Interior x0 x1) (hsz : y.size = x.size) (amax t : ℝ) (ham : 0 ≤ amax)
    (h : Soc.stepLengthComponent x y amax = .ok t) :
    0 ≤ t ∧ ∀ a f, 0 ≤ a → 0 < f → f < 1 → a ≤ f * t →
      ∃ w0 w1, (addStepVec x y a).toList = w0 :: w1 ∧ Soc.Interior w0 w1 := by
  obtain ⟨y0, y1, hy, hlen⟩ := toList_cons_of_size x y x0 x1 hx hsz
  rw [soc_component_of_toList x y x0 x1 y0 y1 hx hy] at h
  obtain ⟨t', h1, h2, _, h4, _⟩ := C15.soc_step_safe_tight x0 x1 y0 y1 amax hI hlen ham
  rw [h] at h1
  cases h1
  refine ⟨h2, fun a f ha0 hf0 hf1 hle => ?_⟩
  refine ⟨x0 + a * y0, Soc.axpyL x1 a y1, ?_, ?_⟩
  · rw [addStepVec_toList, hx, hy]
    simp only [List.zip_cons_cons, List.map_cons]
    rw [map_zip_axpyL]
  · by_cases ht : t = 0
    · have : a = 0 := by rw [ht] at hle; simp at hle; linarith
      rw [this, Soc.axpyL_zero x1 y1 hlen]; simpa using hI
    · have htpos : 0 < t := lt_of_le_of_ne h2 (Ne.symm ht)
      have hat : a < t := lt_of_le_of_lt hle (by nlinarith)
      exact Soc.interior_of_segment x0 x1 y0 y1 t a hI hlen (h4 t h2 (le_refl _)) ha0 hat

/-! ## one block: the cone's answer is `≥ 0`; a shorter step stays interior -/

theorem Blk.stepNonneg (ls : LineSearch ℝ) (hs0 : 0 ≤ ls.step) (hs1 : ls.step ≤ 1) (b : Blk ℝ)
    (hI : b.Interior) (hD : b.DirOk) : Composite.StepNonneg (b.coneFn ls) := by
  intro a ha r h
  cases b with
  | zero z s dz ds =>
    simp only [Blk.coneFn, Zero.stepLength, pure, Except.pure, Except.ok.injEq] at h
    subst h; exact ⟨ha, ha⟩
  | nn z s dz ds =>
    obtain ⟨e1, hz, hs⟩ := hI
    obtain ⟨e2, e3⟩ := hD
    simp only [Blk.coneFn, Nonneg.stepLength, e1, e2, e3, ne_eq, not_true_eq_false, ↓reduceIte,
      pure, Except.pure, Except.ok.injEq] at h
    subst h
    exact ⟨nn_stepComponent_nonneg _ _ a ha (fun p hp => hz p.1 (List.of_mem_zip hp).1),
      nn_stepComponent_nonneg _ _ a ha (fun p hp => hs p.1 (List.of_mem_zip hp).1)⟩
  | soc z s dz ds =>
    obtain ⟨z0, z1, s0, s1, hz, hs, hzI, hsI⟩ := hI
    obtain ⟨e2, e3⟩ := hD
    simp only [Blk.coneFn, Soc.stepLength] at h
    cases h1 : Soc.stepLengthComponent z dz a with
    | error e => rw [h1] at h; cases h
    | ok az =>
      cases h2 : Soc.stepLengthComponent s ds a with
      | error e => rw [h1, h2] at h; cases h
      | ok as =>
        rw [h1, h2] at h
        simp only [bind, Except.bind, pure, Except.pure, Except.ok.injEq] at h
        subst h
        exact ⟨(soc_component_step z dz z0 z1 hz hzI e2 a az ha h1).1,
          (soc_component_step s ds s0 s1 hs hsI e3 a as ha h2).1⟩
  | exp z s dz ds =>
    simp only [Blk.coneFn] at h
    obtain ⟨_, _, b1, _, b3, _⟩ := C15.exp_step_in_cone dz ds z s ls.step ls.amin a ls.fuel r.1 r.2 h
      ha hs0 hs1
    exact ⟨b1, b3⟩
  | pow al z s dz ds =>
    obtain ⟨ha0, ha1, _, _⟩ := hI
    simp only [Blk.coneFn] at h
    obtain ⟨_, _, b1, _, b3, _⟩ := C15.pow_step_in_cone ha0 ha1 dz ds z s ls.step ls.amin a ls.fuel
      r.1 r.2 h ha hs0 hs1
    exact ⟨b1, b3⟩
  | genpow al z s dz ds => exact absurd hI id
  | psd K γz γs z s dz ds => exact absurd hI id

theorem addV3_eq (v d : V3 ℝ) (a : ℝ) :
    addV3 v d a = (v.1 + a * d.1, v.2.1 + a * d.2.1, v.2.2 + a * d.2.2) := by
  simp only [addV3, Prod.mk.injEq]
  refine ⟨by ring, by ring, by ring⟩

/-- [R] one block: if the cone, asked with `a' ≥ 0`, answered `(αz, αs)`, then every step
`0 ≤ a ≤ f·min(αz, αs)` with `0 < f < 1` moves the block's `(z, s)` to an interior point -/
theorem Blk.interior_step (ls : LineSearch ℝ) (hs0 : 0 ≤ ls.step) (hs1 : ls.step ≤ 1) (b : Blk ℝ)
    (hI : b.Interior) (hD : b.DirOk) (a' : ℝ) (ha' : 0 ≤ a') (rc : ℝ × ℝ)
    (h : (b.coneFn ls).stepLength a' = .ok rc) (a f : ℝ) (ha0 : 0 ≤ a) (hf0 : 0 < f) (hf1 : f < 1)
    (h1 : a ≤ f * rc.1) (h2 : a ≤ f * rc.2) : (b.addStep a).Interior := by
  obtain ⟨n1, n2⟩ := Blk.stepNonneg ls hs0 hs1 b hI hD a' ha' rc h
  have g1 : a ≤ rc.1 := le_trans h1 (by nlinarith)
  have g2 : a ≤ rc.2 := le_trans h2 (by nlinarith)
  cases b with
  | zero z s dz ds => trivial
  | nn z s dz ds =>
    obtain ⟨e1, hz, hs⟩ := hI
    obtain ⟨e2, e3⟩ := hD
    simp only [Blk.coneFn, Nonneg.stepLength, e1, e2, e3, ne_eq, not_true_eq_false, ↓reduceIte,
      pure, Except.pure, Except.ok.injEq] at h
    subst h
    refine ⟨?_, ?_, ?_⟩
    · rw [addStepVec_size z dz a e2, addStepVec_size s ds a e3, e1]
    · rw [addStepVec_toList]; exact nn_step_strict _ _ a' a f hz ha0 hf0 hf1 h1
    · rw [addStepVec_toList]; exact nn_step_strict _ _ a' a f hs ha0 hf0 hf1 h2
  | soc z s dz ds =>
    obtain ⟨z0, z1, s0, s1, hz, hs, hzI, hsI⟩ := hI
    obtain ⟨e2, e3⟩ := hD
    simp only [Blk.coneFn, Soc.stepLength] at h
    cases k1 : Soc.stepLengthComponent z dz a' with
    | error e => rw [k1] at h; cases h
    | ok az =>
      cases k2 : Soc.stepLengthComponent s ds a' with
      | error e => rw [k1, k2] at h; cases h
      | ok as =>
        rw [k1, k2] at h
        simp only [bind, Except.bind, pure, Except.pure, Except.ok.injEq] at h
        subst h
        obtain ⟨w0, w1, hw, hwI⟩ :=
          (soc_component_step z dz z0 z1 hz hzI e2 a' az ha' k1).2 a f ha0 hf0 hf1 h1
        obtain ⟨v0, v1, hv, hvI⟩ :=
          (soc_component_step s ds s0 s1 hs hsI e3 a' as ha' k2).2 a f ha0 hf0 hf1 h2
        exact ⟨w0, w1, v0, v1, hw, hv, hwI, hvI⟩
  | exp z s dz ds =>
    simp only [Blk.coneFn] at h
    obtain ⟨k1, k2⟩ := C15.exp_step_safe_below dz ds z s ls.step ls.amin a' ls.fuel rc.1 rc.2 h
      hI.1 hI.2
    simp only [Blk.addStep, Blk.Interior, addV3_eq]
    exact ⟨k1 a ha0 g1, k2 a ha0 g2⟩
  | pow al z s dz ds =>
    obtain ⟨p0, p1, hz, hs⟩ := hI
    simp only [Blk.coneFn] at h
    obtain ⟨k1, k2⟩ := C15.pow_step_safe_below p0 p1 dz ds z s ls.step ls.amin a' ls.fuel rc.1 rc.2
      h hz hs
    simp only [Blk.addStep, Blk.Interior, addV3_eq]
    exact ⟨p0, p1, k1 a ha0 g1, k2 a ha0 g2⟩
  | genpow al z s dz ds => exact absurd hI id
  | psd K γz γs z s dz ds => exact absurd hI id


/-! ## the whole iterate -/

theorem coneFn_mem {ls : LineSearch ℝ} {blks : List (Blk ℝ)} {c : Composite.ConeFn ℝ}
    (hc : c ∈ blks.map (Blk.coneFn ls)) : ∃ b ∈ blks, c = b.coneFn ls := by
  obtain ⟨b, hb, rfl⟩ := List.mem_map.mp hc
  exact ⟨b, hb, rfl⟩

theorem coneFn_symmetric (ls : LineSearch ℝ) (b : Blk ℝ) : (b.coneFn ls).symmetric = b.symmetric := by
  cases b <;> rfl

theorem all_symmetric_map (ls : LineSearch ℝ) (blks : List (Blk ℝ)) :
    (blks.map (Blk.coneFn ls)).all (·.symmetric) = blks.all Blk.symmetric := by
  induction blks with
  | nil => rfl
  | cons b t ih => simp only [List.map_cons, List.all_cons, ih, coneFn_symmetric]

/-- the shape of `calc_step_length`'s result -/
theorem calcStepLength_ok (maxValue : ℝ) (ls : LineSearch ℝ) (p : Pt ℝ) (combined : Bool) (f α : ℝ)
    (h : calcStepLength maxValue ls p combined f = .ok α) :
    ∃ r, coneStep ls p.blks f (alphaMax p.τ p.κ p.dτ p.dκ maxValue) = .ok r ∧
      α = if combined then min r.1 r.2 * f else min r.1 r.2 := by
  unfold calcStepLength at h
  dsimp only at h
  cases hr : coneStep ls p.blks f (alphaMax p.τ p.κ p.dτ p.dκ maxValue) with
  | error e => rw [hr] at h; cases h
  | ok r =>
    rw [hr] at h
    simp only [bind, Except.bind, pure, Except.pure, Except.ok.injEq] at h
    exact ⟨r, rfl, h.symm⟩

/-- [R] the cone part of `calc_step_length` from an interior iterate: the composite answer `m` is
in `[0, αmax]`, at most `max_step_fraction` with a nonsymmetric cone, and every block, moved by any
`0 ≤ a ≤ f·m`, is interior again -/
theorem coneStep_interior (ls : LineSearch ℝ) (hs0 : 0 ≤ ls.step) (hs1 : ls.step ≤ 1)
    (blks : List (Blk ℝ)) (hI : ∀ b ∈ blks, b.Interior) (hD : ∀ b ∈ blks, b.DirOk) (f amax : ℝ)
    (hf0 : 0 < f) (hf1 : f < 1) (ham : 0 ≤ amax) (r : ℝ × ℝ) (h : coneStep ls blks f amax = .ok r) :
    r.1 = r.2 ∧ 0 ≤ r.1 ∧ r.1 ≤ amax ∧ (blks.all Blk.symmetric = false → r.1 ≤ f) ∧
      ∀ a, 0 ≤ a → a ≤ f * r.1 → ∀ b ∈ blks, (b.addStep a).Interior := by
  have hnn : ∀ c ∈ blks.map (Blk.coneFn ls), Composite.StepNonneg c := by
    intro c hc
    obtain ⟨b, hb, rfl⟩ := coneFn_mem hc
    exact Blk.stepNonneg ls hs0 hs1 b (hI b hb) (hD b hb)
  obtain ⟨e, g0, g1, g2, g3⟩ :=
    Composite.stepLength_signed _ f amax r hnn ham (le_of_lt hf0) h
  refine ⟨e, g0, g1, ?_, ?_⟩
  · intro hall; exact g2 (by rw [all_symmetric_map]; exact hall)
  · intro a ha0 ha b hb
    obtain ⟨a', rc, k0, _, k2, k3, k4⟩ := g3 (b.coneFn ls) (List.mem_map_of_mem hb)
    exact Blk.interior_step ls hs0 hs1 b (hI b hb) (hD b hb) a' k0 rc k2 a f ha0 hf0 hf1
      (le_trans ha (mul_le_mul_of_nonneg_left k3 (le_of_lt hf0)))
      (le_trans ha (mul_le_mul_of_nonneg_left k4 (le_of_lt hf0)))

/-- [R] **one step preserves the interior.**  From an interior iterate (`τ, κ > 0`, every block
strictly inside its cone and dual cone) and any direction of the right shape, the value `α`
returned by `calc_step_length(Combined)` with `0 < max_step_fraction = f < 1` satisfies
`0 ≤ α ≤ f·min(1, ατ, ακ) ≤ f`, `α ≤ f²` when a nonsymmetric cone is present, and for **every**
`0 ≤ a ≤ α` (the value itself, or what `backtrack_step_to_barrier` makes of it) the point after
`add_step(a)` is interior again, with `τ + a·dτ > 0` and `κ + a·dκ > 0`. -/
theorem interior_step (maxValue : ℝ) (ls : LineSearch ℝ) (hs0 : 0 ≤ ls.step) (hs1 : ls.step ≤ 1)
    (hmax : 0 < maxValue) (p : Pt ℝ) (hI : p.Interior) (hD : p.DirOk) (f α : ℝ) (hf0 : 0 < f)
    (hf1 : f < 1) (h : calcStepLength maxValue ls p true f = .ok α) :
    0 ≤ α ∧ α ≤ f * alphaMax p.τ p.κ p.dτ p.dκ maxValue ∧
      alphaMax p.τ p.κ p.dτ p.dκ maxValue ≤ 1 ∧
      (p.blks.all Blk.symmetric = false → α ≤ f * f) ∧
      ∀ a, 0 ≤ a → a ≤ α → (addStep p a).Interior := by
  obtain ⟨hτ, hκ, hB⟩ := hI
  obtain ⟨hp, h1, hrt, hrk⟩ := alphaMax_bounds p.τ p.κ p.dτ p.dκ maxValue hτ hκ hmax
  obtain ⟨r, hr, hα⟩ := calcStepLength_ok maxValue ls p true f α h
  obtain ⟨e, g0, g1, g2, g3⟩ := coneStep_interior ls hs0 hs1 p.blks hB hD f _ hf0 hf1 (le_of_lt hp) r hr
  have hα' : α = f * r.1 := by
    rw [hα, ← e]; simp only [↓reduceIte, min_self]; ring
  have hαle : α ≤ f * alphaMax p.τ p.κ p.dτ p.dκ maxValue := by
    rw [hα']; exact mul_le_mul_of_nonneg_left g1 (le_of_lt hf0)
  refine ⟨by rw [hα']; exact mul_nonneg (le_of_lt hf0) g0, hαle, h1, ?_, ?_⟩
  · intro hall
    rw [hα']; exact mul_le_mul_of_nonneg_left (g2 hall) (le_of_lt hf0)
  · intro a ha0 ha
    refine ⟨?_, ?_, ?_⟩
    · exact scalar_pos p.τ p.dτ maxValue a f hτ ha0 hf1 hf0
        (le_trans ha (le_trans hαle (mul_le_mul_of_nonneg_left hrt (le_of_lt hf0))))
    · exact scalar_pos p.κ p.dκ maxValue a f hκ ha0 hf1 hf0
        (le_trans ha (le_trans hαle (mul_le_mul_of_nonneg_left hrk (le_of_lt hf0))))
    · intro b hb
      obtain ⟨b0, hb0, rfl⟩ := List.mem_map.mp hb
      exact g3 a ha0 (by rw [← hα']; exact ha) b0 hb0

/-- [R] the affine step length (`StepDirection::Affine`, no `max_step_fraction`) from an interior
iterate lies in `[0, min(1, ατ, ακ)] ⊆ [0, 1]` -/
theorem affine_step_bounds (maxValue : ℝ) (ls : LineSearch ℝ) (hs0 : 0 ≤ ls.step) (hs1 : ls.step ≤ 1)
    (hmax : 0 < maxValue) (p : Pt ℝ) (hI : p.Interior) (hD : p.DirOk) (f α : ℝ) (hf0 : 0 < f)
    (hf1 : f < 1) (h : calcStepLength maxValue ls p false f = .ok α) :
    0 ≤ α ∧ α ≤ alphaMax p.τ p.κ p.dτ p.dκ maxValue ∧ α ≤ 1 := by
  obtain ⟨hτ, hκ, hB⟩ := hI
  obtain ⟨hp, h1, _, _⟩ := alphaMax_bounds p.τ p.κ p.dτ p.dκ maxValue hτ hκ hmax
  obtain ⟨r, hr, hα⟩ := calcStepLength_ok maxValue ls p false f α h
  obtain ⟨e, g0, g1, _, _⟩ := coneStep_interior ls hs0 hs1 p.blks hB hD f _ hf0 hf1 (le_of_lt hp) r hr
  have hα' : α = r.1 := by rw [hα, ← e]; simp
  rw [hα']
  exact ⟨g0, g1, le_trans g1 h1⟩

/-! ## accepted steps and trajectories -/

/-- what `get_step_length(Combined)` may return given `calc_step_length`'s value `α`: `α` itself,
or (nonsymmetric cones, `Dual` strategy) `backtrack_step_to_barrier(α)` for *some* barrier test -/
def Backtracked (btStep α a : ℝ) : Prop := a = α ∨ ∃ ok : ℝ → Bool, a = backtrack btStep ok 50 α

theorem Backtracked.le {btStep α a : ℝ} (h : Backtracked btStep α a) (hb0 : 0 < btStep)
    (hb1 : btStep ≤ 1) (hα : 0 ≤ α) : 0 ≤ a ∧ a ≤ α ∧ (0 < α → 0 < a) := by
  rcases h with rfl | ⟨ok, rfl⟩
  · exact ⟨hα, le_refl _, id⟩
  · rcases eq_or_lt_of_le hα with h0 | hpos
    · -- α = 0: every contraction of 0 is 0
      have hz : ∀ n, backtrack btStep ok n (0 : ℝ) = 0 := by
        intro n
        induction n with
        | zero => rfl
        | succ n ih => unfold backtrack; split; · rfl
                       · rw [mul_zero]; exact ih
      rw [← h0, hz]
      exact ⟨le_refl _, le_refl _, fun h => absurd h (lt_irrefl _)⟩
    · obtain ⟨k1, k2⟩ := backtrack_bounds btStep ok hb0 hb1 50 α hpos
      exact ⟨le_of_lt k1, k2, fun _ => k1⟩

/-- the settings the step acceptance reads -/
structure StepCfg where
  maxValue : ℝ
  ls : LineSearch ℝ
  /-- `max_step_fraction` -/
  f : ℝ
  /-- `linesearch_backtrack_step` as used by `backtrack_step_to_barrier` -/
  btStep : ℝ

def StepCfg.Ok (c : StepCfg) : Prop :=
  0 < c.maxValue ∧ 0 ≤ c.ls.step ∧ c.ls.step ≤ 1 ∧ 0 < c.f ∧ c.f < 1 ∧ 0 < c.btStep ∧ c.btStep ≤ 1

/-- one pass of the loop that ends in `add_step`: the numerics supply a direction `q` for the
current iterate `p` (any direction of the right shape), `calc_step_length` returns `α`,
`get_step_length` returns `a` (`α` or a barrier back-track of it), the small-step checkpoint lets
`a` through, and `add_step(a)` gives `p'` -/
def AcceptedPass (c : StepCfg) (cfg : Loop.Config ℝ) (sc : Loop.Scaling) (p p' : Pt ℝ) : Prop :=
  ∃ q α a, Pt.SamePoint p q ∧ q.DirOk ∧ calcStepLength c.maxValue c.ls q true c.f = .ok α ∧
    Backtracked c.btStep α a ∧ acceptStep cfg sc q a = some p'

/-- the iterates of one solve, most recent first: the start point; `add_step` after an accepted
pass; `reset_to_prev_iterate` (back to the iterate before the last `add_step`).  Passes that end
in `continue`/`break` before `add_step` leave the iterate as it is. -/
inductive Traj (c : StepCfg) (cfg : Loop.Config ℝ) (p0 : Pt ℝ) : List (Pt ℝ) → Prop
  | start : Traj c cfg p0 [p0]
  | step {p p' : Pt ℝ} {hist : List (Pt ℝ)} (sc : Loop.Scaling) :
      Traj c cfg p0 (p :: hist) → AcceptedPass c cfg sc p p' → Traj c cfg p0 (p' :: p :: hist)
  | rollback {p q : Pt ℝ} {hist : List (Pt ℝ)} :
      Traj c cfg p0 (p :: q :: hist) → Traj c cfg p0 (q :: p :: q :: hist)

theorem acceptStep_some {cfg : Loop.Config ℝ} {sc : Loop.Scaling} {q p' : Pt ℝ} {a : ℝ}
    (h : acceptStep cfg sc q a = some p') :
    Loop.cpSmallStep cfg a sc = .NoUpdate ∧ p' = addStep q a := by
  unfold acceptStep at h
  split at h
  · rename_i hc
    exact ⟨hc, (Option.some.inj h).symm⟩
  · cases h

/-- [R] an accepted pass from an interior iterate: `0 < a ≤ α ≤ f·min(1, ατ, ακ) < 1`, and the new
iterate is interior -/
theorem AcceptedPass.interior {c : StepCfg} (hc : c.Ok) {cfg : Loop.Config ℝ} {sc : Loop.Scaling}
    {p p' : Pt ℝ} (h : AcceptedPass c cfg sc p p') (hI : p.Interior) :
    p'.Interior ∧ ∃ q α a, Pt.SamePoint p q ∧ p' = addStep q a ∧
      calcStepLength c.maxValue c.ls q true c.f = .ok α ∧
      0 < a ∧ cfg.minTerminateStepLength < a ∧ a ≤ α ∧
      α ≤ c.f * alphaMax q.τ q.κ q.dτ q.dκ c.maxValue ∧ α ≤ c.f ∧ a < 1 := by
  obtain ⟨hm, hs0, hs1, hf0, hf1, hb0, hb1⟩ := hc
  obtain ⟨q, α, a, hsp, hD, hcalc, hbt, hacc⟩ := h
  obtain ⟨hnu, rfl⟩ := acceptStep_some hacc
  have hIq := hsp.interior hI
  obtain ⟨k0, k1, k2, _, k4⟩ := interior_step c.maxValue c.ls hs0 hs1 hm q hIq hD c.f α hf0 hf1 hcalc
  obtain ⟨b0, b1, _⟩ := hbt.le hb0 hb1 k0
  -- the checkpoint
  have hpos : 0 < a ∧ cfg.minTerminateStepLength < a := by
    unfold Loop.cpSmallStep at hnu
    split at hnu
    · cases hnu
    · split at hnu
      · cases hnu
      · rename_i hle
        have hle' : ¬ a ≤ max 0 cfg.minTerminateStepLength := hle
        have := not_le.mp hle'
        exact ⟨lt_of_le_of_lt (le_max_left _ _) this, lt_of_le_of_lt (le_max_right _ _) this⟩
  have hαf : α ≤ c.f := le_trans k1 (by nlinarith)
  exact ⟨k4 a b0 b1, q, α, a, hsp, rfl, hcalc, hpos.1, hpos.2, b1, k1, hαf,
    lt_of_le_of_lt (le_trans b1 hαf) hf1⟩

/-- [R] **every iterate of every solve is interior** (cone kinds of `Blk.Interior`) -/
theorem Traj.interior {c : StepCfg} (hc : c.Ok) {cfg : Loop.Config ℝ} {p0 : Pt ℝ}
    (h0 : p0.Interior) {l : List (Pt ℝ)} (h : Traj c cfg p0 l) : ∀ p ∈ l, p.Interior := by
  induction h with
  | start => intro p hp; simp only [List.mem_singleton] at hp; exact hp ▸ h0
  | step sc _ hpass ih =>
    intro p hp
    rcases List.mem_cons.mp hp with rfl | hp
    · exact (hpass.interior hc (ih _ List.mem_cons_self)).1
    · exact ih p hp
  | rollback _ ih =>
    intro p hp
    rcases List.mem_cons.mp hp with rfl | hp
    · exact ih _ (List.mem_cons_of_mem _ List.mem_cons_self)
    · exact ih p hp

end Clarabel.StepK
