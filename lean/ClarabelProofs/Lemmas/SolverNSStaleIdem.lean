/-
  Solving twice on the whole-solver model WITH NONSYMMETRIC CONES (C05) — the assembly: from the
  structural invariant of the solver object (`SolverInv`, C04: `Lemmas/SolverNSNoPanic*.lean`), the
  invariant of its linear-solver object (`KktOk`) and the frames of a whole `solve()` (the cone
  objects keep their shape: `solve_conesShape`; the linear-solver object changes only in what the
  next `update` rewrites: `solve_kstepN`) to the relation `Stale` between the object a `solve()`
  started from and the object it left — and so, by `solve_rel`, to "the second `solve()` gives the
  observable result of the first".  All structural ([S]).
-/
import ClarabelProofs.Lemmas.SolverNSStaleSolve
import ClarabelProofs.Lemmas.SolverNSStaleFrame
import ClarabelProofs.Lemmas.SolverNSQwUpdate
import ClarabelProofs.Lemmas.SolverNSQwFrame
import ClarabelProofs.Lemmas.SolverNSQwNew
import ClarabelProofs.Lemmas.SolverNSNormTransparent

namespace Clarabel.SolverNS
open Clarabel Info Residuals
open Clarabel.Solver (RelM SameFrom VarsShape StepShape ResidShape ListRel KRel KktSolver KktSys
  LinSettings QB Upd KInv LdlInv InfoEqv carryPrev PrevEq VarsXSZ SolShape VarsSized ResidSized DataOK
  KSized SolutionSized FmaxOK)

set_option linter.unusedSectionVars false
set_option linter.unusedVariables false

variable {α : Type}

section
variable [Add α] [Sub α] [Mul α] [Div α] [Neg α] [LT α] [LE α] [DecidableLT α] [DecidableLE α]
  [BEq α] [OfNat α 0] [OfNat α 1] [OfNat α 2] [OfNat α 3] [OfNat α 4] [OfNat α 100] [OfNat α 1000]
  [OfScientific α] [FloatLike α]

theorem varsShape_of_sized {n m : Nat} {v v' : Vars α} (h : VarsSized n m v) (h' : VarsSized n m v') :
    VarsShape v v' := ⟨h.x.trans h'.x.symm, h.s.trans h'.s.symm, h.z.trans h'.z.symm⟩

theorem stepShape_of_sized {n m k : Nat} {v v' : Vars α} (h : VarsSized n m v) (h' : VarsSized n m v')
    (hk : m ≤ k) : StepShape k v v' :=
  ⟨h.x.trans h'.x.symm, Solver.SameFrom.of_le (h.s.trans h'.s.symm) (by rw [h.s]; exact hk),
    h.z.trans h'.z.symm⟩

theorem iterShape_of_sized {n m k : Nat} {v v' : Vars α} (h : VarsSized n m v) (h' : VarsSized n m v')
    (hk : m ≤ k) : IterShape k v v' :=
  ⟨h.x.trans h'.x.symm, Solver.SameFrom.of_le (h.s.trans h'.s.symm) (by rw [h.s]; exact hk),
    Solver.SameFrom.of_le (h.z.trans h'.z.symm) (by rw [h.z]; exact hk)⟩

/-- **two solver objects on the same problem that both satisfy the structural invariant are
`Stale`-related** as soon as their cone objects have the same shape and their linear-solver objects
are related by `Bw`: every other component enters `solve()` through its length only. -/
theorem Stale.of_shapes {Bw : KktSolver α → KktSolver α → Prop} {KI KI' : KktSolver α → Prop}
    {S S' : SolverSt α} (h : Shapes KI S) (h' : Shapes KI' S') (hd : S.data = S'.data)
    (hc : ConesShape S.cones S'.cones) (hB : Bw S.kktsystem.kktsolver S'.kktsystem.kktsolver) :
    Stale Bw S S' := by
  have hn : S'.data.n = S.data.n := by rw [hd]
  have hm : S'.data.m = S.data.m := by rw [hd]
  have v' := h'.vars; have r' := h'.resid; have l' := h'.stepLhs; have rh' := h'.stepRhs
  have p' := h'.prevVars; have k' := h'.ksized
  rw [hn, hm] at v' r' l' rh' p' k'
  have hle : S.data.m ≤ numelAll S.cones := Nat.le_of_eq h.numel.symm
  exact
    { data := hd
      «variables» := iterShape_of_sized h.vars v' hle
      residuals := ⟨h.resid.rx.trans r'.rx.symm, h.resid.rz.trans r'.rz.symm,
        h.resid.rx_inf.trans r'.rx_inf.symm, h.resid.rz_inf.trans r'.rz_inf.symm,
        h.resid.Px.trans r'.Px.symm⟩
      kktsystem := ⟨hB, h.ksized.x1.trans k'.x1.symm, h.ksized.z1.trans k'.z1.symm,
        h.ksized.x2.trans k'.x2.symm, h.ksized.z2.trans k'.z2.symm,
        Solver.SameFrom.of_le (h.ksized.workx.trans k'.workx.symm)
          (Nat.le_of_eq (h.ksized.workx.trans h.data.q.symm)),
        h.ksized.workz.trans k'.workz.symm,
        Solver.SameFrom.of_le (h.ksized.workConic.trans k'.workConic.symm)
          (by rw [h.ksized.workConic]; exact hle)⟩
      cones := hc
      stepLhs := stepShape_of_sized h.stepLhs l' hle
      stepRhs := stepShape_of_sized h.stepRhs rh' hle
      prevVars := varsShape_of_sized h.prevVars p' }

/-- the `solution` objects of two solver objects sized for the same problem -/
theorem solShape_of_sized {d : ProblemData α} {sol sol' : Unscale.Solution α} (h : SolutionSized d sol)
    (h' : SolutionSized d sol') :
    SolShape ((Solver.presolveMap d).map (fun m => m.keep.size)) sol sol' := by
  cases hp : Solver.presolveMap d with
  | none =>
    exact Solver.SolShape.of_sizes (h.x.trans h'.x.symm) ((h.none_s hp).trans (h'.none_s hp).symm)
      ((h.none_z hp).trans (h'.none_z hp).symm) (fun n hn => by cases hn)
  | some p =>
    refine Solver.SolShape.of_sizes (h.x.trans h'.x.symm) ((h.some_s p hp).trans (h'.some_s p hp).symm)
      ((h.some_z p hp).trans (h'.some_z p hp).symm) (fun n hn => ?_)
    have : p.keep.size = n := by simpa using hn
    rw [h.some_s p hp, h.some_z p hp, this]
    exact ⟨Nat.le_refl _, Nat.le_refl _⟩

/-- `solve()` keeps `KktOk`, and relates the linear-solver object it started from to the one it
leaves by `BwN` (what the first `update` of the next `solve()` forgets) -/
theorem solve_kktOkN {S : Solver α} {st : Settings α} {r : SolveResult α} (h : S.solve st = .ok r)
    (hc : ConesFull S.st.cones) (hk : KktOk S.st) :
    KktOk r.S.st ∧ BwN S.st.kktsystem.kktsolver.map.sparse_maps.size st.lin
      S.st.kktsystem.kktsolver r.S.st.kktsystem.kktsolver := by
  obtain ⟨hU, hI⟩ := solve_kstepN h hk.inv
  obtain ⟨hsh, _⟩ := solve_conesShape h hc
  refine ⟨⟨hI, ?_⟩, BwN.of_upd hU hk.inv.ldl (Nat.le_refl _)⟩
  rw [← hU.map, ← nSpN_shape hsh]
  exact hk.fit

/-- the object a `solve()` returned, WITH THE DATA AT ENTRY PUT BACK (`solve()` fills the two norm
caches of the data and writes nothing else of it), is `Stale`-related to the object before the call,
and its solution object has the same shape -/
theorem stale_putBack {st : Settings α} {KI : KktSolver α → Prop}
    {d : ProblemData α} {specs : List Kkt.ConeSpec} {S : Solver α} {r1 : SolveResult α}
    (h1 : S.solve st = .ok r1) (hI : SolverInv KI d specs S)
    (hI1 : SolverInv KI r1.S.st.data specs r1.S) (hk : KktOk S.st) :
    Stale (BwN S.st.kktsystem.kktsolver.map.sparse_maps.size st.lin) S.st (r1.S.withData S.st.data).st
      ∧ SolShape ((Solver.presolveMap S.st.data).map (fun m => m.keep.size)) S.solution
          (r1.S.withData S.st.data).solution := by
  obtain ⟨hk1, hB⟩ := solve_kktOkN h1 hI.st.shapes.cones hk
  obtain ⟨hsh, _⟩ := solve_conesShape h1 hI.st.shapes.cones
  obtain ⟨nq, nb, _, _, e⟩ := solve_data_eq h1
  -- resetting the two caches of the returned data gives the data at entry back
  have eback : ({ r1.S.st.data with normq := S.st.data.normq, normb := S.st.data.normb } : ProblemData α)
      = S.st.data := by
    rw [e]
  have hT : Shapes KI (r1.S.withData S.st.data).st := by
    have := hI1.st.shapes.withNorms S.st.data.normq S.st.data.normb
    rw [eback] at this
    exact this
  have hsolT : SolutionSized S.st.data r1.S.solution := by
    have := hI1.solution.withNorms S.st.data.normq S.st.data.normb
    rw [eback] at this
    exact this
  refine ⟨Stale.of_shapes hI.st.shapes hT rfl hsh hB, ?_⟩
  have hsolS : SolutionSized S.st.data S.solution := by rw [hI.st.data]; exact hI.solution
  exact solShape_of_sized hsolS hsolT

/-- **the second of two `solve()` calls on one solver object** gives the observable result of the
first: hypotheses are the structural invariant of the object before (`hI`) and after (`hI1`: the
conclusion of the C04 theorem `solve_okOr`, anchored at the data of the returned object) the first
call, `KktOk`, and (iii) — which is void when the composite has a nonsymmetric cone
(`InitPointOk.of_nonsymmetric`).  The second call runs on the data with the two norm caches the
first call filled; they answer `get_normq` / `get_normb` as the caches at entry did
(`solve_putBack`). -/
theorem solve_twice_obsN (hbeq : ((0 : α) == 0) = true) (st : Settings α) {KI : KktSolver α → Prop}
    {d : ProblemData α} {specs : List Kkt.ConeSpec} {S : Solver α} {r1 : SolveResult α}
    (h1 : S.solve st = .ok r1) (hI : SolverInv KI d specs S)
    (hI1 : SolverInv KI r1.S.st.data specs r1.S)
    (hk : KktOk S.st) (hinit : InitPointOk (resetInfo S.st) st) :
    ∃ r2, r1.S.solve st = .ok r2 ∧ SolveObs r1 r2 := by
  obtain ⟨hst, hsol⟩ := stale_putBack h1 hI hI1 hk
  have hrel := solve_rel hbeq st (kktSimN _ st.lin) (S' := r1.S.withData S.st.data) hst hk.fit hsol
    (Or.inl hinit)
  rw [← solve_putBack h1 st] at hrel
  exact hrel.ok_left h1

end

end Clarabel.SolverNS
