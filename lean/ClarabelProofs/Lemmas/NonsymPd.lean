/-
  Primal–dual scaling of the 3-d nonsymmetric cones (C14): algebra of
  `Hs = ss'/⟨s,z⟩ + δsδs'/⟨δs,δz⟩ + t·aa'`.
-/
import ClarabelModel.Cones.Nonsym
import ClarabelProofs.Lemmas.NonsymCalc

namespace Clarabel.Nonsym
open Clarabel

/-- plain dot product of triples -/
def dotR (x y : V3 ℝ) : ℝ := x.1 * y.1 + x.2.1 * y.2.1 + x.2.2 * y.2.2

theorem dot3_eq (x y : V3 ℝ) : Sym3.dot3 x y = dotR x y := by
  unfold Sym3.dot3 dotR; ring

/-- the rank-3 form written by the primal–dual branch -/
noncomputable def rank3 (s ds a : V3 ℝ) (D1 D2 t : ℝ) : Sym3 ℝ :=
  let e (si sj dsi dsj ai aj : ℝ) : ℝ := si * sj / D1 + dsi * dsj / D2 + t * ai * aj
  ⟨e s.1 s.1 ds.1 ds.1 a.1 a.1, e s.1 s.2.1 ds.1 ds.2.1 a.1 a.2.1, e s.2.1 s.2.1 ds.2.1 ds.2.1 a.2.1 a.2.1,
   e s.1 s.2.2 ds.1 ds.2.2 a.1 a.2.2, e s.2.1 s.2.2 ds.2.1 ds.2.2 a.2.1 a.2.2, e s.2.2 s.2.2 ds.2.2 ds.2.2 a.2.2 a.2.2⟩

theorem rank3_mul (s ds a x : V3 ℝ) (D1 D2 t : ℝ) :
    (rank3 s ds a D1 D2 t).mul x =
      (s.1 * (dotR s x / D1) + ds.1 * (dotR ds x / D2) + t * a.1 * dotR a x,
       s.2.1 * (dotR s x / D1) + ds.2.1 * (dotR ds x / D2) + t * a.2.1 * dotR a x,
       s.2.2 * (dotR s x / D1) + ds.2.2 * (dotR ds x / D2) + t * a.2.2 * dotR a x) := by
  simp only [rank3, Sym3.mul, dotR, Prod.mk.injEq]
  refine ⟨?_, ?_, ?_⟩ <;> ring

theorem rank3_quadForm (s ds a x : V3 ℝ) (D1 D2 t : ℝ) :
    (rank3 s ds a D1 D2 t).quadForm x x = dotR s x ^ 2 / D1 + dotR ds x ^ 2 / D2 + t * dotR a x ^ 2 := by
  simp only [rank3, Sym3.quadForm, dotR]
  ring

/-- `normalize` returns a multiple of its argument -/
theorem normalize3_smul (v : V3 ℝ) : ∃ k : ℝ, normalize3 v = (k * v.1, k * v.2.1, k * v.2.2) := by
  unfold normalize3
  simp only
  split
  · exact ⟨1, by simp⟩
  · exact ⟨recip (sqrt (Sym3.dot3 v v)), by simp only [mul_comm]⟩

theorem cross3_orth_left (z zt : V3 ℝ) : dotR (cross3 z zt) z = 0 := by
  unfold cross3 dotR; ring

theorem cross3_orth_right (z zt : V3 ℝ) : dotR (cross3 z zt) zt = 0 := by
  unfold cross3 dotR; ring

/-- the primal–dual branch writes a rank-3 form whose third axis is orthogonal to `z` and
`zt` and whose weight is non-negative when `μ ≥ 0` -/
theorem pdHs_eq_rank3 (Hd : Sym3 ℝ) (st zt s z : V3 ℝ) (Q : PdQuantities ℝ) :
    ∃ (t : ℝ) (a : V3 ℝ), dotR a z = 0 ∧ dotR a zt = 0 ∧ (0 ≤ Q.mu → 0 ≤ t) ∧
      pdHs Hd st zt s z Q = rank3 s Q.ds a Q.dotSz Q.dotDsz t := by
  obtain ⟨k, hk⟩ := normalize3_smul (cross3 z zt)
  have o1 : dotR (normalize3 (cross3 z zt)) z = 0 := by
    rw [hk]
    have := cross3_orth_left z zt
    unfold dotR at *
    simp only
    linear_combination k * this
  have o2 : dotR (normalize3 (cross3 z zt)) zt = 0 := by
    rw [hk]
    have := cross3_orth_right z zt
    unfold dotR at *
    simp only
    linear_combination k * this
  simp only [pdHs, rank3]
  refine ⟨_, normalize3 (cross3 z zt), o1, o2, ?_, rfl⟩
  intro hmu
  unfold Sym3.normFro
  simp only [real_sqrt_eq]
  exact mul_nonneg hmu (Real.sqrt_nonneg _)

theorem pdQuantities_fields (Hd : Sym3 ℝ) (st zt s z : V3 ℝ) :
    let Q := pdQuantities Hd st zt s z
    Q.dotSz = dotR s z ∧ Q.mu = dotR s z / 3 ∧
    Q.ds = (s.1 + Q.mu * st.1, s.2.1 + Q.mu * st.2.1, s.2.2 + Q.mu * st.2.2) ∧
    Q.dotDsz = dotR Q.ds (z.1 + Q.mu * zt.1, z.2.1 + Q.mu * zt.2.1, z.2.2 + Q.mu * zt.2.2) := by
  simp only [pdQuantities, dot3_eq]
  trivial

end Clarabel.Nonsym
