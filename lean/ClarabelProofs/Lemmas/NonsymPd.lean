/-
  Primal–dual scaling of the 3-d nonsymmetric cones (C14): algebra of
  `Hs = ss'/⟨s,z⟩ + δsδs'/⟨δs,δz⟩ + t·aa'`.
-/
import ClarabelModel.Cones.Nonsym
import ClarabelProofs.Lemmas.NonsymCalc

namespace Clarabel.Nonsym
open Clarabel

/-- plain dot product of triples -/
def dotR (x y : V3 ℝ) : ℝ := x.1 * y.1 + x.2.1 * y.2.1 + x.2.2 * y.2.2

theorem dot3_eq (x y : V3 ℝ) : Sym3.dot3 x y = dotR x y := by
  unfold Sym3.dot3 dotR; ring

/-- the rank-3 form written by the primal–dual branch -/
noncomputable def rank3 (s ds a : V3 ℝ) (D1 D2 t : ℝ) : Sym3 ℝ :=
  let e (si sj dsi dsj ai aj : ℝ) : ℝ := si * sj / D1 + dsi * dsj / D2 + t * ai * aj
  ⟨e s.1 s.1 ds.1 ds.1 a.1 a.1, e s.1 s.2.1 ds.1 ds.2.1 a.1 a.2.1, e s.2.1 s.2.1 ds.2.1 ds.2.1 a.2.1 a.2.1,
   e s.1 s.2.2 ds.1 ds.2.2 a.1 a.2.2, e s.2.1 s.2.2 ds.2.1 ds.2.2 a.2.1 a.2.2, e s.2.2 s.2.2 ds.2.2 ds.2.2 a.2.2 a.2.2⟩

theorem rank3_mul (s ds a x : V3 ℝ) (D1 D2 t : ℝ) :
    (rank3 s ds a D1 D2 t).mul x =
      (s.1 * (dotR s x / D1) + ds.1 * (dotR ds x / D2) + t * a.1 * dotR a x,
       s.2.1 * (dotR s x / D1) + ds.2.1 * (dotR ds x / D2) + t * a.2.1 * dotR a x,
       s.2.2 * (dotR s x / D1) + ds.2.2 * (dotR ds x / D2) + t * a.2.2 * dotR a x) := by
  simp only [rank3, Sym3.mul, dotR, Prod.mk.injEq]
  refine ⟨?_, ?_, ?_⟩ <;> ring

theorem rank3_quadForm (s ds a x : V3 ℝ) (D1 D2 t : ℝ) :
    (rank3 s ds a D1 D2 t).quadForm x x = dotR s x ^ 2 / D1 + dotR ds x ^ 2 / D2 + t * dotR a x ^ 2 := by
  simp only [rank3, Sym3.quadForm, dotR]
  ring

/-- `normalize` returns a multiple of its argument -/
theorem normalize3_smul (v : V3 ℝ) : ∃ k : ℝ, normalize3 v = (k * v.1, k * v.2.1, k * v.2.2) := by
  unfold normalize3
  simp only
  split
  · exact ⟨1, by simp⟩
  · exact ⟨recip (sqrt (Sym3.dot3 v v)), by simp only [mul_comm]⟩

theorem cross3_orth_left (z zt : V3 ℝ) : dotR (cross3 z zt) z = 0 := by
  unfold cross3 dotR; ring

theorem cross3_orth_right (z zt : V3 ℝ) : dotR (cross3 z zt) zt = 0 := by
  unfold cross3 dotR; ring

/-- the primal–dual branch writes a rank-3 form whose third axis is orthogonal to `z` and
`zt` and whose weight is non-negative when `μ ≥ 0` -/
theorem pdHs_eq_rank3 (Hd : Sym3 ℝ) (st zt s z : V3 ℝ) (Q : PdQuantities ℝ) :
    ∃ (t : ℝ) (a : V3 ℝ), dotR a z = 0 ∧ dotR a zt = 0 ∧ (0 ≤ Q.mu → 0 ≤ t) ∧
      pdHs Hd st zt s z Q = rank3 s Q.ds a Q.dotSz Q.dotDsz t := by
  obtain ⟨k, hk⟩ := normalize3_smul (cross3 z zt)
  have o1 : dotR (normalize3 (cross3 z zt)) z = 0 := by
    rw [hk]
    have := cross3_orth_left z zt
    unfold dotR at *
    simp only
    linear_combination k * this
  have o2 : dotR (normalize3 (cross3 z zt)) zt = 0 := by
    rw [hk]
    have := cross3_orth_right z zt
    unfold dotR at *
    simp only
    linear_combination k * this
  simp only [pdHs, rank3]
  refine ⟨_, normalize3 (cross3 z zt), o1, o2, ?_, rfl⟩
  intro hmu
  unfold Sym3.normFro
  simp only [real_sqrt_eq]
  exact mul_nonneg hmu (Real.sqrt_nonneg _)

theorem pdQuantities_fields (Hd : Sym3 ℝ) (st zt s z : V3 ℝ) :
    let Q := pdQuantities Hd st zt s z
    Q.dotSz = dotR s z ∧ Q.mu = dotR s z / 3 ∧
    Q.ds = (s.1 + Q.mu * st.1, s.2.1 + Q.mu * st.2.1, s.2.2 + Q.mu * st.2.2) ∧
    Q.dotDsz = dotR Q.ds (z.1 + Q.mu * zt.1, z.2.1 + Q.mu * zt.2.1, z.2.2 + Q.mu * zt.2.2) := by
  simp only [pdQuantities, dot3_eq]
  trivial

/-! ### strict positive definiteness -/

/-- the Frobenius weight `t = μ‖W‖_F` of the primal–dual branch (copy of the model's expression) -/
noncomputable def pdWeight (Hd : Sym3 ℝ) (st zt : V3 ℝ) (Q : PdQuantities ℝ) : ℝ :=
  let three : ℝ := 3
  let tmp0 := Hd.mul zt
  let tmp : V3 ℝ := (Q.muT * st.1 - tmp0.1, Q.muT * st.2.1 - tmp0.2.1, Q.muT * st.2.2 - tmp0.2.2)
  let W : Sym3 ℝ :=
    ⟨Hd.d0 - (st.1 * st.1 / three + tmp.1 * tmp.1 / Q.de2),
     Hd.d1 - (st.1 * st.2.1 / three + tmp.1 * tmp.2.1 / Q.de2),
     Hd.d2 - (st.2.1 * st.2.1 / three + tmp.2.1 * tmp.2.1 / Q.de2),
     Hd.d3 - (st.1 * st.2.2 / three + tmp.1 * tmp.2.2 / Q.de2),
     Hd.d4 - (st.2.1 * st.2.2 / three + tmp.2.1 * tmp.2.2 / Q.de2),
     Hd.d5 - (st.2.2 * st.2.2 / three + tmp.2.2 * tmp.2.2 / Q.de2)⟩
  Q.mu * W.normFro

theorem pdHs_eq_rank3' (Hd : Sym3 ℝ) (st zt s z : V3 ℝ) (Q : PdQuantities ℝ) :
    pdHs Hd st zt s z Q =
      rank3 s Q.ds (normalize3 (cross3 z zt)) Q.dotSz Q.dotDsz (pdWeight Hd st zt Q) := rfl

/-- when the cross product does not vanish, `normalize` multiplies it by a non-zero factor -/
theorem normalize3_smul_ne (v : V3 ℝ) (hv : v ≠ (0, 0, 0)) :
    ∃ k : ℝ, k ≠ 0 ∧ normalize3 v = (k * v.1, k * v.2.1, k * v.2.2) := by
  obtain ⟨v0, v1, v2⟩ := v
  have hpos : 0 < v0 * v0 + v1 * v1 + v2 * v2 := by
    by_contra hle
    have h0 : v0 * v0 + v1 * v1 + v2 * v2 = 0 :=
      le_antisymm (not_lt.mp hle) (by nlinarith [mul_self_nonneg v0, mul_self_nonneg v1, mul_self_nonneg v2])
    have e0 : v0 = 0 := by nlinarith [mul_self_nonneg v0, mul_self_nonneg v1, mul_self_nonneg v2]
    have e1 : v1 = 0 := by nlinarith [mul_self_nonneg v0, mul_self_nonneg v1, mul_self_nonneg v2]
    have e2 : v2 = 0 := by nlinarith [mul_self_nonneg v0, mul_self_nonneg v1, mul_self_nonneg v2]
    exact hv (by rw [e0, e1, e2])
  have hs : 0 < Real.sqrt (v0 * v0 + v1 * v1 + v2 * v2) := Real.sqrt_pos.mpr hpos
  unfold normalize3
  simp only [dot3_eq, dotR, real_sqrt_eq]
  rw [if_neg (by simpa using ne_of_gt hs)]
  exact ⟨recip (Real.sqrt (v0 * v0 + v1 * v1 + v2 * v2)), by
    unfold recip; exact one_div_ne_zero (ne_of_gt hs), by simp only [mul_comm]⟩

/-- Cramer: three independent rows annihilating `x` force `x = 0` -/
theorem eq_zero_of_dots (r1 r2 r3 x : V3 ℝ)
    (hdet : dotR r1 (cross3 r2 r3) ≠ 0) (h1 : dotR r1 x = 0) (h2 : dotR r2 x = 0) (h3 : dotR r3 x = 0) :
    x = (0, 0, 0) := by
  obtain ⟨a0, a1, a2⟩ := r1
  obtain ⟨b0, b1, b2⟩ := r2
  obtain ⟨c0, c1, c2⟩ := r3
  obtain ⟨x0, x1, x2⟩ := x
  simp only [dotR, cross3] at *
  have e0 : (a0 * (b1 * c2 - b2 * c1) + a1 * (b2 * c0 - b0 * c2) + a2 * (b0 * c1 - b1 * c0)) * x0 = 0 := by
    linear_combination (b1 * c2 - b2 * c1) * h1 + (c1 * a2 - c2 * a1) * h2 + (a1 * b2 - a2 * b1) * h3
  have e1 : (a0 * (b1 * c2 - b2 * c1) + a1 * (b2 * c0 - b0 * c2) + a2 * (b0 * c1 - b1 * c0)) * x1 = 0 := by
    linear_combination (b2 * c0 - b0 * c2) * h1 + (c2 * a0 - c0 * a2) * h2 + (a2 * b0 - a0 * b2) * h3
  have e2 : (a0 * (b1 * c2 - b2 * c1) + a1 * (b2 * c0 - b0 * c2) + a2 * (b0 * c1 - b1 * c0)) * x2 = 0 := by
    linear_combination (b0 * c1 - b1 * c0) * h1 + (c0 * a1 - c1 * a0) * h2 + (a0 * b1 - a1 * b0) * h3
  rw [(mul_eq_zero.mp e0).resolve_left hdet, (mul_eq_zero.mp e1).resolve_left hdet,
    (mul_eq_zero.mp e2).resolve_left hdet]

/-- Binet–Cauchy: `s · (δs × (z × zt)) = (s·z)(δs·zt) - (s·zt)(δs·z)` -/
theorem det_binet (s ds z zt : V3 ℝ) :
    dotR s (cross3 ds (cross3 z zt)) = dotR s z * dotR ds zt - dotR s zt * dotR ds z := by
  unfold dotR cross3; ring

/-- consequences of log-homogeneity `⟨st, z⟩ = -3` for the quantities of the branch:
`⟨δs, z⟩ = 0` and `⟨δs, δz⟩ = μ ⟨δs, zt⟩` -/
theorem pd_key (Hd : Sym3 ℝ) (st zt s z : V3 ℝ) (hst : dotR st z = -3) :
    let Q := pdQuantities Hd st zt s z
    dotR Q.ds z = 0 ∧ Q.dotDsz = Q.mu * dotR Q.ds zt ∧ Q.dotSz = 3 * Q.mu ∧ Q.dotSz = dotR s z := by
  obtain ⟨s0, s1, s2⟩ := s
  obtain ⟨z0, z1, z2⟩ := z
  obtain ⟨st0, st1, st2⟩ := st
  obtain ⟨zt0, zt1, zt2⟩ := zt
  simp only [pdQuantities, dot3_eq, dotR] at *
  refine ⟨?_, ?_, ?_, trivial⟩
  · linear_combination (s0 * z0 + s1 * z1 + s2 * z2) / 3 * hst
  · linear_combination (s0 * z0 + s1 * z1 + s2 * z2) / 3 * hst
  · ring

end Clarabel.Nonsym
