/-
  The completion recurrence of `psd_complete` (`psd_completion.rs`), at the level of data.

  The data-level model `psdComplete ext A N p` takes everything LAPACK/BLAS computes in pass `j`
  as the parameter `ext j W` (the entries of the `|η| × |ν|` product `Wηα · Y`).  This file proves
  what the passes do with those values:

  * `psdCompleteStepData_values` [S]: pass `j` stores `f (a, b)` at `W[(η[a], ν[b])]` and at
    `W[(ν[b], η[a])]` (each position written exactly once) and nothing else changes;
  * `completion_step_recurrence` [F]: IF the external step satisfies its contract on the state it
    is given — `f (a, b) = Σ_k W[(η[a], α[k])] · Y[k][b]` for a matrix `Y` (the result of the
    Cholesky solve `Wαα Y = Wαν`, or of the pseudo-inverse solve `Y = Wαα⁺ Wαν`) — THEN after the
    pass `W'ην = W'ηα · Y = (W'νη)ᵀ`, and the blocks `W'ηα`, `W'αα`, `W'αν` that the formula reads
    are those of the state before the pass (so `Y` has the same relation to `W'αα`, `W'αν`): the
    completion formula `Wην = Wηα Wαα⁺ Wαν` holds on the state after the pass;
  * `completion_loop_recurrence` [F]: the positions read and written by pass `j` are not touched by
    the later passes (`j' < j`: all their positions have a coordinate in the supernode of `j'`,
    whose vertices are smaller than everything pass `j` reads or writes), hence the formula of
    every pass holds on the FINAL matrix `W`.
-/
import ClarabelProofs.Lemmas.ChordalCompletion
import Mathlib.Algebra.BigOperators.Group.Finset.Basic
import Mathlib.Algebra.Ring.Defs

namespace Clarabel.Chordal
open Finset
variable {α : Type}

/-! ## writes to pairwise different positions -/

private theorem getE_okR {β : Type} (xs : Array β) (i : Nat) (s : String) (d : β)
    (h : i < xs.size) : getE xs i s = .ok (xs.getD i d) := by
  unfold getE
  simp [h, Array.getD, pure, Except.pure]

/-- `writeAll` when different list entries that address the same cell carry the same value: every
addressed cell holds the value written to it -/
theorem writeAll_values (m : Nat) (site : String) (ws : List ((Nat × Nat) × α)) (data : Array α)
    (hall : ∀ w ∈ ws, linIdx m w.1 < data.size)
    (hinj : ∀ w ∈ ws, ∀ w' ∈ ws, linIdx m w.1 = linIdx m w'.1 → w.2 = w'.2) :
    ∃ d', writeAll m data ws site = .ok d' ∧ d'.size = data.size ∧
      (∀ k, (∀ w ∈ ws, linIdx m w.1 ≠ k) → d'[k]? = data[k]?) ∧
      (∀ w ∈ ws, d'[linIdx m w.1]? = some w.2) := by
  obtain ⟨d', h1, h2, h3, h4⟩ := writeAll_spec m site ws data hall
  refine ⟨d', h1, h2, h3, fun w hw => ?_⟩
  obtain ⟨w', hw', e, hv⟩ := h4 w hw
  rw [hv, hinj w' hw' w hw e]

private theorem getElem?_inj_of_nodup {l : List Nat} (h : l.Nodup) {a b x : Nat}
    (ha : l[a]? = some x) (hb : l[b]? = some x) : a = b := by
  obtain ⟨ha1, ha2⟩ := List.getElem?_eq_some_iff.1 ha
  obtain ⟨hb1, hb2⟩ := List.getElem?_eq_some_iff.1 hb
  exact (List.Nodup.getElem_inj_iff h).1 (ha2.trans hb2.symm)

/-- the writes of one `subsasgn` with repetition-free index lists address pairwise different cells -/
theorem subsWrites_inj (N : Nat) (rows cols : List Nat) (hr : rows.Nodup) (hc : cols.Nodup)
    (hrN : ∀ r ∈ rows, r < N) (g : Nat × Nat → α) :
    ∀ w ∈ (subsPositionsIdx rows cols).map (fun q => (q.1, g q.2)),
      ∀ w' ∈ (subsPositionsIdx rows cols).map (fun q => (q.1, g q.2)),
        linIdx N w.1 = linIdx N w'.1 → w.2 = w'.2 := by
  intro w hw w' hw' e
  obtain ⟨q, hq, rfl⟩ := List.mem_map.1 hw
  obtain ⟨q', hq', rfl⟩ := List.mem_map.1 hw'
  obtain ⟨h1, h2⟩ := mem_subsPositionsIdx.1 hq
  obtain ⟨h1', h2'⟩ := mem_subsPositionsIdx.1 hq'
  have e1 : q.1 = q'.1 := linIdx_inj (hrN _ (List.mem_of_getElem? h1)) (hrN _ (List.mem_of_getElem? h1')) e
  rw [← e1] at h1' h2'
  have ea : q.2.1 = q'.2.1 := getElem?_inj_of_nodup hr h1 h1'
  have eb : q.2.2 = q'.2.2 := getElem?_inj_of_nodup hc h2 h2'
  have : q.2 = q'.2 := Prod.ext ea eb
  simp only [this]

/-! ## the index sets of pass `j` -/

/-- supernode / separator of the clique with post-order index `j` as stored (arrays) -/
def nuA (t : SuperNodeTree) (j : Nat) : VSet := t.snode.getD (t.postIdx j) #[]
def alA (t : SuperNodeTree) (j : Nat) : VSet := t.separators.getD (t.postIdx j) #[]
/-- `η` of pass `j` -/
def etaAt (t : SuperNodeTree) (N j : Nat) : List Nat := etaOf ((nuA t j).getD 0 0) N (alA t j) (nuA t j)

theorem nuA_toList (t : SuperNodeTree) (j : Nat) : (nuA t j).toList = t.snodeAt j := rfl
theorem alA_toList (t : SuperNodeTree) (j : Nat) : (alA t j).toList = t.sepAt j := rfl

theorem etaAt_nodup (t : SuperNodeTree) (N j : Nat) : (etaAt t N j).Nodup := by
  unfold etaAt etaOf
  exact (List.nodup_range' (step := 1) (by omega)).filter _

theorem mem_etaAt {t : SuperNodeTree} {N j x : Nat} :
    x ∈ etaAt t N j ↔ (nuA t j).getD 0 0 < x ∧ x < N ∧ x ∉ t.sepAt j ∧ x ∉ t.snodeAt j := by
  unfold etaAt
  rw [mem_etaOf]
  rfl

theorem stepPositions_eq {t : SuperNodeTree} {N : Nat} (h : ValidTree t N) {j : Nat}
    (hj : j < t.nCliques) :
    stepPositions t N j = subsPositions (etaAt t N j) (t.snodeAt j) ++
      subsPositions (t.snodeAt j) (etaAt t N j) := by
  obtain ⟨ν, α', i, hνl, hαl, _, ⟨_, rfl⟩, hok⟩ := psdCompleteStep_ok h hj
  have e1 : ν = nuA t j := Array.toList_inj.1 (hνl.trans (nuA_toList t j).symm)
  have e2 : α' = alA t j := Array.toList_inj.1 (hαl.trans (alA_toList t j).symm)
  subst e1 e2
  simp [stepPositions, hok, etaAt, nuA_toList]

/-! ## one pass: the values written -/

/-- [S] pass `j` on a valid tree, given the values `f` returned by the external step: it succeeds,
stores `f (a, b)` at `(η[a], ν[b])` and at `(ν[b], η[a])`, and changes nothing else -/
theorem psdCompleteStepData_values (ext : Nat → Array α → MErr (Nat × Nat → α))
    {t : SuperNodeTree} {N : Nat} (h : ValidTree t N) {j : Nat} (hj : j < t.nCliques)
    (W : Array α) (hW : W.size = N * N) (f : Nat × Nat → α) (hf : ext j W = .ok f) :
    ∃ W', psdCompleteStepData ext t N j W = .ok W' ∧ W'.size = N * N ∧
      (∀ k, k ∉ (stepPositions t N j).map (linIdx N) → W'[k]? = W[k]?) ∧
      (∀ a b x v, (etaAt t N j)[a]? = some x → (t.snodeAt j)[b]? = some v →
        W'[linIdx N (x, v)]? = some (f (a, b)) ∧ W'[linIdx N (v, x)]? = some (f (a, b))) := by
  have hνlt : ∀ v ∈ t.snodeAt j, v < N := fun v hv =>
    h.clique_lt j hj v (ValidTree.snode_sub_clique j v hv)
  have hαlt : ∀ v ∈ t.sepAt j, v < N := fun v hv =>
    h.clique_lt j hj v (ValidTree.sep_sub_clique j v hv)
  have hηlt : ∀ v ∈ etaAt t N j, v < N := fun v hv => (mem_etaAt.1 hv).2.1
  have hνnd : (t.snodeAt j).Nodup := (List.nodup_append.1 (h.clique_nodup j hj)).1
  have hηnd := etaAt_nodup t N j
  have hne : t.snodeAt j ≠ [] := h.snode_ne j hj
  have hsz : 0 < (nuA t j).size := by
    rcases Nat.eq_zero_or_pos (nuA t j).size with h0 | h0
    · exact absurd (by simpa [← nuA_toList] using h0) hne
    · exact h0
  have hν : t.getSnode j = .ok (nuA t j) := by
    obtain ⟨ν2, hν, hνl2⟩ := getSnode_ok h hj
    rw [hν, Array.toList_inj.1 (hνl2.trans (nuA_toList t j).symm)]
  have hα : t.getSeparators j = .ok (alA t j) := by
    obtain ⟨α2, hα, hαl2⟩ := getSeparators_ok h hj
    rw [hα, Array.toList_inj.1 (hαl2.trans (alA_toList t j).symm)]
  -- first `subsasgn`
  obtain ⟨W1, hw1, hs1, hfr1, hv1⟩ := writeAll_values N "psd_complete: W[η,ν] ="
    ((subsPositionsIdx (etaAt t N j) (t.snodeAt j)).map (fun q => (q.1, f q.2))) W
    (by
      intro q hq
      obtain ⟨q', hq', rfl⟩ := List.mem_map.1 hq
      obtain ⟨h1, h2⟩ := mem_subsPositions.1 (mem_subsPositionsIdx_pos hq')
      rw [hW]; exact lin_lt (hηlt _ h1) (hνlt _ h2))
    (subsWrites_inj N _ _ hηnd hνnd hηlt _)
  -- second `subsasgn`
  obtain ⟨W2, hw2, hs2, hfr2, hv2⟩ := writeAll_values N "psd_complete: W[ν,η] ="
    ((subsPositionsIdx (t.snodeAt j) (etaAt t N j)).map (fun q => (q.1, f (q.2.2, q.2.1)))) W1
    (by
      intro q hq
      obtain ⟨q', hq', rfl⟩ := List.mem_map.1 hq
      obtain ⟨h1, h2⟩ := mem_subsPositions.1 (mem_subsPositionsIdx_pos hq')
      rw [hs1, hW]; exact lin_lt (hνlt _ h1) (hηlt _ h2))
    (subsWrites_inj N _ _ hνnd hηnd hνlt (fun ab => f (ab.2, ab.1)))
  refine ⟨W2, ?_, by rw [hs2, hs1, hW], ?_, ?_⟩
  · have hαlt' : ∀ v ∈ (alA t j).toList, v < N := hαlt
    have hνlt' : ∀ v ∈ (nuA t j).toList, v < N := hνlt
    have hηlt' : ∀ v ∈ etaOf ((nuA t j).getD 0 0) N (alA t j) (nuA t j), v < N := hηlt
    unfold psdCompleteStepData
    rw [hν, hα]
    simp only [bind, Except.bind, getE_okR (nuA t j) 0 _ 0 hsz, hW]
    rw [checkIndex_ok _ (fun rc hrc => ⟨hαlt' _ (mem_subsPositions.1 hrc).1, hαlt' _ (mem_subsPositions.1 hrc).2⟩)]
    simp only []
    rw [checkIndex_ok _ (fun rc hrc => ⟨hαlt' _ (mem_subsPositions.1 hrc).1, hνlt' _ (mem_subsPositions.1 hrc).2⟩)]
    simp only []
    rw [checkIndex_ok _ (fun rc hrc => ⟨hηlt' _ (mem_subsPositions.1 hrc).1, hαlt' _ (mem_subsPositions.1 hrc).2⟩)]
    simp only []
    rw [hf]
    simp only []
    rw [show writeAll N W ((subsPositionsIdx (etaOf ((nuA t j).getD 0 0) N (alA t j) (nuA t j))
        (nuA t j).toList).map (fun q => (q.1, f q.2))) "psd_complete: W[η,ν] =" = .ok W1 from hw1]
    simp only []
    exact hw2
  · intro k hk
    rw [stepPositions_eq h hj, List.map_append, List.mem_append, not_or] at hk
    rw [hfr2 k, hfr1 k]
    · intro w hw e
      obtain ⟨q', hq', rfl⟩ := List.mem_map.1 hw
      exact hk.1 (List.mem_map.2 ⟨q'.1, mem_subsPositionsIdx_pos hq', e⟩)
    · intro w hw e
      obtain ⟨q', hq', rfl⟩ := List.mem_map.1 hw
      exact hk.2 (List.mem_map.2 ⟨q'.1, mem_subsPositionsIdx_pos hq', e⟩)
  · intro a b x v hx hv
    have hxη : x ∈ etaAt t N j := List.mem_of_getElem? hx
    have hvν : v ∈ t.snodeAt j := List.mem_of_getElem? hv
    constructor
    · -- written by the first call, not touched by the second
      rw [hfr2]
      · exact hv1 ((x, v), f (a, b)) (List.mem_map.2 ⟨((x, v), (a, b)), mem_subsPositionsIdx.2 ⟨hx, hv⟩, rfl⟩)
      · intro w hw e
        obtain ⟨q', hq', rfl⟩ := List.mem_map.1 hw
        obtain ⟨h1, h2⟩ := mem_subsPositions.1 (mem_subsPositionsIdx_pos hq')
        have := linIdx_inj (hνlt _ h1) (hηlt _ hxη) e
        have e1 : q'.1.1 = x := by rw [this]
        rw [e1] at h1
        exact (mem_etaAt.1 hxη).2.2.2 h1
    · exact hv2 ((v, x), f (a, b))
        (List.mem_map.2 ⟨((v, x), (b, a)), mem_subsPositionsIdx.2 ⟨hv, hx⟩, rfl⟩)

/-! ## the positions pass `j` reads -/

/-- `(r, c)` is a position of one of the blocks `Wηα`, `Wαα`, `Wαν` read by pass `j` -/
def ReadPos (t : SuperNodeTree) (N j : Nat) (rc : Nat × Nat) : Prop :=
  (rc.1 ∈ etaAt t N j ∧ rc.2 ∈ t.sepAt j) ∨ (rc.1 ∈ t.sepAt j ∧ rc.2 ∈ t.sepAt j) ∨
    (rc.1 ∈ t.sepAt j ∧ rc.2 ∈ t.snodeAt j)

theorem sep_not_snode {t : SuperNodeTree} {N : Nat} (h : ValidTree t N) {j v : Nat} (hj : j < t.nCliques)
    (hv : v ∈ t.sepAt j) : v ∉ t.snodeAt j := by
  rcases h.snode_or_sep hj (ValidTree.sep_sub_clique j v hv) with h1 | h1
  · exact absurd hv h1.2
  · exact h1.2

/-- every coordinate of a position read or written by pass `j` is in `η`, the supernode or the
separator of clique `j` -/
def CoordOf (t : SuperNodeTree) (N j x : Nat) : Prop :=
  x ∈ etaAt t N j ∨ x ∈ t.snodeAt j ∨ x ∈ t.sepAt j

theorem ReadPos.lt {t : SuperNodeTree} {N : Nat} (h : ValidTree t N) {j : Nat} (hj : j < t.nCliques)
    {rc : Nat × Nat} (hr : ReadPos t N j rc) : rc.1 < N ∧ rc.2 < N := by
  have hνlt : ∀ v ∈ t.snodeAt j, v < N := fun v hv =>
    h.clique_lt j hj v (ValidTree.snode_sub_clique j v hv)
  have hαlt : ∀ v ∈ t.sepAt j, v < N := fun v hv =>
    h.clique_lt j hj v (ValidTree.sep_sub_clique j v hv)
  have hηlt : ∀ v ∈ etaAt t N j, v < N := fun v hv => (mem_etaAt.1 hv).2.1
  rcases hr with ⟨h1, h2⟩ | ⟨h1, h2⟩ | ⟨h1, h2⟩
  · exact ⟨hηlt _ h1, hαlt _ h2⟩
  · exact ⟨hαlt _ h1, hαlt _ h2⟩
  · exact ⟨hαlt _ h1, hνlt _ h2⟩

/-- the blocks read by pass `j` are not written by pass `j` -/
theorem ReadPos.not_step {t : SuperNodeTree} {N : Nat} (h : ValidTree t N) {j : Nat} (hj : j < t.nCliques)
    {rc : Nat × Nat} (hr : ReadPos t N j rc) : linIdx N rc ∉ (stepPositions t N j).map (linIdx N) := by
  intro hm
  obtain ⟨q, hq, e⟩ := List.mem_map.1 hm
  rw [stepPositions_eq h hj] at hq
  have hlt := hr.lt h hj
  have hqlt : q.1 < N := by
    rcases List.mem_append.1 hq with h1 | h1
    · exact (mem_etaAt.1 (mem_subsPositions.1 h1).1).2.1
    · exact h.clique_lt j hj _ (ValidTree.snode_sub_clique j _ (mem_subsPositions.1 h1).1)
  have hqe : q = rc := linIdx_inj hqlt hlt.1 e
  subst hqe
  rcases List.mem_append.1 hq with h1 | h1
  · obtain ⟨a1, a2⟩ := mem_subsPositions.1 h1
    rcases hr with ⟨_, h2⟩ | ⟨h2, _⟩ | ⟨h2, _⟩
    · exact sep_not_snode h hj h2 a2
    · exact (mem_etaAt.1 a1).2.2.1 h2
    · exact (mem_etaAt.1 a1).2.2.1 h2
  · obtain ⟨a1, a2⟩ := mem_subsPositions.1 h1
    rcases hr with ⟨h2, _⟩ | ⟨h2, _⟩ | ⟨h2, _⟩
    · exact (mem_etaAt.1 h2).2.2.2 a1
    · exact sep_not_snode h hj h2 a1
    · exact sep_not_snode h hj h2 a1

/-- a vertex that pass `j` reads or writes is not in the supernode of an earlier clique -/
theorem CoordOf.not_earlier {t : SuperNodeTree} {N : Nat} (h : ValidTree t N) {j j' x : Nat}
    (hj : j < t.nCliques) (hjj : j' < j) (hx : CoordOf t N j x) : x ∉ t.snodeAt j' := by
  intro hx'
  have hj' : j' < t.nCliques := by omega
  rcases hx with h1 | h1 | h1
  · -- `η`: larger than the first vertex of the supernode of `j`
    have h2 := (mem_etaAt.1 h1).1
    have hne : t.snodeAt j ≠ [] := h.snode_ne j hj
    have hsz : 0 < (nuA t j).size := by
      rcases Nat.eq_zero_or_pos (nuA t j).size with h0 | h0
      · exact absurd (by simpa [← nuA_toList] using h0) hne
      · exact h0
    have hi : (nuA t j).getD 0 0 ∈ t.snodeAt j := by
      rw [← nuA_toList, Array.mem_toList_iff]
      simp [Array.getD, hsz]
    have h3 := ((h.snode_consec j hj _).1 hi).1
    have h4 := h.snode_lt_offset hj hjj hx'
    omega
  · have := h.snode_disj j j' x hj hj' h1 hx'
    omega
  · obtain ⟨hle, _⟩ := h.walk_up hj' hx' (t.nCliques - j) j rfl hj (ValidTree.sep_sub_clique j x h1)
    omega

/-- every position written by a pass has a coordinate in the supernode of that pass -/
theorem step_has_snode_coord {t : SuperNodeTree} {N : Nat} (h : ValidTree t N) {j : Nat}
    (hj : j < t.nCliques) {q : Nat × Nat} (hq : q ∈ stepPositions t N j) :
    q.1 ∈ t.snodeAt j ∨ q.2 ∈ t.snodeAt j := by
  rw [stepPositions_eq h hj] at hq
  rcases List.mem_append.1 hq with h1 | h1
  · exact Or.inr (mem_subsPositions.1 h1).2
  · exact Or.inl (mem_subsPositions.1 h1).1

/-- a position both of whose coordinates belong to pass `j` is not written by an earlier-indexed
(later executed) pass -/
theorem not_later_step {t : SuperNodeTree} {N : Nat} (h : ValidTree t N) {j : Nat} (hj : j < t.nCliques)
    {rc : Nat × Nat} (h1 : CoordOf t N j rc.1) (h2 : CoordOf t N j rc.2) (h1N : rc.1 < N)
    (js : List Nat) (hjs : ∀ j' ∈ js, j' < j) :
    linIdx N rc ∉ (js.flatMap (stepPositions t N)).map (linIdx N) := by
  intro hm
  obtain ⟨q, hq, e⟩ := List.mem_map.1 hm
  obtain ⟨j', hj', hqj⟩ := List.mem_flatMap.1 hq
  have hjj := hjs j' hj'
  have hj'n : j' < t.nCliques := by omega
  have hqlt : q.1 < N := by
    rw [stepPositions_eq h hj'n] at hqj
    rcases List.mem_append.1 hqj with h3 | h3
    · exact (mem_etaAt.1 (mem_subsPositions.1 h3).1).2.1
    · exact h.clique_lt j' hj'n _ (ValidTree.snode_sub_clique j' _ (mem_subsPositions.1 h3).1)
  have hqe : q = rc := linIdx_inj hqlt h1N e
  subst hqe
  rcases step_has_snode_coord h hj'n hqj with h3 | h3
  · exact h1.not_earlier h hj hjj h3
  · exact h2.not_earlier h hj hjj h3

/-! ## the recurrence -/

section Recurrence
variable [Semiring α]

/-- the state satisfies the completion formula of pass `j` with the matrix `Y`:
`W[(η[a], ν[b])] = W[(ν[b], η[a])] = Σ_k W[(η[a], α[k])] · Y[k][b]` -/
def StepFormula (t : SuperNodeTree) (N j : Nat) (W : Array α) (Y : Nat → Nat → α) : Prop :=
  ∀ a b x v : Nat, (etaAt t N j)[a]? = some x → (t.snodeAt j)[b]? = some v →
    W.getD (linIdx N (x, v)) 0 =
      ∑ k ∈ range (t.sepAt j).length, W.getD (linIdx N (x, (t.sepAt j).getD k 0)) 0 * Y k b ∧
    W.getD (linIdx N (v, x)) 0 =
      ∑ k ∈ range (t.sepAt j).length, W.getD (linIdx N (x, (t.sepAt j).getD k 0)) 0 * Y k b

/-- the contract of the external step (GEMM part): the values it returns are the entries of
`Wηα · Y` on the state `W` it is given -/
def ProductOf (t : SuperNodeTree) (N j : Nat) (W : Array α) (Y : Nat → Nat → α) (f : Nat × Nat → α) : Prop :=
  ∀ a b x : Nat, (etaAt t N j)[a]? = some x → b < (t.snodeAt j).length →
    f (a, b) = ∑ k ∈ range (t.sepAt j).length, W.getD (linIdx N (x, (t.sepAt j).getD k 0)) 0 * Y k b

/-- the blocks `Wαα`, `Wαν` of the state (zero outside their index range) -/
def blockAA (t : SuperNodeTree) (N j : Nat) (W : Array α) (k l : Nat) : α :=
  if k < (t.sepAt j).length ∧ l < (t.sepAt j).length then
    W.getD (linIdx N ((t.sepAt j).getD k 0, (t.sepAt j).getD l 0)) 0 else 0
def blockAN (t : SuperNodeTree) (N j : Nat) (W : Array α) (k b : Nat) : α :=
  if k < (t.sepAt j).length ∧ b < (t.snodeAt j).length then
    W.getD (linIdx N ((t.sepAt j).getD k 0, (t.snodeAt j).getD b 0)) 0 else 0

private theorem getD_of_getElem?_eq {W W' : Array α} {k : Nat} (h : W'[k]? = W[k]?) :
    W'.getD k 0 = W.getD k 0 := by
  rw [Array.getD_eq_getD_getElem?, Array.getD_eq_getD_getElem?, h]

private theorem list_getD_mem {l : List Nat} {k : Nat} (h : k < l.length) : l.getD k 0 ∈ l := by
  rw [List.getD_eq_getElem?_getD, List.getElem?_eq_getElem h]
  exact List.getElem_mem h

/-- two states that agree on the positions read by pass `j` have the same blocks `Wαα`, `Wαν` -/
theorem blocks_congr (t : SuperNodeTree) (N j : Nat) (W W' : Array α)
    (hrd : ∀ rc, ReadPos t N j rc → W'[linIdx N rc]? = W[linIdx N rc]?) :
    blockAA t N j W' = blockAA t N j W ∧ blockAN t N j W' = blockAN t N j W := by
  constructor
  · funext k l
    unfold blockAA
    by_cases hkl : k < (t.sepAt j).length ∧ l < (t.sepAt j).length
    · rw [if_pos hkl, if_pos hkl]
      exact getD_of_getElem?_eq (hrd _ (Or.inr (Or.inl ⟨list_getD_mem hkl.1, list_getD_mem hkl.2⟩)))
    · rw [if_neg hkl, if_neg hkl]
  · funext k b
    unfold blockAN
    by_cases hkb : k < (t.sepAt j).length ∧ b < (t.snodeAt j).length
    · rw [if_pos hkb, if_pos hkb]
      exact getD_of_getElem?_eq (hrd _ (Or.inr (Or.inr ⟨list_getD_mem hkb.1, list_getD_mem hkb.2⟩)))
    · rw [if_neg hkb, if_neg hkb]

/-- the formula of pass `j` is transported along a change of state that leaves alone the positions
read and written by pass `j` -/
theorem StepFormula.transport {t : SuperNodeTree} {N j : Nat} {W W' : Array α} {Y : Nat → Nat → α}
    (hF : StepFormula t N j W Y)
    (hrd : ∀ rc, ReadPos t N j rc → W'[linIdx N rc]? = W[linIdx N rc]?)
    (hwr : ∀ rc, rc ∈ stepPositions t N j → W'[linIdx N rc]? = W[linIdx N rc]?)
    (hsp : stepPositions t N j = subsPositions (etaAt t N j) (t.snodeAt j) ++
      subsPositions (t.snodeAt j) (etaAt t N j)) :
    StepFormula t N j W' Y := by
  intro a b x v hx hv
  have hxη : x ∈ etaAt t N j := List.mem_of_getElem? hx
  have hvν : v ∈ t.snodeAt j := List.mem_of_getElem? hv
  have e1 : W'.getD (linIdx N (x, v)) 0 = W.getD (linIdx N (x, v)) 0 :=
    getD_of_getElem?_eq (hwr _ (by rw [hsp]; exact List.mem_append_left _ (mem_subsPositions.2 ⟨hxη, hvν⟩)))
  have e2 : W'.getD (linIdx N (v, x)) 0 = W.getD (linIdx N (v, x)) 0 :=
    getD_of_getElem?_eq (hwr _ (by rw [hsp]; exact List.mem_append_right _ (mem_subsPositions.2 ⟨hvν, hxη⟩)))
  have e3 : (∑ k ∈ range (t.sepAt j).length, W'.getD (linIdx N (x, (t.sepAt j).getD k 0)) 0 * Y k b) =
      ∑ k ∈ range (t.sepAt j).length, W.getD (linIdx N (x, (t.sepAt j).getD k 0)) 0 * Y k b := by
    apply Finset.sum_congr rfl
    intro k hk
    rw [getD_of_getElem?_eq (hrd _ (Or.inl ⟨hxη, list_getD_mem (Finset.mem_range.1 hk)⟩))]
  rw [e1, e2, e3]
  exact hF a b x v hx hv

/-- [F] **one pass**: if the external step returns the entries of `Wηα · Y` (computed on the state
`W` it is given), then the pass succeeds, leaves the blocks `Wηα`, `Wαα`, `Wαν` alone, and the
new state satisfies `W'ην = W'ηα · Y = (W'νη)ᵀ` -/
theorem completion_step_recurrence (ext : Nat → Array α → MErr (Nat × Nat → α))
    {t : SuperNodeTree} {N : Nat} (h : ValidTree t N) {j : Nat} (hj : j < t.nCliques)
    (W : Array α) (hW : W.size = N * N) (f : Nat × Nat → α) (hf : ext j W = .ok f)
    (Y : Nat → Nat → α) (hY : ProductOf t N j W Y f) :
    ∃ W', psdCompleteStepData ext t N j W = .ok W' ∧ W'.size = N * N ∧
      (∀ k, k ∉ (stepPositions t N j).map (linIdx N) → W'[k]? = W[k]?) ∧
      (∀ rc, ReadPos t N j rc → W'[linIdx N rc]? = W[linIdx N rc]?) ∧
      StepFormula t N j W' Y := by
  obtain ⟨W', hstep, hsz, hfr, hval⟩ := psdCompleteStepData_values ext h hj W hW f hf
  have hrd : ∀ rc, ReadPos t N j rc → W'[linIdx N rc]? = W[linIdx N rc]? :=
    fun rc hr => hfr _ (hr.not_step h hj)
  refine ⟨W', hstep, hsz, hfr, hrd, fun a b x v hx hv => ?_⟩
  have hxη : x ∈ etaAt t N j := List.mem_of_getElem? hx
  have hb : b < (t.snodeAt j).length := (List.getElem?_eq_some_iff.1 hv).1
  obtain ⟨v1, v2⟩ := hval a b x v hx hv
  have e3 : (∑ k ∈ range (t.sepAt j).length, W'.getD (linIdx N (x, (t.sepAt j).getD k 0)) 0 * Y k b) =
      ∑ k ∈ range (t.sepAt j).length, W.getD (linIdx N (x, (t.sepAt j).getD k 0)) 0 * Y k b := by
    apply Finset.sum_congr rfl
    intro k hk
    rw [getD_of_getElem?_eq (hrd _ (Or.inl ⟨hxη, list_getD_mem (Finset.mem_range.1 hk)⟩))]
  rw [e3, ← hY a b x hx hb, Array.getD_eq_getD_getElem?, Array.getD_eq_getD_getElem?, v1, v2]
  exact ⟨rfl, rfl⟩

/-- [F] **the whole loop**: let `C j Wαα Wαν Y` be any contract between the blocks handed to the
solver in pass `j` and its result `Y` (Cholesky: `Wαα · Y = Wαν`; SVD fallback: `Y = Wαα⁺ Wαν`).
If in every pass the external step returns the entries of `Wηα · Y` for a `Y` satisfying the
contract on the state it is given, then on the FINAL state `W'` every pass `j` of the loop has a
`Y` that satisfies the contract with the FINAL blocks `W'αα`, `W'αν` and
`W'ην = W'ηα · Y = (W'νη)ᵀ`: the completion formula `Wην = Wηα Wαα⁺ Wαν` holds for every clique.
(The passes run over a decreasing list of clique indices; the positions that pass `j` reads or
writes are not written by the later passes.) -/
theorem completion_loop_recurrence (ext : Nat → Array α → MErr (Nat × Nat → α))
    {t : SuperNodeTree} {N : Nat} (h : ValidTree t N)
    (C : Nat → (Nat → Nat → α) → (Nat → Nat → α) → (Nat → Nat → α) → Prop)
    (hext : ∀ j W0 f, j < t.nCliques → W0.size = N * N → ext j W0 = .ok f →
      ∃ Y, C j (blockAA t N j W0) (blockAN t N j W0) Y ∧ ProductOf t N j W0 Y f) :
    ∀ (js : List Nat), (∀ j ∈ js, j < t.nCliques) → js.Pairwise (· > ·) →
      ∀ (W W' : Array α), W.size = N * N →
        js.foldlM (fun W j => psdCompleteStepData ext t N j W) W = .ok W' →
        ∀ j ∈ js, ∃ Y, C j (blockAA t N j W') (blockAN t N j W') Y ∧ StepFormula t N j W' Y := by
  intro js
  induction js with
  | nil => intro _ _ _ _ _ _ j hj; exact absurd hj List.not_mem_nil
  | cons j0 js ih =>
    intro hjs hpw W W' hW hfold j hjm
    have hj0 : j0 < t.nCliques := hjs j0 (List.mem_cons_self ..)
    have hlater : ∀ j' ∈ js, j' < j0 := fun j' hj' => (List.pairwise_cons.1 hpw).1 j' hj'
    obtain ⟨g, hstep, _⟩ := psdCompleteStepData_spec ext h hj0 W hW
    rw [List.foldlM_cons] at hfold
    cases hf : ext j0 W with
    | error e =>
      rw [hstep, hf] at hfold
      exact absurd hfold (by simp [bind, Except.bind])
    | ok f =>
      obtain ⟨Y, hC, hP⟩ := hext j0 W f hj0 hW hf
      obtain ⟨W1, hs1, hsz1, _, hrd1, hF1⟩ := completion_step_recurrence ext h hj0 W hW f hf Y hP
      rw [hs1] at hfold
      simp only [bind, Except.bind] at hfold
      rcases List.mem_cons.1 hjm with rfl | hjm'
      · -- the pass just executed: nothing it read or wrote is touched afterwards
        obtain ⟨_, hfr⟩ := dataLoop_frame ext h js (fun j' hj' => hjs j' (List.mem_cons_of_mem _ hj'))
          W1 W' hsz1 hfold
        have hνlt : ∀ v ∈ t.snodeAt j, v < N := fun v hv =>
          h.clique_lt j hj0 v (ValidTree.snode_sub_clique j v hv)
        have hrdF : ∀ rc, ReadPos t N j rc → W'[linIdx N rc]? = W1[linIdx N rc]? := by
          intro rc hr
          apply hfr
          have hc : CoordOf t N j rc.1 ∧ CoordOf t N j rc.2 := by
            rcases hr with ⟨a1, a2⟩ | ⟨a1, a2⟩ | ⟨a1, a2⟩
            · exact ⟨Or.inl a1, Or.inr (Or.inr a2)⟩
            · exact ⟨Or.inr (Or.inr a1), Or.inr (Or.inr a2)⟩
            · exact ⟨Or.inr (Or.inr a1), Or.inr (Or.inl a2)⟩
          exact not_later_step h hj0 hc.1 hc.2 (hr.lt h hj0).1 js hlater
        have hwrF : ∀ rc, rc ∈ stepPositions t N j → W'[linIdx N rc]? = W1[linIdx N rc]? := by
          intro rc hr
          apply hfr
          rw [stepPositions_eq h hj0] at hr
          rcases List.mem_append.1 hr with a | a
          · obtain ⟨a1, a2⟩ := mem_subsPositions.1 a
            exact not_later_step h hj0 (Or.inl a1) (Or.inr (Or.inl a2)) (mem_etaAt.1 a1).2.1 js hlater
          · obtain ⟨a1, a2⟩ := mem_subsPositions.1 a
            exact not_later_step h hj0 (Or.inr (Or.inl a1)) (Or.inl a2) (hνlt _ a1) js hlater
        refine ⟨Y, ?_, hF1.transport hrdF hwrF (stepPositions_eq h hj0)⟩
        obtain ⟨b1, b2⟩ := blocks_congr t N j W1 W' hrdF
        obtain ⟨c1, c2⟩ := blocks_congr t N j W W1 hrd1
        rw [b1, b2, c1, c2]
        exact hC
      · exact ih (fun j' hj' => hjs j' (List.mem_cons_of_mem _ hj')) (List.pairwise_cons.1 hpw).2
          W1 W' hsz1 hfold j hjm'

end Recurrence

/-! ## `psd_complete` as a whole -/

private theorem mem_toList_getD_R (p : Array Nat) {x : Nat} (hx : x ∈ p.toList) :
    ∃ i, i < p.size ∧ p.getD i 0 = x := by
  obtain ⟨i, hi, rfl⟩ := List.mem_iff_getElem.1 hx
  have hi' : i < p.size := by simpa using hi
  exact ⟨i, hi', by simp [Array.getD, hi']⟩

private theorem toList_getElem?_getD_R (a : Array Nat) (i : Nat) (h : i < a.size) :
    a.toList[i]? = some (a.getD i 0) := by
  simp [Array.getD, h]

/-- [F] **the completion recurrence for `psd_complete`**: if `psd_complete` returns `B` on a valid
pattern, and in every pass the external step returned the entries of `Wηα · Y` for a `Y` satisfying
the contract `C` with the blocks it was given, then `B` is the un-permuted copy of a matrix `W`
(`B[(ordering[x], ordering[y])] = W[(x, y)]`) on which every pass `j = 0 … n_cliques - 2` has a `Y`
satisfying the contract with the FINAL blocks `Wαα`, `Wαν` and `Wην = Wηα · Y = (Wνη)ᵀ`. -/
theorem psdComplete_recurrence [Semiring α] (ext : Nat → Array α → MErr (Nat × Nat → α))
    {p : SPattern} (h : ValidPattern p)
    (C : Nat → (Nat → Nat → α) → (Nat → Nat → α) → (Nat → Nat → α) → Prop)
    (hext : ∀ j W0 f, j < p.sntree.nCliques → W0.size = p.ordering.size * p.ordering.size →
      ext j W0 = .ok f →
      ∃ Y, C j (blockAA p.sntree p.ordering.size j W0) (blockAN p.sntree p.ordering.size j W0) Y ∧
        ProductOf p.sntree p.ordering.size j W0 Y f)
    (A B : Array α) (hB : psdComplete ext A p.ordering.size p = .ok B) :
    ∃ W : Array α, W.size = p.ordering.size * p.ordering.size ∧
      (∀ x y, x < p.ordering.size → y < p.ordering.size →
        B[linIdx p.ordering.size (p.ordering.getD x 0, p.ordering.getD y 0)]? =
          W[linIdx p.ordering.size (x, y)]?) ∧
      ∀ j, j + 1 < p.sntree.nCliques →
        ∃ Y, C j (blockAA p.sntree p.ordering.size j W) (blockAN p.sntree p.ordering.size j W) Y ∧
          StepFormula p.sntree p.ordering.size j W Y := by
  have : Inhabited α := ⟨0⟩
  obtain ⟨q, hq, hqs, hq1, hq2, _⟩ := invperm_utils_spec p.ordering h.ordering_perm
  generalize hN : p.ordering.size = N at *
  have hA : A.size = N * N := by
    by_contra hne
    unfold psdComplete at hB
    rw [if_pos hne] at hB
    exact absurd hB (by simp [throw, throwThe, MonadExceptOf.throw])
  have hordlt : ∀ r ∈ p.ordering.toList, r < N := by
    intro r hr
    obtain ⟨i, hi, rfl⟩ := mem_toList_getD_R _ hr
    exact hN ▸ h.ord_lt i (hN ▸ hi)
  have hqlt : ∀ r ∈ q.toList, r < N := by
    intro r hr
    obtain ⟨i, hi, rfl⟩ := mem_toList_getD_R _ hr
    exact (hq2 i (by omega)).1
  obtain ⟨W0, hW0, hW0s, _, _⟩ := subsrefInto_spec N (Array.replicate (N * N) (0 : α)) A
    p.ordering.toList p.ordering.toList "psd_complete: W = A[p,p]" (by simp) hA
    (by simp [hN]) (by simp [hN]) hordlt hordlt
  unfold psdComplete at hB
  rw [if_neg (by simpa using hA), hq] at hB
  simp only [bind, Except.bind] at hB
  rw [hW0] at hB
  simp only [] at hB
  rw [if_neg (by have := h.tree.ncl_pos; omega)] at hB
  generalize hloop : List.foldlM (fun W j => psdCompleteStepData ext p.sntree N j W) W0
    (List.range (p.sntree.nCliques - 1)).reverse = res at hB
  cases res with
  | error e => exact absurd hB (by simp)
  | ok W' =>
    simp only [] at hB
    have hjs : ∀ j ∈ (List.range (p.sntree.nCliques - 1)).reverse, j < p.sntree.nCliques := by
      intro j hj
      have := List.mem_range.1 (List.mem_reverse.1 hj)
      omega
    have htree : ValidTree p.sntree N := hN ▸ h.tree
    obtain ⟨hW's, _⟩ := dataLoop_frame ext htree _ hjs W0 W' hW0s hloop
    obtain ⟨B', hB', _, hB'v, _⟩ := subsrefInto_spec N A W' q.toList q.toList
      "psd_complete: A = W[ip,ip]" hA hW's (by simp [hqs]) (by simp [hqs]) hqlt hqlt
    rw [hB'] at hB
    have : B' = B := by simpa using hB
    subst this
    refine ⟨W', hW's, fun x y hx hy => ?_, fun j hj => ?_⟩
    · have hpx : p.ordering.getD x 0 < N := hN ▸ h.ord_lt x (hN ▸ hx)
      have hpy : p.ordering.getD y 0 < N := hN ▸ h.ord_lt y (hN ▸ hy)
      have hqi := toList_getElem?_getD_R q (p.ordering.getD x 0) (by omega)
      have hqj := toList_getElem?_getD_R q (p.ordering.getD y 0) (by omega)
      rw [hB'v _ _ _ _ hqi hqj, hq1 x (by omega), hq1 y (by omega)]
    · have hpw : (List.range (p.sntree.nCliques - 1)).reverse.Pairwise (· > ·) := by
        rw [List.pairwise_reverse]
        exact List.pairwise_lt_range
      exact completion_loop_recurrence ext htree C hext _ hjs hpw W0 W' hW0s hloop j
        (List.mem_reverse.2 (List.mem_range.2 (by omega)))

/-! ## non-vacuity: an external step that satisfies a contract -/

/-- an external step that really computes a product `Wηα · Y`, with `Y := Wαν` (what the solve
returns when `Wαα` is the identity) -/
def productExt [Semiring α] (t : SuperNodeTree) (N : Nat) : Nat → Array α → MErr (Nat × Nat → α) :=
  fun j W => .ok (fun ab => ∑ k ∈ range (t.sepAt j).length,
    W.getD (linIdx N ((etaAt t N j).getD ab.1 0, (t.sepAt j).getD k 0)) 0 * blockAN t N j W k ab.2)

theorem productExt_contract [Semiring α] (t : SuperNodeTree) (N : Nat) (j : Nat) (W0 : Array α)
    (f : Nat × Nat → α) (hf : productExt t N j W0 = .ok f) :
    ∃ Y, (fun (_ : Nat) (_ AN Y : Nat → Nat → α) => Y = AN) j (blockAA t N j W0) (blockAN t N j W0) Y ∧
      ProductOf t N j W0 Y f := by
  refine ⟨blockAN t N j W0, rfl, ?_⟩
  have : f = fun ab => ∑ k ∈ range (t.sepAt j).length,
      W0.getD (linIdx N ((etaAt t N j).getD ab.1 0, (t.sepAt j).getD k 0)) 0 * blockAN t N j W0 k ab.2 :=
    (Except.ok.inj hf).symm
  subst this
  intro a b x hx _
  have : (etaAt t N j).getD a 0 = x := by
    rw [List.getD_eq_getElem?_getD, hx, Option.getD_some]
  simp only [this]

end Clarabel.Chordal
