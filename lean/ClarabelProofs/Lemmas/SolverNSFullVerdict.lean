/-
  Composition on the whole-solver model WITH NONSYMMETRIC CONES — where a verdict comes from, read
  off `Returned` (`Lemmas/SolverNSFullDefs.lean`; established by `solve_returnedN` of
  `Lemmas/SolverNSFullRet.lean`).  Counterpart of `solve_full_verdict` (`SolverFullTraj.lean`),
  `solve_almost_infeasible_verdict`, `solve_almost_solved_verdict` (`SolverFullAlmost.lean`) of the
  first model; the decision-table lemmas about `Info.*` are those files' (they do not mention a solver
  object).

  All structural ([S]): every scalar type, `Float` included.
-/
import ClarabelProofs.Lemmas.SolverNSFullDefs
import ClarabelProofs.Lemmas.SolverFullAlmost

namespace Clarabel.SolverNS
open Clarabel Info Residuals Clarabel.InfoReport
open Clarabel.Solver (equilView)

set_option linter.unusedSectionVars false
set_option linter.unusedVariables false

variable {α : Type}

section
variable [Add α] [Sub α] [Mul α] [Div α] [Neg α] [LT α] [LE α] [DecidableLT α] [DecidableLE α]
  [BEq α] [OfNat α 0] [OfNat α 1] [OfNat α 2] [OfNat α 3] [OfNat α 4] [OfNat α 100] [OfNat α 1000]
  [OfScientific α] [FloatLike α]

/-- [S] **a full-tolerance verdict** (`Solved`, `PrimalInfeasible`, `DualInfeasible`) is decided by
`check_convergence_full` in the LAST pass, on the figures `Info.update` assigned in that pass to the
iterate that is returned: no rollback, no strategy-checkpoint status, no `post_process` change -/
theorem Returned.full_verdict {st : Settings α} {S : Solver α} {r : SolveResult α} {p l : PassRec α}
    (hR : Returned st S r p l) {X : SolverStatus}
    (hX : X = .solved ∨ X = .primalInfeasible ∨ X = .dualInfeasible)
    (h : r.S.solution.status = X) :
    p = l ∧ (Info.checkConvergenceFull l.info l.dotBz l.dotQx st.info).status = X
      ∧ r.S.st.info.status = X := by
  have hst : r.S.st.info.status = X := by rw [← hR.status]; exact h
  obtain ⟨j, it, k, hj, hcase⟩ := hR.final
  have hjs : ({ j with iterations := it } : InfoS α).status = X := by
    rw [hj] at hst
    exact Solver.postProcess_status_full hX hst
  have hjs' : j.status = X := hjs
  rcases hcase with ⟨hpl, s', hs', hs3⟩ | ⟨hip, hjr, -⟩
  · rw [hs'] at hjs'
    have e : s' = X := hjs'
    rcases hs3 with h1 | h1 | h1
    · rw [h1] at e
      exact ⟨hpl, Solver.checkTermination_status_full hX e, hst⟩
    · rw [h1] at e; subst e; rcases hX with h | h | h <;> cases h
    · rw [h1] at e; subst e; rcases hX with h | h | h <;> cases h
  · rw [hjr] at hjs'
    have e : (Info.checkTermination l.info l.dotBz l.dotQx st.info k false).1.status = X := hjs'
    rw [hip] at e
    subst e; rcases hX with h | h | h <;> cases h

/-- [S] **where an `Almost*Infeasible` verdict comes from**: `Info::post_process` assigns it after the
loop — (a) by `check_convergence_almost` on the figures of the LAST pass, whose iterate is the one
returned, or (b) after an insufficient-progress rollback, on the restored info of the discarded last
pass (excluded by `Info.rollback_never_infeasible` when `reduced_tol_ktratio ≤ 1000`) -/
theorem Returned.almost_infeasible_verdict {st : Settings α} {S : Solver α} {r : SolveResult α}
    {p l : PassRec α} (hR : Returned st S r p l) {X : SolverStatus}
    (hX : X = .almostPrimalInfeasible ∨ X = .almostDualInfeasible)
    (h : r.S.solution.status = X) :
    (p = l ∧ (Info.checkConvergenceAlmost l.info l.dotBz l.dotQx st.info).status = X)
      ∨ (∃ k, (Info.checkTermination l.info l.dotBz l.dotQx st.info k false).1.status = .insufficientProgress
          ∧ (Info.postProcess (Info.resetToPrev (Info.checkTermination l.info l.dotBz l.dotQx st.info k false).1)
                l.dotBz l.dotQx st.info).status = X) := by
  have hst : r.S.st.info.status = X := by rw [← hR.status]; exact h
  obtain ⟨j, it, k, hj, hcase⟩ := hR.final
  rw [hj] at hst
  have hlit1 : SolverStatus.numericalError ≠ X := fun e => by subst e; rcases hX with h | h <;> cases h
  have hlit2 : SolverStatus.insufficientProgress ≠ X := fun e => by subst e; rcases hX with h | h <;> cases h
  rcases hcase with ⟨hpl, s', hs', hs3⟩ | ⟨hip, hjr, -⟩
  · left
    refine ⟨hpl, ?_⟩
    rw [hs'] at hst
    have hne : s' ≠ X := by
      rcases hs3 with h1 | h1 | h1
      · rw [h1]; exact Solver.checkTermination_not_almost hR.lun hX
      · rw [h1]; exact hlit1
      · rw [h1]; exact hlit2
    exact Solver.postProcess_almost_transfer l.info s' it l.dotBz l.dotQx st.info hst hne
  · right
    rw [hjr, Solver.postProcess_status_iterations] at hst
    exact ⟨k, hip, hst⟩

/-- [S] **where an `AlmostSolved` verdict comes from**: `Info::post_process` assigns it after the loop,
and its reduced `is_solved` test holds on the figures `Info.update` assigned to the RETURNED iterate
`p` (the last record, or after the insufficient-progress rollback the record of the last pass that
reached `add_step`) -/
theorem Returned.almost_solved_verdict {st : Settings α} {S : Solver α} {r : SolveResult α}
    {p l : PassRec α} (hR : Returned st S r p l) (h : r.S.solution.status = .almostSolved) :
    (p.info.gap_abs < st.info.reduced.gap_abs ∨ p.info.gap_rel < st.info.reduced.gap_rel)
      ∧ p.info.res_primal < st.info.reduced.feas ∧ p.info.res_dual < st.info.reduced.feas
      ∧ r.S.st.info.status = .almostSolved := by
  have hst : r.S.st.info.status = .almostSolved := by rw [← hR.status]; exact h
  obtain ⟨j, it, k, hj, hcase⟩ := hR.final
  have hpp := hst
  rw [hj] at hpp
  have h0 : ({ j with iterations := it } : InfoS α).status ≠ .almostSolved := by
    show j.status ≠ .almostSolved
    rcases hcase with ⟨-, s', hs', hs3⟩ | ⟨hip, hjr, -⟩
    · rw [hs']
      show s' ≠ .almostSolved
      rcases hs3 with h1 | h1 | h1
      · rw [h1]; exact Solver.checkTermination_not_almostSolved hR.lun
      · rw [h1]; decide
      · rw [h1]; decide
    · rw [hjr]
      show (Info.checkTermination l.info l.dotBz l.dotQx st.info k false).1.status ≠ .almostSolved
      rw [hip]; decide
  obtain ⟨-, t1, t2, t3⟩ := postProcess_almostSolved _ _ _ _ h0 hpp
  -- the figures of `{ j with iterations := it }` are those of the final info, i.e. of `p.info`
  have hf : SameFigures ({ j with iterations := it } : InfoS α) p.info := by
    have h1 := sameFigures_postProcess ({ j with iterations := it } : InfoS α) l.dotBz l.dotQx st.info
    rw [← hj] at h1
    exact h1.symm.trans hR.figs
  refine ⟨?_, ?_, ?_, hst⟩
  · rw [← hf.ga, ← hf.gr]; exact t1
  · rw [← hf.rp]; exact t2
  · rw [← hf.rd]; exact t3

end

end Clarabel.SolverNS
