/-
  C05 (weak duality): a uniform membership predicate for an arbitrary LIST of cones of all
  seven kinds the solver supports (zero, nonnegative, second-order, exponential, power,
  generalised power, PSD-triangle) acting on a block-partitioned real vector, and
  `s ∈ K, z ∈ K* ⟹ ⟨s,z⟩ ≥ 0` for every such list; then weak duality with residual slack
  with the cone hypothesis discharged.

  Conventions (the solver's, `src/solver/core/cones/*.rs`):
  * a vector is a `List ℝ`; the cone list `cs` splits it into consecutive blocks of lengths
    `c.dim` (`InK7` / `InKdual7`; the lengths must add up exactly);
  * every block predicate is stated on the entries `v.getD i 0` of the block;
  * zero cone `{0}`, dual = whole space; nonnegative orthant; second-order cone
    `v₀ ≥ ‖v₁..‖₂` as `0 ≤ v₀ ∧ Σ vᵢ² ≤ v₀²`; closed exponential cone `ExpK`/`ExpKdual`
    (`DualityExp.lean`); closed power cone `PowK a`/`PowKdual a` (`DualityPow.lean`);
    generalised power cone with exponents `a` (a list, `Σ aᵢ = 1`, `aᵢ > 0`) and `dim2` free
    entries in squared-norm form (`DualityGenPow.lean`); PSD cone of order `n` on the scaled
    packed triangle (svec) of length `n(n+1)/2` (`DualityPsd.lean`).
-/
import ClarabelProofs.Lemmas.Duality
import ClarabelProofs.Lemmas.DualityPow
import ClarabelProofs.Lemmas.DualityGenPow
import ClarabelProofs.Lemmas.DualityExp
import ClarabelProofs.Lemmas.DualityPsd
import Mathlib.Data.List.OfFn
import Mathlib.Algebra.BigOperators.Fin

namespace Clarabel.Lemmas
open Finset Matrix
open PsdIndex (triangularNumber)

/-- a cone of one of the seven supported kinds, with its dimension / parameters -/
inductive ConeSpec7 where
  | zero (dim : ℕ)
  | nonneg (dim : ℕ)
  | soc (dim : ℕ)
  | exp
  | pow (a : ℝ)
  | genpow (a : List ℝ) (dim2 : ℕ)
  | psd (n : ℕ)

/-- number of rows of the cone (`numel`) -/
def ConeSpec7.dim : ConeSpec7 → ℕ
  | .zero d => d
  | .nonneg d => d
  | .soc d => d
  | .exp => 3
  | .pow _ => 3
  | .genpow a d2 => a.length + d2
  | .psd n => triangularNumber n

/-- admissible parameters: `0 < a < 1` (power cone), `aᵢ > 0`, `Σ aᵢ = 1` (generalised power
cone) — what `SupportedConeT` validation in the solver demands -/
def ConeSpec7.Valid : ConeSpec7 → Prop
  | .pow a => 0 < a ∧ a < 1
  | .genpow a _ => (∀ x ∈ a, 0 < x) ∧ a.sum = 1
  | _ => True

/-- `v ∈ K` for a single cone `K` (the block `v` has exactly `K.dim` entries) -/
def InCone7 : ConeSpec7 → List ℝ → Prop
  | .zero d, v => v.length = d ∧ ∀ i, i < d → v.getD i 0 = 0
  | .nonneg d, v => v.length = d ∧ ∀ i, i < d → 0 ≤ v.getD i 0
  | .soc d, v => v.length = d ∧ 0 ≤ v.getD 0 0 ∧
      ∑ i ∈ range (d - 1), v.getD (i + 1) 0 ^ 2 ≤ v.getD 0 0 ^ 2
  | .exp, v => v.length = 3 ∧ ExpK (v.getD 0 0) (v.getD 1 0) (v.getD 2 0)
  | .pow a, v => v.length = 3 ∧ PowK a (v.getD 0 0) (v.getD 1 0) (v.getD 2 0)
  | .genpow a d2, v => v.length = a.length + d2 ∧ (∀ i, i < a.length → 0 ≤ v.getD i 0) ∧
      ∑ j ∈ range d2, v.getD (a.length + j) 0 ^ 2
        ≤ (∏ i ∈ range a.length, v.getD i 0 ^ a.getD i 0) ^ 2
  | .psd n, v => v.length = triangularNumber n ∧
      ∀ x : ℕ → ℝ, 0 ≤ qfN n (PsdTri.svecToMat v.toArray) x

/-- `v ∈ K*` for a single cone `K` -/
def InDual7 : ConeSpec7 → List ℝ → Prop
  | .zero d, v => v.length = d
  | .nonneg d, v => v.length = d ∧ ∀ i, i < d → 0 ≤ v.getD i 0
  | .soc d, v => v.length = d ∧ 0 ≤ v.getD 0 0 ∧
      ∑ i ∈ range (d - 1), v.getD (i + 1) 0 ^ 2 ≤ v.getD 0 0 ^ 2
  | .exp, v => v.length = 3 ∧ ExpKdual (v.getD 0 0) (v.getD 1 0) (v.getD 2 0)
  | .pow a, v => v.length = 3 ∧ PowKdual a (v.getD 0 0) (v.getD 1 0) (v.getD 2 0)
  | .genpow a d2, v => v.length = a.length + d2 ∧ (∀ i, i < a.length → 0 ≤ v.getD i 0) ∧
      ∑ j ∈ range d2, v.getD (a.length + j) 0 ^ 2
        ≤ (∏ i ∈ range a.length, (v.getD i 0 / a.getD i 0) ^ a.getD i 0) ^ 2
  | .psd n, v => v.length = triangularNumber n ∧
      ∀ x : ℕ → ℝ, 0 ≤ qfN n (PsdTri.svecToMat v.toArray) x

/-- `v ∈ K = K₁ × … × K_p`: consecutive blocks of `v`, of lengths `Kᵢ.dim`, lie in the `Kᵢ`
(and nothing is left over) -/
def InK7 : List ConeSpec7 → List ℝ → Prop
  | [], v => v = []
  | c :: cs, v => InCone7 c (v.take c.dim) ∧ InK7 cs (v.drop c.dim)

/-- `v ∈ K* = K₁* × … × K_p*` -/
def InKdual7 : List ConeSpec7 → List ℝ → Prop
  | [], v => v = []
  | c :: cs, v => InDual7 c (v.take c.dim) ∧ InKdual7 cs (v.drop c.dim)

/-- Euclidean inner product of two lists -/
def listDot (s z : List ℝ) : ℝ := (List.zipWith (· * ·) s z).sum

theorem InCone7.length_eq {c : ConeSpec7} {v : List ℝ} (h : InCone7 c v) : v.length = c.dim := by
  cases c <;> exact h.1

theorem InDual7.length_eq {c : ConeSpec7} {v : List ℝ} (h : InDual7 c v) : v.length = c.dim := by
  cases c
  case zero => exact h
  all_goals exact h.1

theorem getD_of_lt (l : List ℝ) (i : ℕ) (h : i < l.length) : l.getD i 0 = l[i] := by
  rw [List.getD_eq_getElem?_getD, List.getElem?_eq_getElem h, Option.getD_some]

theorem listDot_eq_sum_range : ∀ (n : ℕ) (s z : List ℝ), s.length = n → z.length = n →
    listDot s z = ∑ i ∈ range n, s.getD i 0 * z.getD i 0 := by
  intro n
  induction n with
  | zero =>
    intro s z hs _
    rw [List.length_eq_zero_iff] at hs
    subst hs
    simp [listDot]
  | succ n ih =>
    intro s z hs hz
    match s, z, hs, hz with
    | a :: s', b :: z', hs, hz =>
      rw [sum_range_succ']
      simp only [List.getD_cons_succ, List.getD_cons_zero]
      rw [← ih s' z' (by simpa using hs) (by simpa using hz)]
      unfold listDot
      rw [List.zipWith_cons_cons, List.sum_cons]
      ring

theorem list_sum_eq_sum_range : ∀ (l : List ℝ), l.sum = ∑ i ∈ range l.length, l.getD i 0 := by
  intro l
  induction l with
  | nil => simp
  | cons a t ih =>
    rw [List.length_cons, sum_range_succ', List.sum_cons, ih]
    simp only [List.getD_cons_succ, List.getD_cons_zero]
    ring

theorem listDot_append (a b c d : List ℝ) (h : a.length = c.length) :
    listDot (a ++ b) (c ++ d) = listDot a c + listDot b d := by
  unfold listDot
  rw [List.zipWith_append h, List.sum_append]

/-- `Vec.dot` (the model's left fold) of two arrays is the list inner product -/
theorem vecDot_toArray (s z : List ℝ) : Vec.dot s.toArray z.toArray = listDot s z := by
  have gen : ∀ (l m : List ℝ) (init : ℝ),
      (l.zip m).foldl (fun acc p => acc + p.1 * p.2) init
        = init + (List.zipWith (· * ·) l m).sum := by
    intro l
    induction l with
    | nil => intro m init; simp
    | cons a t ih =>
      intro m init
      cases m with
      | nil => simp
      | cons b u =>
        simp only [List.zip_cons_cons, List.foldl_cons, List.zipWith_cons_cons, List.sum_cons]
        rw [ih u _]; ring
  unfold Vec.dot listDot
  rw [gen, zero_add]

/-- [R] one block: `b ∈ K`, `d ∈ K*` ⟹ `⟨b,d⟩ ≥ 0`, for each of the seven kinds -/
theorem cone7_block_pair_nonneg (c : ConeSpec7) (hv : c.Valid) (b d : List ℝ)
    (hb : InCone7 c b) (hd : InDual7 c d) : 0 ≤ listDot b d := by
  rw [listDot_eq_sum_range c.dim b d hb.length_eq hd.length_eq]
  cases c with
  | zero n =>
    apply le_of_eq; symm
    apply sum_eq_zero
    intro i hi
    rw [hb.2 i (mem_range.mp hi), zero_mul]
  | nonneg n =>
    exact nn_pair_nonneg _ _ _ (fun i hi => hb.2 i (mem_range.mp hi))
      (fun i hi => hd.2 i (mem_range.mp hi))
  | soc n =>
    cases n with
    | zero => simp [ConeSpec7.dim]
    | succ n =>
      obtain ⟨_, hb0, hbq⟩ := hb
      obtain ⟨_, hd0, hdq⟩ := hd
      simp only [Nat.add_sub_cancel] at hbq hdq
      show 0 ≤ ∑ i ∈ range (n + 1), b.getD i 0 * d.getD i 0
      rw [sum_range_succ', add_comm]
      exact soc_pair_nonneg (range n) (fun i => b.getD (i + 1) 0) (fun i => d.getD (i + 1) 0)
        _ _ hb0 hd0 hbq hdq
  | exp =>
    have := exp_pair_nonneg_closed hb.2 hd.2
    show 0 ≤ ∑ i ∈ range 3, b.getD i 0 * d.getD i 0
    simp only [sum_range_succ, sum_range_zero, zero_add]
    exact this
  | pow a =>
    have := pow_pair_nonneg hv.1 hv.2 hb.2 hd.2
    show 0 ≤ ∑ i ∈ range 3, b.getD i 0 * d.getD i 0
    simp only [sum_range_succ, sum_range_zero, zero_add]
    exact this
  | genpow a d2 =>
    obtain ⟨_, hbu, hbw⟩ := hb
    obtain ⟨_, hdu, hdw⟩ := hd
    obtain ⟨hapos, hasum⟩ := hv
    show 0 ≤ ∑ i ∈ range (a.length + d2), b.getD i 0 * d.getD i 0
    rw [sum_range_add]
    refine genpow_pair_nonneg (range a.length) (range d2) (fun i => a.getD i 0)
      (fun i => b.getD i 0) (fun i => d.getD i 0) (fun j => b.getD (a.length + j) 0)
      (fun j => d.getD (a.length + j) 0) ?_ ?_ (fun i hi => hbu i (mem_range.mp hi))
      (fun i hi => hdu i (mem_range.mp hi)) hbw hdw
    · intro i hi
      have hi' : i < a.length := mem_range.mp hi
      rw [getD_of_lt _ _ hi']
      exact hapos _ (List.getElem_mem hi')
    · rw [← list_sum_eq_sum_range]; exact hasum
  | psd n =>
    show 0 ≤ ∑ i ∈ range (triangularNumber n), b.getD i 0 * d.getD i 0
    rw [← listDot_eq_sum_range _ b d hb.1 hd.1, ← vecDot_toArray]
    exact psd_svec_pair_nonneg n _ _ (by simpa using hb.1) (by simpa using hd.1) hb.2 hd.2

/-- [R] **`s ∈ K`, `z ∈ K*` ⟹ `⟨s,z⟩ ≥ 0` for an arbitrary list of cones of the seven kinds** -/
theorem pairing_nonneg_all : ∀ (cs : List ConeSpec7), (∀ c ∈ cs, c.Valid) → ∀ (s z : List ℝ),
    InK7 cs s → InKdual7 cs z → 0 ≤ listDot s z := by
  intro cs
  induction cs with
  | nil =>
    intro _ s z hs hz
    rw [show s = [] from hs, show z = [] from hz]
    simp [listDot]
  | cons c cs ih =>
    intro hv s z hs hz
    obtain ⟨hs1, hs2⟩ := hs
    obtain ⟨hz1, hz2⟩ := hz
    rw [← List.take_append_drop c.dim s, ← List.take_append_drop c.dim z,
      listDot_append _ _ _ _ (by rw [hs1.length_eq, hz1.length_eq])]
    exact add_nonneg
      (cone7_block_pair_nonneg c (hv c List.mem_cons_self) _ _ hs1 hz1)
      (ih (fun c' hc' => hv c' (List.mem_cons_of_mem _ hc')) _ _ hs2 hz2)

/-! ### vectors `Fin m → ℝ` (the form of `weak_duality_slack`) -/

theorem dotProduct_eq_listDot {m : ℕ} (s z : Fin m → ℝ) :
    s ⬝ᵥ z = listDot (List.ofFn s) (List.ofFn z) := by
  rw [listDot_eq_sum_range m _ _ (List.length_ofFn) (List.length_ofFn), Finset.sum_range]
  unfold dotProduct
  apply sum_congr rfl
  intro i _
  rw [getD_of_lt _ _ (by rw [List.length_ofFn]; exact i.2),
    getD_of_lt _ _ (by rw [List.length_ofFn]; exact i.2),
    List.getElem_ofFn, List.getElem_ofFn]

/-- a list of length `m` read back through `getD` as a vector `Fin m → ℝ` -/
theorem ofFn_getD (l : List ℝ) (m : ℕ) (h : l.length = m) :
    List.ofFn (fun i : Fin m => l.getD i 0) = l := by
  subst h
  apply List.ext_getElem
  · rw [List.length_ofFn]
  · intro i h1 h2
    rw [List.getElem_ofFn, getD_of_lt _ _ h2]

/-- [R] the `Fin m → ℝ` form: `s ∈ K`, `z ∈ K*` ⟹ `s ⬝ᵥ z ≥ 0` -/
theorem pairing_nonneg_all_vec {m : ℕ} (cs : List ConeSpec7) (hv : ∀ c ∈ cs, c.Valid)
    (s z : Fin m → ℝ) (hs : InK7 cs (List.ofFn s)) (hz : InKdual7 cs (List.ofFn z)) :
    0 ≤ s ⬝ᵥ z := by
  rw [dotProduct_eq_listDot]
  exact pairing_nonneg_all cs hv _ _ hs hz

variable {n m : ℕ}

/-- [R] weak duality with residual slack, cone hypothesis discharged for any cone list of the
seven kinds (from `gap_identity`; same statement as `C05.weak_duality_slack` otherwise) -/
theorem weak_duality_slack_all (P : Matrix (Fin n) (Fin n) ℝ) (hsym : Pᵀ = P)
    (hpsd : ∀ d : Fin n → ℝ, 0 ≤ d ⬝ᵥ P *ᵥ d) (A : Matrix (Fin m) (Fin n) ℝ) (q : Fin n → ℝ)
    (b : Fin m → ℝ) (x₁ : Fin n → ℝ) (s₁ : Fin m → ℝ) (x₂ : Fin n → ℝ) (z₂ : Fin m → ℝ)
    (cs : List ConeSpec7) (hv : ∀ c ∈ cs, c.Valid) (hs : InK7 cs (List.ofFn s₁))
    (hz : InKdual7 cs (List.ofFn z₂)) :
    pobj P q x₁ - dobj P b x₂ z₂ =
        2⁻¹ * ((x₁ - x₂) ⬝ᵥ P *ᵥ (x₁ - x₂)) + s₁ ⬝ᵥ z₂ - rp A b x₁ s₁ ⬝ᵥ z₂
          + rd P A q x₂ z₂ ⬝ᵥ x₁
    ∧ dobj P b x₂ z₂ - pobj P q x₁ ≤ rp A b x₁ s₁ ⬝ᵥ z₂ - rd P A q x₂ z₂ ⬝ᵥ x₁ := by
  have hK := pairing_nonneg_all_vec cs hv s₁ z₂ hs hz
  have hid := gap_identity P hsym A q b x₁ s₁ x₂ z₂
  refine ⟨hid, ?_⟩
  have h1 := hpsd (x₁ - x₂)
  have h2 : (0 : ℝ) ≤ 2⁻¹ * ((x₁ - x₂) ⬝ᵥ P *ᵥ (x₁ - x₂)) := mul_nonneg (by norm_num) h1
  linarith

/-- [R] the tolerance form: `dobj₂ − pobj₁ ≤ Tp‖z₂‖₁ + Td‖x₁‖₁` -/
theorem weak_duality_slack_tol_all (P : Matrix (Fin n) (Fin n) ℝ) (hsym : Pᵀ = P)
    (hpsd : ∀ d : Fin n → ℝ, 0 ≤ d ⬝ᵥ P *ᵥ d) (A : Matrix (Fin m) (Fin n) ℝ) (q : Fin n → ℝ)
    (b : Fin m → ℝ) (x₁ : Fin n → ℝ) (s₁ : Fin m → ℝ) (x₂ : Fin n → ℝ) (z₂ : Fin m → ℝ)
    (cs : List ConeSpec7) (hv : ∀ c ∈ cs, c.Valid) (hs : InK7 cs (List.ofFn s₁))
    (hz : InKdual7 cs (List.ofFn z₂)) (Tp Td : ℝ) (hp : ∀ i, |rp A b x₁ s₁ i| ≤ Tp)
    (hd : ∀ j, |rd P A q x₂ z₂ j| ≤ Td) :
    dobj P b x₂ z₂ - pobj P q x₁ ≤ Tp * ∑ i, |z₂ i| + Td * ∑ j, |x₁ j| := by
  have h := (weak_duality_slack_all P hsym hpsd A q b x₁ s₁ x₂ z₂ cs hv hs hz).2
  have h1 := dot_le_bound_mul_l1 (rp A b x₁ s₁) z₂ Tp hp
  have h2 := dot_le_bound_mul_l1 (rd P A q x₂ z₂) x₁ Td hd
  have h3 := le_abs_self (rp A b x₁ s₁ ⬝ᵥ z₂)
  have h4 := neg_abs_le (rd P A q x₂ z₂ ⬝ᵥ x₁)
  linarith

end Clarabel.Lemmas
