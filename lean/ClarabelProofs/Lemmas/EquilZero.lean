/-
  Helper lemmas for C10 `zero_rows_unscaled`: an all-zero row of `A` (resp. an all-zero
  column of `[P; A]`) whose cumulative scaling is 1 keeps scaling 1 through every pass of the
  Ruiz loop.
-/
import ClarabelProofs.Lemmas.Equil

namespace Clarabel.Equil
variable {α : Type}

/-- all stored entries whose position satisfies `p row col` are zero -/
def ZeroWhere [OfNat α 0] (M : Csc α) (p : Nat → Nat → Prop) : Prop :=
  ∀ e ∈ M.storedEntries, p e.1 e.2.1 → e.2.2 = 0

theorem mem_entries_mapEntries (M : Csc α) (f : Nat → Nat → α → α) (e : Nat × Nat × α)
    (he : e ∈ (M.mapEntries f).storedEntries) :
    ∃ v, (e.1, e.2.1, v) ∈ M.storedEntries ∧ e.2.2 = f e.1 e.2.1 v := by
  unfold Csc.storedEntries at he ⊢
  obtain ⟨t, ht⟩ := List.mem_iff_getElem?.mp he
  rw [List.getElem?_zip_eq_some, List.getElem?_zip_eq_some] at ht
  obtain ⟨h1, h2, h3⟩ := ht
  have hc : (M.mapEntries f).colIdx = M.colIdx := rfl
  have hr : (M.mapEntries f).rowval = M.rowval := rfl
  rw [hr] at h1
  rw [hc] at h2
  simp only [Csc.mapEntries, Array.getElem?_toList, Array.getElem?_mapIdx] at h1 h2 h3
  cases hv : M.nzval[t]? with
  | none => simp [hv] at h3
  | some v =>
    simp only [hv, Option.map_some, Option.some.injEq] at h3
    refine ⟨v, ?_, ?_⟩
    · apply List.mem_iff_getElem?.mpr
      refine ⟨t, ?_⟩
      rw [List.getElem?_zip_eq_some, List.getElem?_zip_eq_some]
      exact ⟨by simpa using h1, by simpa using h2, by simpa using hv⟩
    · rw [← h3]
      have e1 : M.rowval.getD t 0 = e.1 := by
        rw [Array.getD_eq_getD_getElem?, h1]; rfl
      have e2 : M.colIdx.getD t 0 = e.2.1 := by
        rw [Array.getD_eq_getD_getElem?, h2]; rfl
      rw [e1, e2]

theorem ZeroWhere.mapEntries [MulZeroClass α] {M : Csc α} {p : Nat → Nat → Prop} (h : ZeroWhere M p)
    (f : Nat → Nat → α → α) (hf : ∀ r c, f r c 0 = 0) : ZeroWhere (M.mapEntries f) p := by
  intro e he hp
  obtain ⟨v, hv, hev⟩ := mem_entries_mapEntries M f e he
  have := h _ hv hp
  simp only at this
  rw [hev, this, hf]

theorem entries_scaleMat_eq [Mul α] (M : Csc α) (c : α) :
    scaleMat M c = M.mapEntries (fun _ _ v => v * c) := by
  simp only [scaleMat, Csc.mapEntries]
  congr 1
  apply Array.ext (by simp)
  intro i h1 h2
  simp


section zero
variable [Field α] [LinearOrder α] [IsStrictOrderedRing α] [FloatLike α] [LawfulFloatLike α]

theorem rowZero_iff (M : Csc α) (i : Nat) : RowZero M i ↔ ZeroWhere M (fun r _ => r = i) := Iff.rfl

/-- generic version of `foldl_bump_row_zero` -/
theorem foldl_bump_zero (L : List (Nat × Nat × α)) (g : Nat × Nat × α → Nat) (ns : Array α) (i : Nat)
    (hL : ∀ e ∈ L, g e = i → e.2.2 = 0) (h0 : ns.getD i 0 = 0) :
    (L.foldl (fun ns e => bump ns (g e) (fabs e.2.2)) ns).getD i 0 = 0 := by
  induction L generalizing ns with
  | nil => exact h0
  | cons e r ih =>
    simp only [List.foldl_cons]
    apply ih _ (fun e' he' => hL e' (by simp [he']))
    apply getD_bump_zero _ _ _ _ h0
    intro hk
    rw [hL e (by simp) hk, LawfulFloatLike.fabs_eq, abs_zero]

theorem foldl_bump2_zero (L : List (Nat × Nat × α)) (ns : Array α) (i : Nat)
    (hL : ∀ e ∈ L, (e.1 = i ∨ e.2.1 = i) → e.2.2 = 0) (h0 : ns.getD i 0 = 0) :
    (L.foldl (fun ns e => bump (bump ns e.2.1 (fabs e.2.2)) e.1 (fabs e.2.2)) ns).getD i 0 = 0 := by
  induction L generalizing ns with
  | nil => exact h0
  | cons e r ih =>
    simp only [List.foldl_cons]
    apply ih _ (fun e' he' => hL e' (by simp [he']))
    apply getD_bump_zero
    · apply getD_bump_zero _ _ _ _ h0
      intro hk
      rw [hL e (by simp) (Or.inr hk), LawfulFloatLike.fabs_eq, abs_zero]
    · intro hk
      rw [hL e (by simp) (Or.inl hk), LawfulFloatLike.fabs_eq, abs_zero]

theorem size_foldl_bump2 (L : List (Nat × Nat × α)) (ns : Array α) :
    (L.foldl (fun ns e => bump (bump ns e.2.1 (fabs e.2.2)) e.1 (fabs e.2.2)) ns).size = ns.size := by
  induction L generalizing ns with
  | nil => rfl
  | cons e r ih => rw [List.foldl_cons, ih]; simp [bump]

theorem size_rowNorms (M : Csc α) (w : Array α) : (rowNorms M w).size = w.size := by
  unfold rowNorms; rw [size_foldl_bump _ (fun e => e.1)]; simp

theorem size_colNormsNoReset (M : Csc α) (w : Array α) : (colNormsNoReset M w).size = w.size := by
  unfold colNormsNoReset; rw [size_foldl_bump _ (fun e => e.2.1)]

theorem size_colNorms (M : Csc α) (w : Array α) : (colNorms M w).size = w.size := by
  unfold colNorms; rw [size_colNormsNoReset]; simp

theorem size_colNormsSym (M : Csc α) (w : Array α) : (colNormsSym M w).size = w.size := by
  unfold colNormsSym; rw [size_foldl_bump2]; simp

/-- the KKT column norm of an all-zero column of `[P; A]` (`P` stored as a triangle: the
column of the symmetric matrix consists of the entries with row = j or col = j) is 0 -/
theorem kktColNorms_zero (P A : Csc α) (w w' : Array α) (j : Nat)
    (hP : ZeroWhere P (fun r c => r = j ∨ c = j)) (hA : ZeroWhere A (fun _ c => c = j)) :
    (kktColNorms P A w w').1.getD j 0 = 0 := by
  unfold kktColNorms colNormsNoReset colNormsSym
  apply foldl_bump_zero _ (fun e => e.2.1) _ _ hA
  apply foldl_bump2_zero _ _ _ hP
  simp [Array.getD]

theorem size_clipWork (w c : Array α) (lo hi : α) : (clipWork w c lo hi).size = w.size := by
  simp [clipWork]

theorem size_stepScalings (s : Settings α) (dt : ProblemData α) :
    (stepScalings s dt).1.size = dt.equilibration.dinv.size ∧
    (stepScalings s dt).2.size = dt.equilibration.einv.size := by
  simp [stepScalings, kktColNorms, size_clipWork, Vec.rsqrt, unzero, size_rowNorms,
    size_colNormsNoReset, size_colNormsSym]

/-! projections of one pass -/

theorem ruizStep_A (s : Settings α) (dt : ProblemData α) :
    (ruizStep s dt).A = lrscale dt.A (stepScalings s dt).2 (stepScalings s dt).1 := by
  unfold ruizStep applyCost; simp only []; split <;> rfl

theorem ruizStep_e (s : Settings α) (dt : ProblemData α) :
    (ruizStep s dt).equilibration.e = hadamardInPlace dt.equilibration.e (stepScalings s dt).2 := by
  unfold ruizStep applyCost; simp only []; split <;> rfl

theorem ruizStep_d (s : Settings α) (dt : ProblemData α) :
    (ruizStep s dt).equilibration.d = hadamardInPlace dt.equilibration.d (stepScalings s dt).1 := by
  unfold ruizStep applyCost; simp only []; split <;> rfl

theorem ruizStep_einv (s : Settings α) (dt : ProblemData α) :
    (ruizStep s dt).equilibration.einv = (stepScalings s dt).2 := by
  unfold ruizStep applyCost; simp only []; split <;> rfl

theorem costScaling_fst (s : Settings α) (dt : ProblemData α) :
    (costScaling s dt).1 = colNorms dt.P dt.equilibration.dinv := by
  unfold costScaling; simp only []; split <;> rfl

theorem ruizStep_dinv_size (s : Settings α) (dt : ProblemData α) :
    (ruizStep s dt).equilibration.dinv.size = dt.equilibration.dinv.size := by
  have : (ruizStep s dt).equilibration.dinv =
      (costScaling s (applyScaling dt (some (stepScalings s dt).1) (stepScalings s dt).2)).1 := by
    unfold ruizStep applyCost; simp only []; split <;> rfl
  rw [this, costScaling_fst, size_colNorms]
  simp [applyScaling, (size_stepScalings s dt).1]

theorem ruizStep_P (s : Settings α) (dt : ProblemData α) :
    (ruizStep s dt).P = lrscale dt.P (stepScalings s dt).1 (stepScalings s dt).1 ∨
    ∃ ct, (ruizStep s dt).P = scaleMat (lrscale dt.P (stepScalings s dt).1 (stepScalings s dt).1) ct := by
  unfold ruizStep applyCost; simp only []
  split
  · rename_i ct _; exact Or.inr ⟨ct, rfl⟩
  · exact Or.inl rfl

theorem ZeroWhere.lrscale {M : Csc α} {p : Nat → Nat → Prop} (h : ZeroWhere M p) (l r : Array α) :
    ZeroWhere (lrscale M l r) p :=
  ZeroWhere.mapEntries h _ (fun _ _ => zero_mul _)

theorem ZeroWhere.scaleMat {M : Csc α} {p : Nat → Nat → Prop} (h : ZeroWhere M p) (c : α) :
    ZeroWhere (scaleMat M c) p := by
  rw [entries_scaleMat_eq]
  exact ZeroWhere.mapEntries h _ (fun _ _ => zero_mul _)

/-! ### rows -/

/-- an all-zero row `i` of `A` with `eᵢ = 1` (and room in the work vector) -/
structure ZRow (i : Nat) (dt : ProblemData α) : Prop where
  zero : RowZero dt.A i
  ie : i < dt.equilibration.e.size
  iw : i < dt.equilibration.einv.size
  one : dt.equilibration.e.getD i 1 = 1

theorem ZRow.ruizStep {i : Nat} {dt : ProblemData α} (h : ZRow i dt) (s : Settings α)
    (hsqrt : sqrt (1:α) = 1) (h1 : s.minScaling ≤ 1) (h2 : 1 ≤ s.maxScaling) :
    ZRow i (ruizStep s dt) := by
  refine ⟨?_, ?_, ?_, zero_row_step s dt i hsqrt h1 h2 h.zero h.iw h.ie h.one⟩
  · rw [ruizStep_A]
    exact ((rowZero_iff _ _).mp h.zero).lrscale _ _
  · rw [ruizStep_e, size_hadamardInPlace]; exact h.ie
  · rw [ruizStep_einv, (size_stepScalings s dt).2]; exact h.iw

theorem ZRow.ruizLoop {i : Nat} {dt : ProblemData α} (h : ZRow i dt) (s : Settings α)
    (hsqrt : sqrt (1:α) = 1) (h1 : s.minScaling ≤ 1) (h2 : 1 ≤ s.maxScaling) (k : Nat) :
    ZRow i (ruizLoop s k dt) := by
  induction k generalizing dt with
  | zero => exact h
  | succ k ih => exact ih (h.ruizStep s hsqrt h1 h2)

/-! ### columns -/

/-- an all-zero column `j` of `[P; A]` with `dⱼ = 1` -/
structure ZCol (j : Nat) (dt : ProblemData α) : Prop where
  zeroA : ZeroWhere dt.A (fun _ c => c = j)
  zeroP : ZeroWhere dt.P (fun r c => r = j ∨ c = j)
  jd : j < dt.equilibration.d.size
  jw : j < dt.equilibration.dinv.size
  one : dt.equilibration.d.getD j 1 = 1

theorem zero_col_step (s : Settings α) (dt : ProblemData α) (j : Nat) (hsqrt : sqrt (1:α) = 1)
    (h1 : s.minScaling ≤ 1) (h2 : 1 ≤ s.maxScaling) (h : ZCol j dt) :
    (ruizStep s dt).equilibration.d.getD j 1 = 1 := by
  have hsz : (kktColNorms dt.P dt.A dt.equilibration.dinv dt.equilibration.einv).1.size =
      dt.equilibration.dinv.size := by
    simp [kktColNorms, size_colNormsNoReset, size_colNormsSym]
  have key := clipWork_zero_norm (kktColNorms dt.P dt.A dt.equilibration.dinv dt.equilibration.einv).1
    dt.equilibration.d s.minScaling s.maxScaling j hsqrt (kktColNorms_zero _ _ _ _ _ h.zeroP h.zeroA)
    (by rw [hsz]; exact h.jw) h.jd h.one h1 h2
  rw [ruizStep_d, getD_hadamardInPlace _ _ _ _ h.jd, h.one, one_mul]
  simpa [stepScalings] using key

theorem ZCol.ruizStep {j : Nat} {dt : ProblemData α} (h : ZCol j dt) (s : Settings α)
    (hsqrt : sqrt (1:α) = 1) (h1 : s.minScaling ≤ 1) (h2 : 1 ≤ s.maxScaling) :
    ZCol j (ruizStep s dt) := by
  refine ⟨?_, ?_, ?_, ?_, zero_col_step s dt j hsqrt h1 h2 h⟩
  · rw [ruizStep_A]
    exact h.zeroA.lrscale _ _
  · have hl := h.zeroP.lrscale (stepScalings s dt).1 (stepScalings s dt).1
    rcases ruizStep_P s dt with hP | ⟨ct, hP⟩
    · rw [hP]; exact hl
    · rw [hP]; exact hl.scaleMat ct
  · rw [ruizStep_d, size_hadamardInPlace]; exact h.jd
  · rw [ruizStep_dinv_size]; exact h.jw

theorem ZCol.ruizLoop {j : Nat} {dt : ProblemData α} (h : ZCol j dt) (s : Settings α)
    (hsqrt : sqrt (1:α) = 1) (h1 : s.minScaling ≤ 1) (h2 : 1 ≤ s.maxScaling) (k : Nat) :
    ZCol j (ruizLoop s k dt) := by
  induction k generalizing dt with
  | zero => exact h
  | succ k ih => exact ih (h.ruizStep s hsqrt h1 h2)

omit [LinearOrder α] [IsStrictOrderedRing α] [LawfulFloatLike α] in
/-- `finish` does not touch `d` -/
theorem finish_d (dt : ProblemData α) (cones : List (ConeT α)) :
    (finish dt cones).equilibration.d = dt.equilibration.d := by
  simp only [finish, setInverses, rectifyStep]
  split <;> rfl

end zero
end Clarabel.Equil
